(* Refinement: the heap-array event list (eventlist.py) implements the sorted
   multiset specification, for every history, given the heap-library contract.
   The contract is discharged for the heapq transcription in HeapqProofs.v. *)
From Coq Require Import ZArith List Bool Lia Permutation Sorted Arith.
From PV Require Import EventList.Key EventList.KeyProofs EventList.Model.
Import ListNotations.

Definition kle (a b : key) : Prop := key_leb a b = true.
Definition sorted (l : list key) : Prop := StronglySorted kle l.

(* ---------- insertion sort facts ---------- *)
Lemma insert_perm k l : Permutation (insert k l) (k :: l).
Proof.
  induction l as [|x r IH]; cbn; [reflexivity|].
  destruct (key_leb k x); [reflexivity|].
  rewrite IH. apply perm_swap.
Qed.

Lemma isort_perm l : Permutation (isort l) l.
Proof.
  induction l as [|x r IH]; cbn; [reflexivity|].
  rewrite insert_perm. constructor. exact IH.
Qed.

Lemma insert_sorted k l : sorted l -> sorted (insert k l).
Proof.
  induction 1 as [|x r Hs IH Hall]; cbn.
  - constructor; constructor.
  - destruct (key_leb k x) eqn:E.
    + constructor; [constructor; assumption|].
      constructor; [exact E|].
      eapply Forall_impl; [|exact Hall]. intros y Hy. eapply key_leb_trans; eassumption.
    + constructor; [exact IH|].
      assert (Hxk : kle x k).
      { destruct (key_leb_total k x) as [H|H]; [congruence|exact H]. }
      eapply Permutation_Forall; [symmetry; apply insert_perm|].
      constructor; assumption.
Qed.

Lemma isort_sorted l : sorted (isort l).
Proof. induction l; cbn; [constructor|apply insert_sorted; assumption]. Qed.

Lemma sorted_perm_unique l l' : sorted l -> sorted l' -> Permutation l l' -> l = l'.
Proof.
  intros Hs; revert l'. induction Hs as [|x r Hs IH Hall]; intros l' Hs' Hp.
  - apply Permutation_nil in Hp. congruence.
  - destruct l' as [|y r']; [apply Permutation_sym, Permutation_nil in Hp; discriminate|].
    inversion Hs' as [|? ? Hs'r Hall']; subst.
    assert (x = y).
    { assert (In x (y :: r')) by (eapply Permutation_in; [exact Hp|left; reflexivity]).
      assert (In y (x :: r)) by (eapply Permutation_in; [symmetry; exact Hp|left; reflexivity]).
      cbn in *.
      destruct H as [->|Hx]; [reflexivity|].
      destruct H0 as [->|Hy]; [reflexivity|].
      rewrite Forall_forall in Hall, Hall'.
      apply key_leb_antisym; [apply Hall; exact Hy|apply Hall'; exact Hx]. }
    subst y. f_equal. apply IH; [exact Hs'r|].
    eapply Permutation_cons_inv; exact Hp.
Qed.

Lemma perm_isort_eq l l' : Permutation l l' -> isort l = isort l'.
Proof.
  intros Hp. apply sorted_perm_unique; try apply isort_sorted.
  rewrite !isort_perm. exact Hp.
Qed.

Lemma isort_sorted_id l : sorted l -> isort l = l.
Proof.
  intros Hs. apply sorted_perm_unique; [apply isort_sorted|exact Hs|apply isort_perm].
Qed.

Lemma isort_cons_insert k l : isort (k :: l) = insert k (isort l).
Proof. reflexivity. Qed.

Lemma insert_min k l : sorted l -> Forall (kle k) l -> insert k l = k :: l.
Proof.
  intros _ Hall. destruct l as [|x r]; [reflexivity|].
  cbn. inversion Hall; subst. unfold kle in *. rewrite H1. reflexivity.
Qed.

(* ---------- membership, count, remove ---------- *)
Lemma memk_In k l : memk k l = true <-> In k l.
Proof.
  induction l as [|x r IH]; cbn; [split; [discriminate|tauto]|].
  rewrite orb_true_iff, IH, key_eqb_eq. split; intros [H|H]; auto.
Qed.

Lemma memk_perm k l l' : Permutation l l' -> memk k l = memk k l'.
Proof.
  intros Hp. destruct (memk k l) eqn:E; symmetry.
  - apply memk_In. eapply Permutation_in; [exact Hp|]. apply memk_In; exact E.
  - destruct (memk k l') eqn:E'; [|reflexivity].
    apply memk_In in E'. apply Permutation_sym in Hp.
    apply (Permutation_in _ Hp) in E'. apply memk_In in E'. congruence.
Qed.

Lemma countk_memk k l : Nat.ltb 0 (countk k l) = memk k l.
Proof.
  induction l as [|x r IH]; cbn; [reflexivity|].
  destruct (key_eqb k x); cbn; [reflexivity|exact IH].
Qed.

Lemma impl_contains_memk h k : impl_contains h k = memk k h.
Proof. unfold impl_contains. destruct h; [reflexivity|apply countk_memk]. Qed.

Lemma remove1_perm_cons k l : memk k l = true -> Permutation l (k :: remove1 k l).
Proof.
  induction l as [|x r IH]; cbn; [discriminate|].
  destruct (key_eqb k x) eqn:E.
  - apply key_eqb_eq in E. subst. reflexivity.
  - cbn. intros H. rewrite (IH H) at 1. apply perm_swap.
Qed.

Lemma remove1_perm k l l' :
  Permutation l l' -> memk k l = true -> Permutation (remove1 k l) (remove1 k l').
Proof.
  intros Hp Hm.
  apply Permutation_cons_inv with (a := k).
  rewrite <- (remove1_perm_cons k l Hm).
  rewrite <- (remove1_perm_cons k l'); [exact Hp|].
  rewrite <- (memk_perm k l l' Hp). exact Hm.
Qed.

Lemma remove1_incl k l x : In x (remove1 k l) -> In x l.
Proof.
  induction l as [|y r IH]; cbn; [tauto|].
  destruct (key_eqb k y); cbn; [auto|]. intros [H|H]; auto.
Qed.

Lemma remove1_sorted k l : sorted l -> sorted (remove1 k l).
Proof.
  induction 1 as [|x r Hs IH Hall]; cbn; [constructor|].
  destruct (key_eqb k x); [exact Hs|].
  constructor; [exact IH|].
  rewrite Forall_forall in *. intros y Hy. apply Hall. eapply remove1_incl; exact Hy.
Qed.

Lemma remove1_notin k l : memk k l = false -> remove1 k l = l.
Proof.
  induction l as [|x r IH]; cbn; [reflexivity|].
  destruct (key_eqb k x); cbn; [discriminate|]. intros H. rewrite IH; auto.
Qed.

(* ---------- heaps ---------- *)
Definition is_heap (h : list key) : Prop :=
  forall i, 0 < i < length h -> kle (get h (Nat.div2 (i - 1))) (get h i).

Lemma div2_lt i : 0 < i -> Nat.div2 (i - 1) < i.
Proof.
  intros H. rewrite Nat.div2_div. apply Nat.div_lt_upper_bound; lia.
Qed.

Lemma heap_root_min h : is_heap h -> forall i, i < length h -> kle (get h 0) (get h i).
Proof.
  intros Hh i. induction i as [i IH] using lt_wf_ind. intros Hi.
  destruct (Nat.eq_dec i 0) as [->|Hne]; [apply key_leb_refl|].
  assert (Hp : Nat.div2 (i - 1) < i) by (apply div2_lt; lia).
  eapply key_leb_trans; [apply IH; [exact Hp|lia]|].
  apply Hh. lia.
Qed.

Lemma heap_root_min_In h x : is_heap h -> In x h -> kle (get h 0) x.
Proof.
  intros Hh Hin. destruct (In_nth _ _ dflt Hin) as [i [Hi <-]].
  apply heap_root_min; assumption.
Qed.

Lemma is_heap_nil : is_heap [].
Proof. intros i [_ H]. cbn in H. lia. Qed.

Record heap_contract (L : heaplib) : Prop := {
  hc_push_heap : forall h k, is_heap h -> is_heap (hpush L h k);
  hc_push_perm : forall h k, Permutation (hpush L h k) (k :: h);
  hc_pop_nil : hpop L [] = None;
  hc_pop_some : forall h, h <> [] ->
      exists h', hpop L h = Some (get h 0, h') /\
                 Permutation h (get h 0 :: h') /\ (is_heap h -> is_heap h');
  hc_heapify_heap : forall h, is_heap (hheapify L h);
  hc_heapify_perm : forall h, Permutation (hheapify L h) h
}.

Section Refinement.
  Variable L : heaplib.
  Hypothesis HC : heap_contract L.

  (* abstraction function: the sorted contents of the heap array *)
  Definition abs (h : list key) : list key := isort h.

  Lemma abs_pop h h' :
    is_heap h -> h <> [] -> Permutation h (get h 0 :: h') ->
    abs h = get h 0 :: abs h'.
  Proof.
    intros Hh Hne Hp. unfold abs.
    rewrite (perm_isort_eq _ _ Hp). rewrite isort_cons_insert.
    apply insert_min; [apply isort_sorted|].
    rewrite Forall_forall. intros y Hy.
    apply heap_root_min_In; [exact Hh|].
    eapply Permutation_in; [symmetry; exact Hp|]. right.
    eapply Permutation_in; [apply isort_perm|exact Hy].
  Qed.

  Lemma hd_error_abs h : is_heap h -> hd_error h = hd_error (abs h).
  Proof.
    intros Hh. destruct h as [|x r] eqn:E; [reflexivity|].
    destruct (hc_pop_some L HC (x :: r)) as [h' [_ [Hp _]]]; [discriminate|].
    rewrite (abs_pop (x :: r) h' Hh); [reflexivity|discriminate|exact Hp].
  Qed.

  Theorem refine_step h op :
    is_heap h ->
    let '(h', o) := impl_step L h op in
    let '(s', o') := spec_step (abs h) op in
    is_heap h' /\ abs h' = s' /\ o = o'.
  Proof.
    intros Hh. destruct op as [k|k| | |k| | | | |]; cbn [impl_step spec_step].
    - (* add *)
      split; [apply (hc_push_heap L HC); exact Hh|]. split; [|reflexivity].
      unfold abs. rewrite (perm_isort_eq _ _ (hc_push_perm L HC h k)). reflexivity.
    - (* remove *)
      rewrite impl_contains_memk. unfold abs.
      rewrite <- (memk_perm k _ _ (isort_perm h)).
      destruct (memk k (isort h)) eqn:E; cbn iota beta.
      + split; [apply (hc_heapify_heap L HC)|]. split; [|reflexivity].
        unfold abs. rewrite (perm_isort_eq _ _ (hc_heapify_perm L HC _)).
        apply sorted_perm_unique; [apply isort_sorted|apply remove1_sorted, isort_sorted|].
        rewrite isort_perm. symmetry. apply remove1_perm; [apply isort_perm|exact E].
      + auto.
    - (* pop *)
      destruct h as [|x r] eqn:E; [cbn; auto using is_heap_nil|]. rewrite <- E in *.
      assert (Hne : h <> []) by (subst; discriminate).
      destruct (hc_pop_some L HC h Hne) as [h' [Hpop [Hp Hh']]].
      rewrite Hpop. rewrite (abs_pop h h' Hh Hne Hp).
      split; [apply Hh'; exact Hh|]. split; reflexivity.
    - (* peek *)
      split; [exact Hh|]. split; [reflexivity|]. f_equal. apply hd_error_abs; exact Hh.
    - (* contains *)
      split; [exact Hh|]. split; [reflexivity|]. f_equal.
      rewrite impl_contains_memk. symmetry. apply memk_perm, isort_perm.
    - (* size *)
      split; [exact Hh|]. split; [reflexivity|]. f_equal.
      symmetry. apply Permutation_length, isort_perm.
    - (* is_empty *)
      split; [exact Hh|]. split; [reflexivity|]. f_equal.
      pose proof (Permutation_length (isort_perm h)) as Hl. unfold abs.
      destruct (isort h), h; cbn in *; try reflexivity; discriminate.
    - (* clear *)
      split; [apply is_heap_nil|]. split; reflexivity.
    - (* str *)
      split; [exact Hh|]. split; reflexivity.
    - (* repr *)
      split; [exact Hh|]. split; reflexivity.
  Qed.

  (* every history *)
  Theorem refine_history ops : forall h,
    is_heap h ->
    let '(h', os) := run_ops (impl_step L) h ops in
    let '(s', os') := run_ops spec_step (abs h) ops in
    is_heap h' /\ abs h' = s' /\ os = os'.
  Proof.
    induction ops as [|op r IH]; intros h Hh; cbn [run_ops].
    - auto.
    - pose proof (refine_step h op Hh) as Hstep.
      destruct (impl_step L h op) as [h1 o].
      destruct (spec_step (abs h) op) as [s1 o1].
      destruct Hstep as [Hh1 [Habs ->]]. subst s1.
      specialize (IH h1 Hh1).
      destruct (run_ops (impl_step L) h1 r) as [h2 os].
      destruct (run_ops spec_step (abs h1) r) as [s2 os2].
      destruct IH as [? [? ->]]. auto.
  Qed.

  Corollary refine_from_empty ops :
    let '(h', os) := run_ops (impl_step L) [] ops in
    let '(s', os') := run_ops spec_step [] ops in
    is_heap h' /\ abs h' = s' /\ os = os'.
  Proof. apply (refine_history ops [] is_heap_nil). Qed.

  (* draining the implementation yields the sorted contents *)
  Lemma drain_impl_S n h : h <> [] ->
    drain_impl L (S n) h =
    match hpop L h with Some (x, h') => x :: drain_impl L n h' | None => [] end.
  Proof. destruct h; [congruence|reflexivity]. Qed.

  Lemma drain_sorted h : forall n, is_heap h -> n = length h -> drain_impl L n h = abs h.
  Proof.
    intros n; revert h. induction n as [|n IH]; intros h Hh Hn.
    - destruct h; [reflexivity|discriminate].
    - assert (Hne : h <> []) by (destruct h; [discriminate|congruence]).
      destruct (hc_pop_some L HC h Hne) as [h' [Hpop [Hp Hh']]].
      rewrite (drain_impl_S n h Hne), Hpop.
      rewrite (abs_pop h h' Hh Hne Hp). f_equal. apply IH; [auto|].
      apply Permutation_length in Hp. cbn in Hp. lia.
  Qed.
End Refinement.

(* ---------- properties of the specification itself ---------- *)
Lemma spec_step_sorted s op : sorted s -> sorted (fst (spec_step s op)).
Proof.
  intros Hs. destruct op as [k|k| | |k| | | | |]; cbn; try assumption.
  - apply insert_sorted; exact Hs.
  - destruct (memk k s); cbn; [apply remove1_sorted|]; exact Hs.
  - destruct s; cbn; [constructor|]. inversion Hs; assumption.
  - constructor.
Qed.

(* Observers -- peek_first, contains, size, is_empty, str, repr -- leave the queue as it is: the
   abstract queue, and the heap array itself. *)
Lemma spec_observer_unchanged s op : is_observer op = true -> fst (spec_step s op) = s.
Proof. destruct op; cbn; intros H; try discriminate H; reflexivity. Qed.

Lemma impl_observer_unchanged L h op : is_observer op = true -> fst (impl_step L h op) = h.
Proof. destruct op; cbn; intros H; try discriminate H; reflexivity. Qed.

(* The popped / peeked element is the minimum of what is pending. *)
Lemma spec_pop_min s x r :
  sorted s -> spec_step s OpPop = (r, OutKey (Some x)) ->
  s = x :: r /\ Forall (kle x) r.
Proof.
  intros Hs. cbn. destruct s as [|y t]; [discriminate|].
  intros H; inversion H; subst. split; [reflexivity|]. inversion Hs; assumption.
Qed.

(* Removal does not disturb the order of the others:
   the drain after remove is the old drain with that event taken out. *)
Lemma spec_remove_order s k :
  sorted s -> fst (spec_step s (OpRemove k)) = remove1 k s.
Proof.
  intros _. cbn. destruct (memk k s) eqn:E; cbn; [reflexivity|].
  symmetry. apply remove1_notin; exact E.
Qed.

(* ---------- the pinned tree's remove() breaks the refinement ---------- *)
Definition k_ (t : Z) (i : Z) : key := mkKey t (-5) i.

Definition refute_ops : list el_op :=
  [OpAdd (k_ 7 0); OpAdd (k_ 3 1); OpAdd (k_ 6 2); OpAdd (k_ 6 3);
   OpRemove (k_ 3 1); OpPop; OpPop; OpPop].

Lemma remove_without_heapify_refuted :
  exists ops,
    snd (run_ops (impl_step_noheapify heapq) [] ops) <> snd (run_ops spec_step [] ops).
Proof. exists refute_ops. vm_compute. intros H. discriminate H. Qed.
