(* Number structure and result monad shared by the distribution models.

   The draw / constructor / density functions of Dist/Draw.v and
   Dist/Density.v are written ONCE over a record [num] of operations.
   Two instances exist:
     - Dist/NumF.v : PrimFloat, libm functions as oracle tables handed in by
       the harness (executed by vm_compute, compared bit-exactly with CPython);
     - Dist/DrawR.v: Coq reals with ln / exp / Rpower (theorems).
   Python exceptions are data; an oracle-table miss is its own constructor and
   is never replaced by a default value.

   Executable definitions only (no proofs). *)
From Coq Require Import ZArith List Bool.
Import ListNotations.

(* Python exception types that the modelled code can raise. *)
Inductive exn := EValue | EZeroDiv | EOverflow | EType.

(* external functions that are looked up in oracle tables (float instance) *)
Inductive fnid := FLog | FExp | FPow | FPowOp | FErf | FGamma | FLgamma.

Inductive err :=
| Raise (e : exn)                     (* a Python exception *)
| Miss (f : fnid) (args : list Z)     (* oracle table has no entry (args = encoded floats) *)
| NoUniform                           (* recorded stream output exhausted *)
| Unmodelled.                         (* value outside the model (e.g. complex result of ** ) *)

Inductive res (A : Type) : Type :=
| Val (a : A)
| Err (e : err).
Arguments Val {A} a.
Arguments Err {A} e.

Definition rbind {A B} (r : res A) (f : A -> res B) : res B :=
  match r with Val a => f a | Err e => Err e end.

Definition rmap {A B} (f : A -> B) (r : res A) : res B :=
  match r with Val a => Val (f a) | Err e => Err e end.

Record num := mkNum {
  T : Type;
  ofZ : Z -> T;                 (* int -> float conversion (exact for the ints used) *)
  ofD : Z -> Z -> T;            (* the binary64 constant m * 2^e *)
  cE : T;                       (* math.e *)
  cPi : T;                      (* math.pi *)
  add : T -> T -> T;
  sub : T -> T -> T;
  mul : T -> T -> T;
  neg : T -> T;
  nabs : T -> T;
  div : T -> T -> res T;        (* float / float: ZeroDivisionError on a zero divisor *)
  ltb : T -> T -> bool;
  leb : T -> T -> bool;
  eqb : T -> T -> bool;
  isinf : T -> bool;            (* math.isinf *)
  nsqrt : T -> res T;           (* math.sqrt: ValueError below zero *)
  nlog : T -> res T;            (* math.log *)
  nexp : T -> res T;            (* math.exp: OverflowError possible *)
  nerf : T -> res T;            (* math.erf *)
  nerfinv : T -> res T;         (* pydsol.core.utils.erf_inv *)
  ngamma : T -> res T;          (* math.gamma *)
  nlgamma : T -> res T;         (* math.lgamma *)
  npow : T -> T -> res T;       (* math.pow *)
  npowop : T -> T -> res T;     (* the ** operator on floats *)
  nfloor : T -> res Z           (* math.floor: int result; raises on inf / nan *)
}.

(* int -> float where an unbounded Python int (math.comb, math.factorial) meets a
   float: CPython raises OverflowError ("int too large to convert to float") when
   the correctly rounded value is beyond the double range.  [ofZ] of such an
   integer is the infinity in the float instance; over the reals nothing is. *)
Definition ofZc (N : num) (z : Z) : res (T N) :=
  if isinf N (ofZ N z) then Err (Raise EOverflow) else Val (ofZ N z).

(* try: <r>  except <e>: <h> *)
Definition exn_same (a b : exn) : bool :=
  match a, b with
  | EValue, EValue | EZeroDiv, EZeroDiv | EOverflow, EOverflow | EType, EType => true
  | _, _ => false
  end.
Definition on_exn {A} (e : exn) (r h : res A) : res A :=
  match r with
  | Err (Raise e') => if exn_same e e' then h else r
  | _ => r
  end.

(* value returned by draw(): Python float or Python int *)
Inductive value (X : Type) := VF (x : X) | VI (z : Z).
Arguments VF {X} x.
Arguments VI {X} z.

(* State-and-exception monad over the not yet consumed stream output.  The
   remaining list is returned also when an exception is raised, so the number
   of uniforms consumed before the raise is observable. *)
Definition M (X A : Type) := list X -> res A * list X.

Definition ret {X A} (a : A) : M X A := fun us => (Val a, us).
Definition bind {X A B} (m : M X A) (f : A -> M X B) : M X B :=
  fun us => match m us with
            | (Val a, r) => f a r
            | (Err e, r) => (Err e, r)
            end.
Definition lift {X A} (r : res A) : M X A := fun us => (r, us).
Definition next {X} : M X X :=
  fun us => match us with
            | [] => (Err NoUniform, [])
            | u :: r => (Val u, r)
            end.

Declare Scope m_scope.
Delimit Scope m_scope with m.
Notation "x <- m ;; f" := (bind m (fun x => f))
  (at level 61, m at next level, right associativity) : m_scope.
