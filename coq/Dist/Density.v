(* C15: probability_density / probability / cumulative_probability /
   inverse_cumulative_probability of the distribution classes of
   pydsol/core/distributions.py, written over the number structure of
   Dist/Num.v (executed with PrimFloat + recorded libm tables in the
   correspondence check, read over the reals in Dist/DensityR.v).

   Python's evaluation order and operators are kept: [npowop] is the **
   operator (also for an int exponent: CPython converts it to float),
   [npow] is math.pow, math.comb / math.factorial are exact integers that are
   converted to float by the mixed int * float / float / int operation, with
   CPython's range check ([ofZc]: OverflowError).  Where the direct formula of
   a probability (binomial, negative binomial, Poisson) or of the Erlang
   density raises OverflowError, the repaired code evaluates in log space
   (proposed_fixes/C15-pmf-overflow.patch, C15-erlang-density-overflow.patch):
   [on_exn EOverflow direct fallback].

   [tv] ("triangular variant") = true is the pinned DistTriangular density,
   which divides by (mode - lo) = 0 at x = lo = mode; false is the repaired one
   (proposed_fixes/C15-triangular-density-degenerate-mode.patch).

   Arguments: densities, cdfs and inverse cdfs take a float, probabilities an
   int (the harness drives them so).  Executable definitions only. *)
From Coq Require Import ZArith List Bool.
From PV Require Import Dist.Num Dist.Draw.
Import ListNotations.

Fixpoint zfact (n : nat) : Z :=
  match n with O => 1%Z | S k => (Z.of_nat n * zfact k)%Z end.

(* math.comb(n, k) for 0 <= k <= n, by the multiplicative formula
   C(n, k) = prod_{j = 1..k'} (n - k' + j) / j  with k' = min(k, n - k): every
   partial product is itself a binomial coefficient, so each division is exact
   (quotients of factorials of four-digit arguments are too slow to execute). *)
Fixpoint zcomb_loop (i : nat) (m j acc : Z) : Z :=
  match i with
  | O => acc
  | S i' => zcomb_loop i' m (j + 1)%Z (acc * (m + j) / j)%Z
  end.

Definition zcomb (n k : Z) : Z :=
  if ((k <? 0) || (n <? k))%Z then 0%Z
  else let k' := Z.min k (n - k) in zcomb_loop (Z.to_nat k') (n - k')%Z 1%Z 1%Z.

Inductive meth := MPdf | MProb | MCdf | MInvCdf.

Section Density.
Variable N : num.
Notation F := (T N).
Notation dist := (dist (T N)).

Notation zero := (zero N).
Notation one := (one N).
Notation two := (two N).
Notation half := (half N).
Notation "a +. b" := (add N a b) (at level 50, left associativity).
Notation "a -. b" := (sub N a b) (at level 50, left associativity).
Notation "a *. b" := (mul N a b) (at level 40, left associativity).
Notation "a /. b" := (div N a b) (at level 40, left associativity).
Notation "-. a" := (neg N a) (at level 35, right associativity).
Notation "a <=. b" := (leb N a b) (at level 70, no associativity).
Notation "a <. b" := (ltb N a b) (at level 70, no associativity).
Notation "x <-- r ;; f" := (rbind r (fun x => f)) (at level 61, r at next level, right associativity).

(* utils.beta(z, w) = exp(lgamma z + lgamma w - lgamma (z + w)) for z, w >= 0 *)
Definition beta_fn (z w : F) : res F :=
  if (z <. zero) || (w <. zero) then Err (Raise EValue)
  else
    lz <-- nlgamma N z ;;
    lw <-- nlgamma N w ;;
    lzw <-- nlgamma N (z +. w) ;;
    nexp N (lz +. lw -. lzw).

(* 1.0 / (sigma * sqrt(2 pi)) * exp(-0.5 * ((x - mu) / sigma) ** 2), with a leading factor *)
Definition normal_kernel (factor mu sigma x : F) : res F :=
  s2pi <-- nsqrt N (two *. cPi N) ;;
  c <-- factor /. (sigma *. s2pi) ;;
  t <-- (x -. mu) /. sigma ;;
  sq <-- npowop N t two ;;
  e <-- nexp N ((-. half) *. sq) ;;
  Val (c *. e).

(* DistTriangular.probability_density *)
Definition tri_pdf (tv : bool) (lo mode hi x : F) : res F :=
  if tv then
    if (lo <=. x) && (x <=. mode) then
      (two *. (x -. lo)) /. ((hi -. lo) *. (mode -. lo))
    else if (mode <=. x) && (x <=. hi) then
      (two *. (hi -. x)) /. ((hi -. lo) *. (hi -. mode))
    else Val zero
  else
    if (lo <=. x) && (x <. mode) then
      (two *. (x -. lo)) /. ((hi -. lo) *. (mode -. lo))
    else if (mode <. x) && (x <=. hi) then
      (two *. (hi -. x)) /. ((hi -. lo) *. (hi -. mode))
    else if eqb N x mode then two /. (hi -. lo)
    else Val zero.

(* probability_density(x) of the continuous classes *)
Definition pdf (tv : bool) (d : dist) (x : F) : res F :=
  match d with
  | DBeta a1 a2 _ _ =>
      if (zero <. x) && (x <. one) then
        p1 <-- npowop N x (a1 -. one) ;;
        p2 <-- npowop N (one -. x) (a2 -. one) ;;
        b <-- beta_fn a1 a2 ;;
        (p1 *. p2) /. b
      else Val zero
  | DConstant c =>
      Val (if eqb N x (as_float N c) then one else zero)
  | DErlang _ k lambda _ =>
      if zero <=. x then
        on_exn EOverflow
          (e <-- nexp N ((-. lambda) *. x) ;;
           p <-- npowop N (lambda *. x) (ofZ N (k - 1)) ;;
           c <-- ofZc N (zfact (Z.to_nat (k - 1))) ;;
           (lambda *. e *. p) /. c)
          (* (lambda x) ** (k - 1) or (k - 1)! beyond the float range: log space *)
          (if eqb N (lambda *. x) zero then Val zero
           else
             l1 <-- nlog N lambda ;;
             l2 <-- nlog N (lambda *. x) ;;
             lg <-- nlgamma N (ofZ N k) ;;
             nexp N (((l1 -. (lambda *. x)) +. (ofZ N (k - 1) *. l2)) -. lg))
      else Val zero
  | DExponential mean =>
      if zero <=. x then
        c <-- one /. mean ;;
        q <-- (-. x) /. mean ;;
        e <-- nexp N q ;;
        Val (c *. e)
      else Val zero
  | DGamma shape scale =>
      if zero <. x then
        p1 <-- npowop N scale (-. shape) ;;
        p2 <-- npowop N x (shape -. one) ;;
        q <-- ((-. one) *. x) /. scale ;;
        e <-- nexp N q ;;
        g <-- ngamma N shape ;;
        (p1 *. p2 *. e) /. g
      else Val zero
  | DLogNormal mu _ c2s2 c2pis2 =>
      if zero <. x then
        l <-- nlog N x ;;
        let xm := l -. mu in
        q <-- (((-. one) *. xm) *. xm) /. c2s2 ;;
        e <-- nexp N q ;;
        e /. (x *. c2pis2)
      else Val zero
  | DNormal mu sigma => normal_kernel one mu sigma x
  | DNormalTrunc mu sigma lo hi _ _ fac =>
      if (x <. lo) || (hi <. x) then Val zero else normal_kernel fac mu sigma x
  | DPearson5 alpha beta _ =>
      if zero <. x then
        p1 <-- npowop N beta alpha ;;
        p2 <-- npowop N x ((-. alpha) -. one) ;;
        q <-- (-. beta) /. x ;;
        e <-- nexp N q ;;
        g <-- ngamma N alpha ;;
        (p1 *. p2 *. e) /. g
      else Val zero
  | DPearson6 a1 a2 beta _ _ =>
      if zero <. x then
        xb <-- x /. beta ;;
        p1 <-- npow N xb (a1 -. one) ;;
        b <-- beta_fn a1 a2 ;;
        p2 <-- npow N (one +. xb) (a1 +. a2) ;;
        p1 /. (beta *. b *. p2)
      else Val zero
  | DTriangular lo mode hi => tri_pdf tv lo mode hi x
  | DUniform lo hi =>
      if (lo <=. x) && (x <=. hi) then one /. (hi -. lo) else Val zero
  | DWeibull alpha beta =>
      if zero <. x then
        p1 <-- npow N beta (-. alpha) ;;
        p2 <-- npow N x (alpha -. one) ;;
        xb <-- x /. beta ;;
        p3 <-- npow N xb alpha ;;
        e <-- nexp N (-. p3) ;;
        Val (alpha *. p1 *. p2 *. e)
      else Val zero
  | _ => Err Unmodelled          (* discrete classes have no density *)
  end.

(* probability(k) of the discrete classes, k a Python int *)
Definition prob (d : dist) (k : Z) : res F :=
  match d with
  | DBernoulli p =>
      Val (if (k =? 0)%Z then one -. p else if (k =? 1)%Z then p else zero)
  | DBinomial n p =>
      if (0 <=? k)%Z && (k <=? n)%Z then
        on_exn EOverflow
          (p1 <-- npowop N p (ofZ N k) ;;
           c <-- ofZc N (zcomb n k) ;;
           p2 <-- npowop N (one -. p) (ofZ N (n - k)) ;;
           Val (c *. p1 *. p2))
          (* the binomial coefficient is beyond the float range (0 < k < n): log space *)
          (if negb ((zero <. p) && (p <. one)) then Val zero
           else
             g1 <-- nlgamma N (ofZ N (n + 1)) ;;
             g2 <-- nlgamma N (ofZ N (k + 1)) ;;
             g3 <-- nlgamma N (ofZ N (n - k + 1)) ;;
             l1 <-- nlog N p ;;
             l2 <-- nlog N (one -. p) ;;
             nexp N ((((g1 -. g2) -. g3) +. (ofZ N k *. l1)) +. (ofZ N (n - k) *. l2)))
      else Val zero
  | DDiscreteUniform lo hi =>
      if (lo <=? k)%Z && (k <=? hi)%Z then one /. (ofZ N (hi - lo) +. one) else Val zero
  | DGeometric p _ =>
      if (0 <=? k)%Z then
        pw <-- npowop N (one -. p) (ofZ N k) ;;
        Val (p *. pw)
      else Val zero
  | DNegBinomial s p _ =>
      if (0 <=? k)%Z then
        on_exn EOverflow
          (p1 <-- npowop N p (ofZ N s) ;;
           c <-- ofZc N (zcomb (s + k - 1) k) ;;
           p2 <-- npowop N (one -. p) (ofZ N k) ;;
           Val (c *. p1 *. p2))
          (g1 <-- nlgamma N (ofZ N (s + k)) ;;
           g2 <-- nlgamma N (ofZ N (k + 1)) ;;
           g3 <-- nlgamma N (ofZ N s) ;;
           l1 <-- nlog N p ;;
           l2 <-- nlog N (one -. p) ;;
           nexp N ((((g1 -. g2) -. g3) +. (ofZ N s *. l1)) +. (ofZ N k *. l2)))
      else Val zero
  | DPoisson rate _ =>
      if (0 <=? k)%Z then
        on_exn EOverflow
          (e <-- nexp N (-. rate) ;;
           pw <-- npowop N rate (ofZ N k) ;;
           c <-- ofZc N (zfact (Z.to_nat k)) ;;
           (e *. pw) /. c)
          (* rate ** k or k! beyond the float range: log space *)
          (l <-- nlog N rate ;;
           lg <-- nlgamma N (ofZ N (k + 1)) ;;
           nexp N (((ofZ N k *. l) -. rate) -. lg))
      else Val zero
  | _ => Err Unmodelled
  end.

(* DistNormal.inverse_cumulative_probability *)
Definition normal_icdf (mu sigma y : F) : res F :=
  s2 <-- nsqrt N two ;;
  e <-- nerfinv N (two *. y -. one) ;;
  Val (mu +. sigma *. s2 *. e).

(* cumulative_probability(x) *)
Definition cdf (d : dist) (x : F) : res F :=
  match d with
  | DNormal mu sigma => cum_prob_nt N mu sigma x
  | DLogNormal mu sigma _ _ =>
      if zero <. x then l <-- nlog N x ;; cum_prob_nt N mu sigma l else Val zero
  | DNormalTrunc mu sigma lo hi cplo _ fac =>
      if x <. lo then Val zero
      else if hi <. x then Val one
      else c <-- cum_prob_nt N mu sigma x ;; Val ((c -. cplo) *. fac)
  | _ => Err Unmodelled
  end.

(* inverse_cumulative_probability(y) *)
Definition icdf (d : dist) (y : F) : res F :=
  match d with
  | DNormal mu sigma => normal_icdf mu sigma y
  | DLogNormal mu sigma _ _ => v <-- normal_icdf mu sigma y ;; nexp N v
  | DNormalTrunc mu sigma lo hi cplo cpdiff _ =>
      if (y <. zero) || (one <. y) then Err (Raise EValue)
      else if eqb N y zero then Val lo
      else if eqb N y one then Val hi
      else normal_icdf mu sigma (cplo +. y *. cpdiff)
  | _ => Err Unmodelled
  end.

(* one call as the harness issues it *)
Definition call (tv : bool) (d : dist) (m : meth) (a : value F) : res F :=
  match m, a with
  | MPdf, VF x => pdf tv d x
  | MProb, VI k => prob d k
  | MCdf, VF x => cdf d x
  | MInvCdf, VF y => icdf d y
  | _, _ => Err Unmodelled
  end.

End Density.
