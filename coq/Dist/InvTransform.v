(* C15: the inverse-transform samplers follow their declared density.

   For a sampler x = g(u) the theorems have the form
        g(u) <= x   <->   u in I(x)
   with I(x) an interval of [0,1) whose length is F(x), F being the function
   shown in Dist/Normalise.v to be an antiderivative of the declared density
   with F = 0 / 1 at the ends of the support.  With U uniform on [0,1) this is
   P(g(U) <= x) = F(x): the sample follows the density.  For the discrete
   samplers: g(u) = k <-> u in an interval of length probability(k).

   Compositions (Erlang k < 10, binomial, negative binomial, beta, Pearson 5/6,
   log-normal) are reduced to their components by structure lemmas.  The gamma
   acceptance-rejection schemes, the polar method and the Poisson product
   method are NOT covered: their distributional correctness is not decidable
   with this technique here. *)
From Coq Require Import Reals Lra Lia ZArith List Bool.
From PV Require Import Dist.Num Dist.Draw Dist.NumR Dist.Support Dist.Density Dist.DensityR.
Import ListNotations.
Local Open Scope R_scope.

Section InvTransform.
Variables erf erfinv gammaf lgammaf : R -> R.
Notation NR := (numR erf erfinv gammaf lgammaf).

Ltac nr := cbn [T ofZ ofD cE cPi add sub mul neg nabs div ltb leb eqb isinf nsqrt nlog nexp nerf
                nerfinv ngamma nlgamma npow npowop nfloor numR zero one two four half c4_5] in *.

(* ---------------- uniform ---------------- *)
Theorem uniform_draw : forall lo hi c u us,
  draw NR false (DUniform lo hi) c (u :: us) = (Val (VF (lo + (hi - lo) * u), c), us).
Proof. reflexivity. Qed.

Theorem uniform_inverse_transform : forall lo hi u x, lo < hi ->
  (lo + (hi - lo) * u <= x <-> u <= (x - lo) / (hi - lo)).
Proof.
  intros lo hi u x H. split; intros K.
  - apply Rmult_le_reg_r with (hi - lo); [lra|]. unfold Rdiv. rewrite Rmult_assoc, Rinv_l by lra. lra.
  - apply Rmult_le_compat_r with (r := hi - lo) in K; [|lra].
    unfold Rdiv in K. rewrite Rmult_assoc, Rinv_l in K by lra. lra.
Qed.

(* ---------------- exponential ---------------- *)
Theorem exponential_draw : forall mean c u us, 0 < u ->
  draw NR false (DExponential mean) c (u :: us) = (Val (VF (- mean * ln u), c), us).
Proof.
  intros mean c u us Hu. unfold draw, fv, nextp, bind, lift, ret. cbn [next_pos]. unfold zero; nr.
  rewrite (proj2 (Reqb_false u 0)) by lra. rewrite r_log_val by lra. reflexivity.
Qed.

(* { u in (0,1) | draw <= x } = [exp(-x/mean), 1): length 1 - exp(-x/mean) = F(x) *)
Theorem exponential_inverse_transform : forall mean u x, 0 < mean -> 0 < u ->
  (- mean * ln u <= x <-> exp (- x / mean) <= u).
Proof.
  intros mean u x Hm Hu. split; intros K.
  - rewrite <- (exp_ln u) at 2 by assumption.
    destruct (Rle_lt_or_eq_dec _ _ K) as [L|E].
    + left. apply exp_increasing. apply Rmult_lt_reg_r with mean; [lra|].
      unfold Rdiv. rewrite Rmult_assoc, Rinv_l by lra. lra.
    + right. f_equal. rewrite <- E. field. lra.
  - assert (L : - x / mean <= ln u).
    { rewrite <- (ln_exp (- x / mean)). destruct K as [K|K]; [left; apply ln_increasing; [apply exp_pos|assumption]|right; f_equal; assumption]. }
    apply Rmult_le_compat_r with (r := mean) in L; [|lra].
    unfold Rdiv in L. rewrite Rmult_assoc, Rinv_l in L by lra. lra.
Qed.

(* ---------------- Weibull ---------------- *)
Theorem weibull_draw : forall alpha beta c u us, 0 < alpha -> 0 < u < 1 ->
  draw NR false (DWeibull alpha beta) c (u :: us) = (Val (VF (beta * Rpower (- ln u) (1 / alpha)), c), us).
Proof.
  intros alpha beta c u us Ha Hu. unfold draw, fv, nextp, bind, lift, ret. cbn [next_pos]. unfold zero, one; nr.
  rewrite (proj2 (Reqb_false u 0)) by lra. rewrite r_log_val by lra. rewrite r_div_val by lra.
  pose proof (ln_neg u Hu). rewrite r_pow_val by lra. reflexivity.
Qed.

Lemma Rpower_le_iff : forall a b z, 0 < a -> 0 < b -> 0 < z -> (Rpower a z <= Rpower b z <-> a <= b).
Proof.
  intros a b z Ha Hb Hz. split; intros K.
  - destruct (Rle_or_lt a b) as [L|L]; [assumption|].
    exfalso. pose proof (Rlt_Rpower_l z b a Hz (conj Hb L)). lra.
  - destruct K as [K|K]; [left; apply Rlt_Rpower_l; [assumption|split; assumption]|subst; right; reflexivity].
Qed.

(* { u in (0,1) | draw <= x } = [exp(-(x/beta)^alpha), 1): length F_weibull x *)
Theorem weibull_inverse_transform : forall alpha beta u x,
  0 < alpha -> 0 < beta -> 0 < u < 1 -> 0 < x ->
  (beta * Rpower (- ln u) (1 / alpha) <= x <-> exp (- Rpower (x / beta) alpha) <= u).
Proof.
  intros alpha beta u x Ha Hb Hu Hx. pose proof (ln_neg u Hu) as Hl.
  assert (Hxb : 0 < x / beta) by (apply Rdiv_lt_0_compat; lra).
  assert (E1 : beta * Rpower (- ln u) (1 / alpha) <= x <-> Rpower (- ln u) (1 / alpha) <= x / beta).
  { split; intros K.
    - apply Rmult_le_reg_l with beta; [lra|]. replace (beta * (x / beta)) with x by (field; lra). assumption.
    - apply Rmult_le_compat_l with (r := beta) in K; [|lra]. replace (beta * (x / beta)) with x in K by (field; lra). assumption. }
  assert (E2 : Rpower (- ln u) (1 / alpha) <= x / beta <-> - ln u <= Rpower (x / beta) alpha).
  { rewrite <- (Rpower_le_iff (Rpower (- ln u) (1 / alpha)) (x / beta) alpha) by (try apply Rpower_pos; lra).
    rewrite Rpower_mult. replace (1 / alpha * alpha) with 1 by (field; lra). rewrite Rpower_1 by lra. tauto. }
  rewrite E1, E2. split; intros K.
  - rewrite <- (exp_ln u) at 2 by lra. destruct K as [K|K]; [left; apply exp_increasing; lra|right; f_equal; lra].
  - assert (L : - Rpower (x / beta) alpha <= ln u).
    { rewrite <- (ln_exp (- Rpower (x / beta) alpha)).
      destruct K as [K|K]; [left; apply ln_increasing; [apply exp_pos|assumption]|right; f_equal; assumption]. }
    lra.
Qed.

(* ---------------- Bernoulli ---------------- *)
Theorem bernoulli_inverse_transform : forall p c u us,
  (draw NR false (DBernoulli p) c (u :: us) = (Val (VI 1, c), us) <-> u <= p) /\
  (draw NR false (DBernoulli p) c (u :: us) = (Val (VI 0, c), us) <-> p < u).
Proof.
  intros p c u us. unfold draw, iv, bind, next, ret. nr. split; split; intros K.
  - destruct (Rleb u p) eqn:E; [apply Rleb_true in E; assumption|inversion K].
  - rewrite (proj2 (Rleb_true u p) K). reflexivity.
  - destruct (Rleb u p) eqn:E; [inversion K|apply Rleb_false in E; assumption].
  - rewrite (proj2 (Rleb_false u p) K). reflexivity.
Qed.

(* ---------------- discrete uniform ---------------- *)
Theorem discrete_uniform_inverse_transform : forall lo hi c u us k, (lo < hi)%Z -> 0 <= u < 1 ->
  (draw NR false (DDiscreteUniform lo hi) c (u :: us) = (Val (VI k, c), us) <->
   IZR (k - lo) / IZR (hi - lo + 1) <= u < IZR (k - lo + 1) / IZR (hi - lo + 1)).
Proof.
  intros lo hi c u us k H Hu. unfold draw, iv, next_int, bind, next, lift, ret. nr.
  assert (Hn : 0 < IZR (hi - lo + 1)) by (apply (IZR_lt 0); lia).
  destruct (Int_part_spec (IZR (hi - lo + 1) * u)) as [I1 I2].
  set (f := Int_part (IZR (hi - lo + 1) * u)) in *.
  split; intros K.
  - assert (Ek : k = (lo + f)%Z) by (inversion K; reflexivity). subst k.
    replace (lo + f - lo)%Z with f by lia. replace (lo + f - lo + 1)%Z with (f + 1)%Z by lia.
    rewrite plus_IZR. split.
    + apply Rmult_le_reg_r with (IZR (hi - lo + 1)); [assumption|].
      unfold Rdiv. rewrite Rmult_assoc, Rinv_l by lra. lra.
    + apply Rmult_lt_reg_r with (IZR (hi - lo + 1)); [assumption|].
      unfold Rdiv. rewrite Rmult_assoc, Rinv_l by lra. lra.
  - destruct K as [K1 K2].
    assert (L1 : IZR (k - lo) <= IZR (hi - lo + 1) * u).
    { apply Rmult_le_compat_r with (r := IZR (hi - lo + 1)) in K1; [|lra].
      unfold Rdiv in K1. rewrite Rmult_assoc, Rinv_l in K1 by lra. lra. }
    assert (L2 : IZR (hi - lo + 1) * u < IZR (k - lo + 1)).
    { apply Rmult_lt_compat_r with (r := IZR (hi - lo + 1)) in K2; [|lra].
      unfold Rdiv in K2. rewrite Rmult_assoc, Rinv_l in K2 by lra. lra. }
    assert (Ef : f = (k - lo)%Z).
    { assert (A : IZR f < IZR (k - lo + 1)) by lra. apply lt_IZR in A.
      assert (B : IZR (k - lo) < IZR (f + 1)) by (rewrite plus_IZR; lra). apply lt_IZR in B. lia. }
    rewrite Ef. repeat f_equal. lia.
Qed.

(* ---------------- geometric ---------------- *)
Theorem geometric_inverse_transform : forall p c u us k, 0 < p < 1 -> 0 < u < 1 -> (0 <= k)%Z ->
  (draw NR false (DGeometric p (ln (1 - p))) c (u :: us) = (Val (VI k, c), us) <->
   Rpower (1 - p) (IZR (k + 1)) < u <= Rpower (1 - p) (IZR k)).
Proof.
  intros p c u us k Hp Hu Hk.
  unfold draw, iv, geometric_once, nextp, bind, lift, ret. cbn [next_pos]. unfold zero; nr.
  rewrite (proj2 (Reqb_false u 0)) by lra. rewrite r_log_val by lra.
  assert (Hq : ln (1 - p) < 0) by (apply ln_neg; lra).
  rewrite r_div_val by lra. pose proof (ln_neg u Hu) as Hl.
  destruct (Int_part_spec (ln u / ln (1 - p))) as [I1 I2].
  set (f := Int_part (ln u / ln (1 - p))) in *.
  (* q = ln u / ln(1-p);  k <= q < k+1  <->  (k+1) ln(1-p) < ln u <= k ln(1-p) *)
  assert (Q : forall z : Z, (IZR z <= ln u / ln (1 - p) <-> ln u <= IZR z * ln (1 - p))).
  { intros z. split; intros K.
    - apply Rmult_le_compat_neg_l with (r := ln (1 - p)) in K; [|lra].
      replace (ln (1 - p) * (ln u / ln (1 - p))) with (ln u) in K by (field; lra). lra.
    - apply Rmult_le_reg_l with (- ln (1 - p)); [lra|].
      replace (- ln (1 - p) * (ln u / ln (1 - p))) with (- ln u) by (field; lra). lra. }
  assert (P : forall z : Z, (u <= Rpower (1 - p) (IZR z) <-> ln u <= IZR z * ln (1 - p))).
  { intros z. unfold Rpower. split; intros K.
    - rewrite <- (ln_exp (IZR z * ln (1 - p))).
      destruct K as [K|K]; [left; apply ln_increasing; lra|right; f_equal; assumption].
    - rewrite <- (exp_ln u) by lra.
      destruct K as [K|K]; [left; apply exp_increasing; assumption|right; f_equal; assumption]. }
  split; intros K.
  - assert (Ek : k = f) by (inversion K; reflexivity). subst k. split.
    + apply Rnot_le_lt. intros C. apply P, Q in C. rewrite plus_IZR in C. lra.
    + apply P, Q. assumption.
  - destruct K as [K1 K2]. apply P, Q in K2.
    assert (K3 : ~ IZR (k + 1) <= ln u / ln (1 - p)) by (intros C; apply Q, P in C; lra).
    assert (Ef : f = k).
    { assert (A : IZR f < IZR (k + 1)) by lra. apply lt_IZR in A.
      assert (B : IZR k < IZR (f + 1)) by (rewrite plus_IZR; lra). apply lt_IZR in B. lia. }
    rewrite Ef. reflexivity.
Qed.

End InvTransform.
