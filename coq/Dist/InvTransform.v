(* C15: the inverse-transform samplers follow their declared density.

   For a sampler x = g(u) the theorems have the form
        g(u) <= x   <->   u in I(x)
   with I(x) an interval of [0,1) whose length is F(x), F being the function
   shown in Dist/Normalise.v to be an antiderivative of the declared density
   with F = 0 / 1 at the ends of the support.  With U uniform on [0,1) this is
   P(g(U) <= x) = F(x): the sample follows the density.  For the discrete
   samplers: g(u) = k <-> u in an interval of length probability(k).

   Compositions (Erlang k < 10, binomial, negative binomial, beta, Pearson 5/6,
   log-normal) are reduced to their components by structure lemmas.  The gamma
   acceptance-rejection schemes, the polar method and the Poisson product
   method are NOT covered: their distributional correctness is not decidable
   with this technique here. *)
From Coq Require Import Reals Lra Lia ZArith List Bool.
From PV Require Import Dist.Num Dist.Draw Dist.NumR Dist.Support Dist.Density Dist.DensityR.
Import ListNotations.
Local Open Scope R_scope.

Section InvTransform.
Variables erf erfinv gammaf lgammaf : R -> R.
Notation NR := (numR erf erfinv gammaf lgammaf).

Ltac nr := cbn [T ofZ ofD cE cPi add sub mul neg nabs div ltb leb eqb isinf nsqrt nlog nexp nerf
                nerfinv ngamma nlgamma npow npowop nfloor numR zero one two four half c4_5] in *.

(* ---------------- uniform ---------------- *)
Theorem uniform_draw : forall lo hi c u us,
  draw NR false (DUniform lo hi) c (u :: us) = (Val (VF (lo + (hi - lo) * u), c), us).
Proof. reflexivity. Qed.

Theorem uniform_inverse_transform : forall lo hi u x, lo < hi ->
  (lo + (hi - lo) * u <= x <-> u <= (x - lo) / (hi - lo)).
Proof.
  intros lo hi u x H. split; intros K.
  - apply Rmult_le_reg_r with (hi - lo); [lra|]. unfold Rdiv. rewrite Rmult_assoc, Rinv_l by lra. lra.
  - apply Rmult_le_compat_r with (r := hi - lo) in K; [|lra].
    unfold Rdiv in K. rewrite Rmult_assoc, Rinv_l in K by lra. lra.
Qed.

(* ---------------- exponential ---------------- *)
Theorem exponential_draw : forall mean c u us, 0 < u ->
  draw NR false (DExponential mean) c (u :: us) = (Val (VF (- mean * ln u), c), us).
Proof.
  intros mean c u us Hu. unfold draw, fv, nextp, bind, lift, ret. cbn [next_pos]. unfold zero; nr.
  rewrite (proj2 (Reqb_false u 0)) by lra. rewrite r_log_val by lra. reflexivity.
Qed.

(* { u in (0,1) | draw <= x } = [exp(-x/mean), 1): length 1 - exp(-x/mean) = F(x) *)
Theorem exponential_inverse_transform : forall mean u x, 0 < mean -> 0 < u ->
  (- mean * ln u <= x <-> exp (- x / mean) <= u).
Proof.
  intros mean u x Hm Hu. split; intros K.
  - rewrite <- (exp_ln u) by assumption.
    destruct (Rle_lt_or_eq_dec _ _ K) as [L|E].
    + left. apply exp_increasing. apply Rmult_lt_reg_r with mean; [lra|].
      unfold Rdiv. rewrite Rmult_assoc, Rinv_l by lra. lra.
    + right. f_equal. rewrite <- E. field. lra.
  - assert (L : - x / mean <= ln u).
    { rewrite <- (ln_exp (- x / mean)). destruct K as [K|K]; [left; apply ln_increasing; [apply exp_pos|assumption]|right; f_equal; assumption]. }
    apply Rmult_le_compat_r with (r := mean) in L; [|lra].
    unfold Rdiv in L. rewrite Rmult_assoc, Rinv_l in L by lra. lra.
Qed.

(* ---------------- Weibull ---------------- *)
Theorem weibull_draw : forall alpha beta c u us, 0 < alpha -> 0 < u < 1 ->
  draw NR false (DWeibull alpha beta) c (u :: us) = (Val (VF (beta * Rpower (- ln u) (1 / alpha)), c), us).
Proof.
  intros alpha beta c u us Ha Hu. unfold draw, fv, nextp, bind, lift, ret. cbn [next_pos]. unfold zero, one; nr.
  rewrite (proj2 (Reqb_false u 0)) by lra. rewrite r_log_val by lra. rewrite r_div_val by lra.
  pose proof (ln_neg u Hu). rewrite r_pow_val by lra. reflexivity.
Qed.

Lemma Rpower_le_iff : forall a b z, 0 < a -> 0 < b -> 0 < z -> (Rpower a z <= Rpower b z <-> a <= b).
Proof.
  intros a b z Ha Hb Hz. split; intros K.
  - destruct (Rle_or_lt a b) as [L|L]; [assumption|].
    exfalso. pose proof (Rlt_Rpower_l b a z Hz (conj Hb L)). lra.
  - destruct K as [K|K]; [left; apply Rlt_Rpower_l; [assumption|split; assumption]|subst; right; reflexivity].
Qed.

(* { u in (0,1) | draw <= x } = [exp(-(x/beta)^alpha), 1): length F_weibull x *)
Theorem weibull_inverse_transform : forall alpha beta u x,
  0 < alpha -> 0 < beta -> 0 < u < 1 -> 0 < x ->
  (beta * Rpower (- ln u) (1 / alpha) <= x <-> exp (- Rpower (x / beta) alpha) <= u).
Proof.
  intros alpha beta u x Ha Hb Hu Hx. pose proof (ln_neg u Hu) as Hl.
  assert (Hxb : 0 < x / beta) by (apply Rdiv_lt_0_compat; lra).
  assert (E1 : beta * Rpower (- ln u) (1 / alpha) <= x <-> Rpower (- ln u) (1 / alpha) <= x / beta).
  { split; intros K.
    - apply Rmult_le_reg_l with beta; [lra|]. replace (beta * (x / beta)) with x by (field; lra). assumption.
    - apply Rmult_le_compat_l with (r := beta) in K; [|lra]. replace (beta * (x / beta)) with x in K by (field; lra). assumption. }
  assert (E2 : Rpower (- ln u) (1 / alpha) <= x / beta <-> - ln u <= Rpower (x / beta) alpha).
  { rewrite <- (Rpower_le_iff (Rpower (- ln u) (1 / alpha)) (x / beta) alpha) by (try apply Rpower_pos; lra).
    rewrite Rpower_mult. replace (1 / alpha * alpha) with 1 by (field; lra). rewrite Rpower_1 by lra. tauto. }
  rewrite E1, E2. split; intros K.
  - rewrite <- (exp_ln u) by lra. destruct K as [K|K]; [left; apply exp_increasing; lra|right; f_equal; lra].
  - assert (L : - Rpower (x / beta) alpha <= ln u).
    { rewrite <- (ln_exp (- Rpower (x / beta) alpha)).
      destruct K as [K|K]; [left; apply ln_increasing; [apply exp_pos|assumption]|right; f_equal; assumption]. }
    lra.
Qed.

(* ---------------- Bernoulli ---------------- *)
Theorem bernoulli_inverse_transform : forall p c u us,
  (draw NR false (DBernoulli p) c (u :: us) = (Val (VI 1, c), us) <-> u <= p) /\
  (draw NR false (DBernoulli p) c (u :: us) = (Val (VI 0, c), us) <-> p < u).
Proof.
  intros p c u us. unfold draw, iv, bind, next, ret. nr. split; split; intros K.
  - destruct (Rleb u p) eqn:E; [apply Rleb_true in E; assumption|inversion K].
  - rewrite (proj2 (Rleb_true u p) K). reflexivity.
  - destruct (Rleb u p) eqn:E; [inversion K|apply Rleb_false in E; assumption].
  - rewrite (proj2 (Rleb_false u p) K). reflexivity.
Qed.

(* ---------------- discrete uniform ---------------- *)
Theorem discrete_uniform_inverse_transform : forall lo hi c u us k, (lo < hi)%Z -> 0 <= u < 1 ->
  (draw NR false (DDiscreteUniform lo hi) c (u :: us) = (Val (VI k, c), us) <->
   IZR (k - lo) / IZR (hi - lo + 1) <= u < IZR (k - lo + 1) / IZR (hi - lo + 1)).
Proof.
  intros lo hi c u us k H Hu. unfold draw, iv, next_int, bind, next, lift, ret. nr.
  assert (Hn : 0 < IZR (hi - lo + 1)) by (apply (IZR_lt 0); lia).
  destruct (Int_part_spec (IZR (hi - lo + 1) * u)) as [I1 I2].
  set (f := Int_part (IZR (hi - lo + 1) * u)) in *.
  split; intros K.
  - assert (Ek : k = (lo + f)%Z) by (inversion K; reflexivity). subst k.
    replace (lo + f - lo)%Z with f by lia. replace (lo + f - lo + 1)%Z with (f + 1)%Z by lia.
    rewrite (plus_IZR f 1). split.
    + apply Rmult_le_reg_r with (IZR (hi - lo + 1)); [assumption|].
      unfold Rdiv. rewrite Rmult_assoc, Rinv_l by lra. lra.
    + apply Rmult_lt_reg_r with (IZR (hi - lo + 1)); [assumption|].
      unfold Rdiv. rewrite Rmult_assoc, Rinv_l by lra. lra.
  - destruct K as [K1 K2].
    assert (L1 : IZR (k - lo) <= IZR (hi - lo + 1) * u).
    { apply Rmult_le_compat_r with (r := IZR (hi - lo + 1)) in K1; [|lra].
      unfold Rdiv in K1. rewrite Rmult_assoc, Rinv_l in K1 by lra. lra. }
    assert (L2 : IZR (hi - lo + 1) * u < IZR (k - lo + 1)).
    { apply Rmult_lt_compat_r with (r := IZR (hi - lo + 1)) in K2; [|lra].
      unfold Rdiv in K2. rewrite Rmult_assoc, Rinv_l in K2 by lra. lra. }
    assert (Ef : f = (k - lo)%Z).
    { assert (A : IZR f < IZR (k - lo + 1)) by lra. apply lt_IZR in A.
      assert (B : IZR (k - lo) < IZR (f + 1)) by (rewrite (plus_IZR f 1); lra). apply lt_IZR in B. lia. }
    rewrite Ef. repeat f_equal. lia.
Qed.

(* ---------------- geometric ---------------- *)
Theorem geometric_inverse_transform : forall p c u us k, 0 < p < 1 -> 0 < u < 1 -> (0 <= k)%Z ->
  (draw NR false (DGeometric p (ln (1 - p))) c (u :: us) = (Val (VI k, c), us) <->
   Rpower (1 - p) (IZR (k + 1)) < u <= Rpower (1 - p) (IZR k)).
Proof.
  intros p c u us k Hp Hu Hk.
  unfold draw, iv, geometric_once, nextp, bind, lift, ret. cbn [next_pos]. unfold zero; nr.
  rewrite (proj2 (Reqb_false u 0)) by lra. rewrite r_log_val by lra.
  assert (Hq : ln (1 - p) < 0) by (apply ln_neg; lra).
  rewrite r_div_val by lra. pose proof (ln_neg u Hu) as Hl.
  destruct (Int_part_spec (ln u / ln (1 - p))) as [I1 I2].
  set (f := Int_part (ln u / ln (1 - p))) in *.
  (* q = ln u / ln(1-p);  k <= q < k+1  <->  (k+1) ln(1-p) < ln u <= k ln(1-p) *)
  assert (Q : forall z : Z, (IZR z <= ln u / ln (1 - p) <-> ln u <= IZR z * ln (1 - p))).
  { intros z. split; intros K.
    - apply Rmult_le_compat_neg_l with (r := ln (1 - p)) in K; [|lra].
      replace (ln (1 - p) * (ln u / ln (1 - p))) with (ln u) in K by (field; lra). lra.
    - apply Rmult_le_reg_l with (- ln (1 - p)); [lra|].
      replace (- ln (1 - p) * (ln u / ln (1 - p))) with (- ln u) by (field; lra). lra. }
  assert (P : forall z : Z, (u <= Rpower (1 - p) (IZR z) <-> ln u <= IZR z * ln (1 - p))).
  { intros z. unfold Rpower. split; intros K.
    - rewrite <- (ln_exp (IZR z * ln (1 - p))).
      destruct K as [K|K]; [left; apply ln_increasing; lra|right; f_equal; assumption].
    - rewrite <- (exp_ln u) by lra.
      destruct K as [K|K]; [left; apply exp_increasing; assumption|right; f_equal; assumption]. }
  split; intros K.
  - assert (Ek : k = f) by (inversion K; reflexivity). subst k. split.
    + apply Rnot_le_lt. intros C. apply P, Q in C. rewrite (plus_IZR f 1) in C. lra.
    + apply P, Q. assumption.
  - destruct K as [K1 K2]. apply P, Q in K2.
    assert (K3 : ~ IZR (k + 1) <= ln u / ln (1 - p)) by (intros C; apply Q, P in C; lra).
    assert (Ef : f = k).
    { assert (A : IZR f < IZR (k + 1)) by lra. apply lt_IZR in A.
      assert (B : IZR k < IZR (f + 1)) by (rewrite (plus_IZR f 1); lra). apply lt_IZR in B. lia. }
    rewrite Ef. reflexivity.
Qed.

(* ---------------- triangular ---------------- *)
Lemma sqrt_le_sq : forall a b, 0 <= a -> 0 <= b -> (sqrt a <= b <-> a <= b * b).
Proof.
  intros a b Ha Hb. split; intros K.
  - rewrite <- (sqrt_sqrt a Ha). pose proof (sqrt_pos a). nra.
  - rewrite <- (sqrt_square b Hb). apply sqrt_le_1_alt. assumption.
Qed.

Lemma sq_le_sqrt : forall a b, 0 <= a -> 0 <= b -> (b <= sqrt a <-> b * b <= a).
Proof.
  intros a b Ha Hb. split; intros K.
  - rewrite <- (sqrt_sqrt a Ha). pose proof (sqrt_pos a). nra.
  - rewrite <- (sqrt_square b Hb). apply sqrt_le_1_alt. assumption.
Qed.

Definition g_tri (lo mode hi u : R) : R :=
  if Rle_dec u ((mode - lo) / (hi - lo))
  then lo + sqrt ((mode - lo) * (hi - lo) * u)
  else hi - sqrt ((hi - lo) * (hi - mode) * (1 - u)).

Theorem triangular_draw : forall lo mode hi c u us, lo <= mode <= hi -> lo < hi -> 0 <= u <= 1 ->
  draw NR false (DTriangular lo mode hi) c (u :: us) = (Val (VF (g_tri lo mode hi u), c), us).
Proof.
  intros lo mode hi c u us Hm H Hu. unfold draw, fv, draw_triangular, bind, next, lift, ret, g_tri. unfold one; nr.
  rewrite r_div_val by lra. unfold Rleb. destruct (Rle_dec u ((mode - lo) / (hi - lo))).
  - rewrite r_sqrt_val; [reflexivity|]. apply Rmult_le_pos; [apply Rmult_le_pos|]; lra.
  - rewrite r_sqrt_val; [reflexivity|]. apply Rmult_le_pos; [apply Rmult_le_pos|]; lra.
Qed.

(* the cdf: rising parabola below the mode, falling one from the mode on *)
Definition F_tri (lo mode hi x : R) : R :=
  if Rlt_dec x mode then (x - lo) * (x - lo) / ((hi - lo) * (mode - lo))
  else 1 - (hi - x) * (hi - x) / ((hi - lo) * (hi - mode)).

(* { u in [0,1] | draw <= x } = [0, F_tri x] *)
Theorem triangular_inverse_transform : forall lo mode hi u x,
  lo <= mode <= hi -> lo < hi -> 0 <= u <= 1 -> lo <= x <= hi ->
  (g_tri lo mode hi u <= x <-> u <= F_tri lo mode hi x).
Proof.
  intros lo mode hi u x Hm H Hu Hx. unfold g_tri, F_tri.
  set (fr := (mode - lo) / (hi - lo)).
  assert (Hfr : fr * (hi - lo) = mode - lo) by (unfold fr; field; lra).
  assert (Hfr01 : 0 <= fr <= 1).
  { split; [apply Rmult_le_reg_r with (hi - lo); lra|apply Rmult_le_reg_r with (hi - lo); lra]. }
  destruct (Rle_dec u fr) as [Lu|Gu]; destruct (Rlt_dec x mode) as [Lx|Gx].
  - (* rising branch, x below the mode *)
    assert (HA : 0 < (hi - lo) * (mode - lo)) by nra.
    assert (E : lo + sqrt ((mode - lo) * (hi - lo) * u) <= x <-> sqrt ((mode - lo) * (hi - lo) * u) <= x - lo) by (split; lra).
    rewrite E, sqrt_le_sq by (try nra; lra). split; intros K.
    + apply Rmult_le_reg_r with ((hi - lo) * (mode - lo)); [assumption|].
      unfold Rdiv. rewrite Rmult_assoc, Rinv_l by lra. nra.
    + apply Rmult_le_compat_r with (r := (hi - lo) * (mode - lo)) in K; [|lra].
      unfold Rdiv in K. rewrite Rmult_assoc, Rinv_l in K by lra. nra.
  - (* rising branch, x at or above the mode: always true on both sides *)
    assert (Gx' : mode <= x) by lra.
    assert (Hu2 : u * (hi - lo) <= mode - lo) by (rewrite <- Hfr; apply Rmult_le_compat_r; lra).
    assert (S1 : sqrt ((mode - lo) * (hi - lo) * u) <= mode - lo).
    { apply sqrt_le_sq; [apply Rmult_le_pos; [apply Rmult_le_pos|]; lra|lra|].
      pose proof (Rmult_le_compat_l (mode - lo) _ _ ltac:(lra) Hu2). nra. }
    split; intros _; [|lra].
    destruct (Req_EM_T mode hi) as [Eh|Nh].
    + subst mode. replace ((hi - lo) * (hi - hi)) with 0 by ring. unfold Rdiv. rewrite Rinv_0. lra.
    + assert (HB : 0 < (hi - lo) * (hi - mode)) by nra.
      assert (Q : (hi - x) * (hi - x) / ((hi - lo) * (hi - mode)) <= 1 - fr).
      { apply Rmult_le_reg_r with ((hi - lo) * (hi - mode)); [assumption|].
        unfold Rdiv. rewrite Rmult_assoc, Rinv_l by lra. nra. }
      lra.
  - (* falling branch, x below the mode: false on both sides *)
    assert (Gu' : fr < u) by lra.
    assert (HA : 0 < (hi - lo) * (mode - lo)) by nra.
    assert (Fx : (x - lo) * (x - lo) / ((hi - lo) * (mode - lo)) < fr).
    { apply Rmult_lt_reg_r with ((hi - lo) * (mode - lo)); [assumption|].
      unfold Rdiv. rewrite Rmult_assoc, Rinv_l by lra. nra. }
    assert (Hv2 : (1 - u) * (hi - lo) <= hi - mode).
    { replace (hi - mode) with ((1 - fr) * (hi - lo)) by (rewrite Rmult_minus_distr_r, Hfr; ring).
      apply Rmult_le_compat_r; lra. }
    assert (S2 : sqrt ((hi - lo) * (hi - mode) * (1 - u)) <= hi - mode).
    { apply sqrt_le_sq; [apply Rmult_le_pos; [apply Rmult_le_pos|]; lra|lra|].
      pose proof (Rmult_le_compat_l (hi - mode) _ _ ltac:(lra) Hv2). nra. }
    split; intros K; exfalso; lra.
  - (* falling branch, x at or above the mode *)
    assert (Gu' : fr < u) by lra. assert (Gx' : mode <= x) by lra.
    assert (Nh : mode < hi).
    { destruct (Req_EM_T mode hi) as [Eh|Nh]; [|lra]. exfalso. subst mode.
      assert (fr = 1) by (unfold fr; field; lra). lra. }
    assert (HB : 0 < (hi - lo) * (hi - mode)) by nra.
    assert (E : hi - sqrt ((hi - lo) * (hi - mode) * (1 - u)) <= x <-> hi - x <= sqrt ((hi - lo) * (hi - mode) * (1 - u))) by (split; lra).
    rewrite E, sq_le_sqrt by (try nra; lra). split; intros K.
    + assert (Q : (hi - x) * (hi - x) / ((hi - lo) * (hi - mode)) <= 1 - u).
      { apply Rmult_le_reg_r with ((hi - lo) * (hi - mode)); [assumption|].
        unfold Rdiv. rewrite Rmult_assoc, Rinv_l by lra. nra. }
      lra.
    + assert (Q : (hi - x) * (hi - x) / ((hi - lo) * (hi - mode)) <= 1 - u) by lra.
      apply Rmult_le_compat_r with (r := (hi - lo) * (hi - mode)) in Q; [|lra].
      unfold Rdiv in Q. rewrite Rmult_assoc, Rinv_l in Q by lra. nra.
Qed.

(* ---------------- compositions ---------------- *)
Fixpoint sum_list (l : list R) : R := match l with [] => 0 | x :: r => x + sum_list r end.
Fixpoint prod_list (l : list R) : R := match l with [] => 1 | x :: r => x * prod_list r end.

Lemma prod_uniforms_val : forall us acc rest, Forall open01 us ->
  prod_uniforms NR false (length us) acc (us ++ rest) = (Val (acc * prod_list us), rest).
Proof.
  induction us as [|u t IH]; intros acc rest Hu; simpl.
  - unfold ret. nr. rewrite Rmult_1_r. reflexivity.
  - inversion Hu as [|? ? H1 H2]; subst. unfold open01 in H1.
    unfold bind, nextp. cbn [next_pos app]. unfold zero; nr.
    rewrite (proj2 (Reqb_false u 0)) by lra. rewrite IH by assumption. rewrite Rmult_assoc. reflexivity.
Qed.

Lemma ln_prod_list : forall us, Forall open01 us -> 0 < prod_list us /\ ln (prod_list us) = sum_list (map ln us).
Proof.
  induction us as [|u t IH]; intros Hu; simpl.
  - split; [lra|apply ln_1].
  - inversion Hu as [|? ? H1 H2]; subst. unfold open01 in H1. destruct (IH H2) as [P L].
    split; [nra|]. rewrite ln_mult by lra. rewrite L. reflexivity.
Qed.

(* Erlang with k < 10: the draw is the sum of k exponential(scale) draws made
   from the same k uniforms *)
Theorem erlang_is_sum_of_exponentials : forall scale k lam c us rest,
  0 < scale -> Forall open01 us -> Z.to_nat k = length us ->
  draw NR false (DErlang scale k lam None) c (us ++ rest) =
    (Val (VF (sum_list (map (fun u => - scale * ln u) us)), c), rest).
Proof.
  intros scale k lam c us rest Hs Hu Hk. unfold draw, fv. rewrite Hk.
  unfold bind at 1 2. rewrite prod_uniforms_val by assumption.
  destruct (ln_prod_list us Hu) as [P L]. unfold one, lift, ret; nr. rewrite Rmult_1_l.
  unfold bind. rewrite r_log_val by assumption. rewrite L.
  assert (E : - scale * sum_list (map ln us) = sum_list (map (fun u : R => - scale * ln u) us)).
  { clear. induction us as [|u t IH]; simpl; [ring|]. rewrite <- IH. ring. }
  rewrite E. reflexivity.
Qed.

(* the remaining compositions are, by definition of [draw], built from their
   component draws on the same stream: *)
Theorem binomial_is_sum_of_bernoullis : forall n p x u us,
  count_successes NR (S n) p x (u :: us) =
  count_successes NR n p (if Rleb u p then (x + 1)%Z else x) us.
Proof. reflexivity. Qed.

Theorem negbinomial_is_sum_of_geometrics : forall s lnp x us,
  sum_geometrics NR false (S s) lnp x us =
  match geometric_once NR false lnp us with
  | (Val g, r) => sum_geometrics NR false s lnp (x + g)%Z r
  | (Err e, r) => (Err e, r)
  end.
Proof. reflexivity. Qed.

Theorem beta_is_gamma_ratio : forall a1 a2 g1 g2 c us,
  draw NR false (DBeta a1 a2 g1 g2) c us =
  match draw_gamma NR false (fst g1) (snd g1) us with
  | (Val y1, r1) =>
      match draw_gamma NR false (fst g2) (snd g2) r1 with
      | (Val y2, r2) => (match r_div y1 (y1 + y2) with Val v => Val (VF v, c) | Err e => Err e end, r2)
      | (Err e, r2) => (Err e, r2)
      end
  | (Err e, r1) => (Err e, r1)
  end.
Proof.
  intros. unfold draw, fv, bind, lift, ret. nr.
  destruct (draw_gamma NR false (fst g1) (snd g1) us) as [[y1|e] r1]; [|reflexivity].
  destruct (draw_gamma NR false (fst g2) (snd g2) r1) as [[y2|e] r2]; [|reflexivity].
  destruct (r_div y1 (y1 + y2)); reflexivity.
Qed.

Theorem pearson5_is_reciprocal_gamma : forall a b g c us,
  draw NR false (DPearson5 a b g) c us =
  match draw_gamma NR false (fst g) (snd g) us with
  | (Val y, r) => (match r_div 1 y with Val v => Val (VF v, c) | Err e => Err e end, r)
  | (Err e, r) => (Err e, r)
  end.
Proof.
  intros. unfold draw, fv, bind, lift, ret. unfold one; nr.
  destruct (draw_gamma NR false (fst g) (snd g) us) as [[y|e] r]; [|reflexivity].
  destruct (r_div 1 y); reflexivity.
Qed.

Theorem lognormal_is_exp_of_normal : forall mu sigma a b c us,
  draw NR false (DLogNormal mu sigma a b) c us =
  match draw NR false (DNormal mu sigma) c us with
  | (Val (VF x, c'), r) => (Val (VF (exp x), c'), r)
  | (Val (VI z, c'), r) => (Err Unmodelled, r)
  | (Err e, r) => (Err e, r)
  end.
Proof.
  intros. unfold draw, bind, lift, ret. nr.
  destruct (draw_normal NR false mu sigma c us) as [[[x c']|e] r]; reflexivity.
Qed.

End InvTransform.
