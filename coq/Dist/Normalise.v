(* C15: the declared densities of the elementary continuous families integrate
   to one, in antiderivative form (Coquelicot [is_derive]): a function F with
   F' = density on the interior of the support, F = 0 at (or towards) the lower
   end and F = 1 at (or towards) the upper end.  The same F is the one the
   inverse-transform theorems of Dist/InvTransform.v are stated with, which ties
   the sampler to the density.  Normal family: cdf' = density, monotonicity and
   range under an explicit contract for erf (not in any installed library). *)
From Coq Require Import Reals Lra Lia ZArith List Bool.
From Coquelicot Require Import Coquelicot.
From PV Require Import Dist.Num Dist.Draw Dist.NumR Dist.Support Dist.Ctor Dist.Density Dist.DensityR.
Import ListNotations.
Local Open Scope R_scope.

Section Normalise.
Variables erf erfinv gammaf lgammaf : R -> R.
Notation NR := (numR erf erfinv gammaf lgammaf).

Ltac nr := cbn [T ofZ ofD cE cPi add sub mul neg nabs div ltb leb eqb isinf nsqrt nlog nexp nerf
                nerfinv ngamma nlgamma npow npowop nfloor numR zero one two four half c4_5] in *.

(* the density as a real function (0 where the model would raise - which, by
   DensityR.pdf_total_nonneg_zero_outside, it never does on accepted instances) *)
Definition pdfv (d : dist R) (x : R) : R :=
  match pdf NR false d x with Val v => v | Err _ => 0 end.

(* ---------------- uniform ---------------- *)
Definition F_uniform (lo hi x : R) : R := (x - lo) / (hi - lo).

Lemma pdfv_uniform : forall lo hi x, lo < hi -> lo <= x <= hi -> pdfv (DUniform lo hi) x = / (hi - lo).
Proof.
  intros lo hi x H Hx. unfold pdfv, pdf. unfold one; nr.
  rewrite (proj2 (Rleb_true lo x)), (proj2 (Rleb_true x hi)) by lra. cbn [andb].
  rewrite r_div_val by lra. unfold Rdiv. ring.
Qed.

Theorem uniform_normalised : forall lo hi, lo < hi ->
  (forall x, lo < x < hi -> is_derive (F_uniform lo hi) x (pdfv (DUniform lo hi) x)) /\
  F_uniform lo hi lo = 0 /\ F_uniform lo hi hi = 1 /\
  is_RInt (pdfv (DUniform lo hi)) lo hi 1.
Proof.
  intros lo hi H. split; [|split; [|split]].
  - intros x Hx. rewrite pdfv_uniform by lra. unfold F_uniform. auto_derive; [exact I|]. field. lra.
  - unfold F_uniform. field. lra.
  - unfold F_uniform. field. lra.
  - apply is_RInt_ext with (f := fun _ => / (hi - lo)).
    + intros x Hx. rewrite Rmin_left, Rmax_right in Hx by lra. rewrite pdfv_uniform by lra. reflexivity.
    + replace 1 with (scal (hi - lo) (/ (hi - lo))) by (unfold scal; simpl; unfold mult; simpl; field; lra).
      apply @is_RInt_const.
Qed.

(* ---------------- exponential ---------------- *)
Definition F_exponential (mean x : R) : R := 1 - exp (- x / mean).

Lemma pdfv_exponential : forall mean x, 0 < mean -> 0 <= x ->
  pdfv (DExponential mean) x = 1 / mean * exp (- x / mean).
Proof.
  intros mean x H Hx. unfold pdfv, pdf. unfold zero, one; nr.
  rewrite (proj2 (Rleb_true 0 x)) by lra. rewrite !r_div_val by lra. reflexivity.
Qed.

Theorem exponential_normalised : forall mean, 0 < mean ->
  (forall x, 0 < x -> is_derive (F_exponential mean) x (pdfv (DExponential mean) x)) /\
  F_exponential mean 0 = 0 /\
  is_lim (F_exponential mean) p_infty 1.
Proof.
  intros mean H. split; [|split].
  - intros x Hx. rewrite pdfv_exponential by lra. unfold F_exponential. auto_derive; [exact I|].
    unfold Rdiv. field. lra.
  - unfold F_exponential. replace (- 0 / mean) with 0 by (field; lra). rewrite exp_0. ring.
  - unfold F_exponential.
    replace (Finite 1) with (Rbar_minus 1 0) by (simpl; f_equal; ring).
    apply is_lim_minus'; [apply is_lim_const|].
    apply is_lim_comp with (l := m_infty); [apply is_lim_exp_m| |].
    + replace m_infty with (Rbar_mult (Rbar_opp p_infty) (/ mean)).
      * apply is_lim_scal_r. apply is_lim_opp. apply is_lim_id.
      * simpl. destruct (Rle_dec 0 (/ mean)) as [Hle|Hn].
        -- destruct (Rle_lt_or_eq_dec 0 (/ mean) Hle) as [Hlt|Heq]; [reflexivity|].
           exfalso. pose proof (Rinv_0_lt_compat mean H). lra.
        -- exfalso. apply Hn. left. apply Rinv_0_lt_compat. assumption.
    + exists 0. intros y Hy. discriminate.
Qed.

(* ---------------- Weibull ---------------- *)
Definition F_weibull (alpha beta x : R) : R := 1 - exp (- Rpower (x / beta) alpha).

Lemma pdfv_weibull : forall alpha beta x, 0 < alpha -> 0 < beta -> 0 < x ->
  pdfv (DWeibull alpha beta) x =
  alpha * Rpower beta (- alpha) * Rpower x (alpha - 1) * exp (- Rpower (x / beta) alpha).
Proof.
  intros alpha beta x Ha Hb Hx. unfold pdfv, pdf. unfold zero, one; nr.
  rewrite (proj2 (Rltb_true 0 x)) by lra.
  assert (0 < x / beta) by (apply Rdiv_lt_0_compat; lra).
  rewrite !r_pow_val by lra. cbn [rbind]. rewrite r_div_val by lra. cbn [rbind].
  rewrite r_pow_val by lra. reflexivity.
Qed.

Lemma weibull_alg : forall alpha beta x, 0 < beta -> 0 < x ->
  alpha * Rpower beta (- alpha) * Rpower x (alpha - 1) = alpha * / x * Rpower (x / beta) alpha.
Proof.
  intros alpha beta x Hb Hx. unfold Rpower, Rdiv.
  rewrite ln_mult, ln_Rinv by (try apply Rinv_0_lt_compat; lra).
  replace ((alpha - 1) * ln x) with (alpha * ln x + - ln x) by ring.
  rewrite exp_plus, exp_Ropp, exp_ln by lra.
  replace (alpha * (ln x + - ln beta)) with (- alpha * ln beta + alpha * ln x) by ring.
  rewrite exp_plus. field. lra.
Qed.

Theorem weibull_normalised : forall alpha beta, 0 < alpha -> 0 < beta ->
  (forall x, 0 < x -> is_derive (F_weibull alpha beta) x (pdfv (DWeibull alpha beta) x)) /\
  (forall x, 0 < x -> 0 < F_weibull alpha beta x < 1) /\
  (* F maps (0, oo) onto (0, 1): it takes the value 1 - exp(-t) for every t > 0 *)
  (forall t, 0 < t -> F_weibull alpha beta (beta * Rpower t (1 / alpha)) = 1 - exp (- t)).
Proof.
  intros alpha beta Ha Hb. split; [|split].
  - intros x Hx. rewrite pdfv_weibull by assumption. rewrite weibull_alg by assumption.
    unfold F_weibull, Rpower. auto_derive.
    + apply Rdiv_lt_0_compat; lra.
    + unfold Rdiv. field. lra.
  - intros x Hx. unfold F_weibull. pose proof (Rpower_pos (x / beta) alpha) as Hp.
    pose proof (exp_pos (- Rpower (x / beta) alpha)).
    assert (exp (- Rpower (x / beta) alpha) < exp 0) by (apply exp_increasing; lra). rewrite exp_0 in *. lra.
  - intros t Ht. unfold F_weibull.
    replace (beta * Rpower t (1 / alpha) / beta) with (Rpower t (1 / alpha)) by (field; lra).
    rewrite Rpower_mult. replace (1 / alpha * alpha) with 1 by (field; lra). rewrite Rpower_1 by lra. reflexivity.
Qed.

(* ---------------- triangular (repaired density) ---------------- *)
Definition F_tri_rise (lo mode hi x : R) : R := (x - lo) * (x - lo) / ((hi - lo) * (mode - lo)).
Definition F_tri_fall (lo mode hi x : R) : R := 1 - (hi - x) * (hi - x) / ((hi - lo) * (hi - mode)).

Lemma pdfv_tri_rise : forall lo mode hi x, lo < hi -> lo <= x < mode -> mode <= hi ->
  pdfv (DTriangular lo mode hi) x = 2 * (x - lo) / ((hi - lo) * (mode - lo)).
Proof.
  intros lo mode hi x H Hx Hm. unfold pdfv, pdf, tri_pdf. unfold zero, two; nr.
  rewrite (proj2 (Rleb_true lo x)), (proj2 (Rltb_true x mode)) by lra. cbn [andb].
  rewrite r_div_val; [reflexivity|]. apply Rgt_not_eq. nra.
Qed.

Lemma pdfv_tri_fall : forall lo mode hi x, lo < hi -> mode < x <= hi -> lo <= mode ->
  pdfv (DTriangular lo mode hi) x = 2 * (hi - x) / ((hi - lo) * (hi - mode)).
Proof.
  intros lo mode hi x H Hx Hm. unfold pdfv, pdf, tri_pdf. unfold zero, two; nr.
  rewrite (proj2 (Rltb_false x mode)) by lra. rewrite andb_false_r.
  rewrite (proj2 (Rltb_true mode x)), (proj2 (Rleb_true x hi)) by lra. cbn [andb].
  rewrite r_div_val; [reflexivity|]. apply Rgt_not_eq. nra.
Qed.

Theorem triangular_normalised : forall lo mode hi, lo <= mode <= hi -> lo < hi ->
  (forall x, lo < x < mode -> is_derive (F_tri_rise lo mode hi) x (pdfv (DTriangular lo mode hi) x)) /\
  (forall x, mode < x < hi -> is_derive (F_tri_fall lo mode hi) x (pdfv (DTriangular lo mode hi) x)) /\
  (* mass of the rising part + mass of the falling part = 1, also for a mode at a bound *)
  (F_tri_rise lo mode hi mode - F_tri_rise lo mode hi lo) +
  (F_tri_fall lo mode hi hi - F_tri_fall lo mode hi mode) = 1.
Proof.
  intros lo mode hi Hm H. split; [|split].
  - intros x Hx. rewrite pdfv_tri_rise by lra. unfold F_tri_rise. auto_derive; [exact I|].
    field. split; lra.
  - intros x Hx. rewrite pdfv_tri_fall by lra. unfold F_tri_fall. auto_derive; [exact I|].
    field. split; lra.
  - unfold F_tri_rise, F_tri_fall.
    destruct (Req_EM_T mode lo) as [E1|N1]; [|destruct (Req_EM_T mode hi) as [E2|N2]].
    + subst mode. replace ((hi - lo) * (lo - lo)) with 0 by ring. unfold Rdiv at 1 2. rewrite Rinv_0.
      field. lra.
    + subst mode. replace ((hi - lo) * (hi - hi)) with 0 by ring. unfold Rdiv at 3 4. rewrite Rinv_0.
      field. lra.
    + field. repeat split; lra.
Qed.

(* ---------------- normal family: cdf' = density, under a contract for erf ---------------- *)
Section ErfContract.
Hypothesis erf_derive : forall x, is_derive erf x (2 / sqrt Rtrigo1.PI * exp (- (x * x))).
Hypothesis erf_increasing : forall x y, x < y -> erf x < erf y.
Hypothesis erf_range : forall x, -1 < erf x < 1.

Lemma pdfv_normal : forall mu sigma x, 0 < sigma ->
  pdfv (DNormal mu sigma) x =
  1 / (sigma * sqrt (2 * Rtrigo1.PI)) * exp (- / 2 * ((x - mu) / sigma * ((x - mu) / sigma))).
Proof.
  intros mu sigma x Hs. unfold pdfv, pdf. unfold one; nr.
  rewrite (normal_kernel_val erf erfinv gammaf lgammaf) by lra. reflexivity.
Qed.

Lemma cdf_normal : forall mu sigma x, 0 < sigma ->
  cdf NR (DNormal mu sigma) x = Val (Phi erf mu sigma x).
Proof. intros. unfold cdf. apply cum_prob_nt_val. assumption. Qed.

Theorem normal_cdf_derivative : forall mu sigma x, 0 < sigma ->
  is_derive (Phi erf mu sigma) x (pdfv (DNormal mu sigma) x).
Proof.
  intros mu sigma x Hs. rewrite pdfv_normal by assumption. unfold Phi.
  pose proof (sqrt_lt_R0 2 ltac:(lra)) as H2. pose proof (sqrt_lt_R0 _ PI_RGT_0) as Hpi.
  auto_derive.
  - eexists. apply erf_derive.
  - rewrite (is_derive_unique (fun x0 : R => erf x0) _ _ (erf_derive ((x + - mu) * / (sqrt 2 * sigma)))).
    rewrite sqrt_mult by (pose proof PI_RGT_0; lra).
    replace ((x + - mu) * / (sqrt 2 * sigma) * ((x + - mu) * / (sqrt 2 * sigma)))
      with (/ 2 * ((x - mu) / sigma * ((x - mu) / sigma))).
    + replace (- (/ 2 * ((x - mu) / sigma * ((x - mu) / sigma)))) with (- / 2 * ((x - mu) / sigma * ((x - mu) / sigma))) by ring.
      field. repeat split; lra.
    + replace (/ 2) with (/ (sqrt 2 * sqrt 2)) by (rewrite sqrt_sqrt by lra; reflexivity). field. split; lra.
Qed.

Theorem normal_cdf_monotone_and_range : forall mu sigma, 0 < sigma ->
  (forall x y, x < y -> Phi erf mu sigma x < Phi erf mu sigma y) /\
  (forall x, 0 < Phi erf mu sigma x < 1).
Proof.
  intros mu sigma Hs. pose proof (sqrt_lt_R0 2 ltac:(lra)) as H2. split.
  - intros x y Hxy. unfold Phi.
    assert ((x - mu) / (sqrt 2 * sigma) < (y - mu) / (sqrt 2 * sigma)).
    { unfold Rdiv. apply Rmult_lt_compat_r; [apply Rinv_0_lt_compat; nra|lra]. }
    pose proof (erf_increasing _ _ H). lra.
  - intros x. unfold Phi. pose proof (erf_range ((x - mu) / (sqrt 2 * sigma))). lra.
Qed.

(* truncated normal: cdf is 0 at lo, 1 at hi, monotone in between *)
Theorem normaltrunc_cdf_bounds : forall mu sigma lo hi cplo diff fac,
  wfd erf (DNormalTrunc mu sigma lo hi cplo diff fac) ->
  cdf NR (DNormalTrunc mu sigma lo hi cplo diff fac) lo = Val 0 /\
  cdf NR (DNormalTrunc mu sigma lo hi cplo diff fac) hi = Val 1 /\
  (forall x y vx vy, lo <= x -> x < y -> y <= hi ->
     cdf NR (DNormalTrunc mu sigma lo hi cplo diff fac) x = Val vx ->
     cdf NR (DNormalTrunc mu sigma lo hi cplo diff fac) y = Val vy -> vx < vy).
Proof.
  intros mu sigma lo hi cplo diff fac [W1 [W2 [W3 [W4 [W5 W6]]]]].
  assert (Hf : 0 < fac) by (subst fac; apply Rdiv_lt_0_compat; lra).
  unfold cdf. unfold zero, one; nr. split; [|split].
  - rewrite (proj2 (Rltb_false lo lo)), (proj2 (Rltb_false hi lo)) by lra.
    rewrite (cum_prob_nt_val erf erfinv gammaf lgammaf) by assumption. cbn [rbind]. subst cplo. f_equal. ring.
  - rewrite (proj2 (Rltb_false hi lo)), (proj2 (Rltb_false hi hi)) by lra.
    rewrite (cum_prob_nt_val erf erfinv gammaf lgammaf) by assumption. cbn [rbind]. f_equal.
    subst fac. replace (Phi erf mu sigma hi - cplo) with diff by lra. field. lra.
  - intros x y vx vy Hx Hxy Hy Ex Ey.
    rewrite (proj2 (Rltb_false x lo)), (proj2 (Rltb_false hi x)) in Ex by lra.
    rewrite (proj2 (Rltb_false y lo)), (proj2 (Rltb_false hi y)) in Ey by lra.
    rewrite (cum_prob_nt_val erf erfinv gammaf lgammaf) in Ex, Ey by assumption. cbn [rbind] in Ex, Ey.
    inversion Ex; inversion Ey; subst vx vy.
    destruct (normal_cdf_monotone_and_range mu sigma W1) as [Mono _]. pose proof (Mono x y Hxy). nra.
Qed.

(* IF erf_inv were the exact inverse of erf, the inverse cdf would invert the
   cdf.  The code's erf_inv is a rational approximation with a documented
   relative error of 4.5e-8: that accuracy claim is NOT decidable here. *)
Theorem normal_icdf_inverts_cdf_given_exact_erfinv : forall mu sigma x,
  0 < sigma -> (forall t, erfinv (erf t) = t) ->
  icdf NR (DNormal mu sigma) (Phi erf mu sigma x) = Val x.
Proof.
  intros mu sigma x Hs Hinv. unfold icdf, normal_icdf. unfold one, two; nr.
  pose proof (sqrt_lt_R0 2 ltac:(lra)) as H2.
  rewrite r_sqrt_val by lra. cbn [rbind]. f_equal. unfold Phi.
  replace (2 * (/ 2 + / 2 * erf ((x - mu) / (sqrt 2 * sigma))) - 1) with (erf ((x - mu) / (sqrt 2 * sigma))) by field.
  rewrite Hinv. field. split; lra.
Qed.
End ErfContract.

End Normalise.
