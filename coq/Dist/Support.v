(* C14, support / totality part, over the real-number instance Dist.NumR of the
   draw algorithms of Dist/Draw.v (repaired variant, pv = false):

     for every instance whose stored parameters are in the documented domain
     ([wf], which is what the constructor accepts - see Dist/Ctor.v) and every
     stream output in [0, 1), draw() does not raise and the value lies in the
     documented support.  DistBeta, DistPearson5 and DistPearson6 divide by an
     inner gamma draw, which is 0 for a uniform of exactly 0: for them the
     statement needs uniforms in the OPEN interval.

   [safe Q m P]: on every finite stream output whose elements satisfy Q, the
   computation [m] either returns a value satisfying P (and leaves a remainder
   that still satisfies Q) or stops because the finite list ran dry
   (NoUniform) - it never raises a Python exception, never leaves the model. *)
From Coq Require Import Reals Lra Lia ZArith List Bool.
From PV Require Import Dist.Num Dist.Draw Dist.NumR.
Import ListNotations.
Local Open Scope R_scope.

Section Safe.
Variable Q : R -> Prop.

Definition safe {A} (m : M R A) (P : A -> Prop) : Prop :=
  forall us, Forall Q us ->
    match m us with
    | (Val a, r) => P a /\ Forall Q r
    | (Err e, _) => e = NoUniform
    end.

Lemma safe_ret : forall A (a : A) (P : A -> Prop), P a -> safe (ret a) P.
Proof. intros A a P H us Hu. simpl. auto. Qed.

Lemma safe_bind : forall A B (m : M R A) (f : A -> M R B) (P1 : A -> Prop) (P2 : B -> Prop),
  safe m P1 -> (forall a, P1 a -> safe (f a) P2) -> safe (bind m f) P2.
Proof.
  intros A B m f P1 P2 Hm Hf us Hu. unfold bind. specialize (Hm us Hu).
  destruct (m us) as [[a|e] r]; [|assumption]. destruct Hm as [Pa Hr]. apply (Hf a Pa r Hr).
Qed.

Lemma safe_next : safe next Q.
Proof. intros us Hu. destruct us as [|u t]; simpl; [reflexivity|]. inversion Hu; subst. auto. Qed.

Lemma safe_lift : forall A (x : res A) (a : A) (P : A -> Prop), x = Val a -> P a -> safe (lift x) P.
Proof. intros A x a P -> H us Hu. simpl. auto. Qed.

Lemma safe_weaken : forall A (m : M R A) (P P' : A -> Prop),
  safe m P -> (forall a, P a -> P' a) -> safe m P'.
Proof.
  intros A m P P' H W us Hu. specialize (H us Hu). destruct (m us) as [[a|e] r]; [|assumption].
  destruct H; auto.
Qed.

(* bind of a pure step that is known to succeed *)
Lemma safe_bind_lift : forall A B (x : res A) (a : A) (f : A -> M R B) (P : B -> Prop),
  x = Val a -> safe (f a) P -> safe (bind (lift x) f) P.
Proof. intros A B x a f P -> H us Hu. unfold bind, lift. apply H; assumption. Qed.

Lemma safe_bind_next : forall B (f : R -> M R B) (P : B -> Prop),
  (forall u, Q u -> safe (f u) P) -> safe (bind next f) P.
Proof. intros. eapply safe_bind; [apply safe_next|assumption]. Qed.
End Safe.

Section Support.
Variables erf erfinv gammaf lgammaf : R -> R.
Notation NR := (numR erf erfinv gammaf lgammaf).

(* what is assumed of every stream output: [0, 1) *)
Variable Q : R -> Prop.
Hypothesis Q01 : forall u, Q u -> 0 <= u < 1.
(* the stronger assumption, where needed: the open interval *)
Definition Qpos : Prop := forall u, Q u -> 0 < u.

Ltac nr := cbn [T ofZ ofD cE cPi add sub mul neg nabs div ltb leb eqb isinf nsqrt nlog nexp nerf
                nerfinv ngamma nlgamma npow npowop nfloor numR zero one two four half c4_5] in *.

(* Distribution._next_open_float *)
Lemma safe_next_pos : safe Q (next_pos NR) (fun u => 0 < u < 1).
Proof.
  intros us. induction us as [|u t IH]; intros Hu; simpl; [reflexivity|].
  inversion Hu; subst. unfold zero; nr.
  destruct (Reqb u 0) eqn:E.
  - apply IH; assumption.
  - apply Reqb_false in E. split; [|assumption]. specialize (Q01 u H1). lra.
Qed.

Lemma safe_bind_nextp : forall B (f : R -> M R B) (P : B -> Prop),
  (forall u, 0 < u < 1 -> safe Q (f u) P) -> safe Q (bind (nextp NR false) f) P.
Proof. intros. eapply safe_bind; [apply safe_next_pos|assumption]. Qed.


(* ---- real-analysis helpers ---- *)
Lemma ln_neg : forall x, 0 < x < 1 -> ln x < 0.
Proof. intros x [H0 H1]. rewrite <- ln_1. apply ln_increasing; assumption. Qed.

Lemma ln_le_0 : forall x, 0 < x <= 1 -> ln x <= 0.
Proof.
  intros x [H0 [H1|H1]].
  - left. apply ln_neg. split; assumption.
  - subst. rewrite ln_1. right. reflexivity.
Qed.

Lemma Rpower_pos : forall x y, 0 < Rpower x y.
Proof. intros. unfold Rpower. apply exp_pos. Qed.

Ltac sb := eapply safe_bind_lift;
  [ first [ apply r_log_val | apply r_div_val | apply r_sqrt_val | apply r_pow_val | apply r_pow_zero | reflexivity ] | ].

(* ---------------- the documented support ---------------- *)
Definition in_support (d : dist R) (v : value R) : Prop :=
  match d, v with
  | DBernoulli _, VI z => z = 0%Z \/ z = 1%Z
  | DBeta _ _ _ _, VF x => 0 <= x <= 1
  | DBinomial n _, VI z => (0 <= z <= n)%Z
  | DConstant c, v => v = c
  | DDiscreteUniform lo hi, VI z => (lo <= z <= hi)%Z
  | DErlang _ _ _ _, VF x => 0 < x
  | DExponential _, VF x => 0 < x
  | DGamma _ _, VF x => 0 <= x
  | DGeometric _ _, VI z => (0 <= z)%Z
  | DLogNormal _ _ _ _, VF x => 0 < x
  | DNegBinomial _ _ _, VI z => (0 <= z)%Z
  | DNormal _ _, VF x => True
  | DNormalTrunc _ _ lo hi _ _ _, VF x => lo <= x <= hi
  | DPearson5 _ _ _, VF x => 0 < x
  | DPearson6 _ _ _ _ _, VF x => 0 < x
  | DPoisson _ _, VI z => (0 <= z)%Z
  | DTriangular lo _ hi, VF x => lo <= x <= hi
  | DUniform lo hi, VF x => lo <= x < hi
  | DWeibull _ _, VF x => 0 < x
  | _, _ => False
  end.

(* what a constructor-accepted instance stores (proved in Dist/Ctor.v) *)
Definition gamma_ok (g : R * R) : Prop := 0 < fst g /\ 0 < snd g.

Definition wf (d : dist R) : Prop :=
  match d with
  | DBernoulli p => 0 <= p <= 1
  | DBeta a1 a2 g1 g2 => gamma_ok g1 /\ gamma_ok g2
  | DBinomial n p => (0 < n)%Z /\ 0 <= p <= 1
  | DConstant _ => True
  | DDiscreteUniform lo hi => (lo < hi)%Z
  | DErlang scale k _ g => 0 < scale /\ (0 < k)%Z /\ match g with Some gp => gamma_ok gp /\ 1 < fst gp | None => True end
  | DExponential mean => 0 < mean
  | DGamma shape scale => 0 < shape /\ 0 < scale
  | DGeometric p lnp => 0 < p < 1 /\ lnp = ln (1 - p)
  | DLogNormal _ sigma _ _ => 0 < sigma
  | DNegBinomial s p lnp => (0 < s)%Z /\ 0 < p < 1 /\ lnp = ln (1 - p)
  | DNormal _ sigma => 0 < sigma
  | DNormalTrunc _ sigma lo hi _ _ _ => 0 < sigma /\ lo < hi
  | DPearson5 _ _ g => gamma_ok g
  | DPearson6 _ _ beta g1 g2 => 0 < beta /\ gamma_ok g1 /\ gamma_ok g2
  | DPoisson rate expl => 0 < rate /\ expl = exp (- rate)
  | DTriangular lo mode hi => lo <= mode <= hi /\ lo < hi
  | DUniform lo hi => lo < hi
  | DWeibull alpha beta => 0 < alpha /\ 0 < beta
  end.

(* the classes that divide by an inner gamma draw *)
Definition divides (d : dist R) : bool :=
  match d with DBeta _ _ _ _ | DPearson5 _ _ _ | DPearson6 _ _ _ _ _ => true | _ => false end.

(* ---------------- exponential ---------------- *)
Lemma safe_exponential : forall mean, 0 < mean ->
  safe Q (u <- nextp NR false ;; l <- lift (nlog NR u) ;; ret (mul NR (neg NR mean) l))%m (fun x => 0 < x).
Proof.
  intros mean Hm. apply safe_bind_nextp; intros u Hu. nr.
  sb; [lra|]. apply safe_ret. pose proof (ln_neg u Hu). nra.
Qed.

(* ---------------- gamma ---------------- *)
Lemma exp1_gt_1 : 1 < exp 1.
Proof. pose proof (exp_ineq1 1 ltac:(lra)). lra. Qed.

Lemma safe_gamma_lt1 : forall cnt shape scale b,
  0 < shape < 1 -> 0 < scale -> b = (exp 1 + shape) / exp 1 ->
  safe Q (gamma_lt1 NR cnt shape scale b) (fun y => 0 <= y /\ (Qpos -> 0 < y)).
Proof.
  induction cnt as [|c IH]; intros shape scale b Hs Hsc Hb; simpl.
  - apply safe_ret. nr. split; intros; lra.
  - pose proof exp1_gt_1 as He.
    assert (Hb1 : 1 < b) by (subst b; apply Rmult_lt_reg_r with (exp 1); [lra|]; field_simplify; lra).
    assert (Hbs : b - 1 = shape / exp 1) by (subst b; field; lra).
    apply safe_bind_next; intros u Hu. pose proof (Q01 u Hu) as Hu01. nr.
    destruct (Rleb (b * u) 1) eqn:E.
    + sb; [lra|].
      assert (Hp : 0 <= b * u) by nra.
      destruct (Req_EM_T (b * u) 0) as [Z|NZ].
      * rewrite Z. eapply safe_bind_lift; [apply r_pow_zero; apply Rdiv_lt_0_compat; lra|].
        apply safe_bind_next; intros u2 Hu2. sb.
        match goal with |- safe _ (if ?c then _ else _) _ => destruct c end; [|apply IH; auto].
        apply safe_ret. split; [lra|]. intros QP. exfalso.
        specialize (QP u Hu). assert (b * u > 0) by nra. lra.
      * sb; [lra|]. apply safe_bind_next; intros u2 Hu2. sb.
        match goal with |- safe _ (if ?c then _ else _) _ => destruct c end; [|apply IH; auto].
        apply safe_ret. pose proof (Rpower_pos (b * u) (1 / shape)). split; intros; nra.
    + apply Rleb_false in E.
      assert (Hq : 0 < (b - b * u) / shape < / exp 1).
      { split.
        - apply Rdiv_lt_0_compat; nra.
        - apply Rmult_lt_reg_r with shape; [lra|]. unfold Rdiv. rewrite Rmult_assoc, Rinv_l by lra.
          rewrite Rmult_1_r. assert (b - b * u < b - 1) by lra. rewrite Hbs in H.
          unfold Rdiv in H. lra. }
      sb; [lra|]. sb; [lra|].
      assert (Hy : 1 < - ln ((b - b * u) / shape)).
      { assert (ln ((b - b * u) / shape) < ln (/ exp 1)) by (apply ln_increasing; lra).
        rewrite ln_Rinv in H by lra. rewrite ln_exp in H. lra. }
      apply safe_bind_next; intros u2 Hu2. sb; [lra|].
      match goal with |- safe _ (if ?c then _ else _) _ => destruct c end; [|apply IH; auto].
      apply safe_ret. split; intros; nra.
Qed.

Lemma c4_5_val : IZR 9 * powerRZ 2 (-1) = 9 / 2.
Proof. simpl. field. Qed.

Lemma safe_gamma_gt1 : forall cnt shape scale a b q d,
  0 < shape -> 0 < scale ->
  safe Q (gamma_gt1 NR false cnt shape scale a b q d) (fun y => 0 < y).
Proof.
  induction cnt as [|c IH]; intros shape scale a b q d Hs Hsc; simpl.
  - apply safe_ret. nr. lra.
  - apply safe_bind_nextp; intros u1 Hu1. apply safe_bind_nextp; intros u2 Hu2. nr.
    sb; [lra|]. sb; [apply Rdiv_lt_0_compat; lra|]. sb.
    assert (Hy : 0 < scale * (shape * exp (a * ln (u1 / (1 - u1))))).
    { pose proof (exp_pos (a * ln (u1 / (1 - u1)))). apply Rmult_lt_0_compat; [lra|]. apply Rmult_lt_0_compat; lra. }
    match goal with |- safe _ (if ?c then _ else _) _ => destruct c end; [apply safe_ret; exact Hy|].
    sb; [apply Rmult_lt_0_compat; [apply Rmult_lt_0_compat|]; lra|].
    match goal with |- safe _ (if ?c then _ else _) _ => destruct c end; [apply safe_ret; exact Hy|].
    apply IH; assumption.
Qed.

Lemma safe_draw_gamma : forall shape scale, 0 < shape -> 0 < scale ->
  safe Q (draw_gamma NR false shape scale) (fun y => 0 <= y /\ (Qpos \/ 1 <= shape -> 0 < y)).
Proof.
  intros shape scale Hs Hsc. unfold draw_gamma. nr. pose proof exp1_gt_1 as He.
  destruct (Rltb shape 1) eqn:E1.
  - apply Rltb_true in E1. sb; [lra|].
    eapply safe_weaken; [apply safe_gamma_lt1; try reflexivity; lra|].
    intros y [H0 H1]. split; [assumption|]. intros [QP|C]; [auto|lra].
  - apply Rltb_false in E1. destruct (Rltb 1 shape) eqn:E2.
    + apply Rltb_true in E2.
      assert (Hsq : 0 < sqrt (2 * shape - 1)) by (apply sqrt_lt_R0; lra).
      sb; [lra|]. sb; [lra|]. sb; [lra|]. sb; [apply Rgt_not_eq; apply Rdiv_lt_0_compat; lra|].
      sb; [rewrite c4_5_val; lra|].
      eapply safe_weaken; [apply safe_gamma_gt1; assumption|]. intros y Hy. split; intros; lra.
    + apply Rltb_false in E2.
      eapply safe_weaken; [apply safe_exponential; assumption|]. intros y Hy. split; intros; lra.
Qed.

(* ---------------- products / sums ---------------- *)
Lemma safe_prod_uniforms : forall k acc, 0 < acc <= 1 ->
  safe Q (prod_uniforms NR false k acc) (fun r => 0 < r <= acc /\ ((0 < k)%nat -> r < 1)).
Proof.
  induction k as [|k IH]; intros acc Ha; simpl.
  - apply safe_ret. split; [lra|]. intros C; inversion C.
  - apply safe_bind_nextp; intros u Hu. nr.
    eapply safe_weaken; [apply IH; nra|]. intros r [H1 _]. split; [nra|]. intros _. nra.
Qed.

Lemma safe_count_successes : forall n p x,
  safe Q (count_successes NR n p x) (fun r => (x <= r <= x + Z.of_nat n)%Z).
Proof.
  induction n as [|n IH]; intros p x; simpl count_successes.
  - apply safe_ret. simpl. lia.
  - apply safe_bind_next; intros u Hu.
    eapply safe_weaken; [apply IH|]. intros r Hr. cbv beta in Hr.
    match type of Hr with context [if ?c then _ else _] => destruct c end; lia.
Qed.

Lemma safe_geometric_once : forall p lnp, 0 < p < 1 -> lnp = ln (1 - p) ->
  safe Q (geometric_once NR false lnp) (fun z => (0 <= z)%Z).
Proof.
  intros p lnp Hp Hl. unfold geometric_once. apply safe_bind_nextp; intros u Hu. nr.
  assert (Hn : lnp < 0) by (subst lnp; apply ln_neg; lra).
  sb; [lra|]. sb; [lra|]. eapply safe_lift; [reflexivity|].
  apply Int_part_nonneg. pose proof (ln_neg u Hu).
  replace (ln u / lnp) with ((- ln u) / (- lnp)) by (field; lra).
  left. apply Rdiv_lt_0_compat; lra.
Qed.

Lemma safe_sum_geometrics : forall s p lnp x, 0 < p < 1 -> lnp = ln (1 - p) ->
  safe Q (sum_geometrics NR false s lnp x) (fun z => (x <= z)%Z).
Proof.
  induction s as [|s IH]; intros p lnp x Hp Hl; simpl.
  - apply safe_ret. lia.
  - eapply safe_bind; [apply (safe_geometric_once p); assumption|]. intros g Hg. cbv beta in Hg.
    eapply safe_weaken; [apply (IH p); assumption|]. intros z Hz. cbv beta in Hz. lia.
Qed.

(* ---------------- polar method, Poisson ---------------- *)
Lemma safe_polar_loop : safe Q (polar_loop NR false) (fun t => 0 < snd t < 1).
Proof.
  intros us. remember (length us) as n eqn:Hn. revert us Hn.
  induction n as [n IH] using lt_wf_ind. intros us Hn Hu.
  destruct us as [|u1 [|u2 t]]; simpl; try reflexivity.
  inversion Hu as [|? ? H1 Hu']; subst. inversion Hu' as [|? ? H2 Ht]; subst. nr.
  set (s := (2 * u1 - 1) * (2 * u1 - 1) + (2 * u2 - 1) * (2 * u2 - 1)).
  destruct (Rleb 1 s) eqn:E1; simpl.
  - apply (IH (length t)); [simpl; lia|reflexivity|assumption].
  - destruct (Reqb s 0) eqn:E2; simpl.
    + apply (IH (length t)); [simpl; lia|reflexivity|assumption].
    + apply Rleb_false in E1. apply Reqb_false in E2. split; [|assumption]. simpl.
      assert (H0 : 0 <= s) by (unfold s; apply Rplus_le_le_0_compat; apply Rle_0_sqr).
      destruct H0 as [H0|H0]; [lra|exfalso; apply E2; symmetry; assumption].
Qed.

Lemma safe_next_gaussian : forall cache, safe Q (next_gaussian NR false cache) (fun _ => True).
Proof.
  intros [g|]; simpl.
  - apply safe_ret. exact I.
  - eapply safe_bind; [apply safe_polar_loop|]. intros [[v1 v2] s] Hs. simpl in Hs. nr.
    pose proof (ln_neg s Hs).
    sb; [lra|]. sb; [lra|]. sb; [|apply safe_ret; exact I].
    left. apply Rdiv_lt_0_compat; nra.
Qed.

Lemma safe_poisson_loop : forall expl s x,
  safe Q (poisson_loop NR expl s x) (fun z => (x + 1 <= z)%Z).
Proof.
  intros expl s x us. revert s x. induction us as [|u t IH]; intros s x Hu; simpl; [reflexivity|].
  inversion Hu; subst. destruct (Rleb (s * u) expl).
  - split; [lia|assumption].
  - specialize (IH (s * u) (x + 1)%Z H2).
    destruct (poisson_loop NR expl (s * u) (x + 1) t) as [[z|e] r]; [|assumption].
    destruct IH. split; [lia|assumption].
Qed.

Lemma safe_poisson_sum : forall k expl x,
  safe Q (poisson_sum NR k expl x) (fun z => (x <= z)%Z).
Proof.
  induction k as [|k IH]; intros expl x; simpl.
  - apply safe_ret. lia.
  - eapply safe_bind; [apply safe_poisson_loop|]. intros g Hg. cbv beta in Hg.
    eapply safe_weaken; [apply IH|]. intros z Hz. cbv beta in Hz. lia.
Qed.

Lemma safe_draw_poisson : forall rate expl, 0 < rate ->
  safe Q (draw_poisson NR false rate expl) (fun z => (0 <= z)%Z).
Proof.
  intros rate expl Hr. unfold draw_poisson, c500. cbn [orb]. nr.
  destruct (Rleb rate 500) eqn:E.
  - eapply safe_weaken; [apply safe_poisson_loop|]. intros z Hz. cbv beta in Hz. lia.
  - sb; [lra|]. sb.
    assert (Hn : (0 <= Int_part (rate / 500))%Z) by (apply Int_part_nonneg; apply Rlt_le; apply Rdiv_lt_0_compat; lra).
    assert (Hn1 : IZR (Int_part (rate / 500) + 1) <> 0) by (apply Rgt_not_eq; apply (IZR_lt 0); lia).
    sb; [exact Hn1|]. sb. apply safe_poisson_sum.
Qed.

(* ---------------- triangular ---------------- *)
Lemma safe_draw_triangular : forall lo mode hi, lo <= mode <= hi -> lo < hi ->
  safe Q (draw_triangular NR lo mode hi) (fun x => lo <= x <= hi).
Proof.
  intros lo mode hi Hm Hlh. unfold draw_triangular. apply safe_bind_next; intros u Hu.
  pose proof (Q01 u Hu) as Hu01. nr. sb; [lra|].
  destruct (Rleb u ((mode - lo) / (hi - lo))) eqn:E.
  - apply Rleb_true in E.
    assert (E' : u * (hi - lo) <= mode - lo).
    { apply Rmult_le_reg_r with (/ (hi - lo)); [apply Rinv_0_lt_compat; lra|].
      rewrite Rmult_assoc, Rinv_r by lra. unfold Rdiv in E. lra. }
    assert (H0 : 0 <= (mode - lo) * (hi - lo) * u) by (apply Rmult_le_pos; [apply Rmult_le_pos|]; lra).
    sb; [lra|]. apply safe_ret.
    assert (Hs : sqrt ((mode - lo) * (hi - lo) * u) <= mode - lo).
    { rewrite <- (sqrt_square (mode - lo)) at 2 by lra. apply sqrt_le_1_alt. nra. }
    pose proof (sqrt_pos ((mode - lo) * (hi - lo) * u)). lra.
  - apply Rleb_false in E.
    assert (E' : mode - lo < u * (hi - lo)).
    { apply Rmult_lt_reg_r with (/ (hi - lo)); [apply Rinv_0_lt_compat; lra|].
      rewrite (Rmult_assoc u), Rinv_r by lra. unfold Rdiv in E. lra. }
    assert (H0 : 0 <= (hi - lo) * (hi - mode) * (1 - u)) by (apply Rmult_le_pos; [apply Rmult_le_pos|]; lra).
    sb; [lra|]. apply safe_ret.
    assert (Hs : sqrt ((hi - lo) * (hi - mode) * (1 - u)) <= hi - mode).
    { rewrite <- (sqrt_square (hi - mode)) at 2 by lra. apply sqrt_le_1_alt. nra. }
    pose proof (sqrt_pos ((hi - lo) * (hi - mode) * (1 - u))). lra.
Qed.

(* ---------------- discrete uniform (MersenneTwister.next_int) ---------------- *)
Lemma safe_next_int : forall lo hi, (lo < hi)%Z ->
  safe Q (next_int NR lo hi) (fun z => (lo <= z <= hi)%Z).
Proof.
  intros lo hi H. unfold next_int. apply safe_bind_next; intros u Hu. pose proof (Q01 u Hu) as Hu01. nr.
  sb. apply safe_ret.
  assert (Hn : 0 < IZR (hi - lo + 1)) by (apply IZR_lt; lia).
  assert (H1 : (0 <= Int_part (IZR (hi - lo + 1) * u))%Z) by (apply Int_part_nonneg; nra).
  assert (H2 : (Int_part (IZR (hi - lo + 1) * u) < hi - lo + 1)%Z) by (apply Int_part_lt; nra).
  lia.
Qed.

(* ---------------- the theorem ---------------- *)
Theorem draw_support : forall d cache,
  wf d -> (divides d = false \/ Qpos) ->
  safe Q (draw NR false d cache) (fun vc => in_support d (fst vc)).
Proof.
  intros d cache W D. destruct d; simpl in W; unfold draw.
  - (* Bernoulli *)
    unfold iv. eapply safe_bind with (P1 := fun z => z = 0%Z \/ z = 1%Z); [|intros; apply safe_ret; assumption].
    apply safe_bind_next; intros u Hu. apply safe_ret. destruct (leb NR u p); auto.
  - (* Beta *)
    destruct D as [D|QP]; [discriminate|]. destruct W as [[W1 W2] [W3 W4]].
    unfold fv. eapply safe_bind with (P1 := fun x => 0 <= x <= 1); [|intros; apply safe_ret; assumption].
    eapply safe_bind; [apply safe_draw_gamma; assumption|]. intros y1 [_ H1]. specialize (H1 (or_introl QP)).
    eapply safe_bind; [apply safe_draw_gamma; assumption|]. intros y2 [_ H2]. specialize (H2 (or_introl QP)). nr.
    eapply safe_lift; [apply r_div_val; lra|].
    split; [left; apply Rdiv_lt_0_compat; lra|].
    apply Rmult_le_reg_r with (y1 + y2); [lra|]. unfold Rdiv. rewrite Rmult_assoc, Rinv_l by lra. lra.
  - (* Binomial *)
    unfold iv. eapply safe_bind; [apply safe_count_successes|]. intros z Hz. apply safe_ret. simpl.
    cbv beta in Hz. rewrite Z2Nat.id in Hz by lia. lia.
  - (* Constant *)
    apply safe_bind_next; intros u Hu. apply safe_ret. reflexivity.
  - (* DiscreteUniform *)
    unfold iv. eapply safe_bind; [apply safe_next_int; assumption|]. intros z Hz. apply safe_ret. exact Hz.
  - (* Erlang *)
    destruct W as [W1 [W2 W3]]. destruct g as [[g1 g2]|].
    + destruct W3 as [[G1 G2] G3]. simpl in G1, G2, G3. unfold fv. cbn [fst snd].
      eapply safe_bind; [apply safe_draw_gamma; assumption|]. intros y [_ Hy]. apply safe_ret. simpl. apply Hy. right. lra.
    + unfold fv. eapply safe_bind with (P1 := fun x => 0 < x); [|intros; apply safe_ret; assumption].
      eapply safe_bind; [apply safe_prod_uniforms; unfold one; nr; lra|]. intros r [[R1 R2] R3]. unfold one in *; nr.
      assert (R4 : r < 1) by (apply R3; lia).
      sb; [lra|]. apply safe_ret. pose proof (ln_neg r (conj R1 R4)). nra.
  - (* Exponential *)
    unfold fv. eapply safe_bind; [apply safe_exponential; assumption|]. intros; apply safe_ret; assumption.
  - (* Gamma *)
    destruct W. unfold fv. eapply safe_bind; [apply safe_draw_gamma; assumption|]. intros y [Hy _]. apply safe_ret. exact Hy.
  - (* Geometric *)
    destruct W as [W1 W2]. unfold iv. eapply safe_bind; [apply (safe_geometric_once p); assumption|].
    intros; apply safe_ret; assumption.
  - (* LogNormal *)
    eapply safe_bind with (P1 := fun _ => True).
    + unfold draw_normal. eapply safe_bind; [apply safe_next_gaussian|]. intros; apply safe_ret; exact I.
    + intros t _. nr. sb. apply safe_ret. simpl. apply exp_pos.
  - (* NegBinomial *)
    destruct W as [W1 [W2 W3]]. unfold iv. eapply safe_bind; [apply (safe_sum_geometrics _ p); assumption|].
    intros; apply safe_ret; assumption.
  - (* Normal *)
    eapply safe_bind with (P1 := fun _ => True).
    + unfold draw_normal. eapply safe_bind; [apply safe_next_gaussian|]. intros; apply safe_ret; exact I.
    + intros t _. apply safe_ret. exact I.
  - (* NormalTrunc *)
    destruct W as [W1 W2]. unfold fv. eapply safe_bind with (P1 := fun x => lo <= x <= hi); [|intros; apply safe_ret; assumption].
    unfold draw_normaltrunc. apply safe_bind_next; intros u Hu. nr. sb; [lra|]. sb.
    unfold nt_clamp. nr.
    match goal with |- safe _ (lift (if ?c then _ else _)) _ => destruct c eqn:E1 end.
    + eapply safe_lift; [reflexivity|lra].
    + match goal with |- safe _ (lift (if ?c then _ else _)) _ => destruct c eqn:E2 end.
      * eapply safe_lift; [reflexivity|lra].
      * apply Rltb_false in E1, E2. eapply safe_lift; [reflexivity|lra].
  - (* Pearson5 *)
    destruct D as [D|QP]; [discriminate|]. destruct W as [W1 W2]. unfold fv.
    eapply safe_bind with (P1 := fun x => 0 < x); [|intros; apply safe_ret; assumption].
    eapply safe_bind; [apply safe_draw_gamma; assumption|]. intros y [_ Hy]. specialize (Hy (or_introl QP)). nr.
    eapply safe_lift; [apply r_div_val; lra|]. apply Rdiv_lt_0_compat; lra.
  - (* Pearson6 *)
    destruct D as [D|QP]; [discriminate|]. destruct W as [W0 [[W1 W2] [W3 W4]]]. unfold fv.
    eapply safe_bind with (P1 := fun x => 0 < x); [|intros; apply safe_ret; assumption].
    eapply safe_bind; [apply safe_draw_gamma; assumption|]. intros y1 [_ H1]. specialize (H1 (or_introl QP)).
    eapply safe_bind; [apply safe_draw_gamma; assumption|]. intros y2 [_ H2]. specialize (H2 (or_introl QP)). nr.
    eapply safe_lift; [apply r_div_val; lra|]. apply Rdiv_lt_0_compat; nra.
  - (* Poisson *)
    destruct W as [W1 W2]. unfold iv. eapply safe_bind; [apply safe_draw_poisson; assumption|]. intros z Hz. apply safe_ret. exact Hz.
  - (* Triangular *)
    destruct W. unfold fv. eapply safe_bind; [apply safe_draw_triangular; assumption|]. intros; apply safe_ret; assumption.
  - (* Uniform *)
    unfold fv. eapply safe_bind with (P1 := fun x => lo <= x < hi); [|intros; apply safe_ret; assumption].
    apply safe_bind_next; intros u Hu. pose proof (Q01 u Hu). nr. apply safe_ret. nra.
  - (* Weibull *)
    destruct W as [W1 W2]. unfold fv. eapply safe_bind with (P1 := fun x => 0 < x); [|intros; apply safe_ret; assumption].
    apply safe_bind_nextp; intros u Hu. nr. pose proof (ln_neg u Hu).
    sb; [lra|]. sb; [lra|]. sb; [lra|]. apply safe_ret.
    pose proof (Rpower_pos (- ln u) (1 / alpha)). nra.
Qed.

End Support.

(* ------------------------------------------------------------------ *)
(* the two readings of "stream output in [0, 1)"                        *)
Section Corollaries.
Variables erf erfinv gammaf lgammaf : R -> R.
Notation NR := (numR erf erfinv gammaf lgammaf).

Definition half_open (u : R) : Prop := 0 <= u < 1.
Definition open01 (u : R) : Prop := 0 < u < 1.

(* every class that does not divide by an inner gamma draw: uniforms in [0, 1),
   0 included - never raises, value in the documented support *)
Theorem support_half_open : forall d cache us,
  wf d -> divides d = false -> Forall half_open us ->
  match draw NR false d cache us with
  | (Val (v, _), _) => in_support d v
  | (Err e, _) => e = NoUniform
  end.
Proof.
  intros d cache us W D Hu.
  pose proof (@draw_support erf erfinv gammaf lgammaf half_open (fun u H => H) d cache W (or_introl D) us Hu) as K.
  destruct (draw NR false d cache us) as [[[v c]|e] r]; simpl in *; tauto.
Qed.

(* all 19 classes: uniforms in the open interval *)
Theorem support_open : forall d cache us,
  wf d -> Forall open01 us ->
  match draw NR false d cache us with
  | (Val (v, _), _) => in_support d v
  | (Err e, _) => e = NoUniform
  end.
Proof.
  intros d cache us W Hu.
  assert (Q1 : forall u, open01 u -> 0 <= u < 1) by (unfold open01; intros; lra).
  assert (QP : Qpos open01) by (unfold Qpos, open01; intros; lra).
  pose proof (@draw_support erf erfinv gammaf lgammaf open01 Q1 d cache W (or_intror QP) us Hu) as K.
  destruct (draw NR false d cache us) as [[[v c]|e] r]; simpl in *; tauto.
Qed.

(* with uniforms in the open interval the gamma family is strictly positive *)
Theorem gamma_positive_open : forall shape scale us,
  0 < shape -> 0 < scale -> Forall open01 us ->
  match draw_gamma NR false shape scale us with
  | (Val y, _) => 0 < y
  | (Err e, _) => e = NoUniform
  end.
Proof.
  intros shape scale us Hs Hc Hu.
  assert (Q1 : forall u, open01 u -> 0 <= u < 1) by (unfold open01; intros; lra).
  assert (QP : Qpos open01) by (unfold Qpos, open01; intros; lra).
  pose proof (@safe_draw_gamma erf erfinv gammaf lgammaf open01 Q1 shape scale Hs Hc us Hu) as K.
  destruct (draw_gamma NR false shape scale us) as [[y|e] r]; [|assumption].
  destruct K as [[_ K] _]. apply K. left. exact QP.
Qed.
End Corollaries.
