(* C14, purity / frame part: a draw is a function of the stored parameters, the
   per-instance cache and THE UNIFORMS IT CONSUMES; it touches no other
   instance and no other stream; after re-pointing the old stream is never
   consumed again and DistNormal's cached gaussian is dropped.

   Everything here is generic in the number structure [N] (so it holds for the
   executed PrimFloat instance as well as for the real-number instance) and in
   the variant flag [pv]; no axioms are used. *)
From Coq Require Import ZArith List Bool Lia.
From PV Require Import Dist.Num Dist.Draw.
Import ListNotations.

Set Implicit Arguments.

(* ------------------------------------------------------------------ *)
(* prefix-determinacy of computations in the stream monad               *)
Section Framed.
Variable X : Type.

(* [m] reads a prefix [used] of the stream output, hands back exactly the rest,
   and - unless it ran dry - behaves identically whatever follows [used]. *)
Definition framed {A} (m : M X A) : Prop :=
  forall us r rest, m us = (r, rest) ->
    exists used, us = used ++ rest /\
      (r <> Err NoUniform -> forall ext, m (used ++ ext) = (r, ext)).

Lemma framed_ret : forall A (a : A), framed (ret a).
Proof.
  intros A a us r rest H. unfold ret in H. inversion H; subst.
  exists []. split; [reflexivity|]. intros _ ext. reflexivity.
Qed.

Lemma framed_lift : forall A (x : res A), framed (lift (X:=X) x).
Proof.
  intros A x us r rest H. unfold lift in H. inversion H; subst.
  exists []. split; [reflexivity|]. intros _ ext. reflexivity.
Qed.

Lemma framed_next : framed (@next X).
Proof.
  intros us r rest H. unfold next in H. destruct us as [|u t].
  - inversion H; subst. exists []. split; [reflexivity|]. intros C; exfalso; apply C; reflexivity.
  - inversion H; subst. exists [u]. split; [reflexivity|]. intros _ ext. reflexivity.
Qed.

Lemma framed_bind : forall A B (m : M X A) (f : A -> M X B),
  framed m -> (forall a, framed (f a)) -> framed (bind m f).
Proof.
  intros A B m f Hm Hf us r rest H. unfold bind in H.
  destruct (m us) as [[a|e] r1] eqn:E.
  - destruct (Hm _ _ _ E) as [u1 [-> K1]].
    destruct (Hf a _ _ _ H) as [u2 [-> K2]].
    exists (u1 ++ u2). split; [rewrite app_assoc; reflexivity|].
    intros NR ext. unfold bind. rewrite <- app_assoc.
    rewrite (K1 ltac:(discriminate) (u2 ++ ext)). apply K2; assumption.
  - inversion H; subst. destruct (Hm _ _ _ E) as [u1 [-> K1]].
    exists u1. split; [reflexivity|]. intros NR ext. unfold bind.
    rewrite (K1 ltac:(intros C; apply NR; inversion C; reflexivity) ext). reflexivity.
Qed.

Lemma framed_ext : forall A (m m' : M X A), (forall us, m us = m' us) -> framed m -> framed m'.
Proof.
  intros A m m' E H us r rest K. rewrite <- E in K. destruct (H _ _ _ K) as [u [-> J]].
  exists u. split; [reflexivity|]. intros NR ext. rewrite <- E. apply J; assumption.
Qed.
End Framed.

Ltac framed_step :=
  first
    [ apply framed_ret | apply framed_next | apply framed_lift
    | apply framed_bind; [|intros ?]
    | match goal with
      | |- framed (if ?b then _ else _) => destruct b
      | |- framed (match ?x with _ => _ end) => destruct x
      end ].

(* ------------------------------------------------------------------ *)
Section DrawFramed.
Variable N : num.
Notation F := (T N).

Lemma framed_next_pos : framed (next_pos N).
Proof.
  intros us. induction us as [|u t IH]; intros r rest H; simpl in H.
  - inversion H; subst. exists []. split; [reflexivity|]. intros C; exfalso; apply C; reflexivity.
  - destruct (eqb N u (zero N)) eqn:E.
    + destruct (IH _ _ H) as [used [-> K]]. exists (u :: used). split; [reflexivity|].
      intros NR ext. simpl. rewrite E. apply K; assumption.
    + inversion H; subst. exists [u]. split; [reflexivity|]. intros _ ext. simpl. rewrite E. reflexivity.
Qed.

Lemma framed_nextp : forall pv, framed (nextp N pv).
Proof. intros [|]; [apply framed_next | apply framed_next_pos]. Qed.

Lemma framed_gamma_lt1 : forall cnt shape scale b, framed (gamma_lt1 N cnt shape scale b).
Proof.
  induction cnt as [|c IH]; intros; simpl.
  - apply framed_ret.
  - repeat framed_step; apply IH.
Qed.

Lemma framed_gamma_gt1 : forall pv cnt shape scale a b q d, framed (gamma_gt1 N pv cnt shape scale a b q d).
Proof.
  induction cnt as [|c IH]; intros; simpl.
  - apply framed_ret.
  - apply framed_bind; [apply framed_nextp|intros u1].
    apply framed_bind; [apply framed_nextp|intros u2].
    repeat framed_step; apply IH.
Qed.

Lemma framed_draw_gamma : forall pv shape scale, framed (draw_gamma N pv shape scale).
Proof.
  intros. unfold draw_gamma.
  destruct (ltb N shape (one N)).
  - apply framed_bind; [apply framed_lift|intros]. apply framed_gamma_lt1.
  - destruct (ltb N (one N) shape).
    + repeat (apply framed_bind; [apply framed_lift|intros]). apply framed_gamma_gt1.
    + apply framed_bind; [apply framed_nextp|intros]. repeat framed_step.
Qed.

Lemma framed_prod_uniforms : forall pv k acc, framed (prod_uniforms N pv k acc).
Proof.
  induction k as [|k IH]; intros; simpl.
  - apply framed_ret.
  - apply framed_bind; [apply framed_nextp|intros]. apply IH.
Qed.

Lemma framed_count_successes : forall n p x, framed (count_successes N n p x).
Proof.
  induction n as [|n IH]; intros; simpl.
  - apply framed_ret.
  - apply framed_bind; [apply framed_next|intros]. apply IH.
Qed.

Lemma framed_geometric_once : forall pv lnp, framed (geometric_once N pv lnp).
Proof.
  intros. unfold geometric_once. apply framed_bind; [apply framed_nextp|intros]. repeat framed_step.
Qed.

Lemma framed_sum_geometrics : forall pv s lnp x, framed (sum_geometrics N pv s lnp x).
Proof.
  induction s as [|s IH]; intros; simpl.
  - apply framed_ret.
  - apply framed_bind; [apply framed_geometric_once|intros]. apply IH.
Qed.

Lemma framed_polar_loop : forall pv, framed (polar_loop N pv).
Proof.
  intros pv us. remember (length us) as n eqn:Hn.
  revert us Hn. induction n as [n IH] using lt_wf_ind. intros us Hn r rest H.
  destruct us as [|u1 [|u2 t]]; simpl in H.
  - inversion H; subst. exists []. split; [reflexivity|]. intros C; exfalso; apply C; reflexivity.
  - inversion H; subst. exists [u1]. split; [reflexivity|]. intros C; exfalso; apply C; reflexivity.
  - match type of H with (if ?c then _ else _) = _ => destruct c eqn:E end.
    + assert (L : (length t < n)%nat) by (subst n; simpl; lia).
      destruct (IH _ L t eq_refl _ _ H) as [used [-> K]].
      exists (u1 :: u2 :: used). split; [reflexivity|].
      intros NR ext. simpl. rewrite E. apply K; assumption.
    + inversion H; subst. exists [u1; u2]. split; [reflexivity|].
      intros _ ext. simpl. rewrite E. reflexivity.
Qed.

Lemma framed_poisson_loop : forall expl s x, framed (poisson_loop N expl s x).
Proof.
  intros expl s x us. revert s x. induction us as [|u t IH]; intros s x r rest H; simpl in H.
  - inversion H; subst. exists []. split; [reflexivity|]. intros C; exfalso; apply C; reflexivity.
  - destruct (leb N (mul N s u) expl) eqn:E.
    + inversion H; subst. exists [u]. split; [reflexivity|]. intros _ ext. simpl. rewrite E. reflexivity.
    + destruct (IH _ _ _ _ H) as [used [-> K]]. exists (u :: used). split; [reflexivity|].
      intros NR ext. simpl. rewrite E. apply K; assumption.
Qed.

Lemma framed_poisson_sum : forall k expl x, framed (poisson_sum N k expl x).
Proof.
  induction k as [|k IH]; intros; simpl.
  - apply framed_ret.
  - apply framed_bind; [apply framed_poisson_loop|intros]. apply IH.
Qed.

Lemma framed_draw_poisson : forall pv rate expl, framed (draw_poisson N pv rate expl).
Proof.
  intros. unfold draw_poisson.
  destruct (pv || leb N rate (c500 N)); [apply framed_poisson_loop|].
  repeat (apply framed_bind; [apply framed_lift|intros]). apply framed_poisson_sum.
Qed.

Lemma framed_next_gaussian : forall pv cache, framed (next_gaussian N pv cache).
Proof.
  intros pv [g|]; simpl.
  - apply framed_ret.
  - apply framed_bind; [apply framed_polar_loop|intros [[v1 v2] s]]. repeat framed_step.
Qed.

Lemma framed_draw_normal : forall pv mu sigma cache, framed (draw_normal N pv mu sigma cache).
Proof.
  intros. unfold draw_normal. apply framed_bind; [apply framed_next_gaussian|intros]. apply framed_ret.
Qed.

Lemma framed_draw_triangular : forall lo mode hi, framed (draw_triangular N lo mode hi).
Proof. intros. unfold draw_triangular. repeat framed_step. Qed.

Lemma framed_draw_normaltrunc : forall pv mu sigma lo hi cplo cpdiff,
  framed (draw_normaltrunc N pv mu sigma lo hi cplo cpdiff).
Proof. intros. unfold draw_normaltrunc. repeat framed_step. Qed.

Lemma framed_next_int : forall lo hi, framed (next_int N lo hi).
Proof. intros. unfold next_int. repeat framed_step. Qed.

Lemma framed_fv : forall A (m : M F F) (c : A), framed m -> framed (fv N m c).
Proof. intros. unfold fv. apply framed_bind; [assumption|intros; apply framed_ret]. Qed.

Lemma framed_iv : forall A (m : M F Z) (c : A), framed m -> framed (iv N m c).
Proof. intros. unfold iv. apply framed_bind; [assumption|intros; apply framed_ret]. Qed.

(* draw() of every class reads a prefix of the stream and depends on nothing else *)
Theorem framed_draw : forall pv d cache, framed (draw N pv d cache).
Proof.
  intros pv d cache. destruct d; simpl.
  - apply framed_iv. repeat framed_step.
  - apply framed_fv. apply framed_bind; [apply framed_draw_gamma|intros].
    apply framed_bind; [apply framed_draw_gamma|intros]. apply framed_lift.
  - apply framed_iv. apply framed_count_successes.
  - repeat framed_step.
  - apply framed_iv. apply framed_next_int.
  - destruct g.
    + apply framed_fv. apply framed_draw_gamma.
    + apply framed_fv. apply framed_bind; [apply framed_prod_uniforms|intros]. repeat framed_step.
  - apply framed_fv. apply framed_bind; [apply framed_nextp|intros]. repeat framed_step.
  - apply framed_fv. apply framed_draw_gamma.
  - apply framed_iv. apply framed_geometric_once.
  - apply framed_bind; [apply framed_draw_normal|intros]. repeat framed_step.
  - apply framed_iv. apply framed_sum_geometrics.
  - apply framed_bind; [apply framed_draw_normal|intros]. apply framed_ret.
  - apply framed_fv. apply framed_draw_normaltrunc.
  - apply framed_fv. apply framed_bind; [apply framed_draw_gamma|intros]. apply framed_lift.
  - apply framed_fv. apply framed_bind; [apply framed_draw_gamma|intros].
    apply framed_bind; [apply framed_draw_gamma|intros]. apply framed_lift.
  - apply framed_iv. apply framed_draw_poisson.
  - apply framed_fv. apply framed_draw_triangular.
  - apply framed_fv. repeat framed_step.
  - apply framed_fv. apply framed_bind; [apply framed_nextp|intros]. repeat framed_step.
Qed.

(* the same for [draw_c], the form used by the instance operations: result AND
   cache afterwards are determined by (variant, parameters, cache, consumed uniforms) *)
Theorem draw_c_prefix : forall pv d cache us r c' rest,
  draw_c N pv d cache us = (r, c', rest) ->
  exists used, us = used ++ rest /\
    (r <> Err NoUniform -> forall ext, draw_c N pv d cache (used ++ ext) = (r, c', ext)).
Proof.
  intros pv d cache us r c' rest H.
  assert (G : forall dd, (forall mu sigma a b, dd <> DLogNormal mu sigma a b) ->
              draw_c N pv dd cache us = (r, c', rest) ->
              exists used, us = used ++ rest /\
                (r <> Err NoUniform -> forall ext, draw_c N pv dd cache (used ++ ext) = (r, c', ext))).
  { intros dd ND K.
    assert (E : forall l, draw_c N pv dd cache l =
                match draw N pv dd cache l with
                | (Val (v, c), r0) => (Val v, c, r0)
                | (Err e, r0) => (Err e, cache, r0)
                end).
    { intros l. destruct dd; try reflexivity. exfalso. eapply ND. reflexivity. }
    rewrite E in K. pose proof (@framed_draw pv dd cache) as FD.
    destruct (draw N pv dd cache us) as [[[v c]|e] r0] eqn:D.
    - inversion K; subst. destruct (FD _ _ _ D) as [used [-> J]].
      exists used. split; [reflexivity|]. intros _ ext. rewrite E. rewrite (J ltac:(discriminate) ext). reflexivity.
    - inversion K; subst. destruct (FD _ _ _ D) as [used [-> J]].
      exists used. split; [reflexivity|]. intros NR ext. rewrite E.
      rewrite (J ltac:(intros C; apply NR; inversion C; reflexivity) ext). reflexivity. }
  destruct d; try (apply G; [intros; discriminate|exact H]).
  (* log-normal *)
  simpl in H.
  match type of H with
  | context [draw_normal N pv ?mu ?sigma cache us] =>
      pose proof (@framed_draw_normal pv mu sigma cache) as FN;
      destruct (draw_normal N pv mu sigma cache us) as [[t|e] r0] eqn:D
  end.
  - inversion H; subst. destruct (FN _ _ _ D) as [used [-> J]].
    exists used. split; [reflexivity|]. intros _ ext. simpl. rewrite (J ltac:(discriminate) ext). reflexivity.
  - inversion H; subst. destruct (FN _ _ _ D) as [used [-> J]].
    exists used. split; [reflexivity|]. intros NR ext. simpl.
    rewrite (J ltac:(intros C; apply NR; inversion C; reflexivity) ext). reflexivity.
Qed.

(* ------------------------------------------------------------------ *)
(* instance operations: frame lemmas                                     *)
Notation world := (world N).
Notation op := (op (T N)).

Definition op_inst (o : op) : nat :=
  match o with ONew k _ _ _ _ => k | ODraw k => k | ODrawQ k _ => k | OSetStream k _ _ => k end.

(* the stream an operation may consume from, in world [w] *)
Definition op_reads (w : world) (o : op) : option nat :=
  match o with
  | ODraw k | ODrawQ k _ => match fst w k with Some i => Some (isid i) | None => None end
  | _ => None
  end.

Lemma inst_draw_frame : forall pv st i r i' st',
  inst_draw N pv st i = (r, i', st') ->
  idist i' = idist i /\ isid i' = isid i /\ (forall s, s <> isid i -> st' s = st s).
Proof.
  intros pv st i r i' st' H. unfold inst_draw in H.
  destruct (draw_c N pv (idist i) (icache i) (st (isid i))) as [[r0 c] rest].
  inversion H; subst. simpl. repeat split; try reflexivity.
  intros s Hs. unfold upd. destruct (Nat.eqb s (isid i)) eqn:E; [apply Nat.eqb_eq in E; contradiction|reflexivity].
Qed.

(* one operation changes only its own instance, and only the stream that
   instance currently points to *)
Theorem step_frame : forall pv (w : world) o w' m,
  step N pv w o = (w', m) ->
  (forall j, j <> op_inst o -> fst w' j = fst w j) /\
  (forall s, op_reads w o <> Some s -> snd w' s = snd w s).
Proof.
  intros pv [ins st] o w' m H. destruct o as [k c sok sid ps|k|k fac|k sok sid]; simpl in H.
  - destruct (ctor N pv c sok ps); inversion H; subst; simpl; split; intros;
      try reflexivity; unfold wupd; destruct (Nat.eqb j k) eqn:E; try reflexivity;
      apply Nat.eqb_eq in E; contradiction.
  - destruct (ins k) as [i|] eqn:Ei.
    + destruct (inst_draw N pv st i) as [[r i'] st'] eqn:D. inversion H; subst; simpl.
      destruct (inst_draw_frame _ _ _ D) as [_ [_ Fr]]. split.
      * intros j Hj. unfold wupd. destruct (Nat.eqb j k) eqn:E; [apply Nat.eqb_eq in E; contradiction|reflexivity].
      * intros s Hs. rewrite Ei in Hs. apply Fr. intros C; apply Hs; subst; reflexivity.
    + inversion H; subst; split; intros; reflexivity.
  - destruct (ins k) as [i|] eqn:Ei.
    + destruct (inst_draw N pv st i) as [[r i'] st'] eqn:D. inversion H; subst; simpl.
      destruct (inst_draw_frame _ _ _ D) as [_ [_ Fr]]. split.
      * intros j Hj. unfold wupd. destruct (Nat.eqb j k) eqn:E; [apply Nat.eqb_eq in E; contradiction|reflexivity].
      * intros s Hs. rewrite Ei in Hs. apply Fr. intros C; apply Hs; subst; reflexivity.
    + inversion H; subst; split; intros; reflexivity.
  - destruct (ins k) as [i|] eqn:Ei.
    + destruct (set_stream N i sok sid) as [i'|e]; inversion H; subst; simpl; split; intros; try reflexivity.
      unfold wupd. destruct (Nat.eqb j k) eqn:E; [apply Nat.eqb_eq in E; contradiction|reflexivity].
    + inversion H; subst; split; intros; reflexivity.
Qed.

(* ------------------------------------------------------------------ *)
(* isolation: what instance [k] observes does not depend on what other
   instances do, as long as they draw from other streams                  *)

(* the two worlds agree on instance k and on the streams in S *)
Definition agree (k : nat) (S : nat -> bool) (w1 w2 : world) : Prop :=
  fst w1 k = fst w2 k /\ forall s, S s = true -> snd w1 s = snd w2 s.

(* along the run from [w], every operation of another instance reads a stream
   outside S and every operation of instance k stays inside S *)
Fixpoint separated (pv : bool) (k : nat) (S : nat -> bool) (w : world) (ops : list op) : Prop :=
  match ops with
  | [] => True
  | o :: r =>
      (if Nat.eqb (op_inst o) k then
         match o with
         | ONew _ _ _ sid _ => S sid = true
         | OSetStream _ _ sid => S sid = true
         | _ => match fst w k with Some i => S (isid i) = true | None => True end
         end
       else
         match op_reads w o with Some s => S s = false | None => True end)
      /\ separated pv k S (fst (step N pv w o)) r
  end.

Fixpoint outputs_of (k : nat) (ops : list op) (ms : list (mout (T N))) : list (mout (T N)) :=
  match ops, ms with
  | o :: r, m :: t => if Nat.eqb (op_inst o) k then m :: outputs_of k r t else outputs_of k r t
  | _, _ => []
  end.

Definition only (k : nat) (ops : list op) : list op :=
  filter (fun o => Nat.eqb (op_inst o) k) ops.

(* invariant used below: instance k points into S *)
Definition points_in (k : nat) (S : nat -> bool) (w : world) : Prop :=
  match fst w k with Some i => S (isid i) = true | None => True end.

Lemma wupd_same : forall (w : nat -> option (inst F)) k i, wupd N w k i k = i.
Proof. intros. unfold wupd. rewrite Nat.eqb_refl. reflexivity. Qed.

Lemma draw_own : forall pv k S (i1 i2 : nat -> option (inst F)) (s1 s2 : store N) i,
  i1 k = Some i -> i2 k = Some i -> (forall s, S s = true -> s1 s = s2 s) -> S (isid i) = true ->
  exists r i' t1 t2,
    inst_draw N pv s1 i = (r, i', t1) /\ inst_draw N pv s2 i = (r, i', t2) /\
    isid i' = isid i /\ (forall s, S s = true -> t1 s = t2 s).
Proof.
  intros pv k S i1 i2 s1 s2 i H1 H2 As P. unfold inst_draw. rewrite <- (As _ P).
  destruct (draw_c N pv (idist i) (icache i) (s1 (isid i))) as [[r c] rest].
  eexists _, _, _, _. split; [reflexivity|]. split; [reflexivity|]. split; [reflexivity|].
  intros s Hs. unfold upd. destruct (Nat.eqb s (isid i)); [reflexivity|apply As; assumption].
Qed.

Lemma step_own : forall pv k S (w1 w2 : world) o,
  op_inst o = k -> agree k S w1 w2 -> points_in k S w1 ->
  match o with
  | ONew _ _ _ sid _ => S sid = true
  | OSetStream _ _ sid => S sid = true
  | _ => True
  end ->
  snd (step N pv w1 o) = snd (step N pv w2 o) /\
  agree k S (fst (step N pv w1 o)) (fst (step N pv w2 o)) /\
  points_in k S (fst (step N pv w1 o)).
Proof.
  intros pv k S [i1 s1] [i2 s2] o Hk [Ak As] P Hs. unfold points_in, agree in *. simpl in Ak, As, P.
  destruct o as [k' c sok sid ps|k'|k' fac|k' sok sid]; simpl in Hk; subst k'.
  - simpl. destruct (ctor N pv c sok ps); simpl; rewrite !wupd_same; simpl; auto.
  - simpl. rewrite <- Ak. destruct (i1 k) as [i|] eqn:Ei.
    + destruct (draw_own pv k S i1 i2 s1 s2 Ei (eq_sym Ak) As P) as [r [i' [t1 [t2 [D1 [D2 [Hi Ht]]]]]]].
      rewrite D1, D2. simpl. rewrite !wupd_same. simpl. rewrite Hi, (As _ P), (Ht _ P). auto.
    + simpl. rewrite Ei. auto.
  - simpl. rewrite <- Ak. destruct (i1 k) as [i|] eqn:Ei.
    + destruct (draw_own pv k S i1 i2 s1 s2 Ei (eq_sym Ak) As P) as [r [i' [t1 [t2 [D1 [D2 [Hi Ht]]]]]]].
      rewrite D1, D2. simpl. rewrite !wupd_same. simpl. rewrite Hi, (As _ P), (Ht _ P). auto.
    + simpl. rewrite Ei. auto.
  - simpl. rewrite <- Ak. destruct (i1 k) as [i|] eqn:Ei.
    + unfold set_stream. destruct sok; simpl.
      * rewrite !wupd_same. simpl. auto.
      * rewrite Ei. auto.
    + simpl. rewrite Ei. auto.
Qed.

Lemma step_foreign : forall pv k S (w1 w2 : world) o,
  op_inst o <> k -> agree k S w1 w2 ->
  match op_reads w1 o with Some s => S s = false | None => True end ->
  agree k S (fst (step N pv w1 o)) w2 /\
  (points_in k S w1 -> points_in k S (fst (step N pv w1 o))).
Proof.
  intros pv k S w1 w2 o Hk [Ak As] Hr.
  destruct (step N pv w1 o) as [w' m] eqn:E. simpl.
  destruct (step_frame _ _ _ E) as [Fi Fs]. split.
  - split.
    + rewrite Fi; [assumption|]. intros C; apply Hk; symmetry; assumption.
    + intros s Hs. rewrite Fs; [apply As; assumption|].
      intros C. rewrite C in Hr. rewrite Hr in Hs. discriminate.
  - unfold points_in. rewrite Fi; [tauto|]. intros C; apply Hk; symmetry; assumption.
Qed.

Theorem isolated : forall pv k S ops (w1 w2 : world),
  agree k S w1 w2 -> points_in k S w1 -> separated pv k S w1 ops ->
  outputs_of k ops (snd (run N pv w1 ops)) = snd (run N pv w2 (only k ops)).
Proof.
  intros pv k S ops. induction ops as [|o r IH]; intros w1 w2 A P Sep; [reflexivity|].
  simpl in Sep. destruct Sep as [Ho Sr]. simpl.
  destruct (step N pv w1 o) as [w1' m1] eqn:E1.
  destruct (run N pv w1' r) as [w1'' ms1] eqn:R1. simpl.
  destruct (Nat.eqb (op_inst o) k) eqn:Ek.
  - apply Nat.eqb_eq in Ek. simpl.
    destruct (step N pv w2 o) as [w2' m2] eqn:E2.
    destruct (run N pv w2' (only k r)) as [w2'' ms2] eqn:R2. simpl.
    assert (Hs : match o with ONew _ _ _ sid _ => S sid = true | OSetStream _ _ sid => S sid = true | _ => True end).
    { destruct o; auto. }
    destruct (step_own pv o Ek A P Hs) as [Em [A' P']].
    rewrite E1, E2 in Em, A'. rewrite E1 in P'. simpl in Em, A', P'. subst m2. f_equal.
    try rewrite E1 in Sr. simpl in Sr.
    specialize (IH _ _ A' P' Sr). rewrite R1, R2 in IH. exact IH.
  - apply Nat.eqb_neq in Ek.
    destruct (step_foreign pv o Ek A Ho) as [A' P']. rewrite E1 in A', P'. simpl in A', P'.
    try rewrite E1 in Sr. simpl in Sr.
    specialize (IH _ _ A' (P' P) Sr). rewrite R1 in IH. exact IH.
Qed.

(* ------------------------------------------------------------------ *)
(* re-pointing                                                           *)
Definition draws_of (k : nat) (ops : list op) : Prop :=
  Forall (fun o => match o with ODraw j | ODrawQ j _ => j = k | _ => False end) ops.

Theorem repoint_sets_stream_and_drops_cache : forall pv (w : world) k i s2,
  fst w k = Some i ->
  step N pv w (OSetStream k true s2) =
    ((wupd N (fst w) k (Some (mkInst (idist i) s2 None)), snd w), MNone).
Proof. intros pv [ins st] k i s2 H. simpl in *. rewrite H. reflexivity. Qed.

Lemma run_cons : forall pv (w : world) o r,
  run N pv w (o :: r) =
  let '(w1, m) := step N pv w o in let '(w2, ms) := run N pv w1 r in (w2, m :: ms).
Proof. reflexivity. Qed.

Lemma draws_keep_stream : forall pv k ops (w : world) i,
  draws_of k ops -> fst w k = Some i ->
  (exists i', fst (fst (run N pv w ops)) k = Some i' /\ isid i' = isid i /\ idist i' = idist i) /\
  (forall s, s <> isid i -> snd (fst (run N pv w ops)) s = snd w s).
Proof.
  intros pv k ops. induction ops as [|o r IH]; intros [ins st] i D Hi.
  - simpl. split; [exists i; auto|auto].
  - inversion D as [|? ? Ho Dr]; subst. simpl in Hi.
    assert (K : exists r0 i' st', inst_draw N pv st i = (r0, i', st') /\
                fst (step N pv (ins, st) o) = (wupd N ins k (Some i'), st')).
    { destruct o as [| j | j fac |]; try contradiction; subst j; simpl; rewrite Hi;
        destruct (inst_draw N pv st i) as [[r0 i'] st']; exists r0, i', st'; split; reflexivity. }
    destruct K as [r0 [i' [st' [Ed Es]]]].
    destruct (inst_draw_frame _ _ _ Ed) as [Fd [Fi Fs]].
    rewrite run_cons. destruct (step N pv (ins, st) o) as [w1 m] eqn:E1. simpl in Es. subst w1.
    destruct (run N pv (wupd N ins k (Some i'), st') r) as [w2 ms] eqn:R. simpl.
    assert (Hi' : fst (wupd N ins k (Some i'), st') k = Some i') by (simpl; unfold wupd; rewrite Nat.eqb_refl; reflexivity).
    destruct (IH _ _ Dr Hi') as [[i'' [A [B C]]] Q]. rewrite R in A, Q. simpl in A, Q. split.
    + exists i''. rewrite A. repeat split; congruence.
    + intros s Hs. rewrite Q by (rewrite Fi; assumption). simpl. apply Fs; assumption.
Qed.

(* after instance k was pointed at stream s2, whatever it draws, every other
   stream - in particular the one it used before - keeps its content *)
Theorem repoint_old_stream_untouched : forall pv (w : world) k i s2 ops w1,
  fst w k = Some i ->
  fst (step N pv w (OSetStream k true s2)) = w1 ->
  draws_of k ops ->
  forall s, s <> s2 -> snd (fst (run N pv w1 ops)) s = snd w s.
Proof.
  intros pv w k i s2 ops w1 Hi Hs D s Hne.
  rewrite (repoint_sets_stream_and_drops_cache pv w k s2 Hi) in Hs. simpl in Hs. subst w1.
  assert (H1 : fst (wupd N (fst w) k (Some (mkInst (idist i) s2 None)), snd w) k = Some (mkInst (idist i) s2 None))
    by (simpl; unfold wupd; rewrite Nat.eqb_refl; reflexivity).
  destruct (@draws_keep_stream pv k ops _ _ D H1) as [_ Q]. rewrite Q by assumption. reflexivity.
Qed.

(* the first gaussian after re-pointing comes from the polar method on the NEW
   stream: a cached value is never used *)
Theorem repoint_normal_redraws : forall pv mu sigma us r c' rest,
  draw_c N pv (DNormal mu sigma) None us = (r, c', rest) ->
  (exists v, r = Val v) -> (length rest + 2 <= length us)%nat.
Proof.
  intros pv mu sigma us r c' rest H [v ->]. simpl in H. unfold draw_normal, next_gaussian, bind in H.
  destruct (polar_loop N pv us) as [[[[v1 v2] s]|e] r0] eqn:P; [|discriminate].
  assert (L : (length r0 + 2 <= length us)%nat).
  { clear H. revert P. remember (length us) as n eqn:Hn. revert us Hn.
    induction n as [n IH] using lt_wf_ind. intros us Hn P.
    destruct us as [|u1 [|u2 t]]; simpl in P; try discriminate.
    match type of P with (if ?c then _ else _) = _ => destruct c end.
    - assert (Lt : (length t < n)%nat) by (subst n; simpl; lia).
      specialize (IH _ Lt t eq_refl P). subst n. simpl. lia.
    - inversion P; subst. simpl. lia. }
  unfold lift, ret in H.
  destruct (nlog N s) as [l|]; [|discriminate].
  destruct (div N (mul N (neg N (two N)) l) s) as [q|]; [|discriminate].
  destruct (nsqrt N q) as [nm|]; [|discriminate].
  inversion H; subst. exact L.
Qed.

(* ------------------------------------------------------------------ *)
(* twins: equal parameters (and cache) on two streams with equal content give
   the same draw and leave the two streams with equal content again - so, by
   iteration, identical sequences of draws                                 *)
Theorem twin_draws_equal : forall pv (ins : nat -> option (inst F)) (st : store N) a b ia ib,
  ins a = Some ia -> ins b = Some ib ->
  idist ia = idist ib -> icache ia = icache ib ->
  isid ia <> isid ib -> st (isid ia) = st (isid ib) ->
  forall w1 m1 w2 m2,
  step N pv (ins, st) (ODraw a) = (w1, m1) ->
  step N pv w1 (ODraw b) = (w2, m2) ->
  m1 = m2 /\
  snd w2 (isid ia) = snd w2 (isid ib) /\
  (exists ia' ib', fst w2 a = Some ia' /\ fst w2 b = Some ib' /\
                   idist ia' = idist ib' /\ icache ia' = icache ib' /\
                   isid ia' = isid ia /\ isid ib' = isid ib).
Proof.
  intros pv ins st a b ia ib Ha Hb Hd Hc Hs Hst w1 m1 w2 m2 S1 S2.
  assert (Hab : a <> b) by (intros C; subst; rewrite Ha in Hb; inversion Hb; subst; apply Hs; reflexivity).
  simpl in S1. rewrite Ha in S1. unfold inst_draw in S1.
  destruct (draw_c N pv (idist ia) (icache ia) (st (isid ia))) as [[r c] rest] eqn:D.
  inversion S1; subst w1 m1; clear S1.
  simpl in S2. unfold wupd in S2 at 1. destruct (Nat.eqb b a) eqn:E; [apply Nat.eqb_eq in E; congruence|].
  rewrite Hb in S2. unfold inst_draw in S2.
  assert (Hu : upd N st (isid ia) rest (isid ib) = st (isid ib)).
  { unfold upd. destruct (Nat.eqb (isid ib) (isid ia)) eqn:E2; [apply Nat.eqb_eq in E2; congruence|reflexivity]. }
  rewrite Hu, <- Hst, <- Hd, <- Hc, D in S2. inversion S2; subst w2 m2; clear S2. simpl.
  split.
  - unfold upd. rewrite !Nat.eqb_refl.
    destruct (Nat.eqb (isid ib) (isid ia)) eqn:E2; [apply Nat.eqb_eq in E2; congruence|].
    try rewrite <- Hst; reflexivity.
  - split.
    + unfold upd. rewrite !Nat.eqb_refl.
      destruct (Nat.eqb (isid ia) (isid ib)) eqn:E2; [apply Nat.eqb_eq in E2; congruence|]. reflexivity.
    + exists (mkInst (idist ia) (isid ia) c), (mkInst (idist ib) (isid ib) c).
      unfold wupd. rewrite Nat.eqb_refl.
      destruct (Nat.eqb a b) eqn:E3; [apply Nat.eqb_eq in E3; congruence|]. rewrite Nat.eqb_refl.
      simpl. repeat split; auto. rewrite Hd. reflexivity.
Qed.

End DrawFramed.
