(* C15 over the real-number instance: the declared densities / probabilities of
   Dist/Density.v are total (the repaired triangular density included),
   non-negative and vanish outside the support; normal cdf facts under an
   explicit contract for erf.  gamma / lgamma are arbitrary functions with the
   one stated hypothesis gamma > 0 on the positive axis. *)
From Coq Require Import Reals Lra Lia ZArith List Bool.
From PV Require Import Dist.Num Dist.Draw Dist.NumR Dist.Support Dist.Ctor Dist.Density.
Import ListNotations.
Local Open Scope R_scope.

Section DensityR.
Variables erf erfinv gammaf lgammaf : R -> R.
Notation NR := (numR erf erfinv gammaf lgammaf).
Notation Phi := (Phi erf).

Ltac nr := cbn [T ofZ ofD cE cPi add sub mul neg nabs div ltb leb eqb isinf nsqrt nlog nexp nerf
                nerfinv ngamma nlgamma npow npowop nfloor numR zero one two four half c4_5] in *.

(* what a constructor-accepted instance stores, as far as the densities need it *)
Definition wfd (d : dist R) : Prop :=
  match d with
  | DBernoulli p => 0 <= p <= 1
  | DBeta a1 a2 _ _ => 0 < a1 /\ 0 < a2
  | DBinomial n p => (0 < n)%Z /\ 0 <= p <= 1
  | DConstant _ => True
  | DDiscreteUniform lo hi => (lo < hi)%Z
  | DErlang scale k lam _ => 0 < scale /\ (0 < k)%Z /\ lam = 1 / scale
  | DExponential mean => 0 < mean
  | DGamma a b => 0 < a /\ 0 < b
  | DGeometric p _ => 0 < p < 1
  | DLogNormal _ sigma c2 r => 0 < sigma /\ c2 = 2 * sigma * sigma /\ r = sqrt (Rtrigo1.PI * c2)
  | DNegBinomial s p _ => (0 < s)%Z /\ 0 < p < 1
  | DNormal _ sigma => 0 < sigma
  | DNormalTrunc mu sigma lo hi cplo diff fac =>
      0 < sigma /\ lo < hi /\ cplo = Phi mu sigma lo /\ diff = Phi mu sigma hi - cplo /\
      0 < diff /\ fac = 1 / diff
  | DPearson5 a b _ => 0 < a /\ 0 < b
  | DPearson6 a1 a2 b _ _ => 0 < a1 /\ 0 < a2 /\ 0 < b
  | DPoisson rate _ => 0 < rate
  | DTriangular lo mode hi => lo <= mode <= hi /\ lo < hi
  | DUniform lo hi => lo < hi
  | DWeibull a b => 0 < a /\ 0 < b
  end.

Ltac chk H :=
  match type of H with
  | rbind (check ?b ?e) _ = Val _ =>
      let E := fresh "E" in destruct b eqn:E; [cbn [check rbind] in H|discriminate H]
  | rbind ?r _ = Val _ =>
      let E := fresh "E" in let x := fresh "x" in destruct r as [x|] eqn:E; [cbn [rbind] in H|discriminate H]
  | (if ?b then _ else _) = Val _ => let E := fresh "E" in destruct b eqn:E
  end.

Notation pf := (pf erf erfinv gammaf lgammaf).

Theorem ctor_sound_d : forall c sok ps d, ctor NR false c sok ps = Val d -> wfd d.
Proof.
  intros c sok ps d H.
  destruct c; destruct ps as [|p1 [|p2 [|p3 [|p4 [|p5 ps]]]]]; try discriminate H;
    unfold ctor in H; repeat chk H; inversion H; subst; clear H; simpl;
    repeat match goal with
    | E : pos_ok NR false ?p = true |- _ => apply (pos_ok_iff erf erfinv gammaf lgammaf) in E; [|assumption]
    | E : in01 NR _ = true |- _ => apply (in01_iff erf erfinv gammaf lgammaf) in E
    | E : in01o NR _ = true |- _ => apply (in01o_iff erf erfinv gammaf lgammaf) in E
    | E : prob_ok NR false _ = true |- _ => apply (in01o_iff erf erfinv gammaf lgammaf) in E
    | E : negb (p_le0 NR ?p) = true |- _ =>
        destruct (is_int_num erf erfinv gammaf lgammaf p) as [zz ->]; [assumption|];
        apply (int_pos_iff erf erfinv gammaf lgammaf) in E
    end; unfold Ctor.pf in *; auto.
  - (* DiscreteUniform *)
    destruct (is_int_num erf erfinv gammaf lgammaf _ E0) as [lo ->].
    destruct (is_int_num erf erfinv gammaf lgammaf _ E1) as [hi ->].
    simpl in E2. rewrite negb_true_iff, Z.leb_gt in E2. exact E2.
  - (* Erlang k < 10 *)
    match goal with E : div NR _ _ = Val _ |- _ =>
      unfold one in E; nr; rewrite r_div_val in E by lra; inversion E end. auto.
  - (* Erlang k >= 10 *)
    match goal with E : div NR _ _ = Val _ |- _ =>
      unfold one in E; nr; rewrite r_div_val in E by lra; inversion E end. auto.
  - (* Gamma *)
    match goal with E : gamma_checks NR false _ _ = Val _ |- _ =>
      apply (gamma_checks_sound erf erfinv gammaf lgammaf) in E; destruct E as [_ [_ [A1 [A2 ->]]]] end.
    simpl. auto.
  - (* LogNormal *)
    match goal with E : nsqrt NR _ = Val _ |- _ => nr; rewrite r_sqrt_val in E;
      [inversion E|pose proof PI_RGT_0; nra] end. auto.
  - (* NormalTrunc *)
    match goal with E : lt_ok NR false _ _ = true |- _ =>
      unfold lt_ok in E; apply (p_lt_iff erf erfinv gammaf lgammaf) in E; try assumption; unfold Ctor.pf in E end.
    repeat match goal with E : cum_prob_nt NR _ _ _ = Val _ |- _ =>
      rewrite (cum_prob_nt_val erf erfinv gammaf lgammaf) in E by assumption; inversion E; subst; clear E end.
    nr. match goal with E : Rleb _ _ = true |- _ => apply Rleb_true in E end.
    pose proof (c1em6_pos erf erfinv gammaf lgammaf) as Hc.
    match goal with E : r_div _ _ = Val _ |- _ => rewrite r_div_val in E by lra; inversion E; subst end.
    repeat split; auto; lra.
  - (* Triangular *)
    repeat match goal with E : le_ok NR false _ _ = true |- _ =>
      unfold le_ok in E; apply (p_le_iff erf erfinv gammaf lgammaf) in E; try assumption; unfold Ctor.pf in E end.
    match goal with E : negb (p_eq NR ?a ?b) = true |- _ =>
      rewrite negb_true_iff in E;
      assert (NE : p_float NR a <> p_float NR b) by
        (intros C; apply (p_eq_iff erf erfinv gammaf lgammaf a b) in C; try assumption; rewrite C in E; discriminate) end.
    lra.
  - (* Uniform *)
    match goal with E : lt_ok NR false _ _ = true |- _ =>
      unfold lt_ok in E; apply (p_lt_iff erf erfinv gammaf lgammaf) in E; assumption end.
Qed.

(* ------------------------------------------------------------------ *)
(* densities: total, non-negative, zero outside the support              *)
Hypothesis gamma_pos : forall x, 0 < x -> 0 < gammaf x.

Definition has_density (d : dist R) : bool :=
  match d with
  | DBeta _ _ _ _ | DConstant _ | DErlang _ _ _ _ | DExponential _ | DGamma _ _ | DLogNormal _ _ _ _
  | DNormal _ _ | DNormalTrunc _ _ _ _ _ _ _ | DPearson5 _ _ _ | DPearson6 _ _ _ _ _
  | DTriangular _ _ _ | DUniform _ _ | DWeibull _ _ => true
  | _ => false
  end.

(* the complement of the documented support *)
Definition outside (d : dist R) (x : R) : Prop :=
  match d with
  | DBeta _ _ _ _ => x <= 0 \/ 1 <= x
  | DConstant c => x <> as_float NR c
  | DErlang _ _ _ _ | DExponential _ => x < 0
  | DGamma _ _ | DLogNormal _ _ _ _ | DPearson5 _ _ _ | DPearson6 _ _ _ _ _ | DWeibull _ _ => x <= 0
  | DNormalTrunc _ _ lo hi _ _ _ | DTriangular lo _ hi | DUniform lo hi => x < lo \/ hi < x
  | _ => False
  end.

Lemma zfact_pos : forall n, (0 < zfact n)%Z.
Proof. induction n; [simpl; lia|]. change (zfact (S n)) with (Z.of_nat (S n) * zfact n)%Z. apply Z.mul_pos_pos; lia. Qed.

Lemma r_pow_nonneg : forall x y, 0 <= x -> 0 <= y -> exists v, r_pow x y = Val v /\ 0 <= v.
Proof.
  intros x y Hx Hy. unfold r_pow. destruct (Rlt_dec 0 x).
  - eexists; split; [reflexivity|]. left. apply Rpower_pos.
  - destruct (Req_EM_T x 0); [|lra]. destruct (Rlt_dec 0 y).
    + eexists; split; [reflexivity|lra].
    + destruct (Req_EM_T y 0); [|lra]. eexists; split; [reflexivity|lra].
Qed.

Lemma beta_fn_val : forall a b, 0 < a -> 0 < b ->
  beta_fn NR a b = Val (exp (lgammaf a + lgammaf b - lgammaf (a + b))).
Proof.
  intros a b Ha Hb. unfold beta_fn. nr.
  rewrite (proj2 (Rltb_false a 0)), (proj2 (Rltb_false b 0)) by lra. reflexivity.
Qed.

Lemma sqrt_2pi_pos : 0 < sqrt (2 * Rtrigo1.PI).
Proof. apply sqrt_lt_R0. pose proof PI_RGT_0. lra. Qed.

Lemma normal_kernel_val : forall fac mu sigma x, 0 < sigma -> 0 <= fac ->
  normal_kernel NR fac mu sigma x =
    Val (fac / (sigma * sqrt (2 * Rtrigo1.PI)) * exp (- / 2 * ((x - mu) / sigma * ((x - mu) / sigma)))).
Proof.
  intros fac mu sigma x Hs Hf. unfold normal_kernel. nr. pose proof sqrt_2pi_pos as Hq.
  rewrite r_sqrt_val by (pose proof PI_RGT_0; lra). cbn [rbind].
  rewrite r_div_val by nra. cbn [rbind]. rewrite r_div_val by lra. cbn [rbind].
  rewrite r_pow_sq. cbn [rbind]. unfold half. nr.
  replace (1 * powerRZ 2 (-1)) with (/ 2) by (simpl; field). reflexivity.
Qed.

Ltac side := solve [ lra | nra | assumption | apply Rgt_not_eq; solve [lra | nra | assumption]
                   | apply Rlt_le; assumption ].
Ltac rv1 :=
  match goal with
  | |- context [r_div ?a ?b] => rewrite (r_div_val a b) by side
  | |- context [r_pow ?a ?b] => rewrite (r_pow_val a b) by side
  | |- context [r_log ?a] => rewrite (r_log_val a) by side
  | |- context [r_sqrt ?a] => rewrite (r_sqrt_val a) by side
  end; cbn [rbind].
Ltac rv := repeat rv1.

Tactic Notation "tcase" constr(c) ident(E) := destruct c eqn:E;
  [ try apply Rltb_true in E; try apply Rleb_true in E; try apply Reqb_true in E
  | try apply Rltb_false in E; try apply Rleb_false in E; try apply Reqb_false in E ].

Theorem pdf_total_nonneg_zero_outside : forall d x,
  wfd d -> has_density d = true ->
  exists v, pdf NR false d x = Val v /\ 0 <= v /\ (outside d x -> v = 0).
Proof.
  intros d x W HD. destruct d; try discriminate HD; simpl in W; unfold pdf, outside; unfold zero, one; nr.
  - (* Beta *)
    destruct W as [W1 W2].
    tcase (Rltb 0 x) E1; [tcase (Rltb x 1) E2|]; cbn [andb].
    + rewrite !r_pow_val by lra. cbn [rbind]. unfold zero, one; nr. rewrite beta_fn_val by assumption. cbn [rbind].
      pose proof (exp_pos (lgammaf a1 + lgammaf a2 - lgammaf (a1 + a2))) as He.
      rewrite r_div_val by lra. eexists; split; [reflexivity|]. split; [|intros [C|C]; lra].
      left. apply Rdiv_lt_0_compat; [apply Rmult_lt_0_compat; apply Rpower_pos|assumption].
    + eexists; split; [reflexivity|]. split; [lra|reflexivity].
    + eexists; split; [reflexivity|]. split; [lra|reflexivity].
  - (* Constant *)
    tcase (Reqb x (as_float NR c)) E.
    + eexists; split; [reflexivity|]. split; [lra|]. intros C. contradiction.
    + eexists; split; [reflexivity|]. split; [lra|reflexivity].
  - (* Erlang *)
    destruct W as [W1 [W2 W3]]. subst lambda. tcase (Rleb 0 x) E.
    + assert (Hl : 0 < 1 / scale) by (apply Rdiv_lt_0_compat; lra).
      destruct (r_pow_nonneg (1 / scale * x) (IZR (k - 1))) as [pw [Ep Hp]]; [nra|apply (IZR_le 0); lia|].
      rewrite Ep. cbn [rbind].
      assert (Hf : 0 < IZR (zfact (Z.to_nat (k - 1)))).
      { apply (IZR_lt 0). apply zfact_pos. }
      unfold ofZc; nr; cbn [rbind].
      rewrite r_div_val by lra. cbn [on_exn]. eexists; split; [reflexivity|]. split; [|intros C; lra].
      pose proof (exp_pos (- (1 / scale) * x)).
      apply Rmult_le_pos; [apply Rmult_le_pos; [apply Rmult_le_pos|]|]; try lra. left. apply Rinv_0_lt_compat. assumption.
    + eexists; split; [reflexivity|]. split; [lra|reflexivity].
  - (* Exponential *)
    tcase (Rleb 0 x) E.
    + rv. eexists; split; [reflexivity|]. split; [|intros C; lra].
      pose proof (exp_pos (- x / mean)). assert (0 < 1 / mean) by (apply Rdiv_lt_0_compat; lra). nra.
    + eexists; split; [reflexivity|]. split; [lra|reflexivity].
  - (* Gamma *)
    destruct W as [W1 W2]. tcase (Rltb 0 x) E.
    + rv. pose proof (gamma_pos shape W1) as Hg. rv.
      eexists; split; [reflexivity|]. split; [|intros C; lra].
      left. apply Rdiv_lt_0_compat; [|assumption].
      apply Rmult_lt_0_compat; [apply Rmult_lt_0_compat; apply Rpower_pos|apply exp_pos].
    + eexists; split; [reflexivity|]. split; [lra|reflexivity].
  - (* LogNormal *)
    destruct W as [W1 [W2 W3]]. subst c2s2 c2pis2. tcase (Rltb 0 x) E.
    + assert (Hc : 0 < 2 * sigma * sigma) by nra.
      assert (Hr : 0 < sqrt (Rtrigo1.PI * (2 * sigma * sigma))) by (apply sqrt_lt_R0; pose proof PI_RGT_0; nra).
      rv. eexists; split; [reflexivity|]. split; [|intros C; lra].
      left. apply Rdiv_lt_0_compat; [apply exp_pos|nra].
    + eexists; split; [reflexivity|]. split; [lra|reflexivity].
  - (* Normal *)
    rewrite normal_kernel_val by (try assumption; lra).
    eexists; split; [reflexivity|]. split; [|intros []].
    pose proof sqrt_2pi_pos. left. apply Rmult_lt_0_compat; [apply Rdiv_lt_0_compat; nra|apply exp_pos].
  - (* NormalTrunc *)
    destruct W as [W1 [W2 [W3 [W4 [W5 W6]]]]].
    assert (Hf : 0 < pdfac) by (subst pdfac; apply Rdiv_lt_0_compat; lra).
    tcase (Rltb x lo) E1; cbn [orb].
    + eexists; split; [reflexivity|]. split; [lra|reflexivity].
    + tcase (Rltb hi x) E2.
      * eexists; split; [reflexivity|]. split; [lra|reflexivity].
      * rewrite normal_kernel_val by (try assumption; lra).
        eexists; split; [reflexivity|]. split; [|intros [C|C]; lra].
        pose proof sqrt_2pi_pos. left. apply Rmult_lt_0_compat; [apply Rdiv_lt_0_compat; nra|apply exp_pos].
  - (* Pearson5 *)
    destruct W as [W1 W2]. tcase (Rltb 0 x) E.
    + rv. pose proof (gamma_pos alpha W1) as Hg. rv.
      eexists; split; [reflexivity|]. split; [|intros C; lra].
      left. apply Rdiv_lt_0_compat; [|assumption].
      apply Rmult_lt_0_compat; [apply Rmult_lt_0_compat; apply Rpower_pos|apply exp_pos].
    + eexists; split; [reflexivity|]. split; [lra|reflexivity].
  - (* Pearson6 *)
    destruct W as [W1 [W2 W3]]. tcase (Rltb 0 x) E.
    + rv. assert (Hxb : 0 < x / beta) by (apply Rdiv_lt_0_compat; lra). rv.
      unfold zero, one; nr. rewrite beta_fn_val by assumption. cbn [rbind]. rv.
      pose proof (exp_pos (lgammaf a1 + lgammaf a2 - lgammaf (a1 + a2))) as He.
      pose proof (Rpower_pos (1 + x / beta) (a1 + a2)) as Hp2.
      assert (Hden : 0 < beta * exp (lgammaf a1 + lgammaf a2 - lgammaf (a1 + a2)) * Rpower (1 + x / beta) (a1 + a2))
        by (apply Rmult_lt_0_compat; [apply Rmult_lt_0_compat|]; assumption).
      rv. eexists; split; [reflexivity|]. split; [|intros C; lra].
      left. apply Rdiv_lt_0_compat; [apply Rpower_pos|assumption].
    + eexists; split; [reflexivity|]. split; [lra|reflexivity].
  - (* Triangular, repaired *)
    destruct W as [[W1 W2] W3]. unfold tri_pdf. unfold zero, two; nr.
    tcase (Rleb lo x) E1; [tcase (Rltb x mode) E2|]; cbn [andb].
    + assert (0 < (hi - lo) * (mode - lo)) by nra. rv.
      eexists; split; [reflexivity|]. split; [|intros [C|C]; lra].
      apply Rmult_le_pos; [lra|]. left. apply Rinv_0_lt_compat. assumption.
    + tcase (Rltb mode x) E3; [tcase (Rleb x hi) E4|]; cbn [andb].
      * assert (0 < (hi - lo) * (hi - mode)) by nra. rv.
        eexists; split; [reflexivity|]. split; [|intros [C|C]; lra].
        apply Rmult_le_pos; [lra|]. left. apply Rinv_0_lt_compat. assumption.
      * tcase (Reqb x mode) E5; [lra|]. eexists; split; [reflexivity|]. split; [lra|reflexivity].
      * tcase (Reqb x mode) E5.
        -- rv. eexists; split; [reflexivity|]. split; [|intros [C|C]; lra].
           left. apply Rdiv_lt_0_compat; lra.
        -- lra.
    + assert (E3 : Rltb mode x = false) by (apply Rltb_false; lra). rewrite E3. cbn [andb].
      tcase (Reqb x mode) E5; [lra|]. eexists; split; [reflexivity|]. split; [lra|reflexivity].
  - (* Uniform *)
    tcase (Rleb lo x) E1; [tcase (Rleb x hi) E2|]; cbn [andb].
    + rv. eexists; split; [reflexivity|]. split; [|intros [C|C]; lra]. left. apply Rdiv_lt_0_compat; lra.
    + eexists; split; [reflexivity|]. split; [lra|reflexivity].
    + eexists; split; [reflexivity|]. split; [lra|reflexivity].
  - (* Weibull *)
    destruct W as [W1 W2]. tcase (Rltb 0 x) E.
    + rv. assert (Hxb : 0 < x / beta) by (apply Rdiv_lt_0_compat; lra). rv.
      eexists; split; [reflexivity|]. split; [|intros C; lra].
      left. apply Rmult_lt_0_compat; [apply Rmult_lt_0_compat; [apply Rmult_lt_0_compat|]|];
        try apply Rpower_pos; try apply exp_pos; assumption.
    + eexists; split; [reflexivity|]. split; [lra|reflexivity].
Qed.

(* ------------------------------------------------------------------ *)
(* probabilities of the discrete classes                                 *)
Definition has_prob (d : dist R) : bool :=
  match d with
  | DBernoulli _ | DBinomial _ _ | DDiscreteUniform _ _ | DGeometric _ _ | DNegBinomial _ _ _ | DPoisson _ _ => true
  | _ => false
  end.

Definition outsideZ (d : dist R) (k : Z) : Prop :=
  match d with
  | DBernoulli _ => k <> 0%Z /\ k <> 1%Z
  | DBinomial n _ => (k < 0 \/ n < k)%Z
  | DDiscreteUniform lo hi => (k < lo \/ hi < k)%Z
  | DGeometric _ _ | DNegBinomial _ _ _ | DPoisson _ _ => (k < 0)%Z
  | _ => False
  end.

Lemma zcomb_loop_nonneg : forall i m j acc, (0 <= m)%Z -> (0 < j)%Z -> (0 <= acc)%Z -> (0 <= zcomb_loop i m j acc)%Z.
Proof.
  induction i as [|i IH]; intros m j acc Hm Hj Ha; simpl; [assumption|].
  apply IH; try lia. apply Z.div_pos; [|assumption]. apply Z.mul_nonneg_nonneg; lia.
Qed.

Lemma zcomb_nonneg : forall n k, (0 <= zcomb n k)%Z.
Proof.
  intros n k. unfold zcomb. destruct ((k <? 0) || (n <? k))%Z eqn:E; [lia|].
  apply orb_false_iff in E. destruct E as [E1 E2]. apply Z.ltb_ge in E1, E2.
  apply zcomb_loop_nonneg; lia.
Qed.

Theorem prob_total_nonneg_zero_outside : forall d k,
  wfd d -> has_prob d = true ->
  exists v, prob NR d k = Val v /\ 0 <= v /\ (outsideZ d k -> v = 0).
Proof.
  intros d k W HD. destruct d; try discriminate HD; simpl in W; unfold prob, outsideZ; unfold zero, one; nr.
  - (* Bernoulli *)
    eexists; split; [reflexivity|]. destruct (k =? 0)%Z eqn:E0; [|destruct (k =? 1)%Z eqn:E1].
    + split; [lra|]. apply Z.eqb_eq in E0. intros [C _]; contradiction.
    + split; [lra|]. apply Z.eqb_eq in E1. intros [_ C]; contradiction.
    + split; [lra|reflexivity].
  - (* Binomial *)
    destruct W as [W1 W2].
    destruct (0 <=? k)%Z eqn:E0; [destruct (k <=? n)%Z eqn:E1|]; cbn [andb].
    + apply Z.leb_le in E0, E1.
      destruct (r_pow_nonneg p (IZR k)) as [v1 [P1 H1]]; [lra|apply (IZR_le 0); lia|].
      destruct (r_pow_nonneg (1 - p) (IZR (n - k))) as [v2 [P2 H2]]; [lra|apply (IZR_le 0); lia|].
      rewrite P1. cbn [rbind]. unfold ofZc, one; nr. cbn [rbind]. rewrite P2. cbn [rbind on_exn].
      eexists; split; [reflexivity|]. split; [|intros [C|C]; lia].
      pose proof (IZR_le 0 _ (zcomb_nonneg n k)). apply Rmult_le_pos; [apply Rmult_le_pos|]; assumption.
    + eexists; split; [reflexivity|]. split; [lra|reflexivity].
    + eexists; split; [reflexivity|]. split; [lra|reflexivity].
  - (* DiscreteUniform *)
    destruct (lo <=? k)%Z eqn:E0; [destruct (k <=? hi)%Z eqn:E1|]; cbn [andb].
    + apply Z.leb_le in E0, E1.
      assert (Hn : 0 < IZR (hi - lo) + 1) by (pose proof (IZR_lt 0 (hi - lo) ltac:(lia)); lra).
      rewrite r_div_val by lra. eexists; split; [reflexivity|]. split; [|intros [C|C]; lia].
      left. apply Rdiv_lt_0_compat; lra.
    + eexists; split; [reflexivity|]. split; [lra|reflexivity].
    + eexists; split; [reflexivity|]. split; [lra|reflexivity].
  - (* Geometric *)
    destruct (0 <=? k)%Z eqn:E0.
    + apply Z.leb_le in E0. rewrite r_pow_val by lra. cbn [rbind].
      eexists; split; [reflexivity|]. split; [|intros C; lia].
      pose proof (Rpower_pos (1 - p) (IZR k)). nra.
    + eexists; split; [reflexivity|]. split; [lra|reflexivity].
  - (* NegBinomial *)
    destruct W as [W1 W2]. destruct (0 <=? k)%Z eqn:E0.
    + apply Z.leb_le in E0. rewrite r_pow_val by lra. cbn [rbind]. unfold ofZc, one; nr. cbn [rbind].
      rewrite r_pow_val by lra. cbn [rbind on_exn].
      eexists; split; [reflexivity|]. split; [|intros C; lia].
      pose proof (IZR_le 0 _ (zcomb_nonneg (s + k - 1) k)).
      pose proof (Rpower_pos p (IZR s)). pose proof (Rpower_pos (1 - p) (IZR k)).
      apply Rmult_le_pos; [apply Rmult_le_pos|]; lra.
    + eexists; split; [reflexivity|]. split; [lra|reflexivity].
  - (* Poisson *)
    destruct (0 <=? k)%Z eqn:E0.
    + apply Z.leb_le in E0. rewrite r_pow_val by lra. cbn [rbind]. unfold ofZc; nr. cbn [rbind].
      pose proof (IZR_lt 0 _ (zfact_pos (Z.to_nat k))) as Hf.
      rewrite r_div_val by lra. cbn [on_exn]. eexists; split; [reflexivity|]. split; [|intros C; lia].
      left. apply Rdiv_lt_0_compat; [|assumption]. apply Rmult_lt_0_compat; [apply exp_pos|apply Rpower_pos].
    + eexists; split; [reflexivity|]. split; [lra|reflexivity].
Qed.

(* sums of probabilities: Bernoulli and discrete uniform sum to one; the
   geometric partial sums are 1 - (1-p)^(n+1) (so they tend to one) *)
Theorem bernoulli_sums_to_one : forall p v0 v1,
  prob NR (DBernoulli p) 0 = Val v0 -> prob NR (DBernoulli p) 1 = Val v1 -> v0 + v1 = 1.
Proof. intros p v0 v1 H0 H1. simpl in H0, H1. unfold one in *; nr. inversion H0; inversion H1. lra. Qed.

Fixpoint sum_prob (d : dist R) (lo : Z) (n : nat) : R :=
  match n with
  | O => 0
  | S m => sum_prob d lo m + match prob NR d (lo + Z.of_nat m) with Val v => v | Err _ => 0 end
  end.

Theorem discrete_uniform_sums_to_one : forall lo hi, (lo < hi)%Z ->
  sum_prob (DDiscreteUniform lo hi) lo (Z.to_nat (hi - lo + 1)) = 1.
Proof.
  intros lo hi H.
  assert (G : forall n, (Z.of_nat n <= hi - lo + 1)%Z ->
              sum_prob (DDiscreteUniform lo hi) lo n = INR n / (IZR (hi - lo) + 1)).
  { induction n as [|m IH]; intros Hn.
    - simpl. unfold Rdiv. ring.
    - change (sum_prob (DDiscreteUniform lo hi) lo (S m)) with
        (sum_prob (DDiscreteUniform lo hi) lo m +
         match prob NR (DDiscreteUniform lo hi) (lo + Z.of_nat m) with Val v => v | Err _ => 0 end).
      rewrite IH by lia. unfold prob. unfold one; nr.
      rewrite (proj2 (Z.leb_le lo (lo + Z.of_nat m))) by lia.
      rewrite (proj2 (Z.leb_le (lo + Z.of_nat m) hi)) by lia. cbn [andb].
      assert (Hd : 0 < IZR (hi - lo) + 1) by (pose proof (IZR_lt 0 (hi - lo) ltac:(lia)); lra).
      rewrite r_div_val by lra. rewrite S_INR. field. lra. }
  rewrite G by lia. rewrite INR_IZR_INZ, Z2Nat.id by lia. rewrite plus_IZR.
  assert (Hd : 0 < IZR (hi - lo) + 1) by (pose proof (IZR_lt 0 (hi - lo) ltac:(lia)); lra).
  field. lra.
Qed.

Theorem geometric_partial_sums : forall p lnp n, 0 < p < 1 ->
  sum_prob (DGeometric p lnp) 0 (S n) = 1 - (1 - p) ^ (S n).
Proof.
  intros p lnp n Hp. induction n as [|m IH].
  - simpl. unfold one; nr. rewrite r_pow_val by lra. simpl.
    rewrite Rpower_O by lra. ring.
  - change (sum_prob (DGeometric p lnp) 0 (S (S m))) with
      (sum_prob (DGeometric p lnp) 0 (S m) +
       match prob NR (DGeometric p lnp) (0 + Z.of_nat (S m)) with Val v => v | Err _ => 0 end).
    rewrite IH. unfold prob. unfold one; nr.
    rewrite (proj2 (Z.leb_le 0 (0 + Z.of_nat (S m)))) by lia.
    rewrite r_pow_val by lra. cbn [rbind]. rewrite Z.add_0_l, <- INR_IZR_INZ, Rpower_pow by lra.
    simpl. ring.
Qed.

(* pinned tree: the triangular density divides 0.0 by 0.0 at x = lo = mode *)
Lemma pinned_triangular_density_raises :
  pdf NR true (DTriangular 1 1 2) 1 = Err (Raise EZeroDiv) /\
  exists v, pdf NR false (DTriangular 1 1 2) 1 = Val v /\ v = 2.
Proof.
  unfold pdf, tri_pdf. unfold zero, two; nr. split.
  - rewrite (proj2 (Rleb_true 1 1)) by lra. cbn [andb].
    replace ((2 - 1) * (1 - 1)) with 0 by ring. unfold r_div.
    destruct (Req_EM_T 0 0); [reflexivity|contradiction].
  - rewrite (proj2 (Rleb_true 1 1)), (proj2 (Rltb_false 1 1)) by lra. cbn [andb].
    rewrite (proj2 (Reqb_true 1 1) eq_refl). rewrite r_div_val by lra. eexists; split; [reflexivity|]. field.
Qed.

End DensityR.
