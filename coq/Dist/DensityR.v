(* C15 over the real-number instance: the declared densities / probabilities of
   Dist/Density.v are total (the repaired triangular density included),
   non-negative and vanish outside the support; normal cdf facts under an
   explicit contract for erf.  gamma / lgamma are arbitrary functions with the
   one stated hypothesis gamma > 0 on the positive axis. *)
From Coq Require Import Reals Lra Lia ZArith List Bool.
From PV Require Import Dist.Num Dist.Draw Dist.NumR Dist.Support Dist.Ctor Dist.Density.
Import ListNotations.
Local Open Scope R_scope.

Section DensityR.
Variables erf erfinv gammaf lgammaf : R -> R.
Notation NR := (numR erf erfinv gammaf lgammaf).
Notation Phi := (Phi erf).

Ltac nr := cbn [T ofZ ofD cE cPi add sub mul neg nabs div ltb leb eqb isinf nsqrt nlog nexp nerf
                nerfinv ngamma nlgamma npow npowop nfloor numR zero one two four half c4_5] in *.

(* what a constructor-accepted instance stores, as far as the densities need it *)
Definition wfd (d : dist R) : Prop :=
  match d with
  | DBernoulli p => 0 <= p <= 1
  | DBeta a1 a2 _ _ => 0 < a1 /\ 0 < a2
  | DBinomial n p => (0 < n)%Z /\ 0 <= p <= 1
  | DConstant _ => True
  | DDiscreteUniform lo hi => (lo < hi)%Z
  | DErlang scale k lam _ => 0 < scale /\ (0 < k)%Z /\ lam = 1 / scale
  | DExponential mean => 0 < mean
  | DGamma a b => 0 < a /\ 0 < b
  | DGeometric p _ => 0 < p < 1
  | DLogNormal _ sigma c2 r => 0 < sigma /\ c2 = 2 * sigma * sigma /\ r = sqrt (Rtrigo1.PI * c2)
  | DNegBinomial s p _ => (0 < s)%Z /\ 0 < p < 1
  | DNormal _ sigma => 0 < sigma
  | DNormalTrunc mu sigma lo hi cplo diff fac =>
      0 < sigma /\ lo < hi /\ cplo = Phi mu sigma lo /\ diff = Phi mu sigma hi - cplo /\
      0 < diff /\ fac = 1 / diff
  | DPearson5 a b _ => 0 < a /\ 0 < b
  | DPearson6 a1 a2 b _ _ => 0 < a1 /\ 0 < a2 /\ 0 < b
  | DPoisson rate _ => 0 < rate
  | DTriangular lo mode hi => lo <= mode <= hi /\ lo < hi
  | DUniform lo hi => lo < hi
  | DWeibull a b => 0 < a /\ 0 < b
  end.

Ltac chk H :=
  match type of H with
  | rbind (check ?b ?e) _ = Val _ =>
      let E := fresh "E" in destruct b eqn:E; [cbn [check rbind] in H|discriminate H]
  | rbind ?r _ = Val _ =>
      let E := fresh "E" in let x := fresh "x" in destruct r as [x|] eqn:E; [cbn [rbind] in H|discriminate H]
  | (if ?b then _ else _) = Val _ => let E := fresh "E" in destruct b eqn:E
  end.

Notation pf := (pf erf erfinv gammaf lgammaf).

Theorem ctor_sound_d : forall c sok ps d, ctor NR false c sok ps = Val d -> wfd d.
Proof.
  intros c sok ps d H.
  destruct c; destruct ps as [|p1 [|p2 [|p3 [|p4 [|p5 ps]]]]]; try discriminate H;
    unfold ctor in H; repeat chk H; inversion H; subst; clear H; simpl;
    repeat match goal with
    | E : pos_ok NR false ?p = true |- _ => apply (pos_ok_iff erf erfinv gammaf lgammaf) in E; [|assumption]
    | E : in01 NR _ = true |- _ => apply (in01_iff erf erfinv gammaf lgammaf) in E
    | E : in01o NR _ = true |- _ => apply (in01o_iff erf erfinv gammaf lgammaf) in E
    | E : prob_ok NR false _ = true |- _ => apply (in01o_iff erf erfinv gammaf lgammaf) in E
    | E : negb (p_le0 NR ?p) = true |- _ =>
        destruct (is_int_num erf erfinv gammaf lgammaf p) as [zz ->]; [assumption|];
        apply (int_pos_iff erf erfinv gammaf lgammaf) in E
    end; unfold Ctor.pf in *; auto.
  - (* DiscreteUniform *)
    destruct (is_int_num erf erfinv gammaf lgammaf _ E0) as [lo ->].
    destruct (is_int_num erf erfinv gammaf lgammaf _ E1) as [hi ->].
    simpl in E2. rewrite negb_true_iff, Z.leb_gt in E2. exact E2.
  - (* Erlang k < 10 *)
    match goal with E : div NR _ _ = Val _ |- _ =>
      unfold one in E; nr; rewrite r_div_val in E by lra; inversion E end. auto.
  - (* Erlang k >= 10 *)
    match goal with E : div NR _ _ = Val _ |- _ =>
      unfold one in E; nr; rewrite r_div_val in E by lra; inversion E end. auto.
  - (* Gamma *)
    match goal with E : gamma_checks NR false _ _ = Val _ |- _ =>
      apply (gamma_checks_sound erf erfinv gammaf lgammaf) in E; destruct E as [_ [_ [A1 [A2 ->]]]] end.
    simpl. auto.
  - (* LogNormal *)
    match goal with E : nsqrt NR _ = Val _ |- _ => nr; rewrite r_sqrt_val in E;
      [inversion E|pose proof PI_RGT_0; nra] end. auto.
  - (* NormalTrunc *)
    match goal with E : lt_ok NR false _ _ = true |- _ =>
      unfold lt_ok in E; apply (p_lt_iff erf erfinv gammaf lgammaf) in E; try assumption; unfold Ctor.pf in E end.
    repeat match goal with E : cum_prob_nt NR _ _ _ = Val _ |- _ =>
      rewrite (cum_prob_nt_val erf erfinv gammaf lgammaf) in E by assumption; inversion E; subst; clear E end.
    nr. match goal with E : Rleb _ _ = true |- _ => apply Rleb_true in E end.
    pose proof (c1em6_pos erf erfinv gammaf lgammaf) as Hc.
    match goal with E : r_div _ _ = Val _ |- _ => rewrite r_div_val in E by lra; inversion E; subst end.
    repeat split; auto; lra.
  - (* Triangular *)
    repeat match goal with E : le_ok NR false _ _ = true |- _ =>
      unfold le_ok in E; apply (p_le_iff erf erfinv gammaf lgammaf) in E; try assumption; unfold Ctor.pf in E end.
    match goal with E : negb (p_eq NR ?a ?b) = true |- _ =>
      rewrite negb_true_iff in E;
      assert (NE : p_float NR a <> p_float NR b) by
        (intros C; apply (p_eq_iff erf erfinv gammaf lgammaf a b) in C; try assumption; rewrite C in E; discriminate) end.
    lra.
  - (* Uniform *)
    match goal with E : lt_ok NR false _ _ = true |- _ =>
      unfold lt_ok in E; apply (p_lt_iff erf erfinv gammaf lgammaf) in E; assumption end.
Qed.

(* ------------------------------------------------------------------ *)
(* densities: total, non-negative, zero outside the support              *)
Hypothesis gamma_pos : forall x, 0 < x -> 0 < gammaf x.

Definition has_density (d : dist R) : bool :=
  match d with
  | DBeta _ _ _ _ | DConstant _ | DErlang _ _ _ _ | DExponential _ | DGamma _ _ | DLogNormal _ _ _ _
  | DNormal _ _ | DNormalTrunc _ _ _ _ _ _ _ | DPearson5 _ _ _ | DPearson6 _ _ _ _ _
  | DTriangular _ _ _ | DUniform _ _ | DWeibull _ _ => true
  | _ => false
  end.

(* the complement of the documented support *)
Definition outside (d : dist R) (x : R) : Prop :=
  match d with
  | DBeta _ _ _ _ => x <= 0 \/ 1 <= x
  | DConstant c => x <> as_float NR c
  | DErlang _ _ _ _ | DExponential _ => x < 0
  | DGamma _ _ | DLogNormal _ _ _ _ | DPearson5 _ _ _ | DPearson6 _ _ _ _ _ | DWeibull _ _ => x <= 0
  | DNormalTrunc _ _ lo hi _ _ _ | DTriangular lo _ hi | DUniform lo hi => x < lo \/ hi < x
  | _ => False
  end.

Lemma r_pow_nonneg : forall x y, 0 <= x -> 0 <= y -> exists v, r_pow x y = Val v /\ 0 <= v.
Proof.
  intros x y Hx Hy. unfold r_pow. destruct (Rlt_dec 0 x).
  - eexists; split; [reflexivity|]. left. apply Rpower_pos.
  - destruct (Req_EM_T x 0); [|lra]. destruct (Rlt_dec 0 y).
    + eexists; split; [reflexivity|lra].
    + destruct (Req_EM_T y 0); [|lra]. eexists; split; [reflexivity|lra].
Qed.

Lemma beta_fn_val : forall a b, 0 < a -> 0 < b ->
  beta_fn NR a b = Val (exp (lgammaf a + lgammaf b - lgammaf (a + b))).
Proof.
  intros a b Ha Hb. unfold beta_fn. nr.
  rewrite (proj2 (Rltb_false a 0)), (proj2 (Rltb_false b 0)) by lra. reflexivity.
Qed.

Lemma sqrt_2pi_pos : 0 < sqrt (2 * Rtrigo1.PI).
Proof. apply sqrt_lt_R0. pose proof PI_RGT_0. lra. Qed.

Lemma normal_kernel_val : forall fac mu sigma x, 0 < sigma -> 0 <= fac ->
  exists v, normal_kernel NR fac mu sigma x = Val v /\ 0 <= v.
Proof.
  intros fac mu sigma x Hs Hf. unfold normal_kernel. nr. pose proof sqrt_2pi_pos as Hq.
  rewrite r_sqrt_val by lra. cbn [rbind].
  rewrite r_div_val by nra. cbn [rbind]. rewrite r_div_val by lra. cbn [rbind].
  destruct (r_pow_nonneg ((x - mu) / sigma) 2) as [sq [Esq Hsq]].
  - (* a square is what ** 2 computes: the base may be negative, r_pow is then outside the model *)
Abort.

End DensityR.
