(* C15 correspondence: the density / probability / cdf / inverse-cdf functions of
   Dist/Density.v executed with PrimFloat (Dist/NumF.v, libm and ** as oracle
   tables recorded in the same run) against what the real classes returned.
   Executable definitions only. *)
From Coq Require Import ZArith List Bool PrimFloat.
From PV Require Import Dist.Num Dist.Draw Dist.NumF Dist.Density.
Import ListNotations.

Inductive dexp := DV (v : float) | DE (e : exn).

Record dcase := mkD {
  dc_table : table;
  dc_cls : cls;
  dc_params : list (param float);
  dc_ctor_ok : bool;                         (* the implementation's constructor accepted *)
  dc_calls : list (meth * value float);
  dc_expected : list dexp
}.

Definition run_dcase (tv : bool) (c : dcase) : res (list (res float)) :=
  let N := numF (dc_table c) in
  match ctor N false (dc_cls c) true (dc_params c) with
  | Val d => Val (map (fun ma => call N tv d (fst ma) (snd ma)) (dc_calls c))
  | Err e => Err e
  end.

Definition dout_ok (r : res float) (x : dexp) : bool :=
  match r, x with
  | Val v, DV w => fsame v w
  | Err (Raise e), DE e' => exn_eqb e e'
  | _, _ => false
  end.

Fixpoint douts_ok (rs : list (res float)) (xs : list dexp) : bool :=
  match rs, xs with
  | [], [] => true
  | r :: t, x :: s => dout_ok r x && douts_ok t s
  | _, _ => false
  end.

Definition dcase_ok (tv : bool) (c : dcase) : bool :=
  match run_dcase tv c with
  | Val rs => dc_ctor_ok c && douts_ok rs (dc_expected c)
  | Err (Raise _) => negb (dc_ctor_ok c)
  | Err _ => false
  end.

Fixpoint dmiss_records (i : nat) (rs : list (res float)) : list Z :=
  match rs with
  | [] => []
  | Err (Miss f args) :: r => ((-2)%Z :: Z.of_nat i :: fnid_code f :: args) ++ dmiss_records i r
  | _ :: r => dmiss_records i r
  end.

(* [-1; i] for a mismatching case i, [-2; i; function code; 8 integers] for every oracle miss *)
Fixpoint dreport_from (i : nat) (tv : bool) (cases : list dcase) : list Z :=
  match cases with
  | [] => []
  | c :: r =>
      (if dcase_ok tv c then [] else [(-1)%Z; Z.of_nat i])
      ++ match run_dcase tv c with
         | Val rs => dmiss_records i rs
         | Err (Miss f args) => (-2)%Z :: Z.of_nat i :: fnid_code f :: args
         | Err _ => []
         end
      ++ dreport_from (S i) tv r
  end.
