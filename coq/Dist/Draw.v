(* The 19 concrete distribution classes of pydsol/core/distributions.py:
   constructor validation, draw(), _set_stream, and the quantity wrappers of
   units.py, written once over a number structure [num] (see Dist/Num.v).

   Transcription conventions
   - evaluation order of Python is kept (it decides how many uniforms were
     consumed when an exception is raised, and which exception wins);
   - every math.* call and every ** goes through the [num] record, so in the
     float instance it is an oracle-table lookup;
   - [pv] ("pinned variant") selects the behaviour of the pinned tree 13808df
     at the five places that were repaired (proposed_fixes/C14-*.patch):
       pv = true : polar method accepts radius 0 (then log 0 raises);
                   truncated normal raises outside a 1e-6*|bound| tolerance;
                   range checks "x <= 0" / "hi <= lo" / "mode < lo" ... (a NaN passes);
                   geometric / negative binomial accept 0 <= p <= 1;
                   uniforms that go into a logarithm are used as delivered;
                   DistPoisson uses the product algorithm for every rate;
       pv = false: radius 0 is rejected like radius >= 1; plain clamp;
                   range checks "not x > 0" ... (a NaN fails);
                   0 < p < 1;
                   Distribution._next_open_float skips a uniform of exactly 0.0;
                   DistPoisson splits a rate above 500 into equal parts.
     What is NOT repaired is modelled as it is in both variants: an inner gamma
     draw that underflows to 0.0 (division by zero in Beta / Pearson), a product
     of uniforms that underflows, results beyond the double range.

   Executable definitions only (no proofs). *)
From Coq Require Import ZArith List Bool.
From PV Require Import Dist.Num.
Import ListNotations.
Local Open Scope m_scope.

Inductive param (X : Type) := PF (x : X) | PI (z : Z) | PBad.
Arguments PF {X} x.
Arguments PI {X} z.
Arguments PBad {X}.

Inductive cls :=
| CBernoulli | CBeta | CBinomial | CConstant | CDiscreteUniform | CErlang
| CExponential | CGamma | CGeometric | CLogNormal | CNegBinomial | CNormal
| CNormalTrunc | CPearson5 | CPearson6 | CPoisson | CTriangular | CUniform
| CWeibull.

Section Types.
Variable F : Type.

(* ------------------------------------------------------------------ *)
(* constructed distributions: what an accepted instance stores          *)
Inductive dist :=
| DBernoulli (p : F)
| DBeta (a1 a2 : F) (g1 g2 : F * F)              (* inner DistGamma parameters *)
| DBinomial (n : Z) (p : F)
| DConstant (c : value F)
| DDiscreteUniform (lo hi : Z)
| DErlang (scale : F) (k : Z) (lambda : F) (g : option (F * F))
| DExponential (mean : F)
| DGamma (shape scale : F)
| DGeometric (p lnp : F)
| DLogNormal (mu sigma c2s2 c2pis2 : F)
| DNegBinomial (s : Z) (p lnp : F)
| DNormal (mu sigma : F)
| DNormalTrunc (mu sigma lo hi cplo cpdiff pdfac : F)
| DPearson5 (alpha beta : F) (g : F * F)
| DPearson6 (a1 a2 beta : F) (g1 g2 : F * F)
| DPoisson (rate expl : F)
| DTriangular (lo mode hi : F)
| DUniform (lo hi : F)
| DWeibull (alpha beta : F).


Record inst := mkInst { idist : dist; isid : nat; icache : option F }.


Inductive op :=
| ONew (i : nat) (c : cls) (sok : bool) (sid : nat) (ps : list (param F))
| ODraw (i : nat)
| ODrawQ (i : nat) (factor : F)
| OSetStream (i : nat) (sok : bool) (sid : nat).

(* what the model predicts for one operation *)
Inductive mout :=
| MAccept
| MVal (v : value F) (consumed : nat)
| MFail (e : err) (consumed : nat)      (* exception / miss, uniforms consumed before it *)
| MNone                                  (* _set_stream accepted *)
| MNoInstance.


End Types.

Arguments DBernoulli {F}.
Arguments DBeta {F}.
Arguments DBinomial {F}.
Arguments DConstant {F}.
Arguments DDiscreteUniform {F}.
Arguments DErlang {F}.
Arguments DExponential {F}.
Arguments DGamma {F}.
Arguments DGeometric {F}.
Arguments DLogNormal {F}.
Arguments DNegBinomial {F}.
Arguments DNormal {F}.
Arguments DNormalTrunc {F}.
Arguments DPearson5 {F}.
Arguments DPearson6 {F}.
Arguments DPoisson {F}.
Arguments DTriangular {F}.
Arguments DUniform {F}.
Arguments DWeibull {F}.
Arguments mkInst {F}.
Arguments idist {F}.
Arguments isid {F}.
Arguments icache {F}.
Arguments ONew {F}.
Arguments ODraw {F}.
Arguments ODrawQ {F}.
Arguments OSetStream {F}.
Arguments MAccept {F}.
Arguments MVal {F}.
Arguments MFail {F}.
Arguments MNone {F}.
Arguments MNoInstance {F}.

Section Draw.
Variable N : num.
Notation F := (T N).
Notation dist := (dist (T N)).
Notation inst := (inst (T N)).
Notation op := (op (T N)).
Notation mout := (mout (T N)).

Definition zero : F := ofZ N 0.
Definition one : F := ofZ N 1.
Definition two : F := ofZ N 2.
Definition four : F := ofZ N 4.
Definition half : F := ofD N 1 (-1).
Definition c4_5 : F := ofD N 9 (-1).                         (* theta = 4.5 *)
Definition c1em6 : F := ofD N 4722366482869645 (-72).        (* 1E-6 = 0x1.0c6f7a0b5ed8dp-20 *)

Notation "a +. b" := (add N a b) (at level 50, left associativity).
Notation "a -. b" := (sub N a b) (at level 50, left associativity).
Notation "a *. b" := (mul N a b) (at level 40, left associativity).
Notation "a /. b" := (div N a b) (at level 40, left associativity).
Notation "-. a" := (neg N a) (at level 35, right associativity).
Notation "a <=. b" := (leb N a b) (at level 70, no associativity).
Notation "a <. b" := (ltb N a b) (at level 70, no associativity).

(* ------------------------------------------------------------------ *)
(* parameters as Python objects: float, int, anything else             *)
Definition is_num (p : param F) : bool := match p with PBad => false | _ => true end.
Definition is_float (p : param F) : bool := match p with PF _ => true | _ => false end.
Definition is_int (p : param F) : bool := match p with PI _ => true | _ => false end.
Definition p_float (p : param F) : F :=          (* float(p) *)
  match p with PF x => x | PI z => ofZ N z | PBad => zero end.
Definition p_int (p : param F) : Z := match p with PI z => z | _ => 0%Z end.
Definition p_le0 (p : param F) : bool :=          (* p <= 0 *)
  match p with PF x => x <=. zero | PI z => (z <=? 0)%Z | PBad => false end.
Definition p_lt (a b : param F) : bool :=         (* a < b *)
  match a, b with
  | PI x, PI y => (x <? y)%Z
  | _, _ => p_float a <. p_float b
  end.
Definition p_le (a b : param F) : bool :=
  match a, b with
  | PI x, PI y => (x <=? y)%Z
  | _, _ => p_float a <=. p_float b
  end.
Definition p_eq (a b : param F) : bool :=
  match a, b with
  | PI x, PI y => (x =? y)%Z
  | _, _ => eqb N (p_float a) (p_float b)
  end.
Definition p_gt0 (p : param F) : bool :=          (* p > 0 *)
  match p with PF x => zero <. x | PI z => (0 <? z)%Z | PBad => false end.
Definition in01 (x : F) : bool := (zero <=. x) && (x <=. one).   (* 0 <= x <= 1 *)
Definition in01o (x : F) : bool := (zero <. x) && (x <. one).    (* 0 < x < 1 *)

(* the range checks, pinned and repaired spelling *)
Definition pos_ok (pv : bool) (p : param F) : bool :=      (* pinned: not (p <= 0); repaired: p > 0 *)
  if pv then negb (p_le0 p) else p_gt0 p.
Definition lt_ok (pv : bool) (a b : param F) : bool :=     (* pinned: not (b <= a); repaired: a < b *)
  if pv then negb (p_le b a) else p_lt a b.
Definition le_ok (pv : bool) (a b : param F) : bool :=     (* pinned: not (b < a); repaired: a <= b *)
  if pv then negb (p_lt b a) else p_le a b.
Definition prob_ok (pv : bool) (x : F) : bool :=           (* geometric / negative binomial *)
  if pv then in01 x else in01o x.

Definition check (b : bool) (e : exn) : res unit := if b then Val tt else Err (Raise e).
Notation "'do' r ;; f" := (rbind r (fun _ => f)) (at level 61, r at next level, right associativity).
Notation "x <-- r ;; f" := (rbind r (fun x => f)) (at level 61, r at next level, right associativity).

(* DistGamma.__init__ after the stream check *)
Definition gamma_checks (pv : bool) (shape scale : param F) : res (F * F) :=
  do check (is_num shape) EType ;;
  do check (is_num scale) EType ;;
  do check (pos_ok pv shape) EValue ;;
  do check (pos_ok pv scale) EValue ;;
  Val (p_float shape, p_float scale).

(* 0.5 + 0.5 * math.erf((x - mu) / (math.sqrt(2.0) * sigma)) *)
Definition cum_prob_nt (mu sigma x : F) : res F :=
  s2 <-- nsqrt N two ;;
  q <-- (x -. mu) /. (s2 *. sigma) ;;
  e <-- nerf N q ;;
  Val (half +. half *. e).

Definition ctor (pv : bool) (c : cls) (sok : bool) (ps : list (param F)) : res dist :=
  let stream := check sok EType in
  match c, ps with
  | CBernoulli, [p] =>
      do stream ;;
      do check (is_float p) EType ;;
      do check (in01 (p_float p)) EValue ;;
      Val (DBernoulli (p_float p))
  | CBeta, [a1; a2] =>
      do check (is_num a1) EType ;;
      do check (is_num a2) EType ;;
      do check (pos_ok pv a1) EValue ;;
      do check (pos_ok pv a2) EValue ;;
      do stream ;;
      g1 <-- gamma_checks pv (PF (p_float a1)) (PF one) ;;
      g2 <-- gamma_checks pv (PF (p_float a2)) (PF one) ;;
      Val (DBeta (p_float a1) (p_float a2) g1 g2)
  | CBinomial, [n; p] =>
      do stream ;;
      do check (is_float p) EType ;;
      do check (is_int n) EType ;;
      do check (in01 (p_float p)) EValue ;;
      do check (negb (p_le0 n)) EValue ;;
      Val (DBinomial (p_int n) (p_float p))
  | CConstant, [k] =>
      do stream ;;
      do check (is_num k) EType ;;
      Val (DConstant (match k with PI z => VI z | _ => VF (p_float k) end))
  | CDiscreteUniform, [lo; hi] =>
      do stream ;;
      do check (is_int lo) EType ;;
      do check (is_int hi) EType ;;
      do check (negb (p_le hi lo)) EValue ;;
      Val (DDiscreteUniform (p_int lo) (p_int hi))
  | CErlang, [scale; k] =>
      do check (is_num scale) EType ;;
      do check (is_int k) EType ;;
      do check (pos_ok pv scale) EValue ;;
      do check (negb (p_le0 k)) EValue ;;
      lam <-- one /. p_float scale ;;
      do stream ;;
      if (p_int k <? 10)%Z then Val (DErlang (p_float scale) (p_int k) lam None)
      else g <-- gamma_checks pv k (PF (p_float scale)) ;;
           Val (DErlang (p_float scale) (p_int k) lam (Some g))
  | CExponential, [mean] =>
      do stream ;;
      do check (is_num mean) EType ;;
      do check (pos_ok pv mean) EValue ;;
      Val (DExponential (p_float mean))
  | CGamma, [shape; scale] =>
      do stream ;;
      g <-- gamma_checks pv shape scale ;;
      Val (DGamma (fst g) (snd g))
  | CGeometric, [p] =>
      do stream ;;
      do check (is_float p) EType ;;
      do check (prob_ok pv (p_float p)) EValue ;;
      lnp <-- nlog N (one -. p_float p) ;;
      Val (DGeometric (p_float p) lnp)
  | CNegBinomial, [s; p] =>
      do stream ;;
      do check (is_float p) EType ;;
      do check (is_int s) EType ;;
      do check (prob_ok pv (p_float p)) EValue ;;
      do check (negb (p_le0 s)) EValue ;;
      lnp <-- nlog N (one -. p_float p) ;;
      Val (DNegBinomial (p_int s) (p_float p) lnp)
  | CNormal, [mu; sigma] =>
      do stream ;;
      do check (is_num mu) EType ;;
      do check (is_num sigma) EType ;;
      do check (pos_ok pv sigma) EValue ;;
      Val (DNormal (p_float mu) (p_float sigma))
  | CLogNormal, [mu; sigma] =>
      do stream ;;
      do check (is_num mu) EType ;;
      do check (is_num sigma) EType ;;
      do check (pos_ok pv sigma) EValue ;;
      let c2 := two *. p_float sigma *. p_float sigma in
      r <-- nsqrt N (cPi N *. c2) ;;
      Val (DLogNormal (p_float mu) (p_float sigma) c2 r)
  | CNormalTrunc, [mu; sigma; lo; hi] =>
      do stream ;;
      do check (is_num mu) EType ;;
      do check (is_num sigma) EType ;;
      do check (is_num lo) EType ;;
      do check (is_num hi) EType ;;
      do check (pos_ok pv sigma) EValue ;;
      do check (lt_ok pv lo hi) EValue ;;
      let m := p_float mu in let s := p_float sigma in
      cplo <-- cum_prob_nt m s (p_float lo) ;;
      cphi <-- cum_prob_nt m s (p_float hi) ;;
      let diff := cphi -. cplo in
      do check (if pv then negb (diff <. c1em6) else c1em6 <=. diff) EValue ;;
      fac <-- one /. diff ;;
      Val (DNormalTrunc m s (p_float lo) (p_float hi) cplo diff fac)
  | CPearson5, [alpha; beta] =>
      do check (is_num alpha) EType ;;
      do check (is_num beta) EType ;;
      do check (pos_ok pv alpha) EValue ;;
      do check (pos_ok pv beta) EValue ;;
      do stream ;;
      ib <-- one /. p_float beta ;;
      g <-- gamma_checks pv (PF (p_float alpha)) (PF ib) ;;
      Val (DPearson5 (p_float alpha) (p_float beta) g)
  | CPearson6, [a1; a2; beta] =>
      do check (is_num a1) EType ;;
      do check (is_num a2) EType ;;
      do check (is_num beta) EType ;;
      do check (pos_ok pv a1) EValue ;;
      do check (pos_ok pv a2) EValue ;;
      do check (pos_ok pv beta) EValue ;;
      do stream ;;
      g1 <-- gamma_checks pv (PF (p_float a1)) (PF (p_float beta)) ;;
      g2 <-- gamma_checks pv (PF (p_float a2)) (PF (p_float beta)) ;;
      Val (DPearson6 (p_float a1) (p_float a2) (p_float beta) g1 g2)
  | CPoisson, [rate] =>
      do stream ;;
      do check (is_num rate) EType ;;
      do check (pos_ok pv rate) EValue ;;
      e <-- nexp N (-. p_float rate) ;;
      Val (DPoisson (p_float rate) e)
  | CTriangular, [lo; mode; hi] =>
      do stream ;;
      do check (is_num lo) EType ;;
      do check (is_num mode) EType ;;
      do check (is_num hi) EType ;;
      do check (le_ok pv lo mode) EValue ;;
      do check (le_ok pv mode hi) EValue ;;
      do check (negb (p_eq lo hi)) EValue ;;
      Val (DTriangular (p_float lo) (p_float mode) (p_float hi))
  | CUniform, [lo; hi] =>
      do stream ;;
      do check (is_num lo) EType ;;
      do check (is_num hi) EType ;;
      do check (lt_ok pv lo hi) EValue ;;
      Val (DUniform (p_float lo) (p_float hi))
  | CWeibull, [alpha; beta] =>
      do stream ;;
      do check (is_num alpha) EType ;;
      do check (is_num beta) EType ;;
      do check (pos_ok pv alpha) EValue ;;
      do check (pos_ok pv beta) EValue ;;
      Val (DWeibull (p_float alpha) (p_float beta))
  | _, _ => Err Unmodelled
  end.

(* ------------------------------------------------------------------ *)
(* draw()                                                               *)

(* Distribution._next_open_float (repaired tree): a uniform of exactly 0.0 is
   skipped; structurally recursive on the recorded stream output.  The pinned
   tree reads the uniform as delivered. *)
Fixpoint next_pos (us : list F) : res F * list F :=
  match us with
  | [] => (Err NoUniform, [])
  | u :: r => if eqb N u zero then next_pos r else (Val u, r)
  end.
Definition nextp (pv : bool) : M F F := if pv then next else next_pos.

(* DistGamma.draw, shape < 1: Law & Kelton acceptance-rejection, at most
   [cnt] tries (the code's own bound is 1000), then "return 1.0". *)
Fixpoint gamma_lt1 (cnt : nat) (shape scale b : F) : M F F :=
  match cnt with
  | O => ret one
  | S c =>
      u <- next ;;
      let p := b *. u in
      if p <=. one then
        inv <- lift (one /. shape) ;;
        y <- lift (npowop N p inv) ;;
        u2 <- next ;;
        ey <- lift (nexp N (-. y)) ;;
        if u2 <=. ey then ret (scale *. y) else gamma_lt1 c shape scale b
      else
        q <- lift ((b -. p) /. shape) ;;
        l <- lift (nlog N q) ;;
        let y := -. l in
        u2 <- next ;;
        pw <- lift (npowop N y (shape -. one)) ;;
        if u2 <=. pw then ret (scale *. y) else gamma_lt1 c shape scale b
  end.

(* DistGamma.draw, shape > 1 *)
Fixpoint gamma_gt1 (pv : bool) (cnt : nat) (shape scale a b q d : F) : M F F :=
  match cnt with
  | O => ret one
  | S c =>
      u1 <- nextp pv ;;
      u2 <- nextp pv ;;
      r <- lift (u1 /. (one -. u1)) ;;
      l <- lift (nlog N r) ;;
      let v := a *. l in
      ev <- lift (nexp N v) ;;
      let y := shape *. ev in
      let z := u1 *. u1 *. u2 in
      let w := b +. q *. v -. y in
      if zero <=. (w +. d -. c4_5 *. z) then ret (scale *. y)
      else
        lz <- lift (nlog N z) ;;
        if lz <. w then ret (scale *. y) else gamma_gt1 pv c shape scale a b q d
  end.

Definition draw_gamma (pv : bool) (shape scale : F) : M F F :=
  if shape <. one then
    b <- lift ((cE N +. shape) /. cE N) ;;
    gamma_lt1 1000 shape scale b
  else if one <. shape then
    sq <- lift (nsqrt N (two *. shape -. one)) ;;
    a <- lift (one /. sq) ;;
    l4 <- lift (nlog N four) ;;
    let b := shape -. l4 in
    ia <- lift (one /. a) ;;
    let q := shape +. ia in
    lt <- lift (nlog N c4_5) ;;
    let d := one +. lt in
    gamma_gt1 pv 1000 shape scale a b q d
  else
    u <- nextp pv ;;
    l <- lift (nlog N u) ;;
    ret ((-. scale) *. l).

Fixpoint prod_uniforms (pv : bool) (k : nat) (acc : F) : M F F :=
  match k with
  | O => ret acc
  | S k' => u <- nextp pv ;; prod_uniforms pv k' (acc *. u)
  end.

Fixpoint count_successes (n : nat) (p : F) (x : Z) : M F Z :=
  match n with
  | O => ret x
  | S n' => u <- next ;; count_successes n' p (if u <=. p then (x + 1)%Z else x)
  end.

Definition geometric_once (pv : bool) (lnp : F) : M F Z :=
  u <- nextp pv ;;
  l <- lift (nlog N u) ;;
  q <- lift (l /. lnp) ;;
  lift (nfloor N q).

Fixpoint sum_geometrics (pv : bool) (s : nat) (lnp : F) (x : Z) : M F Z :=
  match s with
  | O => ret x
  | S s' => g <- geometric_once pv lnp ;; sum_geometrics pv s' lnp (x + g)%Z
  end.

(* the rejection loop of DistNormal._next_gaussian; consumes two uniforms per
   try, so it is structurally recursive on the recorded stream output *)
Fixpoint polar_loop (pv : bool) (us : list F) : res (F * F * F) * list F :=
  match us with
  | u1 :: u2 :: r =>
      let v1 := two *. u1 -. one in
      let v2 := two *. u2 -. one in
      let s := v1 *. v1 +. v2 *. v2 in
      if (one <=. s) || (negb pv && eqb N s zero) then polar_loop pv r
      else (Val (v1, v2, s), r)
  | _ => (Err NoUniform, [])
  end.

(* returns the gaussian and the new (have_saved, saved) cache *)
Definition next_gaussian (pv : bool) (cache : option F) : M F (F * option F) :=
  match cache with
  | Some g => ret (g, None)
  | None =>
      t <- polar_loop pv ;;
      let '(v1, v2, s) := t in
      l <- lift (nlog N s) ;;
      q <- lift (((-. two) *. l) /. s) ;;
      norm <- lift (nsqrt N q) ;;
      ret (v1 *. norm, Some (v2 *. norm))
  end.

Definition draw_normal (pv : bool) (mu sigma : F) (cache : option F) : M F (F * option F) :=
  t <- next_gaussian pv cache ;;
  ret (mu +. sigma *. fst t, snd t).

(* the end of DistNormalTrunc.draw *)
Definition nt_clamp (pv : bool) (lo hi d : F) : res F :=
  if isinf N d then (if d <. zero then Val lo else Val hi)
  else if d <. lo then
    (if pv then (if nabs N (d -. lo) <. c1em6 *. nabs N lo then Val lo else Err (Raise EValue))
     else Val lo)
  else if hi <. d then
    (if pv then (if nabs N (d -. hi) <. c1em6 *. nabs N hi then Val hi else Err (Raise EValue))
     else Val hi)
  else Val d.

Definition draw_normaltrunc (pv : bool) (mu sigma lo hi cplo cpdiff : F) : M F F :=
  u <- next ;;
  s2 <- lift (nsqrt N two) ;;
  e <- lift (nerfinv N (two *. (cplo +. cpdiff *. u) -. one)) ;;
  lift (nt_clamp pv lo hi (mu +. sigma *. s2 *. e)).

(* DistPoisson.draw: one uniform per round, structurally recursive *)
Fixpoint poisson_loop (expl s : F) (x : Z) (us : list F) : res Z * list F :=
  match us with
  | [] => (Err NoUniform, [])
  | u :: r =>
      let s' := s *. u in
      if s' <=. expl then (Val (x + 1)%Z, r) else poisson_loop expl s' (x + 1)%Z r
  end.

(* DistPoisson.draw (repaired tree): the product algorithm as it stands for
   rates up to MAX_PRODUCT_RATE = 500; a larger rate - exp(-rate) is subnormal
   from 708 and 0.0 from 745 - is split into n = floor(rate / 500) + 1 equal
   parts and the draw is the sum of n product-algorithm draws with exp(-rate/n)
   on the same stream (recursion on the number of parts).  The pinned tree uses
   the product algorithm for every rate. *)
Definition c500 : F := ofZ N 500.

Fixpoint poisson_sum (k : nat) (expl : F) (x : Z) : M F Z :=
  match k with
  | O => ret x
  | S k' => g <- poisson_loop expl one (-1)%Z ;; poisson_sum k' expl (x + g)%Z
  end.

Definition draw_poisson (pv : bool) (rate expl : F) : M F Z :=
  if pv || (rate <=. c500) then poisson_loop expl one (-1)%Z
  else
    q <- lift (rate /. c500) ;;
    fl <- lift (nfloor N q) ;;
    let n := (fl + 1)%Z in
    q2 <- lift ((-. rate) /. ofZ N n) ;;
    e <- lift (nexp N q2) ;;
    poisson_sum (Z.to_nat n) e 0%Z.

Definition draw_triangular (lo mode hi : F) : M F F :=
  u <- next ;;
  fr <- lift ((mode -. lo) /. (hi -. lo)) ;;
  if u <=. fr then
    r <- lift (nsqrt N ((mode -. lo) *. (hi -. lo) *. u)) ;;
    ret (lo +. r)
  else
    r <- lift (nsqrt N ((hi -. lo) *. (hi -. mode) *. (one -. u))) ;;
    ret (hi -. r).

(* MersenneTwister.next_int(lo, hi) = lo + floor((hi - lo + 1) * random()) *)
Definition next_int (lo hi : Z) : M F Z :=
  u <- next ;;
  f <- lift (nfloor N (ofZ N (hi - lo + 1) *. u)) ;;
  ret (lo + f)%Z.

Definition fv {A} (m : M F F) (c : A) : M F (value F * A) := x <- m ;; ret (VF x, c).
Definition iv {A} (m : M F Z) (c : A) : M F (value F * A) := x <- m ;; ret (VI x, c).

(* draw of an accepted instance; [cache] is DistNormal's saved gaussian *)
Definition draw (pv : bool) (d : dist) (cache : option F) : M F (value F * option F) :=
  match d with
  | DBernoulli p => iv (u <- next ;; ret (if u <=. p then 1%Z else 0%Z)) cache
  | DBeta _ _ g1 g2 =>
      fv (y1 <- draw_gamma pv (fst g1) (snd g1) ;;
          y2 <- draw_gamma pv (fst g2) (snd g2) ;;
          lift (y1 /. (y1 +. y2))) cache
  | DBinomial n p => iv (count_successes (Z.to_nat n) p 0%Z) cache
  | DConstant c => _u <- next ;; ret (c, cache)
  | DDiscreteUniform lo hi => iv (next_int lo hi) cache
  | DErlang scale k _ g =>
      match g with
      | None => fv (p <- prod_uniforms pv (Z.to_nat k) one ;;
                    l <- lift (nlog N p) ;;
                    ret ((-. scale) *. l)) cache
      | Some gp => fv (draw_gamma pv (fst gp) (snd gp)) cache
      end
  | DExponential mean => fv (u <- nextp pv ;; l <- lift (nlog N u) ;; ret ((-. mean) *. l)) cache
  | DGamma shape scale => fv (draw_gamma pv shape scale) cache
  | DGeometric _ lnp => iv (geometric_once pv lnp) cache
  | DLogNormal mu sigma _ _ =>
      t <- draw_normal pv mu sigma cache ;;
      e <- lift (nexp N (fst t)) ;;
      ret (VF e, snd t)
  | DNegBinomial s _ lnp => iv (sum_geometrics pv (Z.to_nat s) lnp 0%Z) cache
  | DNormal mu sigma => t <- draw_normal pv mu sigma cache ;; ret (VF (fst t), snd t)
  | DNormalTrunc mu sigma lo hi cplo cpdiff _ =>
      fv (draw_normaltrunc pv mu sigma lo hi cplo cpdiff) cache
  | DPearson5 _ _ g => fv (y <- draw_gamma pv (fst g) (snd g) ;; lift (one /. y)) cache
  | DPearson6 _ _ beta g1 g2 =>
      fv (y1 <- draw_gamma pv (fst g1) (snd g1) ;;
          y2 <- draw_gamma pv (fst g2) (snd g2) ;;
          lift ((beta *. y1) /. y2)) cache
  | DPoisson rate expl => iv (draw_poisson pv rate expl) cache
  | DTriangular lo mode hi => fv (draw_triangular lo mode hi) cache
  | DUniform lo hi => fv (u <- next ;; ret (lo +. (hi -. lo) *. u)) cache
  | DWeibull alpha beta =>
      fv (u <- nextp pv ;;
          l <- lift (nlog N u) ;;
          ia <- lift (one /. alpha) ;;
          pw <- lift (npow N (-. l) ia) ;;
          ret (beta *. pw)) cache
  end.

(* ------------------------------------------------------------------ *)
(* instances, streams, operations                                       *)
(* abstract stream store: stream id -> output not yet consumed *)
Definition store := nat -> list F.
Definition upd (st : store) (s : nat) (l : list F) : store :=
  fun k => if Nat.eqb k s then l else st k.

(* draw() together with the cache the instance holds afterwards, ALSO when an
   exception is raised: DistLogNormal.draw is math.exp(DistNormal.draw()), and
   _next_gaussian has already stored the second gaussian when math.exp raises
   OverflowError, so the following draw() returns from the cache.  In every
   other exception path the cache is as before the call. *)
Definition draw_c (pv : bool) (d : dist) (cache : option F)
  : list F -> res (value F) * option F * list F :=
  fun us =>
  match d with
  | DLogNormal mu sigma _ _ =>
      match draw_normal pv mu sigma cache us with
      | (Val t, r) => (match nexp N (fst t) with Val e => Val (VF e) | Err e => Err e end, snd t, r)
      | (Err e, r) => (Err e, cache, r)
      end
  | _ =>
      match draw pv d cache us with
      | (Val (v, c), r) => (Val v, c, r)
      | (Err e, r) => (Err e, cache, r)
      end
  end.

(* one draw() call on an instance: result, instance afterwards, store afterwards *)
Definition inst_draw (pv : bool) (st : store) (i : inst)
  : res (value F) * inst * store :=
  match draw_c pv (idist i) (icache i) (st (isid i)) with
  | (r, c, rest) => (r, mkInst (idist i) (isid i) c, upd st (isid i) rest)
  end.

(* _set_stream(stream): type check, re-point, drop the cached gaussian
   (the inner gamma distributions of Beta / Erlang / Pearson are rebuilt with
   the same parameters on the new stream, i.e. they follow [isid]) *)
Definition set_stream (i : inst) (sok : bool) (s : nat) : res inst :=
  if sok then Val (mkInst (idist i) s None) else Err (Raise EType).

(* quantity wrappers of units.py: Q(dist.draw(), unit) has si = draw * factor *)
Definition as_float (v : value F) : F := match v with VF x => x | VI z => ofZ N z end.
Definition wrap_si (factor : F) (v : value F) : F := as_float v *. factor.

Definition world := ((nat -> option inst) * store)%type.
Definition wupd (w : nat -> option inst) (k : nat) (i : option inst) : nat -> option inst :=
  fun j => if Nat.eqb j k then i else w j.

Definition step (pv : bool) (w : world) (o : op) : world * mout :=
  let '(ins, st) := w in
  match o with
  | ONew k c sok sid ps =>
      match ctor pv c sok ps with
      | Val d => ((wupd ins k (Some (mkInst d sid None)), st), MAccept)
      | Err e => ((wupd ins k None, st), MFail e 0)
      end
  | ODraw k =>
      match ins k with
      | None => (w, MNoInstance)
      | Some i =>
          let before := length (st (isid i)) in
          let '(r, i', st') := inst_draw pv st i in
          let used := (before - length (st' (isid i)))%nat in
          ((wupd ins k (Some i'), st'),
           match r with Val v => MVal v used | Err e => MFail e used end)
      end
  | ODrawQ k factor =>
      match ins k with
      | None => (w, MNoInstance)
      | Some i =>
          let before := length (st (isid i)) in
          let '(r, i', st') := inst_draw pv st i in
          let used := (before - length (st' (isid i)))%nat in
          ((wupd ins k (Some i'), st'),
           match r with Val v => MVal (VF (wrap_si factor v)) used | Err e => MFail e used end)
      end
  | OSetStream k sok sid =>
      match ins k with
      | None => (w, MNoInstance)
      | Some i =>
          match set_stream i sok sid with
          | Val i' => ((wupd ins k (Some i'), st), MNone)
          | Err e => (w, MFail e 0)
          end
      end
  end.

Fixpoint run (pv : bool) (w : world) (ops : list op) : world * list mout :=
  match ops with
  | [] => (w, [])
  | o :: r => let '(w1, m) := step pv w o in
              let '(w2, ms) := run pv w1 r in (w2, m :: ms)
  end.

End Draw.
