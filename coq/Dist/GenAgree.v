(* C14 / C15 -- the model regenerated from the source IS the proved model.

   Dist/Gen_Dist.v is written by translator/py2gallina_dist.py from the text of
   src/pydsol/core/distributions.py of the tree under test (constructors, draw
   methods with their helper methods and loops, density / probability / cdf /
   inverse cdf functions of the 19 classes; Python's `ast`, fail-closed).
   This file proves, for every translated method, that the generated definition
   equals the hand-written model function of Dist/Draw.v / Dist/Density.v (the
   repaired variant, pv = false, tv = false) -- for ALL parameters, stream
   outputs and arguments and for EVERY instance of the arithmetic record [num]
   with its libm oracle fields (so also for the executed binary64 one), by
   unfolding both sides, case analysis on the results of the operations and
   induction on the fuel of the loops; no arithmetic fact is used.

   Where the source keeps more than the model record:
   - DistErlang tests  self._k < 10  where the model tests whether the inner
     gamma distribution exists: equal for every instance in which the two agree
     ([erlang_consistent]; every instance the constructor builds is one);
   - DistNormal keeps (_have_saved_gaussian, _saved_gaussian), the model an
     option ([cache_of]).

   Every theorem of Props/C14.v and Props/C15.v is about the hand-written
   functions, hence -- by rewriting with the equalities below -- about the
   current source text.  The file is compiled against the generated file on
   every run of the checks; when a change of distributions.py makes an equality
   false, it no longer compiles and the check reports the broken tie. *)
From Coq Require Import ZArith List Bool Lia.
From PV Require Import Dist.Num Dist.Draw Dist.Density.
From PV Require Import Dist.Gen_Dist.
Import ListNotations.

(* case analysis on the innermost scrutinee of a match / if, until none is left *)
Ltac brk_step :=
  match goal with
  | |- context [match ?x with _ => _ end] =>
    lazymatch x with
    | context [match _ with _ => _ end] => fail
    | _ => destruct x eqn:?
    end
  end.
(* boolean connectives are unfolded, so that the case analysis is on the atomic comparisons and the
   proofs do not depend on how a condition is spelled (a != X and b != Y  /  not (a == X or b == Y)) *)
Ltac nrm := cbv beta iota zeta delta [negb andb orb].
Ltac brk := nrm; repeat (brk_step; nrm); try reflexivity; try congruence.
(* the same, closing a goal with [t] (an induction hypothesis) as soon as it applies *)
Ltac brk_with t := nrm; repeat (first [solve [t] | brk_step]; nrm); try reflexivity; try congruence.
Ltac unm := unfold fv, iv, nextp in *; unfold bind, lift, ret, rbind, rmap, with_fuel, bindMS, bindSS, retS, failS in *.

Section Agree.
Variable N : num.
Notation F := (T N).

(* ====================================================================== *)
(* constructors                                                            *)
(* ====================================================================== *)
Ltac ctor_eq :=
  intros; cbv beta iota zeta delta [ctor gamma_checks pos_ok lt_ok le_ok prob_ok in01 in01o p_gt0 p_le0 zero one two half
                                    c1em6 cum_prob_nt py_value gamma_of rbind];
  repeat match goal with p : param _ |- _ => destruct p end;
  repeat match goal with b : bool |- _ => destruct b end;
  cbv beta iota zeta delta [check is_num is_float is_int p_float p_int p_lt p_le p_eq negb andb];
  try reflexivity.

Theorem gen_DistGamma___init___eq : forall sok shape scale,
  gen_DistGamma___init__ N sok shape scale = ctor N false CGamma sok [shape; scale].
Proof. unfold gen_DistGamma___init__. ctor_eq; brk. Qed.

Theorem gen_DistBernoulli___init___eq : forall sok p,
  gen_DistBernoulli___init__ N sok p = ctor N false CBernoulli sok [p].
Proof. unfold gen_DistBernoulli___init__. ctor_eq; brk. Qed.

Theorem gen_DistBinomial___init___eq : forall sok n p,
  gen_DistBinomial___init__ N sok n p = ctor N false CBinomial sok [n; p].
Proof. unfold gen_DistBinomial___init__. ctor_eq; brk. Qed.

Theorem gen_DistConstant___init___eq : forall sok c,
  gen_DistConstant___init__ N sok c = ctor N false CConstant sok [c].
Proof. unfold gen_DistConstant___init__. ctor_eq; brk. Qed.

Theorem gen_DistDiscreteUniform___init___eq : forall sok lo hi,
  gen_DistDiscreteUniform___init__ N sok lo hi = ctor N false CDiscreteUniform sok [lo; hi].
Proof. unfold gen_DistDiscreteUniform___init__. ctor_eq; brk. Qed.

Theorem gen_DistExponential___init___eq : forall sok mean,
  gen_DistExponential___init__ N sok mean = ctor N false CExponential sok [mean].
Proof. unfold gen_DistExponential___init__. ctor_eq; brk. Qed.

Theorem gen_DistGeometric___init___eq : forall sok p,
  gen_DistGeometric___init__ N sok p = ctor N false CGeometric sok [p].
Proof. unfold gen_DistGeometric___init__. ctor_eq; brk. Qed.

Theorem gen_DistNegBinomial___init___eq : forall sok s p,
  gen_DistNegBinomial___init__ N sok s p = ctor N false CNegBinomial sok [s; p].
Proof. unfold gen_DistNegBinomial___init__. ctor_eq; brk. Qed.

Theorem gen_DistPoisson___init___eq : forall sok rate,
  gen_DistPoisson___init__ N sok rate = ctor N false CPoisson sok [rate].
Proof. unfold gen_DistPoisson___init__. ctor_eq; brk. Qed.

Theorem gen_DistTriangular___init___eq : forall sok lo mode hi,
  gen_DistTriangular___init__ N sok lo mode hi = ctor N false CTriangular sok [lo; mode; hi].
Proof. unfold gen_DistTriangular___init__. ctor_eq; brk. Qed.

Theorem gen_DistUniform___init___eq : forall sok lo hi,
  gen_DistUniform___init__ N sok lo hi = ctor N false CUniform sok [lo; hi].
Proof. unfold gen_DistUniform___init__. ctor_eq; brk. Qed.

Theorem gen_DistWeibull___init___eq : forall sok alpha beta,
  gen_DistWeibull___init__ N sok alpha beta = ctor N false CWeibull sok [alpha; beta].
Proof. unfold gen_DistWeibull___init__. ctor_eq; brk. Qed.

Theorem gen_DistErlang___init___eq : forall sok scale k,
  gen_DistErlang___init__ N sok scale k = ctor N false CErlang sok [scale; k].
Proof.
  intros. unfold gen_DistErlang___init__. rewrite !gen_DistGamma___init___eq. ctor_eq; brk.
Qed.

Theorem gen_DistBeta___init___eq : forall sok a1 a2,
  gen_DistBeta___init__ N sok a1 a2 = ctor N false CBeta sok [a1; a2].
Proof.
  intros. unfold gen_DistBeta___init__. rewrite !gen_DistGamma___init___eq. ctor_eq; brk.
Qed.

Ltac cnrm :=
  cbv beta iota zeta delta [ctor gamma_checks pos_ok lt_ok le_ok prob_ok in01 in01o p_gt0 p_le0 zero one two half
                            c1em6 cum_prob_nt py_value gamma_of rbind check is_num is_float is_int p_float p_int
                            p_lt p_le p_eq negb andb].
Ltac cgo := cnrm; repeat (first [rewrite gen_DistGamma___init___eq | brk_step]; cnrm); try reflexivity; try congruence.

Theorem gen_DistPearson5___init___eq : forall sok alpha beta,
  gen_DistPearson5___init__ N sok alpha beta = ctor N false CPearson5 sok [alpha; beta].
Proof.
  intros. unfold gen_DistPearson5___init__. destruct sok, alpha, beta; cgo.
Qed.

Theorem gen_DistPearson6___init___eq : forall sok a1 a2 beta,
  gen_DistPearson6___init__ N sok a1 a2 beta = ctor N false CPearson6 sok [a1; a2; beta].
Proof.
  intros. unfold gen_DistPearson6___init__. rewrite !gen_DistGamma___init___eq. ctor_eq; brk.
Qed.

(* the cached gaussian of the model: Some x iff _have_saved_gaussian, x = _saved_gaussian *)
Definition cache_of (st : bool * F) : option F := if fst st then Some (snd st) else None.

Theorem gen_DistNormal___init___eq : forall sok mu sigma,
  gen_DistNormal___init__ N sok mu sigma =
  rmap (fun d => (d, (false, zero N))) (ctor N false CNormal sok [mu; sigma]).
Proof. unfold gen_DistNormal___init__. ctor_eq; brk. Qed.

Theorem gen_DistLogNormal___init___eq : forall sok mu sigma,
  gen_DistLogNormal___init__ N sok mu sigma =
  rmap (fun d => (d, (false, zero N))) (ctor N false CLogNormal sok [mu; sigma]).
Proof. unfold gen_DistLogNormal___init__. ctor_eq; brk. Qed.

Theorem gen_DistNormalTrunc_cumulative_probability_not_truncated_eq : forall mu sigma x,
  gen_DistNormalTrunc_cumulative_probability_not_truncated N mu sigma x = cum_prob_nt N mu sigma x.
Proof. intros. unfold gen_DistNormalTrunc_cumulative_probability_not_truncated, cum_prob_nt, rbind, two, half. brk. Qed.

Theorem gen_DistNormalTrunc___init___eq : forall sok mu sigma lo hi,
  gen_DistNormalTrunc___init__ N sok mu sigma lo hi = ctor N false CNormalTrunc sok [mu; sigma; lo; hi].
Proof.
  intros. unfold gen_DistNormalTrunc___init__.
  rewrite !gen_DistNormalTrunc_cumulative_probability_not_truncated_eq.
  cbv beta iota zeta delta [ctor pos_ok lt_ok p_gt0 zero one c1em6 rbind].
  destruct sok, mu, sigma, lo, hi;
    cbv beta iota zeta delta [check is_num p_float p_lt negb]; try reflexivity; brk.
Qed.

(* ====================================================================== *)
(* Distribution._next_open_float                                           *)
(* ====================================================================== *)
Lemma gen_nof_loop_eq : forall us fuel u, (length us < fuel)%nat ->
  gen_Distribution__next_open_float_loop1 N fuel u us =
  if eqb N u (ofZ N 0) then next_pos N us else (Val u, us).
Proof.
  induction us as [|a r IH]; intros fuel u H; (destruct fuel; [simpl in H; lia|]); simpl;
    destruct (eqb N u (ofZ N 0)) eqn:E; try reflexivity.
  unm. simpl. rewrite IH by (simpl in H; lia). reflexivity.
Qed.

Theorem gen_Distribution__next_open_float_eq : forall us,
  gen_Distribution__next_open_float N us = next_pos N us.
Proof.
  intros [|u r]; unfold gen_Distribution__next_open_float, bind, next, with_fuel; cbv beta iota; [reflexivity|].
  rewrite gen_nof_loop_eq by (simpl; lia). reflexivity.
Qed.

(* one step of a draw proof: expose the next stream read, rewrite it, split on it *)
Ltac dstep := first [rewrite gen_Distribution__next_open_float_eq | brk_step]; nrm.
Ltac dgo := nrm; repeat dstep; try reflexivity.

(* ====================================================================== *)
(* draw, loop-free classes                                                 *)
(* ====================================================================== *)
Theorem gen_DistBernoulli_draw_eq : forall p cache us,
  draw N false (DBernoulli p) cache us = iv N (gen_DistBernoulli_draw N p) cache us.
Proof. intros. cbn [draw]. unfold gen_DistBernoulli_draw. unm. dgo. Qed.

Theorem gen_DistConstant_draw_eq : forall c cache us,
  draw N false (DConstant c) cache us = (x <- gen_DistConstant_draw N c ;; ret (x, cache))%m us.
Proof. intros. cbn [draw]. unfold gen_DistConstant_draw. unm. dgo. Qed.

Theorem gen_DistDiscreteUniform_draw_eq : forall lo hi cache us,
  draw N false (DDiscreteUniform lo hi) cache us = iv N (gen_DistDiscreteUniform_draw N lo hi) cache us.
Proof. intros. cbn [draw]. unfold gen_DistDiscreteUniform_draw. unm. dgo. Qed.

Theorem gen_DistExponential_draw_eq : forall mean cache us,
  draw N false (DExponential mean) cache us = fv N (gen_DistExponential_draw N mean) cache us.
Proof. intros. cbn [draw]. unfold gen_DistExponential_draw. unm. dgo. Qed.

Theorem gen_DistGeometric_draw_eq : forall p lnp cache us,
  draw N false (DGeometric p lnp) cache us = iv N (gen_DistGeometric_draw N p lnp) cache us.
Proof. intros. cbn [draw]. unfold gen_DistGeometric_draw, geometric_once. unm. dgo. Qed.

Theorem gen_DistTriangular_draw_eq : forall lo mode hi cache us,
  draw N false (DTriangular lo mode hi) cache us = fv N (gen_DistTriangular_draw N lo mode hi) cache us.
Proof. intros. cbn [draw]. unfold gen_DistTriangular_draw, draw_triangular, one. unm. dgo. Qed.

Theorem gen_DistUniform_draw_eq : forall lo hi cache us,
  draw N false (DUniform lo hi) cache us = fv N (gen_DistUniform_draw N lo hi) cache us.
Proof. intros. cbn [draw]. unfold gen_DistUniform_draw. unm. dgo. Qed.

Theorem gen_DistWeibull_draw_eq : forall alpha beta cache us,
  draw N false (DWeibull alpha beta) cache us = fv N (gen_DistWeibull_draw N alpha beta) cache us.
Proof. intros. cbn [draw]. unfold gen_DistWeibull_draw, one. unm. dgo. Qed.

(* ====================================================================== *)
(* draw, classes with loops                                                *)
(* ====================================================================== *)
Ltac unc := unfold zero, one, two, four, half, c4_5, c1em6 in *.

Lemma gen_DistGamma_draw_loop1_eq : forall cnt shape scale b us,
  gen_DistGamma_draw_loop1 N cnt shape scale b us = gamma_lt1 N cnt shape scale b us.
Proof.
  induction cnt as [|c IH]; intros; [reflexivity|].
  cbn [gen_DistGamma_draw_loop1 gamma_lt1]. unc. unm. dgo; apply IH.
Qed.

Lemma gen_DistGamma_draw_loop2_eq : forall cnt shape scale a b q d us,
  gen_DistGamma_draw_loop2 N cnt shape scale a b q d us = gamma_gt1 N false cnt shape scale a b q d us.
Proof.
  induction cnt as [|c IH]; intros; [reflexivity|].
  cbn [gen_DistGamma_draw_loop2 gamma_gt1]. unc. unm. dgo; apply IH.
Qed.

Theorem gen_DistGamma_draw_eq : forall shape scale us,
  gen_DistGamma_draw N shape scale us = draw_gamma N false shape scale us.
Proof.
  intros. unfold gen_DistGamma_draw, draw_gamma. generalize 1000%nat as tries. intros tries. unc. unm.
  dgo; first [apply gen_DistGamma_draw_loop1_eq | apply gen_DistGamma_draw_loop2_eq].
Qed.

Lemma gen_DistBinomial_draw_loop1_eq : forall cnt n p x us,
  gen_DistBinomial_draw_loop1 N cnt n p x us = count_successes N cnt p x us.
Proof.
  induction cnt as [|c IH]; intros; [reflexivity|].
  cbn [gen_DistBinomial_draw_loop1 count_successes]. unm. dgo; apply IH.
Qed.

Theorem gen_DistBinomial_draw_eq : forall n p cache us,
  draw N false (DBinomial n p) cache us = iv N (gen_DistBinomial_draw N n p) cache us.
Proof.
  intros. cbn [draw]. unfold gen_DistBinomial_draw, iv, bind.
  rewrite gen_DistBinomial_draw_loop1_eq. reflexivity.
Qed.

Lemma gen_DistNegBinomial_draw_loop1_eq : forall cnt s p lnp x us,
  gen_DistNegBinomial_draw_loop1 N cnt s p lnp x us = sum_geometrics N false cnt lnp x us.
Proof.
  induction cnt as [|c IH]; intros; [reflexivity|].
  cbn [gen_DistNegBinomial_draw_loop1 sum_geometrics]. unfold geometric_once. unm. dgo; apply IH.
Qed.

Theorem gen_DistNegBinomial_draw_eq : forall s p lnp cache us,
  draw N false (DNegBinomial s p lnp) cache us = iv N (gen_DistNegBinomial_draw N s p lnp) cache us.
Proof.
  intros. cbn [draw]. unfold gen_DistNegBinomial_draw, iv, bind.
  rewrite gen_DistNegBinomial_draw_loop1_eq. reflexivity.
Qed.

(* DistPoisson: the product algorithm is the helper method _draw_product; draw() uses it once for a rate
   up to 500 and sums n = floor(rate / 500) + 1 of them, with exp(-rate / n), for a larger rate *)
Lemma gen_DistPoisson__draw_product_loop1_eq : forall us fuel expl s x, (length us < fuel)%nat ->
  gen_DistPoisson__draw_product_loop1 N fuel expl s x us = poisson_loop N expl s x us.
Proof.
  induction us as [|u r IH]; intros fuel expl s x H; (destruct fuel; [simpl in H; lia|]);
    cbn [gen_DistPoisson__draw_product_loop1 poisson_loop]; unm; cbn [next]; nrm; [reflexivity|].
  destruct (leb N (mul N s u) expl); [reflexivity|]. apply IH. simpl in H. lia.
Qed.

Lemma gen_DistPoisson__draw_product_eq : forall expl us,
  gen_DistPoisson__draw_product N expl us = poisson_loop N expl (one N) (-1)%Z us.
Proof.
  intros. unfold gen_DistPoisson__draw_product, with_fuel.
  rewrite gen_DistPoisson__draw_product_loop1_eq by lia. reflexivity.
Qed.

Lemma gen_DistPoisson_draw_loop1_eq : forall cnt rate expl n e x us,
  gen_DistPoisson_draw_loop1 N cnt rate expl n e x us = poisson_sum N cnt e x us.
Proof.
  induction cnt as [|c IH]; intros; [reflexivity|].
  cbn [gen_DistPoisson_draw_loop1 poisson_sum]. unfold bind.
  rewrite gen_DistPoisson__draw_product_eq.
  destruct (poisson_loop N e (one N) (-1)%Z us) as [[g|er] r]; [apply IH|reflexivity].
Qed.

Theorem gen_DistPoisson_draw_eq : forall rate expl cache us,
  draw N false (DPoisson rate expl) cache us = iv N (gen_DistPoisson_draw N rate expl) cache us.
Proof.
  intros. cbn [draw]. unfold gen_DistPoisson_draw, draw_poisson, c500, iv. cbn [orb].
  destruct (leb N rate (ofZ N 500)).
  - unfold bind, ret. rewrite gen_DistPoisson__draw_product_eq.
    destruct (poisson_loop N expl (one N) (-1)%Z us) as [[g|er] r]; reflexivity.
  - unfold bind, lift.
    destruct (div N rate (ofZ N 500)) as [q|]; [|reflexivity].
    destruct (nfloor N q) as [fl|]; [|reflexivity].
    destruct (div N (neg N rate) (ofZ N (fl + 1))) as [q2|]; [|reflexivity].
    destruct (nexp N q2) as [e|]; [|reflexivity].
    rewrite gen_DistPoisson_draw_loop1_eq. reflexivity.
Qed.

(* DistErlang: the source tests k < 10, the model whether the inner gamma exists *)
Definition erlang_consistent (k : Z) (g : option (F * F)) : Prop :=
  if (k <? 10)%Z then g = None else g <> None.

Lemma gen_DistErlang_draw_loop1_eq : forall cnt scale k lam g acc us,
  gen_DistErlang_draw_loop1 N cnt scale k lam g acc us =
  (p <- prod_uniforms N false cnt acc ;; l <- lift (nlog N p) ;; ret (mul N (neg N scale) l))%m us.
Proof.
  induction cnt as [|c IH]; intros; [reflexivity|].
  cbn [gen_DistErlang_draw_loop1 prod_uniforms]. unm.
  rewrite gen_Distribution__next_open_float_eq. destruct (next_pos N us) as [[u|e] r]; nrm; [|reflexivity].
  rewrite IH. unm. reflexivity.
Qed.

Theorem gen_DistErlang_draw_eq : forall scale k lam g cache us, erlang_consistent k g ->
  draw N false (DErlang scale k lam g) cache us = fv N (gen_DistErlang_draw N scale k lam g) cache us.
Proof.
  intros scale k lam g cache us H. cbn [draw]. unfold gen_DistErlang_draw, erlang_consistent in *.
  destruct (k <? 10)%Z.
  - subst g. unfold fv, bind. rewrite gen_DistErlang_draw_loop1_eq. unc. unm. brk.
  - destruct g as [gp|]; [|congruence]. unfold fv, bind. rewrite gen_DistGamma_draw_eq. unm. brk.
Qed.

Theorem gen_DistBeta_draw_eq : forall a1 a2 g1 g2 cache us,
  draw N false (DBeta a1 a2 g1 g2) cache us = fv N (gen_DistBeta_draw N a1 a2 g1 g2) cache us.
Proof.
  intros. cbn [draw]. unfold gen_DistBeta_draw, fv, bind. rewrite gen_DistGamma_draw_eq.
  destruct (draw_gamma N false (fst g1) (snd g1) us) as [[y1|e] r]; nrm; [|reflexivity].
  rewrite gen_DistGamma_draw_eq. unm. brk.
Qed.

Theorem gen_DistPearson5_draw_eq : forall alpha beta g cache us,
  draw N false (DPearson5 alpha beta g) cache us = fv N (gen_DistPearson5_draw N alpha beta g) cache us.
Proof.
  intros. cbn [draw]. unfold gen_DistPearson5_draw, fv, bind. rewrite gen_DistGamma_draw_eq. unc. unm. brk.
Qed.

Theorem gen_DistPearson6_draw_eq : forall a1 a2 beta g1 g2 cache us,
  draw N false (DPearson6 a1 a2 beta g1 g2) cache us = fv N (gen_DistPearson6_draw N a1 a2 beta g1 g2) cache us.
Proof.
  intros. cbn [draw]. unfold gen_DistPearson6_draw, fv, bind. rewrite gen_DistGamma_draw_eq.
  destruct (draw_gamma N false (fst g1) (snd g1) us) as [[y1|e] r]; nrm; [|reflexivity].
  rewrite gen_DistGamma_draw_eq. unm. brk.
Qed.

Theorem gen_DistNormalTrunc_inverse_cumulative_probability_not_truncated_eq : forall mu sigma y,
  gen_DistNormalTrunc_inverse_cumulative_probability_not_truncated N mu sigma y = normal_icdf N mu sigma y.
Proof. intros. unfold gen_DistNormalTrunc_inverse_cumulative_probability_not_truncated, normal_icdf, rbind. unc. brk. Qed.

Theorem gen_DistNormalTrunc_draw_eq : forall mu sigma lo hi cplo cpdiff fac cache us,
  draw N false (DNormalTrunc mu sigma lo hi cplo cpdiff fac) cache us =
  fv N (gen_DistNormalTrunc_draw N mu sigma lo hi cplo cpdiff fac) cache us.
Proof.
  intros. cbn [draw]. unfold gen_DistNormalTrunc_draw, draw_normaltrunc, nt_clamp.
  unfold gen_DistNormalTrunc_inverse_cumulative_probability_not_truncated. unc. unm. dgo.
Qed.

(* ---- DistNormal / DistLogNormal: the two attributes of the cached gaussian ---- *)
(* what the model sees of a result that carries the attribute values *)
Definition ms_view {A : Type} (x : res A * (bool * F) * list F) : res (A * option F) * list F :=
  match x with
  | (Val a, st, r) => (Val (a, cache_of st), r)
  | (Err e, _, r) => (Err e, r)
  end.
(* with an exception the attributes are as before the call *)
Definition ms_err_keeps {A : Type} (st : bool * F) (x : res A * (bool * F) * list F) : Prop :=
  match x with
  | (Err _, st', _) => st' = st
  | _ => True
  end.

Lemma gen_DistNormal__next_gaussian_loop1_eq : forall fuel us h sv s, (length us < fuel)%nat ->
  gen_DistNormal__next_gaussian_loop1 N fuel h sv s us =
  match polar_loop N false us with
  | (Val (v1, v2, s2), r) =>
      match nlog N s2 with
      | Err e => (Err e, (h, sv), r)
      | Val l =>
          match div N (mul N (neg N (ofZ N 2)) l) s2 with
          | Err e => (Err e, (h, sv), r)
          | Val q =>
              match nsqrt N q with
              | Err e => (Err e, (h, sv), r)
              | Val norm => (Val (mul N v1 norm), (true, mul N v2 norm), r)
              end
          end
      end
  | (Err e, r) => (Err e, (h, sv), r)
  end.
Proof.
  induction fuel as [|f IH]; intros us h sv s H; [lia|].
  destruct us as [|u1 [|u2 r]]; cbn [gen_DistNormal__next_gaussian_loop1 polar_loop]; unc; unm; cbn [next]; nrm;
    try reflexivity.
  assert (L : (length r < f)%nat) by (simpl in H; lia).
  brk_with ltac:(apply IH; exact L).
Qed.

Theorem gen_DistNormal__next_gaussian_eq : forall h sv us,
  ms_view (gen_DistNormal__next_gaussian N h sv us) = next_gaussian N false (cache_of (h, sv)) us /\
  ms_err_keeps (h, sv) (gen_DistNormal__next_gaussian N h sv us).
Proof.
  intros. unfold gen_DistNormal__next_gaussian, next_gaussian, cache_of. cbn [fst snd].
  destruct h; [split; reflexivity|].
  unfold with_fuel. rewrite gen_DistNormal__next_gaussian_loop1_eq by lia. unc. unm.
  destruct (polar_loop N false us) as [[[[v1 v2] s2]|e] r]; [|split; reflexivity].
  nrm. split; brk.
Qed.

Theorem gen_DistNormal_draw_eq : forall mu sigma h sv us,
  ms_view (gen_DistNormal_draw N mu sigma h sv us) = draw_normal N false mu sigma (cache_of (h, sv)) us /\
  ms_err_keeps (h, sv) (gen_DistNormal_draw N mu sigma h sv us).
Proof.
  intros. unfold gen_DistNormal_draw, draw_normal. unm.
  destruct (gen_DistNormal__next_gaussian_eq h sv us) as [A B]. rewrite <- A.
  destruct (gen_DistNormal__next_gaussian N h sv us) as [[[g|e] [h' sv']] r]; cbn in *; split; congruence.
Qed.

(* draw_c: result, cache afterwards (also with an exception), rest of the stream output *)
Definition ms_view_c {A : Type} (x : res A * (bool * F) * list F) : res A * option F * list F :=
  match x with (a, st, r) => (a, cache_of st, r) end.

Theorem gen_DistNormal_draw_c_eq : forall mu sigma h sv us,
  draw_c N false (DNormal mu sigma) (cache_of (h, sv)) us =
  ms_view_c (let '(a, st, r) := gen_DistNormal_draw N mu sigma h sv us in (rmap VF a, st, r)).
Proof.
  intros. unfold draw_c. cbn [draw]. unfold bind.
  destruct (gen_DistNormal_draw_eq mu sigma h sv us) as [A B]. rewrite <- A.
  destruct (gen_DistNormal_draw N mu sigma h sv us) as [[[g|e] st] r]; cbn in *; unm; [reflexivity|].
  subst st. reflexivity.
Qed.

Theorem gen_DistLogNormal_draw_c_eq : forall mu sigma c2 c2p h sv us,
  draw_c N false (DLogNormal mu sigma c2 c2p) (cache_of (h, sv)) us =
  ms_view_c (let '(a, st, r) := gen_DistLogNormal_draw N mu sigma c2 c2p h sv us in (rmap VF a, st, r)).
Proof.
  intros. unfold draw_c, gen_DistLogNormal_draw. unm.
  destruct (gen_DistNormal_draw_eq mu sigma h sv us) as [A B]. rewrite <- A.
  destruct (gen_DistNormal_draw N mu sigma h sv us) as [[[g|e] [h' sv']] r]; cbn in *.
  - destruct (nexp N g); reflexivity.
  - inversion B. reflexivity.
Qed.

(* ====================================================================== *)
(* densities, probabilities, cdfs, inverse cdfs                            *)
(* ====================================================================== *)
Ltac dens := intros; cbv beta iota zeta delta [pdf prob cdf icdf tri_pdf normal_kernel normal_icdf cum_prob_nt beta_fn rbind
                                              zero one two half as_float check negb]; brk; try congruence.

Theorem gen_DistBeta_probability_density_eq : forall a1 a2 g1 g2 x,
  gen_DistBeta_probability_density N a1 a2 g1 g2 x = pdf N false (DBeta a1 a2 g1 g2) x.
Proof. unfold gen_DistBeta_probability_density. dens. Qed.

Theorem gen_DistConstant_probability_density_eq : forall c x,
  gen_DistConstant_probability_density N c x = pdf N false (DConstant c) x.
Proof. unfold gen_DistConstant_probability_density. dens. Qed.

Theorem gen_DistErlang_probability_density_eq : forall scale k lam g x,
  gen_DistErlang_probability_density N scale k lam g x = pdf N false (DErlang scale k lam g) x.
Proof. unfold gen_DistErlang_probability_density. dens. Qed.

Theorem gen_DistExponential_probability_density_eq : forall mean x,
  gen_DistExponential_probability_density N mean x = pdf N false (DExponential mean) x.
Proof. unfold gen_DistExponential_probability_density. dens. Qed.

Theorem gen_DistGamma_probability_density_eq : forall shape scale x,
  gen_DistGamma_probability_density N shape scale x = pdf N false (DGamma shape scale) x.
Proof. unfold gen_DistGamma_probability_density. dens. Qed.

Theorem gen_DistLogNormal_probability_density_eq : forall mu sigma c2 c2p x,
  gen_DistLogNormal_probability_density N mu sigma c2 c2p x = pdf N false (DLogNormal mu sigma c2 c2p) x.
Proof. unfold gen_DistLogNormal_probability_density. dens. Qed.

Theorem gen_DistNormal_probability_density_eq : forall mu sigma x,
  gen_DistNormal_probability_density N mu sigma x = pdf N false (DNormal mu sigma) x.
Proof. unfold gen_DistNormal_probability_density. dens. Qed.

Theorem gen_DistNormalTrunc_probability_density_eq : forall mu sigma lo hi cplo cpdiff fac x,
  gen_DistNormalTrunc_probability_density N mu sigma lo hi cplo cpdiff fac x = pdf N false (DNormalTrunc mu sigma lo hi cplo cpdiff fac) x.
Proof. unfold gen_DistNormalTrunc_probability_density. dens. Qed.

Theorem gen_DistPearson5_probability_density_eq : forall alpha beta g x,
  gen_DistPearson5_probability_density N alpha beta g x = pdf N false (DPearson5 alpha beta g) x.
Proof. unfold gen_DistPearson5_probability_density. dens. Qed.

Theorem gen_DistPearson6_probability_density_eq : forall a1 a2 beta g1 g2 x,
  gen_DistPearson6_probability_density N a1 a2 beta g1 g2 x = pdf N false (DPearson6 a1 a2 beta g1 g2) x.
Proof. unfold gen_DistPearson6_probability_density. dens. Qed.

Theorem gen_DistTriangular_probability_density_eq : forall lo mode hi x,
  gen_DistTriangular_probability_density N lo mode hi x = pdf N false (DTriangular lo mode hi) x.
Proof. unfold gen_DistTriangular_probability_density. dens. Qed.

Theorem gen_DistUniform_probability_density_eq : forall lo hi x,
  gen_DistUniform_probability_density N lo hi x = pdf N false (DUniform lo hi) x.
Proof. unfold gen_DistUniform_probability_density. dens. Qed.

Theorem gen_DistWeibull_probability_density_eq : forall alpha beta x,
  gen_DistWeibull_probability_density N alpha beta x = pdf N false (DWeibull alpha beta) x.
Proof. unfold gen_DistWeibull_probability_density. dens. Qed.

Theorem gen_DistBernoulli_probability_eq : forall p k,
  gen_DistBernoulli_probability N p k = prob N (DBernoulli p) k.
Proof. unfold gen_DistBernoulli_probability. dens. Qed.

Theorem gen_DistBinomial_probability_eq : forall n p k,
  gen_DistBinomial_probability N n p k = prob N (DBinomial n p) k.
Proof. unfold gen_DistBinomial_probability. dens. Qed.

Theorem gen_DistDiscreteUniform_probability_eq : forall lo hi k,
  gen_DistDiscreteUniform_probability N lo hi k = prob N (DDiscreteUniform lo hi) k.
Proof. unfold gen_DistDiscreteUniform_probability. dens. Qed.

Theorem gen_DistGeometric_probability_eq : forall p lnp k,
  gen_DistGeometric_probability N p lnp k = prob N (DGeometric p lnp) k.
Proof. unfold gen_DistGeometric_probability. dens. Qed.

Theorem gen_DistNegBinomial_probability_eq : forall s p lnp k,
  gen_DistNegBinomial_probability N s p lnp k = prob N (DNegBinomial s p lnp) k.
Proof. unfold gen_DistNegBinomial_probability. dens. Qed.

Theorem gen_DistPoisson_probability_eq : forall rate expl k,
  gen_DistPoisson_probability N rate expl k = prob N (DPoisson rate expl) k.
Proof. unfold gen_DistPoisson_probability. dens. Qed.

Theorem gen_DistNormal_cumulative_probability_eq : forall mu sigma x,
  gen_DistNormal_cumulative_probability N mu sigma x = cdf N (DNormal mu sigma) x.
Proof. unfold gen_DistNormal_cumulative_probability. dens. Qed.

Theorem gen_DistNormal_inverse_cumulative_probability_eq : forall mu sigma y,
  gen_DistNormal_inverse_cumulative_probability N mu sigma y = icdf N (DNormal mu sigma) y.
Proof. unfold gen_DistNormal_inverse_cumulative_probability. dens. Qed.

Theorem gen_DistLogNormal_cumulative_probability_eq : forall mu sigma c2 c2p x,
  gen_DistLogNormal_cumulative_probability N mu sigma c2 c2p x = cdf N (DLogNormal mu sigma c2 c2p) x.
Proof. unfold gen_DistLogNormal_cumulative_probability, gen_DistNormal_cumulative_probability. dens. Qed.

Theorem gen_DistLogNormal_inverse_cumulative_probability_eq : forall mu sigma c2 c2p y,
  gen_DistLogNormal_inverse_cumulative_probability N mu sigma c2 c2p y = icdf N (DLogNormal mu sigma c2 c2p) y.
Proof. unfold gen_DistLogNormal_inverse_cumulative_probability, gen_DistNormal_inverse_cumulative_probability. dens. Qed.

Theorem gen_DistNormalTrunc_cumulative_probability_eq : forall mu sigma lo hi cplo cpdiff fac x,
  gen_DistNormalTrunc_cumulative_probability N mu sigma lo hi cplo cpdiff fac x = cdf N (DNormalTrunc mu sigma lo hi cplo cpdiff fac) x.
Proof. unfold gen_DistNormalTrunc_cumulative_probability, gen_DistNormalTrunc_cumulative_probability_not_truncated. dens. Qed.

Theorem gen_DistNormalTrunc_inverse_cumulative_probability_eq : forall mu sigma lo hi cplo cpdiff fac y,
  gen_DistNormalTrunc_inverse_cumulative_probability N mu sigma lo hi cplo cpdiff fac y = icdf N (DNormalTrunc mu sigma lo hi cplo cpdiff fac) y.
Proof. unfold gen_DistNormalTrunc_inverse_cumulative_probability, gen_DistNormalTrunc_inverse_cumulative_probability_not_truncated. dens. Qed.

(* ====================================================================== *)
(* the generated model as a whole                                          *)
(* ====================================================================== *)
(* constructor of class c on a parameter list, generated *)
Definition gen_ctor (c : cls) (sok : bool) (ps : list (param F)) : res (dist F) :=
  match c, ps with
  | CBernoulli, [p] => gen_DistBernoulli___init__ N sok p
  | CBeta, [a1; a2] => gen_DistBeta___init__ N sok a1 a2
  | CBinomial, [n; p] => gen_DistBinomial___init__ N sok n p
  | CConstant, [k] => gen_DistConstant___init__ N sok k
  | CDiscreteUniform, [lo; hi] => gen_DistDiscreteUniform___init__ N sok lo hi
  | CErlang, [scale; k] => gen_DistErlang___init__ N sok scale k
  | CExponential, [mean] => gen_DistExponential___init__ N sok mean
  | CGamma, [shape; scale] => gen_DistGamma___init__ N sok shape scale
  | CGeometric, [p] => gen_DistGeometric___init__ N sok p
  | CNegBinomial, [s; p] => gen_DistNegBinomial___init__ N sok s p
  | CNormal, [mu; sigma] => rmap fst (gen_DistNormal___init__ N sok mu sigma)
  | CLogNormal, [mu; sigma] => rmap fst (gen_DistLogNormal___init__ N sok mu sigma)
  | CNormalTrunc, [mu; sigma; lo; hi] => gen_DistNormalTrunc___init__ N sok mu sigma lo hi
  | CPearson5, [alpha; beta] => gen_DistPearson5___init__ N sok alpha beta
  | CPearson6, [a1; a2; beta] => gen_DistPearson6___init__ N sok a1 a2 beta
  | CPoisson, [rate] => gen_DistPoisson___init__ N sok rate
  | CTriangular, [lo; mode; hi] => gen_DistTriangular___init__ N sok lo mode hi
  | CUniform, [lo; hi] => gen_DistUniform___init__ N sok lo hi
  | CWeibull, [alpha; beta] => gen_DistWeibull___init__ N sok alpha beta
  | _, _ => Err Unmodelled
  end.

Theorem gen_ctor_eq : forall c sok ps, gen_ctor c sok ps = ctor N false c sok ps.
Proof.
  intros c sok ps.
  destruct c; destruct ps as [|p1 [|p2 [|p3 [|p4 [|p5 l]]]]]; try reflexivity; cbn [gen_ctor];
    first [ apply gen_DistBernoulli___init___eq | apply gen_DistBeta___init___eq | apply gen_DistBinomial___init___eq
          | apply gen_DistConstant___init___eq | apply gen_DistDiscreteUniform___init___eq | apply gen_DistErlang___init___eq
          | apply gen_DistExponential___init___eq | apply gen_DistGamma___init___eq | apply gen_DistGeometric___init___eq
          | apply gen_DistNegBinomial___init___eq | apply gen_DistNormalTrunc___init___eq | apply gen_DistPearson5___init___eq
          | apply gen_DistPearson6___init___eq | apply gen_DistPoisson___init___eq | apply gen_DistTriangular___init___eq
          | apply gen_DistUniform___init___eq | apply gen_DistWeibull___init___eq
          | rewrite gen_DistNormal___init___eq; destruct (ctor N false CNormal sok [p1; p2]); reflexivity
          | rewrite gen_DistLogNormal___init___eq; destruct (ctor N false CLogNormal sok [p1; p2]); reflexivity ].
Qed.

(* a freshly constructed DistNormal / DistLogNormal has no cached gaussian *)
Theorem gen_normal_init_no_cache : forall sok mu sigma d st,
  (gen_DistNormal___init__ N sok mu sigma = Val (d, st) \/ gen_DistLogNormal___init__ N sok mu sigma = Val (d, st)) ->
  cache_of st = None.
Proof.
  intros sok mu sigma d st [H|H];
    [rewrite gen_DistNormal___init___eq in H; destruct (ctor N false CNormal sok [mu; sigma])
    |rewrite gen_DistLogNormal___init___eq in H; destruct (ctor N false CLogNormal sok [mu; sigma])];
    cbn in H; inversion H; reflexivity.
Qed.

(* what the constructor builds satisfies the consistency the Erlang agreement needs *)
Definition dist_consistent (d : dist F) : Prop :=
  match d with DErlang _ k _ g => erlang_consistent k g | _ => True end.

Theorem ctor_consistent : forall c sok ps d, ctor N false c sok ps = Val d -> dist_consistent d.
Proof.
  intros c sok ps d H.
  destruct c; try (destruct ps as [|p1 [|p2 [|p3 [|p4 [|p5 l]]]]]; try discriminate H;
                   cbv beta iota zeta delta [ctor rbind] in H;
                   repeat match type of H with
                          | match ?x with _ => _ end = _ => destruct x; try discriminate H
                          end; inversion H; exact I).
  destruct ps as [|p1 [|p2 [|p3 l]]]; try discriminate H.
  cbv beta iota zeta delta [ctor rbind] in H.
  destruct (p_int N p2 <? 10)%Z eqn:E;
    repeat match type of H with
           | match ?x with _ => _ end = _ => destruct x; try discriminate H
           end;
    inversion H; cbn; unfold erlang_consistent; rewrite E; [reflexivity|discriminate].
Qed.

(* draw() on an instance, generated: result, the two attributes afterwards, rest of the stream output *)
Definition of_m {A : Type} (f : A -> value F) (m : M F A) (st : bool * F) (us : list F)
  : res (value F) * (bool * F) * list F :=
  let '(a, r) := m us in (rmap f a, st, r).
Definition of_ms (m : list F -> res F * (bool * F) * list F) (us : list F)
  : res (value F) * (bool * F) * list F :=
  let '(a, st, r) := m us in (rmap VF a, st, r).

Definition gen_draw_c (d : dist F) (st : bool * F) : list F -> res (value F) * (bool * F) * list F :=
  match d with
  | DBernoulli p => of_m VI (gen_DistBernoulli_draw N p) st
  | DBeta a1 a2 g1 g2 => of_m VF (gen_DistBeta_draw N a1 a2 g1 g2) st
  | DBinomial n p => of_m VI (gen_DistBinomial_draw N n p) st
  | DConstant c => of_m (fun v => v) (gen_DistConstant_draw N c) st
  | DDiscreteUniform lo hi => of_m VI (gen_DistDiscreteUniform_draw N lo hi) st
  | DErlang scale k lam g => of_m VF (gen_DistErlang_draw N scale k lam g) st
  | DExponential mean => of_m VF (gen_DistExponential_draw N mean) st
  | DGamma shape scale => of_m VF (gen_DistGamma_draw N shape scale) st
  | DGeometric p lnp => of_m VI (gen_DistGeometric_draw N p lnp) st
  | DLogNormal mu sigma c2 c2p => of_ms (gen_DistLogNormal_draw N mu sigma c2 c2p (fst st) (snd st))
  | DNegBinomial s p lnp => of_m VI (gen_DistNegBinomial_draw N s p lnp) st
  | DNormal mu sigma => of_ms (gen_DistNormal_draw N mu sigma (fst st) (snd st))
  | DNormalTrunc mu sigma lo hi cplo cpdiff fac => of_m VF (gen_DistNormalTrunc_draw N mu sigma lo hi cplo cpdiff fac) st
  | DPearson5 alpha beta g => of_m VF (gen_DistPearson5_draw N alpha beta g) st
  | DPearson6 a1 a2 beta g1 g2 => of_m VF (gen_DistPearson6_draw N a1 a2 beta g1 g2) st
  | DPoisson rate expl => of_m VI (gen_DistPoisson_draw N rate expl) st
  | DTriangular lo mode hi => of_m VF (gen_DistTriangular_draw N lo mode hi) st
  | DUniform lo hi => of_m VF (gen_DistUniform_draw N lo hi) st
  | DWeibull alpha beta => of_m VF (gen_DistWeibull_draw N alpha beta) st
  end.

Lemma draw_c_of_iv : forall d m st us,
  (forall cache us, draw N false d cache us = iv N m cache us) ->
  match d with DLogNormal _ _ _ _ => False | _ => True end ->
  draw_c N false d (cache_of st) us = ms_view_c (of_m VI m st us).
Proof.
  intros d m st us H ND. unfold draw_c. rewrite H. unfold of_m, iv, ms_view_c. unm.
  destruct d; try contradiction; destruct (m us) as [[a|e] r]; reflexivity.
Qed.

Lemma draw_c_of_fv : forall d m st us,
  (forall cache us, draw N false d cache us = fv N m cache us) ->
  match d with DLogNormal _ _ _ _ => False | _ => True end ->
  draw_c N false d (cache_of st) us = ms_view_c (of_m VF m st us).
Proof.
  intros d m st us H ND. unfold draw_c. rewrite H. unfold of_m, fv, ms_view_c. unm.
  destruct d; try contradiction; destruct (m us) as [[a|e] r]; reflexivity.
Qed.

Theorem gen_draw_c_eq : forall d st us, dist_consistent d ->
  draw_c N false d (cache_of st) us = ms_view_c (gen_draw_c d st us).
Proof.
  intros d st us C. destruct d; cbn [gen_draw_c];
    try (apply draw_c_of_iv; [intros|exact I];
         first [apply gen_DistBernoulli_draw_eq | apply gen_DistBinomial_draw_eq | apply gen_DistDiscreteUniform_draw_eq
               | apply gen_DistGeometric_draw_eq | apply gen_DistNegBinomial_draw_eq | apply gen_DistPoisson_draw_eq]);
    try (apply draw_c_of_fv; [intros|exact I];
         first [apply gen_DistBeta_draw_eq | apply gen_DistExponential_draw_eq | apply gen_DistNormalTrunc_draw_eq
               | apply gen_DistPearson5_draw_eq | apply gen_DistPearson6_draw_eq | apply gen_DistTriangular_draw_eq
               | apply gen_DistUniform_draw_eq | apply gen_DistWeibull_draw_eq
               | apply gen_DistErlang_draw_eq; exact C
               | cbn [draw]; unfold fv, bind; rewrite gen_DistGamma_draw_eq; reflexivity]).
  - (* constant *)
    unfold draw_c. rewrite gen_DistConstant_draw_eq. unfold of_m, ms_view_c. unm.
    destruct (gen_DistConstant_draw N c us) as [[a|e] r]; reflexivity.
  - destruct st as [h sv]. apply gen_DistLogNormal_draw_c_eq.
  - destruct st as [h sv]. apply gen_DistNormal_draw_c_eq.
Qed.

(* the density functions as the harness calls them, generated *)
Definition gen_pdf (d : dist F) (x : F) : res F :=
  match d with
  | DBeta a1 a2 g1 g2 => gen_DistBeta_probability_density N a1 a2 g1 g2 x
  | DConstant c => gen_DistConstant_probability_density N c x
  | DErlang scale k lam g => gen_DistErlang_probability_density N scale k lam g x
  | DExponential mean => gen_DistExponential_probability_density N mean x
  | DGamma shape scale => gen_DistGamma_probability_density N shape scale x
  | DLogNormal mu sigma c2 c2p => gen_DistLogNormal_probability_density N mu sigma c2 c2p x
  | DNormal mu sigma => gen_DistNormal_probability_density N mu sigma x
  | DNormalTrunc mu sigma lo hi cplo cpdiff fac => gen_DistNormalTrunc_probability_density N mu sigma lo hi cplo cpdiff fac x
  | DPearson5 alpha beta g => gen_DistPearson5_probability_density N alpha beta g x
  | DPearson6 a1 a2 beta g1 g2 => gen_DistPearson6_probability_density N a1 a2 beta g1 g2 x
  | DTriangular lo mode hi => gen_DistTriangular_probability_density N lo mode hi x
  | DUniform lo hi => gen_DistUniform_probability_density N lo hi x
  | DWeibull alpha beta => gen_DistWeibull_probability_density N alpha beta x
  | _ => Err Unmodelled
  end.

Definition gen_prob (d : dist F) (k : Z) : res F :=
  match d with
  | DBernoulli p => gen_DistBernoulli_probability N p k
  | DBinomial n p => gen_DistBinomial_probability N n p k
  | DDiscreteUniform lo hi => gen_DistDiscreteUniform_probability N lo hi k
  | DGeometric p lnp => gen_DistGeometric_probability N p lnp k
  | DNegBinomial s p lnp => gen_DistNegBinomial_probability N s p lnp k
  | DPoisson rate expl => gen_DistPoisson_probability N rate expl k
  | _ => Err Unmodelled
  end.

Definition gen_cdf (d : dist F) (x : F) : res F :=
  match d with
  | DNormal mu sigma => gen_DistNormal_cumulative_probability N mu sigma x
  | DLogNormal mu sigma c2 c2p => gen_DistLogNormal_cumulative_probability N mu sigma c2 c2p x
  | DNormalTrunc mu sigma lo hi cplo cpdiff fac => gen_DistNormalTrunc_cumulative_probability N mu sigma lo hi cplo cpdiff fac x
  | _ => Err Unmodelled
  end.

Definition gen_icdf (d : dist F) (y : F) : res F :=
  match d with
  | DNormal mu sigma => gen_DistNormal_inverse_cumulative_probability N mu sigma y
  | DLogNormal mu sigma c2 c2p => gen_DistLogNormal_inverse_cumulative_probability N mu sigma c2 c2p y
  | DNormalTrunc mu sigma lo hi cplo cpdiff fac =>
      gen_DistNormalTrunc_inverse_cumulative_probability N mu sigma lo hi cplo cpdiff fac y
  | _ => Err Unmodelled
  end.

Definition gen_call (d : dist F) (m : meth) (a : value F) : res F :=
  match m, a with
  | MPdf, VF x => gen_pdf d x
  | MProb, VI k => gen_prob d k
  | MCdf, VF x => gen_cdf d x
  | MInvCdf, VF y => gen_icdf d y
  | _, _ => Err Unmodelled
  end.

Theorem gen_pdf_eq : forall d x, gen_pdf d x = pdf N false d x.
Proof.
  intros d x. destruct d; try reflexivity; cbn [gen_pdf];
    first [ apply gen_DistBeta_probability_density_eq | apply gen_DistConstant_probability_density_eq
          | apply gen_DistErlang_probability_density_eq | apply gen_DistExponential_probability_density_eq
          | apply gen_DistGamma_probability_density_eq | apply gen_DistLogNormal_probability_density_eq
          | apply gen_DistNormal_probability_density_eq | apply gen_DistNormalTrunc_probability_density_eq
          | apply gen_DistPearson5_probability_density_eq | apply gen_DistPearson6_probability_density_eq
          | apply gen_DistTriangular_probability_density_eq | apply gen_DistUniform_probability_density_eq
          | apply gen_DistWeibull_probability_density_eq ].
Qed.

Theorem gen_prob_eq : forall d k, gen_prob d k = prob N d k.
Proof.
  intros d k. destruct d; try reflexivity; cbn [gen_prob];
    first [ apply gen_DistBernoulli_probability_eq | apply gen_DistBinomial_probability_eq
          | apply gen_DistDiscreteUniform_probability_eq | apply gen_DistGeometric_probability_eq
          | apply gen_DistNegBinomial_probability_eq | apply gen_DistPoisson_probability_eq ].
Qed.

Theorem gen_cdf_eq : forall d x, gen_cdf d x = cdf N d x.
Proof.
  intros d x. destruct d; try reflexivity; cbn [gen_cdf];
    first [ apply gen_DistNormal_cumulative_probability_eq | apply gen_DistLogNormal_cumulative_probability_eq
          | apply gen_DistNormalTrunc_cumulative_probability_eq ].
Qed.

Theorem gen_icdf_eq : forall d y, gen_icdf d y = icdf N d y.
Proof.
  intros d y. destruct d; try reflexivity; cbn [gen_icdf];
    first [ apply gen_DistNormal_inverse_cumulative_probability_eq | apply gen_DistLogNormal_inverse_cumulative_probability_eq
          | apply gen_DistNormalTrunc_inverse_cumulative_probability_eq ].
Qed.

Theorem gen_call_eq : forall d m a, gen_call d m a = call N false d m a.
Proof.
  intros d m a. destruct m, a; try reflexivity; cbn [gen_call call];
    first [apply gen_pdf_eq | apply gen_prob_eq | apply gen_cdf_eq | apply gen_icdf_eq].
Qed.

End Agree.

Arguments cache_of {N} st.
Arguments ms_view_c {N A} x.

(* draw_c and draw give the same result and the same rest of the stream output *)
Lemma draw_c_result : forall (N : num) pv d cache us,
  match draw N pv d cache us, draw_c N pv d cache us with
  | (Val (v, _), r), (Val v', _, r') => v = v' /\ r = r'
  | (Err e, r), (Err e', _, r') => e = e' /\ r = r'
  | _, _ => False
  end.
Proof.
  intros N pv d cache us.
  destruct d as [| | | | | | | | |mu sigma c2 c2p| | | | | | | | |]; unfold draw_c;
    try (destruct (draw N pv _ cache us) as [[[v cc]|e] r]; split; reflexivity).
  cbn [draw]. unfold bind, lift, ret.
  destruct (draw_normal N pv mu sigma cache us) as [[t|e] r]; [destruct (nexp N (fst t))|]; split; reflexivity.
Qed.

Lemma fv_val : forall (N : num) (m : M (T N) (T N)) (c : option (T N)) us v r,
  fv N m c us = (Val (VF v, c), r) -> m us = (Val v, r).
Proof.
  intros N m c us v r H. unfold fv, bind, ret in H. destruct (m us) as [[x|e] r']; inversion H. reflexivity.
Qed.

(* everything the C14 transfer needs, for every number structure *)
Theorem dist_draw_generated_agree : forall N : num,
  (forall c sok ps, gen_ctor N c sok ps = ctor N false c sok ps) /\
  (forall us, gen_Distribution__next_open_float N us = next_pos N us) /\
  (forall shape scale us, gen_DistGamma_draw N shape scale us = draw_gamma N false shape scale us) /\
  (forall d st us, dist_consistent N d ->
     draw_c N false d (cache_of st) us = ms_view_c (gen_draw_c N d st us)) /\
  (forall c sok ps d, ctor N false c sok ps = Val d -> dist_consistent N d) /\
  (forall sok mu sigma d st,
     gen_DistNormal___init__ N sok mu sigma = Val (d, st) \/ gen_DistLogNormal___init__ N sok mu sigma = Val (d, st) ->
     cache_of st = None).
Proof.
  intro N. repeat split.
  - apply gen_ctor_eq.
  - apply gen_Distribution__next_open_float_eq.
  - apply gen_DistGamma_draw_eq.
  - intros. apply gen_draw_c_eq. assumption.
  - apply ctor_consistent.
  - apply gen_normal_init_no_cache.
Qed.

(* everything the C15 transfer needs *)
Theorem dist_density_generated_agree : forall N : num,
  (forall c sok ps, gen_ctor N c sok ps = ctor N false c sok ps) /\
  (forall d x, gen_pdf N d x = pdf N false d x) /\
  (forall d k, gen_prob N d k = prob N d k) /\
  (forall d x, gen_cdf N d x = cdf N d x) /\
  (forall d y, gen_icdf N d y = icdf N d y) /\
  (forall d m a, gen_call N d m a = call N false d m a).
Proof.
  intro N. repeat split; [apply gen_ctor_eq | apply gen_pdf_eq | apply gen_prob_eq | apply gen_cdf_eq | apply gen_icdf_eq
                         | apply gen_call_eq].
Qed.
