(* C14 / C15 -- the model regenerated from the source IS the proved model.

   Dist/Gen_Dist.v is written by translator/py2gallina_dist.py from the text of
   src/pydsol/core/distributions.py of the tree under test (constructors, draw
   methods with their helper methods and loops, density / probability / cdf /
   inverse cdf functions of the 19 classes; Python's `ast`, fail-closed).
   This file proves, for every translated method, that the generated definition
   equals the hand-written model function of Dist/Draw.v / Dist/Density.v (the
   repaired variant, pv = false, tv = false) -- for ALL parameters, stream
   outputs and arguments and for EVERY instance of the arithmetic record [num]
   with its libm oracle fields (so also for the executed binary64 one), by
   unfolding both sides, case analysis on the results of the operations and
   induction on the fuel of the loops; no arithmetic fact is used.

   Where the source keeps more than the model record:
   - DistErlang tests  self._k < 10  where the model tests whether the inner
     gamma distribution exists: equal for every instance in which the two agree
     ([erlang_consistent]; every instance the constructor builds is one);
   - DistNormal keeps (_have_saved_gaussian, _saved_gaussian), the model an
     option ([cache_of]).

   Every theorem of Props/C14.v and Props/C15.v is about the hand-written
   functions, hence -- by rewriting with the equalities below -- about the
   current source text.  The file is compiled against the generated file on
   every run of the checks; when a change of distributions.py makes an equality
   false, it no longer compiles and the check reports the broken tie. *)
From Coq Require Import ZArith List Bool Lia.
From PV Require Import Dist.Num Dist.Draw Dist.Density.
From PV Require Import Dist.Gen_Dist.
Import ListNotations.

(* case analysis on the innermost scrutinee of a match / if, until none is left *)
Ltac brk_step :=
  match goal with
  | |- context [match ?x with _ => _ end] =>
    lazymatch x with
    | context [match _ with _ => _ end] => fail
    | _ => destruct x eqn:?
    end
  end.
Ltac nrm := cbv beta iota zeta.
Ltac brk := nrm; repeat (brk_step; nrm); try reflexivity.
Ltac unm := unfold fv, iv, nextp in *; unfold bind, lift, ret, rbind, rmap, with_fuel, bindMS, bindSS, retS, failS in *.

Section Agree.
Variable N : num.
Notation F := (T N).

(* ====================================================================== *)
(* constructors                                                            *)
(* ====================================================================== *)
Ltac ctor_eq :=
  intros; cbv beta iota zeta delta [ctor gamma_checks pos_ok lt_ok le_ok prob_ok in01 in01o p_gt0 p_le0 zero one two half
                                    c1em6 cum_prob_nt py_value gamma_of rbind];
  repeat match goal with p : param _ |- _ => destruct p end;
  repeat match goal with b : bool |- _ => destruct b end;
  cbv beta iota zeta delta [check is_num is_float is_int p_float p_int p_lt p_le p_eq negb andb];
  try reflexivity.

Theorem gen_DistGamma___init___eq : forall sok shape scale,
  gen_DistGamma___init__ N sok shape scale = ctor N false CGamma sok [shape; scale].
Proof. unfold gen_DistGamma___init__. ctor_eq; brk. Qed.

Theorem gen_DistBernoulli___init___eq : forall sok p,
  gen_DistBernoulli___init__ N sok p = ctor N false CBernoulli sok [p].
Proof. unfold gen_DistBernoulli___init__. ctor_eq; brk. Qed.

Theorem gen_DistBinomial___init___eq : forall sok n p,
  gen_DistBinomial___init__ N sok n p = ctor N false CBinomial sok [n; p].
Proof. unfold gen_DistBinomial___init__. ctor_eq; brk. Qed.

Theorem gen_DistConstant___init___eq : forall sok c,
  gen_DistConstant___init__ N sok c = ctor N false CConstant sok [c].
Proof. unfold gen_DistConstant___init__. ctor_eq; brk. Qed.

Theorem gen_DistDiscreteUniform___init___eq : forall sok lo hi,
  gen_DistDiscreteUniform___init__ N sok lo hi = ctor N false CDiscreteUniform sok [lo; hi].
Proof. unfold gen_DistDiscreteUniform___init__. ctor_eq; brk. Qed.

Theorem gen_DistExponential___init___eq : forall sok mean,
  gen_DistExponential___init__ N sok mean = ctor N false CExponential sok [mean].
Proof. unfold gen_DistExponential___init__. ctor_eq; brk. Qed.

Theorem gen_DistGeometric___init___eq : forall sok p,
  gen_DistGeometric___init__ N sok p = ctor N false CGeometric sok [p].
Proof. unfold gen_DistGeometric___init__. ctor_eq; brk. Qed.

Theorem gen_DistNegBinomial___init___eq : forall sok s p,
  gen_DistNegBinomial___init__ N sok s p = ctor N false CNegBinomial sok [s; p].
Proof. unfold gen_DistNegBinomial___init__. ctor_eq; brk. Qed.

Theorem gen_DistPoisson___init___eq : forall sok rate,
  gen_DistPoisson___init__ N sok rate = ctor N false CPoisson sok [rate].
Proof. unfold gen_DistPoisson___init__. ctor_eq; brk. Qed.

Theorem gen_DistTriangular___init___eq : forall sok lo mode hi,
  gen_DistTriangular___init__ N sok lo mode hi = ctor N false CTriangular sok [lo; mode; hi].
Proof. unfold gen_DistTriangular___init__. ctor_eq; brk. Qed.

Theorem gen_DistUniform___init___eq : forall sok lo hi,
  gen_DistUniform___init__ N sok lo hi = ctor N false CUniform sok [lo; hi].
Proof. unfold gen_DistUniform___init__. ctor_eq; brk. Qed.

Theorem gen_DistWeibull___init___eq : forall sok alpha beta,
  gen_DistWeibull___init__ N sok alpha beta = ctor N false CWeibull sok [alpha; beta].
Proof. unfold gen_DistWeibull___init__. ctor_eq; brk. Qed.

Theorem gen_DistErlang___init___eq : forall sok scale k,
  gen_DistErlang___init__ N sok scale k = ctor N false CErlang sok [scale; k].
Proof.
  intros. unfold gen_DistErlang___init__. rewrite !gen_DistGamma___init___eq. ctor_eq; brk.
Qed.

Theorem gen_DistBeta___init___eq : forall sok a1 a2,
  gen_DistBeta___init__ N sok a1 a2 = ctor N false CBeta sok [a1; a2].
Proof.
  intros. unfold gen_DistBeta___init__. rewrite !gen_DistGamma___init___eq. ctor_eq; brk.
Qed.

Ltac cnrm :=
  cbv beta iota zeta delta [ctor gamma_checks pos_ok lt_ok le_ok prob_ok in01 in01o p_gt0 p_le0 zero one two half
                            c1em6 cum_prob_nt py_value gamma_of rbind check is_num is_float is_int p_float p_int
                            p_lt p_le p_eq negb andb].
Ltac cgo := cnrm; repeat (first [rewrite gen_DistGamma___init___eq | brk_step]; cnrm); try reflexivity; try congruence.

Theorem gen_DistPearson5___init___eq : forall sok alpha beta,
  gen_DistPearson5___init__ N sok alpha beta = ctor N false CPearson5 sok [alpha; beta].
Proof.
  intros. unfold gen_DistPearson5___init__. destruct sok, alpha, beta; cgo.
Qed.

Theorem gen_DistPearson6___init___eq : forall sok a1 a2 beta,
  gen_DistPearson6___init__ N sok a1 a2 beta = ctor N false CPearson6 sok [a1; a2; beta].
Proof.
  intros. unfold gen_DistPearson6___init__. rewrite !gen_DistGamma___init___eq. ctor_eq; brk.
Qed.

(* the cached gaussian of the model: Some x iff _have_saved_gaussian, x = _saved_gaussian *)
Definition cache_of (st : bool * F) : option F := if fst st then Some (snd st) else None.

Theorem gen_DistNormal___init___eq : forall sok mu sigma,
  gen_DistNormal___init__ N sok mu sigma =
  rmap (fun d => (d, (false, zero N))) (ctor N false CNormal sok [mu; sigma]).
Proof. unfold gen_DistNormal___init__. ctor_eq; brk. Qed.

Theorem gen_DistLogNormal___init___eq : forall sok mu sigma,
  gen_DistLogNormal___init__ N sok mu sigma =
  rmap (fun d => (d, (false, zero N))) (ctor N false CLogNormal sok [mu; sigma]).
Proof. unfold gen_DistLogNormal___init__. ctor_eq; brk. Qed.

Theorem gen_DistNormalTrunc_cumulative_probability_not_truncated_eq : forall mu sigma x,
  gen_DistNormalTrunc_cumulative_probability_not_truncated N mu sigma x = cum_prob_nt N mu sigma x.
Proof. intros. unfold gen_DistNormalTrunc_cumulative_probability_not_truncated, cum_prob_nt, rbind, two, half. brk. Qed.

Theorem gen_DistNormalTrunc___init___eq : forall sok mu sigma lo hi,
  gen_DistNormalTrunc___init__ N sok mu sigma lo hi = ctor N false CNormalTrunc sok [mu; sigma; lo; hi].
Proof.
  intros. unfold gen_DistNormalTrunc___init__.
  rewrite !gen_DistNormalTrunc_cumulative_probability_not_truncated_eq.
  cbv beta iota zeta delta [ctor pos_ok lt_ok p_gt0 zero one c1em6 rbind].
  destruct sok, mu, sigma, lo, hi;
    cbv beta iota zeta delta [check is_num p_float p_lt negb]; try reflexivity; brk.
Qed.

(* ====================================================================== *)
(* Distribution._next_open_float                                           *)
(* ====================================================================== *)
Lemma gen_nof_loop_eq : forall us fuel u, (length us < fuel)%nat ->
  gen_Distribution__next_open_float_loop1 N fuel u us =
  if eqb N u (ofZ N 0) then next_pos N us else (Val u, us).
Proof.
  induction us as [|a r IH]; intros fuel u H; (destruct fuel; [simpl in H; lia|]); simpl;
    destruct (eqb N u (ofZ N 0)) eqn:E; try reflexivity.
  unm. simpl. rewrite IH by (simpl in H; lia). reflexivity.
Qed.

Theorem gen_Distribution__next_open_float_eq : forall us,
  gen_Distribution__next_open_float N us = next_pos N us.
Proof.
  intros [|u r]; unfold gen_Distribution__next_open_float, bind, next, with_fuel; cbv beta iota; [reflexivity|].
  rewrite gen_nof_loop_eq by (simpl; lia). reflexivity.
Qed.

(* one step of a draw proof: expose the next stream read, rewrite it, split on it *)
Ltac dstep := first [rewrite gen_Distribution__next_open_float_eq | brk_step]; nrm.
Ltac dgo := nrm; repeat dstep; try reflexivity.

(* ====================================================================== *)
(* draw, loop-free classes                                                 *)
(* ====================================================================== *)
Theorem gen_DistBernoulli_draw_eq : forall p cache us,
  draw N false (DBernoulli p) cache us = iv N (gen_DistBernoulli_draw N p) cache us.
Proof. intros. cbn [draw]. unfold gen_DistBernoulli_draw. unm. dgo. Qed.

Theorem gen_DistConstant_draw_eq : forall c cache us,
  draw N false (DConstant c) cache us = (x <- gen_DistConstant_draw N c ;; ret (x, cache))%m us.
Proof. intros. cbn [draw]. unfold gen_DistConstant_draw. unm. dgo. Qed.

Theorem gen_DistDiscreteUniform_draw_eq : forall lo hi cache us,
  draw N false (DDiscreteUniform lo hi) cache us = iv N (gen_DistDiscreteUniform_draw N lo hi) cache us.
Proof. intros. cbn [draw]. unfold gen_DistDiscreteUniform_draw. unm. dgo. Qed.

Theorem gen_DistExponential_draw_eq : forall mean cache us,
  draw N false (DExponential mean) cache us = fv N (gen_DistExponential_draw N mean) cache us.
Proof. intros. cbn [draw]. unfold gen_DistExponential_draw. unm. dgo. Qed.

Theorem gen_DistGeometric_draw_eq : forall p lnp cache us,
  draw N false (DGeometric p lnp) cache us = iv N (gen_DistGeometric_draw N p lnp) cache us.
Proof. intros. cbn [draw]. unfold gen_DistGeometric_draw, geometric_once. unm. dgo. Qed.

Theorem gen_DistTriangular_draw_eq : forall lo mode hi cache us,
  draw N false (DTriangular lo mode hi) cache us = fv N (gen_DistTriangular_draw N lo mode hi) cache us.
Proof. intros. cbn [draw]. unfold gen_DistTriangular_draw, draw_triangular, one. unm. dgo. Qed.

Theorem gen_DistUniform_draw_eq : forall lo hi cache us,
  draw N false (DUniform lo hi) cache us = fv N (gen_DistUniform_draw N lo hi) cache us.
Proof. intros. cbn [draw]. unfold gen_DistUniform_draw. unm. dgo. Qed.

Theorem gen_DistWeibull_draw_eq : forall alpha beta cache us,
  draw N false (DWeibull alpha beta) cache us = fv N (gen_DistWeibull_draw N alpha beta) cache us.
Proof. intros. cbn [draw]. unfold gen_DistWeibull_draw, one. unm. dgo. Qed.

(* ====================================================================== *)
(* draw, classes with loops                                                *)
(* ====================================================================== *)
Ltac unc := unfold zero, one, two, four, half, c4_5, c1em6 in *.

Lemma gen_DistGamma_draw_loop1_eq : forall cnt shape scale b us,
  gen_DistGamma_draw_loop1 N cnt shape scale b us = gamma_lt1 N cnt shape scale b us.
Proof.
  induction cnt as [|c IH]; intros; [reflexivity|].
  cbn [gen_DistGamma_draw_loop1 gamma_lt1]. unc. unm. dgo; apply IH.
Qed.

Lemma gen_DistGamma_draw_loop2_eq : forall cnt shape scale a b q d us,
  gen_DistGamma_draw_loop2 N cnt shape scale a b q d us = gamma_gt1 N false cnt shape scale a b q d us.
Proof.
  induction cnt as [|c IH]; intros; [reflexivity|].
  cbn [gen_DistGamma_draw_loop2 gamma_gt1]. unc. unm. dgo; apply IH.
Qed.

Theorem gen_DistGamma_draw_eq : forall shape scale us,
  gen_DistGamma_draw N shape scale us = draw_gamma N false shape scale us.
Proof.
  intros. unfold gen_DistGamma_draw, draw_gamma. generalize 1000%nat as tries. intros tries. unc. unm.
  dgo; first [apply gen_DistGamma_draw_loop1_eq | apply gen_DistGamma_draw_loop2_eq].
Qed.

Lemma gen_DistBinomial_draw_loop1_eq : forall cnt n p x us,
  gen_DistBinomial_draw_loop1 N cnt n p x us = count_successes N cnt p x us.
Proof.
  induction cnt as [|c IH]; intros; [reflexivity|].
  cbn [gen_DistBinomial_draw_loop1 count_successes]. unm. dgo; apply IH.
Qed.

Theorem gen_DistBinomial_draw_eq : forall n p cache us,
  draw N false (DBinomial n p) cache us = iv N (gen_DistBinomial_draw N n p) cache us.
Proof.
  intros. cbn [draw]. unfold gen_DistBinomial_draw, iv, bind.
  rewrite gen_DistBinomial_draw_loop1_eq. reflexivity.
Qed.

Lemma gen_DistNegBinomial_draw_loop1_eq : forall cnt s p lnp x us,
  gen_DistNegBinomial_draw_loop1 N cnt s p lnp x us = sum_geometrics N false cnt lnp x us.
Proof.
  induction cnt as [|c IH]; intros; [reflexivity|].
  cbn [gen_DistNegBinomial_draw_loop1 sum_geometrics]. unfold geometric_once. unm. dgo; apply IH.
Qed.

Theorem gen_DistNegBinomial_draw_eq : forall s p lnp cache us,
  draw N false (DNegBinomial s p lnp) cache us = iv N (gen_DistNegBinomial_draw N s p lnp) cache us.
Proof.
  intros. cbn [draw]. unfold gen_DistNegBinomial_draw, iv, bind.
  rewrite gen_DistNegBinomial_draw_loop1_eq. reflexivity.
Qed.

Lemma gen_DistPoisson_draw_loop1_eq : forall us fuel rate expl s x, (length us < fuel)%nat ->
  gen_DistPoisson_draw_loop1 N fuel rate expl s x us = poisson_loop N expl s x us.
Proof.
  induction us as [|u r IH]; intros fuel rate expl s x H; (destruct fuel; [simpl in H; lia|]);
    cbn [gen_DistPoisson_draw_loop1 poisson_loop]; unm; cbn [next]; nrm; [reflexivity|].
  destruct (leb N (mul N s u) expl); [reflexivity|]. apply IH. simpl in H. lia.
Qed.

Theorem gen_DistPoisson_draw_eq : forall rate expl cache us,
  draw N false (DPoisson rate expl) cache us = iv N (gen_DistPoisson_draw N rate expl) cache us.
Proof.
  intros. cbn [draw]. unfold gen_DistPoisson_draw, iv, bind, with_fuel.
  rewrite gen_DistPoisson_draw_loop1_eq by lia. reflexivity.
Qed.

(* DistErlang: the source tests k < 10, the model whether the inner gamma exists *)
Definition erlang_consistent (k : Z) (g : option (F * F)) : Prop :=
  if (k <? 10)%Z then g = None else g <> None.

Lemma gen_DistErlang_draw_loop1_eq : forall cnt scale k lam g acc us,
  gen_DistErlang_draw_loop1 N cnt scale k lam g acc us =
  (p <- prod_uniforms N false cnt acc ;; l <- lift (nlog N p) ;; ret (mul N (neg N scale) l))%m us.
Proof.
  induction cnt as [|c IH]; intros; [reflexivity|].
  cbn [gen_DistErlang_draw_loop1 prod_uniforms]. unm.
  rewrite gen_Distribution__next_open_float_eq. destruct (next_pos N us) as [[u|e] r]; nrm; [|reflexivity].
  rewrite IH. unm. reflexivity.
Qed.

Theorem gen_DistErlang_draw_eq : forall scale k lam g cache us, erlang_consistent k g ->
  draw N false (DErlang scale k lam g) cache us = fv N (gen_DistErlang_draw N scale k lam g) cache us.
Proof.
  intros scale k lam g cache us H. cbn [draw]. unfold gen_DistErlang_draw, erlang_consistent in *.
  destruct (k <? 10)%Z.
  - subst g. unfold fv, bind. rewrite gen_DistErlang_draw_loop1_eq. unc. unm. brk.
  - destruct g as [gp|]; [|congruence]. unfold fv, bind. rewrite gen_DistGamma_draw_eq. unm. brk.
Qed.

Theorem gen_DistBeta_draw_eq : forall a1 a2 g1 g2 cache us,
  draw N false (DBeta a1 a2 g1 g2) cache us = fv N (gen_DistBeta_draw N a1 a2 g1 g2) cache us.
Proof.
  intros. cbn [draw]. unfold gen_DistBeta_draw, fv, bind. rewrite gen_DistGamma_draw_eq.
  destruct (draw_gamma N false (fst g1) (snd g1) us) as [[y1|e] r]; nrm; [|reflexivity].
  rewrite gen_DistGamma_draw_eq. unm. brk.
Qed.

Theorem gen_DistPearson5_draw_eq : forall alpha beta g cache us,
  draw N false (DPearson5 alpha beta g) cache us = fv N (gen_DistPearson5_draw N alpha beta g) cache us.
Proof.
  intros. cbn [draw]. unfold gen_DistPearson5_draw, fv, bind. rewrite gen_DistGamma_draw_eq. unc. unm. brk.
Qed.

Theorem gen_DistPearson6_draw_eq : forall a1 a2 beta g1 g2 cache us,
  draw N false (DPearson6 a1 a2 beta g1 g2) cache us = fv N (gen_DistPearson6_draw N a1 a2 beta g1 g2) cache us.
Proof.
  intros. cbn [draw]. unfold gen_DistPearson6_draw, fv, bind. rewrite gen_DistGamma_draw_eq.
  destruct (draw_gamma N false (fst g1) (snd g1) us) as [[y1|e] r]; nrm; [|reflexivity].
  rewrite gen_DistGamma_draw_eq. unm. brk.
Qed.

Theorem gen_DistNormalTrunc_inverse_cumulative_probability_not_truncated_eq : forall mu sigma y,
  gen_DistNormalTrunc_inverse_cumulative_probability_not_truncated N mu sigma y = normal_icdf N mu sigma y.
Proof. intros. unfold gen_DistNormalTrunc_inverse_cumulative_probability_not_truncated, normal_icdf, rbind. unc. brk. Qed.

Theorem gen_DistNormalTrunc_draw_eq : forall mu sigma lo hi cplo cpdiff fac cache us,
  draw N false (DNormalTrunc mu sigma lo hi cplo cpdiff fac) cache us =
  fv N (gen_DistNormalTrunc_draw N mu sigma lo hi cplo cpdiff fac) cache us.
Proof.
  intros. cbn [draw]. unfold gen_DistNormalTrunc_draw, draw_normaltrunc, nt_clamp.
  unfold gen_DistNormalTrunc_inverse_cumulative_probability_not_truncated. unc. unm. dgo.
Qed.

End Agree.
