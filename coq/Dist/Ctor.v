(* C14, constructor part, over the real-number instance: the chain of isinstance
   and range checks of every __init__ (repaired variant) accepts exactly the
   documented parameter domain [dom], what it stores satisfies [wf] (the
   hypothesis of the support theorem), it never raises anything but TypeError /
   ValueError, and a non-stream is always refused.  NaN parameters do not exist
   over the reals: their rejection is shown on the PrimFloat instance in
   Dist/Refuted.v. *)
From Coq Require Import Reals Lra Lia ZArith List Bool.
From PV Require Import Dist.Num Dist.Draw Dist.NumR Dist.Support.
Import ListNotations.
Local Open Scope R_scope.

Section Ctor.
Variables erf erfinv gammaf lgammaf : R -> R.
Notation NR := (numR erf erfinv gammaf lgammaf).

Ltac nr := cbn [T ofZ ofD cE cPi add sub mul neg nabs div ltb leb eqb isinf nsqrt nlog nexp nerf
                nerfinv ngamma nlgamma npow npowop nfloor numR zero one two four half c4_5] in *.

Definition pf (p : param R) : R := p_float NR p.

(* the non-truncated normal cdf as the constructor computes it *)
Definition Phi (mu sigma x : R) : R := / 2 + / 2 * erf ((x - mu) / (sqrt 2 * sigma)).

Definition nums (ps : list (param R)) : Prop := Forall (fun p => is_num NR p = true) ps.

(* the documented parameter domain (Parameters / Raises sections of the docstrings) *)
Definition dom (c : cls) (ps : list (param R)) : Prop :=
  match c, ps with
  | CBernoulli, [PF p] => 0 <= p <= 1
  | CBeta, [a1; a2] => nums ps /\ 0 < pf a1 /\ 0 < pf a2
  | CBinomial, [PI n; PF p] => (0 < n)%Z /\ 0 <= p <= 1
  | CConstant, [k] => nums ps
  | CDiscreteUniform, [PI lo; PI hi] => (lo < hi)%Z
  | CErlang, [scale; PI k] => nums ps /\ 0 < pf scale /\ (0 < k)%Z
  | CExponential, [mean] => nums ps /\ 0 < pf mean
  | CGamma, [shape; scale] => nums ps /\ 0 < pf shape /\ 0 < pf scale
  | CGeometric, [PF p] => 0 < p < 1
  | CLogNormal, [mu; sigma] => nums ps /\ 0 < pf sigma
  | CNegBinomial, [PI s; PF p] => (0 < s)%Z /\ 0 < p < 1
  | CNormal, [mu; sigma] => nums ps /\ 0 < pf sigma
  | CNormalTrunc, [mu; sigma; lo; hi] =>
      nums ps /\ 0 < pf sigma /\ pf lo < pf hi /\
      c1em6 NR <= Phi (pf mu) (pf sigma) (pf hi) - Phi (pf mu) (pf sigma) (pf lo)
  | CPearson5, [alpha; beta] => nums ps /\ 0 < pf alpha /\ 0 < pf beta
  | CPearson6, [a1; a2; beta] => nums ps /\ 0 < pf a1 /\ 0 < pf a2 /\ 0 < pf beta
  | CPoisson, [rate] => nums ps /\ 0 < pf rate
  | CTriangular, [lo; mode; hi] => nums ps /\ pf lo <= pf mode <= pf hi /\ pf lo <> pf hi
  | CUniform, [lo; hi] => nums ps /\ pf lo < pf hi
  | CWeibull, [alpha; beta] => nums ps /\ 0 < pf alpha /\ 0 < pf beta
  | _, _ => False
  end.

(* ---- reflection of the boolean checks ---- *)
Lemma pos_ok_iff : forall p, is_num NR p = true -> (pos_ok NR false p = true <-> 0 < pf p).
Proof.
  intros [x|z|] H; try discriminate; unfold pos_ok, p_gt0, pf, p_float; nr.
  - apply Rltb_true.
  - rewrite Z.ltb_lt. split; intros K; [apply (IZR_lt 0); assumption|apply lt_IZR; assumption].
Qed.

Lemma int_pos_iff : forall z, negb (p_le0 NR (PI z)) = true <-> (0 < z)%Z.
Proof. intros. simpl. rewrite negb_true_iff, Z.leb_gt. tauto. Qed.

Lemma p_lt_iff : forall a b, is_num NR a = true -> is_num NR b = true -> (p_lt NR a b = true <-> pf a < pf b).
Proof.
  intros [x|z|] [y|w|] Ha Hb; try discriminate; unfold p_lt, pf, p_float; nr; try apply Rltb_true.
  rewrite Z.ltb_lt. split; [apply IZR_lt|apply lt_IZR].
Qed.

Lemma p_le_iff : forall a b, is_num NR a = true -> is_num NR b = true -> (p_le NR a b = true <-> pf a <= pf b).
Proof.
  intros [x|z|] [y|w|] Ha Hb; try discriminate; unfold p_le, pf, p_float; nr; try apply Rleb_true.
  rewrite Z.leb_le. split; [apply IZR_le|apply le_IZR].
Qed.

Lemma p_eq_iff : forall a b, is_num NR a = true -> is_num NR b = true -> (p_eq NR a b = true <-> pf a = pf b).
Proof.
  intros [x|z|] [y|w|] Ha Hb; try discriminate; unfold p_eq, pf, p_float; nr; try apply Reqb_true.
  rewrite Z.eqb_eq. split; [intros ->; reflexivity|apply eq_IZR].
Qed.

Lemma in01_iff : forall x, in01 NR x = true <-> 0 <= x <= 1.
Proof. intros. unfold in01. nr. rewrite andb_true_iff, !Rleb_true. tauto. Qed.

Lemma in01o_iff : forall x, in01o NR x = true <-> 0 < x < 1.
Proof. intros. unfold in01o. nr. rewrite andb_true_iff, !Rltb_true. tauto. Qed.

Lemma c1em6_pos : 0 < c1em6 NR.
Proof.
  unfold c1em6. nr. apply Rmult_lt_0_compat; [apply (IZR_lt 0); lia|apply powerRZ_lt; lra].
Qed.

Lemma sqrt2_pos : 0 < sqrt 2.
Proof. apply sqrt_lt_R0. lra. Qed.

Lemma cum_prob_nt_val : forall mu sigma x, 0 < sigma ->
  cum_prob_nt NR mu sigma x = Val (Phi mu sigma x).
Proof.
  intros mu sigma x Hs. unfold cum_prob_nt, Phi. nr. pose proof sqrt2_pos.
  rewrite r_sqrt_val by lra. simpl. rewrite r_div_val by nra. simpl.
  unfold half. nr. simpl. f_equal. field.
Qed.

Lemma gamma_checks_val : forall shape scale, 0 < shape -> 0 < scale ->
  gamma_checks NR false (PF shape) (PF scale) = Val (shape, scale).
Proof.
  intros. unfold gamma_checks, pos_ok, p_gt0, check. simpl. nr.
  rewrite (proj2 (Rltb_true 0 shape)), (proj2 (Rltb_true 0 scale)) by assumption. reflexivity.
Qed.

Lemma gamma_checks_num : forall shape scale, is_num NR shape = true -> is_num NR scale = true ->
  0 < pf shape -> 0 < pf scale ->
  gamma_checks NR false shape scale = Val (pf shape, pf scale).
Proof.
  intros shape scale N1 N2 H1 H2. unfold gamma_checks.
  rewrite N1, N2, (proj2 (pos_ok_iff shape N1) H1), (proj2 (pos_ok_iff scale N2) H2). reflexivity.
Qed.

(* ---- accepted => in the documented domain, and what is stored is well formed ---- *)
Ltac chk H :=
  match type of H with
  | rbind (check ?b ?e) _ = Val _ =>
      let E := fresh "E" in destruct b eqn:E; [cbn [check rbind] in H|discriminate H]
  | rbind ?r _ = Val _ =>
      let E := fresh "E" in let x := fresh "x" in destruct r as [x|] eqn:E; [cbn [rbind] in H|discriminate H]
  | (if ?b then _ else _) = Val _ => let E := fresh "E" in destruct b eqn:E
  end.

Lemma nums1 : forall a, is_num NR a = true -> nums [a].
Proof. intros. repeat constructor; assumption. Qed.
Lemma nums2 : forall a b, is_num NR a = true -> is_num NR b = true -> nums [a; b].
Proof. intros. repeat constructor; assumption. Qed.
Lemma nums3 : forall a b c, is_num NR a = true -> is_num NR b = true -> is_num NR c = true -> nums [a; b; c].
Proof. intros. repeat constructor; assumption. Qed.
Lemma nums4 : forall a b c d, is_num NR a = true -> is_num NR b = true -> is_num NR c = true ->
  is_num NR d = true -> nums [a; b; c; d].
Proof. intros. repeat constructor; assumption. Qed.

Lemma is_float_num : forall p, is_float NR p = true -> exists x, p = PF x.
Proof. intros [x|z|] H; try discriminate. exists x; reflexivity. Qed.
Lemma is_int_num : forall p, is_int NR p = true -> exists z, p = PI z.
Proof. intros [x|z|] H; try discriminate. exists z; reflexivity. Qed.

Lemma gamma_checks_sound : forall a b g, gamma_checks NR false a b = Val g ->
  is_num NR a = true /\ is_num NR b = true /\ 0 < pf a /\ 0 < pf b /\ g = (pf a, pf b).
Proof.
  intros a b g H. unfold gamma_checks in H. repeat chk H. inversion H; subst.
  repeat split; try assumption; apply pos_ok_iff; assumption.
Qed.

Theorem ctor_sound : forall c sok ps d,
  ctor NR false c sok ps = Val d -> sok = true /\ dom c ps /\ wf d.
Proof.
  intros c sok ps d H.
  destruct c; destruct ps as [|p1 [|p2 [|p3 [|p4 [|p5 ps]]]]]; try discriminate H;
    unfold ctor in H; repeat chk H.
  - (* Bernoulli *)
    destruct (is_float_num _ E0) as [xv ->]. inversion H; subst. apply in01_iff in E1. simpl in E1.
    simpl. auto.
  - (* Beta *)
    apply gamma_checks_sound in E4, E5. destruct E4 as [_ [_ [A1 [A2 ->]]]]. destruct E5 as [_ [_ [B1 [B2 ->]]]].
    inversion H; subst.
    apply pos_ok_iff in E1, E2; try assumption.
    split; [reflexivity|]. split; [split; [apply nums2; assumption|auto]|]. simpl. unfold gamma_ok. simpl. auto.
  - (* Binomial *)
    destruct (is_float_num _ E0) as [xv ->]. destruct (is_int_num _ E1) as [n ->]. inversion H; subst.
    apply in01_iff in E2. apply int_pos_iff in E3. simpl in *. auto.
  - (* Constant *)
    inversion H; subst. split; [reflexivity|]. split; [apply nums1; assumption|exact I].
  - (* DiscreteUniform *)
    destruct (is_int_num _ E0) as [lo ->]. destruct (is_int_num _ E1) as [hi ->]. inversion H; subst.
    simpl in E2. rewrite negb_true_iff, Z.leb_gt in E2. simpl. auto.
  - (* Erlang, k < 10 *)
    destruct (is_int_num _ E0) as [k ->]. inversion H; subst. apply int_pos_iff in E2.
    apply pos_ok_iff in E1; [|assumption].
    split; [reflexivity|]. split; [split; [apply nums2; [assumption|reflexivity]|auto]|]. simpl. auto.
  - (* Erlang, k >= 10 *)
    destruct (is_int_num _ E0) as [k ->]. apply gamma_checks_sound in E6. destruct E6 as [_ [_ [A1 [A2 ->]]]].
    inversion H; subst. apply int_pos_iff in E2. apply pos_ok_iff in E1; [|assumption].
    split; [reflexivity|]. split; [split; [apply nums2; [assumption|reflexivity]|auto]|].
    simpl. unfold gamma_ok. simpl. repeat split; auto.
    apply Z.ltb_ge in E5. simpl in E5. unfold pf, p_float; nr. apply (IZR_lt 1). lia.
  - (* Exponential *)
    inversion H; subst. apply pos_ok_iff in E1; [|assumption].
    split; [reflexivity|]. split; [split; [apply nums1; assumption|assumption]|assumption].
  - (* Gamma *)
    apply gamma_checks_sound in E0. destruct E0 as [N1 [N2 [A1 [A2 ->]]]]. inversion H; subst.
    split; [reflexivity|]. split; [split; [apply nums2; assumption|auto]|]. simpl. auto.
  - (* Geometric *)
    destruct (is_float_num _ E0) as [xv ->]. inversion H; subst. apply in01o_iff in E1. simpl in E1.
    split; [reflexivity|]. split; [exact E1|]. simpl. split; [exact E1|].
    simpl in E2. unfold r_log in E2. unfold one in E2; nr. destruct (Rlt_dec 0 (1 - xv)); inversion E2. reflexivity.
  - (* LogNormal *)
    inversion H; subst. apply pos_ok_iff in E2; [|assumption].
    split; [reflexivity|]. split; [split; [apply nums2; assumption|assumption]|assumption].
  - (* NegBinomial *)
    destruct (is_float_num _ E0) as [xv ->]. destruct (is_int_num _ E1) as [n ->]. inversion H; subst.
    apply in01o_iff in E2. apply int_pos_iff in E3. simpl in E2.
    split; [reflexivity|]. split; [simpl; auto|]. simpl. repeat split; try tauto.
    simpl in E4. unfold r_log in E4. unfold one in E4; nr. destruct (Rlt_dec 0 (1 - xv)); inversion E4. reflexivity.
  - (* Normal *)
    inversion H; subst. apply pos_ok_iff in E2; [|assumption].
    split; [reflexivity|]. split; [split; [apply nums2; assumption|assumption]|assumption].
  - (* NormalTrunc *)
    inversion H; subst. apply pos_ok_iff in E4; [|assumption].
    unfold lt_ok in E5. apply p_lt_iff in E5; try assumption.
    rewrite !cum_prob_nt_val in E6, E7 by assumption. inversion E6; inversion E7; subst. nr.
    apply Rleb_true in E8.
    split; [reflexivity|]. split; [split; [apply nums4; assumption|auto]|]. simpl. auto.
  - (* Pearson5 *)
    apply gamma_checks_sound in E5. destruct E5 as [_ [_ [A1 [A2 ->]]]]. inversion H; subst.
    apply pos_ok_iff in E1, E2; try assumption.
    split; [reflexivity|]. split; [split; [apply nums2; assumption|auto]|]. simpl. unfold gamma_ok. simpl. auto.
  - (* Pearson6 *)
    apply gamma_checks_sound in E6, E7. destruct E6 as [_ [_ [A1 [A2 ->]]]]. destruct E7 as [_ [_ [B1 [B2 ->]]]].
    inversion H; subst. apply pos_ok_iff in E2, E3, E4; try assumption.
    split; [reflexivity|]. split; [split; [apply nums3; assumption|auto]|]. simpl. unfold gamma_ok. simpl. auto.
  - (* Poisson *)
    inversion H; subst. apply pos_ok_iff in E1; [|assumption].
    split; [reflexivity|]. split; [split; [apply nums1; assumption|assumption]|]. simpl. split; [assumption|].
    inversion E2. reflexivity.
  - (* Triangular *)
    inversion H; subst. unfold le_ok in E3, E4. apply p_le_iff in E3, E4; try assumption.
    rewrite negb_true_iff in E5.
    assert (NE : pf p1 <> pf p3).
    { intros C. apply (p_eq_iff p1 p3) in C; try assumption. rewrite C in E5. discriminate. }
    split; [reflexivity|]. split; [split; [apply nums3; assumption|auto]|]. simpl. fold (pf p1) (pf p2) (pf p3). lra.
  - (* Uniform *)
    inversion H; subst. unfold lt_ok in E2. apply p_lt_iff in E2; try assumption.
    split; [reflexivity|]. split; [split; [apply nums2; assumption|assumption]|assumption].
  - (* Weibull *)
    inversion H; subst. apply pos_ok_iff in E2, E3; try assumption.
    split; [reflexivity|]. split; [split; [apply nums2; assumption|auto]|]. simpl. auto.
Qed.

(* ---- in the documented domain => accepted (a usable instance exists) ---- *)
Lemma nums_inv2 : forall a b, nums [a; b] -> is_num NR a = true /\ is_num NR b = true.
Proof. intros a b H. inversion H as [|? ? H1 H']; subst. inversion H' as [|? ? H2 _]; subst. auto. Qed.
Lemma nums_inv1 : forall a, nums [a] -> is_num NR a = true.
Proof. intros a H. inversion H; assumption. Qed.
Lemma nums_inv3 : forall a b c, nums [a; b; c] -> is_num NR a = true /\ is_num NR b = true /\ is_num NR c = true.
Proof. intros a b c H. inversion H as [|? ? H1 H']; subst. destruct (nums_inv2 _ _ H'). auto. Qed.
Lemma nums_inv4 : forall a b c d, nums [a; b; c; d] ->
  is_num NR a = true /\ is_num NR b = true /\ is_num NR c = true /\ is_num NR d = true.
Proof. intros a b c d H. inversion H as [|? ? H1 H']; subst. destruct (nums_inv3 _ _ _ H') as [? [? ?]]. auto. Qed.

(* walk through the checks: each is shown to pass *)
Ltac passes :=
  first [ reflexivity | assumption
        | apply pos_ok_iff; assumption | apply int_pos_iff; assumption
        | apply in01_iff; assumption | apply in01o_iff; assumption
        | apply p_lt_iff; assumption | apply p_le_iff; assumption ].

Ltac fwd :=
  repeat match goal with
  | |- exists d, rbind (check ?b ?e) _ = Val d =>
      lazymatch b with
      | true => idtac
      | _ => let E := fresh "E" in assert (E : b = true) by passes; rewrite E; clear E
      end; cbn [check rbind]
  end.

Ltac stepv tac :=
  match goal with
  | |- exists d, rbind ?r _ = Val d =>
      let Hr := fresh "Hr" in
      eassert (Hr : r = Val _) by tac; rewrite Hr; clear Hr; cbn [rbind]
  end.

Theorem ctor_complete : forall c ps, dom c ps -> exists d, ctor NR false c true ps = Val d.
Proof.
  intros c ps H.
  destruct c; destruct ps as [|p1 [|p2 [|p3 [|p4 [|p5 ps]]]]]; cbn -[c1em6 Phi pf nums] in H; try contradiction;
    try solve [exfalso; repeat match type of H with match ?p with _ => _ end => destruct p end; exact H];
    unfold ctor.
  - (* Bernoulli *)
    destruct p1 as [x|z|]; try contradiction. fwd. eexists; reflexivity.
  - (* Beta *)
    destruct H as [N [H1 H2]]. destruct (nums_inv2 _ _ N) as [N1 N2]. fwd.
    stepv ltac:(apply gamma_checks_val; [exact H1|unfold one; nr; lra]).
    stepv ltac:(apply gamma_checks_val; [exact H2|unfold one; nr; lra]). eexists; reflexivity.
  - (* Binomial *)
    destruct p1 as [x|n|]; try contradiction. destruct p2 as [x|z|]; try contradiction. destruct H as [Hn Hp].
    fwd. eexists; reflexivity.
  - (* Constant *)
    pose proof (nums_inv1 _ H). fwd. eexists; reflexivity.
  - (* DiscreteUniform *)
    destruct p1 as [x|lo|]; try contradiction. destruct p2 as [x|hi|]; try contradiction.
    assert (K : negb (p_le NR (PI hi) (PI lo)) = true) by (simpl; rewrite negb_true_iff, Z.leb_gt; exact H).
    fwd. eexists; reflexivity.
  - (* Erlang *)
    destruct p2 as [x|k|]; try contradiction. destruct H as [N [H1 Hk]]. destruct (nums_inv2 _ _ N) as [N1 _]. fwd.
    stepv ltac:(apply r_div_val; apply Rgt_not_eq; exact H1). fwd.
    match goal with |- context [if ?c then _ else _] => destruct c eqn:E end; [eexists; reflexivity|].
    stepv ltac:(apply gamma_checks_num; [reflexivity|reflexivity|apply (IZR_lt 0); exact Hk|exact H1]).
    eexists; reflexivity.
  - (* Exponential *)
    destruct H as [N H1]. pose proof (nums_inv1 _ N) as N1. fwd. eexists; reflexivity.
  - (* Gamma *)
    destruct H as [N [H1 H2]]. destruct (nums_inv2 _ _ N) as [N1 N2]. fwd.
    stepv ltac:(apply gamma_checks_num; assumption). eexists; reflexivity.
  - (* Geometric *)
    destruct p1 as [x|z|]; try contradiction. fwd.
    stepv ltac:(apply r_log_val; unfold one; nr; simpl; lra). eexists; reflexivity.
  - (* LogNormal *)
    destruct H as [N H2]. destruct (nums_inv2 _ _ N) as [N1 N2]. fwd.
    stepv ltac:(apply r_sqrt_val; nr; fold (pf p2); pose proof PI_RGT_0; nra). eexists; reflexivity.
  - (* NegBinomial *)
    destruct p1 as [x|n|]; try contradiction. destruct p2 as [x|z|]; try contradiction. destruct H as [Hn Hp]. fwd.
    stepv ltac:(apply r_log_val; unfold one; nr; simpl; lra). eexists; reflexivity.
  - (* Normal *)
    destruct H as [N H2]. destruct (nums_inv2 _ _ N) as [N1 N2]. fwd. eexists; reflexivity.
  - (* NormalTrunc *)
    destruct H as [N [H2 [H3 H4]]]. destruct (nums_inv4 _ _ _ _ N) as [N1 [N2 [N3 N4]]]. unfold lt_ok. fwd.
    stepv ltac:(apply cum_prob_nt_val; exact H2). stepv ltac:(apply cum_prob_nt_val; exact H2).
    assert (K : leb NR (c1em6 NR) (sub NR (Phi (pf p1) (pf p2) (pf p4)) (Phi (pf p1) (pf p2) (pf p3))) = true)
      by (apply Rleb_true; exact H4).
    fwd. pose proof c1em6_pos.
    stepv ltac:(apply r_div_val; nr; fold (pf p1) (pf p2) (pf p3) (pf p4); apply Rgt_not_eq; lra). eexists; reflexivity.
  - (* Pearson5 *)
    destruct H as [N [H1 H2]]. destruct (nums_inv2 _ _ N) as [N1 N2]. fwd.
    stepv ltac:(apply r_div_val; apply Rgt_not_eq; exact H2). fwd.
    stepv ltac:(apply gamma_checks_val; [exact H1|unfold one; nr; apply Rdiv_lt_0_compat; [lra|exact H2]]).
    eexists; reflexivity.
  - (* Pearson6 *)
    destruct H as [N [H1 [H2 H3]]]. destruct (nums_inv3 _ _ _ N) as [N1 [N2 N3]]. fwd.
    stepv ltac:(apply gamma_checks_val; assumption). stepv ltac:(apply gamma_checks_val; assumption).
    eexists; reflexivity.
  - (* Poisson *)
    destruct H as [N H1]. pose proof (nums_inv1 _ N) as N1. fwd. eexists; reflexivity.
  - (* Triangular *)
    destruct H as [N [[H1 H2] H3]]. destruct (nums_inv3 _ _ _ N) as [N1 [N2 N3]]. unfold le_ok.
    assert (K : negb (p_eq NR p1 p3) = true).
    { rewrite negb_true_iff. destruct (p_eq NR p1 p3) eqn:E; [|reflexivity].
      apply p_eq_iff in E; try assumption. contradiction. }
    fwd. eexists; reflexivity.
  - (* Uniform *)
    destruct H as [N H1]. destruct (nums_inv2 _ _ N) as [N1 N2]. unfold lt_ok. fwd. eexists; reflexivity.
  - (* Weibull *)
    destruct H as [N [H1 H2]]. destruct (nums_inv2 _ _ N) as [N1 N2]. fwd. eexists; reflexivity.
Qed.

(* a non-stream is refused whatever the parameters *)
Theorem ctor_needs_stream : forall pv c ps d, ctor NR pv c false ps = Val d -> False.
Proof.
  intros pv c ps d H.
  destruct c; destruct ps as [|p1 [|p2 [|p3 [|p4 [|p5 ps]]]]]; try discriminate H;
    unfold ctor in H; repeat chk H; discriminate.
Qed.

End Ctor.
