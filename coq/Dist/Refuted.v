(* C14: clauses that are FALSE, with concrete witnesses.

   1. On the pinned tree 13808df (variant pv = true of Dist/Draw.v) "drawing
      never raises for stream output in [0, 1)" and "parameters outside the
      documented domain are rejected" fail; the witnesses below are the ones
      replayed against the code before the repairs
      (proposed_fixes/C14-*.patch).
   2. On the repaired tree (pv = false) what is still false - the known
      findings - is shown as well: an inner gamma draw of exactly 0 makes
      DistPearson5 divide by zero (reals: a uniform of exactly 0; floats: an
      underflow), and a subnormal uniform makes the product of uniforms
      underflow to 0.0 in DistErlang (floats only). *)
From Coq Require Import Reals Lra ZArith List Bool PrimFloat.
From PV Require Import Dist.Num Dist.Draw Dist.NumR Dist.NumF.
Import ListNotations.

Section RealWitnesses.
Local Open Scope R_scope.
Variables erf erfinv gammaf lgammaf : R -> R.
Notation NR := (numR erf erfinv gammaf lgammaf).

Ltac nr := cbn [T ofZ ofD cE cPi add sub mul neg nabs div ltb leb eqb isinf nsqrt nlog nexp nerf
                nerfinv ngamma nlgamma npow npowop nfloor numR zero one two four half c4_5] in *.

Lemma r_log_0 : r_log 0 = Err (Raise EValue).
Proof. unfold r_log. destruct (Rlt_dec 0 0); [lra|reflexivity]. Qed.

Lemma r_div_0 : forall a, r_div a 0 = Err (Raise EZeroDiv).
Proof. intros. unfold r_div. destruct (Req_EM_T 0 0); [reflexivity|contradiction]. Qed.

(* pinned: a uniform of exactly 0 makes the exponential draw raise ValueError *)
Lemma pinned_exponential_raises_on_zero :
  draw NR true (DExponential 1) None [0] = (Err (Raise EValue), []).
Proof. unfold draw, fv, nextp, bind, next, lift. nr. rewrite r_log_0. reflexivity. Qed.

(* repaired: the zero is skipped, the next uniform is used *)
Lemma repaired_exponential_skips_zero :
  draw NR false (DExponential 1) None [0; / 2] = (Val (VF (- 1 * ln (/ 2)), None), []).
Proof.
  unfold draw, fv, nextp, bind, lift, ret. cbn [next_pos]. unfold zero. nr.
  rewrite (proj2 (Reqb_true 0 0) eq_refl). rewrite (proj2 (Reqb_false (/ 2) 0)) by lra.
  rewrite r_log_val by lra. reflexivity.
Qed.

(* pinned: two uniforms of exactly 1/2 give radius 0 in the polar method *)
Lemma pinned_normal_raises_on_half_half :
  draw NR true (DNormal 0 1) None [/ 2; / 2] = (Err (Raise EValue), []).
Proof.
  unfold draw, draw_normal, next_gaussian, bind, lift. cbn [polar_loop]. unfold one, two, zero. nr.
  replace ((2 * / 2 - 1) * (2 * / 2 - 1) + (2 * / 2 - 1) * (2 * / 2 - 1)) with 0 by field.
  rewrite (proj2 (Rleb_false 1 0)) by lra. cbn [andb orb negb]. rewrite r_log_0. reflexivity.
Qed.

(* pinned: p = 0 is accepted by DistGeometric and every draw divides by ln(1 - 0) = 0 *)
Lemma pinned_geometric_accepts_p_zero :
  exists d, ctor NR true CGeometric true [PF 0] = Val d /\
            fst (draw NR true d None [/ 2]) = Err (Raise EZeroDiv).
Proof.
  exists (DGeometric 0 (ln (1 - 0))). split.
  - unfold ctor, check, prob_ok, in01, is_float, p_float. unfold zero, one. nr.
    rewrite (proj2 (Rleb_true 0 0)), (proj2 (Rleb_true 0 1)) by lra. cbn [andb rbind].
    rewrite r_log_val by lra. reflexivity.
  - unfold draw, iv, geometric_once, nextp, bind, next, lift. nr.
    rewrite r_log_val by lra. replace (ln (1 - 0)) with 0 by (rewrite Rminus_0_r, ln_1; reflexivity).
    rewrite r_div_0. reflexivity.
Qed.

(* repaired: p = 0 and p = 1 are refused by the range check *)
Lemma repaired_geometric_rejects_p_zero_and_one :
  ctor NR false CGeometric true [PF 0] = Err (Raise EValue) /\
  ctor NR false CGeometric true [PF 1] = Err (Raise EValue).
Proof.
  split; unfold ctor, check, prob_ok, in01o, is_float, p_float; unfold zero, one; nr.
  - rewrite (proj2 (Rltb_false 0 0)) by lra. reflexivity.
  - rewrite (proj2 (Rltb_true 0 1)), (proj2 (Rltb_false 1 1)) by lra. reflexivity.
Qed.

(* repaired tree, still false (known finding draw-raises-zero-division:DistPearson5):
   with shape < 1 a first uniform of exactly 0 gives p = 0, y = 0 ** (1/shape) = 0,
   the gamma draw is 0 and DistPearson5 divides by it *)
Lemma gamma_lt1_first_uniform_zero : forall c shape scale b us,
  0 < shape ->
  gamma_lt1 NR (S c) shape scale b (0 :: / 2 :: us) = (Val (scale * 0), us).
Proof.
  intros c shape scale b us Hs. cbn [gamma_lt1]. unfold bind, next, lift, ret. unfold one. nr.
  rewrite Rmult_0_r. rewrite (proj2 (Rleb_true 0 1)) by lra.
  rewrite r_div_val by lra. rewrite r_pow_zero by (apply Rdiv_lt_0_compat; lra).
  rewrite Ropp_0, exp_0. rewrite (proj2 (Rleb_true (/ 2) 1)) by lra. reflexivity.
Qed.

Lemma repaired_pearson5_divides_by_zero :
  fst (draw NR false (DPearson5 (/ 2) 1 (/ 2, 1)) None [0; / 2]) = Err (Raise EZeroDiv).
Proof.
  unfold draw, fv, draw_gamma. cbn [fst snd]. unfold one. nr.
  rewrite (proj2 (Rltb_true (/ 2) 1)) by lra.
  assert (He : exp 1 <> 0) by (pose proof (exp_pos 1); lra).
  unfold bind at 1 2 3. unfold lift at 1. rewrite r_div_val by assumption.
  change 1000%nat with (S 999). rewrite gamma_lt1_first_uniform_zero by lra.
  unfold lift. rewrite Rmult_0_r. rewrite r_div_0. reflexivity.
Qed.

End RealWitnesses.

(* ------------------------------------------------------------------ *)
(* PrimFloat witnesses (executed by the kernel's virtual machine)       *)
Section FloatWitnesses.
Local Open Scope float_scope.

(* what CPython's libm answers, recorded by the harness, for the calls below *)
Definition tb_log0 : table := [(FLog, 0, 0, OE EValue)].

Definition nanp : param float := PF nan.
Definition okp (x : float) : param float := PF x.

(* one NaN at each position with a documented range, the other parameters valid *)
Definition nan_cases : list (cls * list (param float)) :=
  [ (CBeta, [nanp; okp 3]); (CBeta, [okp 2; nanp]);
    (CErlang, [nanp; PI 3]);
    (CExponential, [nanp]);
    (CGamma, [nanp; okp 3]); (CGamma, [okp 2; nanp]);
    (CLogNormal, [okp 0; nanp]);
    (CNormal, [okp 0; nanp]);
    (CNormalTrunc, [okp 0; nanp; okp (-1); okp 2]);
    (CNormalTrunc, [okp 0; okp 1; nanp; okp 2]);
    (CNormalTrunc, [okp 0; okp 1; okp (-1); nanp]);
    (CPearson5, [nanp; okp 3]); (CPearson5, [okp 2; nanp]);
    (CPearson6, [nanp; okp 3; okp 1]); (CPearson6, [okp 2; nanp; okp 1]); (CPearson6, [okp 2; okp 3; nanp]);
    (CPoisson, [nanp]);
    (CTriangular, [nanp; okp 2; okp 4]); (CTriangular, [okp 1; nanp; okp 4]); (CTriangular, [okp 1; okp 2; nanp]);
    (CUniform, [nanp; okp 4]); (CUniform, [okp 1; nanp]);
    (CWeibull, [nanp; okp 2]); (CWeibull, [okp 2; nanp]);
    (CBernoulli, [nanp]); (CBinomial, [PI 5; nanp]); (CGeometric, [nanp]); (CNegBinomial, [PI 3; nanp]) ].

Definition is_value_error {A} (r : res A) : bool :=
  match r with Err (Raise EValue) => true | _ => false end.
Definition is_accept_or_later {A} (r : res A) : bool :=
  match r with Err (Raise EValue) => false | Err (Raise EType) => false | _ => true end.

(* repaired constructors: ValueError for a NaN in any ranged position, before
   any libm call (the oracle table is empty) *)
Lemma repaired_ctor_rejects_nan :
  forallb (fun cp => is_value_error (ctor (numF []) false (fst cp) true (snd cp))) nan_cases = true.
Proof. vm_compute. reflexivity. Qed.

(* pinned constructors: the 24 cases written "x <= 0" / "hi <= lo" ... let the NaN through *)
Lemma pinned_ctor_accepts_nan :
  forallb (fun cp => is_accept_or_later (ctor (numF []) true (fst cp) true (snd cp))) (firstn 24 nan_cases) = true.
Proof. vm_compute. reflexivity. Qed.

(* repaired tree, still false for floats (known finding draw-raises-on-tiny-uniform:DistErlang):
   the uniforms 5e-324 and 0.5 are both in (0, 1), their product underflows to
   0.0 and math.log(0.0) raises *)
Lemma repaired_erlang_raises_on_subnormal_uniform :
  fst (draw (numF tb_log0) false (DErlang 1 2 1 None) None [0x0.0000000000001p-1022; 0x1p-1]) = Err (Raise EValue).
Proof. vm_compute. reflexivity. Qed.

End FloatWitnesses.
