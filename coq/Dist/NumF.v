(* The PrimFloat instance of [num]: binary64 arithmetic executed by the kernel
   (bit-identical to CPython float for + - * / sqrt and comparisons), libm
   functions and the ** operator as ORACLE TABLES recorded by the harness in
   the same run, pydsol.core.utils.erf_inv transcribed, and the comparison
   functions of the C14 / C15 correspondence checks.

   A table miss yields [Err (Miss ...)], never a default value.
   PrimFloat is only executed here, never reasoned about.
   Executable definitions only (no proofs). *)
From Coq Require Import ZArith List Bool PrimFloat Uint63 FloatOps SpecFloat FloatClass.
From PV Require Import Dist.Num Dist.Draw.
Import ListNotations.
Local Open Scope float_scope.

Notation fzero := PrimFloat.zero.
Notation fone := PrimFloat.one.

(* ---------- bit-level identity of floats (all NaNs identified) ---------- *)
Definition fsame (x y : float) : bool :=
  match classify x, classify y with
  | NaN, NaN => true
  | PZero, PZero => true
  | NZero, NZero => true
  | NaN, _ | _, NaN | PZero, _ | _, PZero | NZero, _ | _, NZero => false
  | _, _ => PrimFloat.eqb x y
  end.

Definition b2z (b : bool) : Z := if b then 1%Z else 0%Z.

(* encoding of a float as four integers, decoded by the harness *)
Definition fenc (x : float) : list Z :=
  match Prim2SF x with
  | S754_zero s => [0; b2z s; 0; 0]%Z
  | S754_infinity s => [1; b2z s; 0; 0]%Z
  | S754_nan => [2; 0; 0; 0]%Z
  | S754_finite s m e => [3; b2z s; Zpos m; e]%Z
  end.

(* ---------- oracle tables ---------- *)
Inductive oval := OV (v : float) | OE (e : exn) | OU.   (* OU: result outside the model *)
Definition table := list (fnid * float * float * oval).

Definition fnid_eqb (a b : fnid) : bool :=
  match a, b with
  | FLog, FLog | FExp, FExp | FPow, FPow | FPowOp, FPowOp | FErf, FErf
  | FGamma, FGamma | FLgamma, FLgamma => true
  | _, _ => false
  end.

Definition fnid_code (f : fnid) : Z :=
  match f with FLog => 0 | FExp => 1 | FPow => 2 | FPowOp => 3 | FErf => 4
             | FGamma => 5 | FLgamma => 6 end%Z.

Fixpoint lookup (tb : table) (f : fnid) (x y : float) : res float :=
  match tb with
  | [] => Err (Miss f (fenc x ++ fenc y))
  | (g, a, b, v) :: r =>
      if fnid_eqb f g && fsame x a && fsame y b then
        match v with OV z => Val z | OE e => Err (Raise e) | OU => Err Unmodelled end
      else lookup r f x y
  end.

(* ---------- primitive operations ---------- *)
(* int -> float as CPython does it (correctly rounded, ties to even).  Below 2^63
   the primitive conversion is used; a larger magnitude is cut to its leading 63
   bits with the discarded part OR-ed into the last bit (round to odd), so that the
   primitive conversion's rounding to 53 bits is the correct rounding of the
   whole integer, and scaled back exactly.  (Beyond the double range CPython
   raises OverflowError; not reachable by the modelled code.) *)
Definition f_ofpos (z : Z) : float :=
  if (z <? 2 ^ 63)%Z then of_uint63 (Uint63.of_Z z)
  else
    let s := (Z.log2 z - 62)%Z in
    let m := Z.shiftr z s in
    let sticky := if (Z.land z (2 ^ s - 1) =? 0)%Z then 0%Z else 1%Z in
    Z.ldexp (of_uint63 (Uint63.of_Z (Z.lor m sticky))) s.

Definition f_ofZ (z : Z) : float :=
  match z with
  | Z0 => fzero
  | Zpos _ => f_ofpos z
  | Zneg p => - f_ofpos (Zpos p)
  end.

Definition f_div (a b : float) : res float :=
  if b =? fzero then Err (Raise EZeroDiv) else Val (a / b).

Definition f_sqrt (x : float) : res float :=
  if x <? fzero then Err (Raise EValue) else Val (PrimFloat.sqrt x).

(* math.floor: exact, from the significand / exponent decomposition *)
Definition f_floor (x : float) : res Z :=
  match Prim2SF x with
  | S754_zero _ => Val 0%Z
  | S754_infinity _ => Err (Raise EOverflow)
  | S754_nan => Err (Raise EValue)
  | S754_finite s m e =>
      let sm := if s then Zneg m else Zpos m in
      Val (if (0 <=? e)%Z then (sm * 2 ^ e)%Z else (sm / 2 ^ (- e))%Z)
  end.

(* ---------- pydsol.core.utils.erf_inv and sign ---------- *)
Definition ei_p1_0 : float := (-0x1.a31267c288b08p+3)%float.   (* -13.0959967422 *)
Definition ei_p1_1 : float := 0x1.ac9048e2f2d3fp+4%float.      (* 26.78522576 *)
Definition ei_p1_2 : float := (-0x1.293ff5cc1f7ddp+3)%float.   (* -9.289057635 *)
Definition ei_q1_0 : float := (-0x1.8265ee15f4686p+3)%float.   (* -12.0749426297 *)
Definition ei_q1_1 : float := 0x1.ef5ead5721e11p+4%float.      (* 30.960614529 *)
Definition ei_q1_2 : float := (-0x1.12664f52676fcp+4)%float.   (* -17.149977991 *)
Definition ei_q1_3 : float := 0x1.0000000000000p+0%float.      (* 1.0 *)
Definition ei_p2_0 : float := (-0x1.fc025281b65acp-4)%float.   (* -0.12402565221 *)
Definition ei_p2_1 : float := 0x1.119d4468cd8f6p+0%float.      (* 1.0688059574 *)
Definition ei_p2_2 : float := (-0x1.f59ee1f976fd5p+0)%float.   (* -1.9594556078 *)
Definition ei_p2_3 : float := 0x1.b13626e48d8c3p-2%float.      (* 0.4230581357 *)
Definition ei_q2_0 : float := (-0x1.69951f5f5f6ccp-4)%float.   (* -0.08827697997 *)
Definition ei_q2_1 : float := 0x1.c7b7d2c7661a3p-1%float.      (* 0.8900743359 *)
Definition ei_q2_2 : float := (-0x1.167d70983e5bdp+1)%float.   (* -2.1757031196 *)
Definition ei_q2_3 : float := 0x1.0000000000000p+0%float.      (* 1.0 *)
Definition ei_p3_0 : float := 0x1.3d89481d73257p-3%float.      (* 0.1550470003116 *)
Definition ei_p3_1 : float := 0x1.61f9ea3ab3a42p+0%float.      (* 1.382719649631 *)
Definition ei_p3_2 : float := 0x1.61c6bc080422fp-1%float.      (* 0.690969348887 *)
Definition ei_p3_3 : float := (-0x1.20c9f12c389f8p+0)%float.   (* -1.128081391617 *)
Definition ei_p3_4 : float := 0x1.5c704ba7304bap-1%float.      (* 0.680544246825 *)
Definition ei_p3_5 : float := (-0x1.50c6bda236181p-3)%float.   (* -0.16444156791 *)
Definition ei_q3_0 : float := 0x1.3d7dab206c232p-3%float.      (* 0.155024849822 *)
Definition ei_q3_1 : float := 0x1.629e4fbf5e0bfp+0%float.      (* 1.385228141995 *)
Definition ei_q3_2 : float := 0x1.0000000000000p+0%float.      (* 1.0 *)
Definition c0_75 : float := 0x1.8p-1%float.
Definition c0_9375 : float := 0x1.ep-1%float.
Definition c1em9 : float := 0x1.12e0be826d695p-30%float.      (* 1.0e-9 *)

Definition f_sign (x : float) : float :=
  if is_nan x then nan
  else if fzero <? x then fone
  else if x <? fzero then (- fone)
  else fzero.

Definition f_erfinv (tb : table) (y : float) : res float :=
  if negb ((- fone <=? y) && (y <=? fone)) then Err (Raise EValue)
  else
    let ax := PrimFloat.abs y in
    rbind
      (if ax <=? c0_75 then
         let t := ax * ax - c0_75 * c0_75 in
         f_div (ax * (ei_p1_0 + t * (ei_p1_1 + t * ei_p1_2)))
               (ei_q1_0 + t * (ei_q1_1 + t * (ei_q1_2 + t * ei_q1_3)))
       else if (c0_75 <=? ax) && (ax <=? c0_9375) then
         let t := ax * ax - c0_9375 * c0_9375 in
         f_div (ax * (ei_p2_0 + t * (ei_p2_1 + t * (ei_p2_2 + t * ei_p2_3))))
               (ei_q2_0 + t * (ei_q2_1 + t * (ei_q2_2 + t * ei_q2_3)))
       else if (c0_9375 <=? ax) && (ax <=? fone - c1em9) then
         rbind (lookup tb FLog (fone - ax) fzero) (fun l =>
         rbind (f_sqrt (- l)) (fun sq =>
         rbind (f_div fone sq) (fun t =>
         rbind (f_div ei_p3_0 t) (fun p0t =>
         f_div (p0t + ei_p3_1 + t * (ei_p3_2 + t * (ei_p3_3 + t * (ei_p3_4 + t * ei_p3_5))))
               (ei_q3_0 + t * (ei_q3_1 + t * ei_q3_2))))))
       else Val infinity)
      (fun r => Val (f_sign y * r)).

(* ---------- the instance ---------- *)
Definition numF (tb : table) : num :=
  {| T := float;
     ofZ := f_ofZ;
     ofD := fun m e => Z.ldexp (f_ofZ m) e;
     cE := 0x1.5bf0a8b145769p+1%float;
     cPi := 0x1.921fb54442d18p+1%float;
     add := PrimFloat.add; sub := PrimFloat.sub; mul := PrimFloat.mul;
     neg := PrimFloat.opp; nabs := PrimFloat.abs;
     div := f_div;
     ltb := PrimFloat.ltb; leb := PrimFloat.leb; eqb := PrimFloat.eqb;
     isinf := is_infinity;
     nsqrt := f_sqrt;
     nlog := fun x => lookup tb FLog x fzero;
     nexp := fun x => lookup tb FExp x fzero;
     nerf := fun x => lookup tb FErf x fzero;
     nerfinv := f_erfinv tb;
     ngamma := fun x => lookup tb FGamma x fzero;
     nlgamma := fun x => lookup tb FLgamma x fzero;
     npow := fun x y => lookup tb FPow x y;
     npowop := fun x y => lookup tb FPowOp x y;
     nfloor := f_floor |}.

(* ---------- correspondence: what the implementation was observed to do ---------- *)
Inductive xout :=
| XAccept                                  (* constructor returned *)
| XVal (v : value float) (consumed : nat)  (* draw() returned v *)
| XRaise (e : exn) (consumed : nat)        (* exception of that type *)
| XNone.                                   (* stream setter returned *)

Definition exn_eqb (a b : exn) : bool :=
  match a, b with
  | EValue, EValue | EZeroDiv, EZeroDiv | EOverflow, EOverflow | EType, EType => true
  | _, _ => false
  end.

Definition value_eqb (a b : value float) : bool :=
  match a, b with
  | VF x, VF y => fsame x y
  | VI x, VI y => Z.eqb x y
  | _, _ => false
  end.

Definition out_ok (tb : table) (m : mout float) (x : xout) : bool :=
  match m, x with
  | MAccept, XAccept => true
  | MNone, XNone => true
  | MVal v n, XVal w k => value_eqb v w && Nat.eqb n k
  | MFail (Raise e) n, XRaise e' k => exn_eqb e e' && Nat.eqb n k
  | _, _ => false
  end.

Fixpoint outs_ok (tb : table) (ms : list (mout float)) (xs : list xout) : bool :=
  match ms, xs with
  | [], [] => true
  | m :: r, x :: s => out_ok tb m x && outs_ok tb r s
  | _, _ => false
  end.

Record case := mkCase {
  c_table : table;
  c_streams : list (list float);          (* output of every stream, in order *)
  c_ops : list (op float);
  c_expected : list xout
}.

Definition store_of (streams : list (list float)) : nat -> list float :=
  fun k => nth k streams [].

Definition run_case (pv : bool) (c : case) : list (mout float) :=
  snd (run (numF (c_table c)) pv (fun _ => None, store_of (c_streams c)) (c_ops c)).

Definition case_ok (pv : bool) (c : case) : bool :=
  outs_ok (c_table c) (run_case pv c) (c_expected c).

Fixpoint mismatches_from (i : nat) (pv : bool) (cases : list case) : list nat :=
  match cases with
  | [] => []
  | c :: r => if case_ok pv c then mismatches_from (S i) pv r
              else i :: mismatches_from (S i) pv r
  end.

(* oracle misses of a case: [case index; function code; 8 integers] each *)
Fixpoint misses_of_outs (tb : table) (i : nat) (ms : list (mout float)) : list Z :=
  match ms with
  | [] => []
  | MFail (Miss f args) _ :: r => (Z.of_nat i :: fnid_code f :: args) ++ misses_of_outs tb i r
  | _ :: r => misses_of_outs tb i r
  end.

Fixpoint misses_from (i : nat) (pv : bool) (cases : list case) : list Z :=
  match cases with
  | [] => []
  | c :: r => misses_of_outs (c_table c) i (run_case pv c) ++ misses_from (S i) pv r
  end.

(* one pass producing both: records [-1; i] for a mismatching case i and
   [-2; i; function code; 8 integers] for every oracle miss of case i *)
Fixpoint miss_records (i : nat) (ms : list (mout float)) : list Z :=
  match ms with
  | [] => []
  | MFail (Miss f args) _ :: r => ((-2)%Z :: Z.of_nat i :: fnid_code f :: args) ++ miss_records i r
  | _ :: r => miss_records i r
  end.

Fixpoint report_from (i : nat) (pv : bool) (cases : list case) : list Z :=
  match cases with
  | [] => []
  | c :: r =>
      let ms := run_case pv c in
      (if outs_ok (c_table c) ms (c_expected c) then [] else [(-1)%Z; Z.of_nat i])
      ++ miss_records i ms ++ report_from (S i) pv r
  end.
