(* The real-number instance of [num] (Dist/Num.v): the SAME Gallina text of
   Dist/Draw.v and Dist/Density.v that is executed with PrimFloat is read here
   over Coq's real numbers, with ln / exp / Rpower / sqrt of the standard
   library.  Python's domain errors are kept (log of a non-positive number,
   sqrt of a negative number, division by zero raise); OverflowError does not
   exist over the reals, nor do NaN / infinities.

   erf, erf_inv, gamma and lgamma are not in the standard library: they are
   Section variables (arbitrary functions R -> R); theorems that need a
   property of them state it as a hypothesis. *)
From Coq Require Import Reals Lra ZArith List Bool.
From PV Require Import Dist.Num.
Import ListNotations.
Local Open Scope R_scope.

Definition Rltb (x y : R) : bool := if Rlt_dec x y then true else false.
Definition Rleb (x y : R) : bool := if Rle_dec x y then true else false.
Definition Reqb (x y : R) : bool := if Req_EM_T x y then true else false.

Lemma Rltb_true : forall x y, Rltb x y = true <-> x < y.
Proof. intros. unfold Rltb. destruct (Rlt_dec x y); split; intros; try assumption; try reflexivity; try discriminate; contradiction. Qed.
Lemma Rltb_false : forall x y, Rltb x y = false <-> y <= x.
Proof. intros. unfold Rltb. destruct (Rlt_dec x y); split; intros; try reflexivity; try discriminate; lra. Qed.
Lemma Rleb_true : forall x y, Rleb x y = true <-> x <= y.
Proof. intros. unfold Rleb. destruct (Rle_dec x y); split; intros; try assumption; try reflexivity; try discriminate; contradiction. Qed.
Lemma Rleb_false : forall x y, Rleb x y = false <-> y < x.
Proof. intros. unfold Rleb. destruct (Rle_dec x y); split; intros; try reflexivity; try discriminate; lra. Qed.
Lemma Reqb_true : forall x y, Reqb x y = true <-> x = y.
Proof. intros. unfold Reqb. destruct (Req_EM_T x y); split; intros; try assumption; try reflexivity; try discriminate; contradiction. Qed.
Lemma Reqb_false : forall x y, Reqb x y = false <-> x <> y.
Proof. intros. unfold Reqb. destruct (Req_EM_T x y); split; intros; try assumption; try reflexivity; try discriminate; contradiction. Qed.

Definition r_div (a b : R) : res R := if Req_EM_T b 0 then Err (Raise EZeroDiv) else Val (a / b).
Definition r_sqrt (x : R) : res R := if Rlt_dec x 0 then Err (Raise EValue) else Val (sqrt x).
Definition r_log (x : R) : res R := if Rlt_dec 0 x then Val (ln x) else Err (Raise EValue).
(* math.pow / ** restricted to what the draw and density code needs: a positive
   base; a zero base with a non-negative exponent; a negative base squared;
   anything else is outside the model (Python: complex results,
   ZeroDivisionError, ValueError) *)
Definition r_pow (x y : R) : res R :=
  if Rlt_dec 0 x then Val (Rpower x y)
  else if Req_EM_T x 0 then (if Rlt_dec 0 y then Val 0 else if Req_EM_T y 0 then Val 1 else Err Unmodelled)
  else if Req_EM_T y 2 then Val (x * x)
  else Err Unmodelled.

Lemma r_div_val : forall a b, b <> 0 -> r_div a b = Val (a / b).
Proof. intros. unfold r_div. destruct (Req_EM_T b 0); [contradiction|reflexivity]. Qed.
Lemma r_sqrt_val : forall x, 0 <= x -> r_sqrt x = Val (sqrt x).
Proof. intros. unfold r_sqrt. destruct (Rlt_dec x 0); [lra|reflexivity]. Qed.
Lemma r_log_val : forall x, 0 < x -> r_log x = Val (ln x).
Proof. intros. unfold r_log. destruct (Rlt_dec 0 x); [reflexivity|contradiction]. Qed.
Lemma r_pow_val : forall x y, 0 < x -> r_pow x y = Val (Rpower x y).
Proof. intros. unfold r_pow. destruct (Rlt_dec 0 x); [reflexivity|contradiction]. Qed.
Lemma r_pow_zero : forall y, 0 < y -> r_pow 0 y = Val 0.
Proof.
  intros. unfold r_pow. destruct (Rlt_dec 0 0); [lra|].
  destruct (Req_EM_T 0 0); [|contradiction]. destruct (Rlt_dec 0 y); [reflexivity|contradiction].
Qed.

Lemma r_pow_sq : forall x, r_pow x 2 = Val (x * x).
Proof.
  intros x. unfold r_pow. destruct (Rlt_dec 0 x).
  - f_equal. replace 2 with (INR 2) by (simpl; lra). rewrite Rpower_pow by assumption. simpl. ring.
  - destruct (Req_EM_T x 0).
    + subst. destruct (Rlt_dec 0 2); [|lra]. f_equal. ring.
    + destruct (Req_EM_T 2 2); [reflexivity|contradiction].
Qed.

Section RealInstance.
Variables erf erfinv gammaf lgammaf : R -> R.

Definition numR : num :=
  {| T := R;
     ofZ := IZR;
     ofD := fun m e => IZR m * powerRZ 2 e;
     cE := exp 1;
     cPi := PI;
     add := Rplus; sub := Rminus; mul := Rmult; neg := Ropp; nabs := Rabs;
     div := r_div;
     ltb := Rltb; leb := Rleb; eqb := Reqb;
     isinf := fun _ => false;
     nsqrt := r_sqrt;
     nlog := r_log;
     nexp := fun x => Val (exp x);
     nerf := fun x => Val (erf x);
     nerfinv := fun x => Val (erfinv x);
     ngamma := fun x => Val (gammaf x);
     nlgamma := fun x => Val (lgammaf x);
     npow := r_pow;
     npowop := r_pow;
     nfloor := fun x => Val (Int_part x) |}.

End RealInstance.

(* floor *)
Lemma Int_part_spec : forall x, IZR (Int_part x) <= x < IZR (Int_part x) + 1.
Proof. intros x. destruct (base_Int_part x). lra. Qed.

Lemma Int_part_nonneg : forall x, 0 <= x -> (0 <= Int_part x)%Z.
Proof.
  intros x Hx. destruct (Int_part_spec x) as [_ H2].
  apply Z.lt_succ_r. apply lt_IZR. rewrite succ_IZR. lra.
Qed.

Lemma Int_part_lt : forall x (n : Z), x < IZR n -> (Int_part x < n)%Z.
Proof. intros x n H. destruct (Int_part_spec x) as [H1 _]. apply lt_IZR. lra. Qed.
