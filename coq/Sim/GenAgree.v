(* C02-C05 -- the model regenerated from the source IS the proved model.

   Sim/Gen_Sim.v is written by translator/py2gallina_sim.py from the text of
   src/pydsol/core/simulator.py of the tree under test (Python's `ast`, fail-closed):
   the sequential logic of schedule_event / _now / _rel / _abs, cancel_event,
   _start_impl, start, run_up_to, run_up_to_including, step, _step_impl, _run,
   stop, _stop_impl, end_replication, cleanup, initialize, _check_initialize,
   warmup, the is_* tests and one wake-up of the worker thread's run(), as a
   shallow embedding over the state record of Sim/Model.v.

   This file proves every generated definition equal to the corresponding function
   of the hand-written model -- for ALL states, arguments, model programs and fuel --
   then the agreement of whole commands and command sequences ([gen_do_cmd_eq],
   [gen_run_cmds_eq]).  The statements about methods that read
   `self._replication.end_sim_time` or wake the worker carry the representation
   invariant of the Python object they need ([rep s <> None]: a replication is set;
   [sim_wf]: an initialised simulator has a replication and a worker thread), which
   holds in every state reachable from [init_sim] ([reachable_wf]).

   The file is compiled against the generated file on every run of the checks; when
   a change of simulator.py makes an equality false, it no longer compiles and the
   check reports the broken tie. *)
From Coq Require Import ZArith List Bool Lia.
From PV Require Import EventList.Key Sim.Model Sim.Order.
From PV Require Import Sim.Gen_Sim.
Import ListNotations.
Local Open Scope Z_scope.

Ltac unf_py :=
  unfold py_ne, py_ge, py_gt, py_lt, py_le, py_eq, py_add, py_sub, py_with_num, py_outside_model,
         py_eventlist_add, py_eventlist_pop, py_eventlist_clear, py_eventlist_remove, py_new_SimEvent,
         py_fire_timed, py_fire, py_is_empty, py_first, py_the, py_is_some,
         py_worker_is_none, py_finalized, py_strategy_code, gbind, gtry, gfinally, sim_of in *.

(* the proofs below do not follow the shape of the generated text: they normalise the pure tests, split on the
   atoms the tests are made of (run state, replication state, replication, worker, comparisons of numbers) and
   finish by computation, so that guard clauses / nested ifs, negated or de-Morganed tests, hoisted locals,
   conditional expressions and inlined helpers all check with the same script *)
Ltac bsimpl := cbn [negb andb orb py_replst_eqb py_runst_eqb fst snd] in *.
Ltac znorm := rewrite ?Z.geb_leb, ?Z.gtb_ltb in *.
Ltac zcases :=
  repeat match goal with
         | |- context [Z.leb ?a ?b] => destruct (Z.leb_spec a b)
         | |- context [Z.ltb ?a ?b] => destruct (Z.ltb_spec a b)
         | |- context [Z.eqb ?a ?b] => destruct (Z.eqb_spec a b)
         end.
Ltac zfin := znorm; zcases; bsimpl; try reflexivity; try lia; try contradiction.

(* ====================================================================== *)
(* the pure tests                                                          *)
(* ====================================================================== *)
Lemma gen_is_starting_or_running_eq s : gen_Simulator_is_starting_or_running s = running s.
Proof. unfold gen_Simulator_is_starting_or_running, running. destruct (rs s); reflexivity. Qed.

Lemma gen_is_stopping_or_stopped_eq s : gen_Simulator_is_stopping_or_stopped s = negb (running s).
Proof.
  unfold gen_Simulator_is_stopping_or_stopped, gen_Simulator_is_starting_or_running, running. destruct (rs s); reflexivity.
Qed.


Lemma gen_is_initialized_eq s :
  gen_Simulator_is_initialized s = match rs s with RNotInit => false | _ => true end.
Proof. unfold gen_Simulator_is_initialized. destruct (rs s); reflexivity. Qed.

Ltac ntests := rewrite ?gen_is_stopping_or_stopped_eq, ?gen_is_starting_or_running_eq, ?gen_is_initialized_eq in *.

(* ====================================================================== *)
(* scheduling and cancelling                                               *)
(* ====================================================================== *)
Lemma geb_refl x : (x >=? x) = true.
Proof. rewrite Z.geb_leb. apply Z.leb_refl. Qed.

(* schedule_event(e): refused iff the event lies before the clock, else inserted *)
Lemma gen_schedule_event_eq w s e :
  gen_DEVSSimulator_schedule_event w s e =
  if ev_time e <? clock s then GExc EDSOL w s else GRet (REv e) w (set_pend (ins e (pend s)) s).
Proof.
  unfold gen_DEVSSimulator_schedule_event. unf_py. cbv zeta. zfin.
Qed.

Theorem gen_sched_eq s m prio h : gen_sched s m prio h = do_sched s m prio h.
Proof.
  unfold gen_sched, do_sched, sched_time,
    gen_DEVSSimulator_schedule_event_now, gen_DEVSSimulator_schedule_event_rel, gen_DEVSSimulator_schedule_event_abs.
  destruct m as [|[d|]|[t|]]; unf_py; cbv zeta; rewrite ?Z.sub_diag; rewrite ?gen_schedule_event_eq; ssimpl; cbn [ev_time];
    try reflexivity; zfin.
Qed.

Theorem gen_cancel_event_eq w s k e :
  nth_error (created s) k = Some e -> gen_DEVSSimulator_cancel_event w s e = GRet RNone w (do_cancel s k).
Proof.
  intros H. unfold gen_DEVSSimulator_cancel_event, do_cancel. rewrite H. unf_py. cbv zeta.
  destruct (ev_mem e (pend s)); reflexivity.
Qed.

Theorem gen_cancel_eq s k : gen_cancel s k = do_cancel s k.
Proof.
  unfold gen_cancel. destruct (nth_error (created s) k) as [e|] eqn:E.
  - rewrite (gen_cancel_event_eq false s k e E). reflexivity.
  - unfold do_cancel. rewrite E. reflexivity.
Qed.

(* ====================================================================== *)
(* stop, warm-up, cleanup                                                  *)
(* ====================================================================== *)
Theorem gen_stop_eq w s :
  gen_Simulator_stop w s =
  if running s then GRet RNone w (set_rs RStopping (emit NStopping s)) else GExc EDSOL w s.
Proof.
  unfold gen_Simulator_stop. ntests. unf_py. cbv zeta.
  destruct (running s); bsimpl; reflexivity.
Qed.

Theorem gen_warmup_eq w s :
  gen_Simulator_warmup w s = GRet RNone w (set_obs (ObsWarm (clock s) :: obs s) (emit (NWarmup (clock s)) s)).
Proof. unfold gen_Simulator_warmup. unf_py. reflexivity. Qed.

Theorem gen_cleanup_eq w s :
  gen_Simulator_cleanup w s = GRet RNone (match worker s with WNone => w | _ => false end) (do_cleanup s).
Proof.
  unfold gen_Simulator_cleanup, do_cleanup. unf_py. cbv zeta.
  destruct s as [c pd n r q b i st wk rp cr ca tr ou nt ob fl]. ssimpl.
  destruct wk; reflexivity.
Qed.

(* ====================================================================== *)
(* the interpreter of model programs with the generated methods plugged in *)
(* ====================================================================== *)
Lemma gen_inner_cmd_eq md s c : gen_inner_cmd md s c = inner_cmd md s c.
Proof.
  unfold gen_inner_cmd, inner_cmd.
  destruct md; try reflexivity; destruct c; try reflexivity; rewrite gen_stop_eq; destruct (running s); reflexivity.
Qed.

(* stop() called from a handler is the generated stop() *)
Theorem gen_stop_inner_eq md s : md <> InConstruct ->
  inner_cmd md s CStop = match gen_Simulator_stop false s with
                         | GRet _ _ s1 => out OCmdOk s1
                         | GExc _ _ s1 => out OCmdRefused s1
                         end.
Proof.
  intros H. rewrite gen_stop_eq. unfold inner_cmd. destruct md; try contradiction; destruct (running s); reflexivity.
Qed.

Lemma gen_exec_action_eq md s a : gen_exec_action md s a = exec_action md s a.
Proof.
  destruct a; cbn [gen_exec_action exec_action]; rewrite ?gen_sched_eq, ?gen_cancel_eq, ?gen_inner_cmd_eq; reflexivity.
Qed.

Lemma gen_exec_actions_eq md acts : forall s, gen_exec_actions md s acts = exec_actions md s acts.
Proof.
  induction acts as [|a r IH]; intros s; cbn [gen_exec_actions exec_actions]; [reflexivity|].
  rewrite gen_exec_action_eq. destruct (exec_action md s a) as [s1 [|]]; [reflexivity|apply IH].
Qed.

Theorem gen_exec_event_eq md p s e : gen_exec_event md p s e = exec_event md p s e.
Proof.
  unfold gen_exec_event, exec_event. destruct (ev_h e); [reflexivity|apply gen_exec_actions_eq].
Qed.

Lemma py_execute_eq md p w s e :
  py_execute md p w s e =
  if snd (exec_event md p s e) then GExc EDSOL w (fst (exec_event md p s e)) else GRet RNone w (fst (exec_event md p s e)).
Proof. unfold py_execute. rewrite gen_exec_event_eq. destruct (exec_event md p s e) as [s1 [|]]; reflexivity. Qed.

(* what handler code leaves alone *)
Lemma exec_event_rep md p s e : rep (fst (exec_event md p s e)) = rep s /\ worker (fst (exec_event md p s e)) = worker s
  /\ strat (fst (exec_event md p s e)) = strat s.
Proof.
  pose proof (exec_event_hstep md p s e) as [F _ _ _ _]. destruct F. ssimpl. auto.
Qed.

(* ====================================================================== *)
(* step                                                                    *)
(* ====================================================================== *)
Definition gres_of (w : bool) (x : sim * cres) : gres :=
  match snd x with ResOk => GRet RNone w (fst x) | ResRefused => GExc EDSOL w (fst x) | ResRaised => GExc EOther w (fst x) end.

Lemma opt_end_eq s : py_opt_end (rep s) = end_time s.
Proof. reflexivity. Qed.

Theorem gen_step_impl_eq p w s : rep s <> None ->
  gen_DEVSSimulator__step_impl p w s =
  match pend s with
  | [] => GRet RNone w s
  | e :: r => if ev_time e >? end_time s then GRet RNone w s
              else let x := exec_event InStep p (set_clock (ev_time e) (emit (NTime (ev_time e)) (set_pend r s))) e in
                   if snd x then GExc EDSOL w (fst x) else GRet RNone w (fst x)
  end.
Proof.
  intros Hr. unfold gen_DEVSSimulator__step_impl, end_time. unf_py.
  destruct (rep s) as [rp|] eqn:Er; [clear Hr|contradiction].
  destruct (pend s) as [|e r] eqn:Ep; cbn [hd_error tl py_opt_end]; ssimpl; cbv zeta; rewrite ?py_execute_eq;
    ssimpl; rewrite ?Er; cbn [py_opt_end]; znorm; zcases; bsimpl; try reflexivity; try lia;
    destruct (snd _); reflexivity.
Qed.

Theorem gen_step_eq p w s : (rs s <> RNotInit -> rep s <> None) ->
  gen_Simulator_step p w s = gres_of w (do_step p s).
Proof.
  intros Hwf. unfold gen_Simulator_step, do_step, step_checks, end_time. ntests. unf_py. cbv zeta.
  (* the refusals, in whatever order and form the source has them *)
  destruct (running s) eqn:Erun; destruct (rs s) eqn:Ers; destruct (ps s) eqn:Eps; bsimpl; try reflexivity;
  (assert (Hr : rep s <> None) by (apply Hwf; discriminate));
  (destruct (rep s) as [rp|] eqn:Er; [|contradiction]); cbn [py_opt_end]; bsimpl;
  znorm; zcases; bsimpl; try reflexivity; try lia;
  (* admitted: START_REPLICATION on first use, START, the event, STOP *)
  (rewrite ?gen_step_impl_eq by (ssimpl; congruence); ssimpl; rewrite ?Eps; bsimpl; ssimpl;
   unfold step_event, gres_of, end_time; ssimpl; rewrite ?Er; cbn [fst snd];
   destruct (pend s) as [|e r]; try reflexivity;
   znorm; zcases; try reflexivity; try lia; cbv zeta;
   destruct (exec_event InStep p _ e) as [s3 [|]]; reflexivity).
Qed.

(* ====================================================================== *)
(* the run loop                                                            *)
(* ====================================================================== *)
Lemma take_event_rep p s e r : pend s = e :: r -> rep (take_event p s e r) = rep s.
Proof. intros H. apply (took_bound _ _ _ _ (take_event_took p s e r H)). Qed.

Lemma gen_stop_at_bound_eq s :
  set_rs RStopping
    (if bound (set_clock (bound s) s) >=? py_opt_end (rep (set_clock (bound s) s))
     then set_ps PEnding (set_clock (bound s) s) else set_clock (bound s) s) = stop_at_bound s.
Proof. reflexivity. Qed.

Theorem gen_run_loop_eq p : forall fuel w s, rep s <> None ->
  gen_DEVSSimulator__run_loop fuel p w s = GRet RNone w (run_loop fuel p s).
Proof.
  induction fuel as [|f IH]; intros w s Hr; cbn [gen_DEVSSimulator__run_loop run_loop]; ntests;
    destruct (running s) eqn:Erun; bsimpl; try reflexivity.
  destruct (rep s) as [rp|] eqn:Er; [|contradiction].
  unfold stop_at_bound, beyond, end_time, take_event. rewrite Er. unf_py.
  destruct (pend s) as [|e r] eqn:Ep; cbn [hd_error tl py_opt_end]; ssimpl; cbv zeta; rewrite ?py_execute_eq;
    ssimpl; rewrite ?Er; cbn [py_opt_end];
    destruct (incl s); znorm; zcases; bsimpl; try reflexivity; try lia;
    (* an event is taken: the handler leaves the replication alone, the loop goes on *)
    (match goal with |- context [exec_event InRun p ?X e] =>
       pose proof (exec_event_rep InRun p X e) as (Hrp & _ & _);
       destruct (exec_event InRun p X e) as [s3 failed] end);
    cbn [fst snd] in *; ssimpl;
    (destruct failed; cbn [exn_is_exception]; [destruct (strat s3); cbn|]; apply IH; ssimpl; congruence).
Qed.

Theorem gen_run_eq p fuel w s : rep s <> None ->
  gen_DEVSSimulator__run fuel p w s = GRet RNone w (run_loop fuel p s).
Proof. apply gen_run_loop_eq. Qed.

(* ====================================================================== *)
(* one wake-up of the worker thread                                        *)
(* ====================================================================== *)
Theorem gen_worker_run_eq fuel p w s : rep s <> None ->
  gen_SimulatorWorkerThread_run fuel p w s = GRet RNone w (worker_run fuel p s).
Proof.
  intros Hr. unfold gen_SimulatorWorkerThread_run, worker_run, worker_ending. unf_py. cbv zeta.
  destruct (worker s); bsimpl; try reflexivity;
  destruct (ps s) eqn:Eps; bsimpl; ssimpl; rewrite ?Eps; try reflexivity;
    (rewrite gen_run_eq by (ssimpl; exact Hr); cbn [exn_is_exception]; ssimpl;
     destruct (ps (run_loop fuel p _)); reflexivity).
Qed.

Lemma gen_worker_eq fuel p s : rep s <> None -> gen_worker fuel p s = worker_run fuel p s.
Proof. intros H. unfold gen_worker. rewrite gen_worker_run_eq by exact H. reflexivity. Qed.

(* ====================================================================== *)
(* start, run_up_to, run_up_to_including                                   *)
(* ====================================================================== *)
(* the state _start_impl leaves when it has admitted the run (before the woken worker runs) *)
Definition start_prepared (s : sim) (bz : Z) (i : bool) : sim :=
  let '(bz', i') := if bz >? end_time s then (end_time s, true) else (bz, i) in
  let s1 := set_rs RStarting (set_incl i' (set_bound bz' s)) in
  let s2 := match ps s1 with
            | PInit => set_ps PStarted (emit (NStartRepl (clock s1)) s1)
            | _ => s1
            end in
  emit NStarting s2.

Lemma do_start_unfold fuel p s b i :
  do_start fuel p s b i =
  if start_checks s then
    match b with
    | TNaN => (s, ResRefused)
    | TNum bz => if bz <? clock s then (s, ResRefused) else (worker_run fuel p (start_prepared s bz i), ResOk)
    end
  else (s, ResRefused).
Proof.
  unfold do_start, start_prepared. destruct (start_checks s); [|reflexivity].
  destruct b as [bz|]; [|reflexivity]. destruct (bz <? clock s); [reflexivity|].
  destruct (bz >? end_time s); reflexivity.
Qed.

Theorem gen_start_impl_eq w s t i : (rs s <> RNotInit -> worker s <> WNone) ->
  gen_Simulator__start_impl w s t i =
  if start_checks s then
    match t with
    | TNaN => GExc EDSOL w s
    | TNum bz => if bz <? clock s then GExc EDSOL w s else GRet RNone true (start_prepared s bz i)
    end
  else GExc EDSOL w s.
Proof.
  intros Hw. unfold gen_Simulator__start_impl, start_checks, start_prepared, end_time. ntests. unf_py. cbv zeta.
  (* the refusals, in whatever order and form the source has them *)
  destruct (running s) eqn:Erun; destruct (rep s) as [rp|] eqn:Er; destruct (rs s) eqn:Ers; destruct (ps s) eqn:Eps;
    cbn [py_opt_end]; bsimpl; try reflexivity;
  (assert (Hk : worker s <> WNone) by (apply Hw; discriminate));
  (destruct t as [bz|]; znorm; zcases; bsimpl; try reflexivity; try lia;
   ssimpl; rewrite ?Eps; bsimpl; ssimpl; destruct (worker s); try contradiction; try reflexivity;
   (* capped at the end, or the end itself *)
   repeat f_equal; lia).
Qed.

Lemma start_prepared_rep s bz i : rep (start_prepared s bz i) = rep s.
Proof.
  unfold start_prepared. destruct (bz >? end_time s); ssimpl; destruct (ps s); reflexivity.
Qed.

Lemma start_checks_rep s : start_checks s = true -> rep s <> None.
Proof.
  unfold start_checks. destruct (rep s); [discriminate|].
  rewrite andb_false_r. discriminate.
Qed.

Lemma settle_start_eq fuel p s t i : (rs s <> RNotInit -> worker s <> WNone) ->
  gen_settle fuel p (gen_Simulator__start_impl false s t i) = do_start fuel p s t i.
Proof.
  intros Hw. rewrite gen_start_impl_eq by exact Hw. rewrite do_start_unfold.
  destruct (start_checks s) eqn:Ec; [|reflexivity].
  destruct t as [bz|]; [|reflexivity]. destruct (bz <? clock s); [reflexivity|].
  cbn [gen_settle]. rewrite gen_worker_eq; [reflexivity|].
  rewrite start_prepared_rep. apply start_checks_rep. exact Ec.
Qed.

Lemma gbind_ret r : gbind r (fun _ w s => GRet RNone w s) = match r with GRet _ w s => GRet RNone w s | e => e end.
Proof. destruct r; reflexivity. Qed.

Lemma settle_norm fuel p r :
  gen_settle fuel p (match r with GRet _ w s => GRet RNone w s | e => e end) = gen_settle fuel p r.
Proof. destruct r; reflexivity. Qed.

Theorem gen_start_eq fuel p s : (rs s <> RNotInit -> worker s <> WNone) ->
  gen_settle fuel p (gen_Simulator_start false s) = do_cmd fuel p s CStart.
Proof.
  intros Hw. unfold gen_Simulator_start. cbn [do_cmd]. unfold py_is_some. cbv zeta.
  destruct (rep s) as [rp|] eqn:Er; bsimpl; cbn [py_opt_end]; [|reflexivity].
  rewrite ?gbind_ret, ?settle_norm. apply settle_start_eq. exact Hw.
Qed.

Theorem gen_run_up_to_eq fuel p s t : (rs s <> RNotInit -> worker s <> WNone) ->
  gen_settle fuel p (gen_Simulator_run_up_to false s t) = do_cmd fuel p s (CRunUpTo t).
Proof.
  intros Hw. unfold gen_Simulator_run_up_to. cbn [do_cmd]. cbv zeta. rewrite ?gbind_ret, ?settle_norm. apply settle_start_eq. exact Hw.
Qed.

Theorem gen_run_up_to_including_eq fuel p s t : (rs s <> RNotInit -> worker s <> WNone) ->
  gen_settle fuel p (gen_Simulator_run_up_to_including false s t) = do_cmd fuel p s (CRunUpToIncl t).
Proof.
  intros Hw. unfold gen_Simulator_run_up_to_including. cbn [do_cmd]. cbv zeta. rewrite ?gbind_ret, ?settle_norm. apply settle_start_eq. exact Hw.
Qed.

(* ====================================================================== *)
(* end_replication                                                         *)
(* ====================================================================== *)
Theorem gen_end_replication_eq fuel p s : (ps s = PStarted -> rep s <> None /\ worker s <> WNone) ->
  gen_settle fuel p (gen_DEVSSimulator_end_replication false s) = do_end_repl fuel p s.
Proof.
  intros Hw. unfold gen_DEVSSimulator_end_replication, gen_Simulator_end_replication, do_end_repl, end_time. unf_py. cbv zeta.
  destruct (ps s) eqn:Eps; bsimpl; try reflexivity.
  destruct (Hw eq_refl) as [Hr Hk].
  destruct (rep s) as [rp|] eqn:Er; [|contradiction]. cbn [py_opt_end]. bsimpl.
  assert (Hk' : forall x, worker x = worker s -> (match worker x with WNone => true | _ => false end) = false)
    by (intros x ->; destruct (worker s); [contradiction|reflexivity|reflexivity]).
  znorm; zcases; ssimpl; rewrite ?Hk' by reflexivity; bsimpl; cbn [gen_settle]; ssimpl;
    (rewrite gen_worker_eq by (ssimpl; congruence)); reflexivity.
Qed.

(* ====================================================================== *)
(* initialize                                                              *)
(* ====================================================================== *)
Definition constructed (p : program) (s : sim) : sim :=
  fst (exec_actions InConstruct (set_created [] s) (body p 0)).
(* construct_model raises *)
Definition construct_fails (p : program) (s : sim) : bool :=
  snd (exec_actions InConstruct (set_created [] s) (body p 0)).

Lemma py_construct_model_eq p w s :
  py_construct_model p w s =
  if construct_fails p s then GExc EOther w (constructed p s) else GRet RNone w (constructed p s).
Proof.
  unfold py_construct_model, constructed, construct_fails. rewrite gen_exec_actions_eq.
  destruct (exec_actions InConstruct (set_created [] s) (body p 0)) as [s1 [|]]; reflexivity.
Qed.

Lemma exec_actions_construct_rs acts : forall s, rs (fst (exec_actions InConstruct s acts)) = rs s.
Proof.
  induction acts as [|a r IH]; intros s; cbn [exec_actions fst]; [reflexivity|].
  assert (E : rs (fst (exec_action InConstruct s a)) = rs s).
  { destruct a; cbn [exec_action fst]; try reflexivity.
    - unfold do_sched. destruct (sched_time s m); reflexivity.
    - unfold do_cancel. destruct (nth_error (created s) k); [|reflexivity]. destruct (ev_mem e (pend s)); reflexivity. }
  destruct (exec_action InConstruct s a) as [s1 [|]]; cbn [fst] in *; [exact E|]. rewrite IH. exact E.
Qed.

Lemma constructed_frame p s :
  rep (constructed p s) = rep s /\ worker (constructed p s) = worker s /\ clock (constructed p s) = clock s
  /\ rs (constructed p s) = rs s /\ ps (constructed p s) = ps s.
Proof.
  unfold constructed.
  pose proof (exec_actions_hstep InConstruct (body p 0) (set_created [] s)) as [F _ _ _ _].
  pose proof (exec_actions_construct_rs (body p 0) (set_created [] s)) as R.
  destruct F; ssimpl; auto 10.
Qed.

(* the simulator object on which construct_model is called *)
Definition preinit (s : sim) (r : repl) : sim :=
  set_clock (r_start r) (set_rep (Some r) (set_worker WAlive (match worker s with WNone => s | _ => do_cleanup s end))).

(* Simulator.initialize on a simulator that is not running, with a proper model and replication *)
Definition initialized (p : program) (s : sim) (r : repl) : sim :=
  set_ps PInit (set_rs RInit (constructed p (preinit s r))).

Lemma gen_base_initialize_eq p w s r : running s = false ->
  gen_Simulator_initialize p w s ModelOk (ReplOk r) =
  if construct_fails p (preinit s r) then GExc EOther false (constructed p (preinit s r))
  else GRet RNone false (initialized p s r).
Proof.
  intros Hrun. unfold gen_Simulator_initialize, initialized, preinit. ntests. rewrite ?Hrun. unf_py. cbv zeta.
  cbn [py_model_is_model py_model_has_simulator py_repl_is_repl py_repl py_opt_start]. bsimpl.
  destruct (worker s) eqn:Ew; bsimpl; rewrite ?gen_cleanup_eq; rewrite ?py_construct_model_eq; cbn [gbind];
    rewrite ?py_construct_model_eq;
    match goal with |- context [construct_fails p ?X] => destruct (construct_fails p X) end; reflexivity.
Qed.

Lemma do_init_unfold p s r :
  do_init p s r =
  if running s then (s, ResRefused)
  else if construct_fails p (preinit (set_pend [] s) r)
       then (set_ps PNotInit (set_rs RNotInit (constructed p (preinit (set_pend [] s) r))), ResRaised)
  else let s5 := initialized p (set_pend [] s) r in
       ((if r_warm r <? clock s5 then raise_flag s5
         else set_nid (nid s5 + 1) (set_pend (ins (mkEv (r_warm r) 10 (nid s5) HWarm 0) (pend s5)) s5)), ResOk).
Proof.
  unfold do_init, initialized, constructed, construct_fails, preinit. destruct (running s); [reflexivity|]. ssimpl.
  destruct (worker s);
    (match goal with |- context [exec_actions InConstruct ?X ?B] => destruct (exec_actions InConstruct X B) as [s3 [|]] end);
    reflexivity.
Qed.

Lemma initialized_rep p s r : rep (initialized p s r) = Some r.
Proof.
  unfold initialized, preinit. ssimpl.
  match goal with |- rep (constructed p ?X) = _ => rewrite (proj1 (constructed_frame p X)) end. reflexivity.
Qed.

Lemma set_notinit_id s : rs s = RNotInit -> ps s = PNotInit -> set_ps PNotInit (set_rs RNotInit s) = s.
Proof. destruct s; cbn. intros -> ->. reflexivity. Qed.

(* the representation invariant of the Python object the equalities need: a simulator that has been
   initialised (and not cleaned up since) has a replication and a worker thread *)
Definition sim_wf (s : sim) : Prop :=
  (rs s = RNotInit /\ ps s = PNotInit) \/ (rep s <> None /\ worker s <> WNone).

(* right before construct_model is called neither state says "initialised" *)
Lemma preinit_notinit s r : sim_wf s -> rs (preinit s r) = RNotInit /\ ps (preinit s r) = PNotInit.
Proof.
  intros Hwf. unfold preinit. ssimpl. destruct (worker s) eqn:Ew; ssimpl; auto.
  destruct Hwf as [H|[_ H]]; [exact H|congruence].
Qed.

Theorem gen_initialize_eq p s r : sim_wf s ->
  match gen_DEVSSimulator_initialize p false s ModelOk (ReplOk r) with
  | GRet _ _ s1 => (s1, ResOk)
  | GExc EDSOL _ s1 => if running s then (s1, ResRefused) else (raise_flag s1, ResOk)
  | GExc EOther _ s1 => (s1, ResRaised)
  | GExc EExit _ s1 => (raise_flag s1, ResRefused)
  end = do_init p s r.
Proof.
  intros Hwf.
  unfold gen_DEVSSimulator_initialize. rewrite do_init_unfold. ntests.
  cbn [py_model_is_model py_model_has_simulator py_repl_is_repl]. cbv zeta.
  destruct (running s) eqn:Hrun; bsimpl; [reflexivity|].
  unfold py_eventlist_clear.
  rewrite gen_base_initialize_eq by (ssimpl; exact Hrun).
  destruct (construct_fails p (preinit (set_pend [] s) r)) eqn:Hf.
  { cbn [gbind]. f_equal. symmetry.
    assert (Hwf0 : sim_wf (set_pend [] s)) by (destruct Hwf as [H|H]; [left|right]; ssimpl; exact H).
    destruct (preinit_notinit (set_pend [] s) r Hwf0) as [R P].
    destruct (constructed_frame p (preinit (set_pend [] s) r)) as (_&_&_&Rc&Pc).
    apply set_notinit_id; congruence. }
  cbn [gbind]. cbv zeta.
  set (s5 := initialized p (set_pend [] s) r).
  assert (Hrep : rep s5 = Some r) by apply initialized_rep.
  unfold py_is_some. rewrite Hrep. cbn [negb py_opt_warm].
  unfold gen_DEVSSimulator_schedule_event_abs. unf_py. cbv zeta. rewrite ?gen_schedule_event_eq. cbn [ev_time]. ssimpl.
  znorm; zcases; bsimpl; try reflexivity; try lia.
Qed.

Theorem gen_initialize_bad_eq fuel p s :
  gen_settle fuel p (gen_DEVSSimulator_initialize p false s ModelBad (ReplOk (mkRepl 0 0 40))) = (s, ResRefused).
Proof.
  unfold gen_DEVSSimulator_initialize. ntests. cbv zeta. cbn [py_model_is_model py_model_has_simulator py_repl_is_repl]. bsimpl.
  reflexivity.
Qed.

(* a refused initialize -- whatever the reason -- leaves the simulator object as it was *)
Theorem gen_refused_initialize_changes_nothing p w s m r k w' s' :
  gen_DEVSSimulator_initialize p w s m r = GExc k w' s' -> running s = true \/ m <> ModelOk \/ r = ReplBad -> s' = s.
Proof.
  unfold gen_DEVSSimulator_initialize. ntests. cbv zeta. intros H Hc.
  destruct Hc as [Hc|[Hc|Hc]].
  - rewrite Hc in H. destruct m, r; cbn [py_model_is_model py_model_has_simulator py_repl_is_repl] in H; bsimpl;
      inversion H; reflexivity.
  - destruct m; try contradiction; destruct r; cbn [py_model_is_model py_model_has_simulator py_repl_is_repl] in H; bsimpl;
      destruct (running s); bsimpl; inversion H; reflexivity.
  - subst r. destruct m; cbn [py_model_is_model py_model_has_simulator py_repl_is_repl] in H; bsimpl;
      destruct (running s); bsimpl; inversion H; reflexivity.
Qed.

(* ====================================================================== *)
(* whole commands and command sequences                                    *)
(* ====================================================================== *)
Lemma init_sim_wf st : sim_wf (init_sim st).
Proof. left. split; reflexivity. Qed.

Lemma wf_worker s : sim_wf s -> rs s <> RNotInit -> worker s <> WNone.
Proof. intros [[H _]|[_ H]] Hn; [contradiction|exact H]. Qed.

Lemma wf_rep s : sim_wf s -> rs s <> RNotInit -> rep s <> None.
Proof. intros [[H _]|[H _]] Hn; [contradiction|exact H]. Qed.

Lemma wf_started s : sim_wf s -> ps s = PStarted -> rep s <> None /\ worker s <> WNone.
Proof. intros [[_ H]|H] Hp; [congruence|exact H]. Qed.

Theorem gen_do_cmd_eq fuel p s c : sim_wf s -> gen_do_cmd fuel p s c = do_cmd fuel p s c.
Proof.
  intros Hwf. destruct c; cbn [gen_do_cmd do_cmd].
  - apply gen_initialize_eq. exact Hwf.
  - apply gen_initialize_bad_eq.
  - apply gen_start_eq. apply wf_worker. exact Hwf.
  - rewrite gen_step_eq by (apply wf_rep; exact Hwf). unfold gres_of.
    destruct (do_step p s) as [s' [| |]] eqn:E; try reflexivity.
    exfalso. unfold do_step in E. destruct (step_checks s); inversion E.
  - rewrite gen_stop_eq. destruct (running s); reflexivity.
  - apply gen_run_up_to_eq. apply wf_worker. exact Hwf.
  - apply gen_run_up_to_including_eq. apply wf_worker. exact Hwf.
  - apply gen_end_replication_eq. apply wf_started. exact Hwf.
  - rewrite gen_cleanup_eq. destruct (worker s); reflexivity.
Qed.

(* -- the invariant is kept by every command -- *)
Lemma run_loop_keeps p : forall fuel s, rep (run_loop fuel p s) = rep s /\ worker (run_loop fuel p s) = worker s.
Proof.
  induction fuel as [|f IH]; intros s; cbn [run_loop].
  - destruct (running s); ssimpl; auto.
  - destruct (running s); [|auto].
    assert (Hs : rep (stop_at_bound s) = rep s /\ worker (stop_at_bound s) = worker s)
      by (unfold stop_at_bound; destruct (bound s >=? end_time s); ssimpl; auto).
    destruct (pend s) as [|e r] eqn:Ep; [exact Hs|].
    destruct (beyond s e); [exact Hs|].
    destruct (IH (take_event p s e r)) as [H1 H2].
    destruct (took_bound _ _ _ _ (take_event_took p s e r Ep)) as (_&_&Hr&_&_&Hw).
    split; congruence.
Qed.

Lemma worker_run_keeps fuel p s :
  rep (worker_run fuel p s) = rep s /\ (worker s <> WNone -> worker (worker_run fuel p s) <> WNone).
Proof.
  unfold worker_run. destruct (worker s) eqn:Ew; [auto|idtac|split; [reflexivity|intros _; rewrite Ew; discriminate]].
  assert (He : forall x, rep (worker_ending x) = rep x /\ (worker x <> WNone -> worker (worker_ending x) <> WNone))
    by (intros x; unfold worker_ending; destruct (ps x); ssimpl; auto; split; [reflexivity|discriminate]).
  destruct (ps s).
  1,2,3,5: (match goal with |- context [worker_ending ?X] => destruct (He X) as [H1 H2] end;
            destruct (run_loop_keeps p fuel (set_rs RStarted (emit (NStart (clock s)) s))) as [H3 H4];
            ssimpl; split; [congruence|]; intros _; apply H2; ssimpl; rewrite H4; ssimpl; rewrite Ew; discriminate).
  destruct (He s) as [H1 H2]. split; [exact H1|]. intros _. apply H2. rewrite Ew. discriminate.
Qed.

Lemma do_start_keeps fuel p s b i : rep s <> None -> worker s <> WNone ->
  rep (fst (do_start fuel p s b i)) <> None /\ worker (fst (do_start fuel p s b i)) <> WNone.
Proof.
  intros Hr Hk. rewrite do_start_unfold.
  destruct (start_checks s); [|auto]. destruct b as [bz|]; [|auto].
  destruct (bz <? clock s); [auto|]. cbn [fst].
  destruct (worker_run_keeps fuel p (start_prepared s bz i)) as [H1 H2].
  rewrite H1, start_prepared_rep. split; [exact Hr|]. apply H2.
  unfold start_prepared. destruct (bz >? end_time s); ssimpl; destruct (ps s); ssimpl; exact Hk.
Qed.

Theorem do_cmd_wf fuel p s c : sim_wf s -> sim_wf (fst (do_cmd fuel p s c)).
Proof.
  intros Hwf. destruct c; cbn [do_cmd].
  - (* initialize *)
    rewrite do_init_unfold. destruct (running s); [exact Hwf|].
    destruct (construct_fails p (preinit (set_pend [] s) r)); [left; ssimpl; auto|]. cbn [fst]. right.
    set (s5 := initialized p (set_pend [] s) r).
    assert (Hr : rep s5 = Some r) by apply initialized_rep.
    assert (Hk : worker s5 = WAlive).
    { unfold s5, initialized, preinit. ssimpl.
      match goal with |- worker (constructed p ?X) = _ => rewrite (proj1 (proj2 (constructed_frame p X))) end. reflexivity. }
    destruct (r_warm r <? clock s5); ssimpl; rewrite Hr, Hk; split; discriminate.
  - exact Hwf.
  - (* start *)
    destruct (rep s) as [rp|] eqn:Er; [|exact Hwf].
    destruct Hwf as [[H1 H2]|[Hr Hk]].
    + rewrite do_start_unfold. unfold start_checks. rewrite H1. rewrite !andb_false_r. cbn [andb fst]. left; auto.
    + right. apply do_start_keeps; auto.
  - (* step *)
    destruct Hwf as [[H1 H2]|[Hr Hk]].
    + unfold do_step, step_checks. rewrite H1. rewrite !andb_false_r. cbn [andb fst]. left; auto.
    + right. unfold do_step. destruct (step_checks s); [|auto]. cbn [fst].
      set (s1 := match ps s with PInit => set_ps PStarted (emit (NStartRepl (clock s)) s) | _ => s end).
      assert (E1 : rep s1 = rep s /\ worker s1 = worker s) by (unfold s1; destruct (ps s); ssimpl; auto).
      set (s2 := emit (NStart (clock s1)) (set_rs RStarted s1)).
      assert (E2 : rep s2 = rep s /\ worker s2 = worker s) by (unfold s2; ssimpl; exact E1).
      destruct (pend s2) as [|e r'] eqn:Ep; ssimpl; [destruct E2 as [-> ->]; auto|].
      destruct (ev_time e >? end_time s2); ssimpl; [destruct E2 as [-> ->]; auto|].
      destruct (took_bound _ _ _ _ (step_event_took p s2 e r' Ep)) as (_&_&Hr'&_&_&Hw').
      rewrite Hr', Hw'. destruct E2 as [-> ->]. auto.
  - (* stop *)
    destruct (running s) eqn:Erun; [|exact Hwf]. cbn [fst].
    destruct Hwf as [[H1 H2]|[Hr Hk]].
    + unfold running in Erun. rewrite H1 in Erun. discriminate.
    + right. ssimpl. auto.
  - destruct Hwf as [[H1 H2]|[Hr Hk]].
    + rewrite do_start_unfold. unfold start_checks. rewrite H1. rewrite !andb_false_r. cbn [andb fst]. left; auto.
    + right. apply do_start_keeps; auto.
  - destruct Hwf as [[H1 H2]|[Hr Hk]].
    + rewrite do_start_unfold. unfold start_checks. rewrite H1. rewrite !andb_false_r. cbn [andb fst]. left; auto.
    + right. apply do_start_keeps; auto.
  - (* end_replication *)
    unfold do_end_repl. destruct (ps s) eqn:Eps; try exact Hwf. cbn [fst].
    destruct (wf_started s Hwf Eps) as [Hr Hk]. right.
    match goal with |- context [worker_run fuel p ?X] => destruct (worker_run_keeps fuel p X) as [H1 H2] end.
    rewrite H1. split.
    + destruct (clock s <? end_time s); ssimpl; exact Hr.
    + apply H2. destruct (clock s <? end_time s); ssimpl; exact Hk.
  - left. unfold do_cleanup. ssimpl. auto.
Qed.

Theorem reachable_wf p s : reachable p s -> sim_wf s.
Proof. induction 1; [apply init_sim_wf|apply do_cmd_wf; assumption]. Qed.

Definition gen_run_cmds_stmt := forall fuel p cs s, sim_wf s -> gen_run_cmds fuel p s cs = run_cmds fuel p s cs.

Theorem gen_run_cmds_eq : gen_run_cmds_stmt.
Proof.
  intros fuel p cs. induction cs as [|c r IH]; intros s Hwf; cbn [gen_run_cmds run_cmds]; [reflexivity|].
  rewrite gen_do_cmd_eq by exact Hwf.
  pose proof (do_cmd_wf fuel p s c Hwf) as Hwf'.
  destruct (do_cmd fuel p s c) as [s1 res]. cbn [fst] in Hwf'. rewrite IH by exact Hwf'. reflexivity.
Qed.

(* ====================================================================== *)
(* summary, and the main C02 theorems over the generated definitions       *)
(* ====================================================================== *)
Theorem sim_generated_agree :
  (forall s m prio h, gen_sched s m prio h = do_sched s m prio h) /\
  (forall s k, gen_cancel s k = do_cancel s k) /\
  (forall w s, gen_Simulator_stop w s =
               if running s then GRet RNone w (set_rs RStopping (emit NStopping s)) else GExc EDSOL w s) /\
  (forall md p s e, gen_exec_event md p s e = exec_event md p s e) /\
  (forall p w s, (rs s <> RNotInit -> rep s <> None) -> gen_Simulator_step p w s = gres_of w (do_step p s)) /\
  (forall p fuel w s, rep s <> None -> gen_DEVSSimulator__run fuel p w s = GRet RNone w (run_loop fuel p s)) /\
  (forall fuel p w s, rep s <> None -> gen_SimulatorWorkerThread_run fuel p w s = GRet RNone w (worker_run fuel p s)) /\
  (forall fuel p s t i, (rs s <> RNotInit -> worker s <> WNone) ->
     gen_settle fuel p (gen_Simulator__start_impl false s t i) = do_start fuel p s t i) /\
  (forall fuel p s c, sim_wf s -> gen_do_cmd fuel p s c = do_cmd fuel p s c) /\
  (forall fuel p cs s, sim_wf s -> gen_run_cmds fuel p s cs = run_cmds fuel p s cs) /\
  (forall p s, reachable p s -> sim_wf s).
Proof.
  split; [exact gen_sched_eq|]. split; [exact gen_cancel_eq|]. split; [exact gen_stop_eq|].
  split; [exact gen_exec_event_eq|]. split; [exact gen_step_eq|].
  split; [intros; apply gen_run_eq; assumption|]. split; [exact gen_worker_run_eq|].
  split; [exact settle_start_eq|]. split; [exact gen_do_cmd_eq|]. split; [exact gen_run_cmds_eq|].
  exact reachable_wf.
Qed.

(* the states the generated commands reach from a fresh simulator are the reachable states of the model *)
Inductive gen_reachable (p : program) : sim -> Prop :=
| gen_reach_init st : gen_reachable p (init_sim st)
| gen_reach_cmd s fuel c : gen_reachable p s -> gen_reachable p (fst (gen_do_cmd fuel p s c)).

Theorem gen_reachable_iff p s : gen_reachable p s <-> reachable p s.
Proof.
  split; induction 1; try constructor.
  - rewrite gen_do_cmd_eq by (apply (reachable_wf p); assumption). constructor. assumption.
  - rewrite <- gen_do_cmd_eq by (apply (reachable_wf p); assumption). constructor. assumption.
Qed.

Theorem gen_invariant_reachable p s : gen_reachable p s -> Inv s.
Proof. intros H. apply (reachable_inv p). apply gen_reachable_iff. exact H. Qed.

Theorem gen_at_most_once p s : gen_reachable p s -> NoDup (map ev_id (executed s)).
Proof. intros H. apply (at_most_once p). apply gen_reachable_iff. exact H. Qed.

Theorem gen_run_loop_is_a_sequence_of_takes p fuel w s : rep s <> None ->
  exists evs s1 s2, runs p s evs s1 /\ loop_exit s1 s2 /\ gen_DEVSSimulator__run fuel p w s = GRet RNone w s2.
Proof.
  intros Hr. destruct (run_loop_runs p fuel s) as [evs [s1 [H1 H2]]].
  exists evs, s1, (run_loop fuel p s). repeat split; auto. apply gen_run_eq. exact Hr.
Qed.

Theorem gen_illegal_refused s m prio h :
  match m with
  | MNow => False
  | MRel (TNum d) => d < 0
  | MRel TNaN => True
  | MAbs (TNum t) => t < clock s
  | MAbs TNaN => True
  end ->
  gen_sched s m prio h = out ORefused s
  /\ pend (gen_sched s m prio h) = pend s /\ nid (gen_sched s m prio h) = nid s.
Proof.
  intros H. rewrite gen_sched_eq. rewrite (illegal_refused_eq s m prio h H). repeat split.
Qed.

Theorem gen_legal_accepted s m prio h :
  ~ illegal s m ->
  exists t, sched_time s m = Some t /\ clock s <= t /\
    gen_sched s m prio h = out OAccepted (add_event t prio (HUser h) s).
Proof.
  intros H. rewrite gen_sched_eq. destruct (legal_accepted s m prio h H) as [t [H1 H2]].
  exists t. repeat split; auto. eapply sched_time_some; eauto.
Qed.

Theorem gen_cancel_pending_removes s k e :
  Inv s -> Acct s -> nth_error (created s) k = Some e -> In e (pend s) ->
  Permutation.Permutation (pend s) (e :: pend (gen_cancel s k)) /\ cancelled (gen_cancel s k) = e :: cancelled s.
Proof. rewrite gen_cancel_eq. apply cancel_pending_removes. Qed.

Theorem gen_cancel_done_noop s k e :
  Inv s -> nth_error (created s) k = Some e -> In e (executed s) \/ In e (cancelled s) -> gen_cancel s k = s.
Proof. rewrite gen_cancel_eq. apply cancel_done_noop. Qed.

Theorem gen_start_complete p fuel s r :
  sim_wf s -> Inv s -> Acct s -> rep s = Some r -> ps s <> PEnded ->
  let s' := fst (gen_do_cmd fuel p s CStart) in
  ps s' = PEnded ->
  exists evs newc,
    executed s' = rev evs ++ executed s
    /\ created s' = created s ++ newc
    /\ clock s' = r_end r
    /\ (forall e, In e evs -> In e (pend s) \/ In e newc)
    /\ (forall e, In e (pend s) \/ In e newc ->
          (In e evs <-> (~ In e (cancelled s') /\ ev_time e <= r_end r)))
    /\ (forall e, In e (pend s') -> r_end r < ev_time e).
Proof. intros Hwf. rewrite gen_do_cmd_eq by exact Hwf. apply start_complete. Qed.

Theorem gen_run_cmds_mono p fuel cs s :
  sim_wf s -> Inv s -> forallb (fun c => negb (is_init c)) cs = true ->
  let s' := fst (gen_run_cmds fuel p s cs) in
  clock s <= clock s' /\
  exists new, trace s' = new ++ trace s
    /\ Forall (fun ec => clock s <= snd ec <= clock s') new
    /\ Sorting.Sorted.StronglySorted (fun a b : ev * Z => snd b <= snd a) new.
Proof. intros Hwf. rewrite gen_run_cmds_eq by exact Hwf. apply run_cmds_mono. Qed.
