(* C04, model M2 (overlap): a small-step transition system of two threads - the
   simulator's run thread (SimulatorWorkerThread.run with DEVSSimulator._run
   inlined) and the thread that issues commands (start / run_up_to, step,
   stop, end_replication, cleanup) - at the granularity of the reads and
   writes of the shared variables
       _run_state, _replication_state, the wake-up Event, _runflag, _finalized
   (plus: "clock > end", the command thread's reference to the worker, and
   whether the subscriber is still attached).  Every interleaving of these
   steps is a behaviour of the system; what CPython can do *between* them
   (preemption inside a listed step) is not modelled.

   Nondeterminism stands for everything that is not lifecycle state: what the
   event list holds (another event / bound reached, bound before or at the
   replication end), what a handler does (nothing, fail under the pause
   strategy, call stop()), and - in the wait loops of the command thread - the
   one-second timeouts ("give up").

   Executable definitions only; the closure computation and the theorems are in
   Sim/OverlapProofs.v. *)
From Coq Require Import ZArith NArith PArith List Bool FMapPositive.
From PV Require Import Sim.Model Sim.Lifecycle.
Import ListNotations.

(* program counter of the run thread: the shared access it performs next *)
Inductive wpc :=
| WTop          (* while not self._finalized            (reads _finalized) *)
| WWait         (* self.__wakeup_flag.wait()            (blocked while the flag is down) *)
| WChkFin       (* if not self._finalized               (reads _finalized) *)
| WChkEnd1      (* if replication_state != ENDING       (reads _replication_state) *)
| WFireStart    (* fire START_EVENT *)
| WSetStarted   (* _run_state = STARTED *)
| WSetFlag      (* _run(): self._runflag = True *)
| WLoop         (* while not is_stopping_or_stopped()   (reads _run_state) *)
| WBody         (* loop body: next event or bound reached *)
| WSetEnding    (* bound = end: _replication_state = ENDING *)
| WSetStopping  (* _run_state = STOPPING; return *)
| WExec         (* TIME_CHANGED fired, handler running *)
| WHStopFire    (* handler called stop(): fire STOPPING_EVENT *)
| WHStopSet     (* handler's stop(): _run_state = STOPPING *)
| WFireStop     (* fire STOP_EVENT *)
| WSetStopped   (* _run_state = STOPPED *)
| WChkEnd2      (* if replication_state == ENDING       (reads _replication_state) *)
| WSetPEnded    (* _replication_state = ENDED *)
| WSetREnded    (* _run_state = ENDED *)
| WFireEnd      (* fire END_REPLICATION_EVENT *)
| WSetFinal     (* self._finalized = True *)
| WClear        (* self.__wakeup_flag.clear() *)
| WDead.        (* run() has returned *)

(* program counter of the command thread *)
Inductive mpc :=
| MIdle
(* _start_impl (start, run_up_to, run_up_to_including) *)
| MSt0 (* is_starting_or_running()? *) | MSt1 (* is_initialized()? *) | MSt2 (* replication state INITIALIZED / STARTED? *)
| MSt3 (* clock > end? *) | MSt4 (* _run_state = STARTING *) | MSt5 (* replication state == INITIALIZED? *)
| MSt5a (* fire START_REPLICATION *) | MSt5b (* _replication_state = STARTED *) | MSt6 (* fire STARTING *)
| MSt7 (* worker.wakeup() *) | MSt8 (* wait for _runflag, at most 1 s *) | MSt9 (* _runflag = False *)
(* step *)
| MSp0 | MSp1 | MSp2 | MSp3 | MSp4 | MSp4a | MSp4b | MSp5 (* _run_state = STARTED *) | MSp6 (* fire START *)
| MSp7 (* _step_impl *) | MSp8 (* fire STOP *) | MSp9 (* _run_state = STOPPED *)
(* stop *)
| MSo0 (* is_stopping_or_stopped()? *) | MSo1 (* fire STOPPING *) | MSo2 (* _run_state = STOPPING *)
| MSo3 (* wait until the worker waits or is finalized, at most 1 s *)
(* end_replication *)
| MEr0 (* replication state == STARTED? *) | MEr1 (* clock := end if earlier *) | MEr2 (* _replication_state = ENDING *)
| MEr3 (* worker.wakeup() *)
(* cleanup *)
| MCl0 (* remove_all_listeners; worker is None? *) | MCl1 (* _stop_impl: _run_state = STOPPING *) | MCl2 (* its wait *)
| MCl3 (* worker._finalized = True *) | MCl4 (* worker.wakeup() *) | MCl5 (* self.__worker = None *)
| MCl6 (* _run_state = NOT_INITIALIZED *) | MCl7 (* _replication_state = NOT_INITIALIZED *).

Inductive ocmd := OStart | OStep | OStop | OEndRepl | OCleanup.
Definition all_ocmds : list ocmd := [OStart; OStep; OStop; OEndRepl; OCleanup].

Record ostate := mkO {
  o_rs : runst;             (* _run_state *)
  o_ps : replst;            (* _replication_state *)
  o_wake : bool;            (* wake-up Event *)
  o_runflag : bool;         (* _runflag *)
  o_final : bool;           (* worker._finalized *)
  o_past : bool;            (* simulator_time > end_sim_time: start / step refuse then.  No step of the
                               system makes it true (the clock never moves beyond the end: bounds are
                               capped, end_replication sets clock := end); it is false after a normal
                               initialize and kept only to make the check visible *)
  o_hasw : bool;            (* the simulator still references its worker *)
  o_err : bool;             (* a command raised something other than DSOLError *)
  o_det : bool;             (* listeners removed by cleanup *)
  o_w : wpc;
  o_m : mpc;
  o_mon : option mon        (* state of Lifecycle's monitor on the stream so far; None = rejected *)
}.

Definition up_rs v s := mkO v (o_ps s) (o_wake s) (o_runflag s) (o_final s) (o_past s) (o_hasw s) (o_err s) (o_det s) (o_w s) (o_m s) (o_mon s).
Definition up_ps v s := mkO (o_rs s) v (o_wake s) (o_runflag s) (o_final s) (o_past s) (o_hasw s) (o_err s) (o_det s) (o_w s) (o_m s) (o_mon s).
Definition up_wake v s := mkO (o_rs s) (o_ps s) v (o_runflag s) (o_final s) (o_past s) (o_hasw s) (o_err s) (o_det s) (o_w s) (o_m s) (o_mon s).
Definition up_runflag v s := mkO (o_rs s) (o_ps s) (o_wake s) v (o_final s) (o_past s) (o_hasw s) (o_err s) (o_det s) (o_w s) (o_m s) (o_mon s).
Definition up_final v s := mkO (o_rs s) (o_ps s) (o_wake s) (o_runflag s) v (o_past s) (o_hasw s) (o_err s) (o_det s) (o_w s) (o_m s) (o_mon s).
Definition up_past v s := mkO (o_rs s) (o_ps s) (o_wake s) (o_runflag s) (o_final s) v (o_hasw s) (o_err s) (o_det s) (o_w s) (o_m s) (o_mon s).
Definition up_hasw v s := mkO (o_rs s) (o_ps s) (o_wake s) (o_runflag s) (o_final s) (o_past s) v (o_err s) (o_det s) (o_w s) (o_m s) (o_mon s).
Definition up_err v s := mkO (o_rs s) (o_ps s) (o_wake s) (o_runflag s) (o_final s) (o_past s) (o_hasw s) v (o_det s) (o_w s) (o_m s) (o_mon s).
Definition up_det v s := mkO (o_rs s) (o_ps s) (o_wake s) (o_runflag s) (o_final s) (o_past s) (o_hasw s) (o_err s) v (o_w s) (o_m s) (o_mon s).
Definition up_w v s := mkO (o_rs s) (o_ps s) (o_wake s) (o_runflag s) (o_final s) (o_past s) (o_hasw s) (o_err s) (o_det s) v (o_m s) (o_mon s).
Definition up_m v s := mkO (o_rs s) (o_ps s) (o_wake s) (o_runflag s) (o_final s) (o_past s) (o_hasw s) (o_err s) (o_det s) (o_w s) v (o_mon s).
Definition up_mon v s := mkO (o_rs s) (o_ps s) (o_wake s) (o_runflag s) (o_final s) (o_past s) (o_hasw s) (o_err s) (o_det s) (o_w s) (o_m s) v.

(* a notification reaches the subscriber (unless cleanup has detached it) and
   moves Lifecycle's monitor; timestamps are abstracted to 0 *)
Definition notify (n : ntf) (s : ostate) : ostate :=
  if o_det s then s
  else up_mon (match o_mon s with Some m => mon_step m n | None => None end) s.

Definition wpc_eqb (a b : wpc) : bool :=
  match a, b with
  | WTop, WTop | WWait, WWait | WChkFin, WChkFin | WChkEnd1, WChkEnd1 | WFireStart, WFireStart
  | WSetStarted, WSetStarted | WSetFlag, WSetFlag | WLoop, WLoop | WBody, WBody | WSetEnding, WSetEnding
  | WSetStopping, WSetStopping | WExec, WExec | WHStopFire, WHStopFire | WHStopSet, WHStopSet
  | WFireStop, WFireStop | WSetStopped, WSetStopped | WChkEnd2, WChkEnd2 | WSetPEnded, WSetPEnded
  | WSetREnded, WSetREnded | WFireEnd, WFireEnd | WSetFinal, WSetFinal | WClear, WClear | WDead, WDead => true
  | _, _ => false
  end.

Definition is_ending (p : replst) : bool := match p with PEnding => true | _ => false end.

(* worker.is_waiting(): blocked in wait() with the flag down *)
Definition worker_waiting (s : ostate) : bool := wpc_eqb (o_w s) WWait && negb (o_wake s).
Definition worker_dead (s : ostate) : bool := wpc_eqb (o_w s) WDead.
Definition worker_blocked (s : ostate) : bool := worker_waiting s || worker_dead s.

(* ---- the run thread ---- *)
Definition wstep (s : ostate) : list ostate :=
  match o_w s with
  | WTop => [up_w (if o_final s then WDead else WWait) s]
  | WWait => if o_wake s then [up_w WChkFin s] else []
  | WChkFin => [up_w (if o_final s then WClear else WChkEnd1) s]
  | WChkEnd1 => [up_w (if is_ending (o_ps s) then WChkEnd2 else WFireStart) s]
  | WFireStart => [up_w WSetStarted (notify (NStart 0) s)]
  | WSetStarted => [up_w WSetFlag (up_rs RStarted s)]
  | WSetFlag => [up_w WLoop (up_runflag true s)]
  | WLoop => [up_w (if rs_running (o_rs s) then WBody else WFireStop) s]
  | WBody => [up_w WExec (notify (NTime 0) s);            (* another event within the bound *)
              up_w WSetEnding s;                          (* bound reached, bound = end (clock := end) *)
              up_w WSetStopping s]                        (* bound reached, bound < end *)
  | WSetEnding => [up_w WSetStopping (up_ps PEnding s)]
  | WSetStopping => [up_w WFireStop (up_rs RStopping s)]
  | WExec => [up_w WLoop s;                               (* handler returns *)
              up_w WLoop (up_rs RStopping s);             (* handler failed, pause strategy *)
              up_w (if rs_running (o_rs s) then WHStopFire else WLoop) s]   (* handler calls stop() *)
  | WHStopFire => [up_w WHStopSet (notify NStopping s)]
  | WHStopSet => [up_w WLoop (up_rs RStopping s)]
  | WFireStop => [up_w WSetStopped (notify (NStop 0) s)]
  | WSetStopped => [up_w WChkEnd2 (up_rs RStopped s)]
  | WChkEnd2 => [up_w (if is_ending (o_ps s) then WSetPEnded else WClear) s]
  | WSetPEnded => [up_w WSetREnded (up_ps PEnded s)]
  | WSetREnded => [up_w WFireEnd (up_rs REnded s)]
  | WFireEnd => [up_w WSetFinal (notify (NEndRepl 0) s)]
  | WSetFinal => [up_w WClear (up_final true s)]
  | WClear => [up_w WTop (up_wake false s)]
  | WDead => []
  end.

(* ---- the command thread ----
   [loose = false]: a one-second wait gives up only when the run thread is
   blocked (so the awaited condition cannot come true by itself);
   [loose = true]: it may give up at any time (a run thread that is slower
   than one second, e.g. inside a long handler). *)
Definition giveup (loose : bool) (s : ostate) : bool := loose || worker_blocked s.

Definition refuse (s : ostate) : ostate := up_m MIdle s.

Definition mstep (loose : bool) (s : ostate) : list ostate :=
  match o_m s with
  | MIdle => []
  (* start / run_up_to *)
  | MSt0 => [if rs_running (o_rs s) then refuse s else up_m MSt1 s]
  | MSt1 => [if rs_initialized (o_rs s) then up_m MSt2 s else refuse s]
  | MSt2 => [if ps_runnable (o_ps s) then up_m MSt3 s else refuse s]
  | MSt3 => [if o_past s then refuse s else up_m MSt4 s]
  | MSt4 => [up_m MSt5 (up_rs RStarting s)]
  | MSt5 => [up_m (match o_ps s with PInit => MSt5a | _ => MSt6 end) s]
  | MSt5a => [up_m MSt5b (notify (NStartRepl 0) s)]
  | MSt5b => [up_m MSt6 (up_ps PStarted s)]
  | MSt6 => [up_m MSt7 (notify NStarting s)]
  | MSt7 => [if o_hasw s then up_m MSt8 (up_wake true s) else up_m MIdle (up_err true s)]
  | MSt8 => (if o_runflag s then [up_m MSt9 s] else []) ++ (if giveup loose s then [up_m MSt9 s] else [])
  | MSt9 => [up_m MIdle (up_runflag false s)]
  (* step *)
  | MSp0 => [if rs_running (o_rs s) then refuse s else up_m MSp1 s]
  | MSp1 => [if rs_initialized (o_rs s) then up_m MSp2 s else refuse s]
  | MSp2 => [if ps_runnable (o_ps s) then up_m MSp3 s else refuse s]
  | MSp3 => [if o_past s then refuse s else up_m MSp4 s]
  | MSp4 => [up_m (match o_ps s with PInit => MSp4a | _ => MSp5 end) s]
  | MSp4a => [up_m MSp4b (notify (NStartRepl 0) s)]
  | MSp4b => [up_m MSp5 (up_ps PStarted s)]
  | MSp5 => [up_m MSp6 (up_rs RStarted s)]
  | MSp6 => [up_m MSp7 (notify (NStart 0) s)]
  | MSp7 => [up_m MSp8 s; up_m MSp8 (notify (NTime 0) s)]
  | MSp8 => [up_m MSp9 (notify (NStop 0) s)]
  | MSp9 => [up_m MIdle (up_rs RStopped s)]
  (* stop *)
  | MSo0 => [if rs_running (o_rs s) then up_m MSo1 s else refuse s]
  | MSo1 => [up_m MSo2 (notify NStopping s)]
  | MSo2 => [up_m MSo3 (up_rs RStopping s)]
  | MSo3 => if o_hasw s
            then (if worker_waiting s || o_final s then [up_m MIdle s] else [])
                 ++ (if giveup loose s then [up_m MIdle s] else [])
            else [up_m MIdle (up_err true s)]
  (* end_replication *)
  | MEr0 => [match o_ps s with PStarted => up_m MEr1 s | _ => refuse s end]
  | MEr1 => [up_m MEr2 s]
  | MEr2 => [up_m MEr3 (up_ps PEnding s)]
  | MEr3 => [if o_hasw s then up_m MIdle (up_wake true s) else up_m MIdle (up_err true s)]
  (* cleanup *)
  | MCl0 => [up_m (if o_hasw s then MCl1 else MCl6) (up_det true s)]
  | MCl1 => [up_m MCl2 (up_rs RStopping s)]
  | MCl2 => (if worker_waiting s || o_final s then [up_m MCl3 s] else [])
            ++ (if giveup loose s then [up_m MCl3 s] else [])
  | MCl3 => [up_m MCl4 (up_final true s)]
  | MCl4 => [up_m MCl5 (up_wake true s)]
  | MCl5 => [up_m MCl6 (up_hasw false s)]
  | MCl6 => [up_m MCl7 (up_rs RNotInit s)]
  | MCl7 => [up_m MIdle (up_ps PNotInit s)]
  end.

Definition first_pc (c : ocmd) : mpc :=
  match c with OStart => MSt0 | OStep => MSp0 | OStop => MSo0 | OEndRepl => MEr0 | OCleanup => MCl0 end.

Definition mpc_idle (m : mpc) : bool := match m with MIdle => true | _ => false end.

(* issuing the next command: only when the previous one has returned, and
   only if the policy [pol] allows it in the current state.  Policies:
   [pol_any] - at any time (full overlap); [pol_quiescent] - only when the run
   thread is blocked (the sequential discipline of M1); [pol_none] - never. *)
Definition policy := ostate -> ocmd -> bool.
Definition pol_any : policy := fun _ _ => true.
Definition pol_none : policy := fun _ _ => false.
Definition pol_quiescent : policy := fun s _ => worker_blocked s.

Definition issue (pol : policy) (s : ostate) : list ostate :=
  if mpc_idle (o_m s)
  then map (fun c => up_m (first_pc c) s) (filter (pol s) all_ocmds)
  else [].

Definition succs (loose : bool) (pol : policy) (s : ostate) : list ostate :=
  wstep s ++ mstep loose s ++ issue pol s.

(* the simulator right after initialize() *)
Definition oinit : ostate :=
  mkO RInit PInit false false false false true false false WWait MIdle (Some (mon_fresh 0)).

(* ---- quiescence and the invariants of M1 ---- *)
Definition quiescent (s : ostate) : bool := mpc_idle (o_m s) && worker_blocked s.

(* the run thread as M1 sees it *)
Definition o_wstate (s : ostate) : wstate :=
  if worker_dead s then (if o_hasw s then WFinal else WNone) else WAlive.

(* what M1 proves of every quiescent state (Lifecycle.qstate_ok, mon_quiet,
   mon_agrees), plus: no foreign exception, no stale _runflag.  Once cleanup has
   removed the listeners the subscriber's stream is cut wherever it was, so
   only "not rejected so far" is asked of it. *)
Definition qgood (s : ostate) : bool :=
  qstate_ok (o_rs s) (o_ps s) (o_wstate s)
  && negb (o_err s) && negb (o_runflag s)
  && match o_mon s with
     | Some m => o_det s || (mon_quiet m && mon_agrees m (o_rs s) (o_ps s))
     | None => false
     end.

(* ---- encoding of states as positive numbers (keys of the state table) ---- *)
Local Open Scope N_scope.

Definition n_rs (r : runst) : N :=
  match r with RNotInit => 0 | RInit => 1 | RStarting => 2 | RStarted => 3 | RStopping => 4 | RStopped => 5 | REnded => 6 end.
Definition n_ps (p : replst) : N :=
  match p with PNotInit => 0 | PInit => 1 | PStarted => 2 | PEnding => 3 | PEnded => 4 end.
Definition n_b (b : bool) : N := if b then 1 else 0.
Definition n_w (w : wpc) : N :=
  match w with
  | WTop => 0 | WWait => 1 | WChkFin => 2 | WChkEnd1 => 3 | WFireStart => 4 | WSetStarted => 5 | WSetFlag => 6
  | WLoop => 7 | WBody => 8 | WSetEnding => 9 | WSetStopping => 10 | WExec => 11 | WHStopFire => 12 | WHStopSet => 13
  | WFireStop => 14 | WSetStopped => 15 | WChkEnd2 => 16 | WSetPEnded => 17 | WSetREnded => 18 | WFireEnd => 19
  | WSetFinal => 20 | WClear => 21 | WDead => 22
  end.
Definition n_m (m : mpc) : N :=
  match m with
  | MIdle => 0 | MSt0 => 1 | MSt1 => 2 | MSt2 => 3 | MSt3 => 4 | MSt4 => 5 | MSt5 => 6 | MSt5a => 7 | MSt5b => 8
  | MSt6 => 9 | MSt7 => 10 | MSt8 => 11 | MSt9 => 12
  | MSp0 => 13 | MSp1 => 14 | MSp2 => 15 | MSp3 => 16 | MSp4 => 17 | MSp4a => 18 | MSp4b => 19 | MSp5 => 20
  | MSp6 => 21 | MSp7 => 22 | MSp8 => 23 | MSp9 => 24
  | MSo0 => 25 | MSo1 => 26 | MSo2 => 27 | MSo3 => 28
  | MEr0 => 29 | MEr1 => 30 | MEr2 => 31 | MEr3 => 32
  | MCl0 => 33 | MCl1 => 34 | MCl2 => 35 | MCl3 => 36 | MCl4 => 37 | MCl5 => 38 | MCl6 => 39 | MCl7 => 40
  end.
Definition n_mon (m : option mon) : N :=
  match m with
  | None => 0
  | Some m => 1 + n_b (m_live m) + 2 * n_b (m_sr m) + 4 * n_b (m_run m) + 8 * n_b (m_starting m)
              + 16 * n_b (m_er m) + 32 * n_b (m_warm m)
              + 64 * (match m_last m with None => 0 | Some _ => 1 end)
  end.

Definition enc (s : ostate) : positive :=
  N.succ_pos
    (n_rs (o_rs s) + 7 * (n_ps (o_ps s) + 5 * (n_b (o_wake s) + 2 * (n_b (o_runflag s) + 2 * (n_b (o_final s)
     + 2 * (n_b (o_past s) + 2 * (n_b (o_hasw s) + 2 * (n_b (o_err s) + 2 * (n_b (o_det s)
     + 2 * (n_w (o_w s) + 23 * (n_m (o_m s) + 41 * n_mon (o_mon s)))))))))))).

Definition optZ_eqb (a b : option Z) : bool :=
  match a, b with Some x, Some y => Z.eqb x y | None, None => true | _, _ => false end.

Definition mon_eqb (a b : mon) : bool :=
  Bool.eqb (m_live a) (m_live b) && Z.eqb (m_w a) (m_w b) && Bool.eqb (m_sr a) (m_sr b)
  && Bool.eqb (m_run a) (m_run b) && Bool.eqb (m_starting a) (m_starting b)
  && Bool.eqb (m_warm a) (m_warm b) && Bool.eqb (m_er a) (m_er b) && optZ_eqb (m_last a) (m_last b).

Definition omon_eqb (a b : option mon) : bool :=
  match a, b with Some x, Some y => mon_eqb x y | None, None => true | _, _ => false end.

Definition ostate_eqb (a b : ostate) : bool :=
  runst_eqb (o_rs a) (o_rs b) && replst_eqb (o_ps a) (o_ps b)
  && Bool.eqb (o_wake a) (o_wake b) && Bool.eqb (o_runflag a) (o_runflag b)
  && Bool.eqb (o_final a) (o_final b) && Bool.eqb (o_past a) (o_past b)
  && Bool.eqb (o_hasw a) (o_hasw b) && Bool.eqb (o_err a) (o_err b) && Bool.eqb (o_det a) (o_det b)
  && N.eqb (n_w (o_w a)) (n_w (o_w b)) && N.eqb (n_m (o_m a)) (n_m (o_m b))
  && omon_eqb (o_mon a) (o_mon b).

(* ---- reachable sets by closure (breadth first, table keyed by [enc]) ---- *)
Module PM := PositiveMap.

Definition visit (succ : ostate -> list ostate) (acc : PM.t ostate * list ostate) (s : ostate)
  : PM.t ostate * list ostate :=
  fold_left (fun (a : PM.t ostate * list ostate) s' =>
               let '(T, nx) := a in
               match PM.find (enc s') T with
               | Some _ => a
               | None => (PM.add (enc s') s' T, s' :: nx)
               end) (succ s) acc.

(* returns the table and the size of the frontier left when the fuel ran out
   (0 = the closure is complete; the theorems do not rely on it, they re-check
   closedness of the table) *)
Fixpoint bfs (fuel : nat) (succ : ostate -> list ostate) (frontier : list ostate) (T : PM.t ostate)
  : PM.t ostate * nat :=
  match fuel with
  | O => (T, length frontier)
  | S f =>
      match frontier with
      | [] => (T, O)
      | _ => let '(T', nx) := fold_left (visit succ) frontier (T, []) in bfs f succ nx T'
      end
  end.

Definition table_of_list (l : list ostate) : PM.t ostate :=
  fold_left (fun T s => PM.add (enc s) s T) l (PM.empty ostate).

Definition closure_from (loose : bool) (pol : policy) (starts : list ostate) : PM.t ostate :=
  fst (bfs 4000 (succs loose pol) starts (table_of_list starts)).

Definition closure (loose : bool) (pol : policy) : PM.t ostate := closure_from loose pol [oinit].

Definition states (T : PM.t ostate) : list ostate := map snd (PM.elements T).

(* ---- windows in which a command may overlap the run thread harmlessly ---- *)
Definition safe_pair (w : wpc) (c : ocmd) : bool :=
  match c with
  | OCleanup => true
  | OStart =>
      match w with
      | WLoop | WBody | WSetStopping | WExec | WHStopFire | WHStopSet | WFireStop | WSetStopped
      | WChkEnd2 | WClear => false
      | _ => true
      end
  | OStep =>
      match w with
      | WLoop | WBody | WSetStopping | WExec | WHStopFire | WHStopSet | WFireStop => false
      | _ => true
      end
  | OStop =>
      match w with
      | WLoop | WBody | WSetEnding | WSetStopping | WExec | WHStopFire | WHStopSet => false
      | _ => true
      end
  | OEndRepl =>
      match w with
      | WLoop | WBody | WSetEnding | WSetStopping | WExec | WHStopFire | WHStopSet | WFireStop
      | WSetStopped | WChkEnd2 | WClear => false
      | _ => true
      end
  end.

Definition pol_safe : policy := fun s c => worker_blocked s || safe_pair (o_w s) c.

(* ---- what can be wrong with a quiescent state of the unrestricted system ---- *)
Definition stuck_run_state (s : ostate) : bool :=
  match o_rs s with RStarting | RStarted | RStopping => true | _ => false end.
Definition stuck_ending (s : ostate) : bool := is_ending (o_ps s).
Definition stopped_after_ended (s : ostate) : bool :=
  match o_rs s, o_ps s with RStopped, PEnded => true | _, _ => false end.
Definition starting_lost (s : ostate) : bool :=
  match o_mon s with Some m => negb (o_det s) && m_starting m | None => false end.
Definition stream_rejected (s : ostate) : bool :=
  match o_mon s with None => true | Some _ => false end.

Definition symptom (s : ostate) : bool :=
  stuck_run_state s || stuck_ending s || stopped_after_ended s || starting_lost s || stream_rejected s.

(* further symptoms when a one-second wait may give up although the run thread
   is still making progress: a stale _runflag, a write of the old run thread
   that lands after cleanup() has reset the states, a command that raises
   AttributeError because it meets the dropped worker reference *)
Definition late_write_after_cleanup (s : ostate) : bool :=
  negb (o_hasw s)
  && negb (match o_rs s, o_ps s with RNotInit, PNotInit => true | _, _ => false end).

Definition symptom_loose (s : ostate) : bool :=
  symptom s || o_runflag s || o_err s || late_write_after_cleanup s.

(* ---- schedules: explicit interleavings ---- *)
Inductive lab :=
| LW (i : nat)      (* the run thread takes its i-th enabled step *)
| LM (i : nat)      (* the command thread takes its i-th enabled step *)
| LI (c : ocmd).    (* the command thread issues c *)

Definition lab_step (loose : bool) (s : ostate) (l : lab) : option ostate :=
  match l with
  | LW i => nth_error (wstep s) i
  | LM i => nth_error (mstep loose s) i
  | LI c => if mpc_idle (o_m s) then Some (up_m (first_pc c) s) else None
  end.

Fixpoint run_sched (loose : bool) (s : ostate) (ls : list lab) : option ostate :=
  match ls with
  | [] => Some s
  | l :: r => match lab_step loose s l with Some s1 => run_sched loose s1 r | None => None end
  end.

Fixpoint rep_lab (n : nat) (l : lab) : list lab :=
  match n with O => [] | S k => l :: rep_lab k l end.

(* ---- the tie to forced interleavings on the implementation (harness C2) ----
   The run thread is held at pc [w] with the shared state (r, p) while the
   command thread is idle; the command thread then issues [c] and no further
   command.  [overlap_outcomes] are the quiescent states the model allows. *)
Definition ocmd_eqb (a b : ocmd) : bool :=
  match a, b with
  | OStart, OStart | OStep, OStep | OStop, OStop | OEndRepl, OEndRepl | OCleanup, OCleanup => true
  | _, _ => false
  end.

Definition held_at (T : PM.t ostate) (w : wpc) (r : runst) (p : replst) : list ostate :=
  filter (fun s => wpc_eqb (o_w s) w && mpc_idle (o_m s) && runst_eqb (o_rs s) r && replst_eqb (o_ps s) p
                   && negb (o_det s))
         (states T).

Definition overlap_outcomes (T : PM.t ostate) (w : wpc) (r : runst) (p : replst) (c : ocmd) : list ostate :=
  filter quiescent
    (states (closure_from true pol_none (map (fun s => up_m (first_pc c) s) (held_at T w r p)))).

(* the same when the run thread is not held any more at the moment the command
   is issued (the gate has let it go): all that is known is the shared state
   (r, p) seen at that moment, with the command thread idle *)
Definition idle_with (T : PM.t ostate) (r : runst) (p : replst) : list ostate :=
  filter (fun s => mpc_idle (o_m s) && runst_eqb (o_rs s) r && replst_eqb (o_ps s) p && negb (o_det s))
         (states T).

Definition overlap_outcomes_from (loose : bool) (starts : list ostate) (c : ocmd) : list ostate :=
  filter quiescent (states (closure_from loose pol_none (map (fun s => up_m (first_pc c) s) starts))).

(* what the harness can see of a quiescent state *)
Record oview := mkOview {
  v_rs : runst; v_ps : replst; v_alive : bool;
  v_mon : option (bool * bool * bool * bool)       (* sr, run, starting, er; None = stream rejected *)
}.

Definition mon_flags (m : option mon) : option (bool * bool * bool * bool) :=
  match m with Some m => Some (m_sr m, m_run m, m_starting m, m_er m) | None => None end.

Definition view_of (s : ostate) : oview :=
  mkOview (o_rs s) (o_ps s) (negb (worker_dead s)) (mon_flags (o_mon s)).

Definition flags_eqb (a b : option (bool * bool * bool * bool)) : bool :=
  match a, b with
  | Some (a1, a2, a3, a4), Some (b1, b2, b3, b4) =>
      Bool.eqb a1 b1 && Bool.eqb a2 b2 && Bool.eqb a3 b3 && Bool.eqb a4 b4
  | None, None => true
  | _, _ => false
  end.

Definition oview_eqb (a b : oview) : bool :=
  runst_eqb (v_rs a) (v_rs b) && replst_eqb (v_ps a) (v_ps b) && Bool.eqb (v_alive a) (v_alive b)
  && flags_eqb (v_mon a) (v_mon b).

Definition overlap_allows (T : PM.t ostate) (w : wpc) (r : runst) (p : replst) (c : ocmd) (v : oview) : bool :=
  existsb (fun s => oview_eqb (view_of s) v) (overlap_outcomes T w r p c).

(* [loose]: whether the one-second waits may give up while the run thread is
   still making progress (needed when a gate holds a thread for longer);
   [w = None]: the run thread was no longer held when the command was issued *)
Definition overlap_allows_gen (loose : bool) (T : PM.t ostate) (w : option wpc) (r : runst) (p : replst)
           (c : ocmd) (v : oview) : bool :=
  existsb (fun s => oview_eqb (view_of s) v)
          (overlap_outcomes_from loose
             (match w with Some w => held_at T w r p | None => idle_with T r p end) c).
