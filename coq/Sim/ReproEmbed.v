(* C07 -- the composed model Sim/Repro.v restricted to programs without
   pub/sub, streams and statistics IS the simulator model Sim/Model.v: for
   every program p of Sim/Model.v, every command sequence and every state, the
   simulator part of the composed run of [embed p] equals the run of p (given
   enough machine fuel for the longest handler body).  So the theorems of
   C02-C06 about Sim/Model.v are theorems about this fragment of the composed
   model. *)
From Coq Require Import ZArith List Bool Lia Arith.
From PV Require Import EventList.Key Sim.Model Sim.Case Sim.Reinit Sim.Repro.
Import ListNotations.
Local Open Scope Z_scope.

Section Embed.
Variable nint : Z -> Z -> Z -> Z.

Lemma with_sim_id y : with_sim y (y_sim y) = y.
Proof. destruct y; reflexivity. Qed.

Lemma with_sim_with_sim y a b : with_sim (with_sim y a) b = with_sim y b.
Proof. reflexivity. Qed.

Lemma machine_embed M md acts : forall fuel y,
  (length acts < fuel)%nat ->
  ymachine nint M fuel md y (map IAct (map YA acts))
  = (with_sim y (fst (exec_actions md (y_sim y) acts)), snd (exec_actions md (y_sim y) acts)).
Proof.
  induction acts as [|a r IH]; intros fuel y L; (destruct fuel as [|f]; [cbn in L; lia|]).
  - cbn [map ymachine exec_actions fst snd]. rewrite with_sim_id. reflexivity.
  - cbn [map ymachine exec_actions ystep].
    destruct (exec_action md (y_sim y) a) as [s1 f1]. destruct f1; cbn [fst snd]; [reflexivity|].
    rewrite IH by (cbn in L; lia). cbn [y_sim with_sim]. reflexivity.
Qed.

Variable p : program.
Variable hf : nat.
Hypothesis hf_ok : forall h, (length (body p h) < hf)%nat.

Lemma hbody_embed h : hbody (embed p) h = map YA (body p h).
Proof.
  unfold hbody, embed, body. cbn [ym_prog].
  change (@nil yaction) with (map YA []). apply map_nth.
Qed.

Lemma yexec_event_embed md y e :
  yexec_event nint (embed p) hf md y e
  = (with_sim y (fst (exec_event md p (y_sim y) e)), snd (exec_event md p (y_sim y) e)).
Proof.
  unfold yexec_event, exec_event. destruct (ev_h e) as [|h]; [reflexivity|].
  unfold yexec. rewrite hbody_embed, machine_embed by apply hf_ok. reflexivity.
Qed.

Lemma ytake_event_embed y e r :
  ytake_event nint (embed p) hf y e r = with_sim y (take_event p (y_sim y) e r).
Proof.
  unfold ytake_event, take_event. rewrite yexec_event_embed. cbn [y_sim with_sim].
  destruct (exec_event InRun p _ e) as [s3 fl]. cbn [fst snd y_sim with_sim].
  destruct fl, (strat s3); reflexivity.
Qed.

Lemma yrun_loop_embed fuel : forall y,
  yrun_loop nint (embed p) fuel hf y = with_sim y (run_loop fuel p (y_sim y)).
Proof.
  induction fuel as [|n IH]; intros y; cbn [yrun_loop run_loop].
  - destruct (running (y_sim y)); [reflexivity|rewrite with_sim_id; reflexivity].
  - destruct (running (y_sim y)); [|rewrite with_sim_id; reflexivity].
    destruct (pend (y_sim y)) as [|e r]; [reflexivity|].
    destruct (beyond (y_sim y) e); [reflexivity|].
    rewrite ytake_event_embed, IH. reflexivity.
Qed.

Lemma yworker_run_embed fuel y :
  yworker_run nint (embed p) fuel hf y = with_sim y (worker_run fuel p (y_sim y)).
Proof.
  unfold yworker_run, worker_run. destruct (worker (y_sim y)); try (rewrite with_sim_id; reflexivity).
  destruct (ps (y_sim y)); try reflexivity; rewrite yrun_loop_embed; reflexivity.
Qed.

Lemma ydo_start_embed fuel y b i :
  ydo_start nint (embed p) fuel hf y b i
  = (with_sim y (fst (do_start fuel p (y_sim y) b i)), snd (do_start fuel p (y_sim y) b i)).
Proof.
  unfold ydo_start, do_start. destruct (start_checks (y_sim y)); [|rewrite with_sim_id; reflexivity].
  destruct b as [bz|]; [|rewrite with_sim_id; reflexivity].
  destruct (bz <? clock (y_sim y)); [rewrite with_sim_id; reflexivity|].
  destruct (if bz >? end_time (y_sim y) then (end_time (y_sim y), true) else (bz, i)) as [bz' i'].
  rewrite yworker_run_embed. reflexivity.
Qed.

Lemma ystep_event_embed y e r :
  ystep_event nint (embed p) hf y e r = with_sim y (step_event p (y_sim y) e r).
Proof. unfold ystep_event, step_event. rewrite yexec_event_embed. reflexivity. Qed.

Lemma ydo_step_embed y :
  ydo_step nint (embed p) hf y = (with_sim y (fst (do_step p (y_sim y))), snd (do_step p (y_sim y))).
Proof.
  unfold ydo_step, do_step. destruct (step_checks (y_sim y)); [|rewrite with_sim_id; reflexivity].
  cbn [fst snd].
  match goal with |- context [match pend ?s2 with _ => _ end] => destruct (pend s2) as [|e r] end; [reflexivity|].
  match goal with |- context [if ?c then _ else _] => destruct c end; [reflexivity|].
  rewrite ystep_event_embed. reflexivity.
Qed.

Lemma ydo_end_repl_embed fuel y :
  ydo_end_repl nint (embed p) fuel hf y
  = (with_sim y (fst (do_end_repl fuel p (y_sim y))), snd (do_end_repl fuel p (y_sim y))).
Proof.
  unfold ydo_end_repl, do_end_repl. destruct (ps (y_sim y)); try (rewrite with_sim_id; reflexivity).
  rewrite yworker_run_embed. reflexivity.
Qed.

Lemma ydo_init_embed y r :
  y_sim (fst (fst (ydo_init nint (embed p) hf y r))) = fst (do_init p (y_sim y) r)
  /\ snd (fst (ydo_init nint (embed p) hf y r)) = snd (do_init p (y_sim y) r)
  /\ snd (ydo_init nint (embed p) hf y r) = false.
Proof.
  unfold ydo_init, do_init. destruct (running (y_sim y)); [cbn; auto|].
  cbn [ym_stats embed build_stats negb].
  unfold yexec. rewrite hbody_embed, machine_embed by apply hf_ok. cbn [y_sim fst snd].
  match goal with |- context [exec_actions InConstruct ?s2 (body p 0)] =>
    destruct (exec_actions InConstruct s2 (body p 0)) as [s3 fl] end.
  cbn [fst snd]. destruct fl; cbn [y_sim with_sim yflag]; auto.
Qed.

Theorem ydo_cmd_embed fuel y c :
  y_sim (fst (fst (ydo_cmd nint fuel hf (embed p) y c))) = fst (do_cmd fuel p (y_sim y) c)
  /\ snd (fst (ydo_cmd nint fuel hf (embed p) y c)) = snd (do_cmd fuel p (y_sim y) c)
  /\ snd (ydo_cmd nint fuel hf (embed p) y c) = false.
Proof.
  destruct c; cbn [ydo_cmd do_cmd].
  - apply ydo_init_embed.
  - cbn; auto.
  - destruct (rep (y_sim y)); [|cbn; auto]. rewrite ydo_start_embed. cbn; auto.
  - rewrite ydo_step_embed. cbn; auto.
  - destruct (running (y_sim y)); cbn; auto.
  - rewrite ydo_start_embed. cbn; auto.
  - rewrite ydo_start_embed. cbn; auto.
  - rewrite ydo_end_repl_embed. cbn; auto.
  - cbn; auto.
Qed.

(* every command sequence: same simulator state, same snapshots *)
Theorem y_hist_embed fuel cs : forall y,
  let ry := y_hist nint fuel hf y (map (fun c => (embed p, c)) cs) in
  let rm := run_cmds fuel p (y_sim y) cs in
  y_sim (fst (fst ry)) = fst rm /\ snd (fst ry) = snd rm /\ snd ry = false.
Proof.
  induction cs as [|c r IH]; intros y; cbn [map y_hist run_cmds]; [cbn; auto|].
  destruct (ydo_cmd_embed fuel y c) as (E1 & E2 & E3).
  destruct (ydo_cmd nint fuel hf (embed p) y c) as [[y1 res] bad]. cbn [fst snd] in *.
  destruct (do_cmd fuel p (y_sim y) c) as [s1 res']. cbn [fst snd] in *. subst s1 res' bad.
  destruct (IH y1) as (F1 & F2 & F3). cbv zeta in F1, F2, F3.
  destruct (y_hist nint fuel hf y1 _) as [[y2 sn] b2]. cbn [fst snd] in *.
  destruct (run_cmds fuel p (y_sim y1) r) as [s2 sn']. cbn [fst snd] in *. subst s2 sn' b2.
  auto.
Qed.

End Embed.

(* C03's pause-point theorem, read on the composed model for its fragment
   without pub/sub and streams *)
From PV Require Import Sim.Order Sim.Horizon.

Theorem composed_pause_point_independence_embedded nint p p' hf hf' fuel fuel' cs cs' y t :
  (forall h, (length (body p h) < hf)%nat) -> (forall h, (length (body p' h) < hf')%nat) ->
  prog_equiv p p' -> core_eq (y_sim y) (y_sim t) -> Quiet (y_sim y) -> Quiet (y_sim t) ->
  forallb is_runcmd cs = true -> forallb is_runcmd cs' = true ->
  let s1 := y_sim (fst (fst (y_hist nint fuel hf y (map (fun c => (embed p, c)) cs)))) in
  let t1 := y_sim (fst (fst (y_hist nint fuel' hf' t (map (fun c => (embed p', c)) cs')))) in
  ps s1 = PEnded -> incl s1 = true -> ps t1 = PEnded -> incl t1 = true ->
  trace s1 = trace t1 /\ clock s1 = clock t1 /\ pend s1 = pend t1.
Proof.
  intros Hf Hf' PE CE Q Q' Rc Rc'. cbv zeta.
  destruct (y_hist_embed nint p hf Hf fuel cs y) as (E1 & _).
  destruct (y_hist_embed nint p' hf' Hf' fuel' cs' t) as (E2 & _). cbv zeta in E1, E2.
  rewrite E1, E2. intros P1 I1 P2 I2.
  destruct (segmentation p p' fuel fuel' cs cs' _ _ PE CE Q Q' Rc Rc' P1 I1 P2 I2) as [(A & _ & _ & T & _) K].
  auto.
Qed.
