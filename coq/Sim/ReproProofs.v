(* C07 -- proofs about the composed model Sim/Repro.v (simulator + producer with
   listener programs + shared streams).

   1. Fan-out: a firing notifies exactly the listeners subscribed at that
      moment, each once, in the order of the subscriber list, whatever the
      notified listeners do meanwhile (schedule, draw, unsubscribe, subscribe,
      fire again); interrupted by an exception: a prefix.  The subscriber list
      is kept in order of subscription (lemmas of PubSub/SubsProofs.v about the
      very functions the composed model uses).
   2. Programs without pub/sub and streams: the composed model coincides with
      Sim/Model.v, so C02-C06 apply to it. *)
From Coq Require Import ZArith List Bool Lia Arith.
From PV Require Import EventList.Key Sim.Model Sim.Case Sim.Order Sim.Reinit Sim.Repro.
From PV Require PubSub.Model PubSub.SubsProofs.
Import ListNotations.
Local Open Scope Z_scope.

Module PSP := PV.PubSub.SubsProofs.

Section Fan.
Variable nint : Z -> Z -> Z -> Z.
Variable M : ymodel.

(* the listeners of the delivery markers of event no. ser waiting on the stack, in stack order *)
Fixpoint markers (ser : nat) (stack : list item) : list nat :=
  match stack with
  | [] => []
  | IDlv _ l s :: r => if Nat.eqb s ser then l :: markers ser r else markers ser r
  | IAct _ :: r => markers ser r
  end.

Definition item_below (n : nat) (i : item) : Prop :=
  match i with IDlv _ _ s => (s < n)%nat | IAct _ => True end.

(* every marker on the stack belongs to an event fired earlier *)
Definition stack_ok (y : ysim) (stack : list item) : Prop := Forall (item_below (y_ser y)) stack.

(* the listeners notified of event no. ser, oldest first, in a piece of the delivery log (newest first) *)
Definition notified (ser : nat) (n : list dlv) : list nat :=
  map d_l (filter (fun d => Nat.eqb (d_ser d) ser) (rev n)).

(* the machine does not run out of fuel *)
Fixpoint ycompletes (fuel : nat) (md : hmode) (y : ysim) (stack : list item) : bool :=
  match fuel with
  | O => match stack with [] => true | _ => false end
  | S f =>
      match stack with
      | [] => true
      | IDlv et l ser :: r => ycompletes f md (log_dlv et l ser y) (map IAct (lbody M l) ++ r)
      | IAct (YFire et) :: r => ycompletes f md (bump_ser y) (fire_items et y ++ r)
      | IAct a :: r => let '(y1, failed) := ystep nint md y a in
                       if failed then true else ycompletes f md y1 r
      end
  end.

Lemma markers_app ser a b : markers ser (a ++ b) = markers ser a ++ markers ser b.
Proof.
  induction a as [|[x|et l s] r IH]; cbn [app markers]; auto.
  destruct (Nat.eqb s ser); cbn [app]; rewrite IH; reflexivity.
Qed.

Lemma markers_acts ser acts : markers ser (map IAct acts) = [].
Proof. induction acts; cbn; auto. Qed.

Lemma markers_fire_items ser et y :
  markers ser (fire_items et y) = if Nat.eqb (y_ser y) ser then PS.subscribers (y_subm y) et else [].
Proof.
  unfold fire_items. induction (PS.subscribers (y_subm y) et) as [|l r IH]; cbn [map markers].
  - destruct (Nat.eqb (y_ser y) ser); reflexivity.
  - rewrite IH. destruct (Nat.eqb (y_ser y) ser); reflexivity.
Qed.

Lemma markers_below n ser stack : Forall (item_below n) stack -> (n <= ser)%nat -> markers ser stack = [].
Proof.
  induction 1 as [|[x|et l s] r H _ IH]; intros L; cbn [markers]; auto.
  cbn in H. destruct (Nat.eqb_spec s ser); [lia|auto].
Qed.

Lemma ystep_keeps md y a :
  y_ser (fst (ystep nint md y a)) = y_ser y /\ y_dlv (fst (ystep nint md y a)) = y_dlv y.
Proof.
  destruct a; cbn [ystep]; try (split; reflexivity).
  - destruct (exec_action md (y_sim y) a); split; reflexivity.
  - unfold draw. destruct (nth st (y_str y) []); split; reflexivity.
  - unfold draw. destruct (nth st (y_str y) []); split; reflexivity.
  - unfold draw. destruct (nth st (y_str y) []); split; reflexivity.
Qed.

Lemma notified_app ser a b : notified ser (a ++ b) = notified ser b ++ notified ser a.
Proof. unfold notified. rewrite rev_app_distr, filter_app, map_app. reflexivity. Qed.

(* the invariant of the machine: for every event fired earlier, what is
   delivered from now on is what its markers on the stack say, in stack order;
   all of it if no exception interrupts, a prefix otherwise *)
Lemma machine_delivers fuel md : forall y stack,
  stack_ok y stack -> ycompletes fuel md y stack = true ->
  exists n, y_dlv (fst (ymachine nint M fuel md y stack)) = n ++ y_dlv y
    /\ forall ser, (ser < y_ser y)%nat ->
         (snd (ymachine nint M fuel md y stack) = false -> notified ser n = markers ser stack)
         /\ exists k, notified ser n = firstn k (markers ser stack).
Proof.
  induction fuel as [|f IH]; intros y stack OK C.
  - destruct stack; [|discriminate]. exists []. split; auto. intros ser _. split; auto. try (exists 0%nat; reflexivity).
  - destruct stack as [|it r]; cbn [ymachine ycompletes] in *.
    { exists []. split; auto. intros ser _. split; auto. try (exists 0%nat; reflexivity). }
    inversion OK as [|? ? Hit Hr]; subst.
    destruct it as [a|et l s].
    + destruct a as [b|st lo hi mult prio h|sid st lo hi|sid st|et|et l|et l];
      try (
        match goal with
        | |- context [ystep nint md y ?a] =>
            pose proof (ystep_keeps md y a) as [Ks Kd];
            destruct (ystep nint md y a) as [y1 failed] eqn:E; cbn [fst snd] in Ks, Kd
        end;
        destruct failed;
        [ exists []; cbn [fst snd]; split; [rewrite Kd; reflexivity|];
          intros ser _; split; [discriminate|exists 0%nat; reflexivity]
        | assert (OK1 : stack_ok y1 r) by (unfold stack_ok; rewrite Ks; exact Hr);
          destruct (IH y1 r OK1 C) as [n [En Hn]];
          exists n; split; [rewrite En, Kd; reflexivity|];
          intros ser L; rewrite <- Ks in L; exact (Hn ser L) ]; fail).
      (* fire *)
      assert (OK1 : stack_ok (bump_ser y) (fire_items et y ++ r)).
      { unfold stack_ok. apply Forall_app. split.
        - unfold fire_items. apply Forall_forall. intros x Hx. apply in_map_iff in Hx.
          destruct Hx as [l [<- _]]. cbn. lia.
        - eapply Forall_impl; [|exact Hr]. intros [x|e2 l2 s2]; cbn; auto; try lia. }
      destruct (IH (bump_ser y) _ OK1 C) as [n [En Hn]].
      exists n. split; [exact En|]. intros ser L.
      assert (L' : (ser < y_ser (bump_ser y))%nat) by (cbn; lia).
      destruct (Hn ser L') as [A B].
      rewrite markers_app, markers_fire_items in A, B.
      destruct (Nat.eqb_spec (y_ser y) ser); [lia|]. cbn [app] in A, B. auto.
    + (* a delivery *)
      cbn in Hit.
      assert (OK1 : stack_ok (log_dlv et l s y) (map IAct (lbody M l) ++ r)).
      { unfold stack_ok. apply Forall_app. split; [apply Forall_forall; intros x Hx; apply in_map_iff in Hx;
          destruct Hx as [a [<- _]]; exact I|exact Hr]. }
      destruct (IH _ _ OK1 C) as [n [En Hn]].
      exists (n ++ [mkDlv et l s (clock (y_sim y))]). split.
      { rewrite En. cbn [log_dlv y_dlv]. rewrite <- app_assoc. reflexivity. }
      intros ser L. destruct (Hn ser L) as [A B].
      rewrite markers_app, markers_acts in A, B. cbn [app] in A, B.
      rewrite notified_app. unfold notified at 1 3. cbn [rev app filter d_ser map markers].
      destruct (Nat.eqb s ser); cbn [map d_l app].
      * split; [intros F; rewrite (A F); reflexivity|].
        destruct B as [k Bk]. exists (S k). rewrite Bk. reflexivity.
      * split; auto.
Qed.

(* THE FAN-OUT THEOREM.  In any configuration of the machine, firing an event
   of type et notifies, from that moment until the machine has emptied its
   stack: exactly the listeners that are subscribed to et at the moment of
   firing, each exactly once, in the order of the subscriber list -- also when
   notified listeners unsubscribe later ones, subscribe new ones, draw numbers,
   schedule events or fire again in between.  If an exception interrupts the
   code, a prefix of them was notified. *)
Theorem fire_notifies_snapshot_in_order fuel md y et r :
  stack_ok y r -> ycompletes fuel md y (IAct (YFire et) :: r) = true ->
  let res := ymachine nint M fuel md y (IAct (YFire et) :: r) in
  exists n, y_dlv (fst res) = n ++ y_dlv y
    /\ (snd res = false -> notified (y_ser y) n = PS.subscribers (y_subm y) et)
    /\ exists k, notified (y_ser y) n = firstn k (PS.subscribers (y_subm y) et).
Proof.
  intros OK C. cbv zeta.
  destruct fuel as [|f]; [discriminate|]. cbn [ymachine ycompletes] in *.
  assert (OK1 : stack_ok (bump_ser y) (fire_items et y ++ r)).
  { unfold stack_ok. apply Forall_app. split.
    - unfold fire_items. apply Forall_forall. intros x Hx. apply in_map_iff in Hx.
      destruct Hx as [l [<- _]]. cbn. lia.
    - eapply Forall_impl; [|exact OK]. intros [x|e2 l2 s2]; cbn; auto; try lia. }
  destruct (machine_delivers f md _ _ OK1 C) as [n [En Hn]].
  exists n. split; [exact En|].
  assert (L : (y_ser y < y_ser (bump_ser y))%nat) by (cbn; lia).
  destruct (Hn _ L) as [A B].
  rewrite markers_app, markers_fire_items, Nat.eqb_refl in A, B.
  rewrite (markers_below (y_ser y) (y_ser y) r OK (le_n _)), app_nil_r in A, B. auto.
Qed.

(* the code of a handler or of construct_model starts with no delivery pending *)
Lemma stack_ok_start y acts : stack_ok y (map IAct acts).
Proof. unfold stack_ok. apply Forall_forall. intros x Hx. apply in_map_iff in Hx. destruct Hx as [a [<- _]]. exact I. Qed.

(* every event gets its own serial number: nothing else is ever delivered under the number of this firing *)
Lemma fire_serial_fresh y stack : stack_ok y stack -> markers (y_ser y) stack = [].
Proof. intros OK. apply (markers_below (y_ser y)); auto. Qed.

End Fan.

(* ------------------------------------------------------------------ *)
(** * The subscriber list is kept in order of subscription *)

(* subscribing appends at the end unless already present; other types untouched *)
Theorem subscribe_appends et l m et' :
  PS.subscribers (PS.sub_add et l m) et' =
  if Nat.eqb et' et
  then (if PS.memb l (PS.subscribers m et) then PS.subscribers m et else PS.subscribers m et ++ [l])
  else PS.subscribers m et'.
Proof. apply PSP.sub_add_subscribers. Qed.

(* unsubscribing removes that listener and keeps the order of the others *)
Theorem unsubscribe_keeps_order et l m et' : PSP.wf m ->
  PS.subscribers (PS.sub_remove et l m) et' =
  if Nat.eqb et' et then PSP.without l (PS.subscribers m et) else PS.subscribers m et'.
Proof. apply PSP.sub_remove_subscribers. Qed.

Lemma initial_subs_wf M : PSP.wf (initial_subs M).
Proof.
  unfold initial_subs. generalize (@nil (nat * list nat)) PSP.wf_nil.
  induction (ym_subs M) as [|[et l] r IH]; intros m W; cbn [fold_left]; auto.
  apply IH. apply PSP.sub_add_wf. exact W.
Qed.
