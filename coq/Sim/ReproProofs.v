(* C07 -- proofs about the composed model Sim/Repro.v (simulator + producer with
   listener programs + shared streams).

   1. Fan-out: a firing notifies exactly the listeners subscribed at that
      moment, each once, in the order of the subscriber list, whatever the
      notified listeners do meanwhile (schedule, draw, unsubscribe, subscribe,
      fire again); interrupted by an exception: a prefix.  The subscriber list
      is kept in order of subscription (lemmas of PubSub/SubsProofs.v about the
      very functions the composed model uses).
   2. Programs without pub/sub and streams: the composed model coincides with
      Sim/Model.v, so C02-C06 apply to it. *)
From Coq Require Import ZArith List Bool Lia Arith.
From PV Require Import EventList.Key Sim.Model Sim.Case Sim.Order Sim.Horizon Sim.Reinit Sim.ReinitProofs Sim.Repro.
From PV Require PubSub.Model PubSub.SubsProofs.
Import ListNotations.
Local Open Scope Z_scope.

Module PSP := PV.PubSub.SubsProofs.

Section Fan.
Variable nint : Z -> Z -> Z -> Z.
Variable M : ymodel.

(* the listeners of the delivery markers of event no. ser waiting on the stack, in stack order *)
Fixpoint markers (ser : nat) (stack : list item) : list nat :=
  match stack with
  | [] => []
  | IDlv _ l s :: r => if Nat.eqb s ser then l :: markers ser r else markers ser r
  | IAct _ :: r => markers ser r
  end.

Definition item_below (n : nat) (i : item) : Prop :=
  match i with IDlv _ _ s => (s < n)%nat | IAct _ => True end.

(* every marker on the stack belongs to an event fired earlier *)
Definition stack_ok (y : ysim) (stack : list item) : Prop := Forall (item_below (y_ser y)) stack.

(* the listeners notified of event no. ser, oldest first, in a piece of the delivery log (newest first) *)
Definition notified (ser : nat) (n : list dlv) : list nat :=
  map d_l (filter (fun d => Nat.eqb (d_ser d) ser) (rev n)).

(* the machine does not run out of fuel *)
Fixpoint ycompletes (fuel : nat) (md : hmode) (y : ysim) (stack : list item) : bool :=
  match fuel with
  | O => match stack with [] => true | _ => false end
  | S f =>
      match stack with
      | [] => true
      | IDlv et l ser :: r => ycompletes f md (log_dlv et l ser y) (map IAct (lbody M l) ++ r)
      | IAct (YFire et) :: r => ycompletes f md (bump_ser y) (fire_items et y ++ r)
      | IAct a :: r => let '(y1, failed) := ystep nint M md y a in
                       if failed then true else ycompletes f md y1 r
      end
  end.

Lemma markers_app ser a b : markers ser (a ++ b) = markers ser a ++ markers ser b.
Proof.
  induction a as [|[x|et l s] r IH]; cbn [app markers]; auto.
  destruct (Nat.eqb s ser); cbn [app]; rewrite IH; reflexivity.
Qed.

Lemma markers_acts ser acts : markers ser (map IAct acts) = [].
Proof. induction acts; cbn; auto. Qed.

Lemma markers_fire_items ser et y :
  markers ser (fire_items et y) = if Nat.eqb (y_ser y) ser then PS.subscribers (y_subm y) et else [].
Proof.
  unfold fire_items. induction (PS.subscribers (y_subm y) et) as [|l r IH]; cbn [map markers].
  - destruct (Nat.eqb (y_ser y) ser); reflexivity.
  - rewrite IH. destruct (Nat.eqb (y_ser y) ser); reflexivity.
Qed.

Lemma markers_below n ser stack : Forall (item_below n) stack -> (n <= ser)%nat -> markers ser stack = [].
Proof.
  induction 1 as [|[x|et l s] r H _ IH]; intros L; cbn [markers]; auto.
  cbn in H. destruct (Nat.eqb_spec s ser); [lia|auto].
Qed.

Lemma ystep_keeps md y a :
  y_ser (fst (ystep nint M md y a)) = y_ser y /\ y_dlv (fst (ystep nint M md y a)) = y_dlv y.
Proof.
  destruct a; cbn [ystep]; try (split; reflexivity).
  - destruct (exec_action md (y_sim y) a); split; reflexivity.
  - unfold draw. destruct (nth st (y_str y) []); split; reflexivity.
  - unfold draw. destruct (nth st (y_str y) []); split; reflexivity.
  - unfold draw. destruct (nth st (y_str y) []); split; reflexivity.
  - unfold sched_pre. destruct (memn j (y_pdone y)); [split; reflexivity|].
    destruct (nth_error (ym_pre M) j) as [[[tm prio] h]|]; [|split; reflexivity].
    destruct (nth_error (y_pre y) j); split; reflexivity.
Qed.

Lemma notified_app ser a b : notified ser (a ++ b) = notified ser b ++ notified ser a.
Proof. unfold notified. rewrite rev_app_distr, filter_app, map_app. reflexivity. Qed.

(* the invariant of the machine: for every event fired earlier, what is
   delivered from now on is what its markers on the stack say, in stack order;
   all of it if no exception interrupts, a prefix otherwise *)
Lemma machine_delivers fuel md : forall y stack,
  stack_ok y stack -> ycompletes fuel md y stack = true ->
  exists n, y_dlv (fst (ymachine nint M fuel md y stack)) = n ++ y_dlv y
    /\ forall ser, (ser < y_ser y)%nat ->
         (snd (ymachine nint M fuel md y stack) = false -> notified ser n = markers ser stack)
         /\ exists k, notified ser n = firstn k (markers ser stack).
Proof.
  induction fuel as [|f IH]; intros y stack OK C.
  - destruct stack; [|discriminate]. exists []. split; auto. intros ser _. split; auto. try (exists 0%nat; reflexivity).
  - destruct stack as [|it r]; cbn [ymachine ycompletes] in *.
    { exists []. split; auto. intros ser _. split; auto. try (exists 0%nat; reflexivity). }
    inversion OK as [|? ? Hit Hr]; subst.
    destruct it as [a|et l s].
    + destruct a as [b|st lo hi mult prio h|sid st lo hi|sid st|et|et l|et l|j];
      try (
        match goal with
        | |- context [ystep nint M md y ?a] =>
            pose proof (ystep_keeps md y a) as [Ks Kd];
            destruct (ystep nint M md y a) as [y1 failed] eqn:E; cbn [fst snd] in Ks, Kd
        end;
        destruct failed;
        [ exists []; cbn [fst snd]; split; [rewrite Kd; reflexivity|];
          intros ser _; split; [discriminate|exists 0%nat; reflexivity]
        | assert (OK1 : stack_ok y1 r) by (unfold stack_ok; rewrite Ks; exact Hr);
          destruct (IH y1 r OK1 C) as [n [En Hn]];
          exists n; split; [rewrite En, Kd; reflexivity|];
          intros ser L; rewrite <- Ks in L; exact (Hn ser L) ]; fail).
      (* fire *)
      assert (OK1 : stack_ok (bump_ser y) (fire_items et y ++ r)).
      { unfold stack_ok. apply Forall_app. split.
        - unfold fire_items. apply Forall_forall. intros x Hx. apply in_map_iff in Hx.
          destruct Hx as [l [<- _]]. cbn. lia.
        - eapply Forall_impl; [|exact Hr]. intros [x|e2 l2 s2]; cbn; auto; try lia. }
      destruct (IH (bump_ser y) _ OK1 C) as [n [En Hn]].
      exists n. split; [exact En|]. intros ser L.
      assert (L' : (ser < y_ser (bump_ser y))%nat) by (cbn; lia).
      destruct (Hn ser L') as [A B].
      rewrite markers_app, markers_fire_items in A, B.
      destruct (Nat.eqb_spec (y_ser y) ser); [lia|]. cbn [app] in A, B. auto.
    + (* a delivery *)
      cbn in Hit.
      assert (OK1 : stack_ok (log_dlv et l s y) (map IAct (lbody M l) ++ r)).
      { unfold stack_ok. apply Forall_app. split; [apply Forall_forall; intros x Hx; apply in_map_iff in Hx;
          destruct Hx as [a [<- _]]; exact I|exact Hr]. }
      destruct (IH _ _ OK1 C) as [n [En Hn]].
      exists (n ++ [mkDlv et l s (clock (y_sim y))]). split.
      { rewrite En. cbn [log_dlv y_dlv]. rewrite <- app_assoc. reflexivity. }
      intros ser L. destruct (Hn ser L) as [A B].
      rewrite markers_app, markers_acts in A, B. cbn [app] in A, B.
      rewrite notified_app. unfold notified at 1 3. cbn [rev app filter d_ser map markers].
      destruct (Nat.eqb s ser); cbn [map d_l app].
      * split; [intros F; rewrite (A F); reflexivity|].
        destruct B as [k Bk]. exists (S k). rewrite Bk. reflexivity.
      * split; auto.
Qed.

(* THE FAN-OUT THEOREM.  In any configuration of the machine, firing an event
   of type et notifies, from that moment until the machine has emptied its
   stack: exactly the listeners that are subscribed to et at the moment of
   firing, each exactly once, in the order of the subscriber list -- also when
   notified listeners unsubscribe later ones, subscribe new ones, draw numbers,
   schedule events or fire again in between.  If an exception interrupts the
   code, a prefix of them was notified. *)
Theorem fire_notifies_snapshot_in_order fuel md y et r :
  stack_ok y r -> ycompletes fuel md y (IAct (YFire et) :: r) = true ->
  let res := ymachine nint M fuel md y (IAct (YFire et) :: r) in
  exists n, y_dlv (fst res) = n ++ y_dlv y
    /\ (snd res = false -> notified (y_ser y) n = PS.subscribers (y_subm y) et)
    /\ exists k, notified (y_ser y) n = firstn k (PS.subscribers (y_subm y) et).
Proof.
  intros OK C. cbv zeta.
  destruct fuel as [|f]; [discriminate|]. cbn [ymachine ycompletes] in *.
  assert (OK1 : stack_ok (bump_ser y) (fire_items et y ++ r)).
  { unfold stack_ok. apply Forall_app. split.
    - unfold fire_items. apply Forall_forall. intros x Hx. apply in_map_iff in Hx.
      destruct Hx as [l [<- _]]. cbn. lia.
    - eapply Forall_impl; [|exact OK]. intros [x|e2 l2 s2]; cbn; auto; try lia. }
  destruct (machine_delivers f md _ _ OK1 C) as [n [En Hn]].
  exists n. split; [exact En|].
  assert (L : (y_ser y < y_ser (bump_ser y))%nat) by (cbn; lia).
  destruct (Hn _ L) as [A B].
  rewrite markers_app, markers_fire_items, Nat.eqb_refl in A, B.
  rewrite (markers_below (y_ser y) (y_ser y) r OK (le_n _)), app_nil_r in A, B. auto.
Qed.

(* the code of a handler or of construct_model starts with no delivery pending *)
Lemma stack_ok_start y acts : stack_ok y (map IAct acts).
Proof. unfold stack_ok. apply Forall_forall. intros x Hx. apply in_map_iff in Hx. destruct Hx as [a [<- _]]. exact I. Qed.

(* every event gets its own serial number: nothing else is ever delivered under the number of this firing *)
Lemma fire_serial_fresh y stack : stack_ok y stack -> markers (y_ser y) stack = [].
Proof. intros OK. apply (markers_below (y_ser y)); auto. Qed.

End Fan.

(* ------------------------------------------------------------------ *)
(** * The subscriber list is kept in order of subscription *)

(* subscribing appends at the end unless already present; other types untouched *)
Theorem subscribe_appends et l m et' :
  PS.subscribers (PS.sub_add et l m) et' =
  if Nat.eqb et' et
  then (if PS.memb l (PS.subscribers m et) then PS.subscribers m et else PS.subscribers m et ++ [l])
  else PS.subscribers m et'.
Proof. apply PSP.sub_add_subscribers. Qed.

(* unsubscribing removes that listener and keeps the order of the others *)
Theorem unsubscribe_keeps_order et l m et' : PSP.wf m ->
  PS.subscribers (PS.sub_remove et l m) et' =
  if Nat.eqb et' et then PSP.without l (PS.subscribers m et) else PS.subscribers m et'.
Proof. apply PSP.sub_remove_subscribers. Qed.

Lemma initial_subs_wf M : PSP.wf (initial_subs M).
Proof.
  unfold initial_subs. generalize (@nil (nat * list nat)) PSP.wf_nil.
  induction (ym_subs M) as [|[et l] r IH]; intros m W; cbn [fold_left]; auto.
  apply IH. apply PSP.sub_add_wf. exact W.
Qed.

(* ------------------------------------------------------------------ *)
(** * Event-id renaming and re-initialisation for the composed model *)

(* The relation of Sim/ReinitProofs.v lifted to the composed state: the
   simulator parts are related by [IdSim] (order-preserving renaming of the
   comparable event ids, same things logged since two marks), producer,
   streams and serial numbers are equal, the delivery and draw logs grew by the
   same entries since the marks, the statistics objects correspond. *)
Record ybase := mkYB {
  yb_s : logs; yb_t : logs;
  yb_ds : list dlv; yb_dt : list dlv;
  yb_ws : list (nat * Z); yb_wt : list (nat * Z);
  yb_N : nat;
  yb_X : list Z; yb_X' : list Z      (* the ids of the pre-built events in the two runs *)
}.

Definition yb_L (B : ybase) : nat := (length (l_ob (yb_s B)) - length (l_ob (yb_t B)))%nat.

Record YRest (B : ybase) (y t : ysim) : Prop := mkYRest {
  yr_subm : y_subm t = y_subm y;
  yr_str : y_str t = y_str y;
  yr_ser : y_ser t = y_ser y;
  yr_dlv : exists n, y_dlv y = n ++ yb_ds B /\ y_dlv t = n ++ yb_dt B;
  yr_drw : exists n, y_drw y = n ++ yb_ws B /\ y_drw t = n ++ yb_wt B;
  yr_mdl : MdlRel (yb_L B) (yb_N B) (y_mdl y) (y_mdl t);
  yr_pre : y_pre y = yb_X B /\ y_pre t = yb_X' B;
  yr_pdone : y_pdone t = y_pdone y
}.

Definition YSim (B : ybase) (y t : ysim) : Prop :=
  IdSimX (yb_X B) (yb_X' B) (yb_s B) (yb_t B) (y_sim y) (y_sim t) /\ YRest B y t.

Section YPrims.
Variable nint : Z -> Z -> Z -> Z.
Variable B : ybase.
Hypothesis B_le : (length (l_ob (yb_t B)) <= length (l_ob (yb_s B)))%nat.

Lemma yrest_with_sim y t s s' : YRest B y t -> YRest B (with_sim y s) (with_sim t s').
Proof. intros []. constructor; auto. Qed.

Lemma ysim_with_sim y t s s' :
  YRest B y t -> IdSimX (yb_X B) (yb_X' B) (yb_s B) (yb_t B) s s' -> YSim B (with_sim y s) (with_sim t s').
Proof. intros R H. split; [exact H|apply yrest_with_sim; exact R]. Qed.

Lemma yflag_ysim y t : YSim B y t -> YSim B (yflag y) (yflag t).
Proof. intros [H R]. apply ysim_with_sim; auto. apply raise_flag_idsim; auto. Qed.

Lemma draw_ysim st y t :
  YSim B y t ->
  match draw st y, draw st t with
  | Some (k, y1), Some (k', t1) => k' = k /\ YSim B y1 t1 /\ y_sim y1 = y_sim y /\ y_sim t1 = y_sim t
  | None, None => True
  | _, _ => False
  end.
Proof.
  intros [H R]. unfold draw. rewrite (yr_str _ _ _ R).
  destruct (nth st (y_str y) []) as [|k r]; auto.
  split; auto. split; [|split; reflexivity].
  split; [exact H|]. destruct R as [R1 R2 R3 R4 [n [A A']] R6]. constructor; cbn; auto.
  exists ((st, k) :: n). rewrite A, A'. auto.
Qed.

Lemma ystep_ysim M md y t a :
  YSim B y t ->
  YSim B (fst (ystep nint M md y a)) (fst (ystep nint M md t a))
  /\ snd (ystep nint M md t a) = snd (ystep nint M md y a).
Proof.
  intros Y. destruct a as [b|st lo hi mult prio h|sid st lo hi|sid st|et|et l|et l|j]; cbn [ystep].
  - destruct Y as [H R]. destruct (exec_action_idsim _ _ _ _ md _ _ b H) as [H1 E1].
    destruct (exec_action md (y_sim y) b) as [s1 f1], (exec_action md (y_sim t) b) as [t1 f2].
    cbn [fst snd] in *. split; auto. apply ysim_with_sim; auto.
  - pose proof (draw_ysim st y t Y) as D.
    destruct (draw st y) as [[k y1]|], (draw st t) as [[k' t1]|]; try contradiction.
    + destruct D as (-> & [H1 R1] & _ & _). cbn [fst snd]. split; auto.
      apply ysim_with_sim; auto. apply do_sched_idsim; auto.
    + cbn [fst snd]. split; auto. apply yflag_ysim; auto.
  - pose proof (draw_ysim st y t Y) as D.
    destruct (draw st y) as [[k y1]|], (draw st t) as [[k' t1]|]; try contradiction.
    + destruct D as (-> & [H1 R1] & _ & _). cbn [fst snd]. split; auto.
      apply ysim_with_sim; auto. rewrite (idsim_clock _ _ _ _ _ _ H1). apply set_obs_idsim; auto.
    + cbn [fst snd]. split; auto. apply yflag_ysim; auto.
  - pose proof (draw_ysim st y t Y) as D.
    destruct (draw st y) as [[k y1]|], (draw st t) as [[k' t1]|]; try contradiction.
    + destruct D as (-> & [H1 R1] & _ & _). cbn [fst snd]. split; auto.
      apply ysim_with_sim; auto. rewrite (idsim_clock _ _ _ _ _ _ H1). apply set_obs_idsim; auto.
    + cbn [fst snd]. split; auto. apply yflag_ysim; auto.
  - split; auto.
  - cbn [fst snd]. split; auto. destruct Y as [H R]. split; [exact H|].
    destruct R. constructor; cbn; auto. rewrite yr_subm0. reflexivity.
  - cbn [fst snd]. split; auto. destruct Y as [H R]. split; [exact H|].
    destruct R. constructor; cbn; auto. rewrite yr_subm0. reflexivity.
  - cbn [fst snd]. split; auto. destruct Y as [H R]. unfold sched_pre.
    rewrite (yr_pdone _ _ _ R). destruct (memn j (y_pdone y)); [split; auto|].
    destruct (yr_pre _ _ _ R) as [Px Px']. rewrite Px, Px'.
    destruct (nth_error (ym_pre M) j) as [[[tm prio] h]|]; [|split; auto].
    assert (En : nth_error (yb_X' B) j = option_map (fun p => p) (nth_error (yb_X' B) j)) by (destruct (nth_error (yb_X' B) j); reflexivity).
    assert (Q : forall f, map f (yb_X B) = yb_X' B ->
                match nth_error (yb_X B) j, nth_error (yb_X' B) j with
                | Some _, Some _ | None, None => True | _, _ => False end).
    { intros f Q. rewrite <- Q, nth_error_map. destruct (nth_error (yb_X B) j); exact I. }
    destruct H as [[f C] L]. specialize (Q f (cs_x _ _ _ _ _ C)).
    destruct (nth_error (yb_X B) j) as [p|] eqn:Ep, (nth_error (yb_X' B) j) as [p'|] eqn:Ep'; try contradiction.
    2: { split; [split; eauto|exact R]. }
    assert (H : IdSimX (yb_X B) (yb_X' B) (yb_s B) (yb_t B) (y_sim y) (y_sim t)) by (split; eauto).
    rewrite (idsim_clock _ _ _ _ _ _ H).
    split.
    + cbn [y_sim]. destruct (tm <? clock (y_sim y)).
      * apply out_idsim; auto.
      * apply out_idsim. apply (put_old_idsim _ _ _ _ _ _ tm prio h j p p' Ep Ep' H).
    + destruct R. constructor; cbn; auto.
Qed.

Lemma log_dlv_ysim et l ser y t : YSim B y t -> YSim B (log_dlv et l ser y) (log_dlv et l ser t).
Proof.
  intros [H R]. split; [exact H|]. destruct R as [R1 R2 R3 [n [A A']] R5 R6]. constructor; cbn; auto.
  exists (mkDlv et l ser (clock (y_sim y)) :: n). rewrite (idsim_clock _ _ _ _ _ _ H), A, A'. auto.
Qed.

Lemma bump_ser_ysim y t : YSim B y t -> YSim B (bump_ser y) (bump_ser t).
Proof.
  intros [H R]. split; [exact H|]. destruct R. constructor; cbn; auto.
Qed.

Lemma ymachine_ysim M fuel md : forall y t stack,
  YSim B y t ->
  YSim B (fst (ymachine nint M fuel md y stack)) (fst (ymachine nint M fuel md t stack))
  /\ snd (ymachine nint M fuel md t stack) = snd (ymachine nint M fuel md y stack).
Proof.
  induction fuel as [|f IH]; intros y t stack Y; cbn [ymachine].
  - destruct stack; cbn [fst snd]; split; auto using yflag_ysim.
  - destruct stack as [|[a|et l s] r]; [split; auto| |].
    + destruct a as [b|st lo hi mult prio h|sid st lo hi|sid st|et|et l|et l|j];
      try (match goal with |- context [ystep nint M md y ?a] =>
             destruct (ystep_ysim M md y t a Y) as [Y1 E1];
             destruct (ystep nint M md y a) as [y1 f1], (ystep nint M md t a) as [t1 f2];
             cbn [fst snd] in *; subst f2; destruct f1; [split; auto|apply IH; auto] end; fail).
      unfold fire_items. destruct Y as [H R]. rewrite (yr_subm _ _ _ R), (yr_ser _ _ _ R).
      apply IH. apply bump_ser_ysim. split; auto.
    + apply IH. apply log_dlv_ysim; auto.
Qed.

Lemma yexec_event_ysim M hf md y t e f :
  CoreSim (yb_X B) (yb_X' B) f (y_sim y) (y_sim t) -> LogsRel (yb_s B) (yb_t B) (y_sim y) (y_sim t) -> YRest B y t ->
  YSim B (fst (yexec_event nint M hf md y e)) (fst (yexec_event nint M hf md t (ren f e)))
  /\ snd (yexec_event nint M hf md t (ren f e)) = snd (yexec_event nint M hf md y e).
Proof.
  intros C L R. unfold yexec_event. cbn [ev_h ren].
  pose proof (set_trace_idsim _ _ _ _ (y_sim y) (y_sim t) e f C L (or_intror I)) as H.
  destruct (ev_h e).
  - cbn [fst snd]. split; auto. apply ysim_with_sim; auto.
    set (s1 := set_trace ((e, clock (y_sim y)) :: trace (y_sim y)) (y_sim y)) in *.
    set (t1 := set_trace ((ren f e, clock (y_sim t)) :: trace (y_sim t)) (y_sim t)) in *.
    rewrite (idsim_clock _ _ _ _ _ _ H).
    assert (H1 : IdSimX (yb_X B) (yb_X' B) (yb_s B) (yb_t B) (emit (NWarmup (clock s1)) s1) (emit (NWarmup (clock s1)) t1))
      by (apply emit_idsim; auto).
    exact (set_obs_idsim _ _ _ _ _ _ (ObsWarm (clock s1)) H1).
  - unfold yexec. apply ymachine_ysim. apply ysim_with_sim; auto.
Qed.

Lemma ytake_event_ysim M hf y t e r f :
  CoreSim (yb_X B) (yb_X' B) f (y_sim y) (y_sim t) -> LogsRel (yb_s B) (yb_t B) (y_sim y) (y_sim t) -> YRest B y t ->
  pend (y_sim y) = e :: r ->
  YSim B (ytake_event nint M hf y e r) (ytake_event nint M hf t (ren f e) (map (ren f) r)).
Proof.
  intros C L R E. destruct (pop_coresim _ _ f _ _ e r C E) as [_ C0].
  unfold ytake_event. cbn [ev_time ren].
  set (s0 := set_pend r (y_sim y)). set (t0 := set_pend (map (ren f) r) (y_sim t)).
  assert (L0 : LogsRel (yb_s B) (yb_t B) s0 t0) by (eapply LogsRel_same; eauto).
  replace (clock t0) with (clock s0) by (symmetry; apply (cs_clock _ _ _ _ _ C0)).
  set (s1 := if ev_time e =? clock s0 then s0 else emit (NTime (ev_time e)) s0).
  set (t1 := if ev_time e =? clock s0 then t0 else emit (NTime (ev_time e)) t0).
  assert (C2 : CoreSim (yb_X B) (yb_X' B) f (set_clock (ev_time e) s1) (set_clock (ev_time e) t1)).
  { unfold s1, t1. destruct (ev_time e =? clock s0); destruct C0; constructor; auto. }
  assert (L2 : LogsRel (yb_s B) (yb_t B) (set_clock (ev_time e) s1) (set_clock (ev_time e) t1)).
  { unfold s1, t1. destruct (ev_time e =? clock s0).
    - eapply LogsRel_same; eauto.
    - eapply (LogsRel_push _ _ _ _ _ _ (LNt (NTime (ev_time e)))); eauto. }
  assert (R2 : YRest B (with_sim y (set_clock (ev_time e) s1)) (with_sim t (set_clock (ev_time e) t1)))
    by (apply yrest_with_sim; auto).
  destruct (yexec_event_ysim M hf InRun (with_sim y (set_clock (ev_time e) s1)) (with_sim t (set_clock (ev_time e) t1)) e f C2 L2 R2) as [Y3 E3].
  destruct (yexec_event nint M hf InRun (with_sim y (set_clock (ev_time e) s1)) e) as [y3 fl].
  destruct (yexec_event nint M hf InRun (with_sim t (set_clock (ev_time e) t1)) (ren f e)) as [t3 fl'].
  cbn [fst snd] in *. subst fl'. destruct Y3 as [H3 R3].
  rewrite (idsim_strat _ _ _ _ _ _ H3).
  destruct fl, (strat (y_sim y3)); try (split; auto; fail).
  apply ysim_with_sim; auto. apply set_rs_idsim; auto.
Qed.


(* the run bound is not touched by handler / listener code *)
Definition same_bi (s s' : sim) : Prop := bound s' = bound s /\ incl s' = incl s.

Lemma same_bi_refl s : same_bi s s.
Proof. split; reflexivity. Qed.

Lemma same_bi_trans a b c : same_bi a b -> same_bi b c -> same_bi a c.
Proof. intros [A1 A2] [B1 B2]. split; congruence. Qed.

Lemma ystep_bi M md y a : same_bi (y_sim y) (y_sim (fst (ystep nint M md y a))).
Proof.
  destruct a as [b|st lo hi mult prio h|sid st lo hi|sid st|et|et l|et l|j]; cbn [ystep]; try (split; reflexivity).
  - pose proof (exec_action_hstep md (y_sim y) b) as [F _ _ _ _].
    destruct (exec_action md (y_sim y) b) as [s1 f1]. cbn [fst y_sim with_sim] in *.
    split; [apply (fr_bound _ _ F)|apply (fr_incl _ _ F)].
  - unfold draw. destruct (nth st (y_str y) []) as [|z zr]; cbn [fst y_sim with_sim yflag]; [split; reflexivity|].
    pose proof (do_sched_frame (y_sim y) (MRel (TNum (mult * nint lo hi z))) prio h) as F.
    split; [apply (fr_bound _ _ F)|apply (fr_incl _ _ F)].
  - unfold draw. destruct (nth st (y_str y) []); cbn [fst y_sim with_sim yflag]; split; reflexivity.
  - unfold draw. destruct (nth st (y_str y) []); cbn [fst y_sim with_sim yflag]; split; reflexivity.
  - unfold sched_pre. destruct (memn j (y_pdone y)); [split; reflexivity|].
    destruct (nth_error (ym_pre M) j) as [[[tm prio] h]|]; [|split; reflexivity].
    destruct (nth_error (y_pre y) j); [|split; reflexivity].
    cbn [fst y_sim]. destruct (tm <? clock (y_sim y)); split; reflexivity.
Qed.

Lemma ymachine_bi M fuel md : forall y stack, same_bi (y_sim y) (y_sim (fst (ymachine nint M fuel md y stack))).
Proof.
  induction fuel as [|f IH]; intros y stack; cbn [ymachine].
  - destruct stack; split; reflexivity.
  - destruct stack as [|[a|et l s] r]; [split; reflexivity| |].
    + destruct a as [b|st lo hi mult prio h|sid st lo hi|sid st|et|et l|et l|j];
      try (match goal with |- context [ystep nint M md y ?a] =>
             pose proof (ystep_bi M md y a) as Q; destruct (ystep nint M md y a) as [y1 f1]; cbn [fst] in *;
             destruct f1; [exact Q|eapply same_bi_trans; [exact Q|apply IH]] end; fail).
      apply (same_bi_trans _ (y_sim (bump_ser y))); [split; reflexivity|apply IH].
    + apply (same_bi_trans _ (y_sim (log_dlv et l s y))); [split; reflexivity|apply IH].
Qed.

Lemma yexec_event_bi M hf md y e : same_bi (y_sim y) (y_sim (fst (yexec_event nint M hf md y e))).
Proof.
  unfold yexec_event. destruct (ev_h e); cbn [fst y_sim with_sim]; [split; reflexivity|].
  unfold yexec.
  eapply same_bi_trans; [|apply ymachine_bi]. split; reflexivity.
Qed.

Lemma ytake_event_bi M hf y e r : same_bi (y_sim y) (y_sim (ytake_event nint M hf y e r)).
Proof.
  unfold ytake_event.
  match goal with |- context [yexec_event nint M hf InRun ?y2 e] =>
    pose proof (yexec_event_bi M hf InRun y2 e) as Q;
    assert (Q0 : same_bi (y_sim y) (y_sim y2))
      by (cbn [y_sim with_sim]; destruct (ev_time e =? clock (set_pend r (y_sim y))); split; reflexivity);
    destruct (yexec_event nint M hf InRun y2 e) as [y3 fl]
  end.
  cbn [fst] in Q.
  assert (Q1 : same_bi (y_sim y) (y_sim y3)) by (eapply same_bi_trans; [exact Q0|exact Q]).
  destruct fl, (strat (y_sim y3)); auto.
Qed.

Lemma yrun_loop_ysim M fuel hf : forall y t,
  YSim B y t -> SameBound (y_sim y) (y_sim t) ->
  YSim B (yrun_loop nint M fuel hf y) (yrun_loop nint M fuel hf t).
Proof.
  induction fuel as [|n IH]; intros y t [H R] SB; cbn [yrun_loop]; rewrite (idsim_running _ _ _ _ _ _ H).
  - destruct (running (y_sim y)); [apply yflag_ysim|]; split; auto.
  - destruct (running (y_sim y)); [|split; auto].
    destruct H as [[f C] L].
    destruct (pend (y_sim y)) as [|e r] eqn:E.
    + rewrite (cs_pend _ _ _ _ _ C), E. cbn [map]. apply ysim_with_sim; auto.
      apply stop_at_bound_idsim; auto. split; eauto.
    + destruct (pop_coresim _ _ f _ _ e r C E) as [Et _]. rewrite Et.
      assert (Bq : beyond (y_sim t) (ren f e) = beyond (y_sim y) e).
      { unfold beyond. destruct SB as [-> ->]. reflexivity. }
      rewrite Bq. destruct (beyond (y_sim y) e).
      * apply ysim_with_sim; auto. apply stop_at_bound_idsim; auto. split; eauto.
      * apply IH.
        -- apply ytake_event_ysim; auto.
        -- destruct (ytake_event_bi M hf y e r) as [A1 A2].
           destruct (ytake_event_bi M hf t (ren f e) (map (ren f) r)) as [B1 B2].
           destruct SB. unfold SameBound; split; congruence.
Qed.

Lemma yworker_run_ysim M fuel hf y t :
  YSim B y t -> SameBound (y_sim y) (y_sim t) ->
  YSim B (yworker_run nint M fuel hf y) (yworker_run nint M fuel hf t).
Proof.
  intros [H R] SB. unfold yworker_run. rewrite (idsim_worker _ _ _ _ _ _ H).
  destruct (worker (y_sim y)); try (split; auto; fail).
  rewrite (idsim_ps _ _ _ _ _ _ H).
  assert (G : forall y1 t1, YSim B y1 t1 -> YSim B (with_sim y1 (worker_ending (y_sim y1))) (with_sim t1 (worker_ending (y_sim t1)))).
  { intros y1 t1 [H1 R1]. apply ysim_with_sim; auto. apply worker_ending_idsim; auto. }
  destruct (ps (y_sim y)); try (apply G; split; auto; fail);
  apply G; rewrite (idsim_clock _ _ _ _ _ _ H);
  (assert (Ya : YSim B (with_sim y (set_rs RStarted (emit (NStart (clock (y_sim y))) (y_sim y))))
                       (with_sim t (set_rs RStarted (emit (NStart (clock (y_sim y))) (y_sim t)))))
     by (apply ysim_with_sim; auto; apply set_rs_idsim, emit_idsim; auto));
  (assert (Sa : SameBound (y_sim (with_sim y (set_rs RStarted (emit (NStart (clock (y_sim y))) (y_sim y)))))
                          (y_sim (with_sim t (set_rs RStarted (emit (NStart (clock (y_sim y))) (y_sim t))))))
     by exact SB);
  destruct (yrun_loop_ysim M fuel hf _ _ Ya Sa) as [Hb Rb];
  apply ysim_with_sim; auto; rewrite (idsim_clock _ _ _ _ _ _ Hb); apply set_rs_idsim, emit_idsim; auto.
Qed.

Lemma ydo_start_ysim M fuel hf y t b i :
  YSim B y t ->
  YSim B (fst (ydo_start nint M fuel hf y b i)) (fst (ydo_start nint M fuel hf t b i))
  /\ snd (ydo_start nint M fuel hf t b i) = snd (ydo_start nint M fuel hf y b i).
Proof.
  intros [H R]. unfold ydo_start. rewrite (start_checks_idsim _ _ _ _ _ _ H).
  destruct (start_checks (y_sim y)); [|split; auto; split; auto].
  destruct b as [bz|]; [|split; auto; split; auto].
  rewrite (idsim_clock _ _ _ _ _ _ H). destruct (bz <? clock (y_sim y)); [split; auto; split; auto|].
  rewrite (idsim_end_time _ _ _ _ _ _ H).
  destruct (if bz >? end_time (y_sim y) then (end_time (y_sim y), true) else (bz, i)) as [bz' i'].
  cbn [fst snd]. split; auto.
  set (s1 := set_rs RStarting (set_incl i' (set_bound bz' (y_sim y)))).
  set (t1 := set_rs RStarting (set_incl i' (set_bound bz' (y_sim t)))).
  assert (H1 : IdSimX (yb_X B) (yb_X' B) (yb_s B) (yb_t B) s1 t1)
    by (unfold s1, t1; apply set_rs_idsim, set_incl_idsim, set_bound_idsim; auto).
  assert (S1 : SameBound s1 t1) by (split; reflexivity).
  rewrite (idsim_ps _ _ _ _ _ _ H1), (idsim_clock _ _ _ _ _ _ H1).
  apply yworker_run_ysim.
  - apply ysim_with_sim; auto. apply emit_idsim. destruct (ps s1); auto using set_ps_idsim, emit_idsim.
  - cbn [y_sim with_sim]. destruct (ps s1); exact S1.
Qed.

Lemma ystep_event_ysim M hf y t e r f :
  CoreSim (yb_X B) (yb_X' B) f (y_sim y) (y_sim t) -> LogsRel (yb_s B) (yb_t B) (y_sim y) (y_sim t) -> YRest B y t ->
  pend (y_sim y) = e :: r ->
  YSim B (ystep_event nint M hf y e r) (ystep_event nint M hf t (ren f e) (map (ren f) r)).
Proof.
  intros C L R E. destruct (pop_coresim _ _ f _ _ e r C E) as [_ C0].
  unfold ystep_event. cbn [ev_time ren].
  set (s0 := set_pend r (y_sim y)). set (t0 := set_pend (map (ren f) r) (y_sim t)).
  assert (L0 : LogsRel (yb_s B) (yb_t B) s0 t0) by (eapply LogsRel_same; eauto).
  assert (C1 : CoreSim (yb_X B) (yb_X' B) f (set_clock (ev_time e) (emit (NTime (ev_time e)) s0))
                         (set_clock (ev_time e) (emit (NTime (ev_time e)) t0))).
  { destruct C0. constructor; auto. }
  assert (L1 : LogsRel (yb_s B) (yb_t B) (set_clock (ev_time e) (emit (NTime (ev_time e)) s0))
                             (set_clock (ev_time e) (emit (NTime (ev_time e)) t0))).
  { eapply (LogsRel_push _ _ _ _ _ _ (LNt (NTime (ev_time e)))); eauto. }
  assert (R1 : YRest B (with_sim y (set_clock (ev_time e) (emit (NTime (ev_time e)) s0)))
                       (with_sim t (set_clock (ev_time e) (emit (NTime (ev_time e)) t0))))
    by (apply yrest_with_sim; auto).
  apply (yexec_event_ysim M hf InStep (with_sim y (set_clock (ev_time e) (emit (NTime (ev_time e)) s0)))
           (with_sim t (set_clock (ev_time e) (emit (NTime (ev_time e)) t0))) e f C1 L1 R1).
Qed.

Lemma ydo_step_ysim M hf y t :
  YSim B y t ->
  YSim B (fst (ydo_step nint M hf y)) (fst (ydo_step nint M hf t))
  /\ snd (ydo_step nint M hf t) = snd (ydo_step nint M hf y).
Proof.
  intros [H R]. unfold ydo_step. rewrite (step_checks_idsim _ _ _ _ _ _ H).
  destruct (step_checks (y_sim y)); [|split; auto; split; auto]. cbn [fst snd]. split; auto.
  rewrite (idsim_ps _ _ _ _ _ _ H), (idsim_clock _ _ _ _ _ _ H).
  set (s1 := match ps (y_sim y) with PInit => set_ps PStarted (emit (NStartRepl (clock (y_sim y))) (y_sim y)) | _ => y_sim y end).
  set (t1 := match ps (y_sim y) with PInit => set_ps PStarted (emit (NStartRepl (clock (y_sim y))) (y_sim t)) | _ => y_sim t end).
  assert (H1 : IdSimX (yb_X B) (yb_X' B) (yb_s B) (yb_t B) s1 t1)
    by (unfold s1, t1; destruct (ps (y_sim y)); auto using set_ps_idsim, emit_idsim).
  rewrite (idsim_clock _ _ _ _ _ _ H1).
  set (s2 := emit (NStart (clock s1)) (set_rs RStarted s1)).
  set (t2 := emit (NStart (clock s1)) (set_rs RStarted t1)).
  assert (H2 : IdSimX (yb_X B) (yb_X' B) (yb_s B) (yb_t B) s2 t2) by (unfold s2, t2; apply emit_idsim, set_rs_idsim; auto).
  assert (Y3 : YSim B
      (match pend s2 with [] => with_sim y s2 | e :: r => if ev_time e >? end_time s2 then with_sim y s2 else ystep_event nint M hf (with_sim y s2) e r end)
      (match pend t2 with [] => with_sim t t2 | e :: r => if ev_time e >? end_time t2 then with_sim t t2 else ystep_event nint M hf (with_sim t t2) e r end)).
  { destruct H2 as [[f C] L]. destruct (pend s2) as [|e r] eqn:E.
    - rewrite (cs_pend _ _ _ _ _ C), E. cbn [map]. apply ysim_with_sim; auto. split; eauto.
    - destruct (pop_coresim _ _ f s2 t2 e r C E) as [Et _]. rewrite Et.
      assert (EE : end_time t2 = end_time s2) by (unfold end_time; rewrite (cs_rep _ _ _ _ _ C); reflexivity).
      rewrite EE. cbn [ev_time ren]. destruct (ev_time e >? end_time s2); [apply ysim_with_sim; auto; split; eauto|].
      apply (ystep_event_ysim M hf (with_sim y s2) (with_sim t t2) e r f); auto.
      apply yrest_with_sim; auto. }
  destruct Y3 as [H3 R3]. apply ysim_with_sim; auto.
  rewrite (idsim_clock _ _ _ _ _ _ H3). apply set_rs_idsim, emit_idsim; auto.
Qed.

Lemma ydo_end_repl_ysim M fuel hf y t :
  YSim B y t ->
  YSim B (fst (ydo_end_repl nint M fuel hf y)) (fst (ydo_end_repl nint M fuel hf t))
  /\ snd (ydo_end_repl nint M fuel hf t) = snd (ydo_end_repl nint M fuel hf y).
Proof.
  intros [H R]. unfold ydo_end_repl. rewrite (idsim_ps _ _ _ _ _ _ H).
  destruct (ps (y_sim y)); cbn [fst snd]; split; auto; try (split; auto; fail).
  rewrite (idsim_clock _ _ _ _ _ _ H), (idsim_end_time _ _ _ _ _ _ H).
  set (s1 := if clock (y_sim y) <? end_time (y_sim y) then set_clock (end_time (y_sim y)) (y_sim y) else y_sim y).
  set (t1 := if clock (y_sim y) <? end_time (y_sim y) then set_clock (end_time (y_sim y)) (y_sim t) else y_sim t).
  assert (H1 : IdSimX (yb_X B) (yb_X' B) (yb_s B) (yb_t B) s1 t1)
    by (unfold s1, t1; destruct (clock (y_sim y) <? end_time (y_sim y)); auto using set_clock_idsim).
  set (s2 := set_pend [] (set_ps PEnding s1)). set (t2 := set_pend [] (set_ps PEnding t1)).
  assert (H2 : IdSimX (yb_X B) (yb_X' B) (yb_s B) (yb_t B) s2 t2) by (unfold s2, t2; apply clear_idsim, set_ps_idsim; auto).
  unfold yworker_run. cbn [y_sim with_sim]. rewrite (idsim_worker _ _ _ _ _ _ H2). destruct (worker s2); try (apply ysim_with_sim; auto; fail).
  replace (ps s2) with PEnding by reflexivity. replace (ps t2) with PEnding by reflexivity. cbv iota.
  apply ysim_with_sim; [apply yrest_with_sim; auto|]. cbn [y_sim with_sim]. apply worker_ending_idsim. exact H2.
Qed.

End YPrims.

(* ------------------------------------------------------------------ *)
(** * initialize of the composed model *)

Section YInit.
Variable nint : Z -> Z -> Z -> Z.
Variable M : ymodel.

Definition rsps (a : replst) (b : runst) (y : ysim) : ysim := with_sim y (set_ps a (set_rs b (y_sim y))).

Lemma rsps_rsps a b c d y : rsps a b (rsps c d y) = rsps a b y.
Proof. unfold rsps. cbn [y_sim with_sim y_subm y_str y_ser y_dlv y_drw y_mdl]. rewrite set_rsps_collapse. reflexivity. Qed.

(* code run from construct_model does not look at the run / replication state *)
Lemma ystep_construct_rsps a b y act :
  ystep nint M InConstruct (rsps a b y) act
  = (rsps a b (fst (ystep nint M InConstruct y act)), snd (ystep nint M InConstruct y act)).
Proof.
  destruct act as [x|st lo hi mult prio h|sid st lo hi|sid st|et|et l|et l|j]; cbn [ystep]; try reflexivity.
  - unfold rsps at 1. cbn [y_sim with_sim]. rewrite exec_action_construct_rsps.
    destruct (exec_action InConstruct (y_sim y) x) as [s1 f1]. reflexivity.
  - unfold draw, rsps. cbn [y_str with_sim y_sim]. destruct (nth st (y_str y) []) as [|k r]; [reflexivity|].
    cbn [fst snd y_sim with_sim].
    pose proof (exec_action_construct_rsps a b (y_sim y) (ASched (MRel (TNum (mult * nint lo hi k))) prio h)) as Q.
    cbn [exec_action fst snd] in Q. inversion Q as [Q1]. rewrite Q1. reflexivity.
  - unfold draw, rsps. cbn [y_str with_sim y_sim]. destruct (nth st (y_str y) []) as [|k r]; reflexivity.
  - unfold draw, rsps. cbn [y_str with_sim y_sim]. destruct (nth st (y_str y) []) as [|k r]; reflexivity.
  - unfold sched_pre, rsps. cbn [y_pdone y_pre with_sim y_sim].
    destruct (memn j (y_pdone y)); [reflexivity|].
    destruct (nth_error (ym_pre M) j) as [[[tm prio] h]|]; [|reflexivity].
    destruct (nth_error (y_pre y) j); [|reflexivity].
    cbn [fst snd y_sim]. destruct (y_sim y) as [ck pd ni r0 p0 bd ic sg wk rp cr cn tr ou nt ob fl]. cbn. destruct (tm <? ck); reflexivity.
Qed.

Lemma ymachine_construct_rsps a b fuel : forall y stack,
  ymachine nint M fuel InConstruct (rsps a b y) stack
  = (rsps a b (fst (ymachine nint M fuel InConstruct y stack)), snd (ymachine nint M fuel InConstruct y stack)).
Proof.
  induction fuel as [|f IH]; intros y stack; cbn [ymachine].
  - destruct stack; reflexivity.
  - destruct stack as [|[x|et l s] r]; [reflexivity| |].
    + destruct x as [x|st lo hi mult prio h|sid st lo hi|sid st|et|et l|et l|j];
      try (match goal with |- context [ystep nint M InConstruct (rsps a b y) ?act] =>
             rewrite (ystep_construct_rsps a b y act);
             destruct (ystep nint M InConstruct y act) as [y1 f1]; cbn [fst snd];
             destruct f1; [reflexivity|apply IH] end; fail).
      replace (fire_items et (rsps a b y)) with (fire_items et y) by reflexivity.
      replace (bump_ser (rsps a b y)) with (rsps a b (bump_ser y)) by reflexivity.
      apply IH.
    + replace (log_dlv et l s (rsps a b y)) with (rsps a b (log_dlv et l s y)) by reflexivity.
      apply IH.
Qed.

(* the part of initialize after the decision to accept it and after the statistics were rebuilt:
   construct_model from the state [ya]; a failing construct body aborts initialize *)
Definition yinit_tail (hf : nat) (r : repl) (ya : ysim) : ysim * cres :=
  let '(y3, failed) := yexec nint M hf InConstruct ya (hbody M 0) in
  if failed then (with_sim y3 (set_ps PNotInit (set_rs RNotInit (y_sim y3))), ResRaised)
  else
    let s5 := set_ps PInit (set_rs RInit (y_sim y3)) in
    let s6 := if r_warm r <? clock s5 then raise_flag s5
              else let e := mkEv (r_warm r) 10 (nid s5) HWarm 0 in
                   set_nid (nid s5 + 1) (set_pend (ins e (pend s5)) s5) in
    (with_sim y3 s6, ResOk).

Definition yinit_pre (y : ysim) (r : repl) (m1 : mdl) : ysim :=
  let s := y_sim y in
  let s0 := set_pend [] s in
  let s1 := match worker s0 with WNone => s0 | _ => do_cleanup s0 end in
  let s2 := set_created [] (set_clock (r_start r) (set_rep (Some r) (set_worker WAlive s1))) in
  mkY s2 (initial_subs M) (ym_streams M) 0 (y_dlv y) (y_drw y) m1 (y_pre y) [].

Definition yinit_body (hf : nat) (y : ysim) (r : repl) (m1 : mdl) : ysim := fst (yinit_tail hf r (yinit_pre y r m1)).
Definition yinit_res (hf : nat) (y : ysim) (r : repl) (m1 : mdl) : cres := snd (yinit_tail hf r (yinit_pre y r m1)).

Lemma ydo_init_eq hf y r :
  ydo_init nint M hf y r =
  if running (y_sim y) then (y, ResRefused, false)
  else
    let n := length (obs (y_sim y)) in
    let m0 := mkMdl [] (map (cut_obj n) (m_objs (y_mdl y))) in
    if snd (build_stats n (ym_stats M) m0)
    then (yinit_body hf y r (fst (build_stats n (ym_stats M) m0)), yinit_res hf y r (fst (build_stats n (ym_stats M) m0)), false)
    else (mkY (y_sim y) (y_subm y) (y_str y) (y_ser y) (y_dlv y) (y_drw y) (fst (build_stats n (ym_stats M) m0)) (y_pre y) (y_pdone y),
          ResRefused, true).
Proof.
  unfold ydo_init, yinit_body, yinit_res, yinit_tail, yinit_pre. destruct (running (y_sim y)); auto. cbv zeta.
  destruct (build_stats _ (ym_stats M) _) as [m1 ok]. cbn [fst snd]. destruct ok; cbn [negb]; auto.
  destruct (yexec nint M hf InConstruct _ (hbody M 0)) as [y3 failed]. destruct failed; reflexivity.
Qed.

Lemma yinit_res_cases hf y r m1 : yinit_res hf y r m1 = ResOk \/ yinit_res hf y r m1 = ResRaised.
Proof.
  unfold yinit_res, yinit_tail. destruct (yexec nint M hf InConstruct _ (hbody M 0)) as [y3 failed].
  destruct failed; auto.
Qed.

Lemma yinit_tail_rsps hf r a b ya : yinit_tail hf r (rsps a b ya) = yinit_tail hf r ya.
Proof.
  unfold yinit_tail, yexec. rewrite ymachine_construct_rsps.
  destruct (ymachine nint M hf InConstruct ya (map IAct (hbody M 0))) as [y3 fl]. cbn [fst snd].
  destruct fl; unfold rsps; cbn [y_sim with_sim]; rewrite set_rsps_collapse; reflexivity.
Qed.

Lemma yinit_pre_rsps a b y r m1 :
  yinit_pre (rsps a b y) r m1
  = match worker (y_sim y) with WNone => rsps a b (yinit_pre y r m1) | _ => yinit_pre y r m1 end.
Proof.
  unfold yinit_pre, rsps. cbn [y_sim with_sim y_dlv y_drw y_pre].
  destruct (y_sim y) as [ck pd ni r0 p0 bd ic sg wk rp cr cn tr ou nt ob fl]. destruct wk; reflexivity.
Qed.

Lemma yinit_both_rsps hf a b y r m1 :
  yinit_tail hf r (yinit_pre (rsps a b y) r m1) = yinit_tail hf r (yinit_pre y r m1).
Proof. rewrite yinit_pre_rsps. destruct (worker (y_sim y)); auto using yinit_tail_rsps. Qed.

Lemma yinit_body_rsps hf a b y r m1 : yinit_body hf (rsps a b y) r m1 = yinit_body hf y r m1.
Proof. unfold yinit_body. rewrite yinit_both_rsps. reflexivity. Qed.

Lemma yinit_res_rsps hf a b y r m1 : yinit_res hf (rsps a b y) r m1 = yinit_res hf y r m1.
Proof. unfold yinit_res. rewrite yinit_both_rsps. reflexivity. Qed.

End YInit.

Section YTop.
Variable nint : Z -> Z -> Z -> Z.

Variable B : ybase.
Hypothesis B_le : (length (l_ob (yb_t B)) <= length (l_ob (yb_s B)))%nat.

Lemma yinit_tail_ysim M hf r ya ta :
  YSim B ya ta ->
  YSim B (fst (yinit_tail nint M hf r ya)) (fst (yinit_tail nint M hf r ta))
  /\ snd (yinit_tail nint M hf r ta) = snd (yinit_tail nint M hf r ya).
Proof.
  intros Y. unfold yinit_tail, yexec.
  destruct (ymachine_ysim nint B M hf InConstruct ya ta (map IAct (hbody M 0)) Y) as [Y3 E3].
  destruct (ymachine nint M hf InConstruct ya _) as [y3 fl], (ymachine nint M hf InConstruct ta _) as [t3 fl'].
  cbn [fst snd] in *. subst fl'. destruct Y3 as [H3 R3].
  destruct fl; cbn [fst snd]; (split; [|reflexivity]).
  - apply ysim_with_sim; auto. apply set_ps_idsim, set_rs_idsim; auto.
  - apply ysim_with_sim; auto.
    assert (H5 : IdSimX (yb_X B) (yb_X' B) (yb_s B) (yb_t B) (set_ps PInit (set_rs RInit (y_sim y3)))
                                       (set_ps PInit (set_rs RInit (y_sim t3))))
      by (apply set_ps_idsim, set_rs_idsim; auto).
    rewrite (idsim_clock _ _ _ _ _ _ H5).
    destruct (r_warm r <? clock (set_ps PInit (set_rs RInit (y_sim y3)))).
    + apply raise_flag_idsim; auto.
    + apply warm_insert_idsim; auto.
Qed.

Lemma idsim_obs_len_gen s t :
  IdSimX (yb_X B) (yb_X' B) (yb_s B) (yb_t B) s t -> length (obs s) = (length (obs t) + yb_L B)%nat.
Proof.
  intros [_ [n [A A']]]. unfold yb_L.
  assert (Os : obs s = l_ob n ++ l_ob (yb_s B)) by (change (obs s) with (l_ob (logs_of s)); rewrite A; reflexivity).
  assert (Ot : obs t = l_ob n ++ l_ob (yb_t B)) by (change (obs t) with (l_ob (logs_of t)); rewrite A'; reflexivity).
  rewrite Os, Ot, !app_length. lia.
Qed.

Lemma ydo_init_ysim M hf r y t :
  YSim B y t ->
  YSim B (fst (fst (ydo_init nint M hf y r))) (fst (fst (ydo_init nint M hf t r)))
  /\ snd (fst (ydo_init nint M hf t r)) = snd (fst (ydo_init nint M hf y r))
  /\ snd (ydo_init nint M hf t r) = snd (ydo_init nint M hf y r).
Proof.
  intros [H R]. rewrite !ydo_init_eq, (idsim_running _ _ _ _ _ _ H).
  destruct (running (y_sim y)); [cbn [fst snd]; split; [split; auto|auto]|]. cbv zeta.
  pose proof (idsim_obs_len_gen _ _ H) as EL.
  pose proof (cut_all_mrel _ (yb_N B) _ _ _ _ EL (yr_mdl _ _ _ R)) as M0.
  destruct (build_stats_mrel _ (yb_N B) _ _ (ym_stats M) _ _ EL M0) as [M1 E1].
  rewrite E1.
  destruct (snd (build_stats (length (obs (y_sim t))) (ym_stats M) _)); cbn [fst snd].
  2: { split; auto. split; [exact H|]. destruct R. constructor; cbn; auto. }
  assert (Ya : YSim B (yinit_pre M y r (fst (build_stats (length (obs (y_sim y))) (ym_stats M)
                         (mkMdl [] (map (cut_obj (length (obs (y_sim y)))) (m_objs (y_mdl y)))))))
                      (yinit_pre M t r (fst (build_stats (length (obs (y_sim t))) (ym_stats M)
                         (mkMdl [] (map (cut_obj (length (obs (y_sim t)))) (m_objs (y_mdl t)))))))).
  { unfold yinit_pre. split; cbn [y_sim].
    + apply forget_created_idsim, set_clock_idsim, set_rep_idsim, set_worker_idsim.
      pose proof (clear_idsim _ _ _ _ _ _ H) as H0.
      rewrite (idsim_worker _ _ _ _ _ _ H0). destruct (worker (set_pend [] (y_sim y))); auto using do_cleanup_idsim.
    + destruct R. constructor; cbn; auto. }
  destruct (yinit_tail_ysim M hf r _ _ Ya) as [Yb Eb]. unfold yinit_body, yinit_res. auto.
Qed.

Theorem ydo_cmd_ysim M fuel hf c y t :
  YSim B y t ->
  YSim B (fst (fst (ydo_cmd nint fuel hf M y c))) (fst (fst (ydo_cmd nint fuel hf M t c)))
  /\ snd (fst (ydo_cmd nint fuel hf M t c)) = snd (fst (ydo_cmd nint fuel hf M y c))
  /\ snd (ydo_cmd nint fuel hf M t c) = snd (ydo_cmd nint fuel hf M y c).
Proof.
  intros Y. pose proof Y as [H R]. destruct c; cbn [ydo_cmd].
  - apply ydo_init_ysim; auto.
  - cbn [fst snd]. auto.
  - rewrite (idsim_rep _ _ _ _ _ _ H). destruct (rep (y_sim y)); cbn [fst snd]; auto.
    destruct (ydo_start_ysim nint B M fuel hf y t (TNum (r_end r)) true Y). auto.
  - cbn [fst snd]. destruct (ydo_step_ysim nint B M hf y t Y). auto.
  - rewrite (idsim_running _ _ _ _ _ _ H). destruct (running (y_sim y)); cbn [fst snd]; auto.
    split; auto. apply ysim_with_sim; auto. apply set_rs_idsim, emit_idsim; auto.
  - cbn [fst snd]. destruct (ydo_start_ysim nint B M fuel hf y t t0 false Y). auto.
  - cbn [fst snd]. destruct (ydo_start_ysim nint B M fuel hf y t t0 true Y). auto.
  - cbn [fst snd]. destruct (ydo_end_repl_ysim nint B M fuel hf y t Y). auto.
  - cbn [fst snd]. split; auto. apply ysim_with_sim; auto. apply do_cleanup_idsim; auto.
Qed.

Theorem y_hist_ysim fuel hf h : forall y t,
  YSim B y t ->
  YSim B (fst (fst (y_hist nint fuel hf y h))) (fst (fst (y_hist nint fuel hf t h)))
  /\ snd (fst (y_hist nint fuel hf t h)) = snd (fst (y_hist nint fuel hf y h))
  /\ snd (y_hist nint fuel hf t h) = snd (y_hist nint fuel hf y h).
Proof.
  induction h as [|[M c] r IH]; intros y t Y; cbn [y_hist]; [cbn; auto|].
  destruct (ydo_cmd_ysim M fuel hf c y t Y) as (Y1 & E1 & E1').
  destruct (ydo_cmd nint fuel hf M y c) as [[y1 res] bad], (ydo_cmd nint fuel hf M t c) as [[t1 res'] bad'].
  cbn [fst snd] in *. subst res' bad'.
  destruct (IH y1 t1 Y1) as (Y2 & E2 & E2').
  destruct (y_hist nint fuel hf y1 r) as [[y2 sn] b2], (y_hist nint fuel hf t1 r) as [[t2 sn'] b2'].
  cbn [fst snd] in *. subst sn' b2'. split; auto. split; auto.
  destruct Y1 as [H1 _]. rewrite (snap_idsim _ _ _ _ _ _ res H1). reflexivity.
Qed.

End YTop.

(* ------------------------------------------------------------------ *)
(** * The two theorems for the composed model *)

Section YTheorems.
Variable nint : Z -> Z -> Z -> Z.

Lemma idsimx_logsrel X X' bs bt s t : IdSimX X X' bs bt s t -> LogsRel bs bt s t.
Proof. intros [_ L]. exact L. Qed.

Lemma ysim_reported X X' base N y t :
  IdSimX X X' base no_logs (y_sim y) (y_sim t) -> MdlRel (length (l_ob base)) N (y_mdl y) (y_mdl t) ->
  yreported y = yreported t.
Proof.
  intros H [Mm Mo Ml]. unfold yreported, reported. cbn [x_mdl x_sim]. rewrite Mm. unfold shift_map. rewrite map_map. cbn [fst snd].
  apply map_ext. intros [k i]. cbn [fst snd]. f_equal.
  rewrite nth_error_skipn, Mo, nth_error_map.
  destruct (nth_error (m_objs (y_mdl t)) i) as [o|]; cbn [option_map]; auto.
  rewrite (feed_shiftx X X' _ _ _ o H). reflexivity.
Qed.

(* RE-INITIALISATION of the composed model.  y: ANY state that is not running
   (whatever happened before, with whatever listeners subscribed, however far
   the streams were consumed, whatever statistics exist).  Initialise it for
   replication r of model M -- construct_model re-seeds the streams, builds a
   new producer with its subscriptions and new statistics -- and do the same
   with a brand-new simulator; then any further history h (any commands, any
   models taking turns) gives the same snapshots, and the re-initialised
   simulator logs exactly what the new one logs: executed events, cancellations,
   outcomes, notifications, statistics feed, deliveries to listeners and random
   draws -- on top of what it had logged before; producer, streams and the
   reported statistics are equal. *)
Theorem y_reinit_fresh M r y pre' g fuel hf h :
  running (y_sim y) = false -> NoDup (keys_of (ym_stats M)) ->
  (* the pre-built SimEvent objects of the brand-new model: same order of ids, below the counter *)
  map g (y_pre y) = pre' ->
  (forall a b, In a (y_pre y) -> In b (y_pre y) -> a < b -> g a < g b) ->
  (forall a, In a (y_pre y) -> a < nid (y_sim y)) -> (forall a, In a (y_pre y) -> g a < 0) ->
  let a := fst (fst (ydo_init nint M hf y r)) in
  let b := fst (fst (ydo_init nint M hf (y0p (strat (y_sim y)) pre') r)) in
  let ra := y_hist nint fuel hf a h in
  let rb := y_hist nint fuel hf b h in
  let ya := fst (fst ra) in let yb := fst (fst rb) in
  (snd (fst (ydo_init nint M hf y r)) = snd (fst (ydo_init nint M hf (y0p (strat (y_sim y)) pre') r))
   /\ snd (fst (ydo_init nint M hf y r)) <> ResRefused)
  /\ snd (fst ra) = snd (fst rb) /\ snd ra = snd rb
  /\ logs_of (y_sim ya) = lapp (logs_of (y_sim yb)) (logs_of (y_sim y))
  /\ y_dlv ya = y_dlv yb ++ y_dlv y
  /\ y_drw ya = y_drw yb ++ y_drw y
  /\ y_subm ya = y_subm yb /\ y_str ya = y_str yb /\ y_ser ya = y_ser yb
  /\ yreported ya = yreported yb.
Proof.
  intros R ND Eg Mg Lg Hg. cbv zeta.
  set (B := mkYB (logs_of (y_sim y)) no_logs (y_dlv y) [] (y_drw y) [] (length (m_objs (y_mdl y))) (y_pre y) pre').
  assert (BL : (length (l_ob (yb_t B)) <= length (l_ob (yb_s B)))%nat) by (cbn; lia).
  assert (LB : yb_L B = length (obs (y_sim y))) by (unfold yb_L, B; cbn; lia).
  (* the two initialised states are related *)
  assert (Y0 : YSim B (fst (fst (ydo_init nint M hf y r))) (fst (fst (ydo_init nint M hf (y0p (strat (y_sim y)) pre') r)))
               /\ (snd (fst (ydo_init nint M hf y r)) = snd (fst (ydo_init nint M hf (y0p (strat (y_sim y)) pre') r))
                   /\ snd (fst (ydo_init nint M hf y r)) <> ResRefused)).
  { rewrite !ydo_init_eq, R. replace (running (y_sim (y0p (strat (y_sim y)) pre'))) with false by reflexivity. cbv zeta.
    set (L := length (obs (y_sim y))). set (N := length (m_objs (y_mdl y))).
    assert (M0 : MdlRel L N (mkMdl [] (map (cut_obj L) (m_objs (y_mdl y)))) (mkMdl [] (map (cut_obj 0) []))).
    { constructor; cbn [m_map m_objs map]; auto.
      - rewrite skipn_all2; auto. rewrite map_length. unfold N. lia.
      - rewrite map_length. cbn. unfold N. lia. }
    assert (EL : L = (0 + L)%nat) by reflexivity.
    destruct (build_stats_mrel L N L 0%nat (ym_stats M) _ _ EL M0) as [M1 E1].
    pose proof (build_stats_ok 0%nat (ym_stats M) (mkMdl [] (map (cut_obj 0) [])) ND (fun k _ => eq_refl)) as Ok.
    replace (length (obs (y_sim (y0p (strat (y_sim y)) pre')))) with 0%nat by reflexivity.
    replace (m_objs (y_mdl (y0p (strat (y_sim y)) pre'))) with (@nil sobj) by reflexivity.
    rewrite E1, Ok. cbn [fst snd].
    rewrite <- (yinit_body_rsps nint M hf PNotInit RNotInit y), <- (yinit_res_rsps nint M hf PNotInit RNotInit y).
    set (m1 := fst (build_stats L (ym_stats M) _)) in *. set (m1' := fst (build_stats 0 (ym_stats M) _)) in *.
    assert (Ya : YSim B (yinit_pre M (rsps PNotInit RNotInit y) r m1) (yinit_pre M (y0p (strat (y_sim y)) pre') r m1')).
    { unfold yinit_pre. split; cbn [y_sim].
      - replace (strat (y_sim y)) with (strat (y_sim (rsps PNotInit RNotInit y))) by reflexivity.
        replace (worker (set_pend [] (y_sim (y0p (strat (y_sim (rsps PNotInit RNotInit y))) pre')))) with WNone by reflexivity.
        cbv iota. unfold B. cbn [yb_s yb_t yb_X yb_X'].
        replace (logs_of (y_sim y)) with (logs_of (y_sim (rsps PNotInit RNotInit y))) by reflexivity.
        apply (init_pre_idsimx (y_pre y) pre' g); auto; reflexivity.
      - constructor; try reflexivity.
        + exists []. auto.
        + exists []. auto.
        + rewrite LB. exact M1.
        + split; reflexivity. }
    destruct (yinit_tail_ysim nint B M hf r _ _ Ya) as [Yb Eb]. unfold yinit_body, yinit_res.
    split; [exact Yb|]. split; [symmetry; exact Eb|].
    destruct (yinit_res_cases nint M hf (rsps PNotInit RNotInit y) r m1) as [Q|Q]; unfold yinit_res in Q; rewrite Q; discriminate. }
  destruct Y0 as [Y0 Ok0]. split; auto.
  destruct (y_hist_ysim nint B BL fuel hf h _ _ Y0) as (Y & E & E').
  destruct Y as [H Rr]. split; [symmetry; exact E|]. split; [symmetry; exact E'|].
  destruct Rr as [R1 R2 R3 [nd [D D']] [nw [W W']] Rm Rp Rd].
  cbn [yb_ds yb_dt yb_ws yb_wt B] in *. rewrite app_nil_r in D', W'.
  split.
  { destruct H as [_ [n [A A']]]. cbn [yb_s yb_t B] in *. rewrite lapp_no_logs in A'. rewrite A'. exact A. }
  split; [rewrite D', D; reflexivity|]. split; [rewrite W', W; reflexivity|].
  split; [auto|]. split; [auto|]. split; [auto|].
  apply (ysim_reported (y_pre y) pre' (logs_of (y_sim y)) (length (m_objs (y_mdl y)))); auto.
  rewrite LB in Rm. exact Rm.
Qed.

(* EVENT-ID RENAMING for the composed model *)
Definition ren_y (f : Z -> Z) (n' : Z) (y : ysim) : ysim :=
  mkY (ren_sim f n' (y_sim y)) (y_subm y) (y_str y) (y_ser y) (y_dlv y) (y_drw y) (y_mdl y)
      (map f (y_pre y)) (y_pdone y).

Lemma shift_map_0 m : shift_map 0 m = m.
Proof.
  unfold shift_map. induction m as [|[k i] r IH]; cbn [map fst snd]; auto.
  rewrite IH, Nat.add_0_r. reflexivity.
Qed.

Lemma shift_obj_0 o : shift_obj 0 o = o.
Proof.
  unfold shift_obj. destruct o as [k kd sd fr [u|]]; cbn; rewrite ?Nat.add_0_r; reflexivity.
Qed.

Lemma map_shift_obj_0 l : map (shift_obj 0) l = l.
Proof. induction l as [|o r IH]; cbn [map]; auto. rewrite IH, shift_obj_0. reflexivity. Qed.

Lemma mdlrel_0 m : MdlRel 0 0 m m.
Proof. constructor; cbn [skipn]; rewrite ?shift_map_0, ?map_shift_obj_0; auto. Qed.

Lemma mdlrel_0_eq mx my : MdlRel 0 0 mx my -> mx = my.
Proof.
  intros [A Bq _]. rewrite shift_map_0 in A. cbn [skipn] in Bq. rewrite map_shift_obj_0 in Bq.
  destruct mx, my; cbn in *; congruence.
Qed.

Theorem y_run_id_monotone_invariant f n' y fuel hf h :
  (forall a, In a (domx (y_pre y) (y_sim y)) -> a < nid (y_sim y)) -> MonoOnX (y_pre y) f n' (y_sim y) ->
  let ra := y_hist nint fuel hf y h in
  let rb := y_hist nint fuel hf (ren_y f n' y) h in
  let ya := fst (fst ra) in let yb := fst (fst rb) in
  snd (fst rb) = snd (fst ra) /\ snd rb = snd ra
  /\ logs_of (y_sim yb) = logs_of (y_sim ya)
  /\ y_dlv yb = y_dlv ya /\ y_drw yb = y_drw ya
  /\ y_subm yb = y_subm ya /\ y_str yb = y_str ya /\ y_ser yb = y_ser ya
  /\ yreported yb = yreported ya.
Proof.
  intros Lo Mo. cbv zeta.
  set (s := y_sim y).
  set (B := mkYB (logs_of s) (logs_of s) (y_dlv y) (y_dlv y) (y_drw y) (y_drw y) 0 (y_pre y) (map f (y_pre y))).
  assert (BL : (length (l_ob (yb_t B)) <= length (l_ob (yb_s B)))%nat) by (cbn; lia).
  assert (LB : yb_L B = 0%nat) by (unfold yb_L, B; cbn; lia).
  assert (Y0 : YSim B y (ren_y f n' y)).
  { split; [apply ren_sim_idsimx; auto|]. constructor; try reflexivity.
    - exists []. auto.
    - exists []. auto.
    - rewrite LB. apply mdlrel_0.
    - split; reflexivity. }
  destruct (y_hist_ysim nint B BL fuel hf h _ _ Y0) as (Y & E & E').
  destruct Y as [H Rr]. split; auto. split; auto.
  destruct Rr as [R1 R2 R3 [nd [D D']] [nw [W W']] Rm Rp Rd].
  cbn [yb_ds yb_dt yb_ws yb_wt B] in *.
  assert (EL : logs_of (y_sim (fst (fst (y_hist nint fuel hf (ren_y f n' y) h))))
               = logs_of (y_sim (fst (fst (y_hist nint fuel hf y h))))).
  { destruct H as [_ [n [A A']]]. cbn [yb_s yb_t B] in *. congruence. }
  split; auto. split; [congruence|]. split; [congruence|]. split; auto. split; auto. split; auto.
  rewrite LB in Rm. apply mdlrel_0_eq in Rm.
  unfold yreported, reported. cbn [x_mdl x_sim]. rewrite <- Rm.
  apply map_ext. intros [k i]. cbn [fst snd]. f_equal.
  destruct (nth_error (m_objs (y_mdl (fst (fst (y_hist nint fuel hf y h))))) i) as [o|]; auto.
  unfold feed. f_equal. f_equal.
  change (obs (y_sim (fst (fst (y_hist nint fuel hf (ren_y f n' y) h)))))
    with (l_ob (logs_of (y_sim (fst (fst (y_hist nint fuel hf (ren_y f n' y) h)))))).
  rewrite EL. reflexivity.
Qed.

End YTheorems.
