(* C04, model M1 (sequential): the lifecycle protocol of the simulator, stated
   over the command semantics of Sim/Model.v ([do_cmd], [run_cmds]).

   This file holds executable definitions only:
     - the documented accept / refuse table;
     - the monitor automaton for the notification stream of one replication;
     - the state invariants that hold whenever the simulator is quiescent;
     - [lifecycle_ok]: the run of a whole command list under the monitor;
     - the comparison functions the correspondence check (harness/c04.py) uses.
   The theorems are in Sim/LifecycleProofs.v. *)
From Coq Require Import ZArith List Bool.
From PV Require Import EventList.Key Sim.Model.
Import ListNotations.
Local Open Scope Z_scope.

(* ------------------------------------------------------------------ *)
(* 1. The accept / refuse table                                         *)
(* ------------------------------------------------------------------ *)

Definition rs_running (r : runst) : bool :=
  match r with RStarting | RStarted => true | _ => false end.

Definition rs_initialized (r : runst) : bool :=
  match r with RNotInit => false | _ => true end.

Definition ps_runnable (p : replst) : bool :=
  match p with PInit | PStarted => true | _ => false end.

(* the run bound of a bounded run must be a number that is not in the past *)
Definition bound_ok (c : cmd) (clk : Z) : bool :=
  match c with
  | CRunUpTo (TNum t) | CRunUpToIncl (TNum t) => negb (t <? clk)
  | CRunUpTo TNaN | CRunUpToIncl TNaN => false
  | _ => true
  end.

(* the rules of simulator.py's docstrings and guards, as a function of the run
   state, the replication state, "clock > end of the replication" (a clock
   exactly at the end does not refuse: a run paused there with events at the end
   time still pending can be resumed and then ends the replication) and, for
   bounded runs, the validity of the bound *)
(* [craises]: the model's construct_model raises (a property of the model
   program, not of the simulator): an initialize that is not refused is then
   aborted by that exception - the third outcome, neither accepted nor refused *)
Definition table (c : cmd) (r : runst) (p : replst) (past_end bok craises : bool) : cres :=
  match c with
  | CInit _ => if rs_running r then ResRefused else if craises then ResRaised else ResOk
  | CInitBad => ResRefused
  | CStart | CStep | CRunUpTo _ | CRunUpToIncl _ =>
      if negb (rs_running r) && rs_initialized r && ps_runnable p && negb past_end && bok
      then ResOk else ResRefused
  | CStop => if rs_running r then ResOk else ResRefused
  | CEndRepl => match p with PStarted => ResOk | _ => ResRefused end
  | CCleanup => ResOk
  end.

Definition past_end (s : sim) : bool := end_time s <? clock s.

Definition is_fail (a : action) : bool := match a with AFail => true | _ => false end.

(* construct_model (handler 0 of the program) raises *)
Definition construct_raises (p : program) : bool := existsb is_fail (body p 0).

Definition table_of (p : program) (s : sim) (c : cmd) : cres :=
  table c (rs s) (ps s) (past_end s) (bound_ok c (clock s)) (construct_raises p).

(* ------------------------------------------------------------------ *)
(* 2. The monitor automaton of the notification stream                  *)
(* ------------------------------------------------------------------ *)

(* One monitor run covers what a subscriber sees between an accepted
   initialize and the next accepted initialize / cleanup (cleanup drops every
   listener).  [m_live = false]: no replication - no notification is accepted. *)
Record mon := mkMon {
  m_live : bool;
  m_w : Z;                (* warm-up time of the replication *)
  m_sr : bool;            (* START_REPLICATION seen *)
  m_run : bool;           (* between START and STOP *)
  m_starting : bool;      (* STARTING seen, START must be next *)
  m_warm : bool;          (* WARMUP seen *)
  m_er : bool;            (* END_REPLICATION seen *)
  m_last : option Z       (* timestamp of the latest timed notification *)
}.

Definition mon_dead : mon := mkMon false 0 false false false false false None.
Definition mon_fresh (w : Z) : mon := mkMon true w false false false false false None.

Definition le_last (l : option Z) (t : Z) : bool :=
  match l with None => true | Some x => x <=? t end.

Definition mon_step (m : mon) (n : ntf) : option mon :=
  if negb (m_live m) || m_er m then None
  else if m_starting m then
    match n with
    | NStart t =>
        if negb (m_run m) && le_last (m_last m) t
        then Some (mkMon true (m_w m) (m_sr m) true false (m_warm m) false (Some t))
        else None
    | _ => None
    end
  else
    match n with
    | NStartRepl t =>
        if m_sr m then None
        else Some (mkMon true (m_w m) true false false (m_warm m) false (Some t))
    | NStarting =>
        if m_sr m && negb (m_run m)
        then Some (mkMon true (m_w m) true false true (m_warm m) false (m_last m))
        else None
    | NStart t =>
        if m_sr m && negb (m_run m) && le_last (m_last m) t
        then Some (mkMon true (m_w m) true true false (m_warm m) false (Some t))
        else None
    | NTime t =>
        if m_sr m && m_run m && le_last (m_last m) t
        then Some (mkMon true (m_w m) true true false (m_warm m) false (Some t))
        else None
    | NWarmup t =>
        if m_sr m && m_run m && negb (m_warm m) && (t =? m_w m) && le_last (m_last m) t
        then Some (mkMon true (m_w m) true true false true false (Some t))
        else None
    | NStopping =>
        if m_sr m && m_run m then Some m else None
    | NStop t =>
        if m_sr m && m_run m && le_last (m_last m) t
        then Some (mkMon true (m_w m) true false false (m_warm m) false (Some t))
        else None
    | NEndRepl t =>
        if m_sr m && negb (m_run m) && le_last (m_last m) t
        then Some (mkMon true (m_w m) true false false (m_warm m) true (Some t))
        else None
    end.

Fixpoint mon_feed (m : mon) (l : list ntf) : option mon :=
  match l with
  | [] => Some m
  | n :: r => match mon_step m n with Some m1 => mon_feed m1 r | None => None end
  end.

(* what must hold of the monitor whenever the simulator is quiescent: every
   START has had its STOP, every STARTING its START *)
Definition mon_quiet (m : mon) : bool := negb (m_run m) && negb (m_starting m).

(* accepted streams: the whole stream is consumed and ends in a quiet state *)
Definition mon_accepts (w : Z) (l : list ntf) : bool :=
  match mon_feed (mon_fresh w) l with Some m => mon_quiet m | None => false end.

(* an accepted initialize opens a new monitor run, cleanup closes it *)
Definition mon_reset (c : cmd) (res : cres) (m : mon) : mon :=
  match c, res with
  | CInit r, ResOk => mon_fresh (r_warm r)
  | CInit _, ResRaised => mon_dead        (* the cleanup inside initialize dropped the listeners; not initialized *)
  | CCleanup, _ => mon_dead
  | _, _ => m
  end.

(* ------------------------------------------------------------------ *)
(* 3. State invariants at quiescence                                    *)
(* ------------------------------------------------------------------ *)

(* the combinations of (run state, replication state, run thread) in which a
   quiescent simulator can be *)
Definition qstate_ok (r : runst) (p : replst) (w : wstate) : bool :=
  match r, p, w with
  | RNotInit, PNotInit, WNone => true
  | RNotInit, PNotInit, WAlive => true       (* after an initialize aborted by construct_model: the new run
                                                thread waits until the next initialize / cleanup *)
  | RInit, PInit, WAlive => true
  | RStopped, PStarted, WAlive => true
  | REnded, PEnded, WFinal => true
  | _, _, _ => false
  end.

Definition qinv (s : sim) : bool := qstate_ok (rs s) (ps s) (worker s).

(* NOT_INITIALIZED, yet a run thread is held: the last initialize was aborted *)
Definition holds_aborted_thread (s : sim) : bool :=
  match rs s, worker s with RNotInit, WAlive => true | _, _ => false end.

(* monitor state and simulator state agree (at quiescence) *)
Definition mon_agrees (m : mon) (r : runst) (p : replst) : bool :=
  Bool.eqb (m_live m) (rs_initialized r)
  && Bool.eqb (m_sr m) (match p with PStarted | PEnding | PEnded => true | _ => false end)
  && Bool.eqb (m_er m) (match p with PEnded => true | _ => false end).

(* ------------------------------------------------------------------ *)
(* 4. A whole command list under the monitor                            *)
(* ------------------------------------------------------------------ *)

(* the notifications emitted between two states of the same history, oldest
   first ([ntfs] is kept newest first and only grows) *)
Definition new_ntfs (s s' : sim) : list ntf :=
  rev (firstn (length (ntfs s') - length (ntfs s)) (ntfs s')).

Fixpoint lifecycle_ok (fuel : nat) (p : program) (s : sim) (m : mon) (cs : list cmd) : bool :=
  match cs with
  | [] => true
  | c :: r =>
      let '(s1, res) := do_cmd fuel p s c in
      match mon_feed (mon_reset c res m) (new_ntfs s s1) with
      | Some m1 =>
          mon_quiet m1 && qinv s1 && mon_agrees m1 (rs s1) (ps s1)
          && lifecycle_ok fuel p s1 m1 r
      | None => false
      end
  end.

(* the same run, returning the final state and monitor (None = rejected) *)
Fixpoint lifecycle_run (fuel : nat) (p : program) (s : sim) (m : mon) (cs : list cmd) : option (sim * mon) :=
  match cs with
  | [] => Some (s, m)
  | c :: r =>
      let '(s1, res) := do_cmd fuel p s c in
      match mon_feed (mon_reset c res m) (new_ntfs s s1) with
      | Some m1 => lifecycle_run fuel p s1 m1 r
      | None => None
      end
  end.

Definition is_endrepl (c : cmd) : bool := match c with CEndRepl => true | _ => false end.

(* the warm-up event is scheduled at initialize unless the warm-up time lies
   before the start of the replication *)
Definition warm_scheduled (s : sim) : bool :=
  match rep s with Some r => r_start r <=? r_warm r | None => false end.

(* ------------------------------------------------------------------ *)
(* 5. Correspondence with the implementation (harness/c04.py)           *)
(* ------------------------------------------------------------------ *)

Definition runst_eqb (a b : runst) : bool :=
  match a, b with
  | RNotInit, RNotInit | RInit, RInit | RStarting, RStarting | RStarted, RStarted
  | RStopping, RStopping | RStopped, RStopped | REnded, REnded => true
  | _, _ => false
  end.

Definition replst_eqb (a b : replst) : bool :=
  match a, b with
  | PNotInit, PNotInit | PInit, PInit | PStarted, PStarted | PEnding, PEnding | PEnded, PEnded => true
  | _, _ => false
  end.

Definition cres_eqb (a b : cres) : bool :=
  match a, b with ResOk, ResOk | ResRefused, ResRefused | ResRaised, ResRaised => true | _, _ => false end.

Definition ntf_eqb (a b : ntf) : bool :=
  match a, b with
  | NStartRepl x, NStartRepl y | NStart x, NStart y | NTime x, NTime y | NWarmup x, NWarmup y
  | NStop x, NStop y | NEndRepl x, NEndRepl y => x =? y
  | NStarting, NStarting | NStopping, NStopping => true
  | _, _ => false
  end.

Fixpoint list_eqb {A : Type} (eqb : A -> A -> bool) (a b : list A) : bool :=
  match a, b with
  | [], [] => true
  | x :: r, y :: s => eqb x y && list_eqb eqb r s
  | _, _ => false
  end.

(* what the harness observes after each command, at strict quiescence *)
Record lsnap := mkLsnap {
  l_res : cres; l_rs : runst; l_ps : replst; l_clock : Z; l_npend : nat;
  l_alive : nat;                 (* live run threads of this simulator *)
  l_ntfs : list ntf              (* notifications seen during this command *)
}.

Definition alive_count (s : sim) : nat := match worker s with WAlive => 1%nat | _ => 0%nat end.

Definition lsnap_eqb (a b : lsnap) : bool :=
  cres_eqb (l_res a) (l_res b) && runst_eqb (l_rs a) (l_rs b) && replst_eqb (l_ps a) (l_ps b)
  && (l_clock a =? l_clock b) && Nat.eqb (l_npend a) (l_npend b) && Nat.eqb (l_alive a) (l_alive b)
  && list_eqb ntf_eqb (l_ntfs a) (l_ntfs b).

(* In the harness construct_model can be made to raise on chosen initialize
   calls only: the k-th CInit of the list (k in [fails]) runs under the program
   whose construct body ends in a failure, every other command under p. *)
Definition failing (p : program) : program :=
  match p with
  | [] => [[AFail]]
  | b :: r => (b ++ [AFail]) :: r
  end.

Definition is_init (c : cmd) : bool := match c with CInit _ => true | _ => false end.

Fixpoint lrun (fuel : nat) (p : program) (fails : list nat) (k : nat) (s : sim) (cs : list cmd)
  : sim * list lsnap :=
  match cs with
  | [] => (s, [])
  | c :: r =>
      let k1 := if is_init c then S k else k in
      let pc := if is_init c && existsb (Nat.eqb k1) fails then failing p else p in
      let '(s1, res) := do_cmd fuel pc s c in
      let '(s2, sn) := lrun fuel p fails k1 s1 r in
      (s2, mkLsnap res (rs s1) (ps s1) (clock s1) (length (pend s1)) (alive_count s1) (new_ntfs s s1) :: sn)
  end.

(* the table and the monitor evaluated on the implementation's own snapshots:
   does the observed outcome of each command equal the table entry for the
   observed state before it, and is the observed stream accepted *)
Fixpoint observed_ok (craises : bool) (fails : list nat) (k : nat) (cs : list cmd) (obs : list lsnap)
         (r : runst) (p : replst) (clk endt : Z) (m : mon) : bool :=
  match cs, obs with
  | [], [] => true
  | c :: cr, o :: orest =>
      let k1 := if is_init c then S k else k in
      cres_eqb (l_res o) (table c r p (endt <? clk) (bound_ok c clk)
                                (craises || (is_init c && existsb (Nat.eqb k1) fails)))
      && match mon_feed (mon_reset c (l_res o) m) (l_ntfs o) with
         | Some m1 =>
             mon_quiet m1 && mon_agrees m1 (l_rs o) (l_ps o)
             && observed_ok craises fails k1 cr orest (l_rs o) (l_ps o) (l_clock o)
                  (match c, l_res o with
                   | CInit rp, ResOk | CInit rp, ResRaised => r_end rp
                   | _, _ => endt end) m1
         | None => false
         end
  | _, _ => false
  end.

Record lcase := mkLcase {
  lc_strat : strategy;
  lc_prog : program;
  lc_cmds : list cmd;
  lc_fails : list nat;           (* the initialize calls (1-based) whose construct_model raises *)
  lc_obs : list lsnap            (* the implementation's observations *)
}.

Definition LFUEL : nat := 4000.

(* 0 = model and implementation agree and the observed history satisfies the
   table and the monitor; 1 = model and implementation differ; 2 = the model
   does not cover the case (flag); 3 = they agree but the table / monitor
   rejects the observed history *)
Definition lcase_code (c : lcase) : nat :=
  let '(s, sn) := lrun LFUEL (lc_prog c) (lc_fails c) 0 (init_sim (lc_strat c)) (lc_cmds c) in
  if flag s then 2%nat
  else if negb (list_eqb lsnap_eqb sn (lc_obs c)) then 1%nat
  else if observed_ok (construct_raises (lc_prog c)) (lc_fails c) 0 (lc_cmds c) (lc_obs c)
                      RNotInit PNotInit 0 0 mon_dead then 0%nat
  else 3%nat.

Fixpoint lcodes_from (i : nat) (want : nat) (cs : list lcase) : list nat :=
  match cs with
  | [] => []
  | c :: r => if Nat.eqb (lcase_code c) want then i :: lcodes_from (S i) want r
              else lcodes_from (S i) want r
  end.

Definition lcase_view (c : lcase) : list lsnap :=
  snd (lrun LFUEL (lc_prog c) (lc_fails c) 0 (init_sim (lc_strat c)) (lc_cmds c)).
