(* C06 / C07 -- proofs about re-initialisation and event-id renaming for the
   simulator model Sim/Model.v (definitions in Sim/Reinit.v).

   The central fact: every operation of the simulator preserves [IdSim]
   ("same state up to an order-preserving renaming of the event ids that can
   still be compared, and the same things logged since two arbitrary
   marks"), because ids are only ever compared with [<] / [=] among pending
   and referenced events, and fresh ids are larger than all of those. *)
From Coq Require Import ZArith List Bool Lia Sorting.Sorted Sorting.Permutation.
From PV Require Import EventList.Key EventList.KeyProofs Sim.Model Sim.Case Sim.Order Sim.Horizon Sim.Reinit.
Import ListNotations.
Local Open Scope Z_scope.

Ltac ssimpl :=
  cbn [clock pend nid rs ps bound incl strat worker rep created cancelled trace outs ntfs obs flag
       set_clock set_pend set_nid set_rs set_ps set_bound set_incl set_strat set_worker set_rep
       set_created set_cancelled set_trace set_outs set_ntfs set_obs set_flag
       emit out raise_flag fst snd] in *.

(* ------------------------------------------------------------------ *)
(** * Logs *)

Lemma push_lapp l n b : push l (lapp n b) = lapp (push l n) b.
Proof. destruct l; reflexivity. Qed.

Lemma lapp_no_logs n : lapp n no_logs = n.
Proof.
  destruct n; unfold lapp, no_logs; cbn. rewrite !app_nil_r, orb_false_r. reflexivity.
Qed.

Lemma LogsRel_push bs bt s t s' t' l :
  LogsRel bs bt s t -> logs_of s' = push l (logs_of s) -> logs_of t' = push l (logs_of t) ->
  LogsRel bs bt s' t'.
Proof.
  intros [n [Hs Ht]] Es Et. exists (push l n).
  rewrite Es, Et, Hs, Ht, !push_lapp. auto.
Qed.

Lemma LogsRel_same bs bt s t s' t' :
  LogsRel bs bt s t -> logs_of s' = logs_of s -> logs_of t' = logs_of t -> LogsRel bs bt s' t'.
Proof. intros [n [Hs Ht]] Es Et. exists n. rewrite Es, Et. auto. Qed.

Lemma LogsRel_start s t : LogsRel (logs_of s) (logs_of t) s t.
Proof. exists no_logs. split; destruct (logs_of _); reflexivity. Qed.

(* ------------------------------------------------------------------ *)
(** * Renaming and the order of events *)

Lemma er_ren f e : er (ren f e) = er e.
Proof. reflexivity. Qed.

Definition OrdPres (f : Z -> Z) (x y : Z) : Prop := (x < y -> f x < f y) /\ (y < x -> f y < f x).

Lemma OrdPres_sym f x y : OrdPres f x y -> OrdPres f y x.
Proof. intros [A B]; split; auto. Qed.

Lemma ordpres_ltb f x y : OrdPres f x y -> (f x <? f y) = (x <? y).
Proof.
  intros [A B]. destruct (Z.ltb_spec x y) as [H|H].
  - apply Z.ltb_lt. auto.
  - apply Z.ltb_ge. destruct (Z.eq_dec x y) as [->|N]; [lia|]. assert (y < x) by lia. specialize (B H0). lia.
Qed.

Lemma ordpres_eqb f x y : OrdPres f x y -> (f x =? f y) = (x =? y).
Proof.
  intros [A B]. destruct (Z.eqb_spec x y) as [->|N].
  - apply Z.eqb_refl.
  - apply Z.eqb_neq. destruct (Z.lt_trichotomy x y) as [H|[H|H]]; [specialize (A H)|contradiction|specialize (B H)]; lia.
Qed.

Lemma ev_ltb_ren f a b : OrdPres f (ev_id a) (ev_id b) -> ev_ltb (ren f a) (ren f b) = ev_ltb a b.
Proof.
  intros H. unfold ev_ltb, key_ltb, ev_key, ren; cbn.
  rewrite (ordpres_ltb _ _ _ H). reflexivity.
Qed.

Lemma ev_eqb_ren f a b : OrdPres f (ev_id a) (ev_id b) -> ev_eqb (ren f a) (ren f b) = ev_eqb a b.
Proof.
  intros H. unfold ev_eqb, key_eqb, ev_key, ren; cbn.
  rewrite (ordpres_eqb _ _ _ H). reflexivity.
Qed.

Lemma ins_ren f e l :
  (forall x, In x l -> OrdPres f (ev_id e) (ev_id x)) ->
  ins (ren f e) (map (ren f) l) = map (ren f) (ins e l).
Proof.
  induction l as [|x r IH]; intros H; cbn [map ins]; auto.
  rewrite (ev_ltb_ren f e x) by (apply H; left; auto).
  destruct (ev_ltb e x); cbn [map]; auto.
  rewrite IH; auto. intros y Hy. apply H. right; auto.
Qed.

Lemma rem_ren f e l :
  (forall x, In x l -> OrdPres f (ev_id e) (ev_id x)) ->
  rem (ren f e) (map (ren f) l) = map (ren f) (rem e l).
Proof.
  induction l as [|x r IH]; intros H; cbn [map rem]; auto.
  rewrite (ev_eqb_ren f e x) by (apply H; left; auto).
  destruct (ev_eqb e x); cbn [map]; auto.
  rewrite IH; auto. intros y Hy. apply H. right; auto.
Qed.

Lemma ev_mem_ren f e l :
  (forall x, In x l -> OrdPres f (ev_id e) (ev_id x)) ->
  ev_mem (ren f e) (map (ren f) l) = ev_mem e l.
Proof.
  unfold ev_mem. induction l as [|x r IH]; intros H; cbn [map existsb]; auto.
  rewrite (ev_eqb_ren f e x) by (apply H; left; auto).
  rewrite IH; auto. intros y Hy. apply H. right; auto.
Qed.

Lemma map_ren_ext f g l :
  (forall x, In x l -> f (ev_id x) = g (ev_id x)) -> map (ren f) l = map (ren g) l.
Proof.
  intros H. apply map_ext_in. intros x Hx. unfold ren. rewrite (H x Hx). reflexivity.
Qed.

Lemma in_eids x l : In x l -> In (ev_id x) (eids l).
Proof. apply in_map. Qed.

Lemma in_eids_inv a l : In a (eids l) -> exists x, In x l /\ ev_id x = a.
Proof. unfold eids. rewrite in_map_iff. intros [x [E H]]. eauto. Qed.

(* ------------------------------------------------------------------ *)
(** * The relation is preserved by every primitive of the model *)

Section Prims.
Variables X X' : list Z.
Variables bs bt : logs.

Lemma dom_pend s x : In x (pend s) -> In (ev_id x) (domx X s).
Proof. intros H. unfold domx, dom. apply in_or_app. left. apply in_or_app. left. apply in_eids; auto. Qed.

Lemma dom_created s x : In x (created s) -> In (ev_id x) (domx X s).
Proof. intros H. unfold domx, dom. apply in_or_app. left. apply in_or_app. right. apply in_eids; auto. Qed.

Lemma dom_x s a : In a X -> In a (domx X s).
Proof. intros H. unfold domx. apply in_or_app. right. exact H. Qed.

Lemma domx_cases s a : In a (domx X s) -> In a (dom s) \/ In a X.
Proof. unfold domx. apply in_app_or. Qed.

Lemma domx_mono s s' : (forall a, In a (dom s') -> In a (dom s)) -> forall a, In a (domx X s') -> In a (domx X s).
Proof.
  intros H a Ha. unfold domx in *. apply in_app_or in Ha. apply in_or_app. destruct Ha; auto.
Qed.

Lemma CoreSim_ordpres f s t a b :
  CoreSim X X' f s t -> In a (domx X s) -> In b (domx X s) -> OrdPres f a b.
Proof. intros C Ha Hb. split; intros; apply (cs_mono _ _ _ _ _ C); auto. Qed.

(* an operation that changes neither the comparable events, the counter, nor the
   scalar fields in the relation *)
Lemma CoreSim_same f s t s' t' :
  CoreSim X X' f s t ->
  clock s' = clock s -> clock t' = clock t -> rs t' = rs s' -> ps t' = ps s' ->
  strat s' = strat s -> strat t' = strat t -> worker t' = worker s' -> rep t' = rep s' ->
  pend s' = pend s -> pend t' = pend t -> created s' = created s -> created t' = created t ->
  nid s' = nid s -> nid t' = nid t ->
  CoreSim X X' f s' t'.
Proof.
  intros [A1 A2 A3 A4 A5 A6 A7 A8 Ax Lo Hi Mo] Hc Hc' Hr Hp Hs Hs' Hw Hre Pp Pp' Pc Pc' Pn Pn'.
  constructor; unfold domx, dom in *; try congruence.
  - intros a. rewrite Pp, Pc, Pn. auto.
  - intros a. rewrite Pp, Pc, Pn'. auto.
  - intros a b. rewrite Pp, Pc. auto.
Qed.

(* shrinking the set of comparable events *)
Lemma CoreSim_shrink f s t s' t' :
  CoreSim X X' f s t ->
  clock t' = clock s' -> rs t' = rs s' -> ps t' = ps s' -> strat t' = strat s' ->
  worker t' = worker s' -> rep t' = rep s' ->
  pend t' = map (ren f) (pend s') -> created t' = map (ren f) (created s') ->
  (forall a, In a (dom s') -> In a (dom s)) ->
  nid s <= nid s' -> nid t <= nid t' ->
  CoreSim X X' f s' t'.
Proof.
  intros [A1 A2 A3 A4 A5 A6 A7 A8 Ax Lo Hi Mo] Hc Hr Hp Hs Hw Hre Pp Pc Hd0 Hn Hn'.
  pose proof (domx_mono s s' Hd0) as Hd. constructor; auto.
  - intros a Ha. specialize (Lo a (Hd a Ha)). lia.
  - intros a Ha. specialize (Hi a (Hd a Ha)). lia.
Qed.

(* the renaming extended by a fresh pair of ids *)
Definition ext (f : Z -> Z) (a b : Z) : Z -> Z := fun x => if x =? a then b else f x.

Lemma ext_new f a b : ext f a b a = b.
Proof. unfold ext. rewrite Z.eqb_refl. reflexivity. Qed.

Lemma ext_old f a b x : x <> a -> ext f a b x = f x.
Proof. unfold ext. intros H. destruct (Z.eqb_spec x a); [contradiction|reflexivity]. Qed.

Lemma ext_map f s t l :
  CoreSim X X' f s t -> (forall x, In x l -> In (ev_id x) (domx X s)) ->
  map (ren (ext f (nid s) (nid t))) l = map (ren f) l.
Proof.
  intros C H. apply map_ren_ext. intros x Hx. apply ext_old.
  pose proof (cs_lo _ _ _ _ _ C _ (H x Hx)). lia.
Qed.

Lemma ext_ordpres f s t a :
  CoreSim X X' f s t -> In a (domx X s) -> OrdPres (ext f (nid s) (nid t)) (nid s) a.
Proof.
  intros C Ha. pose proof (cs_lo _ _ _ _ _ C _ Ha). pose proof (cs_hi _ _ _ _ _ C _ Ha).
  split; intros; rewrite ext_new, ext_old by lia; lia.
Qed.

Lemma ext_mono f s t a b :
  CoreSim X X' f s t -> (a = nid s \/ In a (domx X s)) -> (b = nid s \/ In b (domx X s)) -> a < b ->
  ext f (nid s) (nid t) a < ext f (nid s) (nid t) b.
Proof.
  intros C Ha Hb L.
  destruct Ha as [->|Ha], Hb as [->|Hb].
  - lia.
  - pose proof (cs_lo _ _ _ _ _ C _ Hb). lia.
  - pose proof (cs_lo _ _ _ _ _ C _ Ha). pose proof (cs_hi _ _ _ _ _ C _ Ha).
    rewrite ext_new, ext_old by lia. lia.
  - pose proof (cs_lo _ _ _ _ _ C _ Ha). pose proof (cs_lo _ _ _ _ _ C _ Hb).
    rewrite !ext_old by lia. apply (cs_mono _ _ _ _ _ C); auto.
Qed.

(* inserting a fresh event (id = the counter) into the pending set, with or
   without recording it among the created ones *)
Lemma CoreSim_insert f s t tm prio h k (rec : bool) :
  CoreSim X X' f s t ->
  let e := mkEv tm prio (nid s) h k in
  let e' := mkEv tm prio (nid t) h k in
  let upd := fun (e : ev) (s : sim) =>
    let s1 := set_nid (nid s + 1) (set_pend (ins e (pend s)) s) in
    if rec then set_created (created s ++ [e]) s1 else s1 in
  CoreSim X X' (ext f (nid s) (nid t)) (upd e s) (upd e' t).
Proof.
  intros C e e' upd. set (g := ext f (nid s) (nid t)).
  assert (Ee : e' = ren g e). { unfold e', e, ren; cbn. unfold g. rewrite ext_new. reflexivity. }
  assert (Ep : ins e' (pend t) = map (ren g) (ins e (pend s))).
  { rewrite Ee, (cs_pend _ _ _ _ _ C), <- (ext_map f s t (pend s) C) by (intros; apply dom_pend; auto).
    fold g. apply ins_ren. intros x Hx. cbn [ev_id e]. apply ext_ordpres; auto. apply dom_pend; auto. }
  assert (Ec : created t = map (ren g) (created s)).
  { rewrite (cs_created _ _ _ _ _ C), <- (ext_map f s t (created s) C) by (intros; apply dom_created; auto).
    reflexivity. }
  assert (D0 : forall a, In a (dom (upd e s)) -> a = nid s \/ In a (dom s)).
  { intros a Ha. unfold upd, dom in *. destruct rec; ssimpl.
    - rewrite in_app_iff in Ha. destruct Ha as [Ha|Ha].
      + apply in_eids_inv in Ha. destruct Ha as [x [Hx <-]]. apply ins_In in Hx.
        destruct Hx as [->|Hx]; [left; reflexivity|right]. apply in_or_app; left; apply in_eids; auto.
      + unfold eids in Ha. rewrite map_app, in_app_iff in Ha. destruct Ha as [Ha|[<-|[]]].
        * right. apply in_or_app; right; auto.
        * left; reflexivity.
    - rewrite in_app_iff in Ha. destruct Ha as [Ha|Ha].
      + apply in_eids_inv in Ha. destruct Ha as [x [Hx <-]]. apply ins_In in Hx.
        destruct Hx as [->|Hx]; [left; reflexivity|right]. apply in_or_app; left; apply in_eids; auto.
      + right. apply in_or_app; right; auto. }
  assert (D : forall a, In a (domx X (upd e s)) -> a = nid s \/ In a (domx X s)).
  { intros a Ha. apply domx_cases in Ha. destruct Ha as [Ha|Ha].
    - destruct (D0 a Ha) as [->|H]; [left; reflexivity|right]. unfold domx. apply in_or_app; left; exact H.
    - right. apply dom_x; exact Ha. }
  assert (Ex : map g X = X').
  { rewrite <- (cs_x _ _ _ _ _ C). apply map_ext_in. intros a Ha. unfold g. apply ext_old.
    pose proof (cs_lo _ _ _ _ _ C _ (dom_x s a Ha)). lia. }
  assert (N1 : nid (upd e s) = nid s + 1) by (unfold upd; destruct rec; reflexivity).
  assert (N2 : nid (upd e' t) = nid t + 1) by (unfold upd; destruct rec; reflexivity).
  constructor.
  - unfold upd; destruct rec; ssimpl; apply (cs_clock _ _ _ _ _ C).
  - unfold upd; destruct rec; ssimpl; apply (cs_rs _ _ _ _ _ C).
  - unfold upd; destruct rec; ssimpl; apply (cs_ps _ _ _ _ _ C).
  - unfold upd; destruct rec; ssimpl; apply (cs_strat _ _ _ _ _ C).
  - unfold upd; destruct rec; ssimpl; apply (cs_worker _ _ _ _ _ C).
  - unfold upd; destruct rec; ssimpl; apply (cs_rep _ _ _ _ _ C).
  - unfold upd; destruct rec; ssimpl; exact Ep.
  - unfold upd; destruct rec; ssimpl; [|exact Ec].
    rewrite map_app, Ec, Ee. reflexivity.
  - exact Ex.
  - intros a Ha. rewrite N1. destruct (D a Ha) as [->|H]; [lia|].
    pose proof (cs_lo _ _ _ _ _ C _ H). lia.
  - intros a Ha. rewrite N2. destruct (D a Ha) as [->|H].
    + unfold g. rewrite ext_new. lia.
    + pose proof (cs_lo _ _ _ _ _ C _ H). pose proof (cs_hi _ _ _ _ _ C _ H).
      unfold g. rewrite ext_old by lia. lia.
  - intros a b Ha Hb L. apply ext_mono; auto.
Qed.

Lemma logs_of_core s s' :
  trace s' = trace s -> cancelled s' = cancelled s -> outs s' = outs s -> ntfs s' = ntfs s ->
  obs s' = obs s -> flag s' = flag s -> logs_of s' = logs_of s.
Proof. unfold logs_of, etrace, ecanc. intros -> -> -> -> -> ->. reflexivity. Qed.

Lemma add_event_idsim s t tm prio h :
  IdSimX X X' bs bt s t -> IdSimX X X' bs bt (add_event tm prio (HUser h) s) (add_event tm prio (HUser h) t).
Proof.
  intros [[f C] L]. split.
  - exists (ext f (nid s) (nid t)).
    pose proof (CoreSim_insert f s t tm prio (HUser h) (length (created s)) true C) as H.
    cbv zeta in H. unfold add_event.
    replace (length (created t)) with (length (created s))
      by (rewrite (cs_created _ _ _ _ _ C), map_length; reflexivity).
    exact H.
  - eapply LogsRel_same; eauto.
Qed.

Lemma sched_time_sim f s t m : CoreSim X X' f s t -> sched_time t m = sched_time s m.
Proof. intros C. apply sched_time_clock. apply (cs_clock _ _ _ _ _ C). Qed.

Ltac core_same C := eapply CoreSim_same; [exact C|..]; ssimpl; auto;
  try apply (cs_rs _ _ _ _ _ C); try apply (cs_ps _ _ _ _ _ C); try apply (cs_worker _ _ _ _ _ C); try apply (cs_rep _ _ _ _ _ C).

Lemma out_idsim s t o : IdSimX X X' bs bt s t -> IdSimX X X' bs bt (out o s) (out o t).
Proof.
  intros [[f C] L]. split.
  - exists f. core_same C.
  - eapply (LogsRel_push _ _ _ _ _ _ (LOu o)); eauto.
Qed.

Lemma emit_idsim s t n : IdSimX X X' bs bt s t -> IdSimX X X' bs bt (emit n s) (emit n t).
Proof.
  intros [[f C] L]. split.
  - exists f. core_same C.
  - eapply (LogsRel_push _ _ _ _ _ _ (LNt n)); eauto.
Qed.

Lemma raise_flag_idsim s t : IdSimX X X' bs bt s t -> IdSimX X X' bs bt (raise_flag s) (raise_flag t).
Proof.
  intros [[f C] L]. split.
  - exists f. core_same C.
  - eapply (LogsRel_push _ _ _ _ _ _ LFl); eauto.
Qed.

Lemma set_obs_idsim s t o :
  IdSimX X X' bs bt s t -> IdSimX X X' bs bt (set_obs (o :: obs s) s) (set_obs (o :: obs t) t).
Proof.
  intros [[f C] L]. split.
  - exists f. core_same C.
  - eapply (LogsRel_push _ _ _ _ _ _ (LOb o)); eauto.
Qed.

Lemma set_rs_idsim s t v : IdSimX X X' bs bt s t -> IdSimX X X' bs bt (set_rs v s) (set_rs v t).
Proof.
  intros [[f C] L]. split.
  - exists f. core_same C.
  - eapply LogsRel_same; eauto.
Qed.

Lemma set_ps_idsim s t v : IdSimX X X' bs bt s t -> IdSimX X X' bs bt (set_ps v s) (set_ps v t).
Proof.
  intros [[f C] L]. split.
  - exists f. core_same C.
  - eapply LogsRel_same; eauto.
Qed.

Lemma set_worker_idsim s t v : IdSimX X X' bs bt s t -> IdSimX X X' bs bt (set_worker v s) (set_worker v t).
Proof.
  intros [[f C] L]. split.
  - exists f. core_same C.
  - eapply LogsRel_same; eauto.
Qed.

Lemma set_clock_idsim s t v : IdSimX X X' bs bt s t -> IdSimX X X' bs bt (set_clock v s) (set_clock v t).
Proof.
  intros [[f C] L]. split.
  - exists f. destruct C. constructor; ssimpl; auto.
  - eapply LogsRel_same; eauto.
Qed.

Lemma set_rep_idsim s t v : IdSimX X X' bs bt s t -> IdSimX X X' bs bt (set_rep v s) (set_rep v t).
Proof.
  intros [[f C] L]. split.
  - exists f. destruct C. constructor; ssimpl; auto.
  - eapply LogsRel_same; eauto.
Qed.

Lemma set_bound_idsim s t v w : IdSimX X X' bs bt s t -> IdSimX X X' bs bt (set_bound v s) (set_bound w t).
Proof.
  intros [[f C] L]. split.
  - exists f. core_same C.
  - eapply LogsRel_same; eauto.
Qed.

Lemma set_incl_idsim s t v w : IdSimX X X' bs bt s t -> IdSimX X X' bs bt (set_incl v s) (set_incl w t).
Proof.
  intros [[f C] L]. split.
  - exists f. core_same C.
  - eapply LogsRel_same; eauto.
Qed.

(* facts shared by related states *)
Lemma idsim_clock s t : IdSimX X X' bs bt s t -> clock t = clock s.
Proof. intros [[f C] _]. apply (cs_clock _ _ _ _ _ C). Qed.
Lemma idsim_rs s t : IdSimX X X' bs bt s t -> rs t = rs s.
Proof. intros [[f C] _]. apply (cs_rs _ _ _ _ _ C). Qed.
Lemma idsim_ps s t : IdSimX X X' bs bt s t -> ps t = ps s.
Proof. intros [[f C] _]. apply (cs_ps _ _ _ _ _ C). Qed.
Lemma idsim_strat s t : IdSimX X X' bs bt s t -> strat t = strat s.
Proof. intros [[f C] _]. apply (cs_strat _ _ _ _ _ C). Qed.
Lemma idsim_worker s t : IdSimX X X' bs bt s t -> worker t = worker s.
Proof. intros [[f C] _]. apply (cs_worker _ _ _ _ _ C). Qed.
Lemma idsim_rep s t : IdSimX X X' bs bt s t -> rep t = rep s.
Proof. intros [[f C] _]. apply (cs_rep _ _ _ _ _ C). Qed.
Lemma idsim_running s t : IdSimX X X' bs bt s t -> running t = running s.
Proof. intros H. unfold running. rewrite (idsim_rs _ _ H). reflexivity. Qed.
Lemma idsim_end_time s t : IdSimX X X' bs bt s t -> end_time t = end_time s.
Proof. intros H. unfold end_time. rewrite (idsim_rep _ _ H). reflexivity. Qed.
Lemma idsim_npend s t : IdSimX X X' bs bt s t -> length (pend t) = length (pend s).
Proof. intros [[f C] _]. rewrite (cs_pend _ _ _ _ _ C), map_length. reflexivity. Qed.

Lemma do_sched_idsim s t m prio h :
  IdSimX X X' bs bt s t -> IdSimX X X' bs bt (do_sched s m prio h) (do_sched t m prio h).
Proof.
  intros H. unfold do_sched.
  destruct H as [[f C] L]. rewrite (sched_time_sim f s t m C).
  destruct (sched_time s m).
  - apply out_idsim, add_event_idsim. split; eauto.
  - apply out_idsim. split; eauto.
Qed.

Lemma do_cancel_idsim s t k :
  IdSimX X X' bs bt s t -> IdSimX X X' bs bt (do_cancel s k) (do_cancel t k).
Proof.
  intros [[f C] L]. unfold do_cancel.
  rewrite (cs_created _ _ _ _ _ C), nth_error_map.
  destruct (nth_error (created s) k) as [e|] eqn:E; cbn [option_map]; [|split; eauto].
  assert (He : In (ev_id e) (domx X s)) by (apply dom_created; eapply nth_error_In; eauto).
  assert (O : forall x, In x (pend s) -> OrdPres f (ev_id e) (ev_id x)).
  { intros x Hx. eapply CoreSim_ordpres; eauto. apply dom_pend; auto. }
  rewrite (cs_pend _ _ _ _ _ C), ev_mem_ren by exact O.
  destruct (ev_mem e (pend s)); [|split; eauto].
  rewrite rem_ren by exact O. split.
  - exists f. eapply CoreSim_shrink; [exact C|..]; ssimpl; try lia;
      try (apply (cs_clock _ _ _ _ _ C) || apply (cs_rs _ _ _ _ _ C) || apply (cs_ps _ _ _ _ _ C)
           || apply (cs_strat _ _ _ _ _ C) || apply (cs_worker _ _ _ _ _ C) || apply (cs_rep _ _ _ _ _ C)); auto.
    + apply (cs_created _ _ _ _ _ C).
    + intros a. unfold dom; ssimpl. rewrite !in_app_iff. intros [Ha|Ha]; [left|right; auto].
      apply in_eids_inv in Ha. destruct Ha as [x [Hx <-]]. apply in_eids. eapply rem_incl; eauto.
  - eapply (LogsRel_push _ _ _ _ _ _ (LCn (er e))); eauto.
Qed.

Lemma inner_cmd_idsim md s t c :
  IdSimX X X' bs bt s t -> IdSimX X X' bs bt (inner_cmd md s c) (inner_cmd md t c).
Proof.
  intros H. unfold inner_cmd. rewrite (idsim_running _ _ H).
  destruct md; try (apply raise_flag_idsim; auto; fail);
  destruct c; destruct (running s);
    auto using raise_flag_idsim, out_idsim, set_rs_idsim, emit_idsim.
Qed.

Lemma exec_action_idsim md s t a :
  IdSimX X X' bs bt s t ->
  IdSimX X X' bs bt (fst (exec_action md s a)) (fst (exec_action md t a))
  /\ snd (exec_action md t a) = snd (exec_action md s a).
Proof.
  intros H. destruct a; cbn [exec_action fst snd]; split; auto
    using do_sched_idsim, do_cancel_idsim, inner_cmd_idsim.
  rewrite (idsim_clock _ _ H). apply set_obs_idsim; auto.
Qed.

Lemma exec_actions_idsim md acts : forall s t,
  IdSimX X X' bs bt s t ->
  IdSimX X X' bs bt (fst (exec_actions md s acts)) (fst (exec_actions md t acts))
  /\ snd (exec_actions md t acts) = snd (exec_actions md s acts).
Proof.
  induction acts as [|a r IH]; intros s t H; cbn [exec_actions]; [split; auto|].
  destruct (exec_action_idsim md s t a H) as [H1 E1].
  destruct (exec_action md s a) as [s1 f1], (exec_action md t a) as [t1 f2]. cbn [fst snd] in *. subst f2.
  destruct f1; cbn [fst snd]; auto.
Qed.

Lemma set_trace_idsim s t e f :
  CoreSim X X' f s t -> LogsRel bs bt s t -> In e (pend s) \/ True ->
  IdSimX X X' bs bt (set_trace ((e, clock s) :: trace s) s) (set_trace ((ren f e, clock t) :: trace t) t).
Proof.
  intros C L _. split.
  - exists f. core_same C.
  - eapply (LogsRel_push _ _ _ _ _ _ (LTr (er e, clock s))); eauto.
    unfold logs_of, etrace; ssimpl. cbn [map fst snd]. rewrite er_ren, (cs_clock _ _ _ _ _ C). reflexivity.
Qed.

Lemma exec_event_idsim md p s t e f :
  CoreSim X X' f s t -> LogsRel bs bt s t ->
  IdSimX X X' bs bt (fst (exec_event md p s e)) (fst (exec_event md p t (ren f e)))
  /\ snd (exec_event md p t (ren f e)) = snd (exec_event md p s e).
Proof.
  intros C L. unfold exec_event. cbn [ev_h ren].
  pose proof (set_trace_idsim s t e f C L (or_intror I)) as H.
  destruct (ev_h e).
  - cbn [fst snd]. split; auto.
    set (s1 := set_trace ((e, clock s) :: trace s) s) in *.
    set (t1 := set_trace ((ren f e, clock t) :: trace t) t) in *.
    rewrite (idsim_clock _ _ H).
    assert (H1 : IdSimX X X' bs bt (emit (NWarmup (clock s1)) s1) (emit (NWarmup (clock s1)) t1))
      by auto using emit_idsim.
    exact (set_obs_idsim _ _ (ObsWarm (clock s1)) H1).
  - apply exec_actions_idsim. exact H.
Qed.

(* removing the first pending event *)
Lemma pop_coresim f s t e r :
  CoreSim X X' f s t -> pend s = e :: r ->
  pend t = ren f e :: map (ren f) r /\ CoreSim X X' f (set_pend r s) (set_pend (map (ren f) r) t).
Proof.
  intros C E. split; [rewrite (cs_pend _ _ _ _ _ C), E; reflexivity|].
  eapply CoreSim_shrink; [exact C|..]; ssimpl; try lia;
    try (apply (cs_clock _ _ _ _ _ C) || apply (cs_rs _ _ _ _ _ C) || apply (cs_ps _ _ _ _ _ C)
         || apply (cs_strat _ _ _ _ _ C) || apply (cs_worker _ _ _ _ _ C) || apply (cs_rep _ _ _ _ _ C)); auto.
  - apply (cs_created _ _ _ _ _ C).
  - intros a. unfold dom; ssimpl. rewrite E. cbn [eids map]. rewrite !in_app_iff. intros [Ha|Ha]; auto.
    left. right. exact Ha.
Qed.

Lemma take_event_idsim p s t e r f :
  CoreSim X X' f s t -> LogsRel bs bt s t -> pend s = e :: r ->
  IdSimX X X' bs bt (take_event p s e r) (take_event p t (ren f e) (map (ren f) r)).
Proof.
  intros C L E. destruct (pop_coresim f s t e r C E) as [_ C0].
  unfold take_event. cbn [ev_time ren].
  set (s0 := set_pend r s). set (t0 := set_pend (map (ren f) r) t).
  assert (L0 : LogsRel bs bt s0 t0) by (eapply LogsRel_same; eauto).
  assert (H0 : IdSimX X X' bs bt s0 t0) by (split; eauto).
  replace (clock t0) with (clock s0) by (symmetry; apply (cs_clock _ _ _ _ _ C0)).
  set (s1 := if ev_time e =? clock s0 then s0 else emit (NTime (ev_time e)) s0).
  set (t1 := if ev_time e =? clock s0 then t0 else emit (NTime (ev_time e)) t0).
  assert (H1 : IdSimX X X' bs bt s1 t1) by (unfold s1, t1; destruct (ev_time e =? clock s0); auto using emit_idsim).
  pose proof (set_clock_idsim _ _ (ev_time e) H1) as H2.
  destruct H2 as [[g C2] L2].
  (* the renaming may be taken to be f again: no id was created *)
  assert (C2' : CoreSim X X' f (set_clock (ev_time e) s1) (set_clock (ev_time e) t1)).
  { unfold s1, t1. destruct (ev_time e =? clock s0).
    - destruct C0. constructor; ssimpl; auto.
    - destruct C0. constructor; ssimpl; auto. }
  destruct (exec_event_idsim InRun p _ _ e f C2' L2) as [H3 E3].
  destruct (exec_event InRun p (set_clock (ev_time e) s1) e) as [s3 fl].
  destruct (exec_event InRun p (set_clock (ev_time e) t1) (ren f e)) as [t3 fl'].
  cbn [fst snd] in *. subst fl'.
  rewrite (idsim_strat _ _ H3).
  destruct fl, (strat s3); auto using set_rs_idsim.
Qed.

Lemma step_event_idsim p s t e r f :
  CoreSim X X' f s t -> LogsRel bs bt s t -> pend s = e :: r ->
  IdSimX X X' bs bt (step_event p s e r) (step_event p t (ren f e) (map (ren f) r)).
Proof.
  intros C L E. destruct (pop_coresim f s t e r C E) as [_ C0].
  unfold step_event. cbn [ev_time ren].
  set (s0 := set_pend r s). set (t0 := set_pend (map (ren f) r) t).
  assert (L0 : LogsRel bs bt s0 t0) by (eapply LogsRel_same; eauto).
  assert (C1 : CoreSim X X' f (set_clock (ev_time e) (emit (NTime (ev_time e)) s0))
                         (set_clock (ev_time e) (emit (NTime (ev_time e)) t0))).
  { destruct C0. constructor; ssimpl; auto. }
  assert (L1 : LogsRel bs bt (set_clock (ev_time e) (emit (NTime (ev_time e)) s0))
                             (set_clock (ev_time e) (emit (NTime (ev_time e)) t0))).
  { eapply (LogsRel_push _ _ _ _ _ _ (LNt (NTime (ev_time e)))); eauto. }
  apply (exec_event_idsim InStep p _ _ e f C1 L1).
Qed.

Lemma stop_at_bound_idsim s t :
  IdSimX X X' bs bt s t -> SameBound s t -> IdSimX X X' bs bt (stop_at_bound s) (stop_at_bound t).
Proof.
  intros H [B I]. unfold stop_at_bound. rewrite B.
  assert (E : end_time (set_clock (bound s) t) = end_time (set_clock (bound s) s)).
  { unfold end_time; ssimpl. rewrite (idsim_rep _ _ H). reflexivity. }
  unfold end_time in *. ssimpl. rewrite (idsim_rep _ _ H).
  apply set_rs_idsim.
  destruct (bound s >=? match rep s with Some r => r_end r | None => 0 end);
    auto using set_ps_idsim, set_clock_idsim.
Qed.

Lemma stop_at_bound_bi s : bound (stop_at_bound s) = bound s /\ incl (stop_at_bound s) = incl s.
Proof. unfold stop_at_bound. destruct (bound s >=? end_time s); split; reflexivity. Qed.

Lemma stop_at_bound_samebound s t : SameBound s t -> SameBound (stop_at_bound s) (stop_at_bound t).
Proof.
  intros [B I]. destruct (stop_at_bound_bi s) as [A1 A2], (stop_at_bound_bi t) as [B1 B2].
  unfold SameBound; split; congruence.
Qed.

Lemma take_event_bound p s e r : pend s = e :: r -> bound (take_event p s e r) = bound s /\ incl (take_event p s e r) = incl s.
Proof.
  intros E. destruct (took_bound _ _ _ _ (take_event_took p s e r E)) as (A & B & _). auto.
Qed.

Lemma run_loop_idsim p fuel : forall s t,
  IdSimX X X' bs bt s t -> SameBound s t ->
  IdSimX X X' bs bt (run_loop fuel p s) (run_loop fuel p t)
  /\ SameBound (run_loop fuel p s) (run_loop fuel p t).
Proof.
  induction fuel as [|n IH]; intros s t H SB; cbn [run_loop]; rewrite (idsim_running _ _ H).
  - destruct (running s); split; auto using raise_flag_idsim.
  - destruct (running s); [|split; auto].
    destruct H as [[f C] L].
    destruct (pend s) as [|e r] eqn:E.
    + rewrite (cs_pend _ _ _ _ _ C), E. cbn [map]. split; [apply stop_at_bound_idsim; auto; split; eauto|].
      apply stop_at_bound_samebound; auto.
    + destruct (pop_coresim f s t e r C E) as [Et _]. rewrite Et.
      assert (Bq : beyond t (ren f e) = beyond s e).
      { unfold beyond. destruct SB as [-> ->]. reflexivity. }
      rewrite Bq. destruct (beyond s e).
      * split; [apply stop_at_bound_idsim; auto; split; eauto|].
        apply stop_at_bound_samebound; auto.
      * apply IH.
        -- apply take_event_idsim; auto.
        -- destruct (take_event_bound p s e r E) as [A1 A2].
           assert (Et' : pend t = ren f e :: map (ren f) r) by exact Et.
           destruct (take_event_bound p t _ _ Et') as [B1 B2].
           destruct SB. unfold SameBound; split; congruence.
Qed.

Lemma worker_ending_idsim s t : IdSimX X X' bs bt s t -> IdSimX X X' bs bt (worker_ending s) (worker_ending t).
Proof.
  intros H. unfold worker_ending. rewrite (idsim_ps _ _ H). destruct (ps s); auto.
  rewrite (idsim_clock _ _ H).
  apply set_worker_idsim.
  assert (H1 : IdSimX X X' bs bt (emit (NEndRepl (clock s)) (set_rs REnded (set_ps PEnded s)))
                           (emit (NEndRepl (clock s)) (set_rs REnded (set_ps PEnded t))))
    by auto using emit_idsim, set_rs_idsim, set_ps_idsim.
  apply (set_obs_idsim _ _ (ObsEnd (clock s)) H1).
Qed.

Lemma worker_run_idsim fuel p s t :
  IdSimX X X' bs bt s t -> SameBound s t -> IdSimX X X' bs bt (worker_run fuel p s) (worker_run fuel p t).
Proof.
  intros H SB. unfold worker_run. rewrite (idsim_worker _ _ H). destruct (worker s); auto.
  apply worker_ending_idsim. rewrite (idsim_ps _ _ H). destruct (ps s); auto;
  match goal with |- IdSimX _ _ _ _ (set_rs RStopped (emit (NStop (clock ?b)) ?b)) _ =>
    idtac end;
  rewrite (idsim_clock _ _ H);
  (assert (Ha : IdSimX X X' bs bt (set_rs RStarted (emit (NStart (clock s)) s)) (set_rs RStarted (emit (NStart (clock s)) t)))
     by auto using set_rs_idsim, emit_idsim);
  (assert (Sa : SameBound (set_rs RStarted (emit (NStart (clock s)) s)) (set_rs RStarted (emit (NStart (clock s)) t)))
     by exact SB);
  destruct (run_loop_idsim p fuel _ _ Ha Sa) as [Hb _];
  rewrite (idsim_clock _ _ Hb); auto using set_rs_idsim, emit_idsim.
Qed.

Lemma start_checks_idsim s t : IdSimX X X' bs bt s t -> start_checks t = start_checks s.
Proof.
  intros H. unfold start_checks.
  rewrite (idsim_running _ _ H), (idsim_rep _ _ H), (idsim_rs _ _ H), (idsim_ps _ _ H),
          (idsim_clock _ _ H), (idsim_end_time _ _ H). reflexivity.
Qed.

Lemma step_checks_idsim s t : IdSimX X X' bs bt s t -> step_checks t = step_checks s.
Proof.
  intros H. unfold step_checks.
  rewrite (idsim_running _ _ H), (idsim_rs _ _ H), (idsim_ps _ _ H),
          (idsim_clock _ _ H), (idsim_end_time _ _ H). reflexivity.
Qed.

Lemma do_start_idsim fuel p s t b i :
  IdSimX X X' bs bt s t ->
  IdSimX X X' bs bt (fst (do_start fuel p s b i)) (fst (do_start fuel p t b i))
  /\ snd (do_start fuel p t b i) = snd (do_start fuel p s b i).
Proof.
  intros H. unfold do_start. rewrite (start_checks_idsim _ _ H).
  destruct (start_checks s); [|split; auto].
  destruct b as [bz|]; [|split; auto].
  rewrite (idsim_clock _ _ H). destruct (bz <? clock s); [split; auto|].
  rewrite (idsim_end_time _ _ H).
  destruct (if bz >? end_time s then (end_time s, true) else (bz, i)) as [bz' i'].
  cbn [fst snd]. split; auto.
  set (s1 := set_rs RStarting (set_incl i' (set_bound bz' s))).
  set (t1 := set_rs RStarting (set_incl i' (set_bound bz' t))).
  assert (H1 : IdSimX X X' bs bt s1 t1) by (unfold s1, t1; auto using set_rs_idsim, set_incl_idsim, set_bound_idsim).
  assert (S1 : SameBound s1 t1) by (split; reflexivity).
  rewrite (idsim_ps _ _ H1), (idsim_clock _ _ H1).
  apply worker_run_idsim.
  - apply emit_idsim. destruct (ps s1); auto using set_ps_idsim, emit_idsim.
  - destruct (ps s1); exact S1.
Qed.

Lemma do_step_idsim p s t :
  IdSimX X X' bs bt s t ->
  IdSimX X X' bs bt (fst (do_step p s)) (fst (do_step p t)) /\ snd (do_step p t) = snd (do_step p s).
Proof.
  intros H. unfold do_step. rewrite (step_checks_idsim _ _ H).
  destruct (step_checks s); [|split; auto]. cbn [fst snd]. split; auto.
  rewrite (idsim_ps _ _ H), (idsim_clock _ _ H).
  set (s1 := match ps s with PInit => set_ps PStarted (emit (NStartRepl (clock s)) s) | _ => s end).
  set (t1 := match ps s with PInit => set_ps PStarted (emit (NStartRepl (clock s)) t) | _ => t end).
  assert (H1 : IdSimX X X' bs bt s1 t1) by (unfold s1, t1; destruct (ps s); auto using set_ps_idsim, emit_idsim).
  rewrite (idsim_clock _ _ H1).
  set (s2 := emit (NStart (clock s1)) (set_rs RStarted s1)).
  set (t2 := emit (NStart (clock s1)) (set_rs RStarted t1)).
  assert (H2 : IdSimX X X' bs bt s2 t2) by (unfold s2, t2; auto using set_rs_idsim, emit_idsim).
  assert (H3 : IdSimX X X' bs bt
      (match pend s2 with [] => s2 | e :: r => if ev_time e >? end_time s2 then s2 else step_event p s2 e r end)
      (match pend t2 with [] => t2 | e :: r => if ev_time e >? end_time t2 then t2 else step_event p t2 e r end)).
  { destruct H2 as [[f C] L]. destruct (pend s2) as [|e r] eqn:E.
    - rewrite (cs_pend _ _ _ _ _ C), E. cbn [map]. split; eauto.
    - destruct (pop_coresim f s2 t2 e r C E) as [Et _]. rewrite Et.
      assert (EE : end_time t2 = end_time s2) by (unfold end_time; rewrite (cs_rep _ _ _ _ _ C); reflexivity).
      rewrite EE. cbn [ev_time ren]. destruct (ev_time e >? end_time s2); [split; eauto|].
      apply step_event_idsim; auto. }
  rewrite (idsim_clock _ _ H3). auto using set_rs_idsim, emit_idsim.
Qed.

Lemma do_cleanup_idsim s t : IdSimX X X' bs bt s t -> IdSimX X X' bs bt (do_cleanup s) (do_cleanup t).
Proof. intros H. unfold do_cleanup. auto using set_ps_idsim, set_rs_idsim, set_worker_idsim. Qed.

Lemma clear_idsim s t :
  IdSimX X X' bs bt s t -> IdSimX X X' bs bt (set_pend [] s) (set_pend [] t).
Proof.
  intros [[f C] L]. split; [|eapply LogsRel_same; eauto].
  exists f. eapply CoreSim_shrink; [exact C|..]; ssimpl; try lia;
    try (apply (cs_clock _ _ _ _ _ C) || apply (cs_rs _ _ _ _ _ C) || apply (cs_ps _ _ _ _ _ C)
         || apply (cs_strat _ _ _ _ _ C) || apply (cs_worker _ _ _ _ _ C) || apply (cs_rep _ _ _ _ _ C)); auto.
  - apply (cs_created _ _ _ _ _ C).
  - intros a. unfold dom; ssimpl. cbn [eids map app]. intros Ha. apply in_or_app; right; exact Ha.
Qed.

Lemma forget_created_idsim s t :
  IdSimX X X' bs bt s t -> IdSimX X X' bs bt (set_created [] s) (set_created [] t).
Proof.
  intros [[f C] L]. split; [|eapply LogsRel_same; eauto].
  exists f. eapply CoreSim_shrink; [exact C|..]; ssimpl; try lia;
    try (apply (cs_clock _ _ _ _ _ C) || apply (cs_rs _ _ _ _ _ C) || apply (cs_ps _ _ _ _ _ C)
         || apply (cs_strat _ _ _ _ _ C) || apply (cs_worker _ _ _ _ _ C) || apply (cs_rep _ _ _ _ _ C)); auto.
  - apply (cs_pend _ _ _ _ _ C).
  - intros a. unfold dom; ssimpl. cbn [eids map]. rewrite app_nil_r. intros Ha. apply in_or_app; left; exact Ha.
Qed.

(* scheduling the warm-up event *)
Lemma warm_insert_idsim s t tm :
  IdSimX X X' bs bt s t ->
  IdSimX X X' bs bt (set_nid (nid s + 1) (set_pend (ins (mkEv tm 10 (nid s) HWarm 0) (pend s)) s))
              (set_nid (nid t + 1) (set_pend (ins (mkEv tm 10 (nid t) HWarm 0) (pend t)) t)).
Proof.
  intros [[f C] L]. split; [|eapply LogsRel_same; eauto].
  exists (ext f (nid s) (nid t)).
  exact (CoreSim_insert f s t tm 10 HWarm 0%nat false C).
Qed.

(* the part of initialize after the decision to accept it *)
(* construct_model and what follows, from the state [s2] in which construct_model
   starts.  A failing construct body aborts initialize (ResRaised). *)
Definition init_tail (p : program) (r : repl) (s2 : sim) : sim * cres :=
  let '(s3, failed) := exec_actions InConstruct s2 (body p 0) in
  if failed then (set_ps PNotInit (set_rs RNotInit s3), ResRaised)
  else
    let s5 := set_ps PInit (set_rs RInit s3) in
    (if r_warm r <? clock s5 then raise_flag s5
     else let e := mkEv (r_warm r) 10 (nid s5) HWarm 0 in
          set_nid (nid s5 + 1) (set_pend (ins e (pend s5)) s5), ResOk).

Definition init_pre (s : sim) (r : repl) : sim :=
  let s0 := set_pend [] s in
  let s1 := match worker s0 with WNone => s0 | _ => do_cleanup s0 end in
  set_created [] (set_clock (r_start r) (set_rep (Some r) (set_worker WAlive s1))).

Definition init_body (p : program) (s : sim) (r : repl) : sim := fst (init_tail p r (init_pre s r)).
Definition init_res (p : program) (s : sim) (r : repl) : cres := snd (init_tail p r (init_pre s r)).

Lemma do_init_eq p s r :
  do_init p s r = if running s then (s, ResRefused) else (init_body p s r, init_res p s r).
Proof.
  unfold do_init, init_body, init_res, init_tail, init_pre. destruct (running s); auto.
  destruct (exec_actions InConstruct _ (body p 0)) as [s3 failed]. destruct failed; reflexivity.
Qed.

Lemma init_res_cases p s r : init_res p s r = ResOk \/ init_res p s r = ResRaised.
Proof.
  unfold init_res, init_tail. destruct (exec_actions InConstruct _ (body p 0)) as [s3 failed].
  destruct failed; auto.
Qed.

Lemma init_tail_idsim p r s2 t2 :
  IdSimX X X' bs bt s2 t2 ->
  IdSimX X X' bs bt (fst (init_tail p r s2)) (fst (init_tail p r t2))
  /\ snd (init_tail p r t2) = snd (init_tail p r s2).
Proof.
  intros H2. unfold init_tail.
  destruct (exec_actions_idsim InConstruct (body p 0) _ _ H2) as [H3 E3].
  destruct (exec_actions InConstruct s2 (body p 0)) as [s3 fl].
  destruct (exec_actions InConstruct t2 (body p 0)) as [t3 fl']. cbn [fst snd] in *. subst fl'.
  destruct fl; cbn [fst snd]; [split; auto using set_ps_idsim, set_rs_idsim|]. split; auto.
  assert (H5 : IdSimX X X' bs bt (set_ps PInit (set_rs RInit s3)) (set_ps PInit (set_rs RInit t3)))
    by auto using set_ps_idsim, set_rs_idsim.
  rewrite (idsim_clock _ _ H5).
  destruct (r_warm r <? clock (set_ps PInit (set_rs RInit s3))); auto using raise_flag_idsim.
  apply warm_insert_idsim; auto.
Qed.

Lemma init_pre_idsim_rel r s t :
  IdSimX X X' bs bt s t -> IdSimX X X' bs bt (init_pre s r) (init_pre t r).
Proof.
  intros H. unfold init_pre.
  apply forget_created_idsim, set_clock_idsim, set_rep_idsim, set_worker_idsim.
  pose proof (clear_idsim _ _ H) as H0.
  rewrite (idsim_worker _ _ H0). destruct (worker (set_pend [] s)); auto using do_cleanup_idsim.
Qed.

Lemma init_body_idsim p r s t :
  IdSimX X X' bs bt s t ->
  IdSimX X X' bs bt (init_body p s r) (init_body p t r) /\ init_res p t r = init_res p s r.
Proof.
  intros H. unfold init_body, init_res. apply init_tail_idsim. apply init_pre_idsim_rel. exact H.
Qed.

Lemma do_init_idsim p r s t :
  IdSimX X X' bs bt s t ->
  IdSimX X X' bs bt (fst (do_init p s r)) (fst (do_init p t r)) /\ snd (do_init p t r) = snd (do_init p s r).
Proof.
  intros H. rewrite !do_init_eq, (idsim_running _ _ H).
  destruct (running s); cbn [fst snd]; [split; auto|]. apply init_body_idsim; auto.
Qed.

Lemma do_end_repl_idsim fuel p s t :
  IdSimX X X' bs bt s t ->
  IdSimX X X' bs bt (fst (do_end_repl fuel p s)) (fst (do_end_repl fuel p t))
  /\ snd (do_end_repl fuel p t) = snd (do_end_repl fuel p s).
Proof.
  intros H. unfold do_end_repl. rewrite (idsim_ps _ _ H).
  destruct (ps s); cbn [fst snd]; split; auto.
  rewrite (idsim_clock _ _ H), (idsim_end_time _ _ H).
  set (s1 := if clock s <? end_time s then set_clock (end_time s) s else s).
  set (t1 := if clock s <? end_time s then set_clock (end_time s) t else t).
  assert (H1 : IdSimX X X' bs bt s1 t1) by (unfold s1, t1; destruct (clock s <? end_time s); auto using set_clock_idsim).
  set (s2 := set_pend [] (set_ps PEnding s1)). set (t2 := set_pend [] (set_ps PEnding t1)).
  assert (H2 : IdSimX X X' bs bt s2 t2) by (unfold s2, t2; auto using clear_idsim, set_ps_idsim).
  (* the replication is ending: the worker does not enter the run loop, the bound is not read *)
  unfold worker_run. rewrite (idsim_worker _ _ H2). destruct (worker s2); auto.
  unfold s2, t2; ssimpl. apply worker_ending_idsim. exact H2.
Qed.

Theorem do_cmd_idsim fuel p c s t :
  IdSimX X X' bs bt s t ->
  IdSimX X X' bs bt (fst (do_cmd fuel p s c)) (fst (do_cmd fuel p t c))
  /\ snd (do_cmd fuel p t c) = snd (do_cmd fuel p s c).
Proof.
  intros H. destruct c; cbn [do_cmd].
  - apply do_init_idsim; auto.
  - split; auto.
  - rewrite (idsim_rep _ _ H). destruct (rep s); [apply do_start_idsim; auto|split; auto].
  - apply do_step_idsim; auto.
  - rewrite (idsim_running _ _ H). destruct (running s); cbn [fst snd]; split; auto using set_rs_idsim, emit_idsim.
  - apply do_start_idsim; auto.
  - apply do_start_idsim; auto.
  - apply do_end_repl_idsim; auto.
  - cbn [fst snd]. split; auto using do_cleanup_idsim.
Qed.

Lemma snap_idsim s t res : IdSimX X X' bs bt s t ->
  mkSnap res (rs t) (ps t) (clock t) (length (pend t)) = mkSnap res (rs s) (ps s) (clock s) (length (pend s)).
Proof.
  intros H. rewrite (idsim_rs _ _ H), (idsim_ps _ _ H), (idsim_clock _ _ H), (idsim_npend _ _ H). reflexivity.
Qed.

Theorem run_cmds_idsim fuel p cs : forall s t,
  IdSimX X X' bs bt s t ->
  IdSimX X X' bs bt (fst (run_cmds fuel p s cs)) (fst (run_cmds fuel p t cs))
  /\ snd (run_cmds fuel p t cs) = snd (run_cmds fuel p s cs).
Proof.
  induction cs as [|c r IH]; intros s t H; cbn [run_cmds]; [split; auto|].
  destruct (do_cmd_idsim fuel p c s t H) as [H1 E1].
  destruct (do_cmd fuel p s c) as [s1 r1], (do_cmd fuel p t c) as [t1 r2]. cbn [fst snd] in *. subst r2.
  destruct (IH s1 t1 H1) as [H2 E2].
  destruct (run_cmds fuel p s1 r) as [s2 sn], (run_cmds fuel p t1 r) as [t2 sn']. cbn [fst snd] in *.
  split; auto. rewrite E2, (snap_idsim _ _ r1 H1). reflexivity.
Qed.

(* a SimEvent object built earlier (its id is one of the extra comparable ids X,
   the j-th) is handed to schedule_event(event): it joins the pending and the
   referenced events with the id it has *)
Lemma CoreSim_sub f s t s' t' :
  CoreSim X X' f s t ->
  clock t' = clock s' -> rs t' = rs s' -> ps t' = ps s' -> strat t' = strat s' ->
  worker t' = worker s' -> rep t' = rep s' ->
  pend t' = map (ren f) (pend s') -> created t' = map (ren f) (created s') ->
  (forall a, In a (domx X s') -> In a (domx X s)) ->
  nid s <= nid s' -> nid t <= nid t' ->
  CoreSim X X' f s' t'.
Proof.
  intros [A1 A2 A3 A4 A5 A6 A7 A8 Ax Lo Hi Mo] Hc Hr Hp Hs Hw Hre Pp Pc Hd Hn Hn'. constructor; auto.
  - intros a Ha. specialize (Lo a (Hd a Ha)). lia.
  - intros a Ha. specialize (Hi a (Hd a Ha)). lia.
Qed.

Definition put_old (e : ev) (s : sim) : sim :=
  set_created (created s ++ [e]) (set_pend (ins e (pend s)) s).

Lemma put_old_idsim s t tm prio h j p p' :
  nth_error X j = Some p -> nth_error X' j = Some p' ->
  IdSimX X X' bs bt s t ->
  IdSimX X X' bs bt (put_old (mkEv tm prio p (HUser h) (length (created s))) s)
                    (put_old (mkEv tm prio p' (HUser h) (length (created t))) t).
Proof.
  intros Hp Hp' [[f C] L]. split; [|eapply LogsRel_same; eauto].
  exists f.
  assert (Ef : p' = f p).
  { pose proof (cs_x _ _ _ _ _ C) as Q. rewrite <- Q, nth_error_map, Hp in Hp'. cbn in Hp'. congruence. }
  assert (Ip : In p (domx X s)) by (apply dom_x; eapply nth_error_In; eauto).
  replace (length (created t)) with (length (created s))
    by (rewrite (cs_created _ _ _ _ _ C), map_length; reflexivity).
  set (e := mkEv tm prio p (HUser h) (length (created s))).
  assert (Ee : mkEv tm prio p' (HUser h) (length (created s)) = ren f e) by (rewrite Ef; reflexivity).
  rewrite Ee. unfold put_old.
  eapply CoreSim_sub; [exact C|..]; ssimpl; try lia;
    try (apply (cs_clock _ _ _ _ _ C) || apply (cs_rs _ _ _ _ _ C) || apply (cs_ps _ _ _ _ _ C)
         || apply (cs_strat _ _ _ _ _ C) || apply (cs_worker _ _ _ _ _ C) || apply (cs_rep _ _ _ _ _ C)).
  - rewrite (cs_pend _ _ _ _ _ C). apply ins_ren. intros x Hx. cbn [ev_id e].
    eapply CoreSim_ordpres; eauto. apply dom_pend; auto.
  - rewrite map_app, (cs_created _ _ _ _ _ C). reflexivity.
  - intros a Ha. apply domx_cases in Ha. destruct Ha as [Ha|Ha]; [|apply dom_x; exact Ha].
    unfold dom in Ha; ssimpl. rewrite in_app_iff in Ha. destruct Ha as [Ha|Ha].
    + apply in_eids_inv in Ha. destruct Ha as [x [Hx <-]]. apply ins_In in Hx.
      destruct Hx as [->|Hx]; [exact Ip|apply dom_pend; auto].
    + unfold eids in Ha. rewrite map_app, in_app_iff in Ha. destruct Ha as [Ha|[<-|[]]]; [|exact Ip].
      apply in_eids_inv in Ha. destruct Ha as [x [Hx <-]]. apply dom_created; auto.
Qed.

(* ids consumed elsewhere do not matter *)
Lemma burn_idsim n m s t : IdSimX X X' bs bt s t -> IdSimX X X' bs bt (burn n s) (burn m t).
Proof.
  intros [[f C] L]. split; [|eapply LogsRel_same; eauto].
  exists f. unfold burn. eapply CoreSim_shrink; [exact C|..]; ssimpl; try lia;
    try (apply (cs_clock _ _ _ _ _ C) || apply (cs_rs _ _ _ _ _ C) || apply (cs_ps _ _ _ _ _ C)
         || apply (cs_strat _ _ _ _ _ C) || apply (cs_worker _ _ _ _ _ C) || apply (cs_rep _ _ _ _ _ C)); auto.
  - apply (cs_pend _ _ _ _ _ C).
  - apply (cs_created _ _ _ _ _ C).
Qed.

Theorem run_cmds_burn_idsim fuel p cs : forall s t,
  IdSimX X X' bs bt s t ->
  IdSimX X X' bs bt (fst (run_cmds_burn fuel p s cs)) (fst (run_cmds fuel p t (map snd cs)))
  /\ snd (run_cmds fuel p t (map snd cs)) = snd (run_cmds_burn fuel p s cs).
Proof.
  induction cs as [|[n c] r IH]; intros s t H; cbn [run_cmds_burn run_cmds map snd]; [split; auto|].
  assert (Hb : IdSimX X X' bs bt (burn n s) t).
  { pose proof (burn_idsim n 0 s t H) as Q. unfold burn at 2 in Q. cbn [Z.max] in Q.
    rewrite Z.add_0_r in Q. replace (set_nid (nid t) t) with t in Q; auto. destruct t; reflexivity. }
  destruct (do_cmd_idsim fuel p c _ _ Hb) as [H1 E1].
  destruct (do_cmd fuel p (burn n s) c) as [s1 r1], (do_cmd fuel p t c) as [t1 r2]. cbn [fst snd] in *. subst r2.
  destruct (IH s1 t1 H1) as [H2 E2].
  destruct (run_cmds_burn fuel p s1 r) as [s2 sn], (run_cmds fuel p t1 (map snd r)) as [t2 sn']. cbn [fst snd] in *.
  split; auto. rewrite E2, (snap_idsim _ _ r1 H1). reflexivity.
Qed.

End Prims.

(* ------------------------------------------------------------------ *)
(** * Histories with several model programs; the invariant *)

Theorem hreach_inv s : hreach s -> Inv s.
Proof. induction 1; auto using Inv_init, do_cmd_inv. Qed.

Lemma run_hist_hreach fuel h : forall s, hreach s -> hreach (run_hist fuel s h).
Proof.
  induction h as [|[p c] r IH]; intros s H; cbn [run_hist]; auto.
  apply IH. constructor. exact H.
Qed.

Lemma reachable_hreach p s : reachable p s -> hreach s.
Proof. induction 1; constructor; auto. Qed.

Lemma Inv_dom_lt s : Inv s -> forall a, In a (dom s) -> a < nid s.
Proof.
  intros [_ _ H3 H4 _ _] a Ha. unfold dom in Ha. apply in_app_or in Ha. destruct Ha as [Ha|Ha].
  - rewrite Forall_forall in H3. apply H3. unfold ids, live. rewrite map_app. apply in_or_app. left. exact Ha.
  - rewrite Forall_forall in H4. apply H4. exact Ha.
Qed.

(* ------------------------------------------------------------------ *)
(** * run_id_monotone_invariant *)

Lemma logs_of_ren_sim f n' s : logs_of (ren_sim f n' s) = logs_of s.
Proof.
  unfold logs_of, etrace, ecanc, ren_sim, ren_trace; cbn.
  rewrite !map_map. cbn. f_equal.
Qed.

Definition MonoOnX (X : list Z) (f : Z -> Z) (n' : Z) (s : sim) : Prop :=
  (forall a, In a (domx X s) -> f a < n')
  /\ (forall a b, In a (domx X s) -> In b (domx X s) -> a < b -> f a < f b).

Definition MonoOn (f : Z -> Z) (n' : Z) (s : sim) : Prop :=
  (forall a, In a (dom s) -> f a < n') /\ (forall a b, In a (dom s) -> In b (dom s) -> a < b -> f a < f b).

Lemma domx_nil s : domx [] s = dom s.
Proof. unfold domx. apply app_nil_r. Qed.

Lemma ren_sim_idsimx X f n' s :
  (forall a, In a (domx X s) -> a < nid s) -> MonoOnX X f n' s ->
  IdSimX X (map f X) (logs_of s) (logs_of s) s (ren_sim f n' s).
Proof.
  intros Lo [Hi Mo]. split.
  - exists f. constructor; auto.
  - exists no_logs. rewrite logs_of_ren_sim. split; destruct (logs_of s); reflexivity.
Qed.

Lemma ren_sim_idsim f n' s :
  (forall a, In a (dom s) -> a < nid s) -> MonoOn f n' s ->
  IdSim (logs_of s) (logs_of s) s (ren_sim f n' s).
Proof.
  intros Lo [Hi Mo]. apply (ren_sim_idsimx [] f n' s).
  - rewrite domx_nil. exact Lo.
  - split; rewrite domx_nil; auto.
Qed.

Lemma idsim_logs_eq X X' b s t : IdSimX X X' b b s t -> logs_of t = logs_of s.
Proof. intros [_ [n [A B]]]. congruence. Qed.

(* Strictly monotone renamings of the event ids (and any id counter above
   them) commute with every command sequence: same command outcomes, same
   snapshots, same observations. *)
Theorem run_id_monotone_invariant f n' s fuel p cs :
  (forall a, In a (dom s) -> a < nid s) -> MonoOn f n' s ->
  let ra := run_cmds fuel p s cs in
  let rb := run_cmds fuel p (ren_sim f n' s) cs in
  snd rb = snd ra /\ logs_of (fst rb) = logs_of (fst ra).
Proof.
  intros Lo M ra rb.
  destruct (run_cmds_idsim _ _ _ _ fuel p cs _ _ (ren_sim_idsim f n' s Lo M)) as [H E].
  split; auto. eapply idsim_logs_eq; eauto.
Qed.

(* the same when unrelated activity consumes ids before every command of one of the runs *)
Theorem run_id_gaps_invariant f n' s fuel p cs :
  (forall a, In a (dom s) -> a < nid s) -> MonoOn f n' s ->
  let ra := run_cmds_burn fuel p s cs in
  let rb := run_cmds fuel p (ren_sim f n' s) (map snd cs) in
  snd rb = snd ra /\ logs_of (fst rb) = logs_of (fst ra).
Proof.
  intros Lo M ra rb.
  destruct (run_cmds_burn_idsim _ _ _ _ fuel p cs _ _ (ren_sim_idsim f n' s Lo M)) as [H E].
  split; auto. eapply idsim_logs_eq; eauto.
Qed.

(* ------------------------------------------------------------------ *)
(** * initialize: what it resets *)

Lemma set_rsps_collapse a b c d s :
  set_ps a (set_rs b (set_ps c (set_rs d s))) = set_ps a (set_rs b s).
Proof. destruct s; reflexivity. Qed.

(* handler code run from construct_model does not look at the run / replication state *)
Lemma exec_action_construct_rsps a b s act :
  exec_action InConstruct (set_ps a (set_rs b s)) act
  = (set_ps a (set_rs b (fst (exec_action InConstruct s act))), snd (exec_action InConstruct s act)).
Proof.
  destruct act; cbn [exec_action inner_cmd fst snd]; try reflexivity.
  - unfold do_sched. replace (sched_time (set_ps a (set_rs b s)) m) with (sched_time s m)
      by (destruct m as [|[d|]|[t|]]; reflexivity).
    destruct (sched_time s m); reflexivity.
  - unfold do_cancel. ssimpl. destruct (nth_error (created s) k); [|reflexivity].
    destruct (ev_mem e (pend s)); reflexivity.
Qed.

Lemma exec_actions_construct_rsps a b acts : forall s,
  exec_actions InConstruct (set_ps a (set_rs b s)) acts
  = (set_ps a (set_rs b (fst (exec_actions InConstruct s acts))), snd (exec_actions InConstruct s acts)).
Proof.
  induction acts as [|x r IH]; intros s; cbn [exec_actions]; [reflexivity|].
  rewrite exec_action_construct_rsps.
  destruct (exec_action InConstruct s x) as [s1 f1]. cbn [fst snd].
  destruct f1; [reflexivity|]. apply IH.
Qed.

(* what initialize builds does not depend on the run / replication state it starts from *)
Lemma init_tail_rsps p r a b s2 : init_tail p r (set_ps a (set_rs b s2)) = init_tail p r s2.
Proof.
  unfold init_tail. rewrite exec_actions_construct_rsps.
  destruct (exec_actions InConstruct s2 (body p 0)) as [s3 fl]. cbn [fst snd].
  destruct fl; rewrite set_rsps_collapse; reflexivity.
Qed.

Lemma init_pre_rsps a b s r :
  init_pre (set_ps a (set_rs b s)) r
  = match worker s with WNone => set_ps a (set_rs b (init_pre s r)) | _ => init_pre s r end.
Proof. unfold init_pre. ssimpl. destruct s as [ck pd ni r0 p0 bd ic sg wk rp cr cn tr ou nt ob fl]. destruct wk; reflexivity. Qed.

Lemma init_both_rsps p r a b s : init_tail p r (init_pre (set_ps a (set_rs b s)) r) = init_tail p r (init_pre s r).
Proof. rewrite init_pre_rsps. destruct (worker s); auto using init_tail_rsps. Qed.

Lemma init_body_rsps p r a b s : init_body p (set_ps a (set_rs b s)) r = init_body p s r.
Proof. unfold init_body. rewrite init_both_rsps. reflexivity. Qed.

Lemma init_res_rsps p r a b s : init_res p (set_ps a (set_rs b s)) r = init_res p s r.
Proof. unfold init_res. rewrite init_both_rsps. reflexivity. Qed.

Lemma lapp_nil_l b : lapp no_logs b = b.
Proof. destruct b; reflexivity. Qed.

(* the state in which construct_model starts, from any state s and from a brand-new simulator *)
Lemma init_pre_idsim s r :
  rs s = RNotInit -> ps s = PNotInit ->
  IdSim (logs_of s) no_logs
    (set_created [] (set_clock (r_start r) (set_rep (Some r) (set_worker WAlive
        (match worker (set_pend [] s) with WNone => set_pend [] s | _ => do_cleanup (set_pend [] s) end)))))
    (set_created [] (set_clock (r_start r) (set_rep (Some r) (set_worker WAlive
        (set_pend [] (init_sim (strat s))))))).
Proof.
  intros R P. split.
  - exists (fun x => x).
    replace (worker (set_pend [] s)) with (worker s) by reflexivity.
    destruct (worker s); constructor; unfold dom, do_cleanup; ssimpl; rewrite ?R, ?P; try reflexivity;
      cbn [eids map app In]; try (intros a Ha; exfalso; exact Ha); try (intros a b Ha; exfalso; exact Ha).
  - exists no_logs. split.
    + rewrite lapp_nil_l. replace (worker (set_pend [] s)) with (worker s) by reflexivity.
      destruct (worker s); reflexivity.
    + reflexivity.
Qed.

(* the same with SimEvent objects built earlier: their ids X in the old process
   state and X' next to the brand-new simulator (whose counter the model puts at
   0) need only be in the same order and below the respective counters *)
Lemma init_pre_idsimx X X' g s r :
  rs s = RNotInit -> ps s = PNotInit ->
  map g X = X' -> (forall a b, In a X -> In b X -> a < b -> g a < g b) ->
  (forall a, In a X -> a < nid s) -> (forall a, In a X -> g a < 0) ->
  IdSimX X X' (logs_of s) no_logs
    (set_created [] (set_clock (r_start r) (set_rep (Some r) (set_worker WAlive
        (match worker (set_pend [] s) with WNone => set_pend [] s | _ => do_cleanup (set_pend [] s) end)))))
    (set_created [] (set_clock (r_start r) (set_rep (Some r) (set_worker WAlive
        (set_pend [] (init_sim (strat s))))))).
Proof.
  intros R P Eg Mo Lo Hi. split.
  - exists g.
    replace (worker (set_pend [] s)) with (worker s) by reflexivity.
    destruct (worker s); constructor; unfold domx, dom, do_cleanup; ssimpl; rewrite ?R, ?P; try reflexivity;
      cbn [eids map app In]; auto.
  - exists no_logs. split.
    + rewrite lapp_nil_l. replace (worker (set_pend [] s)) with (worker s) by reflexivity.
      destruct (worker s); reflexivity.
    + reflexivity.
Qed.

Lemma init_fresh_both p r s :
  IdSim (logs_of s) no_logs (init_body p s r) (init_body p (init_sim (strat s)) r)
  /\ init_res p (init_sim (strat s)) r = init_res p s r.
Proof.
  rewrite <- (init_body_rsps p r PNotInit RNotInit s), <- (init_res_rsps p r PNotInit RNotInit s).
  set (s' := set_ps PNotInit (set_rs RNotInit s)).
  replace (logs_of s) with (logs_of s') by reflexivity.
  replace (strat s) with (strat s') by reflexivity.
  unfold init_body, init_res.
  apply init_tail_idsim. unfold init_pre.
  replace (worker (set_pend [] (init_sim (strat s')))) with WNone by reflexivity. cbv iota.
  apply (init_pre_idsim s' r); reflexivity.
Qed.

Lemma init_body_fresh_idsim p r s :
  IdSim (logs_of s) no_logs (init_body p s r) (init_body p (init_sim (strat s)) r).
Proof. apply init_fresh_both. Qed.

(* THE ISOLATION THEOREM.  Take any state s that is not running -- whatever
   happened before: never started, stepped, paused, ended, paused by a fault,
   with whatever events still pending and whatever other model programs --
   and initialise it for a replication r of program p; do the same with a
   brand-new simulator.  Then every further command sequence has the same
   outcomes and snapshots on both, and the re-initialised simulator logs
   exactly what the new one logs (executed events with clocks, cancellations,
   scheduling outcomes, notifications, statistics feed -- ids by rank), on top
   of what it had logged before. *)
Theorem reinit_fresh p r s fuel cs :
  running s = false ->
  let a := fst (do_init p s r) in
  let b := fst (do_init p (init_sim (strat s)) r) in
  let ra := run_cmds fuel p a cs in
  let rb := run_cmds fuel p b cs in
  (snd (do_init p s r) = snd (do_init p (init_sim (strat s)) r) /\ snd (do_init p s r) <> ResRefused)
  /\ snd ra = snd rb
  /\ logs_of (fst ra) = lapp (logs_of (fst rb)) (logs_of s).
Proof.
  intros R. cbv zeta. rewrite !do_init_eq, R.
  replace (running (init_sim (strat s))) with false by reflexivity. cbn [fst snd].
  destruct (init_fresh_both p r s) as [H0 E0].
  split; [split; [symmetry; exact E0|destruct (init_res_cases p s r) as [Q|Q]; rewrite Q; discriminate]|].
  destruct (run_cmds_idsim _ _ _ _ fuel p cs _ _ H0) as [[_ [n [A B]]] E].
  split; [symmetry; exact E|].
  rewrite lapp_no_logs in B. rewrite B. exact A.
Qed.

(* the same with a different model program per later command *)
Lemma run_hist_idsim X X' bs bt fuel h : forall s t,
  IdSimX X X' bs bt s t -> IdSimX X X' bs bt (run_hist fuel s h) (run_hist fuel t h).
Proof.
  induction h as [|[p c] r IH]; intros s t H; cbn [run_hist]; auto.
  apply IH. apply do_cmd_idsim. exact H.
Qed.

Theorem reinit_fresh_models_taking_turns p r s fuel h :
  running s = false ->
  let a := run_hist fuel (fst (do_init p s r)) h in
  let b := run_hist fuel (fst (do_init p (init_sim (strat s)) r)) h in
  logs_of a = lapp (logs_of b) (logs_of s).
Proof.
  intros R a b. unfold a, b. rewrite !do_init_eq, R.
  replace (running (init_sim (strat s))) with false by reflexivity. cbn [fst].
  destruct (run_hist_idsim _ _ _ _ fuel h _ _ (init_body_fresh_idsim p r s)) as [_ [n [A B]]].
  rewrite lapp_no_logs in B. rewrite B. exact A.
Qed.

Lemma init_body_frame p s r :
  exists s2 s3 fl,
    s2 = set_created [] (set_clock (r_start r) (set_rep (Some r) (set_worker WAlive
           (match worker (set_pend [] s) with WNone => set_pend [] s | _ => do_cleanup (set_pend [] s) end))))
    /\ exec_actions InConstruct s2 (body p 0) = (s3, fl)
    /\ HStep s2 s3
    /\ init_res p s r = (if fl then ResRaised else ResOk)
    /\ init_body p s r =
       if fl then set_ps PNotInit (set_rs RNotInit s3)
       else
       let s5 := set_ps PInit (set_rs RInit s3) in
       if r_warm r <? clock s5 then raise_flag s5
       else set_nid (nid s5 + 1) (set_pend (ins (mkEv (r_warm r) 10 (nid s5) HWarm 0) (pend s5)) s5).
Proof.
  unfold init_body, init_res, init_tail, init_pre. cbv zeta.
  set (s2 := set_created [] _).
  pose proof (exec_actions_hstep InConstruct (body p 0) s2) as HS.
  destruct (exec_actions InConstruct s2 (body p 0)) as [s3 fl] eqn:E. cbn [fst] in HS.
  exists s2, s3, fl. split; [reflexivity|]. split; [exact E|]. split; [exact HS|].
  destruct fl; split; reflexivity.
Qed.

(* clock at the replication start; nothing that existed before is pending;
   whatever is pending or referenced was created by this initialize *)
Theorem reinit_clears_pending p s r :
  Inv s -> running s = false ->
  let s' := fst (do_init p s r) in
  clock s' = r_start r
  /\ (forall e, In e (pend s') -> nid s <= ev_id e)
  /\ (forall e, In e (created s') -> nid s <= ev_id e)
  /\ (forall e, In e (live s) -> ~ In e (pend s')).
Proof.
  intros HI R s'. unfold s'. rewrite do_init_eq, R. cbn [fst].
  destruct (init_body_frame p s r) as (s2 & s3 & fl & E2 & E3 & HS & _ & ->). cbv zeta.
  assert (N2 : nid s2 = nid s) by (rewrite E2; destruct (worker (set_pend [] s)); reflexivity).
  assert (P2 : pend s2 = []) by (rewrite E2; destruct (worker (set_pend [] s)); reflexivity).
  assert (C2 : created s2 = []) by (rewrite E2; reflexivity).
  assert (K2 : clock s2 = r_start r) by (rewrite E2; reflexivity).
  destruct HS as [F _ _ _ HP].
  assert (P3 : forall e, In e (pend s3) -> nid s <= ev_id e).
  { intros e He. destruct (HP e He) as [H|[_ H]]; [rewrite P2 in H; destruct H|lia]. }
  assert (C3 : forall e, In e (created s3) -> nid s <= ev_id e).
  { intros e He. destruct (fr_created _ _ F) as [l [El Fl]]. rewrite El, C2 in He. cbn [app] in He.
    rewrite Forall_forall in Fl. specialize (Fl e He). lia. }
  assert (K3 : clock s3 = r_start r) by (rewrite (fr_clock _ _ F); exact K2).
  assert (N3 : nid s <= nid s3) by (pose proof (fr_nid _ _ F); lia).
  assert (G : forall x, clock x = r_start r -> (forall e, In e (pend x) -> nid s <= ev_id e) ->
                        (forall e, In e (created x) -> nid s <= ev_id e) ->
              clock x = r_start r /\ (forall e, In e (pend x) -> nid s <= ev_id e)
              /\ (forall e, In e (created x) -> nid s <= ev_id e)
              /\ (forall e, In e (live s) -> ~ In e (pend x))).
  { intros x A B C. repeat split; auto. intros e He Hp. specialize (B e Hp).
    destruct HI as [_ _ H3 _ _ _]. rewrite Forall_forall in H3.
    assert (ev_id e < nid s) by (apply H3; unfold ids; apply in_map; exact He). lia. }
  destruct fl; [apply G; ssimpl; auto|].
  set (s5 := set_ps PInit (set_rs RInit s3)).
  assert (Q : clock s5 = r_start r /\ pend s5 = pend s3 /\ created s5 = created s3 /\ nid s5 = nid s3)
    by (unfold s5; ssimpl; auto).
  destruct Q as (Q1 & Q2 & Q3 & Q4).
  destruct (r_warm r <? clock s5).
  - apply G; ssimpl; rewrite ?Q1, ?Q2, ?Q3; auto.
  - apply G; ssimpl; rewrite ?Q1, ?Q3; auto.
    intros e He. apply ins_In in He. destruct He as [->|He]; [cbn [ev_id]; rewrite Q4; lia|]. rewrite Q2 in He. auto.
Qed.

Lemma filter_ins_none (P : ev -> bool) e l :
  (forall x, In x l -> P x = false) -> filter P (ins e l) = if P e then [e] else [].
Proof.
  induction l as [|x r IH]; intros H; cbn [ins filter].
  - destruct (P e); reflexivity.
  - destruct (ev_ltb e x); cbn [filter].
    + rewrite (H x (or_introl eq_refl)).
      assert (Z0 : filter P r = []).
      { clear IH. induction r as [|y r' IHr]; auto. cbn [filter]. rewrite (H y (or_intror (or_introl eq_refl))).
        apply IHr. intros z [->|Hz]; apply H; [left|right; right]; auto. }
      rewrite Z0. destruct (P e); reflexivity.
    + rewrite (H x (or_introl eq_refl)). apply IH. intros y Hy. apply H. right; auto.
Qed.

Lemma exec_action_nowarm md s a :
  (forall x, In x (pend s) -> is_warm x = false) ->
  forall x, In x (pend (fst (exec_action md s a))) -> is_warm x = false.
Proof.
  intros H. destruct a; cbn [exec_action fst]; auto.
  - unfold do_sched. destruct (sched_time s m); ssimpl; auto.
    unfold add_event; ssimpl. intros x Hx. apply ins_In in Hx. destruct Hx as [->|Hx]; auto.
  - unfold do_cancel. destruct (nth_error (created s) k); auto.
    destruct (ev_mem e (pend s)); ssimpl; auto. intros x Hx. apply H. eapply rem_incl; eauto.
  - unfold inner_cmd. destruct md; ssimpl; auto; destruct c; destruct (running s); ssimpl; auto.
Qed.

Lemma exec_actions_nowarm md acts : forall s,
  (forall x, In x (pend s) -> is_warm x = false) ->
  forall x, In x (pend (fst (exec_actions md s acts))) -> is_warm x = false.
Proof.
  induction acts as [|a r IH]; intros s H; cbn [exec_actions fst]; auto.
  pose proof (exec_action_nowarm md s a H) as H1.
  destruct (exec_action md s a) as [s1 f1]. cbn [fst] in H1. destruct f1; cbn [fst]; [exact H1|].
  apply IH. exact H1.
Qed.

(* exactly one warm-up event is pending after initialize: at the warm-up time, with the highest priority *)
Theorem exactly_one_warmup_scheduled p s r :
  running s = false -> r_start r <= r_warm r ->
  (snd (do_init p s r) = ResOk
   /\ exists n, nid s <= n /\ warmups (fst (do_init p s r)) = [mkEv (r_warm r) 10 n HWarm 0])
  \/ (snd (do_init p s r) = ResRaised /\ warmups (fst (do_init p s r)) = []).
Proof.
  intros R W. rewrite do_init_eq, R. cbn [fst snd].
  destruct (init_body_frame p s r) as (s2 & s3 & fl & E2 & E3 & HS & -> & ->). cbv zeta.
  assert (P2 : pend s2 = []) by (rewrite E2; destruct (worker (set_pend [] s)); reflexivity).
  assert (K2 : clock s2 = r_start r) by (rewrite E2; reflexivity).
  assert (N2 : nid s2 = nid s) by (rewrite E2; destruct (worker (set_pend [] s)); reflexivity).
  assert (NW : forall x, In x (pend s3) -> is_warm x = false).
  { pose proof (exec_actions_nowarm InConstruct (body p 0) s2) as Q. rewrite E3 in Q. cbn [fst] in Q.
    apply Q. rewrite P2. intros x []. }
  destruct HS as [F _ _ _ _].
  destruct fl.
  - right. split; auto. unfold warmups; ssimpl.
    clear -NW. induction (pend s3) as [|x l IH]; auto. cbn [filter].
    rewrite (NW x (or_introl eq_refl)). apply IH. intros y Hy. apply NW. right; auto.
  - left. split; auto.
    set (s5 := set_ps PInit (set_rs RInit s3)).
    assert (Q : clock s5 = r_start r /\ pend s5 = pend s3 /\ nid s5 = nid s3)
      by (unfold s5; ssimpl; rewrite (fr_clock _ _ F); auto).
    destruct Q as (Q1 & Q2 & Q3).
    destruct (Z.ltb_spec (r_warm r) (clock s5)); [lia|].
    exists (nid s5). split; [pose proof (fr_nid _ _ F); lia|].
    unfold warmups; ssimpl. rewrite filter_ins_none; [reflexivity|]. rewrite Q2. exact NW.
Qed.

(* initialize while running: refused, nothing changes *)
Theorem initialize_refused_while_running p s r :
  running s = true -> do_init p s r = (s, ResRefused).
Proof. intros R. rewrite do_init_eq, R. reflexivity. Qed.

(* ... also when a handler of the running simulation issues it: only the
   outcome of the call is logged *)
Theorem initialize_from_handler_refused md s r :
  md <> InConstruct -> running s = true ->
  inner_cmd md s (CInit r) = out OCmdRefused s.
Proof. intros M R. unfold inner_cmd. destruct md; try contradiction; rewrite R; reflexivity. Qed.

(* ------------------------------------------------------------------ *)
(** * The model object: output statistics are rebuilt *)

Definition keys_of (sp : sspec) : list nat := map (fun q => fst (fst q)) sp.

Lemma map_has_app key a b : map_has key (a ++ b) = map_has key a || map_has key b.
Proof.
  induction a as [|[k o] r IH]; cbn [app map_has]; auto. rewrite IH, orb_assoc. reflexivity.
Qed.

Lemma build_stats_ok n sp : forall m,
  NoDup (keys_of sp) -> (forall k, In k (keys_of sp) -> map_has k (m_map m) = false) ->
  snd (build_stats n sp m) = true.
Proof.
  induction sp as [|[[key kind] sid] r IH]; intros m ND Hm; cbn [build_stats snd]; auto.
  cbn [keys_of map fst] in ND, Hm. inversion ND as [|? ? Hn ND']; subst.
  rewrite (Hm key (or_introl eq_refl)). apply IH; auto.
  intros k Hk. cbn [m_map]. rewrite map_has_app. cbn [map_has]. rewrite orb_false_r.
  rewrite (Hm k (or_intror Hk)). cbn [orb].
  destruct (Nat.eqb_spec key k) as [->|]; auto. contradiction.
Qed.

(* with the repaired initialize a model whose construct_model registers
   each key once can be initialised from ANY state: never "already registered" *)
Theorem x_init_never_already_registered xp x r :
  NoDup (keys_of (xp_stats xp)) -> running (x_sim x) = false ->
  snd (x_init true xp x r) = (match snd (do_init (xp_prog xp) (x_sim x) r) with ResRaised => XRaised | _ => XOk end)
  /\ snd (x_init true xp x r) <> XAlreadyRegistered /\ snd (x_init true xp x r) <> XRefused.
Proof.
  intros ND R. unfold x_init. rewrite R.
  pose proof (build_stats_ok (length (obs (x_sim x))) (xp_stats xp)
               (mkMdl [] (map (cut_obj (length (obs (x_sim x)))) (m_objs (x_mdl x)))) ND (fun k _ => eq_refl)) as H.
  destruct (build_stats _ _ _) as [m1 ok]. cbn [snd] in H. subst ok. cbn [snd].
  split; [reflexivity|]. destruct (snd (do_init (xp_prog xp) (x_sim x) r)); split; discriminate.
Qed.

Theorem x_init_refused_while_running clr xp x r :
  running (x_sim x) = true -> x_init clr xp x r = (x, XRefused).
Proof. intros R. unfold x_init. rewrite R. reflexivity. Qed.

(* the pinned code (map not emptied): the second initialize of a model with
   one statistic raises *)
Definition pinned_witness_prog : xprog := mkXProg [(0%nat, KTally, 0%nat)] [[]].
Definition pinned_witness_repl : repl := mkRepl 0 0 40.

Theorem x_init_pinned_already_registered_refuted :
  let x1 := fst (x_init false pinned_witness_prog (x0 SWarnPause) pinned_witness_repl) in
  NoDup (keys_of (xp_stats pinned_witness_prog))
  /\ snd (x_init false pinned_witness_prog (x0 SWarnPause) pinned_witness_repl) = XOk
  /\ running (x_sim x1) = false
  /\ snd (x_init false pinned_witness_prog x1 pinned_witness_repl) = XAlreadyRegistered
  /\ snd (x_init true pinned_witness_prog x1 pinned_witness_repl) = XOk.
Proof. cbv zeta. split; [repeat constructor; intros []|]. vm_compute. auto. Qed.

(* --- the statistics of the new replication are those of a brand-new simulator --- *)

Definition shift_obj (L : nat) (o : sobj) : sobj :=
  mkObj (so_key o) (so_kind o) (so_sid o) (so_from o + L) (option_map (fun n => (n + L)%nat) (so_upto o)).

Definition shift_map (N : nat) (m : list (nat * nat)) : list (nat * nat) :=
  map (fun ko => (fst ko, (snd ko + N)%nat)) m.

Record MdlRel (L N : nat) (mx my : mdl) : Prop := mkMdlRel {
  mr_map : m_map mx = shift_map N (m_map my);
  mr_objs : skipn N (m_objs mx) = map (shift_obj L) (m_objs my);
  mr_len : length (m_objs mx) = (N + length (m_objs my))%nat
}.

Record XRel (base : logs) (N : nat) (x y : xsim) : Prop := mkXRel {
  xr_sim : IdSim base no_logs (x_sim x) (x_sim y);
  xr_mdl : MdlRel (length (l_ob base)) N (x_mdl x) (x_mdl y)
}.

Lemma map_has_shift key N m : map_has key (shift_map N m) = map_has key m.
Proof. unfold shift_map. induction m as [|[k o] r IH]; cbn [map map_has fst snd]; auto. rewrite IH. reflexivity. Qed.

Lemma skipn_app_le {A} n (a b : list A) : (n <= length a)%nat -> skipn n (a ++ b) = skipn n a ++ b.
Proof.
  intros H. rewrite skipn_app. replace (n - length a)%nat with 0%nat by lia. reflexivity.
Qed.

Lemma build_stats_mrel L N nx ny sp : forall mx my,
  nx = (ny + L)%nat -> MdlRel L N mx my ->
  MdlRel L N (fst (build_stats nx sp mx)) (fst (build_stats ny sp my))
  /\ snd (build_stats nx sp mx) = snd (build_stats ny sp my).
Proof.
  induction sp as [|[[key kind] sid] r IH]; intros mx my En M; cbn [build_stats fst snd]; auto.
  destruct M as [Mm Mo Ml].
  rewrite Mm, map_has_shift.
  assert (Mo' : skipn N (m_objs mx ++ [mkObj key kind sid nx None])
                = map (shift_obj L) (m_objs my ++ [mkObj key kind sid ny None])).
  { rewrite skipn_app_le by lia. rewrite Mo, map_app. cbn [map]. unfold shift_obj at 3. cbn. subst nx. reflexivity. }
  assert (Ml' : length (m_objs mx ++ [mkObj key kind sid nx None])
                = (N + length (m_objs my ++ [mkObj key kind sid ny None]))%nat).
  { rewrite !app_length. cbn [length]. lia. }
  destruct (map_has key (m_map my)); cbn [fst snd].
  - split; auto. constructor; cbn [m_map m_objs]; auto.
  - apply IH; auto. constructor; cbn [m_map m_objs]; auto.
    rewrite <- Mm. unfold shift_map. rewrite map_app. cbn [map fst snd]. fold (shift_map N (m_map my)).
    rewrite <- Mm, Ml. f_equal. f_equal. f_equal. lia.
Qed.

Lemma cut_shift L n o : cut_obj (n + L) (shift_obj L o) = shift_obj L (cut_obj n o).
Proof. unfold cut_obj, shift_obj. destruct o as [k kd sd fr [u|]]; reflexivity. Qed.

Lemma idsim_obs_len base s t :
  IdSim base no_logs s t -> length (obs s) = (length (obs t) + length (l_ob base))%nat.
Proof.
  intros [_ [n [A B]]]. rewrite lapp_no_logs in B.
  assert (Os : obs s = l_ob n ++ l_ob base) by (change (obs s) with (l_ob (logs_of s)); rewrite A; reflexivity).
  assert (Ot : obs t = l_ob n) by (change (obs t) with (l_ob (logs_of t)); rewrite B; reflexivity).
  rewrite Os, Ot, app_length. reflexivity.
Qed.

Lemma cut_all_mrel L N nx ny mx my :
  nx = (ny + L)%nat -> MdlRel L N mx my ->
  MdlRel L N (mkMdl [] (map (cut_obj nx) (m_objs mx))) (mkMdl [] (map (cut_obj ny) (m_objs my))).
Proof.
  intros -> [Mm Mo Ml]. constructor; cbn [m_map m_objs]; auto.
  - rewrite skipn_map, Mo, !map_map. apply map_ext. intros o. apply cut_shift.
  - rewrite !map_length. exact Ml.
Qed.

Lemma x_init_xrel base N xp r x y :
  NoDup (keys_of (xp_stats xp)) -> XRel base N x y ->
  XRel base N (fst (x_init true xp x r)) (fst (x_init true xp y r)).
Proof.
  intros ND [S M]. unfold x_init. rewrite (idsim_running _ _ _ _ _ _ S).
  destruct (running (x_sim x)); [constructor; auto|].
  pose proof (idsim_obs_len _ _ _ S) as EL.
  pose proof (cut_all_mrel _ N _ _ _ _ EL M) as M0.
  destruct (build_stats_mrel _ N _ _ (xp_stats xp) _ _ EL M0) as [M1 E1].
  pose proof (build_stats_ok (length (obs (x_sim y))) (xp_stats xp)
               (mkMdl [] (map (cut_obj (length (obs (x_sim y)))) (m_objs (x_mdl y)))) ND (fun k _ => eq_refl)) as Ok.
  destruct (build_stats (length (obs (x_sim x))) _ _) as [m1 ok1].
  destruct (build_stats (length (obs (x_sim y))) _ _) as [m1' ok2]. cbn [fst snd] in *. subst ok1 ok2.
  constructor; cbn [x_sim x_mdl]; auto.
  apply do_init_idsim. exact S.
Qed.

Lemma x_cmd_xrel base N fuel xp c x y :
  NoDup (keys_of (xp_stats xp)) -> XRel base N x y ->
  XRel base N (x_cmd fuel xp x c) (x_cmd fuel xp y c).
Proof.
  intros ND H. destruct c; try (apply x_init_xrel; auto; fail);
  destruct H as [S M]; constructor; cbn [x_cmd x_sim x_mdl]; auto;
  apply do_cmd_idsim; exact S.
Qed.

Lemma x_run_xrel base N fuel xp cs : forall x y,
  NoDup (keys_of (xp_stats xp)) -> XRel base N x y ->
  XRel base N (x_run fuel xp x cs) (x_run fuel xp y cs).
Proof.
  induction cs as [|c r IH]; intros x y ND H; cbn [x_run]; auto.
  apply IH; auto. apply x_cmd_xrel; auto.
Qed.

Lemma segment_shift {A} (a b : list A) from upto :
  segment (from + length a) (option_map (fun n => (n + length a)%nat) upto) (a ++ b) = segment from upto b.
Proof.
  unfold segment. destruct upto as [u|]; cbn [option_map].
  - replace (u + length a)%nat with (length a + u)%nat by lia. rewrite firstn_app_2.
    rewrite skipn_app. replace (from + length a - length a)%nat with from by lia.
    rewrite skipn_all2 by lia. reflexivity.
  - rewrite skipn_app. replace (from + length a - length a)%nat with from by lia.
    rewrite skipn_all2 by lia. reflexivity.
Qed.

Lemma feed_shiftx X X' base s t o :
  IdSimX X X' base no_logs s t -> feed s (shift_obj (length (l_ob base)) o) = feed t o.
Proof.
  intros [_ [n [A B]]]. rewrite lapp_no_logs in B.
  assert (Os : obs s = l_ob n ++ l_ob base) by (change (obs s) with (l_ob (logs_of s)); rewrite A; reflexivity).
  assert (Ot : obs t = l_ob n) by (change (obs t) with (l_ob (logs_of t)); rewrite B; reflexivity).
  unfold feed. rewrite Os, Ot, rev_app_distr. cbn [shift_obj so_from so_upto].
  rewrite <- (rev_length (l_ob base)). rewrite segment_shift.
  apply filter_ext. intros q. destruct q; reflexivity.
Qed.

Lemma feed_shift base s t o :
  IdSim base no_logs s t -> feed s (shift_obj (length (l_ob base)) o) = feed t o.
Proof. apply feed_shiftx. Qed.

Lemma nth_error_skipn {A} N i (l : list A) : nth_error l (i + N) = nth_error (skipn N l) i.
Proof.
  revert l. induction N as [|N IH]; intros l; [rewrite Nat.add_0_r; reflexivity|].
  destruct l as [|a l]; [destruct i; reflexivity|].
  rewrite Nat.add_succ_r. cbn [nth_error skipn]. apply IH.
Qed.

Lemma reported_xrel base N x y : XRel base N x y -> reported x = reported y.
Proof.
  intros [S [Mm Mo Ml]]. unfold reported. rewrite Mm. unfold shift_map. rewrite map_map. cbn [fst snd].
  apply map_ext. intros [k i]. cbn [fst snd]. f_equal.
  rewrite nth_error_skipn, Mo, nth_error_map.
  destruct (nth_error (m_objs (x_mdl y)) i) as [o|]; cbn [option_map]; auto.
  rewrite (feed_shift _ _ _ o S). reflexivity.
Qed.

Lemma x_init_fresh_xrel xp r x :
  NoDup (keys_of (xp_stats xp)) -> running (x_sim x) = false ->
  XRel (logs_of (x_sim x)) (length (m_objs (x_mdl x)))
       (fst (x_init true xp x r)) (fst (x_init true xp (x0 (strat (x_sim x))) r)).
Proof.
  intros ND R. unfold x_init. rewrite R.
  replace (running (x_sim (x0 (strat (x_sim x))))) with false by reflexivity.
  set (L := length (obs (x_sim x))). set (N := length (m_objs (x_mdl x))).
  assert (M0 : MdlRel L N (mkMdl [] (map (cut_obj L) (m_objs (x_mdl x)))) (mkMdl [] (map (cut_obj 0) []))).
  { constructor; cbn [m_map m_objs map]; auto.
    - rewrite skipn_all2; auto. rewrite map_length. unfold N. lia.
    - rewrite map_length. cbn. unfold N. lia. }
  assert (EL : L = (0 + L)%nat) by reflexivity.
  destruct (build_stats_mrel L N L 0%nat (xp_stats xp) _ _ EL M0) as [M1 E1].
  pose proof (build_stats_ok 0%nat (xp_stats xp) (mkMdl [] (map (cut_obj 0) [])) ND (fun k _ => eq_refl)) as Ok.
  replace (length (obs (x_sim (x0 (strat (x_sim x)))))) with 0%nat by reflexivity.
  replace (m_objs (x_mdl (x0 (strat (x_sim x))))) with (@nil sobj) by reflexivity.
  destruct (build_stats L _ _) as [m1 ok1].
  destruct (build_stats 0 _ _) as [m1' ok2]. cbn [fst snd] in *. subst ok1 ok2.
  constructor; cbn [x_sim x_mdl x0].
  - rewrite !do_init_eq, R. replace (running (init_sim (strat (x_sim x)))) with false by reflexivity.
    cbn [fst]. apply init_body_fresh_idsim.
  - exact M1.
Qed.

(* the model reports, after re-initialisation and any further commands (more
   re-initialisations included), the same statistics -- keys, kinds and what
   each was fed -- as the same commands on a brand-new simulator and model *)
Theorem reinit_statistics_fresh xp r x fuel cs :
  NoDup (keys_of (xp_stats xp)) -> running (x_sim x) = false ->
  let xa := x_run fuel xp (fst (x_init true xp x r)) cs in
  let xb := x_run fuel xp (fst (x_init true xp (x0 (strat (x_sim x))) r)) cs in
  reported xa = reported xb
  /\ logs_of (x_sim xa) = lapp (logs_of (x_sim xb)) (logs_of (x_sim x)).
Proof.
  intros ND R xa xb.
  pose proof (x_run_xrel _ _ fuel xp cs _ _ ND (x_init_fresh_xrel xp r x ND R)) as H.
  split; [eapply reported_xrel; exact H|].
  destruct H as [[_ [n [A B]]] _]. rewrite lapp_no_logs in B. fold xa in A. fold xb in B. rewrite B. exact A.
Qed.

(* right after initialize the map holds exactly the statistics of this
   construct_model, all of them new objects fed from now on *)
Lemma build_stats_from_empty n sp : forall m,
  NoDup (keys_of sp) -> (forall k, In k (keys_of sp) -> map_has k (m_map m) = false) ->
  let m' := fst (build_stats n sp m) in
  m_map m' = m_map m ++ combine (keys_of sp) (seq (length (m_objs m)) (length sp))
  /\ m_objs m' = m_objs m ++ map (fun q => mkObj (fst (fst q)) (snd (fst q)) (snd q) n None) sp.
Proof.
  induction sp as [|[[key kind] sid] r IH]; intros m ND Hm; cbn [build_stats fst].
  - cbn. rewrite !app_nil_r. auto.
  - cbn [keys_of map fst] in ND, Hm. inversion ND as [|? ? Hn ND']; subst.
    rewrite (Hm key (or_introl eq_refl)).
    destruct (IH (mkMdl (m_map m ++ [(key, length (m_objs m))]) (m_objs m ++ [mkObj key kind sid n None])) ND') as [A B].
    { intros k Hk. cbn [m_map]. rewrite map_has_app. cbn [map_has]. rewrite orb_false_r.
      rewrite (Hm k (or_intror Hk)). cbn [orb]. destruct (Nat.eqb_spec key k) as [->|]; auto. contradiction. }
    cbv zeta in *. rewrite A, B. cbn [m_map m_objs length map fst snd keys_of seq combine].
    rewrite app_length, <- !app_assoc. cbn [length app]. rewrite Nat.add_1_r. auto.
Qed.

Theorem x_init_rebuilds_statistics xp x r :
  NoDup (keys_of (xp_stats xp)) -> running (x_sim x) = false ->
  let x' := fst (x_init true xp x r) in
  let N := length (m_objs (x_mdl x)) in
  m_map (x_mdl x') = combine (keys_of (xp_stats xp)) (seq N (length (xp_stats xp)))
  /\ skipn N (m_objs (x_mdl x'))
     = map (fun q => mkObj (fst (fst q)) (snd (fst q)) (snd q) (length (obs (x_sim x))) None) (xp_stats xp)
  /\ firstn N (m_objs (x_mdl x')) = map (cut_obj (length (obs (x_sim x)))) (m_objs (x_mdl x)).
Proof.
  intros ND R. cbv zeta. unfold x_init. rewrite R.
  set (n := length (obs (x_sim x))).
  set (m0 := mkMdl [] (map (cut_obj n) (m_objs (x_mdl x)))).
  destruct (build_stats_from_empty n (xp_stats xp) m0 ND (fun k _ => eq_refl)) as [A B].
  pose proof (build_stats_ok n (xp_stats xp) m0 ND (fun k _ => eq_refl)) as Ok.
  destruct (build_stats n (xp_stats xp) m0) as [m1 ok]. cbn [fst snd] in *. subst ok. cbn [fst x_mdl].
  unfold m0 in A, B. cbn [m_map m_objs] in A, B. rewrite map_length in A.
  split; [exact A|]. rewrite B.
  assert (LN : length (map (cut_obj n) (m_objs (x_mdl x))) = length (m_objs (x_mdl x))) by apply map_length.
  split.
  - rewrite skipn_app, <- LN, skipn_all, Nat.sub_diag. reflexivity.
  - rewrite firstn_app, <- LN, firstn_all, Nat.sub_diag. cbn [firstn]. rewrite app_nil_r. reflexivity.
Qed.

(* --- and the statistics of the previous replication are left alone --- *)

Lemma cut_cut n m o : cut_obj m (cut_obj n o) = cut_obj n o.
Proof. unfold cut_obj. destruct o as [k kd sd fr [u|]]; reflexivity. Qed.

Lemma build_stats_prefix n sp : forall m i o,
  nth_error (m_objs m) i = Some o -> nth_error (m_objs (fst (build_stats n sp m))) i = Some o.
Proof.
  induction sp as [|[[key kind] sid] r IH]; intros m i o H; cbn [build_stats fst]; auto.
  assert (H' : nth_error (m_objs m ++ [mkObj key kind sid n None]) i = Some o).
  { rewrite nth_error_app1; auto. apply nth_error_Some. congruence. }
  destruct (map_has key (m_map m)); cbn [fst m_objs]; auto.
Qed.

Definition was_cut (o : sobj) : Prop := exists u, so_upto o = Some u.

Lemma x_cmd_keeps_cut fuel xp c x i o :
  nth_error (m_objs (x_mdl x)) i = Some o -> was_cut o ->
  nth_error (m_objs (x_mdl (x_cmd fuel xp x c))) i = Some o.
Proof.
  intros H [u Hu]. destruct c; cbn [x_cmd x_mdl]; auto.
  unfold x_init. destruct (running (x_sim x)); cbn [fst x_mdl]; auto.
  set (n := length (obs (x_sim x))).
  assert (H0 : nth_error (map (cut_obj n) (m_objs (x_mdl x))) i = Some o).
  { rewrite nth_error_map, H. cbn [option_map]. f_equal. unfold cut_obj. rewrite Hu. reflexivity. }
  pose proof (build_stats_prefix n (xp_stats xp) (mkMdl [] (map (cut_obj n) (m_objs (x_mdl x)))) i o H0) as Q.
  destruct (build_stats n (xp_stats xp) _) as [m1 ok]. cbn [fst] in Q. destruct ok; exact Q.
Qed.

Lemma x_run_keeps_cut fuel xp cs : forall x i o,
  nth_error (m_objs (x_mdl x)) i = Some o -> was_cut o ->
  nth_error (m_objs (x_mdl (x_run fuel xp x cs))) i = Some o.
Proof.
  induction cs as [|c r IH]; intros x i o H W; cbn [x_run]; auto.
  apply IH; auto. apply x_cmd_keeps_cut; auto.
Qed.

(* the observation log only grows *)
Lemma x_cmd_obs_grows fuel xp c x :
  Inv (x_sim x) -> Inv (x_sim (x_cmd fuel xp x c))
  /\ exists n, obs (x_sim (x_cmd fuel xp x c)) = n ++ obs (x_sim x).
Proof.
  intros HI.
  assert (G : forall s', (exists c', s' = fst (do_cmd fuel (xp_prog xp) (x_sim x) c')) ->
              Inv s' /\ exists n, obs s' = n ++ obs (x_sim x)).
  { intros s' [c' ->]. split; [apply do_cmd_inv; auto|].
    assert (S : IdSim (logs_of (x_sim x)) (logs_of (x_sim x)) (x_sim x) (x_sim x)).
    { split; [|apply LogsRel_start]. exists (fun a => a). constructor; auto.
      - rewrite map_ext with (g := fun e => e); [rewrite map_id; reflexivity|intros []; reflexivity].
      - rewrite map_ext with (g := fun e => e); [rewrite map_id; reflexivity|intros []; reflexivity].
      - rewrite domx_nil. apply Inv_dom_lt; auto.
      - rewrite domx_nil. apply Inv_dom_lt; auto. }
    destruct (do_cmd_idsim _ _ _ _ fuel (xp_prog xp) c' _ _ S) as [[_ [n [A _]]] _].
    exists (l_ob n). change (obs (fst (do_cmd fuel (xp_prog xp) (x_sim x) c')))
      with (l_ob (logs_of (fst (do_cmd fuel (xp_prog xp) (x_sim x) c')))). rewrite A. reflexivity. }
  destruct c; cbn [x_cmd x_sim]; try (apply G; eexists; reflexivity).
  unfold x_init. destruct (running (x_sim x)) eqn:R; cbn [fst x_sim].
  - split; auto. exists []. reflexivity.
  - destruct (build_stats _ _ _) as [m1 ok]. destruct ok; cbn [fst x_sim].
    + apply (G _ (ex_intro _ (CInit r) eq_refl)).
    + split; auto. exists []. reflexivity.
Qed.

Lemma x_run_obs_grows fuel xp cs : forall x,
  Inv (x_sim x) -> exists n, obs (x_sim (x_run fuel xp x cs)) = n ++ obs (x_sim x).
Proof.
  induction cs as [|c r IH]; intros x HI; cbn [x_run]; [exists []; reflexivity|].
  destruct (x_cmd_obs_grows fuel xp c x HI) as [HI' [n1 E1]].
  destruct (IH _ HI') as [n2 E2]. exists (n2 ++ n1). rewrite E2, E1, app_assoc. reflexivity.
Qed.

Lemma firstn_len_app {A} (a b : list A) : firstn (length a) (a ++ b) = a.
Proof. rewrite firstn_app, Nat.sub_diag, firstn_all. cbn [firstn]. apply app_nil_r. Qed.

Lemma feed_cut_stable s s' o n :
  so_upto o = Some (length (obs s)) -> obs s' = n ++ obs s -> feed s' o = feed s o.
Proof.
  intros U E. unfold feed, segment. rewrite U, E, rev_app_distr.
  rewrite <- (rev_length (obs s)), firstn_len_app, firstn_all. reflexivity.
Qed.

(* a statistic that was connected when the simulator was initialised again
   keeps, whatever the new replication does, exactly the observations it had *)
Theorem old_statistics_frozen xp r x fuel cs i o :
  Inv (x_sim x) -> running (x_sim x) = false ->
  nth_error (m_objs (x_mdl x)) i = Some o -> so_upto o = None ->
  let x' := x_run fuel xp (fst (x_init true xp x r)) cs in
  exists o', nth_error (m_objs (x_mdl x')) i = Some o'
             /\ so_key o' = so_key o /\ so_kind o' = so_kind o
             /\ feed (x_sim x') o' = feed (x_sim x) o.
Proof.
  intros HI R Hi Hu x'.
  set (n := length (obs (x_sim x))).
  set (o' := cut_obj n o).
  assert (W : was_cut o') by (exists n; unfold o', cut_obj; rewrite Hu; reflexivity).
  assert (H1 : nth_error (m_objs (x_mdl (fst (x_init true xp x r)))) i = Some o').
  { unfold x_init. rewrite R. fold n.
    assert (H0 : nth_error (map (cut_obj n) (m_objs (x_mdl x))) i = Some o')
      by (rewrite nth_error_map, Hi; reflexivity).
    pose proof (build_stats_prefix n (xp_stats xp) (mkMdl [] (map (cut_obj n) (m_objs (x_mdl x)))) i o' H0) as Q.
    destruct (build_stats n (xp_stats xp) _) as [m1 ok]. cbn [fst] in Q. destruct ok; exact Q. }
  exists o'. split; [apply x_run_keeps_cut; auto|].
  assert (K : so_key o' = so_key o /\ so_kind o' = so_kind o /\ so_sid o' = so_sid o /\ so_from o' = so_from o
              /\ so_upto o' = Some n).
  { unfold o', cut_obj. rewrite Hu. cbn. auto. }
  destruct K as (K1 & K2 & K3 & K4 & K5). repeat split; auto.
  assert (G : exists m, obs (x_sim x') = m ++ obs (x_sim x)).
  { destruct (x_cmd_obs_grows fuel xp (CInit r) x HI) as [HI1 [n1 E1]]. cbn [x_cmd] in HI1, E1.
    destruct (x_run_obs_grows fuel xp cs _ HI1) as [n2 E2]. fold x' in E2.
    exists (n2 ++ n1). rewrite E2, E1, app_assoc. reflexivity. }
  destruct G as [m E].
  rewrite (feed_cut_stable (x_sim x) (x_sim x') o' m K5 E).
  unfold feed, segment. rewrite K5, K4, Hu. unfold n.
  rewrite <- (rev_length (obs (x_sim x))), firstn_all.
  apply filter_ext. intros q. unfold relevant. rewrite K3, K2. reflexivity.
Qed.
