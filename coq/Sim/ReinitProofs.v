(* C06 / C07 -- proofs about re-initialisation and event-id renaming for the
   simulator model Sim/Model.v (definitions in Sim/Reinit.v).

   The central fact: every operation of the simulator preserves [IdSim]
   ("same state up to an order-preserving renaming of the event ids that can
   still be compared, and the same things logged since two arbitrary
   marks"), because ids are only ever compared with [<] / [=] among pending
   and referenced events, and fresh ids are larger than all of those. *)
From Coq Require Import ZArith List Bool Lia Sorting.Sorted Sorting.Permutation.
From PV Require Import EventList.Key EventList.KeyProofs Sim.Model Sim.Case Sim.Order Sim.Horizon Sim.Reinit.
Import ListNotations.
Local Open Scope Z_scope.

Ltac ssimpl :=
  cbn [clock pend nid rs ps bound incl strat worker rep created cancelled trace outs ntfs obs flag
       set_clock set_pend set_nid set_rs set_ps set_bound set_incl set_strat set_worker set_rep
       set_created set_cancelled set_trace set_outs set_ntfs set_obs set_flag
       emit out raise_flag fst snd] in *.

(* ------------------------------------------------------------------ *)
(** * Logs *)

Lemma push_lapp l n b : push l (lapp n b) = lapp (push l n) b.
Proof. destruct l; reflexivity. Qed.

Lemma lapp_no_logs n : lapp n no_logs = n.
Proof.
  destruct n; unfold lapp, no_logs; cbn. rewrite !app_nil_r, orb_false_r. reflexivity.
Qed.

Lemma LogsRel_push bs bt s t s' t' l :
  LogsRel bs bt s t -> logs_of s' = push l (logs_of s) -> logs_of t' = push l (logs_of t) ->
  LogsRel bs bt s' t'.
Proof.
  intros [n [Hs Ht]] Es Et. exists (push l n).
  rewrite Es, Et, Hs, Ht, !push_lapp. auto.
Qed.

Lemma LogsRel_same bs bt s t s' t' :
  LogsRel bs bt s t -> logs_of s' = logs_of s -> logs_of t' = logs_of t -> LogsRel bs bt s' t'.
Proof. intros [n [Hs Ht]] Es Et. exists n. rewrite Es, Et. auto. Qed.

Lemma LogsRel_start s t : LogsRel (logs_of s) (logs_of t) s t.
Proof. exists no_logs. split; destruct (logs_of _); reflexivity. Qed.

(* ------------------------------------------------------------------ *)
(** * Renaming and the order of events *)

Lemma er_ren f e : er (ren f e) = er e.
Proof. reflexivity. Qed.

Definition OrdPres (f : Z -> Z) (x y : Z) : Prop := (x < y -> f x < f y) /\ (y < x -> f y < f x).

Lemma OrdPres_sym f x y : OrdPres f x y -> OrdPres f y x.
Proof. intros [A B]; split; auto. Qed.

Lemma ordpres_ltb f x y : OrdPres f x y -> (f x <? f y) = (x <? y).
Proof.
  intros [A B]. destruct (Z.ltb_spec x y) as [H|H].
  - apply Z.ltb_lt. auto.
  - apply Z.ltb_ge. destruct (Z.eq_dec x y) as [->|N]; [lia|]. assert (y < x) by lia. specialize (B H0). lia.
Qed.

Lemma ordpres_eqb f x y : OrdPres f x y -> (f x =? f y) = (x =? y).
Proof.
  intros [A B]. destruct (Z.eqb_spec x y) as [->|N].
  - apply Z.eqb_refl.
  - apply Z.eqb_neq. destruct (Z.lt_trichotomy x y) as [H|[H|H]]; [specialize (A H)|contradiction|specialize (B H)]; lia.
Qed.

Lemma ev_ltb_ren f a b : OrdPres f (ev_id a) (ev_id b) -> ev_ltb (ren f a) (ren f b) = ev_ltb a b.
Proof.
  intros H. unfold ev_ltb, key_ltb, ev_key, ren; cbn.
  rewrite (ordpres_ltb _ _ _ H). reflexivity.
Qed.

Lemma ev_eqb_ren f a b : OrdPres f (ev_id a) (ev_id b) -> ev_eqb (ren f a) (ren f b) = ev_eqb a b.
Proof.
  intros H. unfold ev_eqb, key_eqb, ev_key, ren; cbn.
  rewrite (ordpres_eqb _ _ _ H). reflexivity.
Qed.

Lemma ins_ren f e l :
  (forall x, In x l -> OrdPres f (ev_id e) (ev_id x)) ->
  ins (ren f e) (map (ren f) l) = map (ren f) (ins e l).
Proof.
  induction l as [|x r IH]; intros H; cbn [map ins]; auto.
  rewrite (ev_ltb_ren f e x) by (apply H; left; auto).
  destruct (ev_ltb e x); cbn [map]; auto.
  rewrite IH; auto. intros y Hy. apply H. right; auto.
Qed.

Lemma rem_ren f e l :
  (forall x, In x l -> OrdPres f (ev_id e) (ev_id x)) ->
  rem (ren f e) (map (ren f) l) = map (ren f) (rem e l).
Proof.
  induction l as [|x r IH]; intros H; cbn [map rem]; auto.
  rewrite (ev_eqb_ren f e x) by (apply H; left; auto).
  destruct (ev_eqb e x); cbn [map]; auto.
  rewrite IH; auto. intros y Hy. apply H. right; auto.
Qed.

Lemma ev_mem_ren f e l :
  (forall x, In x l -> OrdPres f (ev_id e) (ev_id x)) ->
  ev_mem (ren f e) (map (ren f) l) = ev_mem e l.
Proof.
  unfold ev_mem. induction l as [|x r IH]; intros H; cbn [map existsb]; auto.
  rewrite (ev_eqb_ren f e x) by (apply H; left; auto).
  rewrite IH; auto. intros y Hy. apply H. right; auto.
Qed.

Lemma map_ren_ext f g l :
  (forall x, In x l -> f (ev_id x) = g (ev_id x)) -> map (ren f) l = map (ren g) l.
Proof.
  intros H. apply map_ext_in. intros x Hx. unfold ren. rewrite (H x Hx). reflexivity.
Qed.

Lemma in_eids x l : In x l -> In (ev_id x) (eids l).
Proof. apply in_map. Qed.

Lemma in_eids_inv a l : In a (eids l) -> exists x, In x l /\ ev_id x = a.
Proof. unfold eids. rewrite in_map_iff. intros [x [E H]]. eauto. Qed.

(* ------------------------------------------------------------------ *)
(** * The relation is preserved by every primitive of the model *)

Section Prims.
Variables bs bt : logs.

Lemma dom_pend s x : In x (pend s) -> In (ev_id x) (dom s).
Proof. intros H. unfold dom. apply in_or_app. left. apply in_eids; auto. Qed.

Lemma dom_created s x : In x (created s) -> In (ev_id x) (dom s).
Proof. intros H. unfold dom. apply in_or_app. right. apply in_eids; auto. Qed.

Lemma CoreSim_ordpres f s t a b :
  CoreSim f s t -> In a (dom s) -> In b (dom s) -> OrdPres f a b.
Proof. intros C Ha Hb. split; intros; apply (cs_mono _ _ _ C); auto. Qed.

(* an operation that changes neither the comparable events, the counter, nor the
   scalar fields in the relation *)
Lemma CoreSim_same f s t s' t' :
  CoreSim f s t ->
  clock s' = clock s -> clock t' = clock t -> rs t' = rs s' -> ps t' = ps s' ->
  strat s' = strat s -> strat t' = strat t -> worker t' = worker s' -> rep t' = rep s' ->
  pend s' = pend s -> pend t' = pend t -> created s' = created s -> created t' = created t ->
  nid s' = nid s -> nid t' = nid t ->
  CoreSim f s' t'.
Proof.
  intros [A1 A2 A3 A4 A5 A6 A7 A8 Lo Hi Mo] Hc Hc' Hr Hp Hs Hs' Hw Hre Pp Pp' Pc Pc' Pn Pn'.
  constructor; unfold dom in *; try congruence.
  - intros a. rewrite Pp, Pc, Pn. auto.
  - intros a. rewrite Pp, Pc, Pn'. auto.
  - intros a b. rewrite Pp, Pc. auto.
Qed.

(* shrinking the set of comparable events *)
Lemma CoreSim_shrink f s t s' t' :
  CoreSim f s t ->
  clock t' = clock s' -> rs t' = rs s' -> ps t' = ps s' -> strat t' = strat s' ->
  worker t' = worker s' -> rep t' = rep s' ->
  pend t' = map (ren f) (pend s') -> created t' = map (ren f) (created s') ->
  (forall a, In a (dom s') -> In a (dom s)) ->
  nid s <= nid s' -> nid t <= nid t' ->
  CoreSim f s' t'.
Proof.
  intros [A1 A2 A3 A4 A5 A6 A7 A8 Lo Hi Mo] Hc Hr Hp Hs Hw Hre Pp Pc Hd Hn Hn'. constructor; auto.
  - intros a Ha. specialize (Lo a (Hd a Ha)). lia.
  - intros a Ha. specialize (Hi a (Hd a Ha)). lia.
Qed.

(* the renaming extended by a fresh pair of ids *)
Definition ext (f : Z -> Z) (a b : Z) : Z -> Z := fun x => if x =? a then b else f x.

Lemma ext_new f a b : ext f a b a = b.
Proof. unfold ext. rewrite Z.eqb_refl. reflexivity. Qed.

Lemma ext_old f a b x : x <> a -> ext f a b x = f x.
Proof. unfold ext. intros H. destruct (Z.eqb_spec x a); [contradiction|reflexivity]. Qed.

Lemma ext_map f s t l :
  CoreSim f s t -> (forall x, In x l -> In (ev_id x) (dom s)) ->
  map (ren (ext f (nid s) (nid t))) l = map (ren f) l.
Proof.
  intros C H. apply map_ren_ext. intros x Hx. apply ext_old.
  pose proof (cs_lo _ _ _ C _ (H x Hx)). lia.
Qed.

Lemma ext_ordpres f s t a :
  CoreSim f s t -> In a (dom s) -> OrdPres (ext f (nid s) (nid t)) (nid s) a.
Proof.
  intros C Ha. pose proof (cs_lo _ _ _ C _ Ha). pose proof (cs_hi _ _ _ C _ Ha).
  split; intros; rewrite ext_new, ext_old by lia; lia.
Qed.

Lemma ext_mono f s t a b :
  CoreSim f s t -> (a = nid s \/ In a (dom s)) -> (b = nid s \/ In b (dom s)) -> a < b ->
  ext f (nid s) (nid t) a < ext f (nid s) (nid t) b.
Proof.
  intros C Ha Hb L.
  destruct Ha as [->|Ha], Hb as [->|Hb].
  - lia.
  - pose proof (cs_lo _ _ _ C _ Hb). lia.
  - pose proof (cs_lo _ _ _ C _ Ha). pose proof (cs_hi _ _ _ C _ Ha).
    rewrite ext_new, ext_old by lia. lia.
  - pose proof (cs_lo _ _ _ C _ Ha). pose proof (cs_lo _ _ _ C _ Hb).
    rewrite !ext_old by lia. apply (cs_mono _ _ _ C); auto.
Qed.

(* inserting a fresh event (id = the counter) into the pending set, with or
   without recording it among the created ones *)
Lemma CoreSim_insert f s t tm prio h k (rec : bool) :
  CoreSim f s t ->
  let e := mkEv tm prio (nid s) h k in
  let e' := mkEv tm prio (nid t) h k in
  let upd := fun (e : ev) (s : sim) =>
    let s1 := set_nid (nid s + 1) (set_pend (ins e (pend s)) s) in
    if rec then set_created (created s ++ [e]) s1 else s1 in
  CoreSim (ext f (nid s) (nid t)) (upd e s) (upd e' t).
Proof.
  intros C e e' upd. set (g := ext f (nid s) (nid t)).
  assert (Ee : e' = ren g e). { unfold e', e, ren; cbn. unfold g. rewrite ext_new. reflexivity. }
  assert (Ep : ins e' (pend t) = map (ren g) (ins e (pend s))).
  { rewrite Ee, (cs_pend _ _ _ C), <- (ext_map f s t (pend s) C) by (intros; apply dom_pend; auto).
    fold g. apply ins_ren. intros x Hx. cbn [ev_id e]. apply ext_ordpres; auto. apply dom_pend; auto. }
  assert (Ec : created t = map (ren g) (created s)).
  { rewrite (cs_created _ _ _ C), <- (ext_map f s t (created s) C) by (intros; apply dom_created; auto).
    reflexivity. }
  assert (D : forall a, In a (dom (upd e s)) -> a = nid s \/ In a (dom s)).
  { intros a Ha. unfold upd, dom in *. destruct rec; ssimpl.
    - rewrite in_app_iff in Ha. destruct Ha as [Ha|Ha].
      + apply in_eids_inv in Ha. destruct Ha as [x [Hx <-]]. apply ins_In in Hx.
        destruct Hx as [->|Hx]; [left; reflexivity|right]. apply in_or_app; left; apply in_eids; auto.
      + unfold eids in Ha. rewrite map_app, in_app_iff in Ha. destruct Ha as [Ha|[<-|[]]].
        * right. apply in_or_app; right; auto.
        * left; reflexivity.
    - rewrite in_app_iff in Ha. destruct Ha as [Ha|Ha].
      + apply in_eids_inv in Ha. destruct Ha as [x [Hx <-]]. apply ins_In in Hx.
        destruct Hx as [->|Hx]; [left; reflexivity|right]. apply in_or_app; left; apply in_eids; auto.
      + right. apply in_or_app; right; auto. }
  assert (N1 : nid (upd e s) = nid s + 1) by (unfold upd; destruct rec; reflexivity).
  assert (N2 : nid (upd e' t) = nid t + 1) by (unfold upd; destruct rec; reflexivity).
  constructor.
  - unfold upd; destruct rec; ssimpl; apply (cs_clock _ _ _ C).
  - unfold upd; destruct rec; ssimpl; apply (cs_rs _ _ _ C).
  - unfold upd; destruct rec; ssimpl; apply (cs_ps _ _ _ C).
  - unfold upd; destruct rec; ssimpl; apply (cs_strat _ _ _ C).
  - unfold upd; destruct rec; ssimpl; apply (cs_worker _ _ _ C).
  - unfold upd; destruct rec; ssimpl; apply (cs_rep _ _ _ C).
  - unfold upd; destruct rec; ssimpl; exact Ep.
  - unfold upd; destruct rec; ssimpl; [|exact Ec].
    rewrite map_app, Ec, Ee. reflexivity.
  - intros a Ha. rewrite N1. destruct (D a Ha) as [->|H]; [lia|].
    pose proof (cs_lo _ _ _ C _ H). lia.
  - intros a Ha. rewrite N2. destruct (D a Ha) as [->|H].
    + unfold g. rewrite ext_new. lia.
    + pose proof (cs_lo _ _ _ C _ H). pose proof (cs_hi _ _ _ C _ H).
      unfold g. rewrite ext_old by lia. lia.
  - intros a b Ha Hb L. apply ext_mono; auto.
Qed.

Lemma logs_of_core s s' :
  trace s' = trace s -> cancelled s' = cancelled s -> outs s' = outs s -> ntfs s' = ntfs s ->
  obs s' = obs s -> flag s' = flag s -> logs_of s' = logs_of s.
Proof. unfold logs_of, etrace, ecanc. intros -> -> -> -> -> ->. reflexivity. Qed.

Lemma add_event_idsim s t tm prio h :
  IdSim bs bt s t -> IdSim bs bt (add_event tm prio (HUser h) s) (add_event tm prio (HUser h) t).
Proof.
  intros [[f C] L]. split.
  - exists (ext f (nid s) (nid t)).
    pose proof (CoreSim_insert f s t tm prio (HUser h) (length (created s)) true C) as H.
    cbv zeta in H. unfold add_event.
    replace (length (created t)) with (length (created s))
      by (rewrite (cs_created _ _ _ C), map_length; reflexivity).
    exact H.
  - eapply LogsRel_same; eauto.
Qed.

Lemma sched_time_sim f s t m : CoreSim f s t -> sched_time t m = sched_time s m.
Proof. intros C. apply sched_time_clock. apply (cs_clock _ _ _ C). Qed.

Ltac core_same C := eapply CoreSim_same; [exact C|..]; ssimpl; auto;
  try apply (cs_rs _ _ _ C); try apply (cs_ps _ _ _ C); try apply (cs_worker _ _ _ C); try apply (cs_rep _ _ _ C).

Lemma out_idsim s t o : IdSim bs bt s t -> IdSim bs bt (out o s) (out o t).
Proof.
  intros [[f C] L]. split.
  - exists f. core_same C.
  - eapply (LogsRel_push _ _ _ _ _ _ (LOu o)); eauto.
Qed.

Lemma emit_idsim s t n : IdSim bs bt s t -> IdSim bs bt (emit n s) (emit n t).
Proof.
  intros [[f C] L]. split.
  - exists f. core_same C.
  - eapply (LogsRel_push _ _ _ _ _ _ (LNt n)); eauto.
Qed.

Lemma raise_flag_idsim s t : IdSim bs bt s t -> IdSim bs bt (raise_flag s) (raise_flag t).
Proof.
  intros [[f C] L]. split.
  - exists f. core_same C.
  - eapply (LogsRel_push _ _ _ _ _ _ LFl); eauto.
Qed.

Lemma set_obs_idsim s t o :
  IdSim bs bt s t -> IdSim bs bt (set_obs (o :: obs s) s) (set_obs (o :: obs t) t).
Proof.
  intros [[f C] L]. split.
  - exists f. core_same C.
  - eapply (LogsRel_push _ _ _ _ _ _ (LOb o)); eauto.
Qed.

Lemma set_rs_idsim s t v : IdSim bs bt s t -> IdSim bs bt (set_rs v s) (set_rs v t).
Proof.
  intros [[f C] L]. split.
  - exists f. core_same C.
  - eapply LogsRel_same; eauto.
Qed.

Lemma set_ps_idsim s t v : IdSim bs bt s t -> IdSim bs bt (set_ps v s) (set_ps v t).
Proof.
  intros [[f C] L]. split.
  - exists f. core_same C.
  - eapply LogsRel_same; eauto.
Qed.

Lemma set_worker_idsim s t v : IdSim bs bt s t -> IdSim bs bt (set_worker v s) (set_worker v t).
Proof.
  intros [[f C] L]. split.
  - exists f. core_same C.
  - eapply LogsRel_same; eauto.
Qed.

Lemma set_clock_idsim s t v : IdSim bs bt s t -> IdSim bs bt (set_clock v s) (set_clock v t).
Proof.
  intros [[f C] L]. split.
  - exists f. destruct C. constructor; ssimpl; auto.
  - eapply LogsRel_same; eauto.
Qed.

Lemma set_rep_idsim s t v : IdSim bs bt s t -> IdSim bs bt (set_rep v s) (set_rep v t).
Proof.
  intros [[f C] L]. split.
  - exists f. destruct C. constructor; ssimpl; auto.
  - eapply LogsRel_same; eauto.
Qed.

Lemma set_bound_idsim s t v w : IdSim bs bt s t -> IdSim bs bt (set_bound v s) (set_bound w t).
Proof.
  intros [[f C] L]. split.
  - exists f. core_same C.
  - eapply LogsRel_same; eauto.
Qed.

Lemma set_incl_idsim s t v w : IdSim bs bt s t -> IdSim bs bt (set_incl v s) (set_incl w t).
Proof.
  intros [[f C] L]. split.
  - exists f. core_same C.
  - eapply LogsRel_same; eauto.
Qed.

(* facts shared by related states *)
Lemma idsim_clock s t : IdSim bs bt s t -> clock t = clock s.
Proof. intros [[f C] _]. apply (cs_clock _ _ _ C). Qed.
Lemma idsim_rs s t : IdSim bs bt s t -> rs t = rs s.
Proof. intros [[f C] _]. apply (cs_rs _ _ _ C). Qed.
Lemma idsim_ps s t : IdSim bs bt s t -> ps t = ps s.
Proof. intros [[f C] _]. apply (cs_ps _ _ _ C). Qed.
Lemma idsim_strat s t : IdSim bs bt s t -> strat t = strat s.
Proof. intros [[f C] _]. apply (cs_strat _ _ _ C). Qed.
Lemma idsim_worker s t : IdSim bs bt s t -> worker t = worker s.
Proof. intros [[f C] _]. apply (cs_worker _ _ _ C). Qed.
Lemma idsim_rep s t : IdSim bs bt s t -> rep t = rep s.
Proof. intros [[f C] _]. apply (cs_rep _ _ _ C). Qed.
Lemma idsim_running s t : IdSim bs bt s t -> running t = running s.
Proof. intros H. unfold running. rewrite (idsim_rs _ _ H). reflexivity. Qed.
Lemma idsim_end_time s t : IdSim bs bt s t -> end_time t = end_time s.
Proof. intros H. unfold end_time. rewrite (idsim_rep _ _ H). reflexivity. Qed.
Lemma idsim_npend s t : IdSim bs bt s t -> length (pend t) = length (pend s).
Proof. intros [[f C] _]. rewrite (cs_pend _ _ _ C), map_length. reflexivity. Qed.

Lemma do_sched_idsim s t m prio h :
  IdSim bs bt s t -> IdSim bs bt (do_sched s m prio h) (do_sched t m prio h).
Proof.
  intros H. unfold do_sched.
  destruct H as [[f C] L]. rewrite (sched_time_sim f s t m C).
  destruct (sched_time s m).
  - apply out_idsim, add_event_idsim. split; eauto.
  - apply out_idsim. split; eauto.
Qed.

Lemma do_cancel_idsim s t k :
  IdSim bs bt s t -> IdSim bs bt (do_cancel s k) (do_cancel t k).
Proof.
  intros [[f C] L]. unfold do_cancel.
  rewrite (cs_created _ _ _ C), nth_error_map.
  destruct (nth_error (created s) k) as [e|] eqn:E; cbn [option_map]; [|split; eauto].
  assert (He : In (ev_id e) (dom s)) by (apply dom_created; eapply nth_error_In; eauto).
  assert (O : forall x, In x (pend s) -> OrdPres f (ev_id e) (ev_id x)).
  { intros x Hx. eapply CoreSim_ordpres; eauto. apply dom_pend; auto. }
  rewrite (cs_pend _ _ _ C), ev_mem_ren by exact O.
  destruct (ev_mem e (pend s)); [|split; eauto].
  rewrite rem_ren by exact O. split.
  - exists f. eapply CoreSim_shrink; [exact C|..]; ssimpl; try lia;
      try (apply (cs_clock _ _ _ C) || apply (cs_rs _ _ _ C) || apply (cs_ps _ _ _ C)
           || apply (cs_strat _ _ _ C) || apply (cs_worker _ _ _ C) || apply (cs_rep _ _ _ C)); auto.
    + apply (cs_created _ _ _ C).
    + intros a. unfold dom; ssimpl. rewrite !in_app_iff. intros [Ha|Ha]; [left|right; auto].
      apply in_eids_inv in Ha. destruct Ha as [x [Hx <-]]. apply in_eids. eapply rem_incl; eauto.
  - eapply (LogsRel_push _ _ _ _ _ _ (LCn (er e))); eauto.
Qed.

Lemma inner_cmd_idsim md s t c :
  IdSim bs bt s t -> IdSim bs bt (inner_cmd md s c) (inner_cmd md t c).
Proof.
  intros H. unfold inner_cmd. rewrite (idsim_running _ _ H).
  destruct md; try (apply raise_flag_idsim; auto; fail);
  destruct c; destruct (running s);
    auto using raise_flag_idsim, out_idsim, set_rs_idsim, emit_idsim.
Qed.

Lemma exec_action_idsim md s t a :
  IdSim bs bt s t ->
  IdSim bs bt (fst (exec_action md s a)) (fst (exec_action md t a))
  /\ snd (exec_action md t a) = snd (exec_action md s a).
Proof.
  intros H. destruct a; cbn [exec_action fst snd]; split; auto
    using do_sched_idsim, do_cancel_idsim, inner_cmd_idsim.
  rewrite (idsim_clock _ _ H). apply set_obs_idsim; auto.
Qed.

Lemma exec_actions_idsim md acts : forall s t,
  IdSim bs bt s t ->
  IdSim bs bt (fst (exec_actions md s acts)) (fst (exec_actions md t acts))
  /\ snd (exec_actions md t acts) = snd (exec_actions md s acts).
Proof.
  induction acts as [|a r IH]; intros s t H; cbn [exec_actions]; [split; auto|].
  destruct (exec_action_idsim md s t a H) as [H1 E1].
  destruct (exec_action md s a) as [s1 f1], (exec_action md t a) as [t1 f2]. cbn [fst snd] in *. subst f2.
  destruct f1; cbn [fst snd]; auto.
Qed.

Lemma set_trace_idsim s t e f :
  CoreSim f s t -> LogsRel bs bt s t -> In e (pend s) \/ True ->
  IdSim bs bt (set_trace ((e, clock s) :: trace s) s) (set_trace ((ren f e, clock t) :: trace t) t).
Proof.
  intros C L _. split.
  - exists f. core_same C.
  - eapply (LogsRel_push _ _ _ _ _ _ (LTr (er e, clock s))); eauto.
    unfold logs_of, etrace; ssimpl. cbn [map fst snd]. rewrite er_ren, (cs_clock _ _ _ C). reflexivity.
Qed.

Lemma exec_event_idsim md p s t e f :
  CoreSim f s t -> LogsRel bs bt s t ->
  IdSim bs bt (fst (exec_event md p s e)) (fst (exec_event md p t (ren f e)))
  /\ snd (exec_event md p t (ren f e)) = snd (exec_event md p s e).
Proof.
  intros C L. unfold exec_event. cbn [ev_h ren].
  pose proof (set_trace_idsim s t e f C L (or_intror I)) as H.
  destruct (ev_h e).
  - cbn [fst snd]. split; auto.
    set (s1 := set_trace ((e, clock s) :: trace s) s) in *.
    set (t1 := set_trace ((ren f e, clock t) :: trace t) t) in *.
    rewrite (idsim_clock _ _ H).
    assert (H1 : IdSim bs bt (emit (NWarmup (clock s1)) s1) (emit (NWarmup (clock s1)) t1))
      by auto using emit_idsim.
    exact (set_obs_idsim _ _ (ObsWarm (clock s1)) H1).
  - apply exec_actions_idsim. exact H.
Qed.

(* removing the first pending event *)
Lemma pop_coresim f s t e r :
  CoreSim f s t -> pend s = e :: r ->
  pend t = ren f e :: map (ren f) r /\ CoreSim f (set_pend r s) (set_pend (map (ren f) r) t).
Proof.
  intros C E. split; [rewrite (cs_pend _ _ _ C), E; reflexivity|].
  eapply CoreSim_shrink; [exact C|..]; ssimpl; try lia;
    try (apply (cs_clock _ _ _ C) || apply (cs_rs _ _ _ C) || apply (cs_ps _ _ _ C)
         || apply (cs_strat _ _ _ C) || apply (cs_worker _ _ _ C) || apply (cs_rep _ _ _ C)); auto.
  - apply (cs_created _ _ _ C).
  - intros a. unfold dom; ssimpl. rewrite E. cbn [eids map]. rewrite !in_app_iff. intros [Ha|Ha]; auto.
    left. right. exact Ha.
Qed.

Lemma take_event_idsim p s t e r f :
  CoreSim f s t -> LogsRel bs bt s t -> pend s = e :: r ->
  IdSim bs bt (take_event p s e r) (take_event p t (ren f e) (map (ren f) r)).
Proof.
  intros C L E. destruct (pop_coresim f s t e r C E) as [_ C0].
  unfold take_event. cbn [ev_time ren].
  set (s0 := set_pend r s). set (t0 := set_pend (map (ren f) r) t).
  assert (L0 : LogsRel bs bt s0 t0) by (eapply LogsRel_same; eauto).
  assert (H0 : IdSim bs bt s0 t0) by (split; eauto).
  replace (clock t0) with (clock s0) by (symmetry; apply (cs_clock _ _ _ C0)).
  set (s1 := if ev_time e =? clock s0 then s0 else emit (NTime (ev_time e)) s0).
  set (t1 := if ev_time e =? clock s0 then t0 else emit (NTime (ev_time e)) t0).
  assert (H1 : IdSim bs bt s1 t1) by (unfold s1, t1; destruct (ev_time e =? clock s0); auto using emit_idsim).
  pose proof (set_clock_idsim _ _ (ev_time e) H1) as H2.
  destruct H2 as [[g C2] L2].
  (* the renaming may be taken to be f again: no id was created *)
  assert (C2' : CoreSim f (set_clock (ev_time e) s1) (set_clock (ev_time e) t1)).
  { unfold s1, t1. destruct (ev_time e =? clock s0).
    - destruct C0. constructor; ssimpl; auto.
    - destruct C0. constructor; ssimpl; auto. }
  destruct (exec_event_idsim InRun p _ _ e f C2' L2) as [H3 E3].
  destruct (exec_event InRun p (set_clock (ev_time e) s1) e) as [s3 fl].
  destruct (exec_event InRun p (set_clock (ev_time e) t1) (ren f e)) as [t3 fl'].
  cbn [fst snd] in *. subst fl'.
  rewrite (idsim_strat _ _ H3).
  destruct fl, (strat s3); auto using set_rs_idsim.
Qed.

Lemma step_event_idsim p s t e r f :
  CoreSim f s t -> LogsRel bs bt s t -> pend s = e :: r ->
  IdSim bs bt (step_event p s e r) (step_event p t (ren f e) (map (ren f) r)).
Proof.
  intros C L E. destruct (pop_coresim f s t e r C E) as [_ C0].
  unfold step_event. cbn [ev_time ren].
  set (s0 := set_pend r s). set (t0 := set_pend (map (ren f) r) t).
  assert (L0 : LogsRel bs bt s0 t0) by (eapply LogsRel_same; eauto).
  assert (C1 : CoreSim f (set_clock (ev_time e) (emit (NTime (ev_time e)) s0))
                         (set_clock (ev_time e) (emit (NTime (ev_time e)) t0))).
  { destruct C0. constructor; ssimpl; auto. }
  assert (L1 : LogsRel bs bt (set_clock (ev_time e) (emit (NTime (ev_time e)) s0))
                             (set_clock (ev_time e) (emit (NTime (ev_time e)) t0))).
  { eapply (LogsRel_push _ _ _ _ _ _ (LNt (NTime (ev_time e)))); eauto. }
  apply (exec_event_idsim InStep p _ _ e f C1 L1).
Qed.

Lemma stop_at_bound_idsim s t :
  IdSim bs bt s t -> SameBound s t -> IdSim bs bt (stop_at_bound s) (stop_at_bound t).
Proof.
  intros H [B I]. unfold stop_at_bound. rewrite B.
  assert (E : end_time (set_clock (bound s) t) = end_time (set_clock (bound s) s)).
  { unfold end_time; ssimpl. rewrite (idsim_rep _ _ H). reflexivity. }
  unfold end_time in *. ssimpl. rewrite (idsim_rep _ _ H).
  apply set_rs_idsim.
  destruct (bound s >=? match rep s with Some r => r_end r | None => 0 end);
    auto using set_ps_idsim, set_clock_idsim.
Qed.

Lemma take_event_bound p s e r : pend s = e :: r -> bound (take_event p s e r) = bound s /\ incl (take_event p s e r) = incl s.
Proof.
  intros E. destruct (took_bound _ _ _ _ (take_event_took p s e r E)) as (A & B & _). auto.
Qed.

Lemma run_loop_idsim p fuel : forall s t,
  IdSim bs bt s t -> SameBound s t ->
  IdSim bs bt (run_loop fuel p s) (run_loop fuel p t)
  /\ SameBound (run_loop fuel p s) (run_loop fuel p t).
Proof.
  induction fuel as [|n IH]; intros s t H SB; cbn [run_loop]; rewrite (idsim_running _ _ H).
  - destruct (running s); split; auto using raise_flag_idsim.
  - destruct (running s); [|split; auto].
    destruct H as [[f C] L].
    destruct (pend s) as [|e r] eqn:E.
    + rewrite (cs_pend _ _ _ C), E. cbn [map]. split; [apply stop_at_bound_idsim; auto; split; eauto|].
      destruct SB as [B I]. unfold SameBound, stop_at_bound. rewrite B.
      destruct (bound s >=? end_time (set_clock (bound s) s)), (bound s >=? end_time (set_clock (bound s) t)); ssimpl; auto.
    + destruct (pop_coresim f s t e r C E) as [Et _]. rewrite Et.
      assert (Bq : beyond t (ren f e) = beyond s e).
      { unfold beyond. destruct SB as [-> ->]. reflexivity. }
      rewrite Bq. destruct (beyond s e).
      * split; [apply stop_at_bound_idsim; auto; split; eauto|].
        destruct SB as [B I]. unfold SameBound, stop_at_bound. rewrite B.
        destruct (bound s >=? end_time (set_clock (bound s) s)), (bound s >=? end_time (set_clock (bound s) t)); ssimpl; auto.
      * apply IH.
        -- apply take_event_idsim; auto.
        -- destruct (take_event_bound p s e r E) as [A1 A2].
           assert (Et' : pend t = ren f e :: map (ren f) r) by exact Et.
           destruct (take_event_bound p t _ _ Et') as [B1 B2].
           destruct SB. unfold SameBound. congruence.
Qed.

Lemma worker_ending_idsim s t : IdSim bs bt s t -> IdSim bs bt (worker_ending s) (worker_ending t).
Proof.
  intros H. unfold worker_ending. rewrite (idsim_ps _ _ H). destruct (ps s); auto.
  rewrite (idsim_clock _ _ H).
  apply set_worker_idsim.
  assert (H1 : IdSim bs bt (emit (NEndRepl (clock s)) (set_rs REnded (set_ps PEnded s)))
                           (emit (NEndRepl (clock s)) (set_rs REnded (set_ps PEnded t))))
    by auto using emit_idsim, set_rs_idsim, set_ps_idsim.
  apply (set_obs_idsim _ _ (ObsEnd (clock s)) H1).
Qed.

Lemma worker_run_idsim fuel p s t :
  IdSim bs bt s t -> SameBound s t -> IdSim bs bt (worker_run fuel p s) (worker_run fuel p t).
Proof.
  intros H SB. unfold worker_run. rewrite (idsim_worker _ _ H). destruct (worker s); auto.
  apply worker_ending_idsim. rewrite (idsim_ps _ _ H). destruct (ps s); auto;
  match goal with |- IdSim _ _ (set_rs RStopped (emit (NStop (clock ?b)) ?b)) _ =>
    idtac end;
  rewrite (idsim_clock _ _ H);
  (assert (Ha : IdSim bs bt (set_rs RStarted (emit (NStart (clock s)) s)) (set_rs RStarted (emit (NStart (clock s)) t)))
     by auto using set_rs_idsim, emit_idsim);
  (assert (Sa : SameBound (set_rs RStarted (emit (NStart (clock s)) s)) (set_rs RStarted (emit (NStart (clock s)) t)))
     by exact SB);
  destruct (run_loop_idsim p fuel _ _ Ha Sa) as [Hb _];
  rewrite (idsim_clock _ _ Hb); auto using set_rs_idsim, emit_idsim.
Qed.

Lemma start_checks_idsim s t : IdSim bs bt s t -> start_checks t = start_checks s.
Proof.
  intros H. unfold start_checks.
  rewrite (idsim_running _ _ H), (idsim_rep _ _ H), (idsim_rs _ _ H), (idsim_ps _ _ H),
          (idsim_clock _ _ H), (idsim_end_time _ _ H). reflexivity.
Qed.

Lemma step_checks_idsim s t : IdSim bs bt s t -> step_checks t = step_checks s.
Proof.
  intros H. unfold step_checks.
  rewrite (idsim_running _ _ H), (idsim_rs _ _ H), (idsim_ps _ _ H),
          (idsim_clock _ _ H), (idsim_end_time _ _ H). reflexivity.
Qed.

Lemma do_start_idsim fuel p s t b i :
  IdSim bs bt s t ->
  IdSim bs bt (fst (do_start fuel p s b i)) (fst (do_start fuel p t b i))
  /\ snd (do_start fuel p t b i) = snd (do_start fuel p s b i).
Proof.
  intros H. unfold do_start. rewrite (start_checks_idsim _ _ H).
  destruct (start_checks s); [|split; auto].
  destruct b as [bz|]; [|split; auto].
  rewrite (idsim_clock _ _ H). destruct (bz <? clock s); [split; auto|].
  rewrite (idsim_end_time _ _ H).
  destruct (if bz >? end_time s then (end_time s, true) else (bz, i)) as [bz' i'].
  cbn [fst snd]. split; auto.
  set (s1 := set_rs RStarting (set_incl i' (set_bound bz' s))).
  set (t1 := set_rs RStarting (set_incl i' (set_bound bz' t))).
  assert (H1 : IdSim bs bt s1 t1) by (unfold s1, t1; auto using set_rs_idsim, set_incl_idsim, set_bound_idsim).
  assert (S1 : SameBound s1 t1) by (split; reflexivity).
  rewrite (idsim_ps _ _ H1), (idsim_clock _ _ H1).
  apply worker_run_idsim.
  - apply emit_idsim. destruct (ps s1); auto using set_ps_idsim, emit_idsim.
  - destruct (ps s1); exact S1.
Qed.

Lemma do_step_idsim p s t :
  IdSim bs bt s t ->
  IdSim bs bt (fst (do_step p s)) (fst (do_step p t)) /\ snd (do_step p t) = snd (do_step p s).
Proof.
  intros H. unfold do_step. rewrite (step_checks_idsim _ _ H).
  destruct (step_checks s); [|split; auto]. cbn [fst snd]. split; auto.
  rewrite (idsim_ps _ _ H), (idsim_clock _ _ H).
  set (s1 := match ps s with PInit => set_ps PStarted (emit (NStartRepl (clock s)) s) | _ => s end).
  set (t1 := match ps s with PInit => set_ps PStarted (emit (NStartRepl (clock s)) t) | _ => t end).
  assert (H1 : IdSim bs bt s1 t1) by (unfold s1, t1; destruct (ps s); auto using set_ps_idsim, emit_idsim).
  rewrite (idsim_clock _ _ H1).
  set (s2 := emit (NStart (clock s1)) (set_rs RStarted s1)).
  set (t2 := emit (NStart (clock s1)) (set_rs RStarted t1)).
  assert (H2 : IdSim bs bt s2 t2) by (unfold s2, t2; auto using set_rs_idsim, emit_idsim).
  assert (H3 : IdSim bs bt
      (match pend s2 with [] => s2 | e :: r => if ev_time e >? end_time s2 then s2 else step_event p s2 e r end)
      (match pend t2 with [] => t2 | e :: r => if ev_time e >? end_time t2 then t2 else step_event p t2 e r end)).
  { destruct H2 as [[f C] L]. destruct (pend s2) as [|e r] eqn:E.
    - rewrite (cs_pend _ _ _ C), E. cbn [map]. split; eauto.
    - destruct (pop_coresim f s2 t2 e r C E) as [Et _]. rewrite Et.
      assert (EE : end_time t2 = end_time s2) by (unfold end_time; rewrite (cs_rep _ _ _ C); reflexivity).
      rewrite EE. cbn [ev_time ren]. destruct (ev_time e >? end_time s2); [split; eauto|].
      apply step_event_idsim; auto. }
  rewrite (idsim_clock _ _ H3). auto using set_rs_idsim, emit_idsim.
Qed.

Lemma do_cleanup_idsim s t : IdSim bs bt s t -> IdSim bs bt (do_cleanup s) (do_cleanup t).
Proof. intros H. unfold do_cleanup. auto using set_ps_idsim, set_rs_idsim, set_worker_idsim. Qed.

Lemma clear_idsim s t :
  IdSim bs bt s t -> IdSim bs bt (set_pend [] s) (set_pend [] t).
Proof.
  intros [[f C] L]. split; [|eapply LogsRel_same; eauto].
  exists f. eapply CoreSim_shrink; [exact C|..]; ssimpl; try lia;
    try (apply (cs_clock _ _ _ C) || apply (cs_rs _ _ _ C) || apply (cs_ps _ _ _ C)
         || apply (cs_strat _ _ _ C) || apply (cs_worker _ _ _ C) || apply (cs_rep _ _ _ C)); auto.
  - apply (cs_created _ _ _ C).
  - intros a. unfold dom; ssimpl. cbn [eids map app]. intros Ha. apply in_or_app; right; exact Ha.
Qed.

Lemma forget_created_idsim s t :
  IdSim bs bt s t -> IdSim bs bt (set_created [] s) (set_created [] t).
Proof.
  intros [[f C] L]. split; [|eapply LogsRel_same; eauto].
  exists f. eapply CoreSim_shrink; [exact C|..]; ssimpl; try lia;
    try (apply (cs_clock _ _ _ C) || apply (cs_rs _ _ _ C) || apply (cs_ps _ _ _ C)
         || apply (cs_strat _ _ _ C) || apply (cs_worker _ _ _ C) || apply (cs_rep _ _ _ C)); auto.
  - apply (cs_pend _ _ _ C).
  - intros a. unfold dom; ssimpl. cbn [eids map]. rewrite app_nil_r. intros Ha. apply in_or_app; left; exact Ha.
Qed.

(* scheduling the warm-up event *)
Lemma warm_insert_idsim s t tm :
  IdSim bs bt s t ->
  IdSim bs bt (set_nid (nid s + 1) (set_pend (ins (mkEv tm 10 (nid s) HWarm 0) (pend s)) s))
              (set_nid (nid t + 1) (set_pend (ins (mkEv tm 10 (nid t) HWarm 0) (pend t)) t)).
Proof.
  intros [[f C] L]. split; [|eapply LogsRel_same; eauto].
  exists (ext f (nid s) (nid t)).
  exact (CoreSim_insert f s t tm 10 HWarm 0%nat false C).
Qed.

(* the part of initialize after the decision to accept it *)
Definition init_body (p : program) (s : sim) (r : repl) : sim :=
  let s0 := set_pend [] s in
  let s1 := match worker s0 with WNone => s0 | _ => do_cleanup s0 end in
  let s2 := set_created [] (set_clock (r_start r) (set_rep (Some r) (set_worker WAlive s1))) in
  let '(s3, failed) := exec_actions InConstruct s2 (body p 0) in
  let s4 := if failed then raise_flag s3 else s3 in
  let s5 := set_ps PInit (set_rs RInit s4) in
  if r_warm r <? clock s5 then raise_flag s5
  else let e := mkEv (r_warm r) 10 (nid s5) HWarm 0 in
       set_nid (nid s5 + 1) (set_pend (ins e (pend s5)) s5).

Lemma do_init_eq p s r :
  do_init p s r = if running s then (s, ResRefused) else (init_body p s r, ResOk).
Proof.
  unfold do_init, init_body. destruct (running s); auto.
  destruct (exec_actions InConstruct _ (body p 0)) as [s3 failed]. reflexivity.
Qed.

Lemma init_tail_idsim p r s2 t2 :
  IdSim bs bt s2 t2 ->
  IdSim bs bt
    (let '(s3, failed) := exec_actions InConstruct s2 (body p 0) in
     let s4 := if failed then raise_flag s3 else s3 in
     let s5 := set_ps PInit (set_rs RInit s4) in
     if r_warm r <? clock s5 then raise_flag s5
     else let e := mkEv (r_warm r) 10 (nid s5) HWarm 0 in
          set_nid (nid s5 + 1) (set_pend (ins e (pend s5)) s5))
    (let '(s3, failed) := exec_actions InConstruct t2 (body p 0) in
     let s4 := if failed then raise_flag s3 else s3 in
     let s5 := set_ps PInit (set_rs RInit s4) in
     if r_warm r <? clock s5 then raise_flag s5
     else let e := mkEv (r_warm r) 10 (nid s5) HWarm 0 in
          set_nid (nid s5 + 1) (set_pend (ins e (pend s5)) s5)).
Proof.
  intros H2.
  destruct (exec_actions_idsim InConstruct (body p 0) _ _ H2) as [H3 E3].
  destruct (exec_actions InConstruct s2 (body p 0)) as [s3 fl].
  destruct (exec_actions InConstruct t2 (body p 0)) as [t3 fl']. cbn [fst snd] in *. subst fl'.
  set (s4 := if fl then raise_flag s3 else s3). set (t4 := if fl then raise_flag t3 else t3).
  assert (H4 : IdSim bs bt s4 t4) by (unfold s4, t4; destruct fl; auto using raise_flag_idsim).
  assert (H5 : IdSim bs bt (set_ps PInit (set_rs RInit s4)) (set_ps PInit (set_rs RInit t4)))
    by auto using set_ps_idsim, set_rs_idsim.
  cbv zeta. rewrite (idsim_clock _ _ H5).
  destruct (r_warm r <? clock (set_ps PInit (set_rs RInit s4))); auto using raise_flag_idsim.
  apply warm_insert_idsim; auto.
Qed.

Lemma init_body_idsim p r s t :
  IdSim bs bt s t -> IdSim bs bt (init_body p s r) (init_body p t r).
Proof.
  intros H. unfold init_body.
  apply init_tail_idsim.
  apply forget_created_idsim, set_clock_idsim, set_rep_idsim, set_worker_idsim.
  pose proof (clear_idsim _ _ H) as H0.
  rewrite (idsim_worker _ _ H0). destruct (worker (set_pend [] s)); auto using do_cleanup_idsim.
Qed.

Lemma do_init_idsim p r s t :
  IdSim bs bt s t ->
  IdSim bs bt (fst (do_init p s r)) (fst (do_init p t r)) /\ snd (do_init p t r) = snd (do_init p s r).
Proof.
  intros H. rewrite !do_init_eq, (idsim_running _ _ H).
  destruct (running s); cbn [fst snd]; split; auto using init_body_idsim.
Qed.

Lemma do_end_repl_idsim fuel p s t :
  IdSim bs bt s t ->
  IdSim bs bt (fst (do_end_repl fuel p s)) (fst (do_end_repl fuel p t))
  /\ snd (do_end_repl fuel p t) = snd (do_end_repl fuel p s).
Proof.
  intros H. unfold do_end_repl. rewrite (idsim_ps _ _ H).
  destruct (ps s); cbn [fst snd]; split; auto.
  rewrite (idsim_clock _ _ H), (idsim_end_time _ _ H).
  set (s1 := if clock s <? end_time s then set_clock (end_time s) s else s).
  set (t1 := if clock s <? end_time s then set_clock (end_time s) t else t).
  assert (H1 : IdSim bs bt s1 t1) by (unfold s1, t1; destruct (clock s <? end_time s); auto using set_clock_idsim).
  set (s2 := set_pend [] (set_ps PEnding s1)). set (t2 := set_pend [] (set_ps PEnding t1)).
  assert (H2 : IdSim bs bt s2 t2) by (unfold s2, t2; auto using clear_idsim, set_ps_idsim).
  (* the replication is ending: the worker does not enter the run loop, the bound is not read *)
  unfold worker_run. rewrite (idsim_worker _ _ H2). destruct (worker s2); auto.
  unfold s2, t2; ssimpl. apply worker_ending_idsim. exact H2.
Qed.

Theorem do_cmd_idsim fuel p c s t :
  IdSim bs bt s t ->
  IdSim bs bt (fst (do_cmd fuel p s c)) (fst (do_cmd fuel p t c))
  /\ snd (do_cmd fuel p t c) = snd (do_cmd fuel p s c).
Proof.
  intros H. destruct c; cbn [do_cmd].
  - apply do_init_idsim; auto.
  - split; auto.
  - rewrite (idsim_rep _ _ H). destruct (rep s); [apply do_start_idsim; auto|split; auto].
  - apply do_step_idsim; auto.
  - rewrite (idsim_running _ _ H). destruct (running s); cbn [fst snd]; split; auto using set_rs_idsim, emit_idsim.
  - apply do_start_idsim; auto.
  - apply do_start_idsim; auto.
  - apply do_end_repl_idsim; auto.
  - cbn [fst snd]. split; auto using do_cleanup_idsim.
Qed.

Lemma snap_idsim s t res : IdSim bs bt s t ->
  mkSnap res (rs t) (ps t) (clock t) (length (pend t)) = mkSnap res (rs s) (ps s) (clock s) (length (pend s)).
Proof.
  intros H. rewrite (idsim_rs _ _ H), (idsim_ps _ _ H), (idsim_clock _ _ H), (idsim_npend _ _ H). reflexivity.
Qed.

Theorem run_cmds_idsim fuel p cs : forall s t,
  IdSim bs bt s t ->
  IdSim bs bt (fst (run_cmds fuel p s cs)) (fst (run_cmds fuel p t cs))
  /\ snd (run_cmds fuel p t cs) = snd (run_cmds fuel p s cs).
Proof.
  induction cs as [|c r IH]; intros s t H; cbn [run_cmds]; [split; auto|].
  destruct (do_cmd_idsim fuel p c s t H) as [H1 E1].
  destruct (do_cmd fuel p s c) as [s1 r1], (do_cmd fuel p t c) as [t1 r2]. cbn [fst snd] in *. subst r2.
  destruct (IH s1 t1 H1) as [H2 E2].
  destruct (run_cmds fuel p s1 r) as [s2 sn], (run_cmds fuel p t1 r) as [t2 sn']. cbn [fst snd] in *.
  split; auto. rewrite E2, (snap_idsim _ _ r1 H1). reflexivity.
Qed.

(* ids consumed elsewhere do not matter *)
Lemma burn_idsim n m s t : IdSim bs bt s t -> IdSim bs bt (burn n s) (burn m t).
Proof.
  intros [[f C] L]. split; [|eapply LogsRel_same; eauto].
  exists f. unfold burn. eapply CoreSim_shrink; [exact C|..]; ssimpl; try lia;
    try (apply (cs_clock _ _ _ C) || apply (cs_rs _ _ _ C) || apply (cs_ps _ _ _ C)
         || apply (cs_strat _ _ _ C) || apply (cs_worker _ _ _ C) || apply (cs_rep _ _ _ C)); auto.
  - apply (cs_pend _ _ _ C).
  - apply (cs_created _ _ _ C).
Qed.

Theorem run_cmds_burn_idsim fuel p cs : forall s t,
  IdSim bs bt s t ->
  IdSim bs bt (fst (run_cmds_burn fuel p s cs)) (fst (run_cmds fuel p t (map snd cs)))
  /\ snd (run_cmds fuel p t (map snd cs)) = snd (run_cmds_burn fuel p s cs).
Proof.
  induction cs as [|[n c] r IH]; intros s t H; cbn [run_cmds_burn run_cmds map snd]; [split; auto|].
  assert (Hb : IdSim bs bt (burn n s) t).
  { pose proof (burn_idsim n 0 s t H) as Q. unfold burn at 2 in Q. cbn [Z.max] in Q.
    replace (set_nid (nid t + 0) t) with t in Q; auto. destruct t; unfold set_nid; cbn. f_equal. lia. }
  destruct (do_cmd_idsim fuel p c _ _ Hb) as [H1 E1].
  destruct (do_cmd fuel p (burn n s) c) as [s1 r1], (do_cmd fuel p t c) as [t1 r2]. cbn [fst snd] in *. subst r2.
  destruct (IH s1 t1 H1) as [H2 E2].
  destruct (run_cmds_burn fuel p s1 r) as [s2 sn], (run_cmds fuel p t1 (map snd r)) as [t2 sn']. cbn [fst snd] in *.
  split; auto. rewrite E2, (snap_idsim _ _ r1 H1). reflexivity.
Qed.

End Prims.
