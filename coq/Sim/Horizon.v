(* C03 -- run horizon: bounded runs, never past the end, resumable, and any
   segmentation of a replication equals the uninterrupted run.

   Method: the executed-event semantics only depends on the "core" of the
   state (pending list, id counter, created / cancelled / executed logs,
   replication) and ignores commands issued from handlers and whatever follows
   a failure in a handler.  Every run command therefore moves the core along
   one canonical sequence  s, next s, next (next s), ...  ([citer]); a state of
   that sequence with nothing left within the horizon is unique. *)
From Coq Require Import ZArith List Bool Lia Sorting.Sorted Sorting.Permutation.
From PV Require Import EventList.Key EventList.KeyProofs Sim.Model Sim.Order.
Import ListNotations.
Local Open Scope Z_scope.

(* ------------------------------------------------------------------ *)
(** * Handler code only sees the core and the clock *)

Lemma sched_time_clock s t m : clock s = clock t -> sched_time s m = sched_time t m.
Proof. intros E. destruct m as [|[d|]|[x|]]; cbn [sched_time]; rewrite ?E; reflexivity. Qed.

Lemma do_sched_core s t m prio h :
  core_eq s t -> clock s = clock t ->
  core_eq (do_sched s m prio h) (do_sched t m prio h)
  /\ clock (do_sched s m prio h) = clock (do_sched t m prio h).
Proof.
  intros (Cp&Cn&Cc&Ct&Cx&Cr) E. unfold do_sched. rewrite (sched_time_clock s t m E).
  destruct (sched_time t m); unfold add_event, core_eq; ssimpl; rewrite ?Cp, ?Cn, ?Cc, ?Ct, ?Cx, ?Cr; auto 10.
Qed.

Lemma do_cancel_core s t k :
  core_eq s t -> clock s = clock t ->
  core_eq (do_cancel s k) (do_cancel t k) /\ clock (do_cancel s k) = clock (do_cancel t k).
Proof.
  intros (Cp&Cn&Cc&Ct&Cx&Cr) E. unfold do_cancel. rewrite Cc, Cp.
  destruct (nth_error (created t) k) as [e|]; [|unfold core_eq; auto 10].
  destruct (ev_mem e (pend t)); unfold core_eq; ssimpl; rewrite ?Cp, ?Cn, ?Cc, ?Ct, ?Cx, ?Cr; auto 10.
Qed.

Lemma LogOnly_core s t : LogOnly s t -> core_eq s t /\ clock s = clock t.
Proof. intros (C&E&_). split; auto. Qed.

Lemma exec_action_core md md' s t a :
  core_eq s t -> clock s = clock t ->
  core_eq (fst (exec_action md s a)) (fst (exec_action md' t a))
  /\ clock (fst (exec_action md s a)) = clock (fst (exec_action md' t a))
  /\ snd (exec_action md s a) = snd (exec_action md' t a).
Proof.
  intros C E. destruct a; cbn [exec_action fst snd].
  - destruct (do_sched_core s t m prio h C E); auto.
  - destruct (do_cancel_core s t k C E); auto.
  - auto.
  - destruct (LogOnly_core _ _ (inner_cmd_logonly md s c)) as [C1 E1].
    destruct (LogOnly_core _ _ (inner_cmd_logonly md' t c)) as [C2 E2].
    split; [|split; [congruence|reflexivity]].
    eapply core_eq_trans; [apply core_eq_sym; exact C1|]. eapply core_eq_trans; [exact C|exact C2].
  - destruct C as (Cp&Cn&Cc&Ct&Cx&Cr). unfold core_eq; ssimpl; auto 10.
Qed.

Lemma exec_actions_core md md' acts : forall s t,
  core_eq s t -> clock s = clock t ->
  core_eq (fst (exec_actions md s acts)) (fst (exec_actions md' t acts))
  /\ clock (fst (exec_actions md s acts)) = clock (fst (exec_actions md' t acts))
  /\ snd (exec_actions md s acts) = snd (exec_actions md' t acts).
Proof.
  induction acts as [|a r IH]; intros s t C E; cbn [exec_actions]; auto.
  destruct (exec_action_core md md' s t a C E) as (C1&E1&F1).
  destruct (exec_action md s a) as [s1 f1], (exec_action md' t a) as [t1 f2]. cbn [fst snd] in *. subst f2.
  destruct f1; cbn [fst snd]; auto.
Qed.

(* the part of a handler body that matters: up to the first failure, without commands *)
Fixpoint core_body (acts : list action) : list action :=
  match acts with
  | [] => []
  | AFail :: _ => []
  | ACmd _ :: r => core_body r
  | a :: r => a :: core_body r
  end.

Lemma exec_actions_core_body md acts : forall s,
  core_eq (fst (exec_actions md s acts)) (fst (exec_actions md s (core_body acts)))
  /\ clock (fst (exec_actions md s acts)) = clock (fst (exec_actions md s (core_body acts))).
Proof.
  induction acts as [|a r IH]; intros s; cbn [core_body exec_actions fst]; [split; [apply core_eq_refl|reflexivity]|].
  destruct a.
  - cbn [exec_actions exec_action]. apply IH.
  - cbn [exec_actions exec_action]. apply IH.
  - cbn [exec_actions exec_action fst]. split; [apply core_eq_refl|reflexivity].
  - cbn [exec_action]. destruct (IH (inner_cmd md s c)) as [C1 E1].
    destruct (LogOnly_core _ _ (inner_cmd_logonly md s c)) as [C0 E0].
    destruct (exec_actions_core md md (core_body r) (inner_cmd md s c) s (core_eq_sym _ _ C0) (eq_sym E0)) as (C2&E2&_).
    split; [eapply core_eq_trans; eauto|congruence].
  - cbn [exec_actions exec_action]. apply IH.
Qed.

Definition prog_equiv (p p' : program) : Prop := forall h, core_body (body p h) = core_body (body p' h).

Lemma prog_equiv_refl p : prog_equiv p p.
Proof. intros h; reflexivity. Qed.

Lemma prog_equiv_sym p p' : prog_equiv p p' -> prog_equiv p' p.
Proof. intros H h; symmetry; apply H. Qed.

Lemma exec_event_core md md' p p' s t e :
  prog_equiv p p' -> core_eq s t -> clock s = clock t ->
  core_eq (fst (exec_event md p s e)) (fst (exec_event md' p' t e))
  /\ clock (fst (exec_event md p s e)) = clock (fst (exec_event md' p' t e)).
Proof.
  intros PE C E. unfold exec_event.
  assert (C1 : core_eq (set_trace ((e, clock s) :: trace s) s) (set_trace ((e, clock t) :: trace t) t)).
  { destruct C as (Cp&Cn&Cc&Ct&Cx&Cr). unfold core_eq; ssimpl. rewrite E, Ct. auto 10. }
  destruct (ev_h e) as [|h].
  - cbn [fst]. split; [|ssimpl; auto].
    destruct C1 as (Cp&Cn&Cc&Ct&Cx&Cr). unfold core_eq in *; ssimpl; auto 10.
  - set (s1 := set_trace ((e, clock s) :: trace s) s) in *.
    set (t1 := set_trace ((e, clock t) :: trace t) t) in *.
    assert (E1 : clock s1 = clock t1) by (unfold s1, t1; ssimpl; auto).
    destruct (exec_actions_core_body md (body p h) s1) as [A1 B1].
    destruct (exec_actions_core_body md' (body p' h) t1) as [A2 B2].
    rewrite <- (PE h) in A2, B2.
    destruct (exec_actions_core md md' (core_body (body p h)) s1 t1 C1 E1) as (A3&B3&_).
    split.
    + eapply core_eq_trans; [exact A1|]. eapply core_eq_trans; [exact A3|]. apply core_eq_sym; exact A2.
    + congruence.
Qed.

(* the two ways of executing the first event agree on the core *)
Inductive taker := TRun | TStep.
Definition take (k : taker) (p : program) (s : sim) (e : ev) (r : list ev) : sim :=
  match k with TRun => take_event p s e r | TStep => step_event p s e r end.

Lemma take_took k p s e r : pend s = e :: r -> Took s e r (take k p s e r).
Proof. destruct k; [apply take_event_took|apply step_event_took]. Qed.

Lemma take_core k k' p p' s t e r :
  prog_equiv p p' -> core_eq s t ->
  core_eq (take k p s e r) (take k' p' t e r).
Proof.
  intros PE C.
  assert (G : forall md md' (s2 t2 : sim),
             core_eq s2 t2 -> clock s2 = clock t2 ->
             core_eq (fst (exec_event md p s2 e)) (fst (exec_event md' p' t2 e))).
  { intros. apply exec_event_core; auto. }
  assert (Cpop : forall (f g : sim -> sim), (forall x, LogOnly x (f x)) -> (forall x, LogOnly x (g x)) ->
            core_eq (set_clock (ev_time e) (f (set_pend r s))) (set_clock (ev_time e) (g (set_pend r t)))).
  { intros f g Hf Hg. destruct C as (Cp&Cn&Cc&Ct&Cx&Cr).
    destruct (Hf (set_pend r s)) as ((Fp&Fn&Fc&Ft&Fx&Fr)&_).
    destruct (Hg (set_pend r t)) as ((Gp&Gn&Gc&Gt&Gx&Gr)&_).
    unfold core_eq in *; ssimpl. rewrite <- Fp, <- Fn, <- Fc, <- Ft, <- Fx, <- Fr, <- Gp, <- Gn, <- Gc, <- Gt, <- Gx, <- Gr. auto 10. }
  assert (Ltn : forall x, LogOnly x (time_ntf e x)) by (intros; apply time_ntf_logonly).
  assert (Lem : forall x, LogOnly x (emit (NTime (ev_time e)) x)) by (intros; unfold LogOnly, core_eq; ssimpl; auto 20).
  destruct k, k'; unfold take, take_event, step_event.
  - fold (time_ntf e (set_pend r s)). fold (time_ntf e (set_pend r t)).
    specialize (G InRun InRun _ _ (Cpop _ _ Ltn Ltn) eq_refl).
    destruct (exec_event InRun p (set_clock (ev_time e) (time_ntf e (set_pend r s))) e) as [s3 f1].
    destruct (exec_event InRun p' (set_clock (ev_time e) (time_ntf e (set_pend r t))) e) as [t3 f2].
    cbn [fst] in G.
    destruct f1; [destruct (strat s3)|]; (destruct f2; [destruct (strat t3)|]);
      destruct G as (Cp&Cn&Cc&Ct&Cx&Cr); unfold core_eq; ssimpl; auto 10.
  - fold (time_ntf e (set_pend r s)).
    specialize (G InRun InStep _ _ (Cpop _ _ Ltn Lem) eq_refl).
    destruct (exec_event InRun p (set_clock (ev_time e) (time_ntf e (set_pend r s))) e) as [s3 f1].
    cbn [fst] in G.
    destruct f1; [destruct (strat s3)|]; destruct G as (Cp&Cn&Cc&Ct&Cx&Cr); unfold core_eq; ssimpl; auto 10.
  - fold (time_ntf e (set_pend r t)).
    specialize (G InStep InRun _ _ (Cpop _ _ Lem Ltn) eq_refl).
    destruct (exec_event InRun p' (set_clock (ev_time e) (time_ntf e (set_pend r t))) e) as [t3 f2].
    cbn [fst] in G.
    destruct f2; [destruct (strat t3)|]; destruct G as (Cp&Cn&Cc&Ct&Cx&Cr); unfold core_eq; ssimpl; auto 10.
  - apply (G InStep InStep _ _ (Cpop _ _ Lem Lem) eq_refl).
Qed.

(* ------------------------------------------------------------------ *)
(** * The canonical sequence of states *)

Definition beyondb (b : Z) (i : bool) (e : ev) : bool :=
  (ev_time e >? b) || ((ev_time e =? b) && negb i).

Lemma beyond_beyondb s e : beyond s e = beyondb (bound s) (incl s) e.
Proof. reflexivity. Qed.

(* take the first pending event unless it lies beyond the horizon (b, i) *)
Definition cnext (b : Z) (i : bool) (p : program) (s : sim) : option sim :=
  match pend s with
  | [] => None
  | e :: r => if beyondb b i e then None else Some (take_event p s e r)
  end.

Fixpoint citer (n : nat) (b : Z) (i : bool) (p : program) (s : sim) : sim :=
  match n with
  | O => s
  | S k => match cnext b i p s with None => s | Some s1 => citer k b i p s1 end
  end.

(* nothing left within the horizon *)
Definition cterm (b : Z) (i : bool) (s : sim) : Prop :=
  match pend s with [] => True | e :: _ => beyondb b i e = true end.

Lemma cterm_cnext b i p s : cterm b i s <-> cnext b i p s = None.
Proof.
  unfold cterm, cnext. destruct (pend s) as [|e r]; [tauto|].
  destruct (beyondb b i e); split; intros; auto; discriminate.
Qed.

Lemma citer_term n b i p s : cterm b i s -> citer n b i p s = s.
Proof. intros H. apply (cterm_cnext b i p) in H. destruct n; cbn [citer]; auto. rewrite H. auto. Qed.

Lemma citer_add n m b i p : forall s, citer (n + m) b i p s = citer m b i p (citer n b i p s).
Proof.
  induction n as [|n IH]; intros s; cbn [citer Nat.add]; auto.
  destruct (cnext b i p s) as [s1|] eqn:E; auto.
  symmetry. apply citer_term. apply (cterm_cnext b i p). auto.
Qed.

(** A state of the sequence with nothing left within the horizon is unique. *)
Lemma citer_term_unique n m b i p s :
  cterm b i (citer n b i p s) -> cterm b i (citer m b i p s) -> citer n b i p s = citer m b i p s.
Proof.
  intros Hn Hm. destruct (Nat.le_ge_cases n m) as [L|L].
  - replace m with (n + (m - n))%nat by lia. rewrite citer_add. symmetry. apply citer_term; auto.
  - replace n with (m + (n - m))%nat by lia. rewrite citer_add. apply citer_term; auto.
Qed.

Lemma cnext_core b i p p' s t :
  prog_equiv p p' -> core_eq s t ->
  match cnext b i p s, cnext b i p' t with
  | Some s1, Some t1 => core_eq s1 t1
  | None, None => True
  | _, _ => False
  end.
Proof.
  intros PE C. unfold cnext. pose proof C as (Cp&_). rewrite <- Cp.
  destruct (pend s) as [|e r]; auto. destruct (beyondb b i e); auto.
  apply (take_core TRun TRun); auto.
Qed.

Lemma citer_core n b i p p' : forall s t,
  prog_equiv p p' -> core_eq s t -> core_eq (citer n b i p s) (citer n b i p' t).
Proof.
  induction n as [|n IH]; intros s t PE C; cbn [citer]; auto.
  pose proof (cnext_core b i p p' s t PE C) as H.
  destruct (cnext b i p s), (cnext b i p' t); try contradiction; auto.
Qed.

Lemma cterm_core b i s t : core_eq s t -> cterm b i s -> cterm b i t.
Proof. intros (Cp&_). unfold cterm. rewrite Cp. auto. Qed.

(* a narrower horizon takes a prefix of what a wider one takes *)
Definition hz_le (b1 : Z) (i1 : bool) (b2 : Z) (i2 : bool) : Prop :=
  forall e, beyondb b2 i2 e = true -> beyondb b1 i1 e = true.

Lemma hz_le_refl b i : hz_le b i b i.
Proof. intros e H; exact H. Qed.

Lemma beyondb_true b i e : beyondb b i e = true <-> b < ev_time e \/ (ev_time e = b /\ i = false).
Proof.
  unfold beyondb. rewrite orb_true_iff, andb_true_iff, negb_true_iff, Z.eqb_eq, Z.gtb_lt. tauto.
Qed.

Lemma hz_le_spec b1 i1 b2 i2 :
  b1 < b2 \/ (b1 = b2 /\ (i1 = true -> i2 = true)) -> hz_le b1 i1 b2 i2.
Proof.
  intros H e. rewrite !beyondb_true. intros [Q|[Q1 Q2]].
  - left. lia.
  - destruct H as [H|[H1 H2]]; [left; lia|]. right. split; [lia|].
    destruct i1; auto. rewrite (H2 eq_refl) in Q2. discriminate.
Qed.

Lemma citer_widen n b1 i1 b2 i2 p : hz_le b1 i1 b2 i2 ->
  forall s, exists m, (m <= n)%nat /\ citer n b1 i1 p s = citer m b2 i2 p s.
Proof.
  intros HZ. induction n as [|n IH]; intros s.
  - exists 0%nat. split; auto.
  - cbn [citer]. unfold cnext at 1. destruct (pend s) as [|e r] eqn:Hp.
    + exists 0%nat. split; [lia|reflexivity].
    + destruct (beyondb b1 i1 e) eqn:B1.
      * exists 0%nat. split; [lia|reflexivity].
      * destruct (IH (take_event p s e r)) as [m [Lm Em]]. exists (S m). split; [lia|].
        cbn [citer]. unfold cnext. rewrite Hp.
        destruct (beyondb b2 i2 e) eqn:B2; [rewrite (HZ e B2) in B1; discriminate|]. exact Em.
Qed.

Lemma cterm_widen b1 i1 b2 i2 s : hz_le b2 i2 b1 i1 -> cterm b1 i1 s -> cterm b2 i2 s.
Proof. intros HZ. unfold cterm. destruct (pend s); auto. Qed.

(* bound, inclusiveness, replication and strategy never change along the sequence *)
Lemma citer_fixed n b i p : forall s,
  bound (citer n b i p s) = bound s /\ incl (citer n b i p s) = incl s /\ rep (citer n b i p s) = rep s
  /\ ps (citer n b i p s) = ps s /\ strat (citer n b i p s) = strat s /\ worker (citer n b i p s) = worker s.
Proof.
  induction n as [|n IH]; intros s; cbn [citer]; auto 10.
  unfold cnext. destruct (pend s) as [|e r] eqn:Hp; auto 10. destruct (beyondb b i e); auto 10.
  destruct (IH (take_event p s e r)) as (A&B&C&D&E&F).
  destruct (took_bound _ _ _ _ (take_event_took p s e r Hp)) as (A'&B'&C'&D'&E'&F').
  repeat split; congruence.
Qed.

Lemma citer_inv n b i p : forall s, Inv s -> Inv (citer n b i p s).
Proof.
  induction n as [|n IH]; intros s HI; cbn [citer]; auto.
  unfold cnext. destruct (pend s) as [|e r] eqn:Hp; auto. destruct (beyondb b i e); auto.
  apply IH. apply (tk_inv _ _ _ _ (take_event_took p s e r Hp) HI).
Qed.

Lemma citer_acct n b i p : forall s, Inv s -> Acct s -> Acct (citer n b i p s).
Proof.
  induction n as [|n IH]; intros s HI HA; cbn [citer]; auto.
  unfold cnext. destruct (pend s) as [|e r] eqn:Hp; auto. destruct (beyondb b i e); auto.
  pose proof (take_event_took p s e r Hp) as T.
  apply IH; [apply (tk_inv _ _ _ _ T HI)|apply (tk_acct _ _ _ _ T HI HA)].
Qed.

(* the log only grows along the sequence *)
Lemma citer_trace_ext n b i p : forall s, exists k, trace (citer n b i p s) = k ++ trace s.
Proof.
  induction n as [|n IH]; intros s; cbn [citer]; [exists []; reflexivity|].
  unfold cnext. destruct (pend s) as [|e r] eqn:Hp; [exists []; reflexivity|].
  destruct (beyondb b i e); [exists []; reflexivity|].
  destruct (IH (take_event p s e r)) as [k Hk].
  rewrite (took_trace _ _ _ _ (take_event_took p s e r Hp)) in Hk.
  exists (k ++ [(e, ev_time e)]). rewrite Hk, <- app_assoc. reflexivity.
Qed.

(* ------------------------------------------------------------------ *)
(** * The run loop walks along the canonical sequence *)

Lemma runs_citer p s evs s' :
  runs p s evs s' -> s' = citer (length evs) (bound s) (incl s) p s.
Proof.
  induction 1 as [s|s e r evs s' R Hp B H IH]; cbn [length citer]; auto.
  unfold cnext. rewrite Hp. rewrite <- beyond_beyondb, B.
  destruct (took_bound _ _ _ _ (take_event_took p s e r Hp)) as (Tb&Ti&_).
  rewrite Tb, Ti in IH. exact IH.
Qed.

Lemma loop_exit_core s1 s' : loop_exit s1 s' -> core_eq s1 s'.
Proof.
  intros [R ->|R HB ->|R ->].
  - apply core_eq_refl.
  - apply stop_at_bound_core.
  - unfold core_eq; ssimpl; auto 10.
Qed.

Lemma head_beyond_cterm s : head_beyond s <-> cterm (bound s) (incl s) s.
Proof. unfold head_beyond, cterm. destruct (pend s); tauto. Qed.

(* summary of a run of the loop *)
Lemma run_loop_citer p fuel s :
  exists n, core_eq (run_loop fuel p s) (citer n (bound s) (incl s) p s)
            /\ loop_exit (citer n (bound s) (incl s) p s) (run_loop fuel p s).
Proof.
  destruct (run_loop_runs p fuel s) as [evs [s1 [H1 H2]]].
  exists (length evs). rewrite <- (runs_citer _ _ _ _ H1). split; auto.
  apply core_eq_sym, loop_exit_core; auto.
Qed.

(* ------------------------------------------------------------------ *)
(** * Shape of an accepted start / run_up_to *)

Definition clamp (s : sim) (bz : Z) (i : bool) : Z * bool :=
  if bz >? end_time s then (end_time s, true) else (bz, i).

Lemma clamp_le s bz i : fst (clamp s bz i) <= end_time s.
Proof. unfold clamp. destruct (Z.gtb_spec bz (end_time s)); cbn [fst]; lia. Qed.

Lemma clamp_hz s bz i : hz_le (fst (clamp s bz i)) (snd (clamp s bz i)) (end_time s) true.
Proof.
  apply hz_le_spec. unfold clamp. destruct (Z.gtb_spec bz (end_time s)); cbn [fst snd]; [right; auto|].
  destruct (Z.eq_dec bz (end_time s)); [right; auto|left; lia].
Qed.

(* the state the worker thread enters the loop with *)
Record Entered (s : sim) (b : Z) (i : bool) (a : sim) : Prop := mkEntered {
  en_core : core_eq s a;
  en_clock : clock a = clock s;
  en_bound : bound a = b;
  en_incl : incl a = i;
  en_ps : ps a = PStarted;
  en_rs : running a = true;
  en_strat : strat a = strat s;
  en_worker : worker a = WAlive;
  en_flag : flag a = flag s
}.

(* what the worker thread does after the loop returned state b *)
Definition after_loop (b : sim) : sim :=
  worker_ending (set_rs RStopped (emit (NStop (clock b)) b)).

Lemma do_start_shape p fuel s bz i :
  start_checks s = true -> clock s <= bz -> worker s = WAlive ->
  exists a, Entered s (fst (clamp s bz i)) (snd (clamp s bz i)) a
            /\ do_start fuel p s (TNum bz) i = (after_loop (run_loop fuel p a), ResOk).
Proof.
  intros Ck Le W. unfold do_start. rewrite Ck.
  destruct (Z.ltb_spec bz (clock s)); [lia|].
  destruct (start_checks_facts s Ck) as (Rn&Hps&Hlt).
  unfold clamp. destruct (bz >? end_time s); cbn [fst snd]; cbv zeta.
  all: set (s3 := emit NStarting _).
  all: assert (W3 : worker s3 = WAlive) by (unfold s3; ssimpl; destruct (ps s); ssimpl; auto).
  all: assert (P3 : ps s3 = PStarted) by (unfold s3; ssimpl; destruct Hps as [Q|Q]; rewrite Q; ssimpl; auto).
  all: unfold worker_run; rewrite W3, P3.
  all: eexists; split; [|reflexivity].
  all: constructor; unfold s3; ssimpl; destruct (ps s) eqn:Q; ssimpl; auto;
       try (unfold core_eq; ssimpl; auto 10); try (destruct Hps; congruence).
Qed.

Lemma after_loop_facts b :
  core_eq b (after_loop b) /\ clock (after_loop b) = clock b /\ bound (after_loop b) = bound b
  /\ incl (after_loop b) = incl b /\ strat (after_loop b) = strat b /\ flag (after_loop b) = flag b
  /\ running (after_loop b) = false.
Proof.
  unfold after_loop, worker_ending. ssimpl. destruct (ps b); unfold core_eq, running; ssimpl; auto 20.
Qed.

Lemma after_loop_ps b :
  (ps b = PEnding -> ps (after_loop b) = PEnded /\ worker (after_loop b) = WFinal)
  /\ (ps b <> PEnding -> ps (after_loop b) = ps b /\ worker (after_loop b) = worker b).
Proof.
  unfold after_loop, worker_ending. ssimpl. split; intros H.
  - rewrite H. ssimpl. auto.
  - destruct (ps b) eqn:Q; ssimpl; auto. contradiction.
Qed.

(* refused commands leave the state alone *)
Lemma do_start_refused p fuel s b i : snd (do_start fuel p s b i) = ResRefused -> fst (do_start fuel p s b i) = s.
Proof.
  unfold do_start. destruct (start_checks s); auto. destruct b as [bz|]; auto.
  destruct (bz <? clock s); auto.
  destruct (bz >? end_time s); cbn [fst snd]; discriminate.
Qed.

Lemma do_start_accepted p fuel s b i :
  snd (do_start fuel p s b i) = ResOk ->
  exists bz, b = TNum bz /\ start_checks s = true /\ clock s <= bz.
Proof.
  unfold do_start. destruct (start_checks s); [|discriminate]. destruct b as [bz|]; [|discriminate].
  destruct (Z.ltb_spec bz (clock s)); [discriminate|]. intros _. exists bz. auto.
Qed.

Lemma do_start_res_cases p fuel s b i :
  snd (do_start fuel p s b i) = ResOk \/ snd (do_start fuel p s b i) = ResRefused.
Proof.
  unfold do_start. destruct (start_checks s); auto. destruct b as [bz|]; auto.
  destruct (bz <? clock s); auto. destruct (bz >? end_time s); cbn [snd]; auto.
Qed.

Lemma do_step_res_cases p s : snd (do_step p s) = ResOk \/ snd (do_step p s) = ResRefused.
Proof. unfold do_step. destruct (step_checks s); cbn [snd]; auto. Qed.

(* ------------------------------------------------------------------ *)
(** * Every run command moves the core along the canonical sequence *)

Lemma run_loop_from_entered p fuel s b i a :
  Entered s b i a ->
  exists n, core_eq (run_loop fuel p a) (citer n b i p s)
            /\ loop_exit (citer n b i p a) (run_loop fuel p a).
Proof.
  intros En. destruct (run_loop_citer p fuel a) as [n [C X]].
  rewrite (en_bound _ _ _ _ En), (en_incl _ _ _ _ En) in *.
  exists n. split; auto. eapply core_eq_trans; [exact C|].
  apply citer_core; [apply prog_equiv_refl|apply core_eq_sym, (en_core _ _ _ _ En)].
Qed.

Lemma end_time_core s t : core_eq s t -> end_time s = end_time t.
Proof. intros (_&_&_&_&_&Cr). unfold end_time. rewrite Cr. reflexivity. Qed.

Lemma do_start_citer p fuel s b i :
  worker s = WAlive ->
  exists n, core_eq (fst (do_start fuel p s b i)) (citer n (end_time s) true p s).
Proof.
  intros W. destruct (do_start_res_cases p fuel s b i) as [Ok|Rf].
  - destruct (do_start_accepted _ _ _ _ _ Ok) as [bz [-> [Ck Le]]].
    destruct (do_start_shape p fuel s bz i Ck Le W) as [a [En Sh]]. rewrite Sh. cbn [fst].
    destruct (run_loop_from_entered p fuel s _ _ a En) as [n [C _]].
    destruct (citer_widen n _ _ _ _ p (clamp_hz s bz i) s) as [m [_ Em]].
    exists m. rewrite <- Em. eapply core_eq_trans; [|exact C].
    apply core_eq_sym. apply (proj1 (after_loop_facts _)).
  - exists 0%nat. rewrite (do_start_refused _ _ _ _ _ Rf). apply core_eq_refl.
Qed.

Lemma do_step_citer p s :
  exists n, core_eq (fst (do_step p s)) (citer n (end_time s) true p s).
Proof.
  unfold do_step. destruct (step_checks s); [|exists 0%nat; apply core_eq_refl]. cbv zeta. cbn [fst].
  set (s1 := match ps s with PInit => _ | _ => s end).
  set (s2 := emit (NStart (clock s1)) (set_rs RStarted s1)).
  assert (C : core_eq s s2) by (unfold s2, s1; destruct (ps s); unfold core_eq; ssimpl; auto 10).
  pose proof C as (Cp&_).
  assert (Ee : end_time s2 = end_time s) by (symmetry; apply end_time_core; auto).
  destruct (pend s2) as [|e r] eqn:Hp.
  - exists 0%nat. cbn [citer]. eapply core_eq_trans; [|apply core_eq_sym; exact C].
    unfold core_eq; ssimpl; auto 10.
  - rewrite Ee. destruct (Z.gtb_spec (ev_time e) (end_time s)).
    + exists 0%nat. cbn [citer]. eapply core_eq_trans; [|apply core_eq_sym; exact C].
      unfold core_eq; ssimpl; auto 10.
    + exists 1%nat. cbn [citer]. unfold cnext. rewrite Cp.
      assert (B : beyondb (end_time s) true e = false).
      { unfold beyondb. cbn [negb]. rewrite andb_false_r, orb_false_r.
        destruct (Z.gtb_spec (ev_time e) (end_time s)); auto; lia. }
      rewrite B.
      eapply core_eq_trans; [|apply (take_core TStep TRun p p s2 s e r (prog_equiv_refl p) (core_eq_sym _ _ C))].
      unfold take. unfold core_eq; ssimpl; auto 10.
Qed.

Definition is_runcmd (c : cmd) : bool :=
  match c with
  | CStart | CStep | CStop | CRunUpTo _ | CRunUpToIncl _ | CInitBad => true
  | _ => false
  end.

Lemma do_cmd_citer p fuel s c :
  is_runcmd c = true -> worker s = WAlive ->
  exists n, core_eq (fst (do_cmd fuel p s c)) (citer n (end_time s) true p s).
Proof.
  intros Hc W. destruct c; try discriminate; cbn [do_cmd].
  - exists 0%nat. apply core_eq_refl.
  - destruct (rep s); [apply do_start_citer; auto|exists 0%nat; apply core_eq_refl].
  - apply do_step_citer.
  - exists 0%nat. destruct (running s); cbn [fst citer]; unfold core_eq; ssimpl; auto 10.
  - apply do_start_citer; auto.
  - apply do_start_citer; auto.
Qed.

(* ------------------------------------------------------------------ *)
(** * Quiescent states between run commands *)

Definition Live (s : sim) : Prop :=
  running s = false /\ (ps s = PInit \/ ps s = PStarted) /\ worker s = WAlive.

(* the replication is over; if it ended through an inclusive bound nothing within the end is left *)
Definition Over (s : sim) : Prop :=
  running s = false /\ ps s = PEnded /\ clock s = end_time s
  /\ (incl s = true -> cterm (end_time s) true s).

Definition Quiet (s : sim) : Prop := Live s \/ Over s.

Lemma over_frozen p fuel s c : Over s -> is_runcmd c = true -> fst (do_cmd fuel p s c) = s.
Proof.
  intros (R&P&_) Hc.
  assert (S1 : start_checks s = false) by (unfold start_checks; rewrite P; cbn; rewrite !andb_false_r; reflexivity).
  assert (S2 : step_checks s = false) by (unfold step_checks; rewrite P; cbn; rewrite !andb_false_r; reflexivity).
  destruct c; try discriminate; cbn [do_cmd]; auto.
  - destruct (rep s); auto. unfold do_start. rewrite S1. auto.
  - unfold do_step. rewrite S2. auto.
  - rewrite R. auto.
  - unfold do_start. rewrite S1. auto.
  - unfold do_start. rewrite S1. auto.
Qed.

Lemma stop_at_bound_fields s :
  clock (stop_at_bound s) = bound s /\ bound (stop_at_bound s) = bound s /\ incl (stop_at_bound s) = incl s
  /\ rep (stop_at_bound s) = rep s /\ worker (stop_at_bound s) = worker s /\ strat (stop_at_bound s) = strat s
  /\ flag (stop_at_bound s) = flag s.
Proof.
  unfold stop_at_bound. cbv zeta.
  match goal with |- context [if ?c then _ else _] => destruct c end; ssimpl; auto 10.
Qed.

Lemma loop_exit_fixed s1 s' :
  loop_exit s1 s' ->
  bound s' = bound s1 /\ incl s' = incl s1 /\ rep s' = rep s1 /\ worker s' = worker s1 /\ strat s' = strat s1.
Proof.
  intros [R ->|R HB ->|R ->]; auto 10.
  destruct (stop_at_bound_fields s1) as (_&A&B&C&D&E&_). auto 10.
Qed.

Lemma run_loop_fixed p fuel s :
  let s' := run_loop fuel p s in
  bound s' = bound s /\ incl s' = incl s /\ rep s' = rep s /\ worker s' = worker s /\ strat s' = strat s.
Proof.
  cbv zeta. destruct (run_loop_citer p fuel s) as [n [_ X]].
  destruct (citer_fixed n (bound s) (incl s) p s) as (Fb&Fi&Fr&Fp&Fs&Fw).
  destruct (loop_exit_fixed _ _ X) as (A&B&C&D&E). repeat split; congruence.
Qed.

(* how a loop that set the replication to ENDING left: through the bound test, at the end *)
Lemma run_loop_ending p fuel s :
  ps s = PStarted -> ps (run_loop fuel p s) = PEnding ->
  let s' := run_loop fuel p s in
  clock s' = bound s /\ end_time s <= bound s /\ cterm (bound s) (incl s) s'.
Proof.
  intros Hps Hend. cbv zeta. destruct (run_loop_citer p fuel s) as [n [_ X]].
  destruct (citer_fixed n (bound s) (incl s) p s) as (Fb&Fi&Fr&Fp&_).
  set (s1 := citer n (bound s) (incl s) p s) in *.
  destruct X as [R1 E|R1 HB E|R1 E].
  - exfalso. rewrite E, Fp, Hps in Hend. discriminate.
  - rewrite E. destruct (stop_at_bound_fields s1) as (A&_). split; [congruence|]. split.
    + rewrite E in Hend. unfold stop_at_bound in Hend. cbv zeta in Hend.
      destruct (Z.geb_spec (bound s1) (end_time s1)) as [G|G].
      * unfold end_time in *. rewrite Fr, Fb in G. lia.
      * ssimpl. rewrite Fp, Hps in Hend. discriminate.
    + eapply cterm_core; [apply stop_at_bound_core|]. apply (proj1 (head_beyond_cterm s1)) in HB.
      rewrite Fb, Fi in HB. exact HB.
  - exfalso. rewrite E in Hend. unfold raise_flag in Hend. ssimpl. rewrite Fp, Hps in Hend. discriminate.
Qed.

Lemma entered_end s b i a : Entered s b i a -> end_time a = end_time s.
Proof. intros En. symmetry. apply end_time_core. apply (en_core _ _ _ _ En). Qed.

(* the state after an accepted start / run_up_to, in the two possible outcomes *)
Lemma started_quiet p fuel s b i a :
  Entered s b i a -> b <= end_time s ->
  let s' := after_loop (run_loop fuel p a) in
  (ps s' = PStarted /\ Live s') \/ (ps s' = PEnded /\ Over s' /\ b = end_time s).
Proof.
  intros En Le s'. set (lb := run_loop fuel p a) in *.
  destruct (after_loop_facts lb) as (C&Ck&Bd&Ic&_&_&Rn).
  destruct (after_loop_ps lb) as [P1 P2].
  destruct (run_loop_fixed p fuel a) as (Fb&Fi&Fr&Fw&_). fold lb in Fb, Fi, Fr, Fw.
  assert (Ee : end_time s' = end_time s).
  { unfold s'. rewrite <- (end_time_core _ _ C). unfold end_time at 1. rewrite Fr.
    apply (entered_end _ _ _ _ En). }
  destruct (run_loop_ps p fuel a) as [Q|Q]; fold lb in Q.
  - left. rewrite (en_ps _ _ _ _ En) in Q.
    assert (Hne : ps lb <> PEnding) by (rewrite Q; discriminate).
    destruct (P2 Hne) as [A B]. split; [unfold s'; congruence|].
    split; [exact Rn|]. split; [right; unfold s'; congruence|].
    unfold s'. rewrite B, Fw. apply (en_worker _ _ _ _ En).
  - right. destruct (P1 Q) as [A B].
    destruct (run_loop_ending p fuel a (en_ps _ _ _ _ En) Q) as (E1&E2&E3). fold lb in E1, E3.
    rewrite (en_bound _ _ _ _ En), (entered_end _ _ _ _ En) in *.
    rewrite (en_incl _ _ _ _ En) in E3.
    assert (Eb : b = end_time s) by lia.
    split; [exact A|]. split; [|exact Eb].
    split; [exact Rn|]. split; [exact A|]. split.
    + rewrite Ee. unfold s'. rewrite Ck, E1. exact Eb.
    + intros Hi. rewrite Ee. eapply cterm_core; [exact C|].
      unfold s' in Hi. rewrite Ic, Fi, (en_incl _ _ _ _ En) in Hi. subst i. rewrite <- Eb. exact E3.
Qed.

Lemma do_start_quiet p fuel s b i :
  Live s -> Quiet (fst (do_start fuel p s b i)).
Proof.
  intros L. pose proof L as (_&_&W).
  destruct (do_start_res_cases p fuel s b i) as [Ok|Rf].
  - destruct (do_start_accepted _ _ _ _ _ Ok) as [bz [-> [Ck Le]]].
    destruct (do_start_shape p fuel s bz i Ck Le W) as [a [En Sh]]. rewrite Sh. cbn [fst].
    destruct (started_quiet p fuel s _ _ a En (clamp_le s bz i)) as [[_ H]|[_ [H _]]]; [left|right]; auto.
  - rewrite (do_start_refused _ _ _ _ _ Rf). left; auto.
Qed.

Lemma do_step_live p s : Live s -> Live (fst (do_step p s)).
Proof.
  intros (R&P&W). unfold do_step. destruct (step_checks s); [|repeat split; auto]. cbv zeta. cbn [fst].
  set (s1 := match ps s with PInit => _ | _ => s end).
  set (s2 := emit (NStart (clock s1)) (set_rs RStarted s1)).
  assert (P2 : ps s2 = PStarted) by (unfold s2, s1; destruct P as [Q|Q]; rewrite Q; ssimpl; auto).
  assert (W2 : worker s2 = WAlive) by (unfold s2, s1; destruct (ps s); ssimpl; auto).
  destruct (pend s2) as [|e r] eqn:Hp.
  - repeat split; ssimpl; auto.
  - destruct (ev_time e >? end_time s2).
    + repeat split; ssimpl; auto.
    + destruct (took_bound _ _ _ _ (step_event_took p s2 e r Hp)) as (_&_&_&Tp&_&Tw).
      repeat split; ssimpl; [right|]; congruence.
Qed.

Lemma do_cmd_quiet p fuel s c :
  is_runcmd c = true -> Quiet s -> Quiet (fst (do_cmd fuel p s c)).
Proof.
  intros Hc [L|O]; [|rewrite (over_frozen p fuel s c O Hc); right; auto].
  destruct c; try discriminate; cbn [do_cmd fst]; try (left; exact L).
  - destruct (rep s); [apply do_start_quiet; auto|left; auto].
  - left. apply do_step_live; auto.
  - destruct L as (R&P&W). rewrite R. left. repeat split; auto.
  - apply do_start_quiet; auto.
  - apply do_start_quiet; auto.
Qed.

Lemma do_cmd_citer_quiet p fuel s c :
  is_runcmd c = true -> Quiet s ->
  exists n, core_eq (fst (do_cmd fuel p s c)) (citer n (end_time s) true p s).
Proof.
  intros Hc [(_&_&W)|O].
  - apply do_cmd_citer; auto.
  - exists 0%nat. rewrite (over_frozen p fuel s c O Hc). apply core_eq_refl.
Qed.

(** Every sequence of run commands (start, step, stop, run_up_to,
    run_up_to_including with any bounds, in any order, with any fuel) leaves
    the core of the state somewhere on the canonical sequence. *)
Theorem run_cmds_citer p fuel cs : forall s,
  forallb is_runcmd cs = true -> Quiet s ->
  let s' := fst (run_cmds fuel p s cs) in
  Quiet s' /\ exists n, core_eq s' (citer n (end_time s) true p s).
Proof.
  induction cs as [|c r IH]; intros s Hc Q; cbn [run_cmds fst].
  - split; auto. exists 0%nat. apply core_eq_refl.
  - cbn [forallb] in Hc. apply andb_true_iff in Hc. destruct Hc as [Hc Hr].
    pose proof (do_cmd_quiet p fuel s c Hc Q) as Q1.
    destruct (do_cmd_citer_quiet p fuel s c Hc Q) as [n1 C1].
    destruct (do_cmd fuel p s c) as [s1 res]. cbn [fst] in *.
    destruct (IH s1 Hr Q1) as [Q2 [n2 C2]].
    destruct (run_cmds fuel p s1 r) as [s2 sn]. cbn [fst] in *.
    split; auto. exists (n1 + n2)%nat. rewrite citer_add.
    assert (Ee : end_time s1 = end_time s).
    { rewrite (end_time_core _ _ C1). unfold end_time.
      destruct (citer_fixed n1 (end_time s) true p s) as (_&_&Fr&_). unfold end_time in Fr. rewrite Fr. reflexivity. }
    rewrite Ee in C2. eapply core_eq_trans; [exact C2|].
    apply citer_core; [apply prog_equiv_refl|exact C1].
Qed.

Lemma end_time_citer n b i p s : end_time (citer n b i p s) = end_time s.
Proof. unfold end_time. destruct (citer_fixed n b i p s) as (_&_&Fr&_). rewrite Fr. reflexivity. Qed.

(** Segmentation: two ways of driving core-equal states of equivalent
    programs (same handler code up to commands and to what follows a failure)
    through run commands that both end the replication through an inclusive
    bound have executed the same events at the same clocks, scheduled and
    cancelled the same events, and stand at the same clock.  One of the two
    may be the single uninterrupted [start]. *)
Theorem segmentation p p' fuel fuel' cs cs' s t :
  prog_equiv p p' -> core_eq s t -> Quiet s -> Quiet t ->
  forallb is_runcmd cs = true -> forallb is_runcmd cs' = true ->
  let s1 := fst (run_cmds fuel p s cs) in
  let t1 := fst (run_cmds fuel' p' t cs') in
  ps s1 = PEnded -> incl s1 = true -> ps t1 = PEnded -> incl t1 = true ->
  core_eq s1 t1 /\ clock s1 = clock t1.
Proof.
  intros PE C Qs Qt Hcs Hcs' s1 t1 Ps Is Pt It.
  destruct (run_cmds_citer p fuel cs s Hcs Qs) as [Q1 [n C1]]. fold s1 in Q1, C1.
  destruct (run_cmds_citer p' fuel' cs' t Hcs' Qt) as [Q2 [m C2]]. fold t1 in Q2, C2.
  assert (O1 : Over s1) by (destruct Q1 as [(_&[Q|Q]&_)|O]; auto; congruence).
  assert (O2 : Over t1) by (destruct Q2 as [(_&[Q|Q]&_)|O]; auto; congruence).
  destruct O1 as (_&_&K1&T1). destruct O2 as (_&_&K2&T2). specialize (T1 Is). specialize (T2 It).
  assert (Ee : end_time t = end_time s) by (symmetry; apply end_time_core; auto).
  assert (E1 : end_time s1 = end_time s) by (rewrite (end_time_core _ _ C1); apply end_time_citer).
  assert (E2 : end_time t1 = end_time s) by (rewrite (end_time_core _ _ C2), end_time_citer; auto).
  rewrite Ee in C2.
  (* bring t's sequence over to s *)
  assert (C2' : core_eq t1 (citer m (end_time s) true p s)).
  { eapply core_eq_trans; [exact C2|]. apply citer_core; [apply prog_equiv_sym; auto|apply core_eq_sym; auto]. }
  rewrite E1 in T1. rewrite E2 in T2.
  pose proof (cterm_core _ _ _ _ C1 T1) as U1. pose proof (cterm_core _ _ _ _ C2' T2) as U2.
  pose proof (citer_term_unique n m _ _ p s U1 U2) as U.
  split; [|congruence].
  eapply core_eq_trans; [exact C1|]. rewrite U. apply core_eq_sym; exact C2'.
Qed.

(** Without any condition on how far the segmented run got, it has executed a
    prefix of what a completed run executes. *)
Theorem segmentation_prefix p p' fuel fuel' cs cs' s t :
  prog_equiv p p' -> core_eq s t -> Quiet s -> Quiet t ->
  forallb is_runcmd cs = true -> forallb is_runcmd cs' = true ->
  let s1 := fst (run_cmds fuel p s cs) in
  let t1 := fst (run_cmds fuel' p' t cs') in
  ps t1 = PEnded -> incl t1 = true ->
  exists k, trace t1 = k ++ trace s1.
Proof.
  intros PE C Qs Qt Hcs Hcs' s1 t1 Pt It.
  destruct (run_cmds_citer p fuel cs s Hcs Qs) as [Q1 [n C1]]. fold s1 in Q1, C1.
  destruct (run_cmds_citer p' fuel' cs' t Hcs' Qt) as [Q2 [m C2]]. fold t1 in Q2, C2.
  assert (O2 : Over t1) by (destruct Q2 as [(_&[Q|Q]&_)|O]; auto; congruence).
  destruct O2 as (_&_&K2&T2). specialize (T2 It).
  assert (Ee : end_time t = end_time s) by (symmetry; apply end_time_core; auto).
  assert (E2 : end_time t1 = end_time s) by (rewrite (end_time_core _ _ C2), end_time_citer; auto).
  rewrite Ee in C2.
  assert (C2' : core_eq t1 (citer m (end_time s) true p s)).
  { eapply core_eq_trans; [exact C2|]. apply citer_core; [apply prog_equiv_sym; auto|apply core_eq_sym; auto]. }
  rewrite E2 in T2. pose proof (cterm_core _ _ _ _ C2' T2) as U2.
  destruct C1 as (_&_&_&Tr1&_). destruct C2' as (_&_&_&Tr2&_). rewrite Tr1, Tr2.
  destruct (Nat.le_ge_cases n m) as [L|L].
  - replace m with (n + (m - n))%nat by lia. rewrite citer_add. apply citer_trace_ext.
  - exists []. replace n with (m + (n - m))%nat by lia. rewrite citer_add.
    rewrite (citer_term _ _ _ _ _ U2). reflexivity.
Qed.

(* ------------------------------------------------------------------ *)
(** * Programs that never interrupt a run *)

Definition calm_action (st : strategy) (a : action) : bool :=
  match a with
  | ACmd CStop => false
  | AFail => match st with SWarnPause => false | _ => true end
  | _ => true
  end.

(* no stop() from a handler, and no failing handler under WARN_AND_PAUSE *)
Definition calm (st : strategy) (p : program) : Prop :=
  forall h, forallb (calm_action st) (body p h) = true.

Lemma inner_cmd_rs md s c : (match c with CStop => False | _ => True end) -> rs (inner_cmd md s c) = rs s.
Proof. intros H. unfold inner_cmd. destruct md, c; try contradiction; destruct (running s); reflexivity. Qed.

Lemma exec_action_rs md s a :
  calm_action (strat s) a = true ->
  rs (fst (exec_action md s a)) = rs s
  /\ (snd (exec_action md s a) = true -> strat s <> SWarnPause).
Proof.
  intros H. destruct a; cbn [exec_action fst snd]; try (split; [|discriminate]).
  - unfold do_sched. destruct (sched_time s m); reflexivity.
  - unfold do_cancel. destruct (nth_error (created s) k); auto. destruct (ev_mem e (pend s)); reflexivity.
  - split; auto. intros _ Q. cbn [calm_action] in H. rewrite Q in H. discriminate.
  - apply inner_cmd_rs. destruct c; auto. discriminate.
  - reflexivity.
Qed.

Lemma exec_actions_rs md acts : forall s,
  forallb (calm_action (strat s)) acts = true ->
  rs (fst (exec_actions md s acts)) = rs s
  /\ (snd (exec_actions md s acts) = true -> strat s <> SWarnPause).
Proof.
  induction acts as [|a r IH]; intros s H; cbn [exec_actions fst snd]; [split; [auto|discriminate]|].
  cbn [forallb] in H. apply andb_true_iff in H. destruct H as [Ha Hr].
  destruct (exec_action_rs md s a Ha) as [R1 F1].
  pose proof (fr_strat _ _ (hs_frame _ _ (exec_action_hstep md s a))) as St.
  destruct (exec_action md s a) as [s1 f]. cbn [fst snd] in *.
  destruct f; cbn [fst snd]; [split; auto|].
  rewrite <- St in Hr. destruct (IH s1 Hr) as [R2 F2]. split; [congruence|]. rewrite <- St. exact F2.
Qed.

Lemma take_event_calm p s e r : calm (strat s) p -> rs (take_event p s e r) = rs s.
Proof.
  intros Hc. unfold take_event, exec_event.
  set (s2 := set_clock (ev_time e) _).
  assert (S2 : strat s2 = strat s /\ rs s2 = rs s).
  { unfold s2. ssimpl. destruct (ev_time e =? clock s); ssimpl; auto. }
  destruct S2 as [St Rs].
  destruct (ev_h e) as [|h].
  - ssimpl. exact Rs.
  - set (s1 := set_trace _ s2).
    assert (H1 : forallb (calm_action (strat s1)) (body p h) = true).
    { unfold s1. ssimpl. rewrite St. apply Hc. }
    destruct (exec_actions_rs InRun (body p h) s1 H1) as [R F].
    pose proof (fr_strat _ _ (hs_frame _ _ (exec_actions_hstep InRun (body p h) s1))) as St3.
    destruct (exec_actions InRun s1 (body p h)) as [s3 f]. cbn [fst snd] in *.
    destruct f.
    + destruct (strat s3) eqn:Q; try (rewrite R; unfold s1; ssimpl; exact Rs).
      exfalso. apply (F eq_refl). congruence.
    + rewrite R. unfold s1. ssimpl. exact Rs.
Qed.

Lemma runs_calm p s evs s1 : calm (strat s) p -> runs p s evs s1 -> running s = true -> running s1 = true.
Proof.
  intros Hc H. induction H as [s|s e r evs s' R Hp B H IH]; auto. intros _.
  destruct (took_bound _ _ _ _ (take_event_took p s e r Hp)) as (_&_&_&_&Ts&_).
  apply IH.
  - rewrite Ts. exact Hc.
  - unfold running. rewrite (take_event_calm p s e r Hc). exact R.
Qed.

(** Under a calm program a run that did not exhaust its fuel left through the
    bound test: the clock is the bound and nothing within the horizon is left. *)
Lemma calm_run_exit p fuel s :
  calm (strat s) p -> running s = true -> flag (run_loop fuel p s) = false ->
  exists evs s1, runs p s evs s1 /\ head_beyond s1 /\ run_loop fuel p s = stop_at_bound s1.
Proof.
  intros Hc R Hf. destruct (run_loop_runs p fuel s) as [evs [s1 [H1 H2]]].
  exists evs, s1. pose proof (runs_calm p s evs s1 Hc H1 R) as R1.
  destruct H2 as [Q E|Q HB E|Q E].
  - congruence.
  - auto.
  - rewrite E in Hf. ssimpl. discriminate.
Qed.

Lemma beyondb_false b i e :
  beyondb b i e = false <-> (if i then ev_time e <= b else ev_time e < b).
Proof.
  destruct (beyondb b i e) eqn:B.
  - apply beyondb_true in B. split; [discriminate|]. destruct i; intros; destruct B as [B|[B1 B2]]; try lia; discriminate.
  - split; auto. intros _.
    assert (N : ~ (b < ev_time e \/ ev_time e = b /\ i = false)) by (intros Q; apply beyondb_true in Q; congruence).
    destruct i; [lia|]. destruct (Z.lt_trichotomy (ev_time e) b) as [Q|[Q|Q]]; auto; exfalso; apply N; auto.
Qed.

(* ------------------------------------------------------------------ *)
(** * Bounded runs *)

Lemma entered_inv s b i a : Entered s b i a -> Inv s -> Inv a.
Proof. intros En. apply Inv_core; [apply (en_core _ _ _ _ En)|symmetry; apply (en_clock _ _ _ _ En)]. Qed.

Lemma entered_acct s b i a : Entered s b i a -> Acct s -> Acct a.
Proof. intros En. apply Acct_core. apply (en_core _ _ _ _ En). Qed.

(** run_up_to(t) / run_up_to_including(t) / start (bound = end, inclusive) on
    a program that does not interrupt the run: the events executed are exactly
    the pending or newly scheduled events that were not cancelled while pending
    and whose time is earlier than the bound (not later, for the inclusive
    variants); the clock is left at the bound; what stays pending is at or
    after the bound. *)
Theorem bounded_run_exact p fuel s bz i :
  Inv s -> Acct s -> worker s = WAlive -> calm (strat s) p ->
  start_checks s = true -> clock s <= bz ->
  let s' := fst (do_start fuel p s (TNum bz) i) in
  let b := fst (clamp s bz i) in let ic := snd (clamp s bz i) in
  flag s' = false ->
  exists evs newc,
    executed s' = rev evs ++ executed s
    /\ created s' = created s ++ newc
    /\ clock s' = b
    /\ (forall e, In e evs -> In e (pend s) \/ In e newc)
    /\ (forall e, In e (pend s) \/ In e newc ->
          (In e evs <-> (~ In e (cancelled s') /\ (if ic then ev_time e <= b else ev_time e < b))))
    /\ (forall e, In e (pend s') -> if ic then b < ev_time e else b <= ev_time e).
Proof.
  intros HI HA W Hc Ck Le s' b ic Hf.
  destruct (do_start_shape p fuel s bz i Ck Le W) as [a [En Sh]]. unfold s' in *. rewrite Sh in *. cbn [fst] in *.
  fold b ic in En.
  destruct (after_loop_facts (run_loop fuel p a)) as (C&Ck'&_&_&_&Fl&_). rewrite Fl in Hf.
  assert (Hca : calm (strat a) p) by (rewrite (en_strat _ _ _ _ En); exact Hc).
  destruct (calm_run_exit p fuel a Hca (en_rs _ _ _ _ En) Hf) as [evs [s1 (H1&HB&E)]].
  destruct (runs_complete p a evs s1 (entered_inv _ _ _ _ En HI) (entered_acct _ _ _ _ En HA) H1 HB)
    as [newc (A1&A2&A3&A4&A5)].
  pose proof (stop_at_bound_core s1) as C1. rewrite <- E in C1.
  pose proof (core_eq_trans _ _ _ C1 C) as C2.
  destruct C2 as (Cp&_&Cc&Ct&Cx&_). destruct (en_core _ _ _ _ En) as (Dp&_&Dc&Dt&Dx&_).
  assert (Eb : forall e, beyond a e = beyondb b ic e).
  { intros e. rewrite beyond_beyondb, (en_bound _ _ _ _ En), (en_incl _ _ _ _ En). reflexivity. }
  exists evs, newc. unfold executed in *. rewrite <- Ct, <- Cc, <- Cx, <- Cp, Dt, Dc, Dp.
  split; [exact A1|]. split; [exact A2|]. split.
  { rewrite Ck', E. destruct (stop_at_bound_fields s1) as (K&_). rewrite K.
    destruct (rf_bound _ _ _ (runs_facts _ _ _ _ H1)) as (Fb&_). rewrite Fb. apply (en_bound _ _ _ _ En). }
  split; [exact A3|]. split.
  - intros e Hin. rewrite (A4 e Hin), Eb, beyondb_false. reflexivity.
  - intros e He. specialize (A5 e He). rewrite Eb in A5. apply beyondb_true in A5.
    destruct ic; destruct A5 as [Q|[Q1 Q2]]; try lia; discriminate.
Qed.

Lemma run_loop_clock_le p fuel s : clock s <= bound s -> clock (run_loop fuel p s) <= bound s.
Proof.
  intros L. destruct (run_loop_runs p fuel s) as [evs [s1 [H1 H2]]].
  pose proof (runs_facts _ _ _ _ H1) as F. pose proof (rf_clock _ _ _ F L) as K.
  destruct (rf_bound _ _ _ F) as (Fb&_).
  destruct H2 as [Q E|Q HB E|Q E]; rewrite E; auto.
  destruct (stop_at_bound_fields s1) as (A&_). rewrite A. lia.
Qed.

(** Unless the bound reached the replication end the simulator stays
    resumable: replication still STARTED, run state STOPPED, worker alive,
    clock not past the bound, and a further start is accepted. *)
Theorem resumable p fuel s bz i :
  worker s = WAlive -> start_checks s = true -> clock s <= bz -> bz < end_time s ->
  let s' := fst (do_start fuel p s (TNum bz) i) in
  ps s' = PStarted /\ Live s' /\ clock s' <= bz /\ start_checks s' = true.
Proof.
  intros W Ck Le Lt s'.
  destruct (do_start_shape p fuel s bz i Ck Le W) as [a [En Sh]]. unfold s'. rewrite Sh. cbn [fst].
  assert (Cl : clamp s bz i = (bz, i)).
  { unfold clamp. destruct (Z.gtb_spec bz (end_time s)); [lia|reflexivity]. }
  rewrite Cl in En. cbn [fst snd] in En.
  destruct (started_quiet p fuel s bz i a En ltac:(lia)) as [[P L]|[_ [_ Q]]]; [|lia].
  set (lb := run_loop fuel p a) in *.
  destruct (after_loop_facts lb) as (C&Ck'&_&_&_&_&Rn).
  assert (K : clock (after_loop lb) <= bz).
  { rewrite Ck'. unfold lb. rewrite <- (en_bound _ _ _ _ En). apply run_loop_clock_le.
    rewrite (en_bound _ _ _ _ En), (en_clock _ _ _ _ En). exact Le. }
  split; [exact P|]. split; [exact L|]. split; [exact K|].
  assert (Ee : end_time (after_loop lb) = end_time s).
  { rewrite <- (end_time_core _ _ C). unfold end_time, lb.
    destruct (run_loop_fixed p fuel a) as (_&_&Fr&_). rewrite Fr. apply (entered_end _ _ _ _ En). }
  unfold start_checks. rewrite Rn, P, Ee. cbn [negb andb].
  assert (Hrep : rep (after_loop lb) = rep s).
  { destruct C as (_&_&_&_&_&Cr). rewrite <- Cr. unfold lb.
    destruct (run_loop_fixed p fuel a) as (_&_&Fr&_). rewrite Fr.
    destruct (en_core _ _ _ _ En) as (_&_&_&_&_&Dr). auto. }
  rewrite Hrep.
  assert (Hr : exists r, rep s = Some r).
  { unfold start_checks in Ck. destruct (rep s); [eauto|]. rewrite !andb_false_r in Ck. discriminate. }
  destruct Hr as [r ->].
  assert (Hrs : rs (after_loop lb) = RStopped).
  { unfold after_loop, worker_ending. ssimpl.
    destruct (run_loop_ps p fuel a) as [Q|Q]; fold lb in Q.
    - rewrite Q, (en_ps _ _ _ _ En). reflexivity.
    - exfalso. destruct (after_loop_ps lb) as [P1 _]. destruct (P1 Q) as [P2 _]. congruence. }
  rewrite Hrs. cbn [andb]. apply Z.leb_le. lia.
Qed.

(* ------------------------------------------------------------------ *)
(** * Nothing later than the replication end *)

Lemma trace_ext_le s s' hi :
  Mono s s' -> clock s' <= hi ->
  exists new, trace s' = new ++ trace s /\ Forall (fun ec => snd ec <= hi) new.
Proof.
  intros [_ [new (E&F&_)]] L. exists new. split; auto.
  eapply Forall_impl; [|exact F]. cbn. intros; lia.
Qed.

Lemma trace_same s s' hi :
  trace s' = trace s -> exists new, trace s' = new ++ trace s /\ Forall (fun ec : ev * Z => snd ec <= hi) new.
Proof. intros E. exists []. split; auto. Qed.

Lemma do_start_clock_le p fuel s b i :
  snd (do_start fuel p s b i) = ResOk -> clock (fst (do_start fuel p s b i)) <= end_time s.
Proof.
  intros Ok. destruct (do_start_accepted _ _ _ _ _ Ok) as [bz [-> [Ck Le]]].
  destruct (start_checks_facts s Ck) as (_&_&Lt).
  destruct (worker s) eqn:W.
  2: { destruct (do_start_shape p fuel s bz i Ck Le W) as [a [En Sh]]. rewrite Sh. cbn [fst].
       destruct (after_loop_facts (run_loop fuel p a)) as (_&K&_). rewrite K.
       pose proof (clamp_le s bz i) as CL. rewrite <- (en_bound _ _ _ _ En) in CL.
       eapply Z.le_trans; [apply run_loop_clock_le|exact CL].
       rewrite (en_clock _ _ _ _ En), (en_bound _ _ _ _ En).
       unfold clamp. destruct (Z.gtb_spec bz (end_time s)); cbn [fst]; lia. }
  all: unfold do_start; rewrite Ck; destruct (Z.ltb_spec bz (clock s)); [lia|];
       destruct (bz >? end_time s); cbv zeta; cbn [fst]; unfold worker_run;
       match goal with |- context [worker ?x] => replace (worker x) with (worker s)
         by (ssimpl; destruct (ps s); reflexivity) end; rewrite W; ssimpl; destruct (ps s); ssimpl; lia.
Qed.

Lemma do_step_clock_le p s :
  snd (do_step p s) = ResOk -> clock (fst (do_step p s)) <= end_time s.
Proof.
  unfold do_step. destruct (step_checks s) eqn:Ck; [|discriminate]. intros _. cbv zeta. cbn [fst].
  assert (Lt : clock s <= end_time s).
  { unfold step_checks in Ck. apply andb_true_iff in Ck. destruct Ck as [_ Ck]. apply Z.leb_le; auto. }
  set (s1 := match ps s with PInit => _ | _ => s end).
  set (s2 := emit (NStart (clock s1)) (set_rs RStarted s1)).
  assert (K2 : clock s2 = clock s /\ end_time s2 = end_time s)
    by (unfold s2, s1, end_time; destruct (ps s); ssimpl; auto).
  destruct K2 as [K2 E2].
  set (s3 := match pend s2 with [] => s2 | _ => _ end).
  change (clock s3 <= end_time s).
  unfold s3. destruct (pend s2) as [|e r] eqn:Hp; [lia|]. rewrite E2.
  destruct (Z.gtb_spec (ev_time e) (end_time s)); [lia|].
  rewrite (took_clock _ _ _ _ (step_event_took p s2 e r Hp)). lia.
Qed.

Lemma do_init_trace p s r : trace (fst (do_init p s r)) = trace s.
Proof.
  unfold do_init. destruct (running s); auto.
  set (s2 := set_created [] _).
  assert (T2 : trace s2 = trace s) by (unfold s2; destruct (worker (set_pend [] s)); reflexivity).
  pose proof (fr_trace _ _ (hs_frame _ _ (exec_actions_hstep InConstruct (body p 0) s2))) as T3.
  destruct (exec_actions InConstruct s2 (body p 0)) as [s3 failed]. cbn [fst] in *.
  destruct failed; [ssimpl; congruence|].
  set (s5 := set_ps PInit _).
  assert (T5 : trace s5 = trace s3) by (unfold s5; reflexivity).
  destruct (r_warm r <? clock s5); ssimpl; congruence.
Qed.

Lemma do_end_repl_trace p fuel s : trace (fst (do_end_repl fuel p s)) = trace s.
Proof.
  unfold do_end_repl. destruct (ps s); auto. cbn [fst].
  set (s2 := set_pend [] _).
  assert (T2 : trace s2 = trace s) by (unfold s2; destruct (clock s <? end_time s); reflexivity).
  unfold worker_run. destruct (worker s2); auto.
Qed.

(** No command whatsoever executes an event later than the replication end:
    whatever a command adds to the executed-event log carries a clock not after
    the end. *)
Theorem never_past_end p fuel s c :
  Inv s ->
  exists new, trace (fst (do_cmd fuel p s c)) = new ++ trace s
              /\ Forall (fun ec => snd ec <= end_time s) new.
Proof.
  intros HI.
  assert (St : forall b i, exists new, trace (fst (do_start fuel p s b i)) = new ++ trace s
                                    /\ Forall (fun ec => snd ec <= end_time s) new).
  { intros b i. destruct (do_start_res_cases p fuel s b i) as [Ok|Rf].
    - apply trace_ext_le; [apply (cf_mono _ _ (do_start_facts p fuel s b i) HI)|apply do_start_clock_le; auto].
    - apply trace_same. rewrite (do_start_refused _ _ _ _ _ Rf). reflexivity. }
  destruct c; cbn [do_cmd fst]; try (apply trace_same; reflexivity); auto.
  - apply trace_same. apply do_init_trace.
  - destruct (rep s); [apply St|apply trace_same; reflexivity].
  - destruct (do_step_res_cases p s) as [Ok|Rf].
    + apply trace_ext_le; [apply (cf_mono _ _ (do_step_facts p s) HI)|apply do_step_clock_le; auto].
    + apply trace_same. unfold do_step in *. destruct (step_checks s); [discriminate|reflexivity].
  - apply trace_same. destruct (running s); reflexivity.
  - apply trace_same. apply do_end_repl_trace.
Qed.

(* ------------------------------------------------------------------ *)
(** * Splitting a bounded run *)

Definition enter (b : Z) (i : bool) (s : sim) : sim := set_rs RStarted (set_incl i (set_bound b s)).
Definition run_until (fuel : nat) (p : program) (b : Z) (i : bool) (s : sim) : sim :=
  run_loop fuel p (enter b i s).

Lemma enter_core b i s : core_eq s (enter b i s).
Proof. unfold enter, core_eq; ssimpl; auto 10. Qed.

(* a calm run that did not exhaust its fuel: where it stands *)
Lemma run_until_calm p fuel b i s :
  calm (strat s) p -> flag (run_until fuel p b i s) = false ->
  let s' := run_until fuel p b i s in
  clock s' = b /\ strat s' = strat s
  /\ exists n, core_eq s' (citer n b i p s) /\ cterm b i (citer n b i p s).
Proof.
  intros Hc Hf. cbv zeta. unfold run_until in *.
  assert (Hc' : calm (strat (enter b i s)) p) by exact Hc.
  destruct (calm_run_exit p fuel (enter b i s) Hc' eq_refl Hf) as [evs [s1 (H1&HB&E)]].
  pose proof (runs_citer _ _ _ _ H1) as E1. change (bound (enter b i s)) with b in E1. change (incl (enter b i s)) with i in E1.
  destruct (citer_fixed (length evs) b i p (enter b i s)) as (Fb&Fi&_&_&Fs&_).
  rewrite <- E1 in Fb, Fi, Fs.
  destruct (stop_at_bound_fields s1) as (A&_&_&_&_&S&_).
  rewrite E. split; [rewrite A; exact Fb|]. split; [rewrite S; exact Fs|].
  exists (length evs).
  assert (Cc : core_eq s1 (citer (length evs) b i p s)).
  { rewrite E1. apply citer_core; [apply prog_equiv_refl|apply core_eq_sym, enter_core]. }
  split.
  - eapply core_eq_trans; [apply core_eq_sym, stop_at_bound_core|exact Cc].
  - eapply cterm_core; [exact Cc|]. apply (proj1 (head_beyond_cterm s1)) in HB.
    rewrite Fb, Fi in HB. exact HB.
Qed.

(** run_until b2 (run_until b1 s) = run_until b2 s for b1 <= b2 (on what the
    executed-event semantics depends on, and on the clock), for programs that
    do not interrupt runs and whenever no run exhausted its fuel. *)
Theorem run_split p f1 f2 f3 b1 i1 b2 i2 s :
  calm (strat s) p -> hz_le b1 i1 b2 i2 ->
  let s1 := run_until f1 p b1 i1 s in
  let s2 := run_until f2 p b2 i2 s1 in
  let s3 := run_until f3 p b2 i2 s in
  flag s1 = false -> flag s2 = false -> flag s3 = false ->
  core_eq s2 s3 /\ clock s2 = clock s3.
Proof.
  intros Hc HZ s1 s2 s3 F1 F2 F3.
  destruct (run_until_calm p f1 b1 i1 s Hc F1) as (K1&S1&n1&C1&T1). fold s1 in K1, S1, C1.
  assert (Hc1 : calm (strat s1) p) by (rewrite S1; exact Hc).
  destruct (run_until_calm p f2 b2 i2 s1 Hc1 F2) as (K2&_&n2&C2&T2). fold s2 in K2, C2.
  destruct (run_until_calm p f3 b2 i2 s Hc F3) as (K3&_&n3&C3&T3). fold s3 in K3, C3.
  split; [|congruence].
  destruct (citer_widen n1 b1 i1 b2 i2 p HZ s) as [m1 [_ Em]]. rewrite Em in C1.
  assert (C2' : core_eq (citer n2 b2 i2 p s1) (citer (m1 + n2) b2 i2 p s)).
  { rewrite citer_add. apply citer_core; [apply prog_equiv_refl|exact C1]. }
  pose proof (cterm_core _ _ _ _ C2' T2) as T2'.
  pose proof (citer_term_unique _ _ _ _ p s T2' T3) as U.
  eapply core_eq_trans; [exact C2|]. eapply core_eq_trans; [exact C2'|]. rewrite U. apply core_eq_sym; exact C3.
Qed.

(* ------------------------------------------------------------------ *)
(** * After initialize *)

(* an initialize whose construct_model raised leaves the simulator not initialised: nothing runs *)
Lemma do_init_raised p s r :
  snd (do_init p s r) = ResRaised ->
  rs (fst (do_init p s r)) = RNotInit /\ ps (fst (do_init p s r)) = PNotInit /\ worker (fst (do_init p s r)) = WAlive.
Proof.
  unfold do_init. destruct (running s); [discriminate|].
  set (s2 := set_created [] _).
  assert (W2 : worker s2 = WAlive) by (unfold s2; destruct (worker (set_pend [] s)); reflexivity).
  pose proof (hs_frame _ _ (exec_actions_hstep InConstruct (body p 0) s2)) as F.
  destruct (exec_actions InConstruct s2 (body p 0)) as [s3 failed]. cbn [fst] in *.
  pose proof (fr_worker _ _ F) as W3.
  destruct failed; [intros _; ssimpl; repeat split; congruence|].
  cbn [snd]. discriminate.
Qed.

Lemma do_init_res p s r :
  snd (do_init p s r) = (if running s then ResRefused else if snd (exec_actions InConstruct
     (set_created [] (set_clock (r_start r) (set_rep (Some r) (set_worker WAlive
        (match worker (set_pend [] s) with WNone => set_pend [] s | _ => do_cleanup (set_pend [] s) end))))) (body p 0))
     then ResRaised else ResOk).
Proof.
  unfold do_init. destruct (running s); [reflexivity|].
  match goal with |- context [exec_actions InConstruct ?X ?B] => destruct (exec_actions InConstruct X B) as [s3 [|]] end; reflexivity.
Qed.

Lemma do_init_live p s r : snd (do_init p s r) = ResOk -> Live (fst (do_init p s r)).
Proof.
  unfold do_init. destruct (running s) eqn:R; [discriminate|].
  set (s2 := set_created [] _).
  assert (W2 : worker s2 = WAlive) by (unfold s2; destruct (worker (set_pend [] s)); reflexivity).
  pose proof (hs_frame _ _ (exec_actions_hstep InConstruct (body p 0) s2)) as F.
  destruct (exec_actions InConstruct s2 (body p 0)) as [s3 failed]. cbn [fst] in *.
  pose proof (fr_worker _ _ F) as W3.
  destruct failed; [discriminate|]. intros _.
  set (s5 := set_ps PInit _).
  assert (H5 : running s5 = false /\ ps s5 = PInit /\ worker s5 = WAlive).
  { unfold s5, running. ssimpl; repeat split; congruence. }
  destruct H5 as (A&B&C).
  cbn [fst]. destruct (r_warm r <? clock s5); unfold Live, running in *; ssimpl; auto.
Qed.

(* ------------------------------------------------------------------ *)
(** * Removing the commands from a program; completion of a calm start *)

Definition is_cmd (a : action) : bool := match a with ACmd _ => true | _ => false end.
Definition strip_cmds (p : program) : program := map (filter (fun a => negb (is_cmd a))) p.

Lemma core_body_strip acts : core_body (filter (fun a => negb (is_cmd a)) acts) = core_body acts.
Proof.
  induction acts as [|a r IH]; cbn [filter core_body]; auto.
  destruct a; cbn [is_cmd negb core_body]; rewrite ?IH; auto.
Qed.

Lemma body_strip p h : body (strip_cmds p) h = filter (fun a => negb (is_cmd a)) (body p h).
Proof.
  unfold body, strip_cmds.
  change (@nil action) with (filter (fun a => negb (is_cmd a)) []) at 1. apply map_nth.
Qed.

(** The program with every command (in particular every stop()) removed from
    its handlers is equivalent in the sense of the segmentation theorem. *)
Lemma prog_equiv_strip p : prog_equiv p (strip_cmds p).
Proof. intros h. rewrite body_strip, core_body_strip. reflexivity. Qed.

(** A plain start of a program that does not interrupt runs, from a live
    quiescent state, ends the replication through the inclusive end bound
    unless the model ran out of fuel. *)
Theorem calm_start_completes p fuel s r :
  worker s = WAlive -> rep s = Some r -> start_checks s = true -> calm (strat s) p ->
  let s' := fst (do_cmd fuel p s CStart) in
  flag s' = false -> ps s' = PEnded /\ incl s' = true /\ clock s' = r_end r.
Proof.
  intros W Hr Ck Hc s' Hf. unfold s' in *. cbn [do_cmd] in *. rewrite Hr in *.
  assert (Ee : end_time s = r_end r) by (unfold end_time; rewrite Hr; reflexivity).
  destruct (start_checks_facts s Ck) as (_&_&Lt). rewrite Ee in Lt.
  destruct (do_start_shape p fuel s (r_end r) true Ck ltac:(lia) W) as [a [En Sh]]. rewrite Sh in *. cbn [fst] in *.
  assert (Cl : clamp s (r_end r) true = (r_end r, true)).
  { unfold clamp. rewrite Ee. destruct (Z.gtb_spec (r_end r) (r_end r)); [lia|reflexivity]. }
  rewrite Cl in En. cbn [fst snd] in En.
  destruct (after_loop_facts (run_loop fuel p a)) as (_&K&_&Ic&_&Fl&_). rewrite Fl in Hf.
  assert (Hca : calm (strat a) p) by (rewrite (en_strat _ _ _ _ En); exact Hc).
  destruct (calm_run_exit p fuel a Hca (en_rs _ _ _ _ En) Hf) as [evs [s1 (H1&HB&E)]].
  destruct (rf_bound _ _ _ (runs_facts _ _ _ _ H1)) as (Fb&Fi&Fr&Fp&_).
  assert (Pe : ps (run_loop fuel p a) = PEnding).
  { rewrite E. unfold stop_at_bound. cbv zeta.
    destruct (Z.geb_spec (bound s1) (end_time s1)) as [G|G]; [reflexivity|].
    exfalso. unfold end_time in G. rewrite Fr, Fb, (en_bound _ _ _ _ En) in G.
    pose proof (entered_end _ _ _ _ En) as Q. unfold end_time in Q. rewrite Q in G.
    unfold end_time in Ee. lia. }
  destruct (after_loop_ps (run_loop fuel p a)) as [P1 _]. destruct (P1 Pe) as [A _].
  split; [exact A|]. split.
  - rewrite Ic. destruct (run_loop_fixed p fuel a) as (_&I&_). rewrite I. apply (en_incl _ _ _ _ En).
  - rewrite K, E. destruct (stop_at_bound_fields s1) as (C&_). rewrite C, Fb. apply (en_bound _ _ _ _ En).
Qed.

(* ------------------------------------------------------------------ *)
(** * From initialize on *)

Lemma do_init_core p p' s r :
  prog_equiv p p' -> snd (do_init p s r) = ResOk -> snd (do_init p' s r) = ResOk ->
  core_eq (fst (do_init p s r)) (fst (do_init p' s r)).
Proof.
  intros PE. unfold do_init. destruct (running s); [intros; apply core_eq_refl|].
  set (s2 := set_created [] _).
  destruct (exec_actions_core_body InConstruct (body p 0) s2) as [A1 B1].
  destruct (exec_actions_core_body InConstruct (body p' 0) s2) as [A2 B2].
  rewrite <- (PE 0%nat) in A2, B2.
  assert (C3 : core_eq (fst (exec_actions InConstruct s2 (body p 0))) (fst (exec_actions InConstruct s2 (body p' 0))))
    by (eapply core_eq_trans; [exact A1|apply core_eq_sym; exact A2]).
  assert (K3 : clock (fst (exec_actions InConstruct s2 (body p 0))) = clock (fst (exec_actions InConstruct s2 (body p' 0))))
    by congruence.
  destruct (exec_actions InConstruct s2 (body p 0)) as [s3 f1].
  destruct (exec_actions InConstruct s2 (body p' 0)) as [t3 f2]. cbn [fst] in *.
  destruct f1; [discriminate|]. destruct f2; [discriminate|]. intros _ _.
  set (s5 := set_ps PInit (set_rs RInit s3)).
  set (t5 := set_ps PInit (set_rs RInit t3)).
  assert (C5 : core_eq s5 t5 /\ clock s5 = clock t5).
  { destruct C3 as (Cp&Cn&Cc&Ct&Cx&Cr). unfold s5, t5. unfold core_eq; ssimpl; auto 10. }
  destruct C5 as [(Cp&Cn&Cc&Ct&Cx&Cr) K5]. cbn [fst]. rewrite K5.
  destruct (r_warm r <? clock t5); unfold core_eq; ssimpl; rewrite ?Cp, ?Cn, ?Cc, ?Ct, ?Cx, ?Cr; auto 10.
Qed.

(* a simulator that is not initialised refuses every run command *)
Lemma notinit_frozen p fuel s c :
  rs s = RNotInit -> is_runcmd c = true -> fst (do_cmd fuel p s c) = s.
Proof.
  intros R Hc.
  assert (S1 : start_checks s = false) by (unfold start_checks; rewrite R; rewrite !andb_false_r; reflexivity).
  assert (S2 : step_checks s = false) by (unfold step_checks; rewrite R; rewrite !andb_false_r; reflexivity).
  assert (Rn : running s = false) by (unfold running; rewrite R; reflexivity).
  destruct c; try discriminate; cbn [do_cmd]; auto.
  - destruct (rep s); auto. unfold do_start. rewrite S1. auto.
  - unfold do_step. rewrite S2. auto.
  - rewrite Rn. auto.
  - unfold do_start. rewrite S1. auto.
  - unfold do_start. rewrite S1. auto.
Qed.

Lemma notinit_run_cmds p fuel cs : forall s,
  rs s = RNotInit -> forallb is_runcmd cs = true -> fst (run_cmds fuel p s cs) = s.
Proof.
  induction cs as [|c r IH]; intros s R Hc; cbn [run_cmds fst]; auto.
  cbn [forallb] in Hc. apply andb_true_iff in Hc. destruct Hc as [Hc Hr].
  pose proof (notinit_frozen p fuel s c R Hc) as E.
  destruct (do_cmd fuel p s c) as [s1 res]. cbn [fst] in E. subst s1.
  specialize (IH s R Hr). destruct (run_cmds fuel p s r) as [s2 sn]. exact IH.
Qed.

Lemma do_init_cases p s r :
  running s = false -> snd (do_init p s r) = ResOk \/ snd (do_init p s r) = ResRaised.
Proof.
  intros R. unfold do_init. rewrite R.
  match goal with |- context [exec_actions InConstruct ?X ?B] => destruct (exec_actions InConstruct X B) as [s3 [|]] end;
    cbn [snd]; auto.
Qed.

(** The whole replication: initialize, then any run commands, against
    initialize, then one start of an equivalent program.  (If construct_model
    raises, initialize is aborted and no run command is accepted, so the
    replication never ends: the hypotheses then cannot hold.) *)
Theorem segmentation_from_init p p' fuel fuel' r cs s :
  running s = false -> prog_equiv p p' -> forallb is_runcmd cs = true ->
  let s1 := fst (run_cmds fuel p s (CInit r :: cs)) in
  let t1 := fst (run_cmds fuel' p' s [CInit r; CStart]) in
  ps s1 = PEnded -> incl s1 = true -> ps t1 = PEnded -> incl t1 = true ->
  trace s1 = trace t1 /\ clock s1 = clock t1.
Proof.
  intros R PE Hc. cbv zeta. cbn [run_cmds do_cmd].
  destruct (do_init_cases p s r R) as [Ok|Ra]; [|
    destruct (do_init_raised p s r Ra) as (Rs&Ps&_);
    pose proof (notinit_run_cmds p fuel cs _ Rs Hc) as E;
    destruct (do_init p s r) as [s0 res0]; cbn [fst] in *;
    destruct (run_cmds fuel p s0 cs) as [s1 sn1]; cbn [fst] in *; subst s1; intros P1; congruence].
  destruct (do_init_cases p' s r R) as [Ok'|Ra']; [|
    destruct (do_init_raised p' s r Ra') as (Rs&Ps&_);
    pose proof (notinit_frozen p' fuel' _ CStart Rs eq_refl) as E; cbn [do_cmd] in E;
    destruct (do_init p' s r) as [t0 res0']; cbn [fst] in *;
    destruct (match rep t0 with Some r0 => do_start fuel' p' t0 (TNum (r_end r0)) true | None => (t0, ResRefused) end) as [t1 rs1];
    cbn [fst] in *; subst t1; intros _ _ P2; congruence].
  pose proof (do_init_core p p' s r PE Ok Ok') as C0.
  pose proof (do_init_live p s r Ok) as L0. pose proof (do_init_live p' s r Ok') as L0'.
  destruct (do_init p s r) as [s0 res0]. destruct (do_init p' s r) as [t0 res0']. cbn [fst] in *.
  pose proof (segmentation p p' fuel fuel' cs [CStart] s0 t0 PE C0 (or_introl L0) (or_introl L0') Hc eq_refl) as H.
  cbv zeta in H. cbn [run_cmds do_cmd] in H.
  destruct (run_cmds fuel p s0 cs) as [s1 sn1].
  destruct (match rep t0 with Some r0 => do_start fuel' p' t0 (TNum (r_end r0)) true | None => (t0, ResRefused) end) as [t1 rs1].
  cbn [fst] in *. intros P1 I1 P2 I2. destruct (H P1 I1 P2 I2) as [(_&_&_&T&_) K]. auto.
Qed.

(* ------------------------------------------------------------------ *)
(** * The guard at the end time

    With the guard of the pinned code ("refuse when clock >= end") a run that
    pauses exactly at the end time while events at that time are still pending
    (here: by two steps) could never be resumed or ended; with the repaired
    guard ("clock > end", the one [start_checks] models) the resuming start
    executes the remaining event and ends the replication with the trace of
    the uninterrupted run. *)
Definition start_checks_pinned (s : sim) : bool :=
  negb (running s)
  && match rep s with Some _ => true | None => false end
  && match rs s with RNotInit => false | _ => true end
  && match ps s with PInit | PStarted => true | _ => false end
  && (clock s <? end_time s).

Definition end_prog : program :=
  [ [ASched (MAbs (TNum 28)) 5 1; ASched (MAbs (TNum 32)) 5 1; ASched (MAbs (TNum 32)) 5 1]; [] ].
Definition end_s0 : sim := fst (do_cmd 100 end_prog (init_sim SWarnPause) (CInit (mkRepl 0 0 32))).
Definition end_s1 : sim := fst (run_cmds 100 end_prog end_s0 [CRunUpTo (TNum 28); CStep; CStep]).
Definition end_s2 : sim := fst (do_cmd 100 end_prog end_s1 CStart).
Definition end_t1 : sim := fst (do_cmd 100 end_prog end_s0 CStart).

Theorem pause_at_end_refuted_for_pinned_guard :
  ps end_s1 = PStarted /\ rs end_s1 = RStopped /\ clock end_s1 = end_time end_s1
  /\ length (pend end_s1) = 1%nat /\ length (trace end_s1) = 3%nat /\ length (trace end_t1) = 4%nat
  /\ start_checks_pinned end_s1 = false
  /\ start_checks end_s1 = true /\ ps end_s2 = PEnded /\ trace end_s2 = trace end_t1 /\ clock end_s2 = clock end_t1.
Proof. vm_compute. repeat split. Qed.
