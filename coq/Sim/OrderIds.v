(* C02, "ties broken ... then by scheduling order": event ids grow in the order
   in which events are created, in every reachable state, so the third key
   component (the id) orders same-time same-priority events by scheduling order. *)
From Coq Require Import ZArith List Bool Lia Sorting.Sorted.
From PV Require Import EventList.Key Sim.Model Sim.Order Sim.Horizon.
Import ListNotations.
Local Open Scope Z_scope.

Definition CreSorted (s : sim) : Prop := StronglySorted Z.lt (ids (created s)).

Lemma CreSorted_same s t : created t = created s -> CreSorted s -> CreSorted t.
Proof. unfold CreSorted. intros ->. auto. Qed.

Lemma sorted_snoc l x : StronglySorted Z.lt l -> Forall (fun i => i < x) l -> StronglySorted Z.lt (l ++ [x]).
Proof.
  intros S F. apply sorted_app; auto.
  - constructor; constructor.
  - intros a b Ha [<-|[]]. rewrite Forall_forall in F. auto.
Qed.

Lemma do_sched_cs s m prio h : Inv s -> CreSorted s -> CreSorted (do_sched s m prio h).
Proof.
  intros HI HC. unfold do_sched. destruct (sched_time s m); [|exact HC].
  unfold CreSorted, add_event; ssimpl. unfold ids. rewrite map_app. cbn [map ev_id].
  apply sorted_snoc; [exact HC|apply (inv_cre _ HI)].
Qed.

Lemma do_cancel_created s k : created (do_cancel s k) = created s.
Proof.
  unfold do_cancel. destruct (nth_error (created s) k); auto. destruct (ev_mem e (pend s)); reflexivity.
Qed.

Lemma LogOnly_created s t : LogOnly s t -> created t = created s.
Proof. intros ((_&_&C&_)&_). auto. Qed.

Lemma exec_action_cs md s a : Inv s -> CreSorted s -> CreSorted (fst (exec_action md s a)).
Proof.
  intros HI HC. destruct a; cbn [exec_action fst]; auto.
  - apply do_sched_cs; auto.
  - eapply CreSorted_same; [apply do_cancel_created|auto].
  - eapply CreSorted_same; [apply (LogOnly_created _ _ (inner_cmd_logonly md s c))|auto].
Qed.

Lemma exec_actions_cs md acts : forall s, Inv s -> CreSorted s -> CreSorted (fst (exec_actions md s acts)).
Proof.
  induction acts as [|a r IH]; intros s HI HC; cbn [exec_actions]; auto.
  pose proof (exec_action_cs md s a HI HC) as C1.
  pose proof (hs_inv _ _ (exec_action_hstep md s a) HI) as I1.
  destruct (exec_action md s a) as [s1 f]. cbn [fst] in *. destruct f; cbn [fst]; auto.
Qed.

Lemma exec_event_cs md p s e :
  Inv (set_trace ((e, clock s) :: trace s) s) -> CreSorted s -> CreSorted (fst (exec_event md p s e)).
Proof.
  intros HI HC. unfold exec_event. destruct (ev_h e); [exact HC|].
  apply exec_actions_cs; auto.
Qed.

Lemma take_cs k p s e r : Inv s -> pend s = e :: r -> CreSorted s -> CreSorted (take k p s e r).
Proof.
  intros HI Hp HC. pose proof (popped_inv s e r HI Hp) as IP.
  destruct k; unfold take, take_event, step_event.
  - set (s2 := set_clock (ev_time e) _).
    assert (I2 : Inv (set_trace ((e, clock s2) :: trace s2) s2)).
    { eapply LogOnly_Inv; [|exact IP]. unfold s2, popped. destruct (ev_time e =? clock (set_pend r s)); logonly. }
    assert (C2 : CreSorted s2) by (unfold s2, CreSorted; destruct (ev_time e =? clock (set_pend r s)); exact HC).
    pose proof (exec_event_cs InRun p s2 e I2 C2) as C3.
    destruct (exec_event InRun p s2 e) as [s3 f]. cbn [fst] in C3.
    destruct f; [destruct (strat s3)|]; exact C3.
  - set (s2 := set_clock (ev_time e) _).
    assert (I2 : Inv (set_trace ((e, clock s2) :: trace s2) s2)).
    { eapply LogOnly_Inv; [|exact IP]. unfold s2, popped. logonly. }
    apply exec_event_cs; auto.
Qed.

Lemma runs_cs p s evs s' : runs p s evs s' -> Inv s -> CreSorted s -> CreSorted s'.
Proof.
  induction 1 as [s|s e r evs s' R Hp B H IH]; auto. intros HI HC.
  apply IH; [apply (tk_inv _ _ _ _ (take_event_took p s e r Hp) HI)|apply (take_cs TRun p s e r HI Hp HC)].
Qed.

Lemma run_loop_cs p fuel s : Inv s -> CreSorted s -> CreSorted (run_loop fuel p s).
Proof.
  intros HI HC. destruct (run_loop_runs p fuel s) as [evs [s1 [H1 H2]]].
  pose proof (runs_cs _ _ _ _ H1 HI HC) as C1.
  destruct (loop_exit_core _ _ H2) as (_&_&C&_). unfold CreSorted. rewrite <- C. exact C1.
Qed.

Lemma CoreClk_cs s t : CoreClk s t -> CreSorted s -> CreSorted t.
Proof. intros ((_&_&C&_)&_). unfold CreSorted. rewrite C. auto. Qed.

Lemma worker_run_cs p fuel s : Inv s -> CreSorted s -> CreSorted (worker_run fuel p s).
Proof.
  intros HI HC. unfold worker_run. destruct (worker s); auto.
  apply (CoreClk_cs _ _ (worker_ending_coreclk _)).
  destruct (ps s); auto; unfold CreSorted; ssimpl; apply run_loop_cs;
    try (eapply CoreClk_Inv; [|exact HI]; unfold CoreClk, core_eq; ssimpl; auto 20); exact HC.
Qed.

Lemma do_start_cs p fuel s b i : Inv s -> CreSorted s -> CreSorted (fst (do_start fuel p s b i)).
Proof.
  intros HI HC. unfold do_start. destruct (start_checks s); auto. destruct b as [bz|]; auto.
  destruct (bz <? clock s); auto.
  destruct (bz >? end_time s); cbv zeta; cbn [fst]; apply worker_run_cs;
    try (eapply CoreClk_Inv; [|exact HI]; unfold CoreClk, core_eq; ssimpl; destruct (ps s); ssimpl; auto 20);
    unfold CreSorted; ssimpl; destruct (ps s); exact HC.
Qed.

Lemma do_step_cs p s : Inv s -> CreSorted s -> CreSorted (fst (do_step p s)).
Proof.
  intros HI HC. unfold do_step. destruct (step_checks s); auto. cbv zeta. cbn [fst].
  set (s1 := match ps s with PInit => _ | _ => s end).
  set (s2 := emit (NStart (clock s1)) (set_rs RStarted s1)).
  assert (C : CoreClk s s2) by (unfold s2, s1; destruct (ps s); unfold CoreClk, core_eq; ssimpl; auto 20).
  pose proof (CoreClk_Inv _ _ C HI) as I2. pose proof (CoreClk_cs _ _ C HC) as C2.
  unfold CreSorted. ssimpl. fold (CreSorted (match pend s2 with [] => s2 | e :: r => if ev_time e >? end_time s2 then s2 else step_event p s2 e r end)).
  destruct (pend s2) as [|e r] eqn:Hp; auto. destruct (ev_time e >? end_time s2); auto.
  apply (take_cs TStep p s2 e r I2 Hp C2).
Qed.

Lemma do_init_cs p s r : Inv s -> CreSorted (fst (do_init p s r)) \/ (running s = true /\ fst (do_init p s r) = s).
Proof.
  intros HI. unfold do_init. destruct (running s); [right; auto|left].
  set (s2 := set_created [] _).
  assert (I2 : Inv s2).
  { pose proof (Inv_clear s (r_start r) HI) as [H1 H2 H3 H4 H5 H6].
    unfold s2. destruct (worker (set_pend [] s)); constructor; ssimpl; auto; constructor. }
  assert (C2 : CreSorted s2) by (unfold CreSorted, s2; destruct (worker (set_pend [] s)); ssimpl; constructor).
  pose proof (exec_actions_cs InConstruct (body p 0) s2 I2 C2) as C3.
  destruct (exec_actions InConstruct s2 (body p 0)) as [s3 failed]. cbn [fst] in *.
  destruct failed; [exact C3|].
  set (s5 := set_ps PInit _).
  assert (C5 : CreSorted s5) by (unfold s5, CreSorted; exact C3).
  destruct (r_warm r <? clock s5); exact C5.
Qed.

Theorem do_cmd_cs p fuel s c : Inv s -> CreSorted s -> CreSorted (fst (do_cmd fuel p s c)).
Proof.
  intros HI HC. destruct c; cbn [do_cmd fst]; auto.
  - destruct (do_init_cs p s r HI) as [H|[_ ->]]; auto.
  - destruct (rep s); auto. apply do_start_cs; auto.
  - apply do_step_cs; auto.
  - destruct (running s); exact HC.
  - apply do_start_cs; auto.
  - apply do_start_cs; auto.
  - unfold do_end_repl. destruct (ps s); auto. cbn [fst].
    set (s2 := set_pend [] _).
    assert (C2 : CreSorted s2) by (unfold s2, CreSorted; destruct (clock s <? end_time s); exact HC).
    unfold worker_run. destruct (worker s2); auto.
Qed.

(** In every reachable state the ids of the created events increase in the
    order of creation: among same-time, same-priority events the smaller key
    is the one scheduled earlier. *)
Theorem created_ids_increasing p s : reachable p s -> StronglySorted Z.lt (ids (created s)).
Proof.
  induction 1 as [st|s fuel c H IH].
  - constructor.
  - apply do_cmd_cs; auto. apply (reachable_inv _ _ H).
Qed.

Lemma sorted_nth_lt l : StronglySorted Z.lt l ->
  forall i j a b, (i < j)%nat -> nth_error l i = Some a -> nth_error l j = Some b -> a < b.
Proof.
  induction 1 as [|x r S IH F]; intros i j a b L Hi Hj; [destruct i; discriminate|].
  destruct i as [|i], j as [|j]; cbn [nth_error] in *; try lia.
  - inversion Hi; subst. rewrite Forall_forall in F. apply F. eapply nth_error_In; eauto.
  - apply (IH i j); auto. lia.
Qed.

Theorem scheduling_order_is_id_order p s i j a b :
  reachable p s -> (i < j)%nat -> nth_error (created s) i = Some a -> nth_error (created s) j = Some b ->
  ev_id a < ev_id b.
Proof.
  intros H L Hi Hj. apply (sorted_nth_lt _ (created_ids_increasing p s H) i j); auto;
    unfold ids; rewrite nth_error_map; [rewrite Hi|rewrite Hj]; reflexivity.
Qed.
