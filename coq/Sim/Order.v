(* C02 -- order and exactly-once theorems for the simulator model (Sim/Model.v).

   Everything is proved for every program, every fuel and every command
   sequence: an invariant [Inv] of all reachable states, a frame lemma for
   handler bodies, and a decomposition of the run loop into the sequence of
   events it takes ([runs]). *)
From Coq Require Import ZArith List Bool Lia Sorting.Sorted Sorting.Permutation.
From PV Require Import EventList.Key EventList.KeyProofs Sim.Model.
Import ListNotations.
Local Open Scope Z_scope.

Ltac ssimpl :=
  cbn [clock pend nid rs ps bound incl strat worker rep created cancelled trace outs ntfs obs flag
       set_clock set_pend set_nid set_rs set_ps set_bound set_incl set_strat set_worker set_rep
       set_created set_cancelled set_trace set_outs set_ntfs set_obs set_flag
       emit out raise_flag fst snd] in *.

(* ------------------------------------------------------------------ *)
(** * Events, keys, the sorted pending list *)

Definition ev_lt (a b : ev) : Prop := ev_ltb a b = true.
Definition ev_le (a b : ev) : Prop := key_leb (ev_key a) (ev_key b) = true.
Definition ids (l : list ev) : list Z := map ev_id l.

Lemma ev_ltb_time a b : ev_ltb a b = true -> ev_time a <= ev_time b.
Proof.
  unfold ev_ltb, key_ltb, ev_key; cbn [k_time k_nprio k_id].
  destruct (Z.eqb_spec (ev_time a) (ev_time b)); cbn [negb]; [lia|].
  intros H; apply Z.ltb_lt in H; lia.
Qed.

Lemma ev_lt_trans a b c : ev_lt a b -> ev_lt b c -> ev_lt a c.
Proof. unfold ev_lt, ev_ltb. apply key_ltb_trans. Qed.

Lemma ev_lt_le a b : ev_lt a b -> ev_le a b.
Proof. unfold ev_lt, ev_le, ev_ltb. apply key_ltb_leb. Qed.

Lemma ev_le_refl a : ev_le a a.
Proof. unfold ev_le. apply key_leb_refl. Qed.

Lemma ev_eqb_key a b : ev_eqb a b = true <-> ev_key a = ev_key b.
Proof. unfold ev_eqb. apply key_eqb_eq. Qed.

Lemma ev_key_id a b : ev_key a = ev_key b -> ev_id a = ev_id b.
Proof. unfold ev_key. intros H. inversion H. reflexivity. Qed.

Lemma ev_nlt_lt a b : ev_ltb a b = false -> ev_id a <> ev_id b -> ev_lt b a.
Proof.
  unfold ev_lt, ev_ltb. intros H Hid.
  destruct (key_trichotomy (ev_key a) (ev_key b)) as [H1|[H1|H1]]; auto.
  - congruence.
  - apply ev_key_id in H1. contradiction.
Qed.

(* ins *)
Lemma ins_perm e l : Permutation (ins e l) (e :: l).
Proof.
  induction l as [|x r IH]; cbn [ins]; auto.
  destruct (ev_ltb e x); auto.
  rewrite IH. apply perm_swap.
Qed.

Lemma ins_In e l x : In x (ins e l) <-> x = e \/ In x l.
Proof.
  split; intros H.
  - apply (Permutation_in _ (ins_perm e l)) in H. destruct H; auto.
  - apply (Permutation_in _ (Permutation_sym (ins_perm e l))). destruct H; [left|right]; auto.
Qed.

Lemma ins_sorted e l :
  StronglySorted ev_lt l -> (forall x, In x l -> ev_id x <> ev_id e) ->
  StronglySorted ev_lt (ins e l).
Proof.
  induction l as [|x r IH]; intros Hs Hid; cbn [ins].
  - constructor; constructor.
  - inversion Hs as [|? ? Hr Hx]; subst.
    destruct (ev_ltb e x) eqn:E.
    + constructor; auto. constructor; auto.
      eapply Forall_impl; [|exact Hx]. intros y Hy. eapply ev_lt_trans; eauto.
    + constructor.
      * apply IH; auto. intros y Hy. apply Hid. right; auto.
      * apply Forall_forall. intros y Hy. apply ins_In in Hy. destruct Hy as [->|Hy].
        -- apply ev_nlt_lt; auto. intros Q. apply (Hid x); [left; auto|auto].
        -- rewrite Forall_forall in Hx. auto.
Qed.

(* rem *)
Lemma rem_incl e l x : In x (rem e l) -> In x l.
Proof.
  induction l as [|y r IH]; cbn [rem]; auto.
  destruct (ev_eqb e y); intros H; [right; auto|].
  destruct H; [left; auto|right; auto].
Qed.

Lemma rem_sorted e l : StronglySorted ev_lt l -> StronglySorted ev_lt (rem e l).
Proof.
  induction l as [|y r IH]; cbn [rem]; auto.
  intros Hs. inversion Hs as [|? ? Hr Hy]; subst.
  destruct (ev_eqb e y); auto.
  constructor; auto.
  apply Forall_forall. intros x Hx. apply rem_incl in Hx. rewrite Forall_forall in Hy. auto.
Qed.

Lemma ev_mem_true e l : ev_mem e l = true <-> exists x, In x l /\ ev_key e = ev_key x.
Proof.
  unfold ev_mem. rewrite existsb_exists. split; intros [x [H1 H2]]; exists x; split; auto;
    apply ev_eqb_key; auto.
Qed.

Lemma ev_mem_false e l : ev_mem e l = false -> forall x, In x l -> ev_key e <> ev_key x.
Proof.
  intros H x Hx Hk. assert (ev_mem e l = true) by (apply ev_mem_true; eauto). congruence.
Qed.

Lemma rem_absent e l : ev_mem e l = false -> rem e l = l.
Proof.
  induction l as [|y r IH]; cbn [rem ev_mem existsb]; auto.
  unfold ev_mem in *. intros H. apply orb_false_iff in H. destruct H as [H1 H2].
  rewrite H1. f_equal. auto.
Qed.

(* removing a member: the list is a permutation of (the removed element :: rest) *)
Lemma rem_perm e l :
  ev_mem e l = true -> exists x, In x l /\ ev_key e = ev_key x /\ Permutation l (x :: rem e l).
Proof.
  induction l as [|y r IH]; cbn [rem ev_mem existsb]; [discriminate|].
  destruct (ev_eqb e y) eqn:E.
  - intros _. exists y. split; [left; auto|]. split; [apply ev_eqb_key; auto|]. apply Permutation_refl.
  - cbn [orb]. intros H. destruct (IH H) as [x [Hx [Hk Hp]]].
    exists x. split; [right; auto|]. split; auto.
    rewrite perm_swap. constructor. exact Hp.
Qed.

Lemma sorted_head_min e r :
  StronglySorted ev_lt (e :: r) -> forall x, In x (e :: r) -> ev_le e x.
Proof.
  intros Hs x [<-|Hx]; [apply ev_le_refl|].
  inversion Hs as [|? ? _ Hall]; subst. rewrite Forall_forall in Hall. apply ev_lt_le; auto.
Qed.

Lemma NoDup_map_inj {A B} (f : A -> B) l a b :
  NoDup (map f l) -> In a l -> In b l -> f a = f b -> a = b.
Proof.
  induction l as [|x r IH]; cbn [map]; [intros _ []|].
  intros Hn Ha Hb Hf. inversion Hn as [|? ? Hnx Hr]; subst.
  destruct Ha as [->|Ha], Hb as [->|Hb]; auto.
  - exfalso. apply Hnx. rewrite Hf. apply in_map; auto.
  - exfalso. apply Hnx. rewrite <- Hf. apply in_map; auto.
Qed.

Lemma NoDup_app_disj {A} (a b : list A) x : NoDup (a ++ b) -> In x a -> In x b -> False.
Proof.
  induction a as [|y r IH]; cbn [app]; [intros _ []|].
  intros N Ha Hb. inversion N as [|? ? Hn Hr]; subst. destruct Ha as [->|Ha]; [|auto].
  apply Hn. apply in_or_app. right; auto.
Qed.

Lemma NoDup_app_r {A} (a b : list A) : NoDup (a ++ b) -> NoDup b.
Proof.
  induction a as [|y r IH]; cbn [app]; auto. intros N. inversion N; auto.
Qed.

(* ------------------------------------------------------------------ *)
(** * The invariant of all reachable simulator states *)

Definition executed (s : sim) : list ev := map fst (trace s).
(* every event that currently exists or ever left the pending set *)
Definition live (s : sim) : list ev := pend s ++ executed s ++ cancelled s.

Record Inv (s : sim) : Prop := mkInv {
  inv_sorted : StronglySorted ev_lt (pend s);
  inv_ge : Forall (fun e => clock s <= ev_time e) (pend s);
  inv_ids : Forall (fun i => i < nid s) (ids (live s));
  inv_cre : Forall (fun i => i < nid s) (ids (created s));
  inv_nodup : NoDup (ids (live s));
  inv_clk : Forall (fun ec => snd ec = ev_time (fst ec)) (trace s)
}.

(* accounting: every event created in this replication is pending, executed or cancelled *)
Definition Acct (s : sim) : Prop := List.incl (created s) (live s).

(* the part of the state the executed-event semantics depends on (besides the clock) *)
Definition core_eq (s t : sim) : Prop :=
  pend s = pend t /\ nid s = nid t /\ created s = created t /\ trace s = trace t
  /\ cancelled s = cancelled t /\ rep s = rep t.

Lemma core_eq_refl s : core_eq s s.
Proof. unfold core_eq; auto 10. Qed.

Lemma core_eq_sym s t : core_eq s t -> core_eq t s.
Proof. unfold core_eq; intros (?&?&?&?&?&?); auto 10. Qed.

Lemma core_eq_trans s t u : core_eq s t -> core_eq t u -> core_eq s u.
Proof.
  unfold core_eq; intros (?&?&?&?&?&?) (?&?&?&?&?&?).
  repeat split; etransitivity; eauto.
Qed.

Lemma live_core s t : core_eq s t -> live s = live t.
Proof. unfold core_eq, live, executed; intros (->&_&_&->&->&_); reflexivity. Qed.

Lemma Inv_core s t : core_eq s t -> clock s = clock t -> Inv s -> Inv t.
Proof.
  intros C Hc [H1 H2 H3 H4 H5 H6]. pose proof (live_core _ _ C) as L.
  destruct C as (Cp&Cn&Cc&Ct&Cx&Cr).
  constructor; rewrite <- ?L, <- ?Cp, <- ?Cn, <- ?Cc, <- ?Ct, <- ?Hc; auto.
Qed.

Lemma Acct_core s t : core_eq s t -> Acct s -> Acct t.
Proof.
  intros C. unfold Acct. rewrite <- (live_core _ _ C). destruct C as (_&_&->&_). auto.
Qed.

Lemma Inv_init st : Inv (init_sim st).
Proof. constructor; cbn; constructor. Qed.

Lemma Acct_init st : Acct (init_sim st).
Proof. intros x []. Qed.

(* ------------------------------------------------------------------ *)
(** * Scheduling requests *)

Definition illegal (s : sim) (m : smode) : Prop :=
  match m with
  | MNow => False
  | MRel (TNum d) => d < 0
  | MRel TNaN => True
  | MAbs (TNum t) => t < clock s
  | MAbs TNaN => True
  end.

Lemma sched_time_none s m : sched_time s m = None <-> illegal s m.
Proof.
  destruct m as [|[d|]|[t|]]; cbn [sched_time illegal]; try tauto.
  - split; [discriminate|tauto].
  - destruct (Z.ltb_spec d 0); split; try tauto; try discriminate; lia.
  - destruct (Z.ltb_spec t (clock s)); split; try tauto; try discriminate; lia.
Qed.

Lemma sched_time_some s m t : sched_time s m = Some t -> clock s <= t.
Proof.
  destruct m as [|[d|]|[t'|]]; cbn [sched_time]; try discriminate.
  - intros Q; inversion Q; lia.
  - destruct (Z.ltb_spec d 0); [discriminate|]. intros Q; inversion Q; lia.
  - destruct (Z.ltb_spec t' (clock s)); [discriminate|]. intros Q; inversion Q; lia.
Qed.

(* what a handler body may change *)
Record Frame (s s' : sim) : Prop := mkFrame {
  fr_clock : clock s' = clock s;
  fr_trace : trace s' = trace s;
  fr_rep : rep s' = rep s;
  fr_strat : strat s' = strat s;
  fr_bound : bound s' = bound s;
  fr_incl : incl s' = incl s;
  fr_ps : ps s' = ps s;
  fr_worker : worker s' = worker s;
  fr_nid : nid s <= nid s';
  fr_created : exists l, created s' = created s ++ l /\ Forall (fun e => nid s <= ev_id e) l;
  fr_cancelled : exists l, cancelled s' = l ++ cancelled s
}.

Lemma Frame_refl s : Frame s s.
Proof. constructor; auto; try lia; exists []; [rewrite app_nil_r; split; [reflexivity|constructor]|reflexivity]. Qed.

Lemma Frame_trans a b c : Frame a b -> Frame b c -> Frame a c.
Proof.
  intros [] []. constructor; try congruence; try lia.
  - destruct fr_created0 as [l1 [E1 G1]], fr_created1 as [l2 [E2 G2]]. exists (l1 ++ l2). split.
    + rewrite E2, E1, app_assoc. reflexivity.
    + apply Forall_app. split; auto. eapply Forall_impl; [|exact G2]. cbn; intros; lia.
  - destruct fr_cancelled0 as [l1 E1], fr_cancelled1 as [l2 E2]. exists (l2 ++ l1).
    rewrite E2, E1, app_assoc. reflexivity.
Qed.

(* states that differ only in run state / logs *)
Lemma Frame_core s t :
  core_eq s t -> clock t = clock s -> strat t = strat s -> bound t = bound s -> incl t = incl s ->
  ps t = ps s -> worker t = worker s -> Frame s t.
Proof.
  intros (Cp&Cn&Cc&Ct&Cx&Cr) ? ? ? ? ? ?. constructor; auto; try congruence; try lia.
  - exists []. rewrite app_nil_r. auto.
  - exists []. auto.
Qed.

Lemma ids_app a b : ids (a ++ b) = ids a ++ ids b.
Proof. apply map_app. Qed.

(* putting a fresh event (id = next id, time not before the clock) on the list *)
Definition ins_event (e : ev) (s : sim) : sim :=
  set_nid (nid s + 1) (set_pend (ins e (pend s)) s).

Lemma ins_event_live e s : Permutation (live (ins_event e s)) (e :: live s).
Proof.
  unfold live, executed, ins_event; ssimpl.
  rewrite (ins_perm _ (pend s)). reflexivity.
Qed.

Lemma ins_event_inv e s :
  ev_id e = nid s -> clock s <= ev_time e -> Inv s -> Inv (ins_event e s).
Proof.
  intros Hid Ht [H1 H2 H3 H4 H5 H6].
  assert (P : Permutation (ids (live (ins_event e s))) (nid s :: ids (live s))).
  { unfold ids. rewrite (ins_event_live e s). cbn [map]. rewrite Hid. reflexivity. }
  assert (Hfresh : ~ In (nid s) (ids (live s))).
  { intros Hin. rewrite Forall_forall in H3. specialize (H3 _ Hin). lia. }
  constructor.
  - unfold ins_event; ssimpl. apply ins_sorted; auto.
    intros x Hx Q. apply Hfresh. rewrite <- Hid, <- Q.
    unfold ids, live. apply in_map. apply in_or_app. left; auto.
  - unfold ins_event; ssimpl. apply Forall_forall. intros x Hx. apply ins_In in Hx.
    destruct Hx as [->|Hx]; [lia|]. rewrite Forall_forall in H2; auto.
  - eapply Permutation_Forall; [apply Permutation_sym; exact P|].
    unfold ins_event at 1; ssimpl. constructor; [lia|].
    eapply Forall_impl; [|exact H3]. cbn; intros; lia.
  - unfold ins_event; ssimpl.
    eapply Forall_impl; [|exact H4]. cbn; intros; lia.
  - eapply Permutation_NoDup; [apply Permutation_sym; exact P|]. constructor; auto.
  - unfold ins_event; ssimpl. auto.
Qed.

Lemma add_event_eq t prio h s :
  add_event t prio h s =
  let e := mkEv t prio (nid s) h (length (created s)) in
  set_created (created s ++ [e]) (ins_event e s).
Proof. reflexivity. Qed.

Lemma add_event_live t prio h s :
  Permutation (live (add_event t prio h s))
              (mkEv t prio (nid s) h (length (created s)) :: live s).
Proof. apply (ins_event_live (mkEv t prio (nid s) h (length (created s))) s). Qed.

Lemma add_event_inv t prio h s :
  clock s <= t -> Inv s -> Inv (add_event t prio h s).
Proof.
  intros Ht HI. rewrite add_event_eq. cbv zeta.
  set (e := mkEv t prio (nid s) h (length (created s))).
  destruct (ins_event_inv e s eq_refl Ht HI) as [H1 H2 H3 H4 H5 H6].
  constructor; auto.
  ssimpl. unfold ids. rewrite map_app, Forall_app. split; auto.
  cbn. constructor; [unfold ins_event; ssimpl; lia|constructor].
Qed.

Lemma add_event_acct t prio h s : Acct s -> Acct (add_event t prio h s).
Proof.
  unfold Acct. intros H x Hx.
  apply (Permutation_in _ (Permutation_sym (add_event_live t prio h s))).
  unfold add_event in Hx; ssimpl. apply in_app_or in Hx. destruct Hx as [Hx|[<-|[]]].
  - right. auto.
  - left. reflexivity.
Qed.

Lemma add_event_frame t prio h s : Frame s (add_event t prio h s).
Proof.
  unfold add_event. constructor; ssimpl; auto; try lia.
  - eexists; split; [reflexivity|]. constructor; [cbn; lia|constructor].
  - exists []; reflexivity.
Qed.

Lemma do_sched_inv s m prio h : Inv s -> Inv (do_sched s m prio h).
Proof.
  intros H. unfold do_sched. destruct (sched_time s m) eqn:E.
  - eapply Inv_core; [| |apply add_event_inv; [eapply sched_time_some; eauto|exact H]].
    + unfold core_eq; ssimpl; auto 10.
    + reflexivity.
  - eapply Inv_core; [| |exact H]; [unfold core_eq; ssimpl; auto 10|reflexivity].
Qed.

Lemma do_sched_acct s m prio h : Acct s -> Acct (do_sched s m prio h).
Proof.
  intros H. unfold do_sched. destruct (sched_time s m) eqn:E.
  - eapply Acct_core; [|apply add_event_acct; exact H]. unfold core_eq; ssimpl; auto 10.
  - eapply Acct_core; [|exact H]. unfold core_eq; ssimpl; auto 10.
Qed.

Lemma do_sched_frame s m prio h : Frame s (do_sched s m prio h).
Proof.
  unfold do_sched. destruct (sched_time s m) eqn:E.
  - eapply Frame_trans; [apply add_event_frame|].
    apply Frame_core; ssimpl; auto. unfold core_eq; ssimpl; auto 10.
  - apply Frame_core; ssimpl; auto. unfold core_eq; ssimpl; auto 10.
Qed.

(** A request in the past, with a negative delay or at a time that is not a
    number is refused and nothing but the outcome log changes. *)
Lemma illegal_refused_eq s m prio h :
  illegal s m -> do_sched s m prio h = out ORefused s.
Proof.
  intros H. apply sched_time_none in H. unfold do_sched. rewrite H. reflexivity.
Qed.

Lemma legal_accepted s m prio h :
  ~ illegal s m -> exists t, sched_time s m = Some t /\
     do_sched s m prio h = out OAccepted (add_event t prio (HUser h) s).
Proof.
  intros H. unfold do_sched. destruct (sched_time s m) eqn:E.
  - eauto.
  - exfalso. apply H. apply sched_time_none. auto.
Qed.

(* ------------------------------------------------------------------ *)
(** * Cancelling *)

Lemma do_cancel_live s k :
  Permutation (ids (live (do_cancel s k))) (ids (live s)).
Proof.
  unfold do_cancel. destruct (nth_error (created s) k) as [e|]; auto.
  destruct (ev_mem e (pend s)) eqn:M; auto.
  destruct (rem_perm _ _ M) as [x [Hx [Hk Hp]]].
  unfold live, executed; ssimpl. unfold ids. rewrite !map_app. cbn [map].
  rewrite (Permutation_map ev_id Hp). cbn [map app].
  rewrite <- (ev_key_id _ _ Hk).
  set (R := map ev_id (rem e (pend s))). set (X := map ev_id (map fst (trace s))).
  set (Cc := map ev_id (cancelled s)).
  rewrite (app_assoc R X (ev_id e :: Cc)). rewrite <- Permutation_middle.
  rewrite <- app_assoc. reflexivity.
Qed.

Lemma do_cancel_inv s k : Inv s -> Inv (do_cancel s k).
Proof.
  intros H. pose proof (do_cancel_live s k) as P. destruct H as [H1 H2 H3 H4 H5 H6].
  unfold do_cancel in *. destruct (nth_error (created s) k) as [e|]; [|constructor; auto].
  destruct (ev_mem e (pend s)) eqn:M; [|constructor; auto].
  constructor; ssimpl; auto.
  - apply rem_sorted; auto.
  - apply Forall_forall. intros x Hx. apply rem_incl in Hx. rewrite Forall_forall in H2. auto.
  - eapply Permutation_Forall; [apply Permutation_sym; exact P|]. auto.
  - eapply Permutation_NoDup; [apply Permutation_sym; exact P|]. auto.
Qed.

Lemma do_cancel_frame s k : Frame s (do_cancel s k).
Proof.
  unfold do_cancel. destruct (nth_error (created s) k) as [e|]; [|apply Frame_refl].
  destruct (ev_mem e (pend s)); [|apply Frame_refl].
  constructor; ssimpl; auto; try lia.
  - exists []. rewrite app_nil_r. auto.
  - exists [e]. reflexivity.
Qed.

(* under the accounting invariant the event removed is the very event asked for *)
Lemma cancel_removes_it s k e :
  Inv s -> Acct s -> nth_error (created s) k = Some e -> ev_mem e (pend s) = true ->
  In e (pend s) /\ Permutation (pend s) (e :: rem e (pend s)).
Proof.
  intros HI HA Hn M. destruct (rem_perm _ _ M) as [x [Hx [Hk Hp]]].
  assert (x = e).
  { apply (NoDup_map_inj ev_id (live s)); [apply (inv_nodup _ HI)| | |].
    - unfold live. apply in_or_app. left; auto.
    - apply HA. eapply nth_error_In; eauto.
    - symmetry. apply ev_key_id; auto. }
  subst x. auto.
Qed.

Lemma do_cancel_acct s k : Inv s -> Acct s -> Acct (do_cancel s k).
Proof.
  intros HI HA. unfold do_cancel. destruct (nth_error (created s) k) as [e|] eqn:Hn; auto.
  destruct (ev_mem e (pend s)) eqn:M; auto.
  destruct (cancel_removes_it s k e HI HA Hn M) as [Hin Hp].
  unfold Acct, live, executed in *; ssimpl. intros x Hx. specialize (HA x Hx).
  apply in_app_or in HA. destruct HA as [HA|HA].
  - apply (Permutation_in _ Hp) in HA. destruct HA as [<-|HA].
    + apply in_or_app. right. apply in_or_app. right. left. reflexivity.
    + apply in_or_app. left. auto.
  - apply in_or_app. right. apply in_app_or in HA. apply in_or_app. destruct HA; [left|right; right]; auto.
Qed.

Lemma do_sched_live s m prio h : List.incl (live s) (live (do_sched s m prio h)).
Proof.
  unfold do_sched. destruct (sched_time s m); [|intros x Hx; exact Hx].
  intros x Hx. change (In x (live (add_event z prio (HUser h) s))).
  apply (Permutation_in _ (Permutation_sym (add_event_live z prio (HUser h) s))). right; auto.
Qed.

Lemma do_sched_pend s m prio h x :
  In x (pend (do_sched s m prio h)) ->
  In x (pend s) \/ (In x (created (do_sched s m prio h)) /\ nid s <= ev_id x).
Proof.
  unfold do_sched. destruct (sched_time s m); ssimpl; auto.
  unfold add_event; ssimpl. intros Hx. apply ins_In in Hx. destruct Hx as [->|Hx]; auto.
  right. split; [|cbn; lia]. apply in_or_app. right. left. reflexivity.
Qed.

Lemma do_cancel_incl_live s k : Inv s -> Acct s -> List.incl (live s) (live (do_cancel s k)).
Proof.
  intros HI HA. unfold do_cancel. destruct (nth_error (created s) k) as [e|] eqn:Hn; [|intros x Hx; exact Hx].
  destruct (ev_mem e (pend s)) eqn:M; [|intros x Hx; exact Hx].
  destruct (cancel_removes_it s k e HI HA Hn M) as [Hin Hp].
  unfold live, executed in *; ssimpl. intros x Hx.
  apply in_app_or in Hx. destruct Hx as [Hx|Hx].
  - apply (Permutation_in _ Hp) in Hx. destruct Hx as [<-|Hx].
    + apply in_or_app. right. apply in_or_app. right. left. reflexivity.
    + apply in_or_app. left. auto.
  - apply in_or_app. right. apply in_app_or in Hx. apply in_or_app. destruct Hx; [left|right; right]; auto.
Qed.

Lemma do_cancel_pend s k x : In x (pend (do_cancel s k)) -> In x (pend s).
Proof.
  unfold do_cancel. destruct (nth_error (created s) k) as [e|]; auto.
  destruct (ev_mem e (pend s)); auto. ssimpl. apply rem_incl.
Qed.

(** Cancelling an event that is not pending (already executed, already
    cancelled, never created) changes nothing at all. *)
Lemma cancel_unknown_noop s k : nth_error (created s) k = None -> do_cancel s k = s.
Proof. intros H. unfold do_cancel. rewrite H. reflexivity. Qed.

Lemma not_pending_not_mem s e :
  Inv s -> In e (executed s ++ cancelled s) -> ev_mem e (pend s) = false.
Proof.
  intros HI Hin. destruct (ev_mem e (pend s)) eqn:M; auto. exfalso.
  apply ev_mem_true in M. destruct M as [x [Hx Hk]].
  pose proof (inv_nodup _ HI) as N. unfold live in N. rewrite ids_app in N.
  apply (NoDup_app_disj _ _ (ev_id e) N).
  - unfold ids. rewrite (ev_key_id _ _ Hk). apply in_map. exact Hx.
  - unfold ids. apply in_map. exact Hin.
Qed.

(* ------------------------------------------------------------------ *)
(** * Handler bodies *)

(* t differs from s only in run state, notification / outcome / observation logs and the flag *)
Definition LogOnly (s t : sim) : Prop :=
  core_eq s t /\ clock t = clock s /\ strat t = strat s /\ bound t = bound s /\ incl t = incl s
  /\ ps t = ps s /\ worker t = worker s.

Lemma LogOnly_refl s : LogOnly s s.
Proof. unfold LogOnly; repeat split; auto using core_eq_refl. Qed.

Lemma LogOnly_Frame s t : LogOnly s t -> Frame s t.
Proof. intros (?&?&?&?&?&?&?). apply Frame_core; auto. Qed.

Lemma LogOnly_Inv s t : LogOnly s t -> Inv s -> Inv t.
Proof. intros (C&Hc&_). apply Inv_core; auto. Qed.

Lemma LogOnly_Acct s t : LogOnly s t -> Acct s -> Acct t.
Proof. intros (C&_). apply Acct_core; auto. Qed.

Ltac logonly := unfold LogOnly, core_eq; ssimpl; auto 20.

Lemma inner_cmd_logonly md s c : LogOnly s (inner_cmd md s c).
Proof.
  unfold inner_cmd. destruct md; try (logonly; fail);
  destruct c; destruct (running s); logonly.
Qed.

(* what every piece of handler code guarantees *)
Record HStep (s s' : sim) : Prop := mkHStep {
  hs_frame : Frame s s';
  hs_inv : Inv s -> Inv s';
  hs_acct : Inv s -> Acct s -> Acct s';
  hs_live : Inv s -> Acct s -> List.incl (live s) (live s');
  hs_pend : forall x, In x (pend s') -> In x (pend s) \/ (In x (created s') /\ nid s <= ev_id x)
}.

Lemma HStep_refl s : HStep s s.
Proof. constructor; auto using Frame_refl. intros _ _ x Hx; exact Hx. Qed.

Lemma HStep_trans a b c : HStep a b -> HStep b c -> HStep a c.
Proof.
  intros [F1 I1 A1 L1 P1] [F2 I2 A2 L2 P2]. constructor; eauto using Frame_trans.
  - intros HI HA x Hx. apply L2; [apply I1; auto|apply A1; auto|apply L1; auto].
  - intros x Hx. destruct (P2 x Hx) as [H|H]; [destruct (P1 x H) as [H'|H']; auto|].
    + right. destruct H' as [H' Hn]. split; auto.
      destruct (fr_created _ _ F2) as [l [-> _]]. apply in_or_app. left; auto.
    + right. destruct H as [H Hn]. split; auto. pose proof (fr_nid _ _ F1). lia.
Qed.

Lemma HStep_logonly s t : LogOnly s t -> HStep s t.
Proof.
  intros L. constructor; intros; eauto using LogOnly_Frame, LogOnly_Inv, LogOnly_Acct.
  - destruct L as (C&_). rewrite <- (live_core _ _ C). intros x Hx; exact Hx.
  - destruct L as ((C&_)&_). left. rewrite C. auto.
Qed.

Lemma exec_action_hstep md s a : HStep s (fst (exec_action md s a)).
Proof.
  destruct a; cbn [exec_action fst].
  - constructor; intros; auto using do_sched_frame, do_sched_inv, do_sched_acct, do_sched_live, do_sched_pend.
  - constructor; intros; auto using do_cancel_frame, do_cancel_inv, do_cancel_acct, do_cancel_incl_live.
    left. eapply do_cancel_pend; eauto.
  - apply HStep_refl.
  - apply HStep_logonly, inner_cmd_logonly.
  - apply HStep_logonly. logonly.
Qed.

Lemma exec_actions_hstep md acts : forall s, HStep s (fst (exec_actions md s acts)).
Proof.
  induction acts as [|a r IH]; intros s; cbn [exec_actions].
  - apply HStep_refl.
  - pose proof (exec_action_hstep md s a) as H1.
    destruct (exec_action md s a) as [s1 failed]. cbn [fst] in H1.
    destruct failed; cbn [fst]; [exact H1|].
    eapply HStep_trans; [exact H1|apply IH].
Qed.

(** While a handler runs the clock stays what it was set to. *)
Lemma handler_clock_const md acts s : clock (fst (exec_actions md s acts)) = clock s.
Proof. apply (fr_clock _ _ (hs_frame _ _ (exec_actions_hstep md acts s))). Qed.

(* ------------------------------------------------------------------ *)
(** * Taking the first pending event *)

(* the state right after the pop: e logged with the clock it runs at *)
Definition popped (s : sim) (e : ev) (r : list ev) : sim :=
  set_trace ((e, ev_time e) :: trace s) (set_clock (ev_time e) (set_pend r s)).

Lemma popped_live s e r : pend s = e :: r -> Permutation (live s) (live (popped s e r)).
Proof.
  intros Hp. unfold live, executed, popped; ssimpl. rewrite Hp. cbn [map fst app].
  apply Permutation_middle.
Qed.

Lemma popped_inv s e r : Inv s -> pend s = e :: r -> Inv (popped s e r).
Proof.
  intros [H1 H2 H3 H4 H5 H6] Hp.
  pose proof (Permutation_map ev_id (popped_live s e r Hp)) as P. fold (ids (live s)) in P.
  rewrite Hp in H1, H2. inversion H1 as [|? ? Hr He]; subst.
  constructor.
  - unfold popped; ssimpl. auto.
  - unfold popped; ssimpl. eapply Forall_impl; [|exact He]. intros x Hx. apply ev_ltb_time; auto.
  - eapply Permutation_Forall; [exact P|]. exact H3.
  - unfold popped; ssimpl. auto.
  - eapply Permutation_NoDup; [exact P|]. exact H5.
  - unfold popped; ssimpl. constructor; auto.
Qed.

Lemma popped_acct s e r : pend s = e :: r -> Acct s -> Acct (popped s e r).
Proof.
  intros Hp HA x Hx. apply (Permutation_in _ (popped_live s e r Hp)). apply HA.
  unfold popped in Hx; ssimpl. auto.
Qed.

(* exec_event on a state whose clock is already the event time *)
Lemma exec_event_hstep md p s e :
  HStep (set_trace ((e, clock s) :: trace s) s) (fst (exec_event md p s e)).
Proof.
  unfold exec_event. destruct (ev_h e).
  - cbn [fst]. apply HStep_logonly. logonly.
  - apply exec_actions_hstep.
Qed.

Definition time_ntf (e : ev) (s : sim) : sim :=
  if ev_time e =? clock s then s else emit (NTime (ev_time e)) s.

Lemma time_ntf_logonly e s : LogOnly s (time_ntf e s).
Proof. unfold time_ntf. destruct (ev_time e =? clock s); logonly. Qed.

(* what one execution of the loop body / of step guarantees, relative to [popped] *)
Record Took (s : sim) (e : ev) (r : list ev) (s' : sim) : Prop := mkTook {
  tk_frame : Frame (popped s e r) s';
  tk_inv : Inv s -> Inv s';
  tk_acct : Inv s -> Acct s -> Acct s';
  tk_live : Inv s -> Acct s -> List.incl (live s) (live s');
  tk_pend : forall x, In x (pend s') -> In x r \/ (In x (created s') /\ nid s <= ev_id x)
}.

Lemma took_of_hstep s e r s0 s' :
  pend s = e :: r -> LogOnly (popped s e r) s0 -> HStep s0 s' -> Took s e r s'.
Proof.
  intros Hp L [F I A Lv P].
  assert (I0 : Inv s -> Inv s0) by (intros HI; eapply LogOnly_Inv; [exact L|]; apply popped_inv; auto).
  assert (A0 : Acct s -> Acct s0) by (intros HA; eapply LogOnly_Acct; [exact L|]; apply popped_acct; auto).
  constructor; auto.
  - eapply Frame_trans; [apply LogOnly_Frame; exact L|exact F].
  - intros HI HA x Hx. apply Lv; auto. destruct L as (C&_). rewrite <- (live_core _ _ C).
    apply (Permutation_in _ (popped_live s e r Hp)). exact Hx.
  - destruct L as ((C&Cn&_)&_). intros x Hx. destruct (P x Hx) as [H|H].
    + left. rewrite <- C in H. unfold popped in H; ssimpl. exact H.
    + right. rewrite <- Cn in H. unfold popped in H; ssimpl. exact H.
Qed.

Lemma take_event_took p s e r : pend s = e :: r -> Took s e r (take_event p s e r).
Proof.
  intros Hp. unfold take_event.
  set (s2 := set_clock (ev_time e) (if ev_time e =? clock (set_pend r s) then set_pend r s
                                    else emit (NTime (ev_time e)) (set_pend r s))).
  pose proof (exec_event_hstep InRun p s2 e) as H.
  destruct (exec_event InRun p s2 e) as [s3 failed]. cbn [fst] in H.
  assert (L : LogOnly (popped s e r) (set_trace ((e, clock s2) :: trace s2) s2)).
  { unfold s2, popped. destruct (ev_time e =? clock (set_pend r s)); logonly. }
  assert (T : Took s e r s3) by (eapply took_of_hstep; eauto).
  destruct failed; [destruct (strat s3)|]; auto.
  destruct T as [F I A Lv P]. constructor; auto.
  - eapply Frame_trans; [exact F|]. apply LogOnly_Frame. logonly.
  - intros HI. eapply LogOnly_Inv; [|apply I; exact HI]. logonly.
Qed.

Lemma step_event_took p s e r : pend s = e :: r -> Took s e r (step_event p s e r).
Proof.
  intros Hp. unfold step_event.
  set (s2 := set_clock (ev_time e) (emit (NTime (ev_time e)) (set_pend r s))).
  eapply took_of_hstep; [exact Hp| |apply (exec_event_hstep InStep p s2 e)].
  unfold s2, popped. logonly.
Qed.

Lemma took_clock s e r s' : Took s e r s' -> clock s' = ev_time e.
Proof. intros [F _ _ _ _]. rewrite (fr_clock _ _ F). reflexivity. Qed.

Lemma took_trace s e r s' : Took s e r s' -> trace s' = (e, ev_time e) :: trace s.
Proof. intros [F _ _ _ _]. rewrite (fr_trace _ _ F). reflexivity. Qed.

Lemma took_created s e r s' :
  Took s e r s' -> exists l, created s' = created s ++ l /\ Forall (fun x => nid s <= ev_id x) l.
Proof. intros [F _ _ _ _]. apply (fr_created _ _ F). Qed.

Lemma took_nid s e r s' : Took s e r s' -> nid s <= nid s'.
Proof. intros [F _ _ _ _]. apply (fr_nid _ _ F). Qed.

Lemma took_cancelled s e r s' : Took s e r s' -> exists l, cancelled s' = l ++ cancelled s.
Proof. intros [F _ _ _ _]. apply (fr_cancelled _ _ F). Qed.

Lemma took_bound s e r s' : Took s e r s' -> bound s' = bound s /\ incl s' = incl s /\ rep s' = rep s
                                           /\ ps s' = ps s /\ strat s' = strat s /\ worker s' = worker s.
Proof. intros [F _ _ _ _]. destruct F. unfold popped in *; ssimpl. auto 10. Qed.

(* ------------------------------------------------------------------ *)
(** * Time order of the executed-event log *)

(* [Mono s s']: s' extends the log of s by entries whose clocks lie between the
   two clocks and do not decrease (the log is newest first). *)
Definition later (a b : ev * Z) : Prop := snd b <= snd a.

Definition Mono (s s' : sim) : Prop :=
  clock s <= clock s' /\
  exists new, trace s' = new ++ trace s
    /\ Forall (fun ec => clock s <= snd ec <= clock s') new
    /\ StronglySorted later new.

Lemma Mono_refl s : Mono s s.
Proof. split; [lia|]. exists []. repeat split; constructor. Qed.

Lemma sorted_app {A} (R : A -> A -> Prop) l1 l2 :
  StronglySorted R l1 -> StronglySorted R l2 ->
  (forall a b, In a l1 -> In b l2 -> R a b) -> StronglySorted R (l1 ++ l2).
Proof.
  induction l1 as [|x r IH]; cbn [app]; auto.
  intros H1 H2 H. inversion H1 as [|? ? Hr Hx]; subst. constructor.
  - apply IH; auto. intros; apply H; auto. right; auto.
  - apply Forall_app. split; auto. apply Forall_forall. intros b Hb. apply H; auto. left; auto.
Qed.

Lemma Mono_trans a b c : Mono a b -> Mono b c -> Mono a c.
Proof.
  intros [L1 [n1 [E1 [F1 S1]]]] [L2 [n2 [E2 [F2 S2]]]]. split; [lia|].
  exists (n2 ++ n1). split; [rewrite E2, E1, app_assoc; reflexivity|]. split.
  - apply Forall_app. split; eapply Forall_impl; try eassumption; cbn; intros; lia.
  - apply sorted_app; auto. intros x y Hx Hy. unfold later.
    rewrite Forall_forall in F1, F2. specialize (F1 _ Hy). specialize (F2 _ Hx). lia.
Qed.

Lemma Mono_same s t : trace t = trace s -> clock s <= clock t -> Mono s t.
Proof. intros E L. split; auto. exists []. repeat split; auto; constructor. Qed.

Lemma took_mono s e r s' : Inv s -> pend s = e :: r -> Took s e r s' -> Mono s s'.
Proof.
  intros HI Hp T. pose proof (inv_ge _ HI) as G. rewrite Hp in G. inversion G; subst.
  unfold Mono. rewrite (took_clock _ _ _ _ T). split; auto.
  exists [(e, ev_time e)]. rewrite (took_trace _ _ _ _ T). repeat split.
  - constructor; [cbn [snd]; lia|constructor].
  - constructor; constructor.
Qed.

(* ------------------------------------------------------------------ *)
(** * The run loop as the sequence of events it takes *)

Inductive runs (p : program) : sim -> list ev -> sim -> Prop :=
| runs_nil s : runs p s [] s
| runs_cons s e r evs s' :
    running s = true -> pend s = e :: r -> beyond s e = false ->
    runs p (take_event p s e r) evs s' -> runs p s (e :: evs) s'.

Definition head_beyond (s : sim) : Prop :=
  match pend s with [] => True | e :: _ => beyond s e = true end.

Inductive loop_exit (s1 s' : sim) : Prop :=
| exit_stopped : running s1 = false -> s' = s1 -> loop_exit s1 s'
| exit_bound : running s1 = true -> head_beyond s1 -> s' = stop_at_bound s1 -> loop_exit s1 s'
| exit_fuel : running s1 = true -> s' = raise_flag s1 -> loop_exit s1 s'.

Lemma run_loop_runs p fuel : forall s,
  exists evs s1, runs p s evs s1 /\ loop_exit s1 (run_loop fuel p s).
Proof.
  induction fuel as [|f IH]; intros s; cbn [run_loop].
  - exists [], s. split; [constructor|]. destruct (running s) eqn:R.
    + apply exit_fuel; auto.
    + apply exit_stopped; auto.
  - destruct (running s) eqn:R.
    + destruct (pend s) as [|e r] eqn:Hp.
      * exists [], s. split; [constructor|]. apply exit_bound; auto. unfold head_beyond. rewrite Hp. exact I.
      * destruct (beyond s e) eqn:B.
        -- exists [], s. split; [constructor|]. apply exit_bound; auto. unfold head_beyond. rewrite Hp. exact B.
        -- destruct (IH (take_event p s e r)) as [evs [s1 [H1 H2]]].
           exists (e :: evs), s1. split; auto. econstructor; eauto.
    + exists [], s. split; [constructor|]. apply exit_stopped; auto.
Qed.

Lemma beyond_false_le s e : beyond s e = false -> ev_time e <= bound s.
Proof.
  unfold beyond. intros H. apply orb_false_iff in H. destruct H as [H _].
  destruct (Z.gtb_spec (ev_time e) (bound s)); [discriminate|lia].
Qed.

Lemma beyond_true_ge s e : beyond s e = true -> bound s <= ev_time e.
Proof.
  unfold beyond. intros H. apply orb_true_iff in H. destruct H as [H|H].
  - destruct (Z.gtb_spec (ev_time e) (bound s)); [lia|discriminate].
  - apply andb_true_iff in H. destruct H as [H _]. apply Z.eqb_eq in H. lia.
Qed.

(* a record of everything a sequence of loop passes preserves *)
Record RunsFacts (s : sim) (evs : list ev) (s' : sim) : Prop := mkRunsFacts {
  rf_inv : Inv s -> Inv s';
  rf_acct : Inv s -> Acct s -> Acct s';
  rf_mono : Inv s -> Mono s s';
  rf_trace : trace s' = rev (map (fun e => (e, ev_time e)) evs) ++ trace s;
  rf_bound : bound s' = bound s /\ incl s' = incl s /\ rep s' = rep s /\ ps s' = ps s
             /\ strat s' = strat s /\ worker s' = worker s;
  rf_le : Forall (fun e => ev_time e <= bound s) evs;
  rf_clock : clock s <= bound s -> clock s' <= bound s
}.

Lemma runs_facts p s evs s' : runs p s evs s' -> RunsFacts s evs s'.
Proof.
  induction 1 as [s|s e r evs s' R Hp B H IH].
  - constructor; auto using Mono_refl; try tauto; auto 10.
  - pose proof (take_event_took p s e r Hp) as T.
    destruct (took_bound _ _ _ _ T) as (Tb&Ti&Tr&Tp&Ts&Tw).
    destruct IH as [I A M Tr' Bd Le Ck]. constructor.
    + intros HI. apply I. apply (tk_inv _ _ _ _ T HI).
    + intros HI HA. apply A; [apply (tk_inv _ _ _ _ T HI)|apply (tk_acct _ _ _ _ T HI HA)].
    + intros HI. eapply Mono_trans; [eapply took_mono; eauto|]. apply M. apply (tk_inv _ _ _ _ T HI).
    + rewrite Tr', (took_trace _ _ _ _ T). cbn [map rev]. rewrite <- app_assoc. reflexivity.
    + destruct Bd as (?&?&?&?&?&?). repeat split; congruence.
    + constructor; [apply beyond_false_le; auto|]. rewrite Tb in Le. auto.
    + intros _. rewrite Tb in Ck. apply Ck. rewrite (took_clock _ _ _ _ T). apply beyond_false_le; auto.
Qed.

(** Each executed event is the key-minimum of the pending set at the moment
    it is taken: for every split of the sequence there is the intermediate
    state in which the event is the first of a list it is the minimum of. *)
Lemma runs_split p s evs s' a e b :
  runs p s evs s' -> evs = a ++ e :: b ->
  exists sm r, runs p s a sm /\ pend sm = e :: r /\ beyond sm e = false
               /\ runs p (take_event p sm e r) b s'.
Proof.
  intros H. revert a. induction H as [s|s x r evs s' R Hp B H IH]; intros a E.
  - destruct a; discriminate.
  - destruct a as [|y a]; cbn [app] in E; inversion E; subst.
    + exists s, r. repeat split; auto. constructor.
    + destruct (IH a eq_refl) as [sm [r' [H1 [H2 [H3 H4]]]]].
      exists sm, r'. repeat split; auto. econstructor; eauto.
Qed.

Lemma runs_inv p s evs s' : runs p s evs s' -> Inv s -> Inv s'.
Proof. intros H. apply (rf_inv _ _ _ (runs_facts _ _ _ _ H)). Qed.

Theorem exec_is_minimum p s evs s' a e b :
  Inv s -> runs p s evs s' -> evs = a ++ e :: b ->
  exists sm, runs p s a sm /\ In e (pend sm) /\ clock sm <= ev_time e
             /\ forall x, In x (pend sm) -> ev_le e x.
Proof.
  intros HI H E. destruct (runs_split _ _ _ _ _ _ _ H E) as [sm [r [H1 [H2 [H3 H4]]]]].
  exists sm. pose proof (runs_inv _ _ _ _ H1 HI) as HIm. repeat split; auto.
  - rewrite H2. left; auto.
  - pose proof (inv_ge _ HIm) as G. rewrite H2 in G. inversion G; auto.
  - intros x Hx. rewrite H2 in Hx. apply (sorted_head_min e r); auto.
    rewrite <- H2. apply (inv_sorted _ HIm).
Qed.

(* ------------------------------------------------------------------ *)
(** * Leaving the loop *)

Lemma head_beyond_all s : Inv s -> head_beyond s -> forall e, In e (pend s) -> beyond s e = true.
Proof.
  unfold head_beyond. intros HI H e He. pose proof (inv_sorted _ HI) as S.
  destruct (pend s) as [|x r]; [destruct He|].
  destruct He as [<-|He]; auto.
  inversion S as [|? ? _ Hall]; subst. rewrite Forall_forall in Hall. specialize (Hall _ He).
  unfold ev_lt, ev_ltb, key_ltb, ev_key in Hall. cbn [k_time k_nprio k_id] in Hall.
  unfold beyond in *. apply orb_true_iff in H. apply orb_true_iff.
  destruct (Z.eqb_spec (ev_time x) (ev_time e)) as [Q|Q]; cbn [negb] in Hall.
  - rewrite <- Q. exact H.
  - apply Z.ltb_lt in Hall. left. destruct H as [H|H].
    + destruct (Z.gtb_spec (ev_time x) (bound s)); [|discriminate].
      destruct (Z.gtb_spec (ev_time e) (bound s)); auto; lia.
    + apply andb_true_iff in H. destruct H as [H _]. apply Z.eqb_eq in H.
      destruct (Z.gtb_spec (ev_time e) (bound s)); auto; lia.
Qed.

Lemma stop_at_bound_inv s : Inv s -> head_beyond s -> Inv (stop_at_bound s).
Proof.
  intros HI HB. pose proof (head_beyond_all s HI HB) as All. destruct HI as [H1 H2 H3 H4 H5 H6].
  assert (G : Forall (fun e => bound s <= ev_time e) (pend s)).
  { apply Forall_forall. intros e He. apply beyond_true_ge. auto. }
  unfold stop_at_bound. cbv zeta.
  match goal with |- context [if ?c then _ else _] => destruct c end; constructor; ssimpl; auto.
Qed.

Lemma stop_at_bound_core s : core_eq s (stop_at_bound s).
Proof. unfold stop_at_bound. destruct (bound s >=? end_time s); unfold core_eq; ssimpl; auto 10. Qed.

Lemma loop_exit_inv s1 s' : Inv s1 -> loop_exit s1 s' -> Inv s'.
Proof.
  intros HI [R ->|R HB ->|R ->]; auto.
  - apply stop_at_bound_inv; auto.
  - eapply LogOnly_Inv; [|exact HI]. logonly.
Qed.

Lemma loop_exit_acct s1 s' : Acct s1 -> loop_exit s1 s' -> Acct s'.
Proof.
  intros HA [R ->|R HB ->|R ->]; auto.
  eapply Acct_core; [apply stop_at_bound_core|auto].
Qed.

Lemma loop_exit_mono s1 s' : clock s1 <= bound s1 -> loop_exit s1 s' -> Mono s1 s'.
Proof.
  intros L [R ->|R HB ->|R ->]; try apply Mono_refl.
  - apply Mono_same.
    + unfold stop_at_bound. destruct (bound s1 >=? end_time s1); reflexivity.
    + unfold stop_at_bound. destruct (bound s1 >=? end_time s1); ssimpl; auto.
  - apply Mono_same; ssimpl; auto; lia.
Qed.

Lemma run_loop_inv p fuel s : Inv s -> Inv (run_loop fuel p s).
Proof.
  intros HI. destruct (run_loop_runs p fuel s) as [evs [s1 [H1 H2]]].
  eapply loop_exit_inv; [|exact H2]. eapply runs_inv; eauto.
Qed.

Lemma run_loop_acct p fuel s : Inv s -> Acct s -> Acct (run_loop fuel p s).
Proof.
  intros HI HA. destruct (run_loop_runs p fuel s) as [evs [s1 [H1 H2]]].
  eapply loop_exit_acct; [|exact H2]. apply (rf_acct _ _ _ (runs_facts _ _ _ _ H1)); auto.
Qed.

Lemma run_loop_mono p fuel s : Inv s -> clock s <= bound s -> Mono s (run_loop fuel p s).
Proof.
  intros HI L. destruct (run_loop_runs p fuel s) as [evs [s1 [H1 H2]]].
  pose proof (runs_facts _ _ _ _ H1) as F.
  eapply Mono_trans; [apply (rf_mono _ _ _ F HI)|]. apply loop_exit_mono; auto.
  destruct (rf_bound _ _ _ F) as (->&_). apply (rf_clock _ _ _ F L).
Qed.

(* ------------------------------------------------------------------ *)
(** * Commands *)

Definition CoreClk (s t : sim) : Prop := core_eq s t /\ clock t = clock s.

Lemma CoreClk_Inv s t : CoreClk s t -> Inv s -> Inv t.
Proof. intros [C E]. apply Inv_core; auto. Qed.
Lemma CoreClk_Acct s t : CoreClk s t -> Acct s -> Acct t.
Proof. intros [C E]. apply Acct_core; auto. Qed.
Lemma CoreClk_Mono s t : CoreClk s t -> Mono s t.
Proof. intros [(_&_&_&T&_) E]. apply Mono_same; auto. lia. Qed.
Lemma CoreClk_trans a b c : CoreClk a b -> CoreClk b c -> CoreClk a c.
Proof. intros [C1 E1] [C2 E2]. split; [eapply core_eq_trans; eauto|congruence]. Qed.

Ltac coreclk := unfold CoreClk, core_eq; ssimpl; auto 20.

Lemma worker_ending_coreclk s : CoreClk s (worker_ending s).
Proof. unfold worker_ending. destruct (ps s); coreclk. Qed.

(* one lemma for the three properties of a whole command *)
Record CmdFacts (s s' : sim) : Prop := mkCmdFacts {
  cf_inv : Inv s -> Inv s';
  cf_acct : Inv s -> Acct s -> Acct s';
  cf_mono : Inv s -> Mono s s'
}.

Lemma CmdFacts_coreclk s t : CoreClk s t -> CmdFacts s t.
Proof. intros H. constructor; intros; eauto using CoreClk_Inv, CoreClk_Acct, CoreClk_Mono. Qed.

Lemma CmdFacts_refl s : CmdFacts s s.
Proof. apply CmdFacts_coreclk. coreclk. Qed.

Lemma CmdFacts_trans a b c : CmdFacts a b -> CmdFacts b c -> CmdFacts a c.
Proof. intros [I1 A1 M1] [I2 A2 M2]. constructor; eauto using Mono_trans. Qed.

Lemma run_loop_facts p fuel s : clock s <= bound s -> CmdFacts s (run_loop fuel p s).
Proof.
  intros L. constructor; intros; auto using run_loop_inv, run_loop_acct, run_loop_mono.
Qed.

Lemma worker_run_facts p fuel s : clock s <= bound s -> CmdFacts s (worker_run fuel p s).
Proof.
  intros L. unfold worker_run. destruct (worker s); try apply CmdFacts_refl.
  assert (R : CmdFacts s (set_rs RStopped
       (emit (NStop (clock (run_loop fuel p (set_rs RStarted (emit (NStart (clock s)) s)))))
          (run_loop fuel p (set_rs RStarted (emit (NStart (clock s)) s)))))).
  { eapply CmdFacts_trans; [|apply CmdFacts_coreclk; coreclk].
    eapply CmdFacts_trans; [|apply run_loop_facts; ssimpl; exact L].
    apply CmdFacts_coreclk; coreclk. }
  destruct (ps s);
    (eapply CmdFacts_trans; [|apply CmdFacts_coreclk, worker_ending_coreclk]);
    solve [exact R | apply CmdFacts_refl].
Qed.

Lemma start_checks_clock s : start_checks s = true -> clock s <= end_time s.
Proof.
  unfold start_checks. intros H. apply andb_true_iff in H. destruct H as [_ H]. apply Z.leb_le; auto.
Qed.

Lemma do_start_facts p fuel s b i : CmdFacts s (fst (do_start fuel p s b i)).
Proof.
  unfold do_start. destruct (start_checks s) eqn:Ck; [|apply CmdFacts_refl].
  destruct b as [bz|]; [|apply CmdFacts_refl].
  destruct (Z.ltb_spec bz (clock s)); [apply CmdFacts_refl|].
  pose proof (start_checks_clock s Ck) as Le.
  destruct (Z.gtb_spec bz (end_time s)); cbn [fst].
  - eapply CmdFacts_trans; [|apply worker_run_facts].
    + apply CmdFacts_coreclk. ssimpl. destruct (ps s); coreclk.
    + ssimpl. destruct (ps s); ssimpl; lia.
  - eapply CmdFacts_trans; [|apply worker_run_facts].
    + apply CmdFacts_coreclk. ssimpl. destruct (ps s); coreclk.
    + ssimpl. destruct (ps s); ssimpl; lia.
Qed.

Lemma took_facts s e r s' : pend s = e :: r -> Took s e r s' -> CmdFacts s s'.
Proof.
  intros Hp T. constructor.
  - apply (tk_inv _ _ _ _ T).
  - apply (tk_acct _ _ _ _ T).
  - intros HI. eapply took_mono; eauto.
Qed.

Lemma do_step_facts p s : CmdFacts s (fst (do_step p s)).
Proof.
  unfold do_step. destruct (step_checks s); [|apply CmdFacts_refl]. cbv zeta. cbn [fst].
  set (s1 := match ps s with PInit => _ | _ => s end).
  set (s2 := emit (NStart (clock s1)) (set_rs RStarted s1)).
  eapply CmdFacts_trans; [|apply CmdFacts_coreclk; coreclk].
  assert (C : CoreClk s s2) by (unfold s2, s1; destruct (ps s); coreclk).
  eapply CmdFacts_trans; [apply CmdFacts_coreclk; exact C|].
  destruct (pend s2) as [|e r] eqn:Hp; [apply CmdFacts_refl|].
  destruct (ev_time e >? end_time s2); [apply CmdFacts_refl|].
  eapply took_facts; [exact Hp|]. apply step_event_took; auto.
Qed.

Lemma do_cleanup_coreclk s : CoreClk s (do_cleanup s).
Proof. unfold do_cleanup. coreclk. Qed.

(* dropping the pending events and moving the clock *)
Lemma Inv_clear s c : Inv s -> Inv (set_clock c (set_pend [] s)).
Proof.
  intros [H1 H2 H3 H4 H5 H6]. unfold live in *. unfold ids in *. rewrite map_app in *.
  constructor; unfold live, ids; ssimpl; auto; cbn [app]; try constructor.
  - apply Forall_app in H3. tauto.
  - eapply NoDup_app_r; eauto.
Qed.

Lemma do_end_repl_inv p fuel s : Inv s -> Inv (fst (do_end_repl fuel p s)).
Proof.
  intros HI. unfold do_end_repl. destruct (ps s); auto. cbn [fst].
  set (s2 := set_pend [] _).
  assert (Inv s2).
  { unfold s2. destruct (clock s <? end_time s).
    - eapply CoreClk_Inv; [|apply (Inv_clear s (end_time s) HI)]. coreclk.
    - eapply CoreClk_Inv; [|apply (Inv_clear s (clock s) HI)]. coreclk. }
  unfold worker_run. destruct (worker s2) eqn:W; auto.
  replace (ps s2) with PEnding by reflexivity. cbv iota.
  eapply CoreClk_Inv; [apply worker_ending_coreclk|auto].
Qed.

Lemma do_end_repl_mono p fuel s : Mono s (fst (do_end_repl fuel p s)).
Proof.
  unfold do_end_repl. destruct (ps s); try apply Mono_refl. cbn [fst].
  set (s2 := set_pend [] _).
  assert (M : Mono s s2).
  { unfold s2. destruct (Z.ltb_spec (clock s) (end_time s)); apply Mono_same; ssimpl; auto; lia. }
  unfold worker_run. destruct (worker s2) eqn:W; auto.
Qed.

Lemma do_init_inv p s r : Inv s -> Inv (fst (do_init p s r)).
Proof.
  intros HI. unfold do_init. destruct (running s); auto.
  set (s2 := set_created [] _).
  assert (I2 : Inv s2).
  { pose proof (Inv_clear s (r_start r) HI) as [H1 H2 H3 H4 H5 H6].
    unfold s2. destruct (worker (set_pend [] s)); constructor; ssimpl; auto; constructor. }
  pose proof (exec_actions_hstep InConstruct (body p 0) s2) as HS.
  destruct (exec_actions InConstruct s2 (body p 0)) as [s3 failed]. cbn [fst] in HS.
  pose proof (hs_inv _ _ HS I2) as I3.
  destruct failed; [eapply CoreClk_Inv; [|exact I3]; coreclk|].
  set (s5 := set_ps PInit _).
  assert (I5 : Inv s5) by (eapply CoreClk_Inv; [|exact I3]; unfold s5; coreclk).
  cbn [fst]. destruct (Z.ltb_spec (r_warm r) (clock s5)).
  - eapply CoreClk_Inv; [|exact I5]. coreclk.
  - apply (ins_event_inv (mkEv (r_warm r) 10 (nid s5) HWarm 0) s5); auto.
Qed.

Lemma do_init_acct p s r : Inv s -> running s = false -> Acct (fst (do_init p s r)).
Proof.
  intros HI R. unfold do_init. rewrite R.
  set (s2 := set_created [] _).
  assert (I2 : Inv s2).
  { pose proof (Inv_clear s (r_start r) HI) as [H1 H2 H3 H4 H5 H6].
    unfold s2. destruct (worker (set_pend [] s)); constructor; ssimpl; auto; constructor. }
  assert (A2 : Acct s2).
  { unfold Acct, s2. destruct (worker (set_pend [] s)); ssimpl; intros x []. }
  pose proof (exec_actions_hstep InConstruct (body p 0) s2) as HS.
  destruct (exec_actions InConstruct s2 (body p 0)) as [s3 failed]. cbn [fst] in HS.
  pose proof (hs_acct _ _ HS I2 A2) as A3.
  destruct failed; [eapply CoreClk_Acct; [|exact A3]; coreclk|].
  set (s5 := set_ps PInit _).
  assert (A5 : Acct s5) by (eapply CoreClk_Acct; [|exact A3]; unfold s5; coreclk).
  cbn [fst]. destruct (Z.ltb_spec (r_warm r) (clock s5)).
  - eapply CoreClk_Acct; [|exact A5]. coreclk.
  - intros x Hx. apply (Permutation_in _ (Permutation_sym (ins_event_live _ s5))).
    right. apply A5. exact Hx.
Qed.

Theorem do_cmd_inv p fuel s c : Inv s -> Inv (fst (do_cmd fuel p s c)).
Proof.
  intros HI. destruct c; cbn [do_cmd fst]; auto.
  - apply do_init_inv; auto.
  - destruct (rep s); auto. apply (cf_inv _ _ (do_start_facts p fuel s _ _)); auto.
  - apply (cf_inv _ _ (do_step_facts p s)); auto.
  - destruct (running s); auto. cbn [fst]. eapply CoreClk_Inv; [|exact HI]. coreclk.
  - apply (cf_inv _ _ (do_start_facts p fuel s _ _)); auto.
  - apply (cf_inv _ _ (do_start_facts p fuel s _ _)); auto.
  - apply do_end_repl_inv; auto.
  - eapply CoreClk_Inv; [apply do_cleanup_coreclk|auto].
Qed.

Definition is_init (c : cmd) : bool := match c with CInit _ => true | _ => false end.
Definition is_endrepl (c : cmd) : bool := match c with CEndRepl => true | _ => false end.

Theorem do_cmd_acct p fuel s c :
  is_endrepl c = false -> Inv s -> Acct s -> Acct (fst (do_cmd fuel p s c)).
Proof.
  intros Hc HI HA. destruct c; cbn [do_cmd fst]; auto; try discriminate.
  - destruct (running s) eqn:R; [unfold do_init; rewrite R; auto|apply do_init_acct; auto].
  - destruct (rep s); auto. apply (cf_acct _ _ (do_start_facts p fuel s _ _)); auto.
  - apply (cf_acct _ _ (do_step_facts p s)); auto.
  - destruct (running s); auto.
  - apply (cf_acct _ _ (do_start_facts p fuel s _ _)); auto.
  - apply (cf_acct _ _ (do_start_facts p fuel s _ _)); auto.
Qed.

(** The clock never moves backwards, and executed events are logged in
    non-decreasing time order, under every command but a re-initialisation. *)
Theorem do_cmd_mono p fuel s c :
  is_init c = false -> Inv s -> Mono s (fst (do_cmd fuel p s c)).
Proof.
  intros Hc HI. destruct c; cbn [do_cmd fst]; try apply Mono_refl; try discriminate.
  - destruct (rep s); [|apply Mono_refl]. apply (cf_mono _ _ (do_start_facts p fuel s _ _)); auto.
  - apply (cf_mono _ _ (do_step_facts p s)); auto.
  - destruct (running s); [|apply Mono_refl]. cbn [fst]. apply Mono_same; ssimpl; auto; lia.
  - apply (cf_mono _ _ (do_start_facts p fuel s _ _)); auto.
  - apply (cf_mono _ _ (do_start_facts p fuel s _ _)); auto.
  - apply do_end_repl_mono.
  - apply CoreClk_Mono, do_cleanup_coreclk.
Qed.

(* ------------------------------------------------------------------ *)
(** * Reachable states *)

Inductive reachable (p : program) : sim -> Prop :=
| reach_init st : reachable p (init_sim st)
| reach_cmd s fuel c : reachable p s -> reachable p (fst (do_cmd fuel p s c)).

Theorem reachable_inv p s : reachable p s -> Inv s.
Proof. induction 1; auto using Inv_init, do_cmd_inv. Qed.

Lemma run_cmds_app fuel p cs : forall s,
  fst (run_cmds fuel p s cs) = fold_left (fun a c => fst (do_cmd fuel p a c)) cs s.
Proof.
  induction cs as [|c r IH]; intros s; cbn [run_cmds fold_left fst]; auto.
  destruct (do_cmd fuel p s c) as [s1 res] eqn:E.
  specialize (IH s1). destruct (run_cmds fuel p s1 r) as [s2 sn]. cbn [fst] in *. exact IH.
Qed.

Lemma run_cmds_reachable fuel p cs : forall s, reachable p s -> reachable p (fst (run_cmds fuel p s cs)).
Proof.
  intros s H. rewrite run_cmds_app. revert s H.
  induction cs as [|c r IH]; intros s H; cbn [fold_left]; auto.
  apply IH. constructor. auto.
Qed.

(* ------------------------------------------------------------------ *)
(** * Exactly once *)

Lemma NoDup_app_l {A} (a b : list A) : NoDup (a ++ b) -> NoDup a.
Proof.
  induction a as [|y r IH]; cbn [app]; [constructor|].
  intros N. inversion N as [|? ? Hn Hr]; subst. constructor; auto.
  intros Hy. apply Hn. apply in_or_app. left; auto.
Qed.

Lemma NoDup_map_NoDup {A B} (f : A -> B) l : NoDup (map f l) -> NoDup l.
Proof.
  induction l as [|x r IH]; cbn [map]; [constructor|].
  intros N. inversion N as [|? ? Hn Hr]; subst. constructor; auto.
  intros Hx. apply Hn. apply in_map; auto.
Qed.

(** No event is executed twice: the ids of the executed-event log are
    pairwise distinct, for every fuel and in every reachable state. *)
Lemma Inv_exec_nodup s : Inv s -> NoDup (ids (executed s)).
Proof.
  intros HI. pose proof (inv_nodup _ HI) as N. unfold live in N. rewrite !ids_app in N.
  apply NoDup_app_r in N. apply NoDup_app_l in N. exact N.
Qed.

(* pending, executed and cancelled events are pairwise different events *)
Lemma Inv_disjoint s e :
  Inv s ->
  (In e (pend s) -> ~ In e (executed s) /\ ~ In e (cancelled s))
  /\ (In e (executed s) -> ~ In e (cancelled s)).
Proof.
  intros HI. pose proof (inv_nodup _ HI) as N. unfold live in N. rewrite !ids_app in N. split.
  - intros Hp. split; intros H; apply (NoDup_app_disj _ _ (ev_id e) N).
    + apply in_map; auto.
    + apply in_or_app. left. apply in_map; auto.
    + apply in_map; auto.
    + apply in_or_app. right. apply in_map; auto.
  - intros He Hc. apply NoDup_app_r in N. apply (NoDup_app_disj _ _ (ev_id e) N); apply in_map; auto.
Qed.

Lemma beyond_eq s t e : bound t = bound s -> incl t = incl s -> beyond t e = beyond s e.
Proof. unfold beyond. intros -> ->. reflexivity. Qed.

(* where the events of a run come from and go to *)
Record RunsFlow (s : sim) (evs : list ev) (s' : sim) : Prop := mkRunsFlow {
  rw_live : Inv s -> Acct s -> List.incl (live s) (live s');
  rw_pend : forall x, In x (pend s') -> In x (pend s) \/ (In x (created s') /\ nid s <= ev_id x);
  rw_created : exists l, created s' = created s ++ l /\ Forall (fun x => nid s <= ev_id x) l;
  rw_nid : nid s <= nid s';
  rw_within : Forall (fun e => beyond s e = false) evs;
  rw_from : forall e, In e evs -> In e (pend s) \/ (In e (created s') /\ nid s <= ev_id e)
}.

Lemma runs_flow p s evs s' : runs p s evs s' -> RunsFlow s evs s'.
Proof.
  induction 1 as [s|s e r evs s' R Hp B H IH].
  - constructor; auto; try lia.
    + intros _ _ x Hx; exact Hx.
    + exists []. rewrite app_nil_r. split; auto.
    + intros e [].
  - pose proof (take_event_took p s e r Hp) as T.
    destruct (took_bound _ _ _ _ T) as (Tb&Ti&_).
    destruct (took_created _ _ _ _ T) as [l1 [E1 G1]].
    pose proof (took_nid _ _ _ _ T) as Tn.
    destruct IH as [Lv P [l2 [E2 G2]] Nn W Fr].
    assert (Htail : forall x, In x (pend (take_event p s e r)) ->
                              In x (pend s) \/ (In x (created s') /\ nid s <= ev_id x)).
    { intros x Hx. destruct (tk_pend _ _ _ _ T x Hx) as [Q|[Q Qn]]; [left; rewrite Hp; right; auto|].
      right. split; auto. rewrite E2. apply in_or_app. left; auto. }
    constructor.
    + intros HI HA x Hx. apply Lv.
      * apply (tk_inv _ _ _ _ T HI).
      * apply (tk_acct _ _ _ _ T HI HA).
      * apply (tk_live _ _ _ _ T HI HA). exact Hx.
    + intros x Hx. destruct (P x Hx) as [Q|[Q Qn]]; auto. right. split; auto. lia.
    + exists (l1 ++ l2). split; [rewrite E2, E1, app_assoc; reflexivity|].
      apply Forall_app. split; auto. eapply Forall_impl; [|exact G2].
      cbn. intros x Hx. lia.
    + lia.
    + constructor; auto. eapply Forall_impl; [|exact W]. cbn. intros x Hx.
      rewrite <- (beyond_eq s _ x Tb Ti). exact Hx.
    + intros x [<-|Hx]; [left; rewrite Hp; left; auto|].
      destruct (Fr x Hx) as [Q|[Q Qn]]; auto. right. split; auto. lia.
Qed.

(* an event of created s' with a fresh id is one of the newly created ones *)
Lemma fresh_is_new s (old newc : list ev) e :
  Forall (fun i => i < nid s) (ids old) -> In e (old ++ newc) -> nid s <= ev_id e -> In e newc.
Proof.
  intros F Hin Hn. apply in_app_or in Hin. destruct Hin as [Hin|Hin]; auto. exfalso.
  rewrite Forall_forall in F. specialize (F (ev_id e) (in_map ev_id _ _ Hin)). lia.
Qed.

Lemma executed_after_runs s evs s' :
  trace s' = rev (map (fun e => (e, ev_time e)) evs) ++ trace s ->
  executed s' = rev evs ++ executed s.
Proof.
  intros E. unfold executed. rewrite E, map_app, map_rev, map_map. cbn [fst]. rewrite map_id. reflexivity.
Qed.

(** A sequence of takes after which nothing within the horizon is left has
    executed exactly the events that were pending or got scheduled meanwhile,
    were not cancelled while pending and lie within the horizon. *)
Lemma runs_complete p s evs s1 :
  Inv s -> Acct s -> runs p s evs s1 -> head_beyond s1 ->
  exists newc,
    executed s1 = rev evs ++ executed s
    /\ created s1 = created s ++ newc
    /\ (forall e, In e evs -> In e (pend s) \/ In e newc)
    /\ (forall e, In e (pend s) \/ In e newc ->
          (In e evs <-> (~ In e (cancelled s1) /\ beyond s e = false)))
    /\ (forall e, In e (pend s1) -> beyond s e = true).
Proof.
  intros HI HA H1 HB.
  pose proof (runs_facts _ _ _ _ H1) as F. pose proof (runs_flow _ _ _ _ H1) as W.
  destruct (rf_bound _ _ _ F) as (Fb&Fi&Fr&Fp&_).
  pose proof (rf_inv _ _ _ F HI) as HI1. pose proof (rf_acct _ _ _ F HI HA) as HA1.
  destruct (rw_created _ _ _ W) as [newc [Ecr Gcr]].
  assert (Hex : executed s1 = rev evs ++ executed s).
  { apply executed_after_runs. apply (rf_trace _ _ _ F). }
  assert (Hbey : forall e, In e (pend s1) -> beyond s e = true).
  { intros e He. rewrite <- (beyond_eq s s1 e Fb Fi). apply head_beyond_all; auto. }
  assert (Hfrom : forall e, In e evs -> In e (pend s) \/ In e newc).
  { intros e He. destruct (rw_from _ _ _ W e He) as [Q|[Q Qn]]; auto. right.
    rewrite Ecr in Q. eapply fresh_is_new; eauto. apply (inv_cre _ HI). }
  exists newc. split; [exact Hex|]. split; [exact Ecr|]. split; [exact Hfrom|]. split; [|exact Hbey].
  intros e H. split.
  - intros Hev. split.
    + intros Hc. assert (In e (executed s1)) by (rewrite Hex; apply in_or_app; left; apply -> in_rev; auto).
      apply (proj2 (Inv_disjoint s1 e HI1)); auto.
    + pose proof (rw_within _ _ _ W) as Wn. rewrite Forall_forall in Wn. auto.
  - intros [Hnc Hb].
    assert (Hl : In e (live s1)).
    { destruct H as [Q|Q].
      - apply (rw_live _ _ _ W HI HA). unfold live. apply in_or_app. left; auto.
      - apply HA1. rewrite Ecr. apply in_or_app. right; auto. }
    unfold live in Hl. apply in_app_or in Hl. destruct Hl as [Hl|Hl].
    { rewrite (Hbey e Hl) in Hb. discriminate. }
    apply in_app_or in Hl. destruct Hl as [Hl|Hl]; [|contradiction].
    rewrite Hex in Hl. apply in_app_or in Hl. destruct Hl as [Hl|Hl]; [apply in_rev; auto|].
    exfalso. destruct H as [Q|Q].
    + apply (proj1 (proj1 (Inv_disjoint s e HI) Q)). exact Hl.
    + pose proof (inv_ids _ HI) as Ids. rewrite Forall_forall in Ids.
      assert (ev_id e < nid s).
      { apply Ids. unfold ids, live. apply in_map. apply in_or_app. right. apply in_or_app. left; auto. }
      rewrite Forall_forall in Gcr. specialize (Gcr e Q). cbn in Gcr. lia.
Qed.

(** A run that reaches the end of its horizon (the loop leaves through the
    bound test; with the bound at the replication end this is observable as
    the replication state ENDING) has executed exactly the events that were
    pending or got scheduled during the run, were not cancelled while pending
    and lie within the horizon; what is left pending lies beyond it. *)
Theorem run_loop_complete p fuel s :
  Inv s -> Acct s -> running s = true -> ps s = PStarted ->
  ps (run_loop fuel p s) = PEnding ->
  let s' := run_loop fuel p s in
  exists evs newc,
    executed s' = rev evs ++ executed s
    /\ created s' = created s ++ newc
    /\ clock s' = bound s /\ end_time s <= bound s
    /\ (forall e, In e evs -> In e (pend s) \/ In e newc)
    /\ (forall e, In e (pend s) \/ In e newc ->
          (In e evs <-> (~ In e (cancelled s') /\ beyond s e = false)))
    /\ (forall e, In e (pend s') -> beyond s e = true).
Proof.
  intros HI HA R Hps Hend s'.
  destruct (run_loop_runs p fuel s) as [evs [s1 [H1 H2]]]. fold s' in H2, Hend.
  pose proof (runs_facts _ _ _ _ H1) as F.
  destruct (rf_bound _ _ _ F) as (Fb&Fi&Fr&Fp&_).
  assert (Hps1 : ps s1 = PStarted) by congruence.
  destruct H2 as [R1 E|R1 HB E|R1 E].
  { exfalso. rewrite E, Hps1 in Hend. discriminate. }
  2: { exfalso. rewrite E in Hend. unfold raise_flag in Hend. ssimpl. rewrite Hps1 in Hend. discriminate. }
  assert (Ecore : core_eq s1 s') by (rewrite E; apply stop_at_bound_core).
  destruct Ecore as (Ep&En&Ec&Et&Ex&Er).
  destruct (runs_complete p s evs s1 HI HA H1 HB) as [newc (A1&A2&A3&A4&A5)].
  exists evs, newc. unfold executed in *. rewrite <- Et, <- Ec, <- Ex, <- Ep.
  split; [exact A1|]. split; [exact A2|]. split.
  { rewrite E. unfold stop_at_bound. cbv zeta.
    match goal with |- context [if ?c then _ else _] => destruct c end; ssimpl; auto. }
  split.
  { rewrite E in Hend. unfold stop_at_bound in Hend. cbv zeta in Hend.
    destruct (Z.geb_spec (bound s1) (end_time s1)) as [G|G].
    + unfold end_time in *. rewrite Fr, Fb in G. lia.
    + ssimpl. rewrite Hps1 in Hend. discriminate. }
  auto.
Qed.

(* ------------------------------------------------------------------ *)
(** * Statements about reachable states and whole commands *)

Theorem pending_ge_clock p s :
  reachable p s -> Forall (fun e => clock s <= ev_time e) (pend s).
Proof. intros H. apply (inv_ge _ (reachable_inv _ _ H)). Qed.

Theorem clock_at_exec p s :
  reachable p s -> Forall (fun ec => snd ec = ev_time (fst ec)) (trace s).
Proof. intros H. apply (inv_clk _ (reachable_inv _ _ H)). Qed.

Theorem at_most_once p s : reachable p s -> NoDup (ids (executed s)).
Proof. intros H. apply Inv_exec_nodup, (reachable_inv _ _ H). Qed.

Theorem pending_sorted_unique p s :
  reachable p s -> StronglySorted ev_lt (pend s) /\ NoDup (ids (pend s)).
Proof.
  intros H. pose proof (reachable_inv _ _ H) as HI. split; [apply (inv_sorted _ HI)|].
  pose proof (inv_nodup _ HI) as N. unfold live in N. rewrite ids_app in N. apply NoDup_app_l in N. auto.
Qed.

Lemma run_cmds_mono p fuel cs : forall s,
  Inv s -> forallb (fun c => negb (is_init c)) cs = true -> Mono s (fst (run_cmds fuel p s cs)).
Proof.
  induction cs as [|c r IH]; intros s HI Hc; cbn [run_cmds].
  - apply Mono_refl.
  - cbn [forallb] in Hc. apply andb_true_iff in Hc. destruct Hc as [Hc Hr].
    pose proof (do_cmd_mono p fuel s c) as M. pose proof (do_cmd_inv p fuel s c HI) as I1.
    destruct (do_cmd fuel p s c) as [s1 res]. cbn [fst] in *.
    specialize (IH s1 I1 Hr). destruct (run_cmds fuel p s1 r) as [s2 sn]. cbn [fst] in *.
    eapply Mono_trans; [apply M|exact IH]; auto. destruct c; auto; discriminate.
Qed.

Lemma run_cmds_acct p fuel cs : forall s,
  Inv s -> Acct s -> forallb (fun c => negb (is_endrepl c)) cs = true -> Acct (fst (run_cmds fuel p s cs)).
Proof.
  induction cs as [|c r IH]; intros s HI HA Hc; cbn [run_cmds]; auto.
  cbn [forallb] in Hc. apply andb_true_iff in Hc. destruct Hc as [Hc Hr].
  pose proof (do_cmd_acct p fuel s c) as A. pose proof (do_cmd_inv p fuel s c HI) as I1.
  destruct (do_cmd fuel p s c) as [s1 res]. cbn [fst] in *.
  assert (A1 : Acct s1) by (apply A; auto; destruct c; auto; discriminate).
  specialize (IH s1 I1 A1 Hr). destruct (run_cmds fuel p s1 r) as [s2 sn]. exact IH.
Qed.

(** step executes the first pending event, which is the key-minimum *)
Theorem step_takes_minimum p s e r :
  Inv s -> step_checks s = true -> pend s = e :: r -> ev_time e <= end_time s ->
  let s' := fst (do_step p s) in
  executed s' = e :: executed s /\ clock s' = ev_time e
  /\ (forall x, In x (pend s) -> ev_le e x).
Proof.
  intros HI Ck Hp Le s'. split; [|split].
  3: { intros x Hx. rewrite Hp in Hx. apply (sorted_head_min e r); auto. rewrite <- Hp. apply (inv_sorted _ HI). }
  all: unfold s', do_step; rewrite Ck; cbv zeta; cbn [fst].
  all: set (s1 := match ps s with PInit => _ | _ => s end);
       set (s2 := emit (NStart (clock s1)) (set_rs RStarted s1)).
  all: assert (Hp2 : pend s2 = e :: r) by (unfold s2, s1; destruct (ps s); ssimpl; auto).
  all: assert (He2 : end_time s2 = end_time s) by (unfold s2, s1, end_time; destruct (ps s); ssimpl; auto).
  all: assert (Ht2 : trace s2 = trace s) by (unfold s2, s1; destruct (ps s); ssimpl; auto).
  all: rewrite Hp2, He2; destruct (Z.gtb_spec (ev_time e) (end_time s)); [lia|].
  all: pose proof (step_event_took p s2 e r Hp2) as T.
  - unfold executed. ssimpl. rewrite (took_trace _ _ _ _ T), Ht2. reflexivity.
  - ssimpl. apply (took_clock _ _ _ _ T).
Qed.

(* ------------------------------------------------------------------ *)
(** * initialize; start *)

Lemma start_checks_facts s :
  start_checks s = true -> running s = false /\ (ps s = PInit \/ ps s = PStarted) /\ clock s <= end_time s.
Proof.
  unfold start_checks. intros H. repeat (apply andb_true_iff in H; destruct H as [H ?]).
  repeat split.
  - destruct (running s); auto; discriminate.
  - destruct (ps s); auto; discriminate.
  - apply Z.leb_le; auto.
Qed.

Lemma run_loop_ps p fuel s :
  ps (run_loop fuel p s) = ps s \/ ps (run_loop fuel p s) = PEnding.
Proof.
  destruct (run_loop_runs p fuel s) as [evs [s1 [H1 H2]]].
  destruct (rf_bound _ _ _ (runs_facts _ _ _ _ H1)) as (_&_&_&Fp&_).
  destruct H2 as [R1 E|R1 HB E|R1 E]; rewrite E.
  - left; auto.
  - unfold stop_at_bound. cbv zeta.
    match goal with |- context [if ?c then _ else _] => destruct c end; ssimpl; auto.
  - left. ssimpl. auto.
Qed.

(** The C02 statement for a plain start: if the run reaches the end of the
    replication, the events executed by it are exactly the events that were
    pending at the start or got scheduled during the run, were not cancelled
    while pending, and are not later than the end. *)
Theorem start_complete p fuel s r :
  Inv s -> Acct s -> rep s = Some r -> ps s <> PEnded ->
  let s' := fst (do_cmd fuel p s CStart) in
  ps s' = PEnded ->
  exists evs newc,
    executed s' = rev evs ++ executed s
    /\ created s' = created s ++ newc
    /\ clock s' = r_end r
    /\ (forall e, In e evs -> In e (pend s) \/ In e newc)
    /\ (forall e, In e (pend s) \/ In e newc ->
          (In e evs <-> (~ In e (cancelled s') /\ ev_time e <= r_end r)))
    /\ (forall e, In e (pend s') -> r_end r < ev_time e).
Proof.
  intros HI HA Hr Hne s' Hend. unfold s' in *. clear s'. cbn [do_cmd] in *. rewrite Hr in *.
  unfold do_start in *. destruct (start_checks s) eqn:Ck; [|cbn [fst] in Hend; congruence].
  destruct (start_checks_facts s Ck) as (Rn&Hps&Hlt).
  assert (Eend : end_time s = r_end r) by (unfold end_time; rewrite Hr; reflexivity).
  destruct (Z.ltb_spec (r_end r) (clock s)); [lia|].
  destruct (Z.gtb_spec (r_end r) (end_time s)); [lia|].
  cbv zeta in *. cbn [fst] in *.
  set (s3 := emit NStarting _) in *.
  assert (C3 : CoreClk s s3) by (unfold s3; ssimpl; destruct (ps s); coreclk).
  assert (P3 : ps s3 = PStarted) by (unfold s3; ssimpl; destruct Hps as [Q|Q]; rewrite Q; ssimpl; auto).
  assert (B3 : bound s3 = r_end r /\ incl s3 = true /\ rep s3 = rep s)
    by (unfold s3; ssimpl; destruct (ps s); ssimpl; auto).
  destruct B3 as (B3&I3&R3).
  unfold worker_run in *. destruct (worker s3) eqn:W3.
  1,3: exfalso; rewrite P3 in Hend; discriminate.
  rewrite P3 in *.
  set (a := set_rs RStarted (emit (NStart (clock s3)) s3)) in *.
  set (b := run_loop fuel p a) in *.
  assert (Ca : CoreClk s a) by (eapply CoreClk_trans; [exact C3|unfold a; coreclk]).
  assert (HIa : Inv a) by (eapply CoreClk_Inv; eauto).
  assert (HAa : Acct a) by (eapply CoreClk_Acct; eauto).
  assert (Pb : ps b = PEnding).
  { destruct (run_loop_ps p fuel a) as [Q|Q]; [|exact Q]. fold b in Q.
    exfalso. unfold worker_ending in Hend. ssimpl. replace (ps a) with PStarted in Q by (symmetry; exact P3).
    rewrite Q in Hend. ssimpl. congruence. }
  destruct (run_loop_complete p fuel a HIa HAa eq_refl P3 Pb) as [evs [newc (H1&H2&H3&H4&H5&H6&H7)]].
  fold b in H1, H2, H3, H5, H6, H7.
  destruct Ca as ((Cp&Cn&Cc&Ct&Cx&Cr)&Ck').
  assert (Eb : forall e, beyond a e = (ev_time e >? r_end r)).
  { intros e. unfold beyond. unfold a at 1 2 3. ssimpl. rewrite B3, I3. cbn [negb]. rewrite andb_false_r, orb_false_r. reflexivity. }
  unfold worker_ending. ssimpl. rewrite Pb.
  exists evs, newc. unfold executed in *. ssimpl. rewrite Cc, Ct, Cp.
  split; [exact H1|]. split; [exact H2|]. split; [rewrite H3; unfold a; ssimpl; exact B3|].
  split; [exact H5|]. split.
  - intros e Hin. split.
    + intros Hev. destruct (proj1 (H6 e Hin) Hev) as [Q1 Q]. split; auto. rewrite Eb in Q.
      destruct (Z.gtb_spec (ev_time e) (r_end r)); [discriminate|lia].
    + intros [Q1 Q2]. apply (proj2 (H6 e Hin)). split; auto. rewrite Eb.
      destruct (Z.gtb_spec (ev_time e) (r_end r)); [lia|reflexivity].
  - intros e He. specialize (H7 e He). rewrite Eb in H7.
    destruct (Z.gtb_spec (ev_time e) (r_end r)); [lia|discriminate].
Qed.

(* ------------------------------------------------------------------ *)
(** * Cancelling what is not pending *)

Theorem cancel_done_noop s k e :
  Inv s -> nth_error (created s) k = Some e -> In e (executed s) \/ In e (cancelled s) ->
  do_cancel s k = s.
Proof.
  intros HI Hn Hin. unfold do_cancel. rewrite Hn.
  rewrite (not_pending_not_mem s e HI); auto. apply in_or_app. exact Hin.
Qed.

Theorem cancel_absent_noop s k e :
  Inv s -> Acct s -> nth_error (created s) k = Some e -> ~ In e (pend s) -> do_cancel s k = s.
Proof.
  intros HI HA Hn Hnot. apply (cancel_done_noop s k e HI Hn).
  pose proof (HA e (nth_error_In _ _ Hn)) as L. unfold live in L.
  apply in_app_or in L. destruct L as [L|L]; [contradiction|]. apply in_app_or in L. exact L.
Qed.

(* and cancelling a pending event removes exactly that event *)
Theorem cancel_pending_removes s k e :
  Inv s -> Acct s -> nth_error (created s) k = Some e -> In e (pend s) ->
  Permutation (pend s) (e :: pend (do_cancel s k)) /\ cancelled (do_cancel s k) = e :: cancelled s.
Proof.
  intros HI HA Hn Hin.
  assert (M : ev_mem e (pend s) = true) by (apply ev_mem_true; exists e; auto).
  destruct (cancel_removes_it s k e HI HA Hn M) as [_ Hp].
  unfold do_cancel. rewrite Hn, M. ssimpl. auto.
Qed.
