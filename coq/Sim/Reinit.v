(* C06 / C07 -- definitions (no proofs) on top of the simulator model Sim/Model.v:

   1. what an observer sees of a run: the logs of the model with event ids
      erased (an executed / cancelled event is identified by its time,
      priority, handler and creation rank [ev_k] within the replication);
   2. the relation "equal up to an order-preserving renaming of event ids,
      on top of arbitrary earlier logs" ([IdSim]) -- the statement that the
      simulator looks at event ids only through [<];
   3. a renamed copy of a state ([ren_sim]) and id consumption by unrelated
      activity ([burn]);
   4. the model object of the library (DSOLModel): its output-statistics map,
      the simulation statistics created in construct_model and what each of
      them is fed ([xsim], [x_init], [feed]);
   5. executable comparison functions for the correspondence check
      (harness/c06.py). *)
From Coq Require Import ZArith List Bool Lia.
From PV Require Import EventList.Key Sim.Model Sim.Case.
Import ListNotations.
Local Open Scope Z_scope.

(* ------------------------------------------------------------------ *)
(** * 1. Observations: logs with ids erased *)

(* an event without its id: (time, priority, handler, creation rank) *)
Definition evx : Type := (Z * Z * hkind * nat)%type.
Definition er (e : ev) : evx := (ev_time e, ev_prio e, ev_h e, ev_k e).

Definition ren (f : Z -> Z) (e : ev) : ev :=
  mkEv (ev_time e) (ev_prio e) (f (ev_id e)) (ev_h e) (ev_k e).

Definition etrace (s : sim) : list (evx * Z) := map (fun ec => (er (fst ec), snd ec)) (trace s).
Definition ecanc (s : sim) : list evx := map er (cancelled s).

(* everything the model logs (newest first), ids erased; [l_fl]: "the model
   does not cover this history" marker *)
Record logs := mkLogs {
  l_tr : list (evx * Z);
  l_cn : list evx;
  l_ou : list outcome;
  l_nt : list ntf;
  l_ob : list obsrec;
  l_fl : bool
}.

Definition logs_of (s : sim) : logs :=
  mkLogs (etrace s) (ecanc s) (outs s) (ntfs s) (obs s) (flag s).

Definition no_logs : logs := mkLogs [] [] [] [] [] false.

(* [n] on top of the earlier logs [b] *)
Definition lapp (n b : logs) : logs :=
  mkLogs (l_tr n ++ l_tr b) (l_cn n ++ l_cn b) (l_ou n ++ l_ou b) (l_nt n ++ l_nt b)
         (l_ob n ++ l_ob b) (l_fl n || l_fl b).

Inductive lev :=
| LTr (x : evx * Z) | LCn (x : evx) | LOu (o : outcome) | LNt (n : ntf) | LOb (o : obsrec) | LFl.

Definition push (l : lev) (L : logs) : logs :=
  match l with
  | LTr x => mkLogs (x :: l_tr L) (l_cn L) (l_ou L) (l_nt L) (l_ob L) (l_fl L)
  | LCn x => mkLogs (l_tr L) (x :: l_cn L) (l_ou L) (l_nt L) (l_ob L) (l_fl L)
  | LOu x => mkLogs (l_tr L) (l_cn L) (x :: l_ou L) (l_nt L) (l_ob L) (l_fl L)
  | LNt x => mkLogs (l_tr L) (l_cn L) (l_ou L) (x :: l_nt L) (l_ob L) (l_fl L)
  | LOb x => mkLogs (l_tr L) (l_cn L) (l_ou L) (l_nt L) (x :: l_ob L) (l_fl L)
  | LFl => mkLogs (l_tr L) (l_cn L) (l_ou L) (l_nt L) (l_ob L) true
  end.

(* s and t logged the same things since the moments their logs were bs / bt *)
Definition LogsRel (bs bt : logs) (s t : sim) : Prop :=
  exists n, logs_of s = lapp n bs /\ logs_of t = lapp n bt.

(* ------------------------------------------------------------------ *)
(** * 2. Equal up to an order-preserving renaming of event ids *)

Definition eids (l : list ev) : list Z := map ev_id l.

(* the ids the simulator can still compare: pending events and the events the
   model program holds references to (cancel_event) *)
Definition dom (s : sim) : list Z := eids (pend s) ++ eids (created s).

(* X: further ids that can still be compared although no pending or referenced
   event carries them at the moment -- the ids of SimEvent objects that were
   built before and may be handed to schedule_event(event) later; X': the ids
   the same objects have in the other run *)
Definition domx (X : list Z) (s : sim) : list Z := dom s ++ X.

Record CoreSim (X X' : list Z) (f : Z -> Z) (s t : sim) : Prop := mkCoreSim {
  cs_clock : clock t = clock s;
  cs_rs : rs t = rs s;
  cs_ps : ps t = ps s;
  cs_strat : strat t = strat s;
  cs_worker : worker t = worker s;
  cs_rep : rep t = rep s;
  cs_pend : pend t = map (ren f) (pend s);
  cs_created : created t = map (ren f) (created s);
  cs_x : map f X = X';
  cs_lo : forall a, In a (domx X s) -> a < nid s;
  cs_hi : forall a, In a (domx X s) -> f a < nid t;
  cs_mono : forall a b, In a (domx X s) -> In b (domx X s) -> a < b -> f a < f b
}.

(* the run bound is dead between runs (every accepted start writes it) and is
   therefore not part of the relation; it is carried separately through a run *)
Definition IdSimX (X X' : list Z) (bs bt : logs) (s t : sim) : Prop :=
  (exists f, CoreSim X X' f s t) /\ LogsRel bs bt s t.

Definition IdSim (bs bt : logs) (s t : sim) : Prop := IdSimX [] [] bs bt s t.

Definition SameBound (s t : sim) : Prop := bound t = bound s /\ incl t = incl s.

(* ------------------------------------------------------------------ *)
(** * 3. Renamed copies, ids consumed by unrelated activity *)

Definition ren_trace (f : Z -> Z) (l : list (ev * Z)) : list (ev * Z) :=
  map (fun ec => (ren f (fst ec), snd ec)) l.

(* the same state with every event id replaced through f and the id counter at n' *)
Definition ren_sim (f : Z -> Z) (n' : Z) (s : sim) : sim :=
  mkSim (clock s) (map (ren f) (pend s)) n' (rs s) (ps s) (bound s) (incl s) (strat s) (worker s)
        (rep s) (map (ren f) (created s)) (map (ren f) (cancelled s)) (ren_trace f (trace s))
        (outs s) (ntfs s) (obs s) (flag s).

(* n event ids are consumed elsewhere in the process (SimEvent's counter is
   process-wide) *)
Definition burn (n : Z) (s : sim) : sim := set_nid (nid s + Z.max 0 n) s.

(* a command list in which unrelated id consumption precedes every command *)
Fixpoint run_cmds_burn (fuel : nat) (p : program) (s : sim) (cs : list (Z * cmd)) : sim * list snap :=
  match cs with
  | [] => (s, [])
  | (n, c) :: r =>
      let '(s1, res) := do_cmd fuel p (burn n s) c in
      let '(s2, sn) := run_cmds_burn fuel p s1 r in
      (s2, mkSnap res (rs s1) (ps s1) (clock s1) (length (pend s1)) :: sn)
  end.

(* histories with a different model program per command (several models taking
   turns on one simulator) *)
Fixpoint run_hist (fuel : nat) (s : sim) (h : list (program * cmd)) : sim :=
  match h with
  | [] => s
  | (p, c) :: r => run_hist fuel (fst (do_cmd fuel p s c)) r
  end.

Inductive hreach : sim -> Prop :=
| hreach_init st : hreach (init_sim st)
| hreach_cmd s fuel p c : hreach s -> hreach (fst (do_cmd fuel p s c)).

(* warm-up events among the pending ones *)
Definition is_warm (e : ev) : bool := match ev_h e with HWarm => true | HUser _ => false end.
Definition warmups (s : sim) : list ev := filter is_warm (pend s).

(* ------------------------------------------------------------------ *)
(** * 4. The model object: output statistics built in construct_model *)

Inductive skind := KCounter | KTally | KPersistent.

(* a simulation statistic (SimCounter / SimTally / SimPersistent): registered
   under [so_key], listening to data stream [so_sid] of a producer that
   construct_model creates, and to the simulator's WARMUP (SimPersistent also
   END_REPLICATION).  It is fed the observation log from position [so_from]
   (oldest = 0) up to position [so_upto] (None: still connected). *)
Record sobj := mkObj {
  so_key : nat; so_kind : skind; so_sid : nat; so_from : nat; so_upto : option nat
}.

Record mdl := mkMdl {
  m_map : list (nat * nat);      (* output_statistics(): key -> object (index in m_objs), insertion order *)
  m_objs : list sobj             (* every statistic object ever created *)
}.

Record xsim := mkX { x_sim : sim; x_mdl : mdl }.

Definition sspec : Type := list (nat * skind * nat).     (* key, kind, data stream *)
Record xprog := mkXProg { xp_stats : sspec; xp_prog : program }.

Inductive xres := XOk | XRefused | XAlreadyRegistered | XRaised.   (* XRaised: construct_model raised, initialize aborted *)

Definition x0 (st : strategy) : xsim := mkX (init_sim st) (mkMdl [] []).

Fixpoint map_has (key : nat) (m : list (nat * nat)) : bool :=
  match m with
  | [] => false
  | (k, _) :: r => Nat.eqb k key || map_has key r
  end.

Fixpoint map_get (key : nat) (m : list (nat * nat)) : option nat :=
  match m with
  | [] => None
  | (k, o) :: r => if Nat.eqb k key then Some o else map_get key r
  end.

(* Simulator.initialize -> cleanup() drops the simulator's listeners, and
   construct_model replaces the producers: every existing statistic object is
   cut off at the current end of the observation log *)
Definition cut_obj (n : nat) (o : sobj) : sobj :=
  match so_upto o with
  | None => mkObj (so_key o) (so_kind o) (so_sid o) (so_from o) (Some n)
  | Some _ => o
  end.

(* Sim*.__init__ inside construct_model: the object is created and subscribed,
   then add_output_statistic(key, self), which refuses a key already present *)
Fixpoint build_stats (n : nat) (sp : sspec) (m : mdl) : mdl * bool :=
  match sp with
  | [] => (m, true)
  | (key, kind, sid) :: r =>
      let o := mkObj key kind sid n None in
      let objs := m_objs m ++ [o] in
      if map_has key (m_map m) then (mkMdl (m_map m) objs, false)
      else build_stats n r (mkMdl (m_map m ++ [(key, length (m_objs m))]) objs)
  end.

(* initialize(model, replication).  [clr]: the output-statistics map is emptied
   before construct_model (the repaired code, /repo 530d336); clr = false is
   the code as pinned.  When add_output_statistic refuses, the exception leaves
   initialize: the simulator part is not modelled further (XAlreadyRegistered). *)
Definition x_init (clr : bool) (xp : xprog) (x : xsim) (r : repl) : xsim * xres :=
  let s := x_sim x in
  if running s then (x, XRefused)
  else
    let n := length (obs s) in
    let m0 := mkMdl (if clr then [] else m_map (x_mdl x)) (map (cut_obj n) (m_objs (x_mdl x))) in
    let '(m1, ok) := build_stats n (xp_stats xp) m0 in
    if ok then (mkX (fst (do_init (xp_prog xp) s r)) m1,
                match snd (do_init (xp_prog xp) s r) with ResRaised => XRaised | _ => XOk end)
    else (mkX s m1, XAlreadyRegistered).

Definition x_cmd (fuel : nat) (xp : xprog) (x : xsim) (c : cmd) : xsim :=
  match c with
  | CInit r => fst (x_init true xp x r)
  | _ => mkX (fst (do_cmd fuel (xp_prog xp) (x_sim x) c)) (x_mdl x)
  end.

Fixpoint x_run (fuel : nat) (xp : xprog) (x : xsim) (cs : list cmd) : xsim :=
  match cs with
  | [] => x
  | c :: r => x_run fuel xp (x_cmd fuel xp x c) r
  end.

(* histories in which several models take turns *)
Fixpoint x_hist (fuel : nat) (x : xsim) (h : list (xprog * cmd)) : xsim :=
  match h with
  | [] => x
  | (xp, c) :: r => x_hist fuel (x_cmd fuel xp x c) r
  end.

(* what a statistic object is fed: its data stream, every WARMUP, and for a
   SimPersistent END_REPLICATION, between its creation and its cut-off *)
Definition relevant (o : sobj) (r : obsrec) : bool :=
  match r with
  | ObsV sid _ _ => Nat.eqb sid (so_sid o)
  | ObsWarm _ => true
  | ObsEnd _ => match so_kind o with KPersistent => true | _ => false end
  end.

Definition segment {A} (from : nat) (upto : option nat) (l : list A) : list A :=
  skipn from (match upto with Some n => firstn n l | None => l end).

Definition feed (s : sim) (o : sobj) : list obsrec :=
  filter (relevant o) (segment (so_from o) (so_upto o) (rev (obs s))).

(* the statistics the model currently reports: key, kind and feed, in map order *)
Definition reported (x : xsim) : list (nat * option (skind * list obsrec)) :=
  map (fun ko => (fst ko,
                  match nth_error (m_objs (x_mdl x)) (snd ko) with
                  | Some o => Some (so_kind o, feed (x_sim x) o)
                  | None => None
                  end)) (m_map (x_mdl x)).

(* ------------------------------------------------------------------ *)
(** * 5. Comparison functions for the correspondence check *)

Definition since {A} (base l : list A) : list A := firstn (length l - length base) l.

Definition hkind_eqb (a b : hkind) : bool :=
  match a, b with
  | HWarm, HWarm => true
  | HUser x, HUser y => Nat.eqb x y
  | _, _ => false
  end.

Definition evx_eqb (a b : evx) : bool :=
  let '(t1, p1, h1, k1) := a in let '(t2, p2, h2, k2) := b in
  (t1 =? t2) && (p1 =? p2) && hkind_eqb h1 h2 && Nat.eqb k1 k2.

Definition tr_eqb (a b : evx * Z) : bool := evx_eqb (fst a) (fst b) && (snd a =? snd b).

Definition logs_eqb (a b : logs) : bool :=
  list_eqb tr_eqb (l_tr a) (l_tr b) && list_eqb evx_eqb (l_cn a) (l_cn b)
  && list_eqb outcome_eqb (l_ou a) (l_ou b) && list_eqb ntf_eqb (l_nt a) (l_nt b)
  && list_eqb obsrec_eqb (l_ob a) (l_ob b) && Bool.eqb (l_fl a) (l_fl b).

(* the logs written after the state [s0] was reached *)
Definition logs_since (s0 s : sim) : logs :=
  mkLogs (since (etrace s0) (etrace s)) (since (ecanc s0) (ecanc s)) (since (outs s0) (outs s))
         (since (ntfs s0) (ntfs s)) (since (obs s0) (obs s)) (flag s).

(* a C06 case: a prior history (several programs taking turns), then a new
   replication of [q_prog] and further commands; the model's own check that
   the re-initialised run and the run on a brand-new simulator agree *)
Record rcase := mkRCase {
  q_strat : strategy;
  q_hist : list (program * cmd);
  q_prog : program;
  q_repl : repl;
  q_cmds : list cmd
}.

Definition rcase_model_agrees (c : rcase) : bool :=
  let s := run_hist FUEL (init_sim (q_strat c)) (q_hist c) in
  let a := fst (do_init (q_prog c) s (q_repl c)) in
  let b := fst (do_init (q_prog c) (init_sim (q_strat c)) (q_repl c)) in
  let '(a', sa) := run_cmds FUEL (q_prog c) a (q_cmds c) in
  let '(b', sb) := run_cmds FUEL (q_prog c) b (q_cmds c) in
  negb (running s) && list_eqb snap_eqb sa sb && logs_eqb (logs_since s a') (logs_of b').

(* ---- whole histories on the simulator + model object, with snapshots, for
   the correspondence check: several models take turns ---- *)
Definition x_cmd_res (fuel : nat) (xp : xprog) (x : xsim) (c : cmd) : xsim * cres * bool :=
  match c with
  | CInit r =>
      let '(x', res) := x_init true xp x r in
      (x', match res with XOk => ResOk | XRaised => ResRaised | _ => ResRefused end,
       match res with XAlreadyRegistered => true | _ => false end)
  | _ => let '(s', res) := do_cmd fuel (xp_prog xp) (x_sim x) c in (mkX s' (x_mdl x), res, false)
  end.

(* the boolean: some initialize left through "already registered" (the
   simulator part of that is not modelled) *)
Fixpoint x_hist_snaps (fuel : nat) (x : xsim) (h : list (xprog * cmd)) : xsim * list snap * bool :=
  match h with
  | [] => (x, [], false)
  | (xp, c) :: r =>
      let '(x1, res, bad) := x_cmd_res fuel xp x c in
      let '(x2, sn, bad2) := x_hist_snaps fuel x1 r in
      let s1 := x_sim x1 in
      (x2, mkSnap res (rs s1) (ps s1) (clock s1) (length (pend s1)) :: sn, bad || bad2)
  end.

Definition skind_eqb (a b : skind) : bool :=
  match a, b with
  | KCounter, KCounter | KTally, KTally | KPersistent, KPersistent => true
  | _, _ => false
  end.

Definition rep_eqb (a : nat * option (skind * list obsrec)) (b : nat * skind * list obsrec) : bool :=
  let '(k2, kd2, fd2) := b in
  Nat.eqb (fst a) k2 &&
  match snd a with
  | Some (kd, fd) => skind_eqb kd kd2 && list_eqb obsrec_eqb fd fd2
  | None => false
  end.

Fixpoint reps_eqb (a : list (nat * option (skind * list obsrec))) (b : list (nat * skind * list obsrec)) : bool :=
  match a, b with
  | [], [] => true
  | x :: r, y :: s => rep_eqb x y && reps_eqb r s
  | _, _ => false
  end.

Record xcase := mkXCase {
  xc_strat : strategy;
  xc_hist : list (xprog * cmd);
  xc_exp : expect;
  xc_reported : list (nat * skind * list obsrec)   (* the current model's output statistics at the end *)
}.

(* the reported statistics of the model initialised last *)
Definition xcase_code (c : xcase) : nat :=
  let '(x, sn, bad) := x_hist_snaps FUEL (x0 (xc_strat c)) (xc_hist c) in
  let s := x_sim x in
  let e := xc_exp c in
  if flag s || bad then 2%nat
  else if list_eqb snap_eqb sn (x_snaps e)
          && list_eqb kc_eqb (user_trace s) (x_trace e)
          && list_eqb outcome_eqb (rev (outs s)) (x_outs e)
          && list_eqb ntf_eqb (rev (ntfs s)) (x_ntfs e)
          && list_eqb obsrec_eqb (user_obs s) (x_obs e)
          && list_eqb Nat.eqb (user_canc s) (x_canc e)
          && Bool.eqb (match worker s with WAlive => true | _ => false end) (x_alive e)
          && reps_eqb (reported x) (xc_reported c)
       then 0%nat else 1%nat.

Definition xcase_diff (c : xcase) : list bool :=
  let '(x, sn, bad) := x_hist_snaps FUEL (x0 (xc_strat c)) (xc_hist c) in
  let s := x_sim x in
  let e := xc_exp c in
  [flag s; bad; list_eqb snap_eqb sn (x_snaps e); list_eqb kc_eqb (user_trace s) (x_trace e);
   list_eqb outcome_eqb (rev (outs s)) (x_outs e); list_eqb ntf_eqb (rev (ntfs s)) (x_ntfs e);
   list_eqb obsrec_eqb (user_obs s) (x_obs e); list_eqb Nat.eqb (user_canc s) (x_canc e);
   Bool.eqb (match worker s with WAlive => true | _ => false end) (x_alive e);
   reps_eqb (reported x) (xc_reported c)].

Definition xcase_view (c : xcase) :=
  let '(x, sn, bad) := x_hist_snaps FUEL (x0 (xc_strat c)) (xc_hist c) in
  let s := x_sim x in
  (sn, user_trace s, rev (outs s), rev (ntfs s), user_obs s, user_canc s, worker s, reported x).

Fixpoint xcodes_from (i : nat) (want : nat) (cs : list xcase) : list nat :=
  match cs with
  | [] => []
  | c :: r => if Nat.eqb (xcase_code c) want then i :: xcodes_from (S i) want r
              else xcodes_from (S i) want r
  end.
