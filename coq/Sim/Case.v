(* Correspondence relation between the simulator model and the observations
   collected from the implementation (harness/sim_driver.py). *)
From Coq Require Import ZArith List Bool.
From PV Require Import EventList.Key Sim.Model.
Import ListNotations.
Local Open Scope Z_scope.

Definition runst_eqb (a b : runst) : bool :=
  match a, b with
  | RNotInit, RNotInit | RInit, RInit | RStarting, RStarting | RStarted, RStarted
  | RStopping, RStopping | RStopped, RStopped | REnded, REnded => true
  | _, _ => false
  end.

Definition replst_eqb (a b : replst) : bool :=
  match a, b with
  | PNotInit, PNotInit | PInit, PInit | PStarted, PStarted | PEnding, PEnding | PEnded, PEnded => true
  | _, _ => false
  end.

Definition cres_eqb (a b : cres) : bool :=
  match a, b with ResOk, ResOk | ResRefused, ResRefused | ResRaised, ResRaised => true | _, _ => false end.

Definition snap_eqb (a b : snap) : bool :=
  cres_eqb (sn_res a) (sn_res b) && runst_eqb (sn_rs a) (sn_rs b) && replst_eqb (sn_ps a) (sn_ps b)
  && (sn_clock a =? sn_clock b) && Nat.eqb (sn_npend a) (sn_npend b).

Definition outcome_eqb (a b : outcome) : bool :=
  match a, b with
  | OAccepted, OAccepted | ORefused, ORefused | OCmdOk, OCmdOk | OCmdRefused, OCmdRefused => true
  | _, _ => false
  end.

Definition ntf_eqb (a b : ntf) : bool :=
  match a, b with
  | NStartRepl x, NStartRepl y | NStart x, NStart y | NTime x, NTime y | NWarmup x, NWarmup y
  | NStop x, NStop y | NEndRepl x, NEndRepl y => x =? y
  | NStarting, NStarting | NStopping, NStopping => true
  | _, _ => false
  end.

Definition obsrec_eqb (a b : obsrec) : bool :=
  match a, b with
  | ObsV s v t, ObsV s' v' t' => Nat.eqb s s' && (v =? v') && (t =? t')
  | ObsWarm t, ObsWarm t' | ObsEnd t, ObsEnd t' => t =? t'
  | _, _ => false
  end.

Fixpoint list_eqb {A : Type} (eqb : A -> A -> bool) (a b : list A) : bool :=
  match a, b with
  | [], [] => true
  | x :: r, y :: s => eqb x y && list_eqb eqb r s
  | _, _ => false
  end.

Definition kc_eqb (a b : nat * Z) : bool := Nat.eqb (fst a) (fst b) && (snd a =? snd b).

(* the observer's view of the trace: user events only, oldest first *)
Definition user_trace (s : sim) : list (nat * Z) :=
  flat_map (fun ec => match ev_h (fst ec) with
                      | HUser _ => [(ev_k (fst ec), snd ec)]
                      | HWarm => []
                      end) (rev (trace s)).

(* creation indices of the events cancel_event really removed, oldest first *)
Definition user_canc (s : sim) : list nat := map ev_k (rev (cancelled s)).

Definition user_obs (s : sim) : list obsrec :=
  filter (fun o => match o with ObsV _ _ _ => true | _ => false end) (rev (obs s)).

Record expect := mkExpect {
  x_snaps : list snap;
  x_trace : list (nat * Z);
  x_outs : list outcome;
  x_ntfs : list ntf;
  x_obs : list obsrec;
  x_canc : list nat;
  x_alive : bool
}.

Record scase := mkCase {
  c_strat : strategy;
  c_prog : program;
  c_cmds : list cmd;
  c_exp : expect
}.

Definition FUEL : nat := 4000.

Definition run_case (c : scase) : sim * list snap :=
  run_cmds FUEL (c_prog c) (init_sim (c_strat c)) (c_cmds c).

(* 0 = agree, 1 = disagree, 2 = the model does not cover this case (flag) *)
Definition case_code (c : scase) : nat :=
  let '(s, sn) := run_case c in
  let x := c_exp c in
  if flag s then 2%nat
  else if list_eqb snap_eqb sn (x_snaps x)
          && list_eqb kc_eqb (user_trace s) (x_trace x)
          && list_eqb outcome_eqb (rev (outs s)) (x_outs x)
          && list_eqb ntf_eqb (rev (ntfs s)) (x_ntfs x)
          && list_eqb obsrec_eqb (user_obs s) (x_obs x)
          && list_eqb Nat.eqb (user_canc s) (x_canc x)
          && Bool.eqb (match worker s with WAlive => true | _ => false end) (x_alive x)
       then 0%nat else 1%nat.

Fixpoint codes_from (i : nat) (want : nat) (cs : list scase) : list nat :=
  match cs with
  | [] => []
  | c :: r => if Nat.eqb (case_code c) want then i :: codes_from (S i) want r
              else codes_from (S i) want r
  end.

(* which component differs (for diagnostics): bit list *)
Definition case_diff (c : scase) : list bool :=
  let '(s, sn) := run_case c in
  let x := c_exp c in
  [flag s; list_eqb snap_eqb sn (x_snaps x); list_eqb kc_eqb (user_trace s) (x_trace x);
   list_eqb outcome_eqb (rev (outs s)) (x_outs x); list_eqb ntf_eqb (rev (ntfs s)) (x_ntfs x);
   list_eqb obsrec_eqb (user_obs s) (x_obs x);
   list_eqb Nat.eqb (user_canc s) (x_canc x);
   Bool.eqb (match worker s with WAlive => true | _ => false end) (x_alive x)].

Definition case_view (c : scase) :=
  let '(s, sn) := run_case c in
  (sn, user_trace s, rev (outs s), rev (ntfs s), user_obs s, user_canc s, worker s).
