(* Sequential model of the DEVS simulator (simulator.py) driven by model
   programs: clock, pending events, run / replication state machine, commands,
   notifications, executed-event trace.  The worker thread's loop is executed
   synchronously (commands run to quiescence); overlap of a command with the
   run thread is modelled separately (Sim/Overlap.v).

   Executable definitions only.  Times are exact dyadic numbers represented by
   Z (unit: a quarter of a time unit); NaN only occurs in requests. *)
From Coq Require Import ZArith List Bool Lia.
From PV Require Import EventList.Key.
Import ListNotations.
Local Open Scope Z_scope.

Inductive tmv := TNum (z : Z) | TNaN.

Inductive hkind := HWarm | HUser (h : nat).
(* ev_k: creation index within the replication (identifies the event for the
   observer; plays no role in the ordering). *)
Record ev := mkEv { ev_time : Z; ev_prio : Z; ev_id : Z; ev_h : hkind; ev_k : nat }.
Definition ev_key (e : ev) : key := mkKey (ev_time e) (- ev_prio e) (ev_id e).
Definition ev_ltb (a b : ev) : bool := key_ltb (ev_key a) (ev_key b).
Definition ev_eqb (a b : ev) : bool := key_eqb (ev_key a) (ev_key b).

(* the pending set, at specification level: sorted by key (justified for the
   heap-backed list by C01's refinement theorem) *)
Fixpoint ins (e : ev) (l : list ev) : list ev :=
  match l with
  | [] => [e]
  | x :: r => if ev_ltb e x then e :: l else x :: ins e r
  end.

Fixpoint rem (e : ev) (l : list ev) : list ev :=
  match l with
  | [] => []
  | x :: r => if ev_eqb e x then r else x :: rem e r
  end.

Inductive runst := RNotInit | RInit | RStarting | RStarted | RStopping | RStopped | REnded.
Inductive replst := PNotInit | PInit | PStarted | PEnding | PEnded.
Inductive strategy := SLog | SWarnCont | SWarnPause.
Inductive wstate := WNone | WAlive | WFinal.

Record repl := mkRepl { r_start : Z; r_warm : Z; r_end : Z }.

Inductive smode := MNow | MRel (d : tmv) | MAbs (t : tmv).

Inductive cmd :=
| CInit (r : repl) | CInitBad | CStart | CStep | CStop
| CRunUpTo (t : tmv) | CRunUpToIncl (t : tmv) | CEndRepl | CCleanup.

Inductive action :=
| ASched (m : smode) (prio : Z) (h : nat)
| ACancel (k : nat)
| AFail
| ACmd (c : cmd)
| AObs (sid : nat) (v : Z).

Definition program := list (list action).      (* handler id -> body; id 0 = construct_model *)

Inductive outcome := OAccepted | ORefused | OCmdOk | OCmdRefused.

Inductive ntf :=
| NStartRepl (t : Z) | NStarting | NStart (t : Z) | NTime (t : Z) | NWarmup (t : Z)
| NStopping | NStop (t : Z) | NEndRepl (t : Z).

Inductive obsrec := ObsV (sid : nat) (v : Z) (t : Z) | ObsWarm (t : Z) | ObsEnd (t : Z).

Record sim := mkSim {
  clock : Z;
  pend : list ev;
  nid : Z;
  rs : runst;
  ps : replst;
  bound : Z;
  incl : bool;
  strat : strategy;
  worker : wstate;
  rep : option repl;
  created : list ev;
  cancelled : list ev;
  trace : list (ev * Z);
  outs : list outcome;
  ntfs : list ntf;
  obs : list obsrec;
  flag : bool
}.

Definition set_clock (v : Z) (s : sim) : sim := mkSim v (pend s) (nid s) (rs s) (ps s) (bound s) (incl s) (strat s) (worker s) (rep s) (created s) (cancelled s) (trace s) (outs s) (ntfs s) (obs s) (flag s).
Definition set_pend (v : list ev) (s : sim) : sim := mkSim (clock s) v (nid s) (rs s) (ps s) (bound s) (incl s) (strat s) (worker s) (rep s) (created s) (cancelled s) (trace s) (outs s) (ntfs s) (obs s) (flag s).
Definition set_nid (v : Z) (s : sim) : sim := mkSim (clock s) (pend s) v (rs s) (ps s) (bound s) (incl s) (strat s) (worker s) (rep s) (created s) (cancelled s) (trace s) (outs s) (ntfs s) (obs s) (flag s).
Definition set_rs (v : runst) (s : sim) : sim := mkSim (clock s) (pend s) (nid s) v (ps s) (bound s) (incl s) (strat s) (worker s) (rep s) (created s) (cancelled s) (trace s) (outs s) (ntfs s) (obs s) (flag s).
Definition set_ps (v : replst) (s : sim) : sim := mkSim (clock s) (pend s) (nid s) (rs s) v (bound s) (incl s) (strat s) (worker s) (rep s) (created s) (cancelled s) (trace s) (outs s) (ntfs s) (obs s) (flag s).
Definition set_bound (v : Z) (s : sim) : sim := mkSim (clock s) (pend s) (nid s) (rs s) (ps s) v (incl s) (strat s) (worker s) (rep s) (created s) (cancelled s) (trace s) (outs s) (ntfs s) (obs s) (flag s).
Definition set_incl (v : bool) (s : sim) : sim := mkSim (clock s) (pend s) (nid s) (rs s) (ps s) (bound s) v (strat s) (worker s) (rep s) (created s) (cancelled s) (trace s) (outs s) (ntfs s) (obs s) (flag s).
Definition set_strat (v : strategy) (s : sim) : sim := mkSim (clock s) (pend s) (nid s) (rs s) (ps s) (bound s) (incl s) v (worker s) (rep s) (created s) (cancelled s) (trace s) (outs s) (ntfs s) (obs s) (flag s).
Definition set_worker (v : wstate) (s : sim) : sim := mkSim (clock s) (pend s) (nid s) (rs s) (ps s) (bound s) (incl s) (strat s) v (rep s) (created s) (cancelled s) (trace s) (outs s) (ntfs s) (obs s) (flag s).
Definition set_rep (v : option repl) (s : sim) : sim := mkSim (clock s) (pend s) (nid s) (rs s) (ps s) (bound s) (incl s) (strat s) (worker s) v (created s) (cancelled s) (trace s) (outs s) (ntfs s) (obs s) (flag s).
Definition set_created (v : list ev) (s : sim) : sim := mkSim (clock s) (pend s) (nid s) (rs s) (ps s) (bound s) (incl s) (strat s) (worker s) (rep s) v (cancelled s) (trace s) (outs s) (ntfs s) (obs s) (flag s).
Definition set_cancelled (v : list ev) (s : sim) : sim := mkSim (clock s) (pend s) (nid s) (rs s) (ps s) (bound s) (incl s) (strat s) (worker s) (rep s) (created s) v (trace s) (outs s) (ntfs s) (obs s) (flag s).
Definition set_trace (v : list (ev * Z)) (s : sim) : sim := mkSim (clock s) (pend s) (nid s) (rs s) (ps s) (bound s) (incl s) (strat s) (worker s) (rep s) (created s) (cancelled s) v (outs s) (ntfs s) (obs s) (flag s).
Definition set_outs (v : list outcome) (s : sim) : sim := mkSim (clock s) (pend s) (nid s) (rs s) (ps s) (bound s) (incl s) (strat s) (worker s) (rep s) (created s) (cancelled s) (trace s) v (ntfs s) (obs s) (flag s).
Definition set_ntfs (v : list ntf) (s : sim) : sim := mkSim (clock s) (pend s) (nid s) (rs s) (ps s) (bound s) (incl s) (strat s) (worker s) (rep s) (created s) (cancelled s) (trace s) (outs s) v (obs s) (flag s).
Definition set_obs (v : list obsrec) (s : sim) : sim := mkSim (clock s) (pend s) (nid s) (rs s) (ps s) (bound s) (incl s) (strat s) (worker s) (rep s) (created s) (cancelled s) (trace s) (outs s) (ntfs s) v (flag s).
Definition set_flag (v : bool) (s : sim) : sim := mkSim (clock s) (pend s) (nid s) (rs s) (ps s) (bound s) (incl s) (strat s) (worker s) (rep s) (created s) (cancelled s) (trace s) (outs s) (ntfs s) (obs s) v.

(* logs are kept newest-first *)
Definition emit (n : ntf) (s : sim) : sim := set_ntfs (n :: ntfs s) s.
Definition out (o : outcome) (s : sim) : sim := set_outs (o :: outs s) s.
Definition raise_flag (s : sim) : sim := set_flag true s.

Definition init_sim (st : strategy) : sim :=
  mkSim 0 [] 0 RNotInit PNotInit 0 true st WNone None [] [] [] [] [] [] false.

Definition running (s : sim) : bool :=
  match rs s with RStarting | RStarted => true | _ => false end.

Definition end_time (s : sim) : Z := match rep s with Some r => r_end r | None => 0 end.

Inductive hmode := InRun | InStep | InConstruct.

(* ---- scheduling requests (schedule_event_now / _rel / _abs, after the guards) ---- *)
Definition sched_time (s : sim) (m : smode) : option Z :=
  match m with
  | MNow => Some (clock s)
  | MRel (TNum d) => if d <? 0 then None else Some (clock s + d)
  | MRel TNaN => None
  | MAbs (TNum t) => if t <? clock s then None else Some t
  | MAbs TNaN => None
  end.

Definition add_event (t prio : Z) (h : hkind) (s : sim) : sim :=
  let e := mkEv t prio (nid s) h (length (created s)) in
  set_created (created s ++ [e]) (set_nid (nid s + 1) (set_pend (ins e (pend s)) s)).

Definition do_sched (s : sim) (m : smode) (prio : Z) (h : nat) : sim :=
  match sched_time s m with
  | None => out ORefused s
  | Some t => out OAccepted (add_event t prio (HUser h) s)
  end.

(* cancel_event = EventListHeap.remove: "if contains: remove".  Membership and
   removal go by key equality (SimEvent.__eq__).  [cancelled] logs the events
   that were actually taken out of the pending set. *)
Definition ev_mem (e : ev) (l : list ev) : bool := existsb (ev_eqb e) l.

Definition do_cancel (s : sim) (k : nat) : sim :=
  match nth_error (created s) k with
  | Some e => if ev_mem e (pend s)
              then set_cancelled (e :: cancelled s) (set_pend (rem e (pend s)) s)
              else s
  | None => s
  end.

(* ---- a command issued from inside a handler.  While the simulator is
   running everything except stop() is refused without any effect.  Situations
   that would need re-entrant execution (start after a stop in the same
   handler, commands from construct_model, cleanup / end_replication from a
   handler) are not modelled: they raise [flag] and such cases are excluded. ---- *)
Definition inner_cmd (md : hmode) (s : sim) (c : cmd) : sim :=
  match md with
  | InConstruct => raise_flag s
  | _ =>
    match c with
    | CStop =>
        if running s then out OCmdOk (set_rs RStopping (emit NStopping s))
        else out OCmdRefused s
    | CEndRepl | CCleanup => raise_flag s
    | _ => if running s then out OCmdRefused s else raise_flag s
    end
  end.

Definition exec_action (md : hmode) (s : sim) (a : action) : sim * bool :=
  match a with
  | ASched m prio h => (do_sched s m prio h, false)
  | ACancel k => (do_cancel s k, false)
  | AFail => (s, true)
  | ACmd c => (inner_cmd md s c, false)
  | AObs sid v => (set_obs (ObsV sid v (clock s) :: obs s) s, false)
  end.

Fixpoint exec_actions (md : hmode) (s : sim) (acts : list action) : sim * bool :=
  match acts with
  | [] => (s, false)
  | a :: r => let '(s1, failed) := exec_action md s a in
              if failed then (s1, true) else exec_actions md s1 r
  end.

Definition body (p : program) (h : nat) : list action := nth h p [].

(* executing one event whose time the clock has already been set to *)
Definition exec_event (md : hmode) (p : program) (s : sim) (e : ev) : sim * bool :=
  let s1 := set_trace ((e, clock s) :: trace s) s in
  match ev_h e with
  | HWarm => (set_obs (ObsWarm (clock s1) :: obs s1) (emit (NWarmup (clock s1)) s1), false)
  | HUser h => exec_actions md s1 (body p h)
  end.

(* ---- the run loop (_run) ---- *)
Definition stop_at_bound (s : sim) : sim :=
  let s1 := set_clock (bound s) s in
  let s2 := if bound s >=? end_time s then set_ps PEnding s1 else s1 in
  set_rs RStopping s2.

Definition beyond (s : sim) (e : ev) : bool :=
  (ev_time e >? bound s) || ((ev_time e =? bound s) && negb (incl s)).

(* one pass of the loop body: pop the first event e (rest r), TIME_CHANGED only
   if the time differs, clock := event time, execute, react to a failure *)
Definition take_event (p : program) (s : sim) (e : ev) (r : list ev) : sim :=
  let s0 := set_pend r s in
  let s1 := if ev_time e =? clock s0 then s0 else emit (NTime (ev_time e)) s0 in
  let s2 := set_clock (ev_time e) s1 in
  let '(s3, failed) := exec_event InRun p s2 e in
  match failed, strat s3 with
  | true, SWarnPause => set_rs RStopping s3
  | _, _ => s3
  end.

Fixpoint run_loop (fuel : nat) (p : program) (s : sim) : sim :=
  match fuel with
  | O => if running s then raise_flag s else s
  | S f =>
      if running s then
        match pend s with
        | [] => stop_at_bound s
        | e :: r =>
            if beyond s e then stop_at_bound s
            else run_loop f p (take_event p s e r)
        end
      else s
  end.

(* the worker thread's body after a wake-up *)
Definition worker_ending (s : sim) : sim :=
  match ps s with
  | PEnding =>
      set_worker WFinal
        (set_obs (ObsEnd (clock s) :: obs s)
           (emit (NEndRepl (clock s)) (set_rs REnded (set_ps PEnded s))))
  | _ => s
  end.

Definition worker_run (fuel : nat) (p : program) (s : sim) : sim :=
  match worker s with
  | WAlive =>
      let s1 :=
        match ps s with
        | PEnding => s
        | _ =>
            let a := set_rs RStarted (emit (NStart (clock s)) s) in
            let b := run_loop fuel p a in
            set_rs RStopped (emit (NStop (clock b)) b)
        end in
      worker_ending s1
  | _ => s
  end.

(* ---- commands issued at quiescence ---- *)
(* ResRaised: the command let an exception of the model code escape (construct_model
   failing inside initialize) *)
Inductive cres := ResOk | ResRefused | ResRaised.

Definition start_checks (s : sim) : bool :=
  negb (running s)
  && match rep s with Some _ => true | None => false end
  && match rs s with RNotInit => false | _ => true end
  && match ps s with PInit | PStarted => true | _ => false end
  && (clock s <=? end_time s).

Definition do_start (fuel : nat) (p : program) (s : sim) (b : tmv) (i : bool) : sim * cres :=
  if start_checks s then
    match b with
    | TNaN => (s, ResRefused)
    | TNum bz =>
        if bz <? clock s then (s, ResRefused)
        else
          let '(bz', i') := if bz >? end_time s then (end_time s, true) else (bz, i) in
          let s1 := set_rs RStarting (set_incl i' (set_bound bz' s)) in
          let s2 := match ps s1 with
                    | PInit => set_ps PStarted (emit (NStartRepl (clock s1)) s1)
                    | _ => s1
                    end in
          let s3 := emit NStarting s2 in
          (worker_run fuel p s3, ResOk)
    end
  else (s, ResRefused).

Definition step_checks (s : sim) : bool :=
  negb (running s)
  && match rs s with RNotInit => false | _ => true end
  && match ps s with PInit | PStarted => true | _ => false end
  && (clock s <=? end_time s).

(* _step_impl on the first event e (rest r): TIME_CHANGED always; a failing
   handler is caught by step() itself *)
Definition step_event (p : program) (s : sim) (e : ev) (r : list ev) : sim :=
  let a := emit (NTime (ev_time e)) (set_pend r s) in
  let b := set_clock (ev_time e) a in
  fst (exec_event InStep p b e).

Definition do_step (p : program) (s : sim) : sim * cres :=
  if step_checks s then
    let s1 := match ps s with
              | PInit => set_ps PStarted (emit (NStartRepl (clock s)) s)
              | _ => s
              end in
    let s2 := emit (NStart (clock s1)) (set_rs RStarted s1) in
    let s3 :=
      match pend s2 with
      | [] => s2
      | e :: r =>
          if ev_time e >? end_time s2 then s2
          else step_event p s2 e r
      end in
    (set_rs RStopped (emit (NStop (clock s3)) s3), ResOk)
  else (s, ResRefused).

Definition do_cleanup (s : sim) : sim :=
  set_ps PNotInit (set_rs RNotInit (set_worker WNone s)).

Definition do_init (p : program) (s : sim) (r : repl) : sim * cres :=
  if running s then (s, ResRefused)
  else
    let s0 := set_pend [] s in
    let s1 := match worker s0 with WNone => s0 | _ => do_cleanup s0 end in
    let s2 := set_created [] (set_clock (r_start r) (set_rep (Some r) (set_worker WAlive s1))) in
    let '(s3, failed) := exec_actions InConstruct s2 (body p 0) in
    if failed then
      (* construct_model raised: initialize is aborted right there.  Run and replication state are
         what cleanup left or what a fresh / cleaned-up simulator has (not initialised: in every
         reachable state without a worker both states are NOT_INITIALIZED), the new worker thread lives, the clock is at the start,
         what the construct body scheduled before its failure point stays pending, no warm-up event. *)
      (set_ps PNotInit (set_rs RNotInit s3), ResRaised)
    else
    let s5 := set_ps PInit (set_rs RInit s3) in
    let s6 := if r_warm r <? clock s5 then raise_flag s5
              else let e := mkEv (r_warm r) 10 (nid s5) HWarm 0 in
                   set_nid (nid s5 + 1) (set_pend (ins e (pend s5)) s5) in
    (s6, ResOk).

Definition do_end_repl (fuel : nat) (p : program) (s : sim) : sim * cres :=
  match ps s with
  | PStarted =>
      let s1 := if clock s <? end_time s then set_clock (end_time s) s else s in
      let s2 := set_pend [] (set_ps PEnding s1) in
      (worker_run fuel p s2, ResOk)
  | _ => (s, ResRefused)
  end.

Definition do_cmd (fuel : nat) (p : program) (s : sim) (c : cmd) : sim * cres :=
  match c with
  | CInit r => do_init p s r
  | CInitBad => (s, ResRefused)
  | CStart => match rep s with
              | None => (s, ResRefused)
              | Some r => do_start fuel p s (TNum (r_end r)) true
              end
  | CStep => do_step p s
  | CStop => if running s then (set_rs RStopping (emit NStopping s), ResOk) else (s, ResRefused)
  | CRunUpTo t => do_start fuel p s t false
  | CRunUpToIncl t => do_start fuel p s t true
  | CEndRepl => do_end_repl fuel p s
  | CCleanup => (do_cleanup s, ResOk)
  end.

(* ---- running a whole case: a command list, with a snapshot after each ---- *)
Record snap := mkSnap { sn_res : cres; sn_rs : runst; sn_ps : replst; sn_clock : Z; sn_npend : nat }.

Fixpoint run_cmds (fuel : nat) (p : program) (s : sim) (cs : list cmd) : sim * list snap :=
  match cs with
  | [] => (s, [])
  | c :: r =>
      let '(s1, res) := do_cmd fuel p s c in
      let '(s2, sn) := run_cmds fuel p s1 r in
      (s2, mkSnap res (rs s1) (ps s1) (clock s1) (length (pend s1)) :: sn)
  end.
