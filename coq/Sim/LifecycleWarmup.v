(* C04, model M1: the warm-up notification is emitted when the run reaches the
   warm-up time.

   Conservation law: (warm-up events pending) + (WARMUP notifications emitted)
   is constant from initialize on, for every command except end_replication
   (which discards the pending events).  Together with the invariants of
   LifecycleProofs.v (no pending event lies before the clock, the warm-up event
   sits at the warm-up time) it gives: once the clock has passed the warm-up
   time, WARMUP has been notified. *)
From Coq Require Import ZArith List Bool Lia.
From PV Require Import EventList.Key Sim.Model Sim.Lifecycle Sim.LifecycleProofs.
Import ListNotations.
Local Open Scope Z_scope.

Definition is_wu (n : ntf) : bool := match n with NWarmup _ => true | _ => false end.
Definition nw (l : list ntf) : nat := length (filter is_wu l).
Definition done (m : mon) : nat := if m_warm m then 1%nat else 0%nat.

Lemma nw_app a b : nw (a ++ b) = (nw a + nw b)%nat.
Proof. unfold nw. rewrite filter_app, app_length. reflexivity. Qed.

Lemma nw_repeat_stopping k : nw (repeat NStopping k) = 0%nat.
Proof. induction k as [|k IH]; [reflexivity|]. cbn [repeat]. unfold nw in *. cbn [filter is_wu]. exact IH. Qed.

(* ---- the monitor counts WARMUP exactly ---- *)
Lemma mon_step_done m n m1 :
  mon_step m n = Some m1 -> done m1 = (done m + if is_wu n then 1 else 0)%nat.
Proof.
  unfold mon_step, done.
  destruct (negb (m_live m) || m_er m); [discriminate|].
  destruct (m_starting m).
  - destruct n; try discriminate.
    destruct (negb (m_run m) && le_last (m_last m) t); [|discriminate].
    intros H; injection H as <-. cbn [m_warm is_wu]. lia.
  - destruct n; cbn [is_wu].
    + destruct (m_sr m); [discriminate|]. intros H; injection H as <-. cbn [m_warm]. lia.
    + destruct (m_sr m && negb (m_run m)); [|discriminate]. intros H; injection H as <-. cbn [m_warm]. lia.
    + destruct (m_sr m && negb (m_run m) && le_last (m_last m) t); [|discriminate].
      intros H; injection H as <-. cbn [m_warm]. lia.
    + destruct (m_sr m && m_run m && le_last (m_last m) t); [|discriminate].
      intros H; injection H as <-. cbn [m_warm]. lia.
    + destruct (m_warm m) eqn:W.
      * rewrite andb_false_r. cbn [andb]. discriminate.
      * destruct (m_sr m && m_run m && negb false && (t =? m_w m) && le_last (m_last m) t); [|discriminate].
        intros H; injection H as <-. cbn [m_warm]. lia.
    + destruct (m_sr m && m_run m); [|discriminate]. intros H; injection H as <-. lia.
    + destruct (m_sr m && m_run m && le_last (m_last m) t); [|discriminate].
      intros H; injection H as <-. cbn [m_warm]. lia.
    + destruct (m_sr m && negb (m_run m) && le_last (m_last m) t); [|discriminate].
      intros H; injection H as <-. cbn [m_warm]. lia.
Qed.

Lemma mon_feed_done l : forall m m1, mon_feed m l = Some m1 -> done m1 = (done m + nw l)%nat.
Proof.
  induction l as [|n r IH]; intros m m1 H; cbn [mon_feed] in H.
  - injection H as <-. unfold nw. cbn. lia.
  - destruct (mon_step m n) as [m'|] eqn:E; [|discriminate].
    rewrite (IH _ _ H), (mon_step_done _ _ _ E). unfold nw. cbn [filter].
    destruct (is_wu n); cbn [length]; lia.
Qed.

(* ---- identifiers: a cancel can never hit the warm-up event ---- *)
Record WK (s : sim) : Prop := mkWK {
  wk_pend : Forall (fun x => ev_id x < nid s) (pend s);
  wk_created : Forall (fun e => ev_id e < nid s) (created s);
  wk_sep : forall e x, In e (created s) -> In x (pend s) -> is_warm x = true -> ev_id e <> ev_id x
}.

Lemma In_ins x e l : In x (ins e l) -> x = e \/ In x l.
Proof.
  induction l as [|y r IH]; cbn [ins].
  - intros [H|[]]; auto.
  - destruct (ev_ltb e y).
    + intros [H|H]; auto.
    + intros [H|H]; [right; left; exact H|].
      destruct (IH H) as [H1|H1]; [left; exact H1|right; right; exact H1].
Qed.

Lemma In_rem x e l : In x (rem e l) -> In x l.
Proof.
  induction l as [|y r IH]; cbn [rem]; [auto|].
  destruct (ev_eqb e y); [intros H; right; exact H|].
  intros [H|H]; [left; exact H|right; apply IH; exact H].
Qed.

Lemma ev_eqb_id a b : ev_eqb a b = true -> ev_id a = ev_id b.
Proof.
  unfold ev_eqb, key_eqb, ev_key. cbn [k_time k_nprio k_id]. intros H.
  apply andb_true_iff in H. destruct H as [_ H]. apply Z.eqb_eq in H. exact H.
Qed.

Lemma count_warm_rem_eq e l :
  (forall x, In x l -> is_warm x = true -> ev_id e <> ev_id x) ->
  count_warm (rem e l) = count_warm l.
Proof.
  unfold count_warm. induction l as [|y r IH]; intros H; cbn [rem filter]; [reflexivity|].
  destruct (ev_eqb e y) eqn:E.
  - destruct (is_warm y) eqn:W; [|reflexivity].
    exfalso. apply (H y); [left; reflexivity|exact W|apply ev_eqb_id; exact E].
  - cbn [filter]. destruct (is_warm y); cbn [length]; rewrite IH; auto.
    + intros x Hx. apply H. right. exact Hx.
    + intros x Hx. apply H. right. exact Hx.
Qed.

(* ---- handler level: nothing but STOPPING is notified, the number of pending
   warm-up events stays ---- *)
Definition CLh (s s' : sim) : Prop :=
  rep s' = rep s /\
  (WK s -> WK s' /\ count_warm (pend s') = count_warm (pend s)) /\
  exists k, ntfs s' = repeat NStopping k ++ ntfs s.

Lemma CLh_refl s : CLh s s.
Proof. split; [reflexivity|]. split; [auto|]. exists 0%nat. reflexivity. Qed.

Lemma CLh_trans a b c : CLh a b -> CLh b c -> CLh a c.
Proof.
  intros [A1 [A2 [k1 A3]]] [B1 [B2 [k2 B3]]]. split; [congruence|]. split.
  - intros W. destruct (A2 W) as [W1 C1]. destruct (B2 W1) as [W2 C2]. split; [exact W2|congruence].
  - exists (k2 + k1)%nat. rewrite B3, A3, repeat_app, app_assoc. reflexivity.
Qed.

Lemma CLh_same_core s s' :
  rep s' = rep s -> pend s' = pend s -> created s' = created s -> nid s' = nid s -> ntfs s' = ntfs s ->
  CLh s s'.
Proof.
  intros H1 H2 H3 H4 H5. split; [exact H1|]. split.
  - intros [W1 W2 W3]. split; [|rewrite H2; reflexivity].
    constructor; rewrite ?H2, ?H3, ?H4; assumption.
  - exists 0%nat. exact H5.
Qed.

Lemma do_sched_CLh s m prio h : CLh s (do_sched s m prio h).
Proof.
  unfold do_sched. destruct (sched_time s m) as [t|]; [|apply CLh_same_core; reflexivity].
  unfold add_event. split; [reflexivity|]. split; [|exists 0%nat; reflexivity].
  intros [W1 W2 W3]. ssimpl.
  set (e := mkEv t prio (nid s) (HUser h) (length (created s))).
  split.
  - constructor; ssimpl.
    + apply Forall_ins; [cbn; lia|]. eapply Forall_impl; [|exact W1]. cbn. intros; lia.
    + apply Forall_app. split.
      * eapply Forall_impl; [|exact W2]. cbn. intros; lia.
      * constructor; [cbn; lia|constructor].
    + intros e' x He' Hx Hw.
      apply In_ins in Hx. destruct Hx as [->|Hx]; [discriminate|].
      apply in_app_or in He'. destruct He' as [He'|[<-|[]]].
      * apply W3; assumption.
      * rewrite Forall_forall in W1. specialize (W1 x Hx). cbn. lia.
  - rewrite count_warm_ins. cbn. lia.
Qed.

Lemma do_cancel_CLh s k : CLh s (do_cancel s k).
Proof.
  unfold do_cancel. destruct (nth_error (created s) k) as [e|] eqn:E; [|apply CLh_refl].
  destruct (ev_mem e (pend s)); [|apply CLh_refl].
  apply nth_error_In in E.
  split; [reflexivity|]. split; [|exists 0%nat; reflexivity].
  intros [W1 W2 W3]. ssimpl. split.
  - constructor; ssimpl.
    + apply Forall_rem. exact W1.
    + exact W2.
    + intros e' x He' Hx Hw. apply In_rem in Hx. apply W3; assumption.
  - apply count_warm_rem_eq. intros x Hx Hw. apply W3; assumption.
Qed.

Lemma inner_cmd_CLh md s c : CLh s (inner_cmd md s c).
Proof.
  unfold inner_cmd.
  destruct md; try (apply CLh_same_core; reflexivity);
    (destruct c; try (apply CLh_same_core; reflexivity);
     destruct (running s); try (apply CLh_same_core; reflexivity);
     (split; [reflexivity|]; split;
      [intros [W1 W2 W3]; split; [constructor; ssimpl; assumption|reflexivity]
      |exists 1%nat; reflexivity])).
Qed.

Lemma exec_action_CLh md s a : CLh s (fst (exec_action md s a)).
Proof.
  destruct a; cbn [exec_action fst].
  - apply do_sched_CLh.
  - apply do_cancel_CLh.
  - apply CLh_refl.
  - apply inner_cmd_CLh.
  - apply CLh_same_core; reflexivity.
Qed.

Lemma exec_actions_CLh md acts : forall s, CLh s (fst (exec_actions md s acts)).
Proof.
  induction acts as [|a r IH]; intros s; cbn [exec_actions]; [apply CLh_refl|].
  pose proof (exec_action_CLh md s a) as H1.
  destruct (exec_action md s a) as [s1 failed]. cbn [fst] in H1.
  destruct failed; [exact H1|]. eapply CLh_trans; [exact H1|apply IH].
Qed.

(* ---- loop level: pending warm-up events + WARMUP notifications is constant ---- *)
Definition CL (s s' : sim) : Prop :=
  rep s' = rep s /\
  (WK s -> WK s' /\ exists l, ntfs s' = rev l ++ ntfs s /\
                             (count_warm (pend s') + nw l = count_warm (pend s))%nat).

Lemma CL_refl s : CL s s.
Proof. split; [reflexivity|]. intros W. split; [exact W|]. exists []. split; [reflexivity|]. unfold nw; cbn; lia. Qed.

Lemma CL_trans a b c : CL a b -> CL b c -> CL a c.
Proof.
  intros [A1 A2] [B1 B2]. split; [congruence|]. intros W.
  destruct (A2 W) as [W1 [l1 [L1 C1]]]. destruct (B2 W1) as [W2 [l2 [L2 C2]]].
  split; [exact W2|]. exists (l1 ++ l2). split.
  - rewrite L2, L1, rev_app_distr, app_assoc. reflexivity.
  - rewrite nw_app. lia.
Qed.

Lemma CLh_CL s s' : CLh s s' -> CL s s'.
Proof.
  intros [H1 [H2 [k H3]]]. split; [exact H1|]. intros W. destruct (H2 W) as [W' C].
  split; [exact W'|]. exists (repeat NStopping k). rewrite rev_repeat, nw_repeat_stopping. split; [exact H3|lia].
Qed.

(* state changes that touch neither events, identifiers nor notifications *)
Lemma CL_core s s' l :
  rep s' = rep s -> pend s' = pend s -> created s' = created s -> nid s' = nid s ->
  ntfs s' = rev l ++ ntfs s -> nw l = 0%nat -> CL s s'.
Proof.
  intros H1 H2 H3 H4 H5 H6. split; [exact H1|]. intros [W1 W2 W3]. split.
  - constructor; rewrite ?H2, ?H3, ?H4; assumption.
  - exists l. split; [exact H5|]. rewrite H2, H6. lia.
Qed.

Lemma exec_event_CL md p s e :
  rep (fst (exec_event md p s e)) = rep s /\
  (WK s -> WK (fst (exec_event md p s e)) /\
           exists l, ntfs (fst (exec_event md p s e)) = rev l ++ ntfs s /\
                     count_warm (pend (fst (exec_event md p s e))) = count_warm (pend s) /\
                     nw l = (if is_warm e then 1 else 0)%nat).
Proof.
  unfold exec_event, is_warm. destruct (ev_h e) as [|h].
  - cbn [fst]. ssimpl. split; [reflexivity|]. intros [W1 W2 W3]. split.
    + constructor; ssimpl; assumption.
    + exists [NWarmup (clock s)]. split; [reflexivity|]. split; reflexivity.
  - set (s1 := set_trace ((e, clock s) :: trace s) s).
    destruct (exec_actions_CLh md (body p h) s1) as [H1 [H2 [k H3]]].
    split; [exact H1|]. intros W.
    assert (W1 : WK s1) by (destruct W as [A B C]; constructor; subst s1; ssimpl; assumption).
    destruct (H2 W1) as [W' C]. split; [exact W'|].
    exists (repeat NStopping k). rewrite rev_repeat, nw_repeat_stopping.
    split; [exact H3|]. split; [exact C|reflexivity].
Qed.

Lemma WK_pop s e r : WK s -> pend s = e :: r -> WK (set_pend r s).
Proof.
  intros [W1 W2 W3] Hp. rewrite Hp in *. constructor; ssimpl.
  - inversion W1; assumption.
  - exact W2.
  - intros e' x He' Hx. apply W3; [exact He'|right; exact Hx].
Qed.

Lemma take_event_CL p s e r : pend s = e :: r -> CL s (take_event p s e r).
Proof.
  intros Hp. unfold take_event.
  set (s1 := if ev_time e =? clock (set_pend r s) then set_pend r s
             else emit (NTime (ev_time e)) (set_pend r s)).
  set (s2 := set_clock (ev_time e) s1).
  destruct (exec_event_CL InRun p s2 e) as [H1 H2].
  assert (R2 : rep s2 = rep s) by (unfold s2, s1; ssimpl; destruct (ev_time e =? clock s); reflexivity).
  assert (P2 : pend s2 = r) by (unfold s2, s1; ssimpl; destruct (ev_time e =? clock s); reflexivity).
  assert (N2 : ntfs s2 = rev (tc_part s e) ++ ntfs s).
  { unfold s2, s1, tc_part. ssimpl. destruct (ev_time e =? clock s); reflexivity. }
  assert (Ntc : nw (tc_part s e) = 0%nat) by (unfold tc_part; destruct (ev_time e =? clock s); reflexivity).
  destruct (exec_event InRun p s2 e) as [s3 failed]. cbn [fst] in *.
  assert (G : CL s s3).
  { split; [congruence|]. intros W.
    assert (W2 : WK s2).
    { pose proof (WK_pop s e r W Hp) as [A B C].
      constructor; unfold s2, s1 in *; ssimpl; destruct (ev_time e =? clock s); ssimpl; assumption. }
    destruct (H2 W2) as [W3 [l [L1 [L2 L3]]]]. split; [exact W3|].
    exists (tc_part s e ++ l). split.
    - rewrite L1, N2, rev_app_distr, app_assoc. reflexivity.
    - rewrite nw_app, Ntc, L3, L2, P2, Hp. unfold count_warm. cbn [filter].
      destruct (is_warm e); cbn [length]; lia. }
  destruct failed; [destruct (strat s3)|]; try exact G;
    (eapply CL_trans; [exact G|]; apply (CL_core _ _ []); reflexivity).
Qed.

Lemma stop_at_bound_CL s : CL s (stop_at_bound s).
Proof.
  unfold stop_at_bound. destruct (bound s >=? end_time s); apply (CL_core _ _ []); reflexivity.
Qed.

Lemma run_loop_CL fuel p : forall s, CL s (run_loop fuel p s).
Proof.
  induction fuel as [|f IH]; intros s; cbn [run_loop].
  - destruct (running s); [apply (CL_core _ _ []); reflexivity|apply CL_refl].
  - destruct (running s); [|apply CL_refl].
    destruct (pend s) as [|e r] eqn:Hp; [apply stop_at_bound_CL|].
    destruct (beyond s e); [apply stop_at_bound_CL|].
    eapply CL_trans; [apply take_event_CL; exact Hp|apply IH].
Qed.

Lemma worker_ending_CL s : CL s (worker_ending s).
Proof.
  unfold worker_ending. destruct (ps s); try apply CL_refl.
  apply (CL_core _ _ [NEndRepl (clock s)]); reflexivity.
Qed.

Lemma worker_run_CL fuel p s : CL s (worker_run fuel p s).
Proof.
  unfold worker_run. destruct (worker s); try apply CL_refl.
  destruct (ps s) eqn:Eps;
    try (eapply CL_trans; [|apply worker_ending_CL];
         eapply CL_trans; [apply (CL_core _ (set_rs RStarted (emit (NStart (clock s)) s)) [NStart (clock s)]); reflexivity|];
         eapply CL_trans; [apply run_loop_CL|];
         match goal with |- CL ?b _ => apply (CL_core _ _ [NStop (clock b)]); reflexivity end).
  apply worker_ending_CL.
Qed.

Lemma do_start_CL fuel p s b i : CL s (fst (do_start fuel p s b i)).
Proof.
  unfold do_start. destruct (start_checks s); [|apply CL_refl].
  destruct b as [bz|]; [|apply CL_refl].
  destruct (bz <? clock s); [apply CL_refl|].
  destruct (bz >? end_time s); cbn [fst];
    (eapply CL_trans; [|apply worker_run_CL]);
    (destruct (ps s) eqn:Eps; ssimpl; rewrite ?Eps;
     first [apply (CL_core _ _ [NStarting]); reflexivity
           |apply (CL_core _ _ [NStartRepl (clock s); NStarting]); reflexivity]).
Qed.

Lemma step_event_CL p s e r : pend s = e :: r -> CL s (step_event p s e r).
Proof.
  intros Hp. unfold step_event.
  set (b := set_clock (ev_time e) (emit (NTime (ev_time e)) (set_pend r s))).
  destruct (exec_event_CL InStep p b e) as [H1 H2].
  split; [rewrite H1; reflexivity|]. intros W.
  assert (Wb : WK b).
  { pose proof (WK_pop s e r W Hp) as [A B C]. constructor; unfold b; ssimpl; assumption. }
  destruct (H2 Wb) as [W3 [l [L1 [L2 L3]]]]. split; [exact W3|].
  exists (NTime (ev_time e) :: l). split.
  - rewrite L1. unfold b. ssimpl. cbn [rev]. rewrite <- app_assoc. reflexivity.
  - unfold nw in *. cbn [filter is_wu]. rewrite L3, L2. unfold b. ssimpl. rewrite Hp.
    unfold count_warm. cbn [filter]. destruct (is_warm e); cbn [length]; lia.
Qed.

Lemma do_step_CL p s : CL s (fst (do_step p s)).
Proof.
  unfold do_step. destruct (step_checks s); [|apply CL_refl]. cbn [fst].
  set (s1 := match ps s with PInit => set_ps PStarted (emit (NStartRepl (clock s)) s) | _ => s end).
  set (s2 := emit (NStart (clock s1)) (set_rs RStarted s1)).
  assert (G2 : CL s s2).
  { unfold s2, s1. destruct (ps s);
      first [apply (CL_core _ _ [NStart (clock s)]); reflexivity
            |apply (CL_core _ _ [NStartRepl (clock s); NStart (clock s)]); reflexivity]. }
  set (s3 := match pend s2 with
             | [] => s2
             | e :: r => if ev_time e >? end_time s2 then s2 else step_event p s2 e r
             end).
  assert (G3 : CL s2 s3).
  { unfold s3. destruct (pend s2) as [|e r] eqn:Hp; [apply CL_refl|].
    destruct (ev_time e >? end_time s2); [apply CL_refl|apply step_event_CL; exact Hp]. }
  eapply CL_trans; [exact G2|]. eapply CL_trans; [exact G3|].
  apply (CL_core _ _ [NStop (clock s3)]); reflexivity.
Qed.

(* every command except initialize / end_replication / cleanup *)
Definition conserving (c : cmd) : bool :=
  match c with CInit _ | CEndRepl | CCleanup => false | _ => true end.

Lemma do_cmd_CL fuel p s c : conserving c = true -> CL s (fst (do_cmd fuel p s c)).
Proof.
  destruct c; cbn [conserving do_cmd]; try discriminate; intros _.
  - apply CL_refl.
  - destruct (rep s); [apply do_start_CL|apply CL_refl].
  - apply do_step_CL.
  - destruct (running s); [|apply CL_refl]. cbn [fst]. apply (CL_core _ _ [NStopping]); reflexivity.
  - apply do_start_CL.
  - apply do_start_CL.
Qed.

(* ---- the invariant and its preservation ---- *)
Definition CW (s : sim) (m : mon) : Prop :=
  WK s /\ (warm_scheduled s = true -> (count_warm (pend s) + done m = 1)%nat).

Definition J (s : sim) (m : mon) : Prop :=
  QI s m /\ (rs_initialized (rs s) = true -> CW s m).

Lemma J_init st : J (init_sim st) mon_dead.
Proof. split; [apply QI_init|]. cbn. discriminate. Qed.

Lemma do_init_CW p s r s1 :
  do_init p s r = (s1, ResOk) -> CW s1 (mon_fresh (r_warm r)).
Proof.
  unfold do_init. destruct (running s); [discriminate|]. cbv zeta.
  set (s0 := set_pend [] s).
  set (sc := match worker s0 with WNone => s0 | _ => do_cleanup s0 end).
  set (s2 := set_created [] (set_clock (r_start r) (set_rep (Some r) (set_worker WAlive sc)))).
  destruct (exec_actions_CLh InConstruct (body p 0) s2) as [H1 [H2 _]].
  pose proof (exec_actions_hstep InConstruct (body p 0) s2) as Hh.
  destruct (exec_actions InConstruct s2 (body p 0)) as [s3 failed]. cbn [fst] in *.
  destruct failed; [discriminate|].
  intros H. injection H as <-.
  assert (P2 : pend s2 = []).
  { unfold s2, sc, s0, do_cleanup. destruct (worker (set_pend [] s)); reflexivity. }
  assert (W2 : WK s2).
  { constructor.
    - rewrite P2. constructor.
    - unfold s2. ssimpl. constructor.
    - unfold s2. ssimpl. intros e x []. }
  destruct (H2 W2) as [[W3a W3b W3c] C3]. rewrite P2 in C3. change (count_warm []) with 0%nat in C3.
  set (s4 := s3).
  set (s5 := set_ps PInit (set_rs RInit s4)).
  assert (F : pend s4 = pend s3 /\ created s4 = created s3 /\ nid s4 = nid s3 /\ rep s4 = Some r /\ clock s4 = r_start r).
  { unfold s4. ssimpl; rewrite H1, (hs_clock _ _ Hh); auto. }
  destruct F as [F1 [F2 [F3 [F4 F5]]]].
  change (clock s5) with (clock s4). rewrite F5.
  destruct (Z.ltb_spec (r_warm r) (r_start r)) as [Hlt|Hge].
  - split.
    + constructor; unfold s5; ssimpl; rewrite ?F1, ?F2, ?F3; assumption.
    + unfold warm_scheduled, s5. ssimpl. rewrite F4. intros E. apply Z.leb_le in E. lia.
  - split.
    + constructor; unfold s5; ssimpl; rewrite ?F1, ?F2, ?F3.
      * apply Forall_ins; [cbn; lia|]. eapply Forall_impl; [|exact W3a]. cbn. intros; lia.
      * eapply Forall_impl; [|exact W3b]. cbn. intros; lia.
      * intros e x He Hx Hw. apply In_ins in Hx. destruct Hx as [->|Hx].
        -- cbn. rewrite Forall_forall in W3b. specialize (W3b e He). cbn in W3b. lia.
        -- apply W3c; assumption.
    + intros _. unfold s5. ssimpl. rewrite F1, count_warm_ins, C3. reflexivity.
Qed.

Lemma do_cmd_J fuel p s m c s1 res :
  is_endrepl c = false ->
  J s m -> do_cmd fuel p s c = (s1, res) ->
  exists m1, mon_feed (mon_reset c res m) (new_ntfs s s1) = Some m1 /\ J s1 m1.
Proof.
  intros Hc [Q Cw] H.
  destruct (do_cmd_QI fuel p s m c s1 res Q H) as [m1 [F Q1]].
  exists m1. split; [exact F|]. split; [exact Q1|]. intros Hi.
  destruct (conserving c) eqn:Cc.
  - (* start / step / stop / bounded runs / invalid initialize *)
    assert (Er : mon_reset c res m = m) by (destruct c; try discriminate; reflexivity).
    rewrite Er in F.
    pose proof (do_cmd_CL fuel p s c Cc) as [R1 R2]. rewrite H in R1, R2. cbn [fst] in R1, R2.
    assert (Hi0 : rs_initialized (rs s) = true).
    { destruct res.
      - pose proof (accept_refuse_table_inv fuel p s c) as T. rewrite H in T. cbn [snd] in T.
        destruct (rs s) eqn:Ers; try reflexivity. exfalso.
        assert (T' : ResOk = table_of p s c).
        { apply T. cbn. discriminate. }
        unfold table_of in T'. rewrite ?Ers in T'. destruct c; try discriminate.
      - apply refused_changes_nothing in H. subst s1. exact Hi.
      - (* only an initialize can be aborted by the model *)
        exfalso. pose proof (accept_refuse_table_inv fuel p s c) as T. rewrite H in T. cbn [snd] in T.
        assert (T' : ResRaised = table_of p s c).
        { apply T. intros Hi'. destruct (qi_rep _ _ Q Hi') as [r' [Hr' _]]. congruence. }
        unfold table_of, table in T'. destruct c; try discriminate;
          repeat match type of T' with context [if ?x then _ else _] => destruct x end;
          try discriminate; destruct (ps s); discriminate. }
    destruct (Cw Hi0) as [W C]. destruct (R2 W) as [W1 [l [L1 L2]]].
    split; [exact W1|].
    unfold warm_scheduled. rewrite R1. intros Hs. specialize (C Hs).
    rewrite (new_ntfs_app _ _ _ L1) in F. rewrite (mon_feed_done _ _ _ F). lia.
  - destruct c; try discriminate.
    + (* initialize *)
      destruct res.
      * cbn [do_cmd] in H. cbn [mon_reset] in F.
        pose proof (do_init_CW p s r s1 H) as C.
        assert (E : m1 = mon_fresh (r_warm r)).
        { pose proof (do_init_QI p s m r s1 ResOk Q H) as [m2 [F2 _]]. cbn [mon_reset] in F2.
          rewrite F in F2. injection F2 as ->.
          (* nothing is notified by initialize *)
          revert F. unfold do_init in H. destruct (running s); [discriminate|].
          intros F. clear -F H.
          assert (N : new_ntfs s s1 = []).
          { cbv zeta in H.
            set (s0 := set_pend [] s) in *.
            set (sc := match worker s0 with WNone => s0 | _ => do_cleanup s0 end) in *.
            set (s2 := set_created [] (set_clock (r_start r) (set_rep (Some r) (set_worker WAlive sc)))) in *.
            pose proof (exec_actions_construct (body p 0) s2) as [_ Hn].
            destruct (exec_actions InConstruct s2 (body p 0)) as [s3 failed]. cbn [fst] in *.
            destruct failed; [discriminate|].
            injection H as <-.
            apply (new_ntfs_app _ _ []).
            assert (N2 : ntfs s2 = ntfs s).
            { unfold s2, sc, s0, do_cleanup. destruct (worker (set_pend [] s)); reflexivity. }
            destruct (r_warm r <? _); ssimpl; rewrite Hn, N2; reflexivity. }
          rewrite N in F. cbn [mon_feed] in F. injection F as <-. reflexivity. }
        subst m1. exact C.
      * apply refused_changes_nothing in H. subst s1. cbn [mon_reset] in F.
        rewrite new_ntfs_same in F. cbn [mon_feed] in F. injection F as <-. apply Cw. exact Hi.
      * (* aborted by construct_model: not initialized afterwards *)
        exfalso. cbn [mon_reset] in F.
        destruct (new_ntfs s s1) as [|n l]; cbn [mon_feed] in F; [injection F as <-|cbn in F; discriminate].
        destruct (agrees_inv _ _ _ (qi_agree _ _ Q1)) as [A _]. cbn in A. congruence.
    + (* cleanup: not initialized afterwards *)
      cbn [do_cmd] in H. injection H as <- <-. cbn in Hi. discriminate.
Qed.

Lemma lifecycle_run_J fuel p cs : forall s m s' m',
  forallb (fun c => negb (is_endrepl c)) cs = true ->
  J s m -> lifecycle_run fuel p s m cs = Some (s', m') -> J s' m'.
Proof.
  induction cs as [|c r IH]; intros s m s' m' Hcs Hj H; cbn [lifecycle_run] in H.
  - injection H as <- <-. exact Hj.
  - cbn [forallb] in Hcs. apply andb_true_iff in Hcs. destruct Hcs as [Hc Hr].
    apply negb_true_iff in Hc.
    destruct (do_cmd fuel p s c) as [s1 res] eqn:E.
    destruct (do_cmd_J fuel p s m c s1 res Hc Hj E) as [m1 [F J1]].
    rewrite F in H. apply (IH s1 m1); assumption.
Qed.

(* the monitored run never rejects (a restatement of stream_wf) *)
Lemma lifecycle_run_total fuel p cs : forall s m,
  QI s m -> exists s' m', lifecycle_run fuel p s m cs = Some (s', m').
Proof.
  induction cs as [|c r IH]; intros s m Q; cbn [lifecycle_run]; [eauto|].
  destruct (do_cmd fuel p s c) as [s1 res] eqn:E.
  destruct (do_cmd_QI fuel p s m c s1 res Q E) as [m1 [F Q1]].
  rewrite F. apply IH. exact Q1.
Qed.

(* WARMUP is notified when the run reaches the warm-up time: for every command
   list without end_replication (which discards the pending warm-up event by
   design), in the state and monitor state after the list: if the warm-up time
   is not before the start of the replication and the clock has passed it,
   WARMUP has been seen in this replication (and, by the monitor, exactly once
   and with the warm-up time as its timestamp) *)
Theorem warmup_when_reached fuel p st cs s m r :
  forallb (fun c => negb (is_endrepl c)) cs = true ->
  lifecycle_run fuel p (init_sim st) mon_dead cs = Some (s, m) ->
  rs_initialized (rs s) = true -> rep s = Some r ->
  r_start r <= r_warm r -> r_warm r < clock s ->
  m_warm m = true.
Proof.
  intros Hcs H Hi Hr Hsw Hlt.
  pose proof (lifecycle_run_J fuel p cs _ _ _ _ Hcs (J_init st) H) as [Q Cw].
  destruct (Cw Hi) as [_ C].
  assert (Hs : warm_scheduled s = true) by (unfold warm_scheduled; rewrite Hr; apply Z.leb_le; exact Hsw).
  specialize (C Hs).
  destruct (m_warm m) eqn:W; [reflexivity|exfalso].
  unfold done in C. rewrite W in C.
  destruct (qi_rep _ _ Q Hi) as [r' [Hr' Hw]]. rewrite Hr in Hr'. injection Hr' as <-.
  pose proof (qi_pi _ _ Q Hi) as [_ P2 P3 _].
  (* a warm-up event is pending; it sits at the warm-up time, which is before the clock *)
  assert (Ex : exists x, In x (pend s) /\ is_warm x = true).
  { unfold count_warm in C. destruct (filter is_warm (pend s)) as [|x l] eqn:E; [cbn in C; lia|].
    exists x. apply filter_In. rewrite E. left. reflexivity. }
  destruct Ex as [x [Hx Hwx]].
  rewrite Forall_forall in P2, P3. specialize (P2 x Hx). specialize (P3 x Hx Hwx). lia.
Qed.
