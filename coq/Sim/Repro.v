(* C07 -- the composed model: the simulator of Sim/Model.v together with
   what a stochastic model with pub/sub fan-out adds to it:

     - a producer (built in construct_model) with user listeners that are
       PROGRAMS: being notified, a listener performs a list of actions --
       schedule events, draw from shared streams, observe into statistics,
       subscribe / unsubscribe listeners, fire again;
     - seeded random streams (re-seeded in construct_model) shared by handlers
       and listeners; a stream is its raw output sequence (the numerators k of
       u = k / 2^53, see Streams/Stream.v), [nint lo hi k] is next_int;
     - the model object's output statistics (Sim/Reinit.v).

   Handler and listener code is executed by a flat machine over a stack of
   pending work: firing an event pushes one delivery marker per subscriber of
   the snapshot taken at that moment, in the order of the subscriber list;
   a delivery pushes the listener's program.  An exception empties the stack
   (it propagates through every enclosing fire to the handler's caller).

   Executable definitions only; proofs in Sim/ReproProofs.v. *)
From Coq Require Import ZArith List Bool Lia.
From PV Require Import EventList.Key Sim.Model Sim.Case Sim.Reinit.
From PV Require PubSub.Model.
Import ListNotations.
Local Open Scope Z_scope.

Module PS := PV.PubSub.Model.

Inductive yaction :=
| YA (a : action)                                           (* an action of Sim/Model.v *)
| YSchedD (st : nat) (lo hi mult : Z) (prio : Z) (h : nat)  (* schedule_event_rel(mult * stream.next_int(lo, hi), ...) *)
| YObsD (sid : nat) (st : nat) (lo hi : Z)                  (* observe stream.next_int(lo, hi) *)
| YObsF (sid : nat) (st : nat)                              (* observe stream.next_float() (recorded as its numerator) *)
| YFire (et : nat)                                          (* producer.fire(event type et, serial number) *)
| YSub (et l : nat)                                         (* producer.add_listener(et, listener l) *)
| YUnsub (et l : nat)                                       (* producer.remove_listener(et, listener l) *)
| YSchedPre (j : nat).                                      (* simulator.schedule_event(the j-th pre-built SimEvent), at most once per replication *)

Record ymodel := mkYModel {
  ym_prog : list (list yaction);      (* 0: construct_model body, h: handler h *)
  ym_lst : list (list yaction);       (* l: what listener l does when notified *)
  ym_subs : list (nat * nat);         (* (event type, listener) subscribed in construct_model, in this order *)
  ym_stats : sspec;
  ym_streams : list (list Z);         (* raw outputs of each stream after (re-)seeding *)
  ym_pre : list (Z * Z * nat)         (* SimEvent objects built before initialize: (time, priority, handler) *)
}.

Record dlv := mkDlv { d_et : nat; d_l : nat; d_ser : nat; d_clock : Z }.

Record ysim := mkY {
  y_sim : sim;
  y_subm : PS.submap;                 (* the producer's dict: event type -> list of listeners *)
  y_str : list (list Z);              (* what each stream has left *)
  y_ser : nat;                        (* serial number of the next fired event *)
  y_dlv : list dlv;                   (* deliveries to user listeners, newest first *)
  y_drw : list (nat * Z);             (* (stream, raw output) of every draw, newest first *)
  y_mdl : mdl;
  y_pre : list Z;                     (* the ids the pre-built SimEvent objects got when they were built *)
  y_pdone : list nat                  (* pre-built events already handed over in this replication *)
}.

Definition with_sim (y : ysim) (s : sim) : ysim :=
  mkY s (y_subm y) (y_str y) (y_ser y) (y_dlv y) (y_drw y) (y_mdl y) (y_pre y) (y_pdone y).
Definition with_subm (y : ysim) (m : PS.submap) : ysim :=
  mkY (y_sim y) m (y_str y) (y_ser y) (y_dlv y) (y_drw y) (y_mdl y) (y_pre y) (y_pdone y).

(* a brand-new simulator; pre: the ids of the SimEvent objects built before (all
   below the id counter, in the order of their construction) *)
Definition y0p (st : strategy) (pre : list Z) : ysim := mkY (init_sim st) [] [] 0 [] [] (mkMdl [] []) pre [].
Definition y0 (st : strategy) : ysim := y0p st [].

Fixpoint set_nth {A} (n : nat) (v : A) (l : list A) : list A :=
  match l, n with
  | [], _ => []
  | _ :: r, O => v :: r
  | x :: r, S m => x :: set_nth m v r
  end.

(* one raw output of stream st; None: the oracle table is exhausted *)
Definition draw (st : nat) (y : ysim) : option (Z * ysim) :=
  match nth st (y_str y) [] with
  | k :: r => Some (k, mkY (y_sim y) (y_subm y) (set_nth st r (y_str y)) (y_ser y) (y_dlv y)
                           ((st, k) :: y_drw y) (y_mdl y) (y_pre y) (y_pdone y))
  | [] => None
  end.

Definition yflag (y : ysim) : ysim := with_sim y (raise_flag (y_sim y)).

Section Exec.
Variable nint : Z -> Z -> Z -> Z.       (* next_int lo hi (raw output) *)
Variable M : ymodel.

(* schedule_event(event) for a SimEvent object built before initialize: the event
   keeps the id it got at construction; the time test of schedule_event *)
Definition memn (j : nat) (l : list nat) : bool := existsb (Nat.eqb j) l.

Definition put_pre (e : ev) (s : sim) : sim :=
  set_created (created s ++ [e]) (set_pend (ins e (pend s)) s).

Definition sched_pre (y : ysim) (j : nat) : ysim :=
  if memn j (y_pdone y) then y
  else
    match nth_error (ym_pre M) j, nth_error (y_pre y) j with
    | Some (tm, prio, h), Some pid =>
        let s := y_sim y in
        let s' := if tm <? clock s then out ORefused s
                  else out OAccepted (put_pre (mkEv tm prio pid (HUser h) (length (created s))) s) in
        mkY s' (y_subm y) (y_str y) (y_ser y) (y_dlv y) (y_drw y) (y_mdl y) (y_pre y) (j :: y_pdone y)
    | _, _ => y
    end.

(* every action but fire *)
Definition ystep (md : hmode) (y : ysim) (a : yaction) : ysim * bool :=
  match a with
  | YA b => let '(s', f) := exec_action md (y_sim y) b in (with_sim y s', f)
  | YSchedD st lo hi mult prio h =>
      match draw st y with
      | Some (k, y1) => (with_sim y1 (do_sched (y_sim y1) (MRel (TNum (mult * nint lo hi k))) prio h), false)
      | None => (yflag y, false)
      end
  | YObsD sid st lo hi =>
      match draw st y with
      | Some (k, y1) => let s := y_sim y1 in
                        (with_sim y1 (set_obs (ObsV sid (nint lo hi k) (clock s) :: obs s) s), false)
      | None => (yflag y, false)
      end
  | YObsF sid st =>
      match draw st y with
      | Some (k, y1) => let s := y_sim y1 in
                        (with_sim y1 (set_obs (ObsV sid k (clock s) :: obs s) s), false)
      | None => (yflag y, false)
      end
  | YSub et l => (with_subm y (PS.sub_add et l (y_subm y)), false)
  | YUnsub et l => (with_subm y (PS.sub_remove et l (y_subm y)), false)
  | YFire _ => (y, false)
  | YSchedPre j => (sched_pre y j, false)
  end.

Inductive item :=
| IAct (a : yaction)
| IDlv (et l ser : nat).      (* event no. ser of type et is about to be delivered to listener l *)

Definition lbody (l : nat) : list yaction := nth l (ym_lst M) [].
Definition hbody (h : nat) : list yaction := nth h (ym_prog M) [].

Definition log_dlv (et l ser : nat) (y : ysim) : ysim :=
  mkY (y_sim y) (y_subm y) (y_str y) (y_ser y) (mkDlv et l ser (clock (y_sim y)) :: y_dlv y) (y_drw y) (y_mdl y)
      (y_pre y) (y_pdone y).

Definition bump_ser (y : ysim) : ysim :=
  mkY (y_sim y) (y_subm y) (y_str y) (S (y_ser y)) (y_dlv y) (y_drw y) (y_mdl y) (y_pre y) (y_pdone y).

(* what firing pushes: one marker per subscriber of the snapshot, in list order *)
Definition fire_items (et : nat) (y : ysim) : list item :=
  map (fun l => IDlv et l (y_ser y)) (PS.subscribers (y_subm y) et).

(* the machine; the boolean: an exception left the code *)
Fixpoint ymachine (fuel : nat) (md : hmode) (y : ysim) (stack : list item) : ysim * bool :=
  match fuel with
  | O => match stack with [] => (y, false) | _ => (yflag y, false) end
  | S f =>
      match stack with
      | [] => (y, false)
      | IDlv et l ser :: r => ymachine f md (log_dlv et l ser y) (map IAct (lbody l) ++ r)
      | IAct (YFire et) :: r => ymachine f md (bump_ser y) (fire_items et y ++ r)
      | IAct a :: r => let '(y1, failed) := ystep md y a in
                       if failed then (y1, true) else ymachine f md y1 r
      end
  end.

Definition yexec (fuel : nat) (md : hmode) (y : ysim) (acts : list yaction) : ysim * bool :=
  ymachine fuel md y (map IAct acts).

(* ---- the simulator around it: as in Sim/Model.v, with the machine running the code ---- *)
Definition yexec_event (fuel : nat) (md : hmode) (y : ysim) (e : ev) : ysim * bool :=
  let s := y_sim y in
  let s1 := set_trace ((e, clock s) :: trace s) s in
  match ev_h e with
  | HWarm => (with_sim y (set_obs (ObsWarm (clock s1) :: obs s1) (emit (NWarmup (clock s1)) s1)), false)
  | HUser h => yexec fuel md (with_sim y s1) (hbody h)
  end.

Definition ytake_event (fuel : nat) (y : ysim) (e : ev) (r : list ev) : ysim :=
  let s := y_sim y in
  let s0 := set_pend r s in
  let s1 := if ev_time e =? clock s0 then s0 else emit (NTime (ev_time e)) s0 in
  let s2 := set_clock (ev_time e) s1 in
  let '(y3, failed) := yexec_event fuel InRun (with_sim y s2) e in
  match failed, strat (y_sim y3) with
  | true, SWarnPause => with_sim y3 (set_rs RStopping (y_sim y3))
  | _, _ => y3
  end.

Fixpoint yrun_loop (fuel : nat) (hf : nat) (y : ysim) : ysim :=
  match fuel with
  | O => if running (y_sim y) then yflag y else y
  | S f =>
      if running (y_sim y) then
        match pend (y_sim y) with
        | [] => with_sim y (stop_at_bound (y_sim y))
        | e :: r =>
            if beyond (y_sim y) e then with_sim y (stop_at_bound (y_sim y))
            else yrun_loop f hf (ytake_event hf y e r)
        end
      else y
  end.

Definition yworker_run (fuel hf : nat) (y : ysim) : ysim :=
  let s := y_sim y in
  match worker s with
  | WAlive =>
      let y1 :=
        match ps s with
        | PEnding => y
        | _ =>
            let a := with_sim y (set_rs RStarted (emit (NStart (clock s)) s)) in
            let b := yrun_loop fuel hf a in
            with_sim b (set_rs RStopped (emit (NStop (clock (y_sim b))) (y_sim b)))
        end in
      with_sim y1 (worker_ending (y_sim y1))
  | _ => y
  end.

Definition ydo_start (fuel hf : nat) (y : ysim) (b : tmv) (i : bool) : ysim * cres :=
  let s := y_sim y in
  if start_checks s then
    match b with
    | TNaN => (y, ResRefused)
    | TNum bz =>
        if bz <? clock s then (y, ResRefused)
        else
          let '(bz', i') := if bz >? end_time s then (end_time s, true) else (bz, i) in
          let s1 := set_rs RStarting (set_incl i' (set_bound bz' s)) in
          let s2 := match ps s1 with
                    | PInit => set_ps PStarted (emit (NStartRepl (clock s1)) s1)
                    | _ => s1
                    end in
          let s3 := emit NStarting s2 in
          (yworker_run fuel hf (with_sim y s3), ResOk)
    end
  else (y, ResRefused).

Definition ystep_event (hf : nat) (y : ysim) (e : ev) (r : list ev) : ysim :=
  let s := y_sim y in
  let a := emit (NTime (ev_time e)) (set_pend r s) in
  let b := set_clock (ev_time e) a in
  fst (yexec_event hf InStep (with_sim y b) e).

Definition ydo_step (hf : nat) (y : ysim) : ysim * cres :=
  let s := y_sim y in
  if step_checks s then
    let s1 := match ps s with
              | PInit => set_ps PStarted (emit (NStartRepl (clock s)) s)
              | _ => s
              end in
    let s2 := emit (NStart (clock s1)) (set_rs RStarted s1) in
    let y3 :=
      match pend s2 with
      | [] => with_sim y s2
      | e :: r =>
          if ev_time e >? end_time s2 then with_sim y s2
          else ystep_event hf (with_sim y s2) e r
      end in
    (with_sim y3 (set_rs RStopped (emit (NStop (clock (y_sim y3))) (y_sim y3))), ResOk)
  else (y, ResRefused).

(* construct_model: streams re-seeded, a new producer with the initial
   subscriptions, serial numbers from 0, statistics rebuilt, then the body *)
Definition initial_subs : PS.submap :=
  fold_left (fun m el => PS.sub_add (fst el) (snd el) m) (ym_subs M) [].

Definition ydo_init (hf : nat) (y : ysim) (r : repl) : ysim * cres * bool :=
  let s := y_sim y in
  if running s then (y, ResRefused, false)
  else
    let n := length (obs s) in
    let m0 := mkMdl [] (map (cut_obj n) (m_objs (y_mdl y))) in
    let '(m1, ok) := build_stats n (ym_stats M) m0 in
    if negb ok then (mkY s (y_subm y) (y_str y) (y_ser y) (y_dlv y) (y_drw y) m1 (y_pre y) (y_pdone y), ResRefused, true)
    else
      let s0 := set_pend [] s in
      let s1 := match worker s0 with WNone => s0 | _ => do_cleanup s0 end in
      let s2 := set_created [] (set_clock (r_start r) (set_rep (Some r) (set_worker WAlive s1))) in
      let ya := mkY s2 initial_subs (ym_streams M) 0 (y_dlv y) (y_drw y) m1 (y_pre y) [] in
      let '(y3, failed) := yexec hf InConstruct ya (hbody 0) in
      if failed then
        (* construct_model raised: initialize is aborted (as in Sim/Model.v) *)
        (with_sim y3 (set_ps PNotInit (set_rs RNotInit (y_sim y3))), ResRaised, false)
      else
      let s5 := set_ps PInit (set_rs RInit (y_sim y3)) in
      let s6 := if r_warm r <? clock s5 then raise_flag s5
                else let e := mkEv (r_warm r) 10 (nid s5) HWarm 0 in
                     set_nid (nid s5 + 1) (set_pend (ins e (pend s5)) s5) in
      (with_sim y3 s6, ResOk, false).

Definition ydo_end_repl (fuel hf : nat) (y : ysim) : ysim * cres :=
  let s := y_sim y in
  match ps s with
  | PStarted =>
      let s1 := if clock s <? end_time s then set_clock (end_time s) s else s in
      let s2 := set_pend [] (set_ps PEnding s1) in
      (yworker_run fuel hf (with_sim y s2), ResOk)
  | _ => (y, ResRefused)
  end.

End Exec.

(* a command; the model program is the one initialised last (several models take turns) *)
Definition ydo_cmd (nint : Z -> Z -> Z -> Z) (fuel hf : nat) (M : ymodel) (y : ysim) (c : cmd) : ysim * cres * bool :=
  let s := y_sim y in
  match c with
  | CInit r => ydo_init nint M hf y r
  | CInitBad => (y, ResRefused, false)
  | CStart => match rep s with
              | None => (y, ResRefused, false)
              | Some r => (ydo_start nint M fuel hf y (TNum (r_end r)) true, false)
              end
  | CStep => (ydo_step nint M hf y, false)
  | CStop => if running s then (with_sim y (set_rs RStopping (emit NStopping s)), ResOk, false) else (y, ResRefused, false)
  | CRunUpTo t => (ydo_start nint M fuel hf y t false, false)
  | CRunUpToIncl t => (ydo_start nint M fuel hf y t true, false)
  | CEndRepl => (ydo_end_repl nint M fuel hf y, false)
  | CCleanup => (with_sim y (do_cleanup s), ResOk, false)
  end.

Fixpoint y_hist (nint : Z -> Z -> Z -> Z) (fuel hf : nat) (y : ysim) (h : list (ymodel * cmd))
  : ysim * list snap * bool :=
  match h with
  | [] => (y, [], false)
  | (M, c) :: r =>
      let '(y1, res, bad) := ydo_cmd nint fuel hf M y c in
      let '(y2, sn, bad2) := y_hist nint fuel hf y1 r in
      let s1 := y_sim y1 in
      (y2, mkSnap res (rs s1) (ps s1) (clock s1) (length (pend s1)) :: sn, bad || bad2)
  end.

(* ------------------------------------------------------------------ *)
(** * Embedding of Sim/Model.v programs *)
Definition embed (p : program) : ymodel :=
  mkYModel (map (map YA) p) [] [] [] [] [].

(* ------------------------------------------------------------------ *)
(** * Correspondence with the implementation (harness/c07.py, c06.py) *)
Definition dlv_eqb (a b : dlv) : bool :=
  Nat.eqb (d_et a) (d_et b) && Nat.eqb (d_l a) (d_l b) && Nat.eqb (d_ser a) (d_ser b) && (d_clock a =? d_clock b).

Definition drw_eqb (a b : nat * Z) : bool := Nat.eqb (fst a) (fst b) && (snd a =? snd b).

Definition yreported (y : ysim) : list (nat * option (skind * list obsrec)) :=
  reported (mkX (y_sim y) (y_mdl y)).

Record ycase := mkYCase {
  yc_strat : strategy;
  yc_hist : list (ymodel * cmd);
  yc_exp : expect;
  yc_dlv : list dlv;
  yc_drw : list (nat * Z);
  yc_reported : list (nat * skind * list obsrec);
  yc_pre : list Z        (* ids of the pre-built events: below the counter, in construction order *)
}.

Definition HFUEL : nat := 3000.

Definition ycase_parts (nint : Z -> Z -> Z -> Z) (c : ycase) : bool * list bool :=
  let '(y, sn, bad) := y_hist nint FUEL HFUEL (y0p (yc_strat c) (yc_pre c)) (yc_hist c) in
  let s := y_sim y in
  let e := yc_exp c in
  (flag s || bad,
   [list_eqb snap_eqb sn (x_snaps e); list_eqb kc_eqb (user_trace s) (x_trace e);
    list_eqb outcome_eqb (rev (outs s)) (x_outs e); list_eqb ntf_eqb (rev (ntfs s)) (x_ntfs e);
    list_eqb obsrec_eqb (user_obs s) (x_obs e); list_eqb Nat.eqb (user_canc s) (x_canc e);
    Bool.eqb (match worker s with WAlive => true | _ => false end) (x_alive e);
    list_eqb dlv_eqb (rev (y_dlv y)) (yc_dlv c); list_eqb drw_eqb (rev (y_drw y)) (yc_drw c);
    reps_eqb (yreported y) (yc_reported c)]).

(* 0 = agree, 1 = disagree, 2 = outside the model *)
Definition ycase_code (nint : Z -> Z -> Z -> Z) (c : ycase) : nat :=
  let '(out, parts) := ycase_parts nint c in
  if out then 2%nat else if forallb (fun b => b) parts then 0%nat else 1%nat.

Fixpoint ycodes_from (nint : Z -> Z -> Z -> Z) (i : nat) (want : nat) (cs : list ycase) : list nat :=
  match cs with
  | [] => []
  | c :: r => if Nat.eqb (ycase_code nint c) want then i :: ycodes_from nint (S i) want r
              else ycodes_from nint (S i) want r
  end.

Definition ycase_view (nint : Z -> Z -> Z -> Z) (c : ycase) :=
  let '(y, sn, bad) := y_hist nint FUEL HFUEL (y0p (yc_strat c) (yc_pre c)) (yc_hist c) in
  let s := y_sim y in
  (sn, user_trace s, rev (outs s), rev (ntfs s), user_obs s, user_canc s, rev (y_dlv y), rev (y_drw y), yreported y).
