(* C04, model M2: theorems about the two-thread transition system of
   Sim/Overlap.v.

   The reachable sets are finite.  Each table T below is computed by closure
   inside Coq; the kernel then checks [start in T] and [closed T] by
   vm_compute, and the generic lemma [closed_invariant] lifts a boolean
   property of the table's states to *every* reachable state: an inductive
   invariant, unbounded in the number of steps. *)
From Coq Require Import ZArith NArith PArith List Bool FMapPositive Lia.
From PV Require Import Sim.Model Sim.Lifecycle Sim.Overlap.
Import ListNotations.

(* ------------------------------------------------------------------ *)
(** * Boolean equality of states is equality *)

Lemma runst_eqb_eq a b : runst_eqb a b = true -> a = b.
Proof. destruct a, b; cbn; intros H; try reflexivity; discriminate. Qed.

Lemma replst_eqb_eq a b : replst_eqb a b = true -> a = b.
Proof. destruct a, b; cbn; intros H; try reflexivity; discriminate. Qed.

Lemma n_w_inj a b : N.eqb (n_w a) (n_w b) = true -> a = b.
Proof. destruct a, b; cbn; intros H; try reflexivity; discriminate. Qed.

Lemma n_m_inj a b : N.eqb (n_m a) (n_m b) = true -> a = b.
Proof. destruct a, b; cbn; intros H; try reflexivity; discriminate. Qed.

Lemma optZ_eqb_eq a b : optZ_eqb a b = true -> a = b.
Proof.
  destruct a, b; cbn; intros H; try reflexivity; try discriminate.
  apply Z.eqb_eq in H. congruence.
Qed.

Lemma mon_eqb_eq a b : mon_eqb a b = true -> a = b.
Proof.
  destruct a as [a1 a2 a3 a4 a5 a6 a7 a8], b as [b1 b2 b3 b4 b5 b6 b7 b8].
  unfold mon_eqb. cbn [m_live m_w m_sr m_run m_starting m_warm m_er m_last].
  intros H. repeat (apply andb_true_iff in H; destruct H as [H ?]).
  repeat match goal with
         | X : Bool.eqb _ _ = true |- _ => apply eqb_prop in X
         | X : Z.eqb _ _ = true |- _ => apply Z.eqb_eq in X
         | X : optZ_eqb _ _ = true |- _ => apply optZ_eqb_eq in X
         end.
  subst. reflexivity.
Qed.

Lemma omon_eqb_eq a b : omon_eqb a b = true -> a = b.
Proof.
  destruct a, b; cbn; intros H; try reflexivity; try discriminate.
  apply mon_eqb_eq in H. congruence.
Qed.

Lemma ostate_eqb_eq a b : ostate_eqb a b = true -> a = b.
Proof.
  destruct a as [a1 a2 a3 a4 a5 a6 a7 a8 a9 a10 a11 a12], b as [b1 b2 b3 b4 b5 b6 b7 b8 b9 b10 b11 b12].
  unfold ostate_eqb.
  cbn [o_rs o_ps o_wake o_runflag o_final o_past o_hasw o_err o_det o_w o_m o_mon].
  intros H. repeat (apply andb_true_iff in H; destruct H as [H ?]).
  repeat match goal with
         | X : Bool.eqb _ _ = true |- _ => apply eqb_prop in X
         | X : runst_eqb _ _ = true |- _ => apply runst_eqb_eq in X
         | X : replst_eqb _ _ = true |- _ => apply replst_eqb_eq in X
         | X : N.eqb (n_w _) (n_w _) = true |- _ => apply n_w_inj in X
         | X : N.eqb (n_m _) (n_m _) = true |- _ => apply n_m_inj in X
         | X : omon_eqb _ _ = true |- _ => apply omon_eqb_eq in X
         end.
  subst. reflexivity.
Qed.

(* ------------------------------------------------------------------ *)
(** * A closed table is an inductive invariant *)

Section Closed.
  Variable succ : ostate -> list ostate.
  Variable start : ostate.

  Inductive reach : ostate -> Prop :=
  | reach_start : reach start
  | reach_step s s' : reach s -> In s' (succ s) -> reach s'.

  Variable T : PM.t ostate.

  Definition memb (s : ostate) : bool :=
    match PM.find (enc s) T with Some x => ostate_eqb s x | None => false end.

  Definition closed : bool := forallb (fun s => forallb memb (succ s)) (states T).

  Lemma memb_In s : memb s = true -> In s (states T).
  Proof.
    unfold memb, states. destruct (PM.find (enc s) T) as [x|] eqn:E; [|discriminate].
    intros H. apply ostate_eqb_eq in H. subst x.
    apply PM.elements_correct in E.
    change s with (snd (enc s, s)). apply in_map. exact E.
  Qed.

  Lemma reach_In : memb start = true -> closed = true -> forall s, reach s -> In s (states T).
  Proof.
    intros Hs Hc s R. induction R as [|s s' R IH Hin].
    - apply memb_In. exact Hs.
    - unfold closed in Hc. rewrite forallb_forall in Hc. specialize (Hc s IH).
      rewrite forallb_forall in Hc. apply memb_In. apply Hc. exact Hin.
  Qed.

  Theorem closed_invariant (P : ostate -> bool) :
    memb start = true -> closed = true -> forallb P (states T) = true ->
    forall s, reach s -> P s = true.
  Proof.
    intros Hs Hc HP s R. rewrite forallb_forall in HP. apply HP.
    apply reach_In; assumption.
  Qed.
End Closed.

(* reachability in the two-thread system under a give-up mode and an issue policy *)
Definition oreach (loose : bool) (pol : policy) : ostate -> Prop := reach (succs loose pol) oinit.

Lemma run_sched_reach loose ls : forall s s',
  oreach loose pol_any s -> run_sched loose s ls = Some s' -> oreach loose pol_any s'.
Proof.
  induction ls as [|l r IH]; intros s s' R H; cbn [run_sched] in H.
  - injection H as <-. exact R.
  - destruct (lab_step loose s l) as [s1|] eqn:E; [|discriminate].
    apply (IH s1 s'); [|exact H].
    apply (reach_step _ _ s s1 R). unfold succs.
    destruct l as [i|i|c]; cbn [lab_step] in E.
    + apply in_or_app. left. eapply nth_error_In. exact E.
    + apply in_or_app. right. apply in_or_app. left. eapply nth_error_In. exact E.
    + apply in_or_app. right. apply in_or_app. right.
      unfold issue. destruct (mpc_idle (o_m s)); [|discriminate]. injection E as <-.
      apply in_map_iff. exists c. split; [reflexivity|].
      apply filter_In. split; [|reflexivity]. unfold all_ocmds. destruct c; cbn; auto 6.
Qed.

(* ------------------------------------------------------------------ *)
(** * The tables *)

Definition T_seq : PM.t ostate := Eval vm_compute in closure false pol_quiescent.
Definition T_safe : PM.t ostate := Eval vm_compute in closure false pol_safe.
Definition T_any : PM.t ostate := Eval vm_compute in closure false pol_any.
Definition T_seq_loose : PM.t ostate := Eval vm_compute in closure true pol_quiescent.
Definition T_any_loose : PM.t ostate := Eval vm_compute in closure true pol_any.

(* at quiescence: M1's invariants *)
Definition quiescent_good (s : ostate) : bool := negb (quiescent s) || qgood s.

(* (1) commands issued only while the run thread is blocked (the discipline of
   M1): every quiescent state satisfies M1's state invariants and the stream
   seen so far is accepted by M1's monitor.  So whatever goes wrong in the
   unrestricted system is due to overlap. *)
Theorem sequential_quiescent_good s :
  oreach false pol_quiescent s -> quiescent s = true -> qgood s = true.
Proof.
  intros R Q.
  assert (H : quiescent_good s = true).
  { apply (closed_invariant (succs false pol_quiescent) oinit T_seq quiescent_good); try exact R;
      vm_compute; reflexivity. }
  unfold quiescent_good in H. rewrite Q in H. exact H.
Qed.

(* (2) the same when commands may also overlap the run thread inside the safe
   windows of Overlap.safe_pair *)
Theorem quiescent_consistent_partial s :
  oreach false pol_safe s -> quiescent s = true -> qgood s = true.
Proof.
  intros R Q.
  assert (H : quiescent_good s = true).
  { apply (closed_invariant (succs false pol_safe) oinit T_safe quiescent_good); try exact R;
      vm_compute; reflexivity. }
  unfold quiescent_good in H. rewrite Q in H. exact H.
Qed.

(* (3) unrestricted overlap: a quiescent state either satisfies M1's invariants
   or shows one of the listed symptoms; no command ever raises a foreign
   exception, _runflag is never left set, the run thread is never leaked *)
Definition any_ok (s : ostate) : bool :=
  negb (o_err s)
  && (negb (quiescent s)
      || (negb (o_runflag s)
          && (qgood s || symptom s)
          && (match o_ps s with PNotInit => worker_dead s | _ => true end))).

Theorem overlap_quiescent_classified s :
  oreach false pol_any s ->
  o_err s = false /\
  (quiescent s = true ->
   o_runflag s = false /\ (qgood s = true \/ symptom s = true) /\
   (o_ps s = PNotInit -> worker_dead s = true)).
Proof.
  intros R.
  assert (H : any_ok s = true).
  { apply (closed_invariant (succs false pol_any) oinit T_any any_ok); try exact R;
      vm_compute; reflexivity. }
  unfold any_ok in H. apply andb_true_iff in H. destruct H as [H1 H2].
  apply negb_true_iff in H1. split; [exact H1|]. intros Q. rewrite Q in H2. cbn [negb orb] in H2.
  apply andb_true_iff in H2. destruct H2 as [H2 H4]. apply andb_true_iff in H2. destruct H2 as [H2 H3].
  apply negb_true_iff in H2. split; [exact H2|]. split.
  - apply orb_true_iff in H3. exact H3.
  - intros E. rewrite E in H4. exact H4.
Qed.

(* (4) when a one-second wait may give up although the run thread is still
   making progress, even the sequential discipline can leave _runflag set
   (start() returned before the run thread raised it); nothing else *)
Definition seq_loose_ok (s : ostate) : bool :=
  negb (quiescent s)
  || qgood s
  || (o_runflag s && qgood (up_runflag false s)).

Theorem sequential_loose_only_stale_runflag s :
  oreach true pol_quiescent s -> quiescent s = true ->
  qgood s = true \/ (o_runflag s = true /\ qgood (up_runflag false s) = true).
Proof.
  intros R Q.
  assert (H : seq_loose_ok s = true).
  { apply (closed_invariant (succs true pol_quiescent) oinit T_seq_loose seq_loose_ok); try exact R;
      vm_compute; reflexivity. }
  unfold seq_loose_ok in H. rewrite Q in H. cbn [negb orb] in H.
  apply orb_true_iff in H. destruct H as [H|H]; [left; exact H|right].
  apply andb_true_iff in H. exact H.
Qed.

(* (5) unrestricted overlap with waits that may give up at any time (a run
   thread slower than one second, e.g. held in a long handler): the symptom
   list grows by a stale _runflag, late writes of the old run thread after
   cleanup(), and AttributeError from the dropped worker reference *)
Definition any_loose_ok (s : ostate) : bool :=
  negb (quiescent s) || qgood s || symptom_loose s.

Theorem overlap_loose_quiescent_classified s :
  oreach true pol_any s -> quiescent s = true -> qgood s = true \/ symptom_loose s = true.
Proof.
  intros R Q.
  assert (H : any_loose_ok s = true).
  { apply (closed_invariant (succs true pol_any) oinit T_any_loose any_loose_ok); try exact R;
      vm_compute; reflexivity. }
  unfold any_loose_ok in H. rewrite Q in H. cbn [negb orb] in H.
  apply orb_true_iff in H. exact H.
Qed.

(* (6) the start handshake: while the run thread is between its wake-up and
   raising _runflag (START being notified, STARTED being written) the command
   thread is never idle - start() has not returned yet.  So a stop() issued
   "as soon as start() has returned" finds the run state STARTED and the run
   loop entered; it cannot be overwritten by the run thread's STARTED.  (Only
   with strict waits: a START subscriber that blocks for more than the one
   second start() is prepared to wait breaks it, see [T_any_loose].) *)
Definition handshake_ok (s : ostate) : bool :=
  negb (mpc_idle (o_m s)
        && match o_w s with WFireStart | WSetStarted | WSetFlag => true | _ => false end).

Theorem start_returns_after_started s :
  oreach false pol_any s -> handshake_ok s = true.
Proof.
  intros R.
  apply (closed_invariant (succs false pol_any) oinit T_any handshake_ok); try exact R;
    vm_compute; reflexivity.
Qed.

(* with a START subscriber slower than one second: start() gives up and returns
   while the run thread is still notifying START (run state STARTING) *)
Definition sched_start_gives_up : list lab :=
  [LI OStart] ++ rep_lab 10 (LM 0)            (* MSt0 .. MSt7: now waiting for _runflag *)
  ++ rep_lab 4 (LW 0)                          (* wakes up, checks, START being notified *)
  ++ [LM 0; LM 0].                             (* gives up after one second, returns *)

(* ------------------------------------------------------------------ *)
(** * The known races, with explicit schedules *)

(* start() from INITIALIZED until the run thread is inside a handler:
   command thread: the checks, STARTING, START_REPLICATION, STARTING event,
   wake-up, handshake; run thread: wakes up, START, STARTED, _runflag, first
   event *)
Definition sched_start_running : list lab :=
  [LI OStart] ++ rep_lab 10 (LM 0)            (* MSt0 .. MSt7: now waiting for _runflag *)
  ++ rep_lab 6 (LW 0)                          (* WWait .. WSetFlag: now at the loop head *)
  ++ rep_lab 2 (LM 0)                          (* MSt8, MSt9: start() returns *)
  ++ [LW 0; LW 0].                             (* WLoop, WBody: an event, the handler runs *)

(* Race 1: stop() overlaps the natural end of the run.
   stop() passes its check while the run is STARTED and fires STOPPING; the run
   thread reaches the end of the replication, writes STOPPED, ENDED, finalizes
   and terminates; only then does stop() write STOPPING.  Nobody is left to
   move the run state on: (STOPPING, ENDED) for ever. *)
Definition sched_stop_vs_end : list lab :=
  sched_start_running
  ++ [LI OStop; LM 0; LM 0]                    (* MSo0 check passes, MSo1 fires STOPPING *)
  ++ [LW 0; LW 0]                              (* handler returns, loop head *)
  ++ [LW 1]                                    (* bound reached, bound = end *)
  ++ rep_lab 11 (LW 0)                         (* ENDING, STOPPING, STOP, STOPPED, ENDED.., clear, exit *)
  ++ [LM 0; LM 0].                             (* MSo2 writes STOPPING, MSo3 sees the finalized worker *)

Theorem overlap_stop_end_refuted :
  exists s, oreach false pol_any s /\ quiescent s = true /\
            o_rs s = RStopping /\ o_ps s = PEnded /\ worker_dead s = true /\ qgood s = false.
Proof.
  destruct (run_sched false oinit sched_stop_vs_end) as [s|] eqn:E; [|vm_compute in E; discriminate].
  exists s. split.
  - eapply run_sched_reach; [apply reach_start|exact E].
  - vm_compute in E. injection E as <-. vm_compute. auto.
Qed.

(* Race 2: start() while the run thread is still on its way out (STOPPING).
   A bounded run has reached its bound and written STOPPING; STOPPING counts as
   "stopped", so start() is admitted: it writes STARTING, fires STARTING and
   sets the wake-up flag.  The run thread then writes STOPPED over STARTING and
   clears the flag at the end of its loop body.  start() gives up waiting for
   _runflag after one second and returns normally; the simulator is STOPPED,
   nothing runs, the subscriber has seen STARTING without START. *)
Definition sched_start_during_stopping : list lab :=
  sched_start_running
  ++ [LW 0; LW 0]                              (* handler returns, loop head *)
  ++ [LW 2; LW 0; LW 0]                        (* bound reached, bound < end; STOPPING written; STOP event *)
  ++ [LI OStart] ++ rep_lab 8 (LM 0)           (* checks pass, STARTING, STARTING event, wake-up *)
  ++ rep_lab 4 (LW 0)                          (* STOPPED, not ending, clear, wait again *)
  ++ [LM 0; LM 0].                             (* gives up, _runflag = False, returns *)

Theorem overlap_start_stopping_refuted :
  exists s, oreach false pol_any s /\ quiescent s = true /\
            o_rs s = RStopped /\ o_ps s = PStarted /\ worker_waiting s = true /\
            starting_lost s = true /\ qgood s = false.
Proof.
  destruct (run_sched false oinit sched_start_during_stopping) as [s|] eqn:E; [|vm_compute in E; discriminate].
  exists s. split.
  - eapply run_sched_reach; [apply reach_start|exact E].
  - vm_compute in E. injection E as <-. vm_compute. auto 10.
Qed.

(* the same lost wake-up hits end_replication(): issued after the run thread
   has tested for ENDING but before it clears the flag, it leaves the
   replication ENDING for ever with the run thread waiting *)
Definition sched_endrepl_lost_wakeup : list lab :=
  sched_start_running
  ++ [LW 0; LW 0; LW 2; LW 0]                  (* bounded run reaches its bound: STOPPING *)
  ++ rep_lab 3 (LW 0)                          (* STOP event, STOPPED, not ending *)
  ++ [LI OEndRepl] ++ rep_lab 4 (LM 0)         (* check, clock := end, ENDING, wake-up *)
  ++ rep_lab 2 (LW 0).                         (* clear, wait again *)

Theorem overlap_end_replication_lost_wakeup_refuted :
  exists s, oreach false pol_any s /\ quiescent s = true /\
            o_rs s = RStopped /\ o_ps s = PEnding /\ worker_waiting s = true /\ qgood s = false.
Proof.
  destruct (run_sched false oinit sched_endrepl_lost_wakeup) as [s|] eqn:E; [|vm_compute in E; discriminate].
  exists s. split.
  - eapply run_sched_reach; [apply reach_start|exact E].
  - vm_compute in E. injection E as <-. vm_compute. auto 10.
Qed.

Theorem start_handshake_loose_refuted :
  exists s, oreach true pol_any s /\ handshake_ok s = false /\ o_rs s = RStarting /\ o_w s = WSetStarted.
Proof.
  destruct (run_sched true oinit sched_start_gives_up) as [s|] eqn:E; [|vm_compute in E; discriminate].
  exists s. split.
  - eapply run_sched_reach; [apply reach_start|exact E].
  - vm_compute in E. injection E as <-. vm_compute. auto.
Qed.

(* the schedules are inside the unsafe windows, as they must be *)
Example races_outside_safe_windows :
  safe_pair WExec OStop = false /\ safe_pair WSetStopped OStart = false /\ safe_pair WClear OEndRepl = false.
Proof. auto. Qed.

(* non-vacuity of (1)-(3): quiescent states with an ended replication are
   reachable under the sequential discipline (start() at quiescence, then the
   run to its natural end) *)
Lemma run_sched_reach_pol loose pol ls : forall s s',
  oreach loose pol s -> run_sched loose s ls = Some s' ->
  forallb (fun x => match x with LI _ => false | _ => true end) ls = true ->
  oreach loose pol s'.
Proof.
  induction ls as [|x r IH]; intros s s' R H Hl; cbn [run_sched] in H.
  - injection H as <-. exact R.
  - destruct (lab_step loose s x) as [s1|] eqn:E; [|discriminate].
    cbn [forallb] in Hl. apply andb_true_iff in Hl. destruct Hl as [Hx Hl].
    apply (IH s1 s'); auto.
    apply (reach_step _ _ s s1 R). unfold succs.
    destruct x as [i|i|c]; cbn [lab_step] in E; [| |discriminate].
    + apply in_or_app. left. eapply nth_error_In. exact E.
    + apply in_or_app. right. apply in_or_app. left. eapply nth_error_In. exact E.
Qed.

Example ended_reachable_sequentially :
  exists s, oreach false pol_quiescent s /\ quiescent s = true /\ o_ps s = PEnded /\ qgood s = true.
Proof.
  exists (mkO REnded PEnded false false true false true false false WDead MIdle
              (Some (mkMon true 0 true false false false true (Some 0%Z)))).
  split; [|auto].
  assert (R1 : oreach false pol_quiescent (up_m MSt0 oinit)).
  { apply (reach_step _ _ oinit); [apply reach_start|]. vm_compute. auto. }
  apply (run_sched_reach_pol false pol_quiescent
           (rep_lab 10 (LM 0) ++ rep_lab 6 (LW 0) ++ rep_lab 2 (LM 0) ++ [LW 0; LW 1] ++ rep_lab 11 (LW 0))
           (up_m MSt0 oinit)); auto.
Qed.
