(* C04, model M1: theorems about the lifecycle protocol, for every program,
   every fuel and every command list (induction; no bound on lengths).

   Everything is stated over Sim/Model.v's own [do_cmd] / [run_cmds]; the
   definitions of the table, the monitor and the state invariants are in
   Sim/Lifecycle.v. *)
From Coq Require Import ZArith List Bool Lia Sorting.Sorted.
From PV Require Import EventList.Key Sim.Model Sim.Lifecycle.
Import ListNotations.
Local Open Scope Z_scope.

Ltac ssimpl :=
  cbn [clock pend nid rs ps bound incl strat worker rep created cancelled trace outs ntfs obs flag
       set_clock set_pend set_nid set_rs set_ps set_bound set_incl set_strat set_worker set_rep
       set_created set_cancelled set_trace set_outs set_ntfs set_obs set_flag
       emit out raise_flag fst snd] in *.

(* ------------------------------------------------------------------ *)
(** * A refused command changes nothing (any state, not only reachable ones) *)

Lemma do_start_refused fuel p s b i s' : do_start fuel p s b i = (s', ResRefused) -> s' = s.
Proof.
  unfold do_start.
  destruct (start_checks s); [|intros H; inversion H; reflexivity].
  destruct b as [bz|]; [|intros H; inversion H; reflexivity].
  destruct (bz <? clock s); [intros H; inversion H; reflexivity|].
  destruct (bz >? end_time s); intros H; inversion H.
Qed.

Lemma do_step_refused p s s' : do_step p s = (s', ResRefused) -> s' = s.
Proof.
  unfold do_step. destruct (step_checks s); intros H; inversion H; reflexivity.
Qed.

Lemma do_init_refused p s r s' : do_init p s r = (s', ResRefused) -> s' = s.
Proof.
  unfold do_init. destruct (running s); [intros H; inversion H; reflexivity|].
  destruct (exec_actions _ _ _) as [s3 failed]. intros H; inversion H.
Qed.

Lemma do_end_repl_refused fuel p s s' : do_end_repl fuel p s = (s', ResRefused) -> s' = s.
Proof.
  unfold do_end_repl. destruct (ps s); intros H; inversion H; reflexivity.
Qed.

Theorem refused_changes_nothing fuel p s c s' :
  do_cmd fuel p s c = (s', ResRefused) -> s' = s.
Proof.
  destruct c; cbn [do_cmd].
  - apply do_init_refused.
  - intros H; inversion H; reflexivity.
  - destruct (rep s); [apply do_start_refused|intros H; inversion H; reflexivity].
  - apply do_step_refused.
  - destruct (running s); intros H; inversion H; reflexivity.
  - apply do_start_refused.
  - apply do_start_refused.
  - apply do_end_repl_refused.
  - intros H; inversion H.
Qed.

Corollary refused_notifies_nobody fuel p s c s' :
  do_cmd fuel p s c = (s', ResRefused) -> new_ntfs s s' = [].
Proof.
  intros H. apply refused_changes_nothing in H. subst s'.
  unfold new_ntfs. rewrite Nat.sub_diag. reflexivity.
Qed.

(* ------------------------------------------------------------------ *)
(** * The accept / refuse decision equals the documented table *)

Lemma running_rs s : running s = rs_running (rs s).
Proof. unfold running, rs_running. destruct (rs s); reflexivity. Qed.

Lemma do_start_res fuel p s b i :
  snd (do_start fuel p s b i) =
  if start_checks s then
    match b with TNaN => ResRefused | TNum bz => if bz <? clock s then ResRefused else ResOk end
  else ResRefused.
Proof.
  unfold do_start. destruct (start_checks s); [|reflexivity].
  destruct b as [bz|]; [|reflexivity].
  destruct (bz <? clock s); [reflexivity|].
  destruct (bz >? end_time s); reflexivity.
Qed.

Lemma start_checks_table s :
  (rs_initialized (rs s) = true -> rep s <> None) ->
  start_checks s =
  negb (rs_running (rs s)) && rs_initialized (rs s) && ps_runnable (ps s) && negb (past_end s).
Proof.
  intros Hrep. unfold start_checks, past_end. rewrite running_rs.
  replace (clock s <? end_time s) with (negb (end_time s <=? clock s))
    by (destruct (Z.leb_spec (end_time s) (clock s)), (Z.ltb_spec (clock s) (end_time s)); cbn; lia || reflexivity).
  destruct (rep s) eqn:Er.
  - destruct (rs s), (ps s); reflexivity.
  - destruct (rs s) eqn:Ers; cbn in *; try (exfalso; apply Hrep; reflexivity);
      destruct (ps s); reflexivity.
Qed.

Lemma step_checks_table s :
  step_checks s =
  negb (rs_running (rs s)) && rs_initialized (rs s) && ps_runnable (ps s) && negb (past_end s).
Proof.
  unfold step_checks, past_end. rewrite running_rs.
  replace (clock s <? end_time s) with (negb (end_time s <=? clock s))
    by (destruct (Z.leb_spec (end_time s) (clock s)), (Z.ltb_spec (clock s) (end_time s)); cbn; lia || reflexivity).
  destruct (rs s), (ps s); reflexivity.
Qed.

Theorem accept_refuse_table_inv fuel p s c :
  (rs_initialized (rs s) = true -> rep s <> None) ->
  snd (do_cmd fuel p s c) = table_of s c.
Proof.
  intros Hrep. pose proof (start_checks_table s Hrep) as Hsc.
  unfold table_of. destruct c; cbn [do_cmd table bound_ok].
  - unfold do_init. rewrite running_rs. destruct (rs_running (rs s)); [reflexivity|].
    destruct (exec_actions _ _ _); reflexivity.
  - reflexivity.
  - destruct (rep s) as [r|] eqn:Er.
    + rewrite do_start_res, Hsc.
      destruct (negb (rs_running (rs s)) && rs_initialized (rs s) && ps_runnable (ps s)) eqn:E1;
        cbn [andb]; [|reflexivity].
      unfold past_end, end_time. rewrite Er.
      destruct (Z.leb_spec (r_end r) (clock s)); cbn [negb andb]; [reflexivity|].
      destruct (Z.ltb_spec (r_end r) (clock s)); [lia|reflexivity].
    + cbn [snd]. destruct (rs s) eqn:Ers; cbn in *;
        try (exfalso; apply Hrep; reflexivity); reflexivity.
  - unfold do_step. rewrite step_checks_table.
    destruct (negb (rs_running (rs s)) && rs_initialized (rs s) && ps_runnable (ps s) && negb (past_end s));
      reflexivity.
  - rewrite running_rs. destruct (rs_running (rs s)); reflexivity.
  - rewrite do_start_res, Hsc.
    destruct (negb (rs_running (rs s)) && rs_initialized (rs s) && ps_runnable (ps s) && negb (past_end s));
      cbn [andb]; [|reflexivity].
    destruct t as [bz|]; [|reflexivity]. destruct (bz <? clock s); reflexivity.
  - rewrite do_start_res, Hsc.
    destruct (negb (rs_running (rs s)) && rs_initialized (rs s) && ps_runnable (ps s) && negb (past_end s));
      cbn [andb]; [|reflexivity].
    destruct t as [bz|]; [|reflexivity]. destruct (bz <? clock s); reflexivity.
  - unfold do_end_repl. destruct (ps s); reflexivity.
  - reflexivity.
Qed.

(* ------------------------------------------------------------------ *)
(** * The pending list: sorted by time, not before the clock, one warm-up event *)

Definition tle (a b : ev) : Prop := ev_time a <= ev_time b.
Definition sorted_t (l : list ev) : Prop := StronglySorted tle l.
Definition is_warm (e : ev) : bool := match ev_h e with HWarm => true | HUser _ => false end.
Definition count_warm (l : list ev) : nat := length (filter is_warm l).

Lemma ev_ltb_time a b : ev_ltb a b = true -> ev_time a <= ev_time b.
Proof.
  unfold ev_ltb, key_ltb, ev_key; cbn [k_time k_nprio k_id].
  destruct (Z.eqb_spec (ev_time a) (ev_time b)); cbn [negb]; [lia|].
  intros H; apply Z.ltb_lt in H; lia.
Qed.

Lemma ev_nltb_time a b : ev_ltb a b = false -> ev_time b <= ev_time a.
Proof.
  unfold ev_ltb, key_ltb, ev_key; cbn [k_time k_nprio k_id].
  destruct (Z.eqb_spec (ev_time a) (ev_time b)); cbn [negb]; [lia|].
  intros H; apply Z.ltb_ge in H; lia.
Qed.

Lemma Forall_ins (P : ev -> Prop) e l : P e -> Forall P l -> Forall P (ins e l).
Proof.
  intros He Hl. induction Hl as [|x r Hx Hr IH]; cbn [ins].
  - constructor; auto.
  - destruct (ev_ltb e x); constructor; auto.
Qed.

Lemma Forall_rem (P : ev -> Prop) e l : Forall P l -> Forall P (rem e l).
Proof.
  intros Hl. induction Hl as [|x r Hx Hr IH]; cbn [rem]; [constructor|].
  destruct (ev_eqb e x); auto.
Qed.

Lemma sorted_ins e l : sorted_t l -> sorted_t (ins e l).
Proof.
  unfold sorted_t. intros Hl. induction Hl as [|x r Hr IH Hx]; cbn [ins].
  - constructor; constructor.
  - destruct (ev_ltb e x) eqn:E.
    + apply ev_ltb_time in E. constructor.
      * constructor; assumption.
      * constructor; [exact E|].
        eapply Forall_impl; [|exact Hx]. unfold tle. intros a Ha. lia.
    + apply ev_nltb_time in E. constructor; [exact IH|].
      apply Forall_ins; [exact E|exact Hx].
Qed.

Lemma sorted_rem e l : sorted_t l -> sorted_t (rem e l).
Proof.
  unfold sorted_t. intros Hl. induction Hl as [|x r Hr IH Hx]; cbn [rem]; [constructor|].
  destruct (ev_eqb e x); [exact Hr|].
  constructor; [exact IH|apply Forall_rem; exact Hx].
Qed.

Lemma count_warm_ins e l :
  count_warm (ins e l) = (count_warm l + if is_warm e then 1 else 0)%nat.
Proof.
  unfold count_warm. induction l as [|x r IH]; cbn [ins filter].
  - destruct (is_warm e); reflexivity.
  - destruct (ev_ltb e x); cbn [filter].
    + destruct (is_warm e), (is_warm x); cbn [length]; lia.
    + destruct (is_warm x); cbn [length]; rewrite IH; lia.
Qed.

Lemma count_warm_rem e l : (count_warm (rem e l) <= count_warm l)%nat.
Proof.
  unfold count_warm. induction l as [|x r IH]; cbn [rem filter]; [lia|].
  destruct (ev_eqb e x); cbn [filter]; destruct (is_warm x); cbn [length]; lia.
Qed.

(* [PI c w n l]: the pending list l is sorted by time, holds no event before
   the clock c, its warm-up events are at the warm-up time w and there are at
   most n of them *)
Record PI (c w : Z) (n : nat) (l : list ev) : Prop := mkPI {
  pi_sorted : sorted_t l;
  pi_ge : Forall (fun e => c <= ev_time e) l;
  pi_wt : Forall (fun e => is_warm e = true -> ev_time e = w) l;
  pi_cnt : (count_warm l <= n)%nat
}.

Lemma PI_nil c w n : PI c w n [].
Proof. constructor; try constructor. unfold count_warm; cbn; lia. Qed.

Lemma PI_ins_user c w n l e :
  PI c w n l -> c <= ev_time e -> is_warm e = false -> PI c w n (ins e l).
Proof.
  intros [H1 H2 H3 H4] Hc Hw. constructor.
  - apply sorted_ins; assumption.
  - apply Forall_ins; assumption.
  - apply Forall_ins; [congruence|assumption].
  - rewrite count_warm_ins, Hw. lia.
Qed.

Lemma PI_ins_warm c w l e :
  PI c w 0 l -> c <= ev_time e -> ev_time e = w -> PI c w 1 (ins e l).
Proof.
  intros [H1 H2 H3 H4] Hc Hw. constructor.
  - apply sorted_ins; assumption.
  - apply Forall_ins; assumption.
  - apply Forall_ins; [intros _; exact Hw|assumption].
  - rewrite count_warm_ins. destruct (is_warm e); lia.
Qed.

Lemma PI_rem c w n l e : PI c w n l -> PI c w n (rem e l).
Proof.
  intros [H1 H2 H3 H4]. constructor.
  - apply sorted_rem; assumption.
  - apply Forall_rem; assumption.
  - apply Forall_rem; assumption.
  - pose proof (count_warm_rem e l). lia.
Qed.

Lemma PI_weaken c w n n' l : PI c w n l -> (n <= n')%nat -> PI c w n' l.
Proof. intros [H1 H2 H3 H4] Hn. constructor; auto. lia. Qed.

(* popping the first event and moving the clock to its time *)
Lemma PI_pop c w n e r :
  PI c w n (e :: r) ->
  c <= ev_time e /\ (is_warm e = true -> ev_time e = w /\ (1 <= n)%nat) /\
  PI (ev_time e) w (n - if is_warm e then 1 else 0) r.
Proof.
  intros [H1 H2 H3 H4].
  inversion H1 as [|? ? Hs Hf]; subst.
  inversion H2 as [|? ? Hc Hr]; subst.
  inversion H3 as [|? ? Hw Hwr]; subst.
  unfold count_warm in H4. cbn [filter] in H4.
  split; [exact Hc|]. split.
  - intros E. rewrite E in H4. cbn [length] in H4. split; [auto|lia].
  - constructor.
    + exact Hs.
    + eapply Forall_impl; [|exact Hf]. unfold tle. auto.
    + exact Hwr.
    + unfold count_warm. destruct (is_warm e); cbn [length] in H4; lia.
Qed.

Lemma PI_clock c c' w n l : PI c w n l -> c' <= c -> PI c' w n l.
Proof.
  intros [H1 H2 H3 H4] Hc. constructor; auto.
  eapply Forall_impl; [|exact H2]. cbn. intros; lia.
Qed.

(* ------------------------------------------------------------------ *)
(** * What a handler body can do to the lifecycle-relevant part of the state *)

Record hstep (s s' : sim) : Prop := mkH {
  hs_clock : clock s' = clock s;
  hs_ps : ps s' = ps s;
  hs_worker : worker s' = worker s;
  hs_rep : rep s' = rep s;
  hs_bound : bound s' = bound s;
  hs_incl : incl s' = incl s;
  hs_strat : strat s' = strat s;
  hs_trace : trace s' = trace s;
  hs_rs : rs s' = rs s \/ (running s = true /\ rs s' = RStopping);
  hs_ntfs : exists k, ntfs s' = repeat NStopping k ++ ntfs s /\ (k <> 0%nat -> running s = true);
  hs_pi : forall w n, PI (clock s) w n (pend s) -> PI (clock s) w n (pend s')
}.

Lemma hstep_refl s : hstep s s.
Proof.
  constructor; auto. exists 0%nat. split; [reflexivity|congruence].
Qed.

Lemma running_stopping s : rs s = RStopping -> running s = false.
Proof. unfold running. intros ->. reflexivity. Qed.

Lemma running_eq s s' : rs s' = rs s -> running s' = running s.
Proof. unfold running. intros ->. reflexivity. Qed.

Lemma hstep_trans a b c : hstep a b -> hstep b c -> hstep a c.
Proof.
  intros [A1 A2 A3 A4 A5 A6 A7 A8 A9 [k1 [A10 A10']] A11] [B1 B2 B3 B4 B5 B6 B7 B8 B9 [k2 [B10 B10']] B11].
  constructor; try congruence.
  - destruct B9 as [B9|[B9 B9']].
    + destruct A9 as [A9|A9]; [left; congruence|right; destruct A9; split; congruence].
    + right. split; [|exact B9'].
      destruct A9 as [A9|[_ A9]]; [rewrite <- (running_eq a b A9); exact B9|].
      rewrite (running_stopping b A9) in B9. discriminate.
  - exists (k2 + k1)%nat. split.
    + rewrite B10, A10, repeat_app, app_assoc. reflexivity.
    + intros Hk. destruct k1 as [|k1].
      * destruct k2 as [|k2]; [lia|].
        assert (R : running b = true) by (apply B10'; lia).
        destruct A9 as [A9|[A9 _]]; [rewrite <- (running_eq a b A9); exact R|exact A9].
      * apply A10'. lia.
  - intros w n H. rewrite <- A1. apply B11. rewrite A1. apply A11. exact H.
Qed.

Lemma sched_time_ge s m t : sched_time s m = Some t -> clock s <= t.
Proof.
  destruct m as [|d|a]; cbn [sched_time].
  - intros E; inversion E; lia.
  - destruct d as [d|]; [|discriminate]. destruct (Z.ltb_spec d 0); [discriminate|].
    intros E; inversion E; lia.
  - destruct a as [a|]; [|discriminate]. destruct (Z.ltb_spec a (clock s)); [discriminate|].
    intros E; inversion E; lia.
Qed.

Lemma do_sched_hstep s m prio h : hstep s (do_sched s m prio h).
Proof.
  unfold do_sched. destruct (sched_time s m) as [t|] eqn:E.
  - apply sched_time_ge in E. unfold add_event. constructor; ssimpl; auto.
    + exists 0%nat. split; [reflexivity|congruence].
    + intros w n H. apply PI_ins_user; auto.
  - constructor; ssimpl; auto. exists 0%nat. split; [reflexivity|congruence].
Qed.

Lemma do_cancel_hstep s k : hstep s (do_cancel s k).
Proof.
  unfold do_cancel. destruct (nth_error (created s) k) as [e|]; [|apply hstep_refl].
  destruct (ev_mem e (pend s)); [|apply hstep_refl].
  constructor; ssimpl; auto.
  - exists 0%nat. split; [reflexivity|congruence].
  - intros w n H. apply PI_rem. exact H.
Qed.

Lemma flag_hstep s : hstep s (raise_flag s).
Proof.
  constructor; ssimpl; auto. exists 0%nat. split; [reflexivity|congruence].
Qed.

Lemma out_hstep o s : hstep s (out o s).
Proof.
  constructor; ssimpl; auto. exists 0%nat. split; [reflexivity|congruence].
Qed.

Lemma inner_cmd_hstep md s c : hstep s (inner_cmd md s c).
Proof.
  unfold inner_cmd. destruct md; try apply flag_hstep;
    (destruct c; try apply flag_hstep;
     try (destruct (running s) eqn:R; [apply out_hstep|apply flag_hstep]);
     destruct (running s) eqn:R; [|apply out_hstep];
     constructor; ssimpl; auto;
     exists 1%nat; split; [reflexivity|auto]).
Qed.

Lemma exec_action_hstep md s a : hstep s (fst (exec_action md s a)).
Proof.
  destruct a; cbn [exec_action fst].
  - apply do_sched_hstep.
  - apply do_cancel_hstep.
  - apply hstep_refl.
  - apply inner_cmd_hstep.
  - constructor; ssimpl; auto. exists 0%nat. split; [reflexivity|congruence].
Qed.

Lemma exec_actions_hstep md acts : forall s, hstep s (fst (exec_actions md s acts)).
Proof.
  induction acts as [|a r IH]; intros s; cbn [exec_actions].
  - apply hstep_refl.
  - pose proof (exec_action_hstep md s a) as H1.
    destruct (exec_action md s a) as [s1 failed]. cbn [fst] in H1.
    destruct failed; [exact H1|].
    eapply hstep_trans; [exact H1|apply IH].
Qed.

(* inside construct_model nothing is notified and the run state stays *)
Lemma exec_actions_construct acts : forall s,
  let s' := fst (exec_actions InConstruct s acts) in
  rs s' = rs s /\ ntfs s' = ntfs s.
Proof.
  induction acts as [|a r IH]; intros s; cbn [exec_actions]; [split; reflexivity|].
  assert (H1 : rs (fst (exec_action InConstruct s a)) = rs s /\
               ntfs (fst (exec_action InConstruct s a)) = ntfs s).
  { destruct a; cbn [exec_action fst inner_cmd]; ssimpl; auto.
    - unfold do_sched. destruct (sched_time s m); unfold add_event; ssimpl; auto.
    - unfold do_cancel. destruct (nth_error (created s) k); auto.
      destruct (ev_mem e (pend s)); ssimpl; auto. }
  destruct (exec_action InConstruct s a) as [s1 failed]. cbn [fst] in H1.
  destruct failed; [exact H1|].
  destruct (IH s1) as [I1 I2]. destruct H1 as [H1 H2]. split; congruence.
Qed.

(* ------------------------------------------------------------------ *)
(** * The monitor: small facts *)

Lemma mon_feed_app m l1 l2 :
  mon_feed m (l1 ++ l2) =
  match mon_feed m l1 with Some m1 => mon_feed m1 l2 | None => None end.
Proof.
  revert m. induction l1 as [|n r IH]; intros m; cbn [mon_feed app]; [reflexivity|].
  destruct (mon_step m n); [apply IH|reflexivity].
Qed.

Lemma new_ntfs_app s s' l : ntfs s' = rev l ++ ntfs s -> new_ntfs s s' = l.
Proof.
  intros H. unfold new_ntfs. rewrite H, app_length, Nat.add_sub.
  rewrite firstn_app, Nat.sub_diag, firstn_all. cbn [firstn]. rewrite app_nil_r.
  apply rev_involutive.
Qed.

Lemma rev_repeat {A} (x : A) k : rev (repeat x k) = repeat x k.
Proof.
  induction k as [|k IH]; [reflexivity|].
  cbn [repeat rev]. rewrite IH. clear IH.
  induction k as [|k IH]; [reflexivity|]. cbn [repeat app]. rewrite IH. reflexivity.
Qed.

Lemma le_last_trans l a b : le_last l a = true -> a <= b -> le_last l b = true.
Proof.
  destruct l as [x|]; cbn [le_last]; [|reflexivity].
  intros H Hab. apply Z.leb_le in H. apply Z.leb_le. lia.
Qed.

Lemma le_last_some a b : a <= b -> le_last (Some a) b = true.
Proof. intros H. cbn [le_last]. apply Z.leb_le. exact H. Qed.

(* ------------------------------------------------------------------ *)
(** * The invariant while a run (or a step) is between START and STOP *)

Definition warm_left (m : mon) : nat := if m_warm m then 0%nat else 1%nat.

Record RI (nb : bool) (s : sim) (m : mon) : Prop := mkRI {
  ri_live : m_live m = true;
  ri_sr : m_sr m = true;
  ri_run : m_run m = true;
  ri_st : m_starting m = false;
  ri_er : m_er m = false;
  ri_ps : ps s = PStarted \/ ps s = PEnding;
  ri_w : worker s = WAlive;
  ri_rep : exists r, rep s = Some r /\ m_w m = r_warm r;
  ri_last : le_last (m_last m) (clock s) = true;
  ri_pi : PI (clock s) (m_w m) (warm_left m) (pend s);
  ri_bound : nb = true -> running s = true -> clock s <= bound s
}.

Lemma mon_feed_stopping m k :
  m_live m = true -> m_sr m = true -> m_run m = true -> m_starting m = false -> m_er m = false ->
  mon_feed m (repeat NStopping k) = Some m.
Proof.
  intros H1 H2 H3 H4 H5. induction k as [|k IH]; [reflexivity|].
  cbn [repeat mon_feed]. unfold mon_step. rewrite H1, H2, H3, H4, H5. cbn. exact IH.
Qed.

Lemma RI_hstep nb s s' m :
  RI nb s m -> hstep s s' ->
  exists l, ntfs s' = rev l ++ ntfs s /\ mon_feed m l = Some m /\ RI nb s' m.
Proof.
  intros [R1 R2 R3 R4 R5 R6 R7 R8 R9 R10 R11] [H1 H2 H3 H4 H5 H6 H7 H8 H9 [k [H10 H10']] H11].
  exists (repeat NStopping k). split; [rewrite rev_repeat; exact H10|].
  split; [apply mon_feed_stopping; assumption|].
  constructor.
  - exact R1.
  - exact R2.
  - exact R3.
  - exact R4.
  - exact R5.
  - rewrite H2. exact R6.
  - rewrite H3. exact R7.
  - rewrite H4. exact R8.
  - rewrite H1. exact R9.
  - rewrite H1. apply H11. exact R10.
  - intros Hnb Hr. rewrite H1, H5. apply R11; [exact Hnb|].
    destruct H9 as [H9|[H9 H9']]; [rewrite <- (running_eq s s' H9); exact Hr|exact H9].
Qed.

(* executing one event whose time the clock has been set to *)
Lemma exec_event_RI nb md p s e m :
  md <> InConstruct ->
  RI nb s m ->
  (is_warm e = true -> clock s = m_w m /\ m_warm m = false) ->
  (is_warm e = false -> PI (clock s) (m_w m) (warm_left m) (pend s)) ->
  (is_warm e = true -> PI (clock s) (m_w m) 0 (pend s)) ->
  exists l m', ntfs (fst (exec_event md p s e)) = rev l ++ ntfs s /\ mon_feed m l = Some m' /\
               RI nb (fst (exec_event md p s e)) m' /\
               trace (fst (exec_event md p s e)) = (e, clock s) :: trace s /\
               (forall n, In n l -> n = NStopping \/ n = NWarmup (clock s)).
Proof.
  intros Hmd R Hw Hu Hw0. unfold exec_event. unfold is_warm in *.
  destruct (ev_h e) as [|h] eqn:Eh.
  - (* the warm-up event *)
    destruct (Hw eq_refl) as [Hc Hm]. specialize (Hw0 eq_refl).
    destruct R as [R1 R2 R3 R4 R5 R6 R7 R8 R9 R10 R11].
    cbn [fst]. ssimpl.
    exists [NWarmup (clock s)].
    exists (mkMon true (m_w m) true true false true false (Some (clock s))).
    split; [reflexivity|]. split.
    + cbn [mon_feed]. unfold mon_step. rewrite R1, R2, R3, R4, R5, Hm, R9. cbn.
      rewrite Hc, Z.eqb_refl. reflexivity.
    + split; [|split; [reflexivity|intros n [<-|[]]; right; reflexivity]].
      constructor; ssimpl; auto.
      apply Z.leb_le. lia.
  - (* a user event *)
    set (s1 := set_trace ((e, clock s) :: trace s) s).
    assert (R1 : RI nb s1 m).
    { destruct R as [R1 R2 R3 R4 R5 R6 R7 R8 R9 R10 R11]. constructor; subst s1; ssimpl; auto. }
    pose proof (exec_actions_hstep md (body p h) s1) as Hh.
    destruct (RI_hstep nb s1 _ m R1 Hh) as [l [L1 [L2 L3]]].
    exists l, m. split; [exact L1|]. split; [exact L2|]. split; [exact L3|]. split.
    + rewrite (hs_trace _ _ Hh). reflexivity.
    + intros n Hn. left.
      destruct Hh as [_ _ _ _ _ _ _ _ _ [k [Hk _]] _].
      assert (E : rev l = repeat NStopping k).
      { subst s1. ssimpl. rewrite Hk in L1. apply app_inv_tail in L1. symmetry. exact L1. }
      apply in_rev in Hn. rewrite E in Hn. apply repeat_spec in Hn. exact Hn.
Qed.
