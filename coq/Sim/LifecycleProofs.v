(* C04, model M1: theorems about the lifecycle protocol, for every program,
   every fuel and every command list (induction; no bound on lengths).

   Everything is stated over Sim/Model.v's own [do_cmd] / [run_cmds]; the
   definitions of the table, the monitor and the state invariants are in
   Sim/Lifecycle.v. *)
From Coq Require Import ZArith List Bool Lia Sorting.Sorted.
From PV Require Import EventList.Key Sim.Model Sim.Lifecycle.
Import ListNotations.
Local Open Scope Z_scope.

Ltac ssimpl :=
  cbn [clock pend nid rs ps bound incl strat worker rep created cancelled trace outs ntfs obs flag
       set_clock set_pend set_nid set_rs set_ps set_bound set_incl set_strat set_worker set_rep
       set_created set_cancelled set_trace set_outs set_ntfs set_obs set_flag
       emit out raise_flag fst snd] in *.

(* ------------------------------------------------------------------ *)
(** * A refused command changes nothing (any state, not only reachable ones) *)

Lemma do_start_refused fuel p s b i s' : do_start fuel p s b i = (s', ResRefused) -> s' = s.
Proof.
  unfold do_start.
  destruct (start_checks s); [|intros H; inversion H; reflexivity].
  destruct b as [bz|]; [|intros H; inversion H; reflexivity].
  destruct (bz <? clock s); [intros H; inversion H; reflexivity|].
  destruct (bz >? end_time s); intros H; inversion H.
Qed.

Lemma do_step_refused p s s' : do_step p s = (s', ResRefused) -> s' = s.
Proof.
  unfold do_step. destruct (step_checks s); intros H; inversion H; reflexivity.
Qed.

Lemma do_init_refused p s r s' : do_init p s r = (s', ResRefused) -> s' = s.
Proof.
  unfold do_init. destruct (running s); [intros H; inversion H; reflexivity|].
  destruct (exec_actions _ _ _) as [s3 failed]. intros H; inversion H.
Qed.

Lemma do_end_repl_refused fuel p s s' : do_end_repl fuel p s = (s', ResRefused) -> s' = s.
Proof.
  unfold do_end_repl. destruct (ps s); intros H; inversion H; reflexivity.
Qed.

Theorem refused_changes_nothing fuel p s c s' :
  do_cmd fuel p s c = (s', ResRefused) -> s' = s.
Proof.
  destruct c; cbn [do_cmd].
  - apply do_init_refused.
  - intros H; inversion H; reflexivity.
  - destruct (rep s); [apply do_start_refused|intros H; inversion H; reflexivity].
  - apply do_step_refused.
  - destruct (running s); intros H; inversion H; reflexivity.
  - apply do_start_refused.
  - apply do_start_refused.
  - apply do_end_repl_refused.
  - intros H; inversion H.
Qed.

Corollary refused_notifies_nobody fuel p s c s' :
  do_cmd fuel p s c = (s', ResRefused) -> new_ntfs s s' = [].
Proof.
  intros H. apply refused_changes_nothing in H. subst s'.
  unfold new_ntfs. rewrite Nat.sub_diag. reflexivity.
Qed.

(* ------------------------------------------------------------------ *)
(** * The accept / refuse decision equals the documented table *)

Lemma running_rs s : running s = rs_running (rs s).
Proof. unfold running, rs_running. destruct (rs s); reflexivity. Qed.

Lemma do_start_res fuel p s b i :
  snd (do_start fuel p s b i) =
  if start_checks s then
    match b with TNaN => ResRefused | TNum bz => if bz <? clock s then ResRefused else ResOk end
  else ResRefused.
Proof.
  unfold do_start. destruct (start_checks s); [|reflexivity].
  destruct b as [bz|]; [|reflexivity].
  destruct (bz <? clock s); [reflexivity|].
  destruct (bz >? end_time s); reflexivity.
Qed.

Lemma start_checks_table s :
  (rs_initialized (rs s) = true -> rep s <> None) ->
  start_checks s =
  negb (rs_running (rs s)) && rs_initialized (rs s) && ps_runnable (ps s) && negb (past_end s).
Proof.
  intros Hrep. unfold start_checks, past_end. rewrite running_rs.
  replace (clock s <? end_time s) with (negb (end_time s <=? clock s))
    by (destruct (Z.leb_spec (end_time s) (clock s)), (Z.ltb_spec (clock s) (end_time s)); cbn; lia || reflexivity).
  destruct (rep s) eqn:Er.
  - destruct (rs s), (ps s); reflexivity.
  - destruct (rs s) eqn:Ers; cbn in *; try (exfalso; apply Hrep; reflexivity);
      destruct (ps s); reflexivity.
Qed.

Lemma step_checks_table s :
  step_checks s =
  negb (rs_running (rs s)) && rs_initialized (rs s) && ps_runnable (ps s) && negb (past_end s).
Proof.
  unfold step_checks, past_end. rewrite running_rs.
  replace (clock s <? end_time s) with (negb (end_time s <=? clock s))
    by (destruct (Z.leb_spec (end_time s) (clock s)), (Z.ltb_spec (clock s) (end_time s)); cbn; lia || reflexivity).
  destruct (rs s), (ps s); reflexivity.
Qed.

Theorem accept_refuse_table_inv fuel p s c :
  (rs_initialized (rs s) = true -> rep s <> None) ->
  snd (do_cmd fuel p s c) = table_of s c.
Proof.
  intros Hrep. pose proof (start_checks_table s Hrep) as Hsc.
  unfold table_of. destruct c; cbn [do_cmd table bound_ok].
  - unfold do_init. rewrite running_rs. destruct (rs_running (rs s)); [reflexivity|].
    destruct (exec_actions _ _ _); reflexivity.
  - reflexivity.
  - destruct (rep s) as [r|] eqn:Er.
    + rewrite do_start_res, Hsc.
      destruct (negb (rs_running (rs s)) && rs_initialized (rs s) && ps_runnable (ps s)) eqn:E1;
        cbn [andb]; [|reflexivity].
      unfold past_end, end_time. rewrite Er.
      destruct (Z.leb_spec (r_end r) (clock s)); cbn [negb andb]; [reflexivity|].
      destruct (Z.ltb_spec (r_end r) (clock s)); [lia|reflexivity].
    + cbn [snd]. destruct (rs s) eqn:Ers; cbn in *;
        try (exfalso; apply Hrep; reflexivity); reflexivity.
  - unfold do_step. rewrite step_checks_table.
    destruct (negb (rs_running (rs s)) && rs_initialized (rs s) && ps_runnable (ps s) && negb (past_end s));
      reflexivity.
  - rewrite running_rs. destruct (rs_running (rs s)); reflexivity.
  - rewrite do_start_res, Hsc.
    destruct (negb (rs_running (rs s)) && rs_initialized (rs s) && ps_runnable (ps s) && negb (past_end s));
      cbn [andb]; [|reflexivity].
    destruct t as [bz|]; [|reflexivity]. destruct (bz <? clock s); reflexivity.
  - rewrite do_start_res, Hsc.
    destruct (negb (rs_running (rs s)) && rs_initialized (rs s) && ps_runnable (ps s) && negb (past_end s));
      cbn [andb]; [|reflexivity].
    destruct t as [bz|]; [|reflexivity]. destruct (bz <? clock s); reflexivity.
  - unfold do_end_repl. destruct (ps s); reflexivity.
  - reflexivity.
Qed.

(* ------------------------------------------------------------------ *)
(** * The pending list: sorted by time, not before the clock, one warm-up event *)

Definition tle (a b : ev) : Prop := ev_time a <= ev_time b.
Definition sorted_t (l : list ev) : Prop := StronglySorted tle l.
Definition is_warm (e : ev) : bool := match ev_h e with HWarm => true | HUser _ => false end.
Definition count_warm (l : list ev) : nat := length (filter is_warm l).

Lemma ev_ltb_time a b : ev_ltb a b = true -> ev_time a <= ev_time b.
Proof.
  unfold ev_ltb, key_ltb, ev_key; cbn [k_time k_nprio k_id].
  destruct (Z.eqb_spec (ev_time a) (ev_time b)); cbn [negb]; [lia|].
  intros H; apply Z.ltb_lt in H; lia.
Qed.

Lemma ev_nltb_time a b : ev_ltb a b = false -> ev_time b <= ev_time a.
Proof.
  unfold ev_ltb, key_ltb, ev_key; cbn [k_time k_nprio k_id].
  destruct (Z.eqb_spec (ev_time a) (ev_time b)); cbn [negb]; [lia|].
  intros H; apply Z.ltb_ge in H; lia.
Qed.

Lemma Forall_ins (P : ev -> Prop) e l : P e -> Forall P l -> Forall P (ins e l).
Proof.
  intros He Hl. induction Hl as [|x r Hx Hr IH]; cbn [ins].
  - constructor; auto.
  - destruct (ev_ltb e x); constructor; auto.
Qed.

Lemma Forall_rem (P : ev -> Prop) e l : Forall P l -> Forall P (rem e l).
Proof.
  intros Hl. induction Hl as [|x r Hx Hr IH]; cbn [rem]; [constructor|].
  destruct (ev_eqb e x); auto.
Qed.

Lemma sorted_ins e l : sorted_t l -> sorted_t (ins e l).
Proof.
  unfold sorted_t. intros Hl. induction Hl as [|x r Hr IH Hx]; cbn [ins].
  - constructor; constructor.
  - destruct (ev_ltb e x) eqn:E.
    + apply ev_ltb_time in E. constructor.
      * constructor; assumption.
      * constructor; [exact E|].
        eapply Forall_impl; [|exact Hx]. unfold tle. intros a Ha. lia.
    + apply ev_nltb_time in E. constructor; [exact IH|].
      apply Forall_ins; [exact E|exact Hx].
Qed.

Lemma sorted_rem e l : sorted_t l -> sorted_t (rem e l).
Proof.
  unfold sorted_t. intros Hl. induction Hl as [|x r Hr IH Hx]; cbn [rem]; [constructor|].
  destruct (ev_eqb e x); [exact Hr|].
  constructor; [exact IH|apply Forall_rem; exact Hx].
Qed.

Lemma count_warm_ins e l :
  count_warm (ins e l) = (count_warm l + if is_warm e then 1 else 0)%nat.
Proof.
  unfold count_warm. induction l as [|x r IH]; cbn [ins filter].
  - destruct (is_warm e); reflexivity.
  - destruct (ev_ltb e x); cbn [filter].
    + destruct (is_warm e), (is_warm x); cbn [length]; lia.
    + destruct (is_warm x); cbn [length]; rewrite IH; lia.
Qed.

Lemma count_warm_rem e l : (count_warm (rem e l) <= count_warm l)%nat.
Proof.
  unfold count_warm. induction l as [|x r IH]; cbn [rem filter]; [lia|].
  destruct (ev_eqb e x); cbn [filter]; destruct (is_warm x); cbn [length]; lia.
Qed.

(* [PI c w n l]: the pending list l is sorted by time, holds no event before
   the clock c, its warm-up events are at the warm-up time w and there are at
   most n of them *)
Record PI (c w : Z) (n : nat) (l : list ev) : Prop := mkPI {
  pi_sorted : sorted_t l;
  pi_ge : Forall (fun e => c <= ev_time e) l;
  pi_wt : Forall (fun e => is_warm e = true -> ev_time e = w) l;
  pi_cnt : (count_warm l <= n)%nat
}.

Lemma PI_nil c w n : PI c w n [].
Proof. constructor; try constructor. unfold count_warm; cbn; lia. Qed.

Lemma PI_ins_user c w n l e :
  PI c w n l -> c <= ev_time e -> is_warm e = false -> PI c w n (ins e l).
Proof.
  intros [H1 H2 H3 H4] Hc Hw. constructor.
  - apply sorted_ins; assumption.
  - apply Forall_ins; assumption.
  - apply Forall_ins; [congruence|assumption].
  - rewrite count_warm_ins, Hw. lia.
Qed.

Lemma PI_ins_warm c w l e :
  PI c w 0 l -> c <= ev_time e -> ev_time e = w -> PI c w 1 (ins e l).
Proof.
  intros [H1 H2 H3 H4] Hc Hw. constructor.
  - apply sorted_ins; assumption.
  - apply Forall_ins; assumption.
  - apply Forall_ins; [intros _; exact Hw|assumption].
  - rewrite count_warm_ins. destruct (is_warm e); lia.
Qed.

Lemma PI_rem c w n l e : PI c w n l -> PI c w n (rem e l).
Proof.
  intros [H1 H2 H3 H4]. constructor.
  - apply sorted_rem; assumption.
  - apply Forall_rem; assumption.
  - apply Forall_rem; assumption.
  - pose proof (count_warm_rem e l). lia.
Qed.

Lemma PI_weaken c w n n' l : PI c w n l -> (n <= n')%nat -> PI c w n' l.
Proof. intros [H1 H2 H3 H4] Hn. constructor; auto. lia. Qed.

(* popping the first event and moving the clock to its time *)
Lemma PI_pop c w n e r :
  PI c w n (e :: r) ->
  c <= ev_time e /\ (is_warm e = true -> ev_time e = w /\ (1 <= n)%nat) /\
  PI (ev_time e) w (n - if is_warm e then 1 else 0) r.
Proof.
  intros [H1 H2 H3 H4].
  inversion H1 as [|? ? Hs Hf]; subst.
  inversion H2 as [|? ? Hc Hr]; subst.
  inversion H3 as [|? ? Hw Hwr]; subst.
  unfold count_warm in H4. cbn [filter] in H4.
  split; [exact Hc|]. split.
  - intros E. rewrite E in H4. cbn [length] in H4. split; [auto|lia].
  - constructor.
    + exact Hs.
    + eapply Forall_impl; [|exact Hf]. unfold tle. auto.
    + exact Hwr.
    + unfold count_warm. destruct (is_warm e); cbn [length] in H4; lia.
Qed.

Lemma PI_clock c c' w n l : PI c w n l -> c' <= c -> PI c' w n l.
Proof.
  intros [H1 H2 H3 H4] Hc. constructor; auto.
  eapply Forall_impl; [|exact H2]. cbn. intros; lia.
Qed.

(* ------------------------------------------------------------------ *)
(** * What a handler body can do to the lifecycle-relevant part of the state *)

Record hstep (s s' : sim) : Prop := mkH {
  hs_clock : clock s' = clock s;
  hs_ps : ps s' = ps s;
  hs_worker : worker s' = worker s;
  hs_rep : rep s' = rep s;
  hs_bound : bound s' = bound s;
  hs_incl : incl s' = incl s;
  hs_strat : strat s' = strat s;
  hs_trace : trace s' = trace s;
  hs_rs : rs s' = rs s \/ (running s = true /\ rs s' = RStopping);
  hs_ntfs : exists k, ntfs s' = repeat NStopping k ++ ntfs s /\ (k <> 0%nat -> running s = true);
  hs_pi : forall w n, PI (clock s) w n (pend s) -> PI (clock s) w n (pend s')
}.

Lemma hstep_refl s : hstep s s.
Proof.
  constructor; auto. exists 0%nat. split; [reflexivity|congruence].
Qed.

Lemma running_stopping s : rs s = RStopping -> running s = false.
Proof. unfold running. intros ->. reflexivity. Qed.

Lemma running_eq s s' : rs s' = rs s -> running s' = running s.
Proof. unfold running. intros ->. reflexivity. Qed.

Lemma hstep_trans a b c : hstep a b -> hstep b c -> hstep a c.
Proof.
  intros [A1 A2 A3 A4 A5 A6 A7 A8 A9 [k1 [A10 A10']] A11] [B1 B2 B3 B4 B5 B6 B7 B8 B9 [k2 [B10 B10']] B11].
  constructor; try congruence.
  - destruct B9 as [B9|[B9 B9']].
    + destruct A9 as [A9|A9]; [left; congruence|right; destruct A9; split; congruence].
    + right. split; [|exact B9'].
      destruct A9 as [A9|[_ A9]]; [rewrite <- (running_eq a b A9); exact B9|].
      rewrite (running_stopping b A9) in B9. discriminate.
  - exists (k2 + k1)%nat. split.
    + rewrite B10, A10, repeat_app, app_assoc. reflexivity.
    + intros Hk. destruct k1 as [|k1].
      * destruct k2 as [|k2]; [lia|].
        assert (R : running b = true) by (apply B10'; lia).
        destruct A9 as [A9|[A9 _]]; [rewrite <- (running_eq a b A9); exact R|exact A9].
      * apply A10'. lia.
  - intros w n H. rewrite <- A1. apply B11. rewrite A1. apply A11. exact H.
Qed.

Lemma sched_time_ge s m t : sched_time s m = Some t -> clock s <= t.
Proof.
  destruct m as [|d|a]; cbn [sched_time].
  - intros E; inversion E; lia.
  - destruct d as [d|]; [|discriminate]. destruct (Z.ltb_spec d 0); [discriminate|].
    intros E; inversion E; lia.
  - destruct a as [a|]; [|discriminate]. destruct (Z.ltb_spec a (clock s)); [discriminate|].
    intros E; inversion E; lia.
Qed.

Lemma do_sched_hstep s m prio h : hstep s (do_sched s m prio h).
Proof.
  unfold do_sched. destruct (sched_time s m) as [t|] eqn:E.
  - apply sched_time_ge in E. unfold add_event. constructor; ssimpl; auto.
    + exists 0%nat. split; [reflexivity|congruence].
    + intros w n H. apply PI_ins_user; auto.
  - constructor; ssimpl; auto. exists 0%nat. split; [reflexivity|congruence].
Qed.

Lemma do_cancel_hstep s k : hstep s (do_cancel s k).
Proof.
  unfold do_cancel. destruct (nth_error (created s) k) as [e|]; [|apply hstep_refl].
  destruct (ev_mem e (pend s)); [|apply hstep_refl].
  constructor; ssimpl; auto.
  - exists 0%nat. split; [reflexivity|congruence].
  - intros w n H. apply PI_rem. exact H.
Qed.

Lemma flag_hstep s : hstep s (raise_flag s).
Proof.
  constructor; ssimpl; auto. exists 0%nat. split; [reflexivity|congruence].
Qed.

Lemma out_hstep o s : hstep s (out o s).
Proof.
  constructor; ssimpl; auto. exists 0%nat. split; [reflexivity|congruence].
Qed.

Lemma inner_cmd_hstep md s c : hstep s (inner_cmd md s c).
Proof.
  unfold inner_cmd. destruct md; try apply flag_hstep;
    (destruct c; try apply flag_hstep;
     try (destruct (running s) eqn:R; [apply out_hstep|apply flag_hstep]);
     destruct (running s) eqn:R; [|apply out_hstep];
     constructor; ssimpl; auto;
     exists 1%nat; split; [reflexivity|auto]).
Qed.

Lemma exec_action_hstep md s a : hstep s (fst (exec_action md s a)).
Proof.
  destruct a; cbn [exec_action fst].
  - apply do_sched_hstep.
  - apply do_cancel_hstep.
  - apply hstep_refl.
  - apply inner_cmd_hstep.
  - constructor; ssimpl; auto. exists 0%nat. split; [reflexivity|congruence].
Qed.

Lemma exec_actions_hstep md acts : forall s, hstep s (fst (exec_actions md s acts)).
Proof.
  induction acts as [|a r IH]; intros s; cbn [exec_actions].
  - apply hstep_refl.
  - pose proof (exec_action_hstep md s a) as H1.
    destruct (exec_action md s a) as [s1 failed]. cbn [fst] in H1.
    destruct failed; [exact H1|].
    eapply hstep_trans; [exact H1|apply IH].
Qed.

(* inside construct_model nothing is notified and the run state stays *)
Lemma exec_actions_construct acts : forall s,
  let s' := fst (exec_actions InConstruct s acts) in
  rs s' = rs s /\ ntfs s' = ntfs s.
Proof.
  induction acts as [|a r IH]; intros s; cbn [exec_actions]; [split; reflexivity|].
  assert (H1 : rs (fst (exec_action InConstruct s a)) = rs s /\
               ntfs (fst (exec_action InConstruct s a)) = ntfs s).
  { destruct a; cbn [exec_action fst inner_cmd]; ssimpl; auto.
    - unfold do_sched. destruct (sched_time s m); unfold add_event; ssimpl; auto.
    - unfold do_cancel. destruct (nth_error (created s) k); auto.
      destruct (ev_mem e (pend s)); ssimpl; auto. }
  destruct (exec_action InConstruct s a) as [s1 failed]. cbn [fst] in H1.
  destruct failed; [exact H1|].
  destruct (IH s1) as [I1 I2]. destruct H1 as [H1 H2]. split; congruence.
Qed.

(* ------------------------------------------------------------------ *)
(** * The monitor: small facts *)

Lemma mon_feed_app m l1 l2 :
  mon_feed m (l1 ++ l2) =
  match mon_feed m l1 with Some m1 => mon_feed m1 l2 | None => None end.
Proof.
  revert m. induction l1 as [|n r IH]; intros m; cbn [mon_feed app]; [reflexivity|].
  destruct (mon_step m n); [apply IH|reflexivity].
Qed.

Lemma new_ntfs_app s s' l : ntfs s' = rev l ++ ntfs s -> new_ntfs s s' = l.
Proof.
  intros H. unfold new_ntfs. rewrite H, app_length, Nat.add_sub.
  rewrite firstn_app, Nat.sub_diag, firstn_all. cbn [firstn]. rewrite app_nil_r.
  apply rev_involutive.
Qed.

Lemma rev_repeat {A} (x : A) k : rev (repeat x k) = repeat x k.
Proof.
  induction k as [|k IH]; [reflexivity|].
  cbn [repeat rev]. rewrite IH. clear IH.
  induction k as [|k IH]; [reflexivity|]. cbn [repeat app]. rewrite IH. reflexivity.
Qed.

Lemma le_last_trans l a b : le_last l a = true -> a <= b -> le_last l b = true.
Proof.
  destruct l as [x|]; cbn [le_last]; [|reflexivity].
  intros H Hab. apply Z.leb_le in H. apply Z.leb_le. lia.
Qed.

Lemma le_last_some a b : a <= b -> le_last (Some a) b = true.
Proof. intros H. cbn [le_last]. apply Z.leb_le. exact H. Qed.

(* ------------------------------------------------------------------ *)
(** * The invariant while a run (or a step) is between START and STOP *)

Definition warm_left (m : mon) : nat := if m_warm m then 0%nat else 1%nat.

Record RI (nb : bool) (s : sim) (m : mon) : Prop := mkRI {
  ri_live : m_live m = true;
  ri_sr : m_sr m = true;
  ri_run : m_run m = true;
  ri_st : m_starting m = false;
  ri_er : m_er m = false;
  ri_ps : ps s = PStarted \/ ps s = PEnding;
  ri_w : worker s = WAlive;
  ri_rep : exists r, rep s = Some r /\ m_w m = r_warm r;
  ri_last : le_last (m_last m) (clock s) = true;
  ri_pi : PI (clock s) (m_w m) (warm_left m) (pend s);
  ri_bound : nb = true -> running s = true -> clock s <= bound s
}.

Lemma mon_feed_stopping m k :
  m_live m = true -> m_sr m = true -> m_run m = true -> m_starting m = false -> m_er m = false ->
  mon_feed m (repeat NStopping k) = Some m.
Proof.
  intros H1 H2 H3 H4 H5. induction k as [|k IH]; [reflexivity|].
  cbn [repeat mon_feed]. unfold mon_step. rewrite H1, H2, H3, H4, H5. cbn. exact IH.
Qed.

Lemma RI_hstep nb s s' m :
  RI nb s m -> hstep s s' ->
  exists l, ntfs s' = rev l ++ ntfs s /\ mon_feed m l = Some m /\ RI nb s' m.
Proof.
  intros [R1 R2 R3 R4 R5 R6 R7 R8 R9 R10 R11] [H1 H2 H3 H4 H5 H6 H7 H8 H9 [k [H10 H10']] H11].
  exists (repeat NStopping k). split; [rewrite rev_repeat; exact H10|].
  split; [apply mon_feed_stopping; assumption|].
  constructor.
  - exact R1.
  - exact R2.
  - exact R3.
  - exact R4.
  - exact R5.
  - rewrite H2. exact R6.
  - rewrite H3. exact R7.
  - rewrite H4. exact R8.
  - rewrite H1. exact R9.
  - rewrite H1. apply H11. exact R10.
  - intros Hnb Hr. rewrite H1, H5. apply R11; [exact Hnb|].
    destruct H9 as [H9|[H9 H9']]; [rewrite <- (running_eq s s' H9); exact Hr|exact H9].
Qed.

(* executing one event whose time the clock has been set to *)
Lemma exec_event_RI nb md p s e m :
  md <> InConstruct ->
  RI nb s m ->
  (is_warm e = true -> clock s = m_w m /\ m_warm m = false) ->
  (is_warm e = true -> PI (clock s) (m_w m) 0 (pend s)) ->
  exists l m', ntfs (fst (exec_event md p s e)) = rev l ++ ntfs s /\ mon_feed m l = Some m' /\
               RI nb (fst (exec_event md p s e)) m' /\
               trace (fst (exec_event md p s e)) = (e, clock s) :: trace s /\
               ps (fst (exec_event md p s e)) = ps s /\
               (forall n, In n l -> n = NStopping \/ n = NWarmup (clock s)).
Proof.
  intros Hmd R Hw Hw0. unfold exec_event. unfold is_warm in *.
  destruct (ev_h e) as [|h] eqn:Eh.
  - (* the warm-up event *)
    destruct (Hw eq_refl) as [Hc Hm]. specialize (Hw0 eq_refl).
    destruct R as [R1 R2 R3 R4 R5 R6 R7 R8 R9 R10 R11].
    cbn [fst]. ssimpl.
    exists [NWarmup (clock s)].
    exists (mkMon true (m_w m) true true false true false (Some (clock s))).
    split; [reflexivity|]. split.
    + cbn [mon_feed]. unfold mon_step. rewrite R1, R2, R3, R4, R5, Hm, R9. cbn.
      rewrite Hc, Z.eqb_refl. reflexivity.
    + split; [|split; [reflexivity|split; [reflexivity|intros n [<-|[]]; right; reflexivity]]].
      constructor; ssimpl; auto.
      apply Z.leb_le. lia.
  - (* a user event *)
    set (s1 := set_trace ((e, clock s) :: trace s) s).
    assert (R1 : RI nb s1 m).
    { destruct R as [R1 R2 R3 R4 R5 R6 R7 R8 R9 R10 R11]. constructor; subst s1; ssimpl; auto. }
    pose proof (exec_actions_hstep md (body p h) s1) as Hh.
    destruct (RI_hstep nb s1 _ m R1 Hh) as [l [L1 [L2 L3]]].
    exists l, m. split; [exact L1|]. split; [exact L2|]. split; [exact L3|]. split; [|split].
    + rewrite (hs_trace _ _ Hh). reflexivity.
    + rewrite (hs_ps _ _ Hh). reflexivity.
    + intros n Hn. left.
      destruct Hh as [_ _ _ _ _ _ _ _ _ [k [Hk _]] _].
      assert (E : rev l = repeat NStopping k).
      { subst s1. ssimpl. rewrite Hk in L1. apply app_inv_tail in L1. symmetry. exact L1. }
      apply in_rev in Hn. rewrite E in Hn. apply repeat_spec in Hn. exact Hn.
Qed.

(* ------------------------------------------------------------------ *)
(** * The run loop *)

Lemma set_stopping_RI nb s m : RI nb s m -> RI nb (set_rs RStopping s) m.
Proof.
  intros [R1 R2 R3 R4 R5 R6 R7 R8 R9 R10 R11]. constructor; ssimpl; auto.
  intros _ H. unfold running in H. ssimpl. discriminate.
Qed.

Definition tc_part (s : sim) (e : ev) : list ntf :=
  if ev_time e =? clock s then [] else [NTime (ev_time e)].

(* one pass of the loop body: the notifications are an optional TIME_CHANGED
   carrying the time of the event that is executed next, then what the event
   itself causes (WARMUP at the warm-up event, STOPPING from handlers) *)
Lemma take_event_RI p s e r m :
  RI true s m -> pend s = e :: r -> beyond s e = false ->
  exists l m',
    ntfs (take_event p s e r) = rev l ++ rev (tc_part s e) ++ ntfs s /\
    mon_feed m (tc_part s e ++ l) = Some m' /\
    RI true (take_event p s e r) m' /\
    trace (take_event p s e r) = (e, ev_time e) :: trace s /\
    (forall n, In n l -> n = NStopping \/ n = NWarmup (ev_time e)).
Proof.
  intros R Hp Hb.
  pose proof (ri_pi _ _ _ R) as Hpi. rewrite Hp in Hpi.
  destruct (PI_pop _ _ _ _ _ Hpi) as [Hc [Hwm Hpi']].
  assert (Hbd : ev_time e <= bound s).
  { unfold beyond in Hb. apply orb_false_iff in Hb. destruct Hb as [Hb _].
    destruct (Z.gtb_spec (ev_time e) (bound s)); [discriminate|lia]. }
  (* the state and the monitor after the optional TIME_CHANGED and the clock update *)
  set (s1 := if ev_time e =? clock (set_pend r s) then set_pend r s
             else emit (NTime (ev_time e)) (set_pend r s)).
  set (s2 := set_clock (ev_time e) s1).
  set (m0 := if ev_time e =? clock s then m
             else mkMon true (m_w m) true true false (m_warm m) false (Some (ev_time e))).
  assert (F0 : mon_feed m (tc_part s e) = Some m0).
  { unfold tc_part, m0. destruct (ev_time e =? clock s); [reflexivity|].
    cbn [mon_feed]. unfold mon_step.
    rewrite (ri_live _ _ _ R), (ri_sr _ _ _ R), (ri_run _ _ _ R), (ri_st _ _ _ R), (ri_er _ _ _ R).
    rewrite (le_last_trans _ _ _ (ri_last _ _ _ R) Hc). reflexivity. }
  assert (N2 : ntfs s2 = rev (tc_part s e) ++ ntfs s).
  { unfold s2, s1, tc_part. ssimpl. destruct (ev_time e =? clock s); reflexivity. }
  assert (W0 : warm_left m0 = warm_left m).
  { unfold m0. destruct (ev_time e =? clock s); reflexivity. }
  assert (R2 : RI true s2 m0).
  { destruct R as [R1 R2 R3 R4 R5 R6 R7 R8 R9 R10 R11].
    assert (Hw : m_w m0 = m_w m) by (unfold m0; destruct (ev_time e =? clock s); reflexivity).
    constructor.
    - unfold m0. destruct (ev_time e =? clock s); auto.
    - unfold m0. destruct (ev_time e =? clock s); auto.
    - unfold m0. destruct (ev_time e =? clock s); auto.
    - unfold m0. destruct (ev_time e =? clock s); auto.
    - unfold m0. destruct (ev_time e =? clock s); auto.
    - unfold s2, s1. ssimpl. destruct (ev_time e =? clock s); ssimpl; exact R6.
    - unfold s2, s1. ssimpl. destruct (ev_time e =? clock s); ssimpl; exact R7.
    - unfold s2, s1. ssimpl. rewrite Hw. destruct (ev_time e =? clock s); ssimpl; exact R8.
    - unfold s2. ssimpl. unfold m0. destruct (Z.eqb_spec (ev_time e) (clock s)) as [E|E].
      + rewrite E. exact R9.
      + apply le_last_some. lia.
    - unfold s2. ssimpl. rewrite Hw, W0.
      replace (pend s1) with r by (unfold s1; ssimpl; destruct (ev_time e =? clock s); reflexivity).
      eapply PI_weaken; [exact Hpi'|]. destruct (is_warm e); lia.
    - intros _ _. unfold s2. ssimpl.
      replace (bound s1) with (bound s) by (unfold s1; ssimpl; destruct (ev_time e =? clock s); reflexivity).
      exact Hbd. }
  assert (Hw0 : is_warm e = true -> clock s2 = m_w m0 /\ m_warm m0 = false).
  { intros E. destruct (Hwm E) as [E1 E2]. unfold s2. ssimpl.
    assert (m_w m0 = m_w m /\ m_warm m0 = m_warm m) as [-> ->]
      by (unfold m0; destruct (ev_time e =? clock s); split; reflexivity).
    split; [exact E1|]. unfold warm_left in E2. destruct (m_warm m); [lia|reflexivity]. }
  assert (Hw1 : is_warm e = true -> PI (clock s2) (m_w m0) 0 (pend s2)).
  { intros E. destruct (Hwm E) as [E1 E2]. unfold s2. ssimpl.
    replace (pend s1) with r by (unfold s1; ssimpl; destruct (ev_time e =? clock s); reflexivity).
    replace (m_w m0) with (m_w m) by (unfold m0; destruct (ev_time e =? clock s); reflexivity).
    rewrite E in Hpi'. eapply PI_weaken; [exact Hpi'|]. unfold warm_left. destruct (m_warm m); lia. }
  assert (Hmd : InRun <> InConstruct) by discriminate.
  destruct (exec_event_RI true InRun p s2 e m0 Hmd R2 Hw0 Hw1) as [l [m1 [L1 [L2 [L3 [L4 [_ L5]]]]]]].
  unfold take_event. fold s1. fold s2.
  destruct (exec_event InRun p s2 e) as [s3 failed]. cbn [fst] in *.
  assert (C2 : clock s2 = ev_time e) by reflexivity.
  assert (T2 : trace s2 = trace s).
  { unfold s2, s1. ssimpl. destruct (ev_time e =? clock s); reflexivity. }
  exists l, m1.
  assert (Fin : mon_feed m (tc_part s e ++ l) = Some m1) by (rewrite mon_feed_app, F0; exact L2).
  rewrite C2 in *. rewrite T2 in L4. rewrite N2 in L1.
  destruct failed; [destruct (strat s3)|]; ssimpl;
    (split; [exact L1|split; [exact Fin|split; [|split; [exact L4|exact L5]]]]);
    try exact L3.
  apply set_stopping_RI. exact L3.
Qed.

Lemma stop_at_bound_RI s m :
  RI true s m -> running s = true ->
  (pend s = [] \/ exists e r, pend s = e :: r /\ beyond s e = true) ->
  ntfs (stop_at_bound s) = ntfs s /\ RI true (stop_at_bound s) m.
Proof.
  intros [R1 R2 R3 R4 R5 R6 R7 R8 R9 R10 R11] Hr Hp.
  assert (Hcb : clock s <= bound s) by (apply R11; auto).
  assert (Hpi : PI (bound s) (m_w m) (warm_left m) (pend s)).
  { destruct Hp as [Hp|[e [r [Hp Hb]]]].
    - rewrite Hp. apply PI_nil.
    - rewrite Hp in *. destruct R10 as [P1 P2 P3 P4]. constructor; auto.
      assert (He : bound s <= ev_time e).
      { unfold beyond in Hb. apply orb_true_iff in Hb. destruct Hb as [Hb|Hb].
        - destruct (Z.gtb_spec (ev_time e) (bound s)); [lia|discriminate].
        - apply andb_true_iff in Hb. destruct Hb as [Hb _]. apply Z.eqb_eq in Hb. lia. }
      inversion P1 as [|? ? Hs Hf]; subst. constructor; [exact He|].
      eapply Forall_impl; [|exact Hf]. unfold tle. intros a Ha. lia. }
  unfold stop_at_bound.
  destruct (bound s >=? end_time s); ssimpl; (split; [reflexivity|]);
    constructor; ssimpl; auto;
    try (eapply le_last_trans; eassumption);
    try (intros _ H; unfold running in H; ssimpl; discriminate).
Qed.

Lemma flag_RI nb s m : RI nb s m -> RI nb (raise_flag s) m.
Proof.
  intros [R1 R2 R3 R4 R5 R6 R7 R8 R9 R10 R11]. constructor; ssimpl; auto.
Qed.

Lemma run_loop_RI fuel p : forall s m,
  RI true s m ->
  exists l m', ntfs (run_loop fuel p s) = rev l ++ ntfs s /\ mon_feed m l = Some m' /\
               RI true (run_loop fuel p s) m'.
Proof.
  induction fuel as [|f IH]; intros s m R; cbn [run_loop].
  - exists [], m. destruct (running s); (split; [reflexivity|split; [reflexivity|]]); auto.
    apply flag_RI. exact R.
  - destruct (running s) eqn:Hr; [|exists [], m; auto].
    destruct (pend s) as [|e r] eqn:Hp.
    + destruct (stop_at_bound_RI s m R Hr (or_introl Hp)) as [N R'].
      exists [], m. rewrite N. auto.
    + destruct (beyond s e) eqn:Hb.
      * destruct (stop_at_bound_RI s m R Hr) as [N R'].
        { right. exists e, r. auto. }
        exists [], m. rewrite N. auto.
      * destruct (take_event_RI p s e r m R Hp Hb) as [l1 [m1 [L1 [L2 [L3 _]]]]].
        destruct (IH _ _ L3) as [l2 [m2 [K1 [K2 K3]]]].
        exists ((tc_part s e ++ l1) ++ l2), m2. split; [|split; [|exact K3]].
        -- rewrite K1, L1. rewrite !rev_app_distr, !app_assoc. reflexivity.
        -- rewrite mon_feed_app, L2. exact K2.
Qed.

(* ------------------------------------------------------------------ *)
(** * Invariant of quiescent states and its preservation by every command *)

Record QI (s : sim) (m : mon) : Prop := mkQI {
  qi_q : qinv s = true;
  qi_agree : mon_agrees m (rs s) (ps s) = true;
  qi_quiet : mon_quiet m = true;
  qi_rep : rs_initialized (rs s) = true -> exists r, rep s = Some r /\ m_w m = r_warm r;
  qi_last : le_last (m_last m) (clock s) = true;
  qi_pi : rs_initialized (rs s) = true -> PI (clock s) (m_w m) (warm_left m) (pend s)
}.

Lemma QI_init st : QI (init_sim st) mon_dead.
Proof. constructor; cbn; auto; discriminate. Qed.

(* a stopped run whose replication is STARTED or ENDING: what the run thread
   does before it waits again (or terminates) *)
Record SI (s : sim) (m : mon) : Prop := mkSI {
  si_live : m_live m = true;
  si_sr : m_sr m = true;
  si_run : m_run m = false;
  si_st : m_starting m = false;
  si_er : m_er m = false;
  si_rs : rs s = RStopped;
  si_ps : ps s = PStarted \/ ps s = PEnding;
  si_w : worker s = WAlive;
  si_rep : exists r, rep s = Some r /\ m_w m = r_warm r;
  si_last : le_last (m_last m) (clock s) = true;
  si_pi : PI (clock s) (m_w m) (warm_left m) (pend s)
}.

Lemma worker_ending_QI s m :
  SI s m ->
  exists l m', ntfs (worker_ending s) = rev l ++ ntfs s /\ mon_feed m l = Some m' /\
               QI (worker_ending s) m'.
Proof.
  intros [S1 S2 S3 S4 S5 S6 S7 S8 S9 S10 S11]. unfold worker_ending.
  destruct S7 as [S7|S7]; rewrite S7.
  - exists [], m. split; [reflexivity|]. split; [reflexivity|].
    constructor; auto.
    + unfold qinv. rewrite S6, S7, S8. reflexivity.
    + unfold mon_agrees. rewrite S1, S2, S5, S6, S7. reflexivity.
    + unfold mon_quiet. rewrite S3, S4. reflexivity.
  - exists [NEndRepl (clock s)], (mkMon true (m_w m) true false false (m_warm m) true (Some (clock s))).
    split; [reflexivity|]. split.
    + cbn [mon_feed]. unfold mon_step. rewrite S1, S2, S3, S4, S5, S10. reflexivity.
    + constructor; ssimpl; auto.
      apply Z.leb_le. lia.
Qed.

Lemma RI_stop_SI nb b m :
  RI nb b m ->
  let c := set_rs RStopped (emit (NStop (clock b)) b) in
  let m' := mkMon true (m_w m) true false false (m_warm m) false (Some (clock b)) in
  mon_feed m [NStop (clock b)] = Some m' /\ SI c m'.
Proof.
  intros [R1 R2 R3 R4 R5 R6 R7 R8 R9 R10 R11]. cbn zeta. split.
  - cbn [mon_feed]. unfold mon_step. rewrite R1, R2, R3, R4, R5, R9. reflexivity.
  - constructor; ssimpl; auto. apply Z.leb_le. lia.
Qed.

(* the run thread after a wake-up, from a state that has passed the checks of
   start / run_up_to and has notified STARTING *)
Lemma worker_run_started fuel p s m :
  worker s = WAlive -> ps s = PStarted ->
  RI true (set_rs RStarted (emit (NStart (clock s)) s))
          (mkMon true (m_w m) true true false (m_warm m) false (Some (clock s))) ->
  mon_step m (NStart (clock s)) = Some (mkMon true (m_w m) true true false (m_warm m) false (Some (clock s))) ->
  exists l m', ntfs (worker_run fuel p s) = rev l ++ ntfs s /\ mon_feed m l = Some m' /\
               QI (worker_run fuel p s) m'.
Proof.
  intros Hw Hps R Hm. unfold worker_run. rewrite Hw, Hps.
  set (a := set_rs RStarted (emit (NStart (clock s)) s)) in *.
  set (ma := mkMon true (m_w m) true true false (m_warm m) false (Some (clock s))) in *.
  destruct (run_loop_RI fuel p a ma R) as [l1 [m1 [L1 [L2 L3]]]].
  set (b := run_loop fuel p a) in *.
  destruct (RI_stop_SI true b m1 L3) as [F2 S2].
  set (c := set_rs RStopped (emit (NStop (clock b)) b)) in *.
  destruct (worker_ending_QI c _ S2) as [l3 [m3 [K1 [K2 K3]]]].
  exists ((NStart (clock s) :: l1) ++ NStop (clock b) :: l3), m3.
  split; [|split; [|exact K3]].
  - rewrite K1. unfold c. ssimpl. rewrite L1. unfold a. ssimpl.
    rewrite rev_app_distr. cbn [rev]. rewrite <- !app_assoc. cbn [app]. reflexivity.
  - rewrite mon_feed_app. cbn [mon_feed]. rewrite Hm, L2.
    cbn [mon_feed] in F2. destruct (mon_step m1 (NStop (clock b))) as [mx|]; [|discriminate].
    inversion F2; subst mx. exact K2.
Qed.
