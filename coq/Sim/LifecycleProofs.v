(* C04, model M1: theorems about the lifecycle protocol, for every program,
   every fuel and every command list (induction; no bound on lengths).

   Everything is stated over Sim/Model.v's own [do_cmd] / [run_cmds]; the
   definitions of the table, the monitor and the state invariants are in
   Sim/Lifecycle.v. *)
From Coq Require Import ZArith List Bool Lia Sorting.Sorted.
From PV Require Import EventList.Key Sim.Model Sim.Lifecycle.
Import ListNotations.
Local Open Scope Z_scope.

Ltac ssimpl :=
  cbn [clock pend nid rs ps bound incl strat worker rep created cancelled trace outs ntfs obs flag
       set_clock set_pend set_nid set_rs set_ps set_bound set_incl set_strat set_worker set_rep
       set_created set_cancelled set_trace set_outs set_ntfs set_obs set_flag
       emit out raise_flag fst snd] in *.

(* ------------------------------------------------------------------ *)
(** * A refused command changes nothing (any state, not only reachable ones) *)

Lemma do_start_refused fuel p s b i s' : do_start fuel p s b i = (s', ResRefused) -> s' = s.
Proof.
  unfold do_start.
  destruct (start_checks s); [|intros H; inversion H; reflexivity].
  destruct b as [bz|]; [|intros H; inversion H; reflexivity].
  destruct (bz <? clock s); [intros H; inversion H; reflexivity|].
  destruct (bz >? end_time s); intros H; inversion H.
Qed.

Lemma do_step_refused p s s' : do_step p s = (s', ResRefused) -> s' = s.
Proof.
  unfold do_step. destruct (step_checks s); intros H; inversion H; reflexivity.
Qed.

Lemma do_init_refused p s r s' : do_init p s r = (s', ResRefused) -> s' = s.
Proof.
  unfold do_init. destruct (running s); [intros H; inversion H; reflexivity|].
  destruct (exec_actions _ _ _) as [s3 failed]. destruct failed; intros H; inversion H.
Qed.

Lemma do_end_repl_refused fuel p s s' : do_end_repl fuel p s = (s', ResRefused) -> s' = s.
Proof.
  unfold do_end_repl. destruct (ps s); intros H; inversion H; reflexivity.
Qed.

Theorem refused_changes_nothing fuel p s c s' :
  do_cmd fuel p s c = (s', ResRefused) -> s' = s.
Proof.
  destruct c; cbn [do_cmd].
  - apply do_init_refused.
  - intros H; inversion H; reflexivity.
  - destruct (rep s); [apply do_start_refused|intros H; inversion H; reflexivity].
  - apply do_step_refused.
  - destruct (running s); intros H; inversion H; reflexivity.
  - apply do_start_refused.
  - apply do_start_refused.
  - apply do_end_repl_refused.
  - intros H; inversion H.
Qed.

Corollary refused_notifies_nobody fuel p s c s' :
  do_cmd fuel p s c = (s', ResRefused) -> new_ntfs s s' = [].
Proof.
  intros H. apply refused_changes_nothing in H. subst s'.
  unfold new_ntfs. rewrite Nat.sub_diag. reflexivity.
Qed.

(* ------------------------------------------------------------------ *)
(** * The accept / refuse decision equals the documented table *)

Lemma running_rs s : running s = rs_running (rs s).
Proof. unfold running, rs_running. destruct (rs s); reflexivity. Qed.

Lemma do_start_res fuel p s b i :
  snd (do_start fuel p s b i) =
  if start_checks s then
    match b with TNaN => ResRefused | TNum bz => if bz <? clock s then ResRefused else ResOk end
  else ResRefused.
Proof.
  unfold do_start. destruct (start_checks s); [|reflexivity].
  destruct b as [bz|]; [|reflexivity].
  destruct (bz <? clock s); [reflexivity|].
  destruct (bz >? end_time s); reflexivity.
Qed.

(* comparisons of integers, whichever way the guards are written *)
Ltac zb :=
  repeat match goal with
         | |- context [Z.leb ?a ?b] => destruct (Z.leb_spec a b)
         | |- context [Z.ltb ?a ?b] => destruct (Z.ltb_spec a b)
         | |- context [Z.gtb ?a ?b] => destruct (Z.gtb_spec a b)
         | |- context [Z.geb ?a ?b] => destruct (Z.geb_spec a b)
         end; cbn; try reflexivity; try lia.

Lemma start_checks_raw s :
  start_checks s =
  negb (rs_running (rs s)) && (match rep s with Some _ => true | None => false end)
  && rs_initialized (rs s) && ps_runnable (ps s) && negb (past_end s).
Proof.
  unfold start_checks, past_end. rewrite running_rs.
  destruct (rs s), (ps s), (rep s); cbn; zb.
Qed.

Lemma start_checks_table s :
  (rs_initialized (rs s) = true -> rep s <> None) ->
  start_checks s =
  negb (rs_running (rs s)) && rs_initialized (rs s) && ps_runnable (ps s) && negb (past_end s).
Proof.
  intros Hrep. rewrite start_checks_raw.
  destruct (rep s) eqn:Er.
  - destruct (rs s), (ps s); reflexivity.
  - destruct (rs s) eqn:Ers; cbn in *; try (exfalso; apply Hrep; reflexivity);
      destruct (ps s); reflexivity.
Qed.

Lemma step_checks_table s :
  step_checks s =
  negb (rs_running (rs s)) && rs_initialized (rs s) && ps_runnable (ps s) && negb (past_end s).
Proof.
  unfold step_checks, past_end. rewrite running_rs.
  destruct (rs s), (ps s); cbn; zb.
Qed.

(* a handler body fails exactly when it contains a failing action *)
Lemma exec_actions_failed md acts : forall s, snd (exec_actions md s acts) = existsb is_fail acts.
Proof.
  induction acts as [|a r IH]; intros s; cbn [exec_actions existsb]; [reflexivity|].
  destruct a; cbn [exec_action is_fail orb]; try apply IH. reflexivity.
Qed.

Theorem accept_refuse_table_inv fuel p s c :
  (rs_initialized (rs s) = true -> rep s <> None) ->
  snd (do_cmd fuel p s c) = table_of p s c.
Proof.
  intros Hrep. pose proof (start_checks_table s Hrep) as Hsc.
  unfold table_of. destruct c; cbn [do_cmd table bound_ok].
  - unfold do_init, construct_raises. rewrite running_rs. destruct (rs_running (rs s)); [reflexivity|].
    match goal with |- context [exec_actions InConstruct ?x ?b] =>
      pose proof (exec_actions_failed InConstruct b x) as Hf; destruct (exec_actions InConstruct x b) as [s3 failed]
    end.
    cbn [snd] in Hf. rewrite <- Hf. destruct failed; reflexivity.
  - reflexivity.
  - destruct (rep s) as [r|] eqn:Er.
    + rewrite do_start_res, Hsc.
      destruct (negb (rs_running (rs s)) && rs_initialized (rs s) && ps_runnable (ps s)) eqn:E1;
        cbn [andb]; [|reflexivity].
      unfold past_end, end_time. rewrite Er.
      destruct (Z.ltb_spec (r_end r) (clock s)); reflexivity.
    + cbn [snd]. destruct (rs s) eqn:Ers; cbn in *;
        try (exfalso; apply Hrep; reflexivity); reflexivity.
  - unfold do_step. rewrite step_checks_table.
    destruct (negb (rs_running (rs s)) && rs_initialized (rs s) && ps_runnable (ps s) && negb (past_end s));
      reflexivity.
  - rewrite running_rs. destruct (rs_running (rs s)); reflexivity.
  - rewrite do_start_res, Hsc.
    destruct (negb (rs_running (rs s)) && rs_initialized (rs s) && ps_runnable (ps s) && negb (past_end s));
      cbn [andb]; [|reflexivity].
    destruct t as [bz|]; [|reflexivity]. destruct (bz <? clock s); reflexivity.
  - rewrite do_start_res, Hsc.
    destruct (negb (rs_running (rs s)) && rs_initialized (rs s) && ps_runnable (ps s) && negb (past_end s));
      cbn [andb]; [|reflexivity].
    destruct t as [bz|]; [|reflexivity]. destruct (bz <? clock s); reflexivity.
  - unfold do_end_repl. destruct (ps s); reflexivity.
  - reflexivity.
Qed.

(* ------------------------------------------------------------------ *)
(** * The pending list: sorted by time, not before the clock, one warm-up event *)

Definition tle (a b : ev) : Prop := ev_time a <= ev_time b.
Definition sorted_t (l : list ev) : Prop := StronglySorted tle l.
Definition is_warm (e : ev) : bool := match ev_h e with HWarm => true | HUser _ => false end.
Definition count_warm (l : list ev) : nat := length (filter is_warm l).

Lemma ev_ltb_time a b : ev_ltb a b = true -> ev_time a <= ev_time b.
Proof.
  unfold ev_ltb, key_ltb, ev_key; cbn [k_time k_nprio k_id].
  destruct (Z.eqb_spec (ev_time a) (ev_time b)); cbn [negb]; [lia|].
  intros H; apply Z.ltb_lt in H; lia.
Qed.

Lemma ev_nltb_time a b : ev_ltb a b = false -> ev_time b <= ev_time a.
Proof.
  unfold ev_ltb, key_ltb, ev_key; cbn [k_time k_nprio k_id].
  destruct (Z.eqb_spec (ev_time a) (ev_time b)); cbn [negb]; [lia|].
  intros H; apply Z.ltb_ge in H; lia.
Qed.

Lemma Forall_ins (P : ev -> Prop) e l : P e -> Forall P l -> Forall P (ins e l).
Proof.
  intros He Hl. induction Hl as [|x r Hx Hr IH]; cbn [ins].
  - constructor; auto.
  - destruct (ev_ltb e x); constructor; auto.
Qed.

Lemma Forall_rem (P : ev -> Prop) e l : Forall P l -> Forall P (rem e l).
Proof.
  intros Hl. induction Hl as [|x r Hx Hr IH]; cbn [rem]; [constructor|].
  destruct (ev_eqb e x); auto.
Qed.

Lemma sorted_ins e l : sorted_t l -> sorted_t (ins e l).
Proof.
  unfold sorted_t. intros Hl. induction Hl as [|x r Hr IH Hx]; cbn [ins].
  - constructor; constructor.
  - destruct (ev_ltb e x) eqn:E.
    + apply ev_ltb_time in E. constructor.
      * constructor; assumption.
      * constructor; [exact E|].
        eapply Forall_impl; [|exact Hx]. unfold tle. intros a Ha. lia.
    + apply ev_nltb_time in E. constructor; [exact IH|].
      apply Forall_ins; [exact E|exact Hx].
Qed.

Lemma sorted_rem e l : sorted_t l -> sorted_t (rem e l).
Proof.
  unfold sorted_t. intros Hl. induction Hl as [|x r Hr IH Hx]; cbn [rem]; [constructor|].
  destruct (ev_eqb e x); [exact Hr|].
  constructor; [exact IH|apply Forall_rem; exact Hx].
Qed.

Lemma count_warm_ins e l :
  count_warm (ins e l) = (count_warm l + if is_warm e then 1 else 0)%nat.
Proof.
  unfold count_warm. induction l as [|x r IH]; cbn [ins filter].
  - destruct (is_warm e); reflexivity.
  - destruct (ev_ltb e x); cbn [filter].
    + destruct (is_warm e), (is_warm x); cbn [length]; lia.
    + destruct (is_warm x); cbn [length]; rewrite IH; lia.
Qed.

Lemma count_warm_rem e l : (count_warm (rem e l) <= count_warm l)%nat.
Proof.
  unfold count_warm. induction l as [|x r IH]; cbn [rem filter]; [lia|].
  destruct (ev_eqb e x); cbn [filter]; destruct (is_warm x); cbn [length]; lia.
Qed.

(* [PI c w n l]: the pending list l is sorted by time, holds no event before
   the clock c, its warm-up events are at the warm-up time w and there are at
   most n of them *)
Record PI (c w : Z) (n : nat) (l : list ev) : Prop := mkPI {
  pi_sorted : sorted_t l;
  pi_ge : Forall (fun e => c <= ev_time e) l;
  pi_wt : Forall (fun e => is_warm e = true -> ev_time e = w) l;
  pi_cnt : (count_warm l <= n)%nat
}.

Lemma PI_nil c w n : PI c w n [].
Proof. constructor; try constructor. unfold count_warm; cbn; lia. Qed.

Lemma PI_ins_user c w n l e :
  PI c w n l -> c <= ev_time e -> is_warm e = false -> PI c w n (ins e l).
Proof.
  intros [H1 H2 H3 H4] Hc Hw. constructor.
  - apply sorted_ins; assumption.
  - apply Forall_ins; assumption.
  - apply Forall_ins; [congruence|assumption].
  - rewrite count_warm_ins, Hw. lia.
Qed.

Lemma PI_ins_warm c w l e :
  PI c w 0 l -> c <= ev_time e -> ev_time e = w -> PI c w 1 (ins e l).
Proof.
  intros [H1 H2 H3 H4] Hc Hw. constructor.
  - apply sorted_ins; assumption.
  - apply Forall_ins; assumption.
  - apply Forall_ins; [intros _; exact Hw|assumption].
  - rewrite count_warm_ins. destruct (is_warm e); lia.
Qed.

Lemma PI_rem c w n l e : PI c w n l -> PI c w n (rem e l).
Proof.
  intros [H1 H2 H3 H4]. constructor.
  - apply sorted_rem; assumption.
  - apply Forall_rem; assumption.
  - apply Forall_rem; assumption.
  - pose proof (count_warm_rem e l). lia.
Qed.

Lemma PI_weaken c w n n' l : PI c w n l -> (n <= n')%nat -> PI c w n' l.
Proof. intros [H1 H2 H3 H4] Hn. constructor; auto. lia. Qed.

(* popping the first event and moving the clock to its time *)
Lemma PI_pop c w n e r :
  PI c w n (e :: r) ->
  c <= ev_time e /\ (is_warm e = true -> ev_time e = w /\ (1 <= n)%nat) /\
  PI (ev_time e) w (n - if is_warm e then 1 else 0) r.
Proof.
  intros [H1 H2 H3 H4].
  inversion H1 as [|? ? Hs Hf]; subst.
  inversion H2 as [|? ? Hc Hr]; subst.
  inversion H3 as [|? ? Hw Hwr]; subst.
  unfold count_warm in H4. cbn [filter] in H4.
  split; [exact Hc|]. split.
  - intros E. rewrite E in H4. cbn [length] in H4. split; [auto|lia].
  - constructor.
    + exact Hs.
    + eapply Forall_impl; [|exact Hf]. unfold tle. auto.
    + exact Hwr.
    + unfold count_warm. destruct (is_warm e); cbn [length] in H4; lia.
Qed.

Lemma PI_clock c c' w n l : PI c w n l -> c' <= c -> PI c' w n l.
Proof.
  intros [H1 H2 H3 H4] Hc. constructor; auto.
  eapply Forall_impl; [|exact H2]. cbn. intros; lia.
Qed.

(* ------------------------------------------------------------------ *)
(** * What a handler body can do to the lifecycle-relevant part of the state *)

Record hstep (s s' : sim) : Prop := mkH {
  hs_clock : clock s' = clock s;
  hs_ps : ps s' = ps s;
  hs_worker : worker s' = worker s;
  hs_rep : rep s' = rep s;
  hs_bound : bound s' = bound s;
  hs_incl : incl s' = incl s;
  hs_strat : strat s' = strat s;
  hs_trace : trace s' = trace s;
  hs_rs : rs s' = rs s \/ (running s = true /\ rs s' = RStopping);
  hs_ntfs : exists k, ntfs s' = repeat NStopping k ++ ntfs s /\ (k <> 0%nat -> running s = true);
  hs_pi : forall w n, PI (clock s) w n (pend s) -> PI (clock s) w n (pend s')
}.

Lemma hstep_refl s : hstep s s.
Proof.
  constructor; auto. exists 0%nat. split; [reflexivity|congruence].
Qed.

Lemma running_stopping s : rs s = RStopping -> running s = false.
Proof. unfold running. intros ->. reflexivity. Qed.

Lemma running_eq s s' : rs s' = rs s -> running s' = running s.
Proof. unfold running. intros ->. reflexivity. Qed.

Lemma hstep_trans a b c : hstep a b -> hstep b c -> hstep a c.
Proof.
  intros [A1 A2 A3 A4 A5 A6 A7 A8 A9 [k1 [A10 A10']] A11] [B1 B2 B3 B4 B5 B6 B7 B8 B9 [k2 [B10 B10']] B11].
  constructor; try congruence.
  - destruct B9 as [B9|[B9 B9']].
    + destruct A9 as [A9|A9]; [left; congruence|right; destruct A9; split; congruence].
    + right. split; [|exact B9'].
      destruct A9 as [A9|[_ A9]]; [rewrite <- (running_eq a b A9); exact B9|].
      rewrite (running_stopping b A9) in B9. discriminate.
  - exists (k2 + k1)%nat. split.
    + rewrite B10, A10, repeat_app, app_assoc. reflexivity.
    + intros Hk. destruct k1 as [|k1].
      * destruct k2 as [|k2]; [lia|].
        assert (R : running b = true) by (apply B10'; lia).
        destruct A9 as [A9|[A9 _]]; [rewrite <- (running_eq a b A9); exact R|exact A9].
      * apply A10'. lia.
  - intros w n H. rewrite <- A1. apply B11. rewrite A1. apply A11. exact H.
Qed.

Lemma sched_time_ge s m t : sched_time s m = Some t -> clock s <= t.
Proof.
  destruct m as [|d|a]; cbn [sched_time].
  - intros E; inversion E; lia.
  - destruct d as [d|]; [|discriminate]. destruct (Z.ltb_spec d 0); [discriminate|].
    intros E; inversion E; lia.
  - destruct a as [a|]; [|discriminate]. destruct (Z.ltb_spec a (clock s)); [discriminate|].
    intros E; inversion E; lia.
Qed.

Lemma do_sched_hstep s m prio h : hstep s (do_sched s m prio h).
Proof.
  unfold do_sched. destruct (sched_time s m) as [t|] eqn:E.
  - apply sched_time_ge in E. unfold add_event. constructor; ssimpl; auto.
    + exists 0%nat. split; [reflexivity|congruence].
    + intros w n H. apply PI_ins_user; auto.
  - constructor; ssimpl; auto. exists 0%nat. split; [reflexivity|congruence].
Qed.

Lemma do_cancel_hstep s k : hstep s (do_cancel s k).
Proof.
  unfold do_cancel. destruct (nth_error (created s) k) as [e|]; [|apply hstep_refl].
  destruct (ev_mem e (pend s)); [|apply hstep_refl].
  constructor; ssimpl; auto.
  - exists 0%nat. split; [reflexivity|congruence].
  - intros w n H. apply PI_rem. exact H.
Qed.

Lemma flag_hstep s : hstep s (raise_flag s).
Proof.
  constructor; ssimpl; auto. exists 0%nat. split; [reflexivity|congruence].
Qed.

Lemma out_hstep o s : hstep s (out o s).
Proof.
  constructor; ssimpl; auto. exists 0%nat. split; [reflexivity|congruence].
Qed.

Lemma inner_cmd_hstep md s c : hstep s (inner_cmd md s c).
Proof.
  unfold inner_cmd. destruct md; try apply flag_hstep;
    (destruct c; try apply flag_hstep;
     try (destruct (running s) eqn:R; [apply out_hstep|apply flag_hstep]);
     destruct (running s) eqn:R; [|apply out_hstep];
     constructor; ssimpl; auto;
     exists 1%nat; split; [reflexivity|auto]).
Qed.

Lemma exec_action_hstep md s a : hstep s (fst (exec_action md s a)).
Proof.
  destruct a; cbn [exec_action fst].
  - apply do_sched_hstep.
  - apply do_cancel_hstep.
  - apply hstep_refl.
  - apply inner_cmd_hstep.
  - constructor; ssimpl; auto. exists 0%nat. split; [reflexivity|congruence].
Qed.

Lemma exec_actions_hstep md acts : forall s, hstep s (fst (exec_actions md s acts)).
Proof.
  induction acts as [|a r IH]; intros s; cbn [exec_actions].
  - apply hstep_refl.
  - pose proof (exec_action_hstep md s a) as H1.
    destruct (exec_action md s a) as [s1 failed]. cbn [fst] in H1.
    destruct failed; [exact H1|].
    eapply hstep_trans; [exact H1|apply IH].
Qed.

(* inside construct_model nothing is notified and the run state stays *)
Lemma exec_actions_construct acts : forall s,
  let s' := fst (exec_actions InConstruct s acts) in
  rs s' = rs s /\ ntfs s' = ntfs s.
Proof.
  induction acts as [|a r IH]; intros s; cbn [exec_actions]; [split; reflexivity|].
  assert (H1 : rs (fst (exec_action InConstruct s a)) = rs s /\
               ntfs (fst (exec_action InConstruct s a)) = ntfs s).
  { destruct a; cbn [exec_action fst inner_cmd]; ssimpl; auto.
    - unfold do_sched. destruct (sched_time s m); unfold add_event; ssimpl; auto.
    - unfold do_cancel. destruct (nth_error (created s) k); auto.
      destruct (ev_mem e (pend s)); ssimpl; auto. }
  destruct (exec_action InConstruct s a) as [s1 failed]. cbn [fst] in H1.
  destruct failed; [exact H1|].
  destruct (IH s1) as [I1 I2]. destruct H1 as [H1 H2]. split; congruence.
Qed.

(* ------------------------------------------------------------------ *)
(** * The monitor: small facts *)

Lemma mon_feed_app m l1 l2 :
  mon_feed m (l1 ++ l2) =
  match mon_feed m l1 with Some m1 => mon_feed m1 l2 | None => None end.
Proof.
  revert m. induction l1 as [|n r IH]; intros m; cbn [mon_feed app]; [reflexivity|].
  destruct (mon_step m n); [apply IH|reflexivity].
Qed.

Lemma new_ntfs_app s s' l : ntfs s' = rev l ++ ntfs s -> new_ntfs s s' = l.
Proof.
  intros H. unfold new_ntfs. rewrite H, app_length, Nat.add_sub.
  rewrite firstn_app, Nat.sub_diag, firstn_all. cbn [firstn]. rewrite app_nil_r.
  apply rev_involutive.
Qed.

Lemma rev_repeat {A} (x : A) k : rev (repeat x k) = repeat x k.
Proof.
  induction k as [|k IH]; [reflexivity|].
  cbn [repeat rev]. rewrite IH. clear IH.
  induction k as [|k IH]; [reflexivity|]. cbn [repeat app]. rewrite IH. reflexivity.
Qed.

Lemma le_last_trans l a b : le_last l a = true -> a <= b -> le_last l b = true.
Proof.
  destruct l as [x|]; cbn [le_last]; [|reflexivity].
  intros H Hab. apply Z.leb_le in H. apply Z.leb_le. lia.
Qed.

Lemma le_last_some a b : a <= b -> le_last (Some a) b = true.
Proof. intros H. cbn [le_last]. apply Z.leb_le. exact H. Qed.

(* ------------------------------------------------------------------ *)
(** * The invariant while a run (or a step) is between START and STOP *)

Definition warm_left (m : mon) : nat := if m_warm m then 0%nat else 1%nat.

Record RI (nb : bool) (s : sim) (m : mon) : Prop := mkRI {
  ri_live : m_live m = true;
  ri_sr : m_sr m = true;
  ri_run : m_run m = true;
  ri_st : m_starting m = false;
  ri_er : m_er m = false;
  ri_ps : ps s = PStarted \/ ps s = PEnding;
  ri_w : worker s = WAlive;
  ri_rep : exists r, rep s = Some r /\ m_w m = r_warm r;
  ri_last : le_last (m_last m) (clock s) = true;
  ri_pi : PI (clock s) (m_w m) (warm_left m) (pend s);
  ri_bound : nb = true -> running s = true -> clock s <= bound s
}.

Lemma mon_feed_stopping m k :
  m_live m = true -> m_sr m = true -> m_run m = true -> m_starting m = false -> m_er m = false ->
  mon_feed m (repeat NStopping k) = Some m.
Proof.
  intros H1 H2 H3 H4 H5. induction k as [|k IH]; [reflexivity|].
  cbn [repeat mon_feed]. unfold mon_step. rewrite H1, H2, H3, H4, H5. cbn. exact IH.
Qed.

Lemma RI_hstep nb s s' m :
  RI nb s m -> hstep s s' ->
  exists l, ntfs s' = rev l ++ ntfs s /\ mon_feed m l = Some m /\ RI nb s' m.
Proof.
  intros [R1 R2 R3 R4 R5 R6 R7 R8 R9 R10 R11] [H1 H2 H3 H4 H5 H6 H7 H8 H9 [k [H10 H10']] H11].
  exists (repeat NStopping k). split; [rewrite rev_repeat; exact H10|].
  split; [apply mon_feed_stopping; assumption|].
  constructor.
  - exact R1.
  - exact R2.
  - exact R3.
  - exact R4.
  - exact R5.
  - rewrite H2. exact R6.
  - rewrite H3. exact R7.
  - rewrite H4. exact R8.
  - rewrite H1. exact R9.
  - rewrite H1. apply H11. exact R10.
  - intros Hnb Hr. rewrite H1, H5. apply R11; [exact Hnb|].
    destruct H9 as [H9|[H9 H9']]; [rewrite <- (running_eq s s' H9); exact Hr|exact H9].
Qed.

(* executing one event whose time the clock has been set to *)
Lemma exec_event_RI nb md p s e m :
  md <> InConstruct ->
  RI nb s m ->
  (is_warm e = true -> clock s = m_w m /\ m_warm m = false) ->
  (is_warm e = true -> PI (clock s) (m_w m) 0 (pend s)) ->
  exists l m', ntfs (fst (exec_event md p s e)) = rev l ++ ntfs s /\ mon_feed m l = Some m' /\
               RI nb (fst (exec_event md p s e)) m' /\
               trace (fst (exec_event md p s e)) = (e, clock s) :: trace s /\
               ps (fst (exec_event md p s e)) = ps s /\
               (forall n, In n l -> n = NStopping \/ n = NWarmup (clock s)).
Proof.
  intros Hmd R Hw Hw0. unfold exec_event. unfold is_warm in *.
  destruct (ev_h e) as [|h] eqn:Eh.
  - (* the warm-up event *)
    destruct (Hw eq_refl) as [Hc Hm]. specialize (Hw0 eq_refl).
    destruct R as [R1 R2 R3 R4 R5 R6 R7 R8 R9 R10 R11].
    cbn [fst]. ssimpl.
    exists [NWarmup (clock s)].
    exists (mkMon true (m_w m) true true false true false (Some (clock s))).
    split; [reflexivity|]. split.
    + cbn [mon_feed]. unfold mon_step. rewrite R1, R2, R3, R4, R5, Hm, R9. cbn.
      rewrite Hc, Z.eqb_refl. reflexivity.
    + split; [|split; [reflexivity|split; [reflexivity|intros n [<-|[]]; right; reflexivity]]].
      constructor; ssimpl; auto.
      apply Z.leb_le. lia.
  - (* a user event *)
    set (s1 := set_trace ((e, clock s) :: trace s) s).
    assert (R1 : RI nb s1 m).
    { destruct R as [R1 R2 R3 R4 R5 R6 R7 R8 R9 R10 R11]. constructor; subst s1; ssimpl; auto. }
    pose proof (exec_actions_hstep md (body p h) s1) as Hh.
    destruct (RI_hstep nb s1 _ m R1 Hh) as [l [L1 [L2 L3]]].
    exists l, m. split; [exact L1|]. split; [exact L2|]. split; [exact L3|]. split; [|split].
    + rewrite (hs_trace _ _ Hh). reflexivity.
    + rewrite (hs_ps _ _ Hh). reflexivity.
    + intros n Hn. left.
      destruct Hh as [_ _ _ _ _ _ _ _ _ [k [Hk _]] _].
      assert (E : rev l = repeat NStopping k).
      { subst s1. ssimpl. rewrite Hk in L1. apply app_inv_tail in L1. symmetry. exact L1. }
      apply in_rev in Hn. rewrite E in Hn. apply repeat_spec in Hn. exact Hn.
Qed.

(* ------------------------------------------------------------------ *)
(** * The run loop *)

Lemma set_stopping_RI nb s m : RI nb s m -> RI nb (set_rs RStopping s) m.
Proof.
  intros [R1 R2 R3 R4 R5 R6 R7 R8 R9 R10 R11]. constructor; ssimpl; auto.
  intros _ H. unfold running in H. ssimpl. discriminate.
Qed.

Definition tc_part (s : sim) (e : ev) : list ntf :=
  if ev_time e =? clock s then [] else [NTime (ev_time e)].

(* one pass of the loop body: the notifications are an optional TIME_CHANGED
   carrying the time of the event that is executed next, then what the event
   itself causes (WARMUP at the warm-up event, STOPPING from handlers) *)
Lemma take_event_RI p s e r m :
  RI true s m -> pend s = e :: r -> beyond s e = false ->
  exists l m',
    ntfs (take_event p s e r) = rev l ++ rev (tc_part s e) ++ ntfs s /\
    mon_feed m (tc_part s e ++ l) = Some m' /\
    RI true (take_event p s e r) m' /\
    trace (take_event p s e r) = (e, ev_time e) :: trace s /\
    (forall n, In n l -> n = NStopping \/ n = NWarmup (ev_time e)).
Proof.
  intros R Hp Hb.
  pose proof (ri_pi _ _ _ R) as Hpi. rewrite Hp in Hpi.
  destruct (PI_pop _ _ _ _ _ Hpi) as [Hc [Hwm Hpi']].
  assert (Hbd : ev_time e <= bound s).
  { unfold beyond in Hb. apply orb_false_iff in Hb. destruct Hb as [Hb _].
    destruct (Z.gtb_spec (ev_time e) (bound s)); [discriminate|lia]. }
  (* the state and the monitor after the optional TIME_CHANGED and the clock update *)
  set (s1 := if ev_time e =? clock (set_pend r s) then set_pend r s
             else emit (NTime (ev_time e)) (set_pend r s)).
  set (s2 := set_clock (ev_time e) s1).
  set (m0 := if ev_time e =? clock s then m
             else mkMon true (m_w m) true true false (m_warm m) false (Some (ev_time e))).
  assert (F0 : mon_feed m (tc_part s e) = Some m0).
  { unfold tc_part, m0. destruct (ev_time e =? clock s); [reflexivity|].
    cbn [mon_feed]. unfold mon_step.
    rewrite (ri_live _ _ _ R), (ri_sr _ _ _ R), (ri_run _ _ _ R), (ri_st _ _ _ R), (ri_er _ _ _ R).
    rewrite (le_last_trans _ _ _ (ri_last _ _ _ R) Hc). reflexivity. }
  assert (N2 : ntfs s2 = rev (tc_part s e) ++ ntfs s).
  { unfold s2, s1, tc_part. ssimpl. destruct (ev_time e =? clock s); reflexivity. }
  assert (W0 : warm_left m0 = warm_left m).
  { unfold m0. destruct (ev_time e =? clock s); reflexivity. }
  assert (R2 : RI true s2 m0).
  { destruct R as [R1 R2 R3 R4 R5 R6 R7 R8 R9 R10 R11].
    assert (Hw : m_w m0 = m_w m) by (unfold m0; destruct (ev_time e =? clock s); reflexivity).
    constructor.
    - unfold m0. destruct (ev_time e =? clock s); auto.
    - unfold m0. destruct (ev_time e =? clock s); auto.
    - unfold m0. destruct (ev_time e =? clock s); auto.
    - unfold m0. destruct (ev_time e =? clock s); auto.
    - unfold m0. destruct (ev_time e =? clock s); auto.
    - unfold s2, s1. ssimpl. destruct (ev_time e =? clock s); ssimpl; exact R6.
    - unfold s2, s1. ssimpl. destruct (ev_time e =? clock s); ssimpl; exact R7.
    - unfold s2, s1. ssimpl. rewrite Hw. destruct (ev_time e =? clock s); ssimpl; exact R8.
    - unfold s2. ssimpl. unfold m0. destruct (Z.eqb_spec (ev_time e) (clock s)) as [E|E].
      + rewrite E. exact R9.
      + apply le_last_some. lia.
    - unfold s2. ssimpl. rewrite Hw, W0.
      replace (pend s1) with r by (unfold s1; ssimpl; destruct (ev_time e =? clock s); reflexivity).
      eapply PI_weaken; [exact Hpi'|]. destruct (is_warm e); lia.
    - intros _ _. unfold s2. ssimpl.
      replace (bound s1) with (bound s) by (unfold s1; ssimpl; destruct (ev_time e =? clock s); reflexivity).
      exact Hbd. }
  assert (Hw0 : is_warm e = true -> clock s2 = m_w m0 /\ m_warm m0 = false).
  { intros E. destruct (Hwm E) as [E1 E2]. unfold s2. ssimpl.
    assert (m_w m0 = m_w m /\ m_warm m0 = m_warm m) as [-> ->]
      by (unfold m0; destruct (ev_time e =? clock s); split; reflexivity).
    split; [exact E1|]. unfold warm_left in E2. destruct (m_warm m); [lia|reflexivity]. }
  assert (Hw1 : is_warm e = true -> PI (clock s2) (m_w m0) 0 (pend s2)).
  { intros E. destruct (Hwm E) as [E1 E2]. unfold s2. ssimpl.
    replace (pend s1) with r by (unfold s1; ssimpl; destruct (ev_time e =? clock s); reflexivity).
    replace (m_w m0) with (m_w m) by (unfold m0; destruct (ev_time e =? clock s); reflexivity).
    rewrite E in Hpi'. eapply PI_weaken; [exact Hpi'|]. unfold warm_left. destruct (m_warm m); lia. }
  assert (Hmd : InRun <> InConstruct) by discriminate.
  destruct (exec_event_RI true InRun p s2 e m0 Hmd R2 Hw0 Hw1) as [l [m1 [L1 [L2 [L3 [L4 [_ L5]]]]]]].
  unfold take_event. fold s1. fold s2.
  destruct (exec_event InRun p s2 e) as [s3 failed]. cbn [fst] in *.
  assert (C2 : clock s2 = ev_time e) by reflexivity.
  assert (T2 : trace s2 = trace s).
  { unfold s2, s1. ssimpl. destruct (ev_time e =? clock s); reflexivity. }
  exists l, m1.
  assert (Fin : mon_feed m (tc_part s e ++ l) = Some m1) by (rewrite mon_feed_app, F0; exact L2).
  rewrite C2 in *. rewrite T2 in L4. rewrite N2 in L1.
  destruct failed; [destruct (strat s3)|]; ssimpl;
    (split; [exact L1|split; [exact Fin|split; [|split; [exact L4|exact L5]]]]);
    try exact L3.
  apply set_stopping_RI. exact L3.
Qed.

Lemma stop_at_bound_RI s m :
  RI true s m -> running s = true ->
  (pend s = [] \/ exists e r, pend s = e :: r /\ beyond s e = true) ->
  ntfs (stop_at_bound s) = ntfs s /\ RI true (stop_at_bound s) m.
Proof.
  intros [R1 R2 R3 R4 R5 R6 R7 R8 R9 R10 R11] Hr Hp.
  assert (Hcb : clock s <= bound s) by (apply R11; auto).
  assert (Hpi : PI (bound s) (m_w m) (warm_left m) (pend s)).
  { destruct Hp as [Hp|[e [r [Hp Hb]]]].
    - rewrite Hp. apply PI_nil.
    - rewrite Hp in *. destruct R10 as [P1 P2 P3 P4]. constructor; auto.
      assert (He : bound s <= ev_time e).
      { unfold beyond in Hb. apply orb_true_iff in Hb. destruct Hb as [Hb|Hb].
        - destruct (Z.gtb_spec (ev_time e) (bound s)); [lia|discriminate].
        - apply andb_true_iff in Hb. destruct Hb as [Hb _]. apply Z.eqb_eq in Hb. lia. }
      inversion P1 as [|? ? Hs Hf]; subst. constructor; [exact He|].
      eapply Forall_impl; [|exact Hf]. unfold tle. intros a Ha. lia. }
  unfold stop_at_bound.
  destruct (bound s >=? end_time s); ssimpl; (split; [reflexivity|]);
    constructor; ssimpl; auto;
    try (eapply le_last_trans; eassumption);
    try (intros _ H; unfold running in H; ssimpl; discriminate).
Qed.

Lemma flag_RI nb s m : RI nb s m -> RI nb (raise_flag s) m.
Proof.
  intros [R1 R2 R3 R4 R5 R6 R7 R8 R9 R10 R11]. constructor; ssimpl; auto.
Qed.

Lemma run_loop_RI fuel p : forall s m,
  RI true s m ->
  exists l m', ntfs (run_loop fuel p s) = rev l ++ ntfs s /\ mon_feed m l = Some m' /\
               RI true (run_loop fuel p s) m'.
Proof.
  induction fuel as [|f IH]; intros s m R; cbn [run_loop].
  - exists [], m. destruct (running s); (split; [reflexivity|split; [reflexivity|]]); auto.
    apply flag_RI. exact R.
  - destruct (running s) eqn:Hr; [|exists [], m; auto].
    destruct (pend s) as [|e r] eqn:Hp.
    + destruct (stop_at_bound_RI s m R Hr (or_introl Hp)) as [N R'].
      exists [], m. rewrite N. auto.
    + destruct (beyond s e) eqn:Hb.
      * destruct (stop_at_bound_RI s m R Hr) as [N R'].
        { right. exists e, r. auto. }
        exists [], m. rewrite N. auto.
      * destruct (take_event_RI p s e r m R Hp Hb) as [l1 [m1 [L1 [L2 [L3 _]]]]].
        destruct (IH _ _ L3) as [l2 [m2 [K1 [K2 K3]]]].
        exists ((tc_part s e ++ l1) ++ l2), m2. split; [|split; [|exact K3]].
        -- rewrite K1, L1. rewrite !rev_app_distr, !app_assoc. reflexivity.
        -- rewrite mon_feed_app, L2. exact K2.
Qed.

(* ------------------------------------------------------------------ *)
(** * Invariant of quiescent states and its preservation by every command *)

Record QI (s : sim) (m : mon) : Prop := mkQI {
  qi_q : qinv s = true;
  qi_agree : mon_agrees m (rs s) (ps s) = true;
  qi_quiet : mon_quiet m = true;
  qi_rep : rs_initialized (rs s) = true -> exists r, rep s = Some r /\ m_w m = r_warm r;
  qi_last : le_last (m_last m) (clock s) = true;
  qi_pi : rs_initialized (rs s) = true -> PI (clock s) (m_w m) (warm_left m) (pend s)
}.

Lemma QI_init st : QI (init_sim st) mon_dead.
Proof. constructor; cbn; auto; discriminate. Qed.

(* a stopped run whose replication is STARTED or ENDING: what the run thread
   does before it waits again (or terminates) *)
Record SI (s : sim) (m : mon) : Prop := mkSI {
  si_live : m_live m = true;
  si_sr : m_sr m = true;
  si_run : m_run m = false;
  si_st : m_starting m = false;
  si_er : m_er m = false;
  si_rs : rs s = RStopped;
  si_ps : ps s = PStarted \/ ps s = PEnding;
  si_w : worker s = WAlive;
  si_rep : exists r, rep s = Some r /\ m_w m = r_warm r;
  si_last : le_last (m_last m) (clock s) = true;
  si_pi : PI (clock s) (m_w m) (warm_left m) (pend s)
}.

Lemma worker_ending_QI s m :
  SI s m ->
  exists l m', ntfs (worker_ending s) = rev l ++ ntfs s /\ mon_feed m l = Some m' /\
               QI (worker_ending s) m'.
Proof.
  intros [S1 S2 S3 S4 S5 S6 S7 S8 S9 S10 S11]. unfold worker_ending.
  destruct S7 as [S7|S7]; rewrite S7.
  - exists [], m. split; [reflexivity|]. split; [reflexivity|].
    constructor; auto.
    + unfold qinv. rewrite S6, S7, S8. reflexivity.
    + unfold mon_agrees. rewrite S1, S2, S5, S6, S7. reflexivity.
    + unfold mon_quiet. rewrite S3, S4. reflexivity.
  - exists [NEndRepl (clock s)], (mkMon true (m_w m) true false false (m_warm m) true (Some (clock s))).
    split; [reflexivity|]. split.
    + cbn [mon_feed]. unfold mon_step. rewrite S1, S2, S3, S4, S5, S10. reflexivity.
    + constructor; ssimpl; auto.
      apply Z.leb_le. lia.
Qed.

Lemma RI_stop_SI nb b m :
  RI nb b m ->
  let c := set_rs RStopped (emit (NStop (clock b)) b) in
  let m' := mkMon true (m_w m) true false false (m_warm m) false (Some (clock b)) in
  mon_feed m [NStop (clock b)] = Some m' /\ SI c m'.
Proof.
  intros [R1 R2 R3 R4 R5 R6 R7 R8 R9 R10 R11]. cbn zeta. split.
  - cbn [mon_feed]. unfold mon_step. rewrite R1, R2, R3, R4, R5, R9. reflexivity.
  - constructor; ssimpl; auto. apply Z.leb_le. lia.
Qed.

(* the run thread after a wake-up, from a state that has passed the checks of
   start / run_up_to and has notified STARTING *)
Lemma worker_run_started fuel p s m :
  worker s = WAlive -> ps s = PStarted ->
  RI true (set_rs RStarted (emit (NStart (clock s)) s))
          (mkMon true (m_w m) true true false (m_warm m) false (Some (clock s))) ->
  mon_step m (NStart (clock s)) = Some (mkMon true (m_w m) true true false (m_warm m) false (Some (clock s))) ->
  exists l m', ntfs (worker_run fuel p s) = rev l ++ ntfs s /\ mon_feed m l = Some m' /\
               QI (worker_run fuel p s) m'.
Proof.
  intros Hw Hps R Hm. unfold worker_run. rewrite Hw, Hps.
  set (a := set_rs RStarted (emit (NStart (clock s)) s)) in *.
  set (ma := mkMon true (m_w m) true true false (m_warm m) false (Some (clock s))) in *.
  destruct (run_loop_RI fuel p a ma R) as [l1 [m1 [L1 [L2 L3]]]].
  set (b := run_loop fuel p a) in *.
  destruct (RI_stop_SI true b m1 L3) as [F2 S2].
  set (c := set_rs RStopped (emit (NStop (clock b)) b)) in *.
  destruct (worker_ending_QI c _ S2) as [l3 [m3 [K1 [K2 K3]]]].
  exists ((NStart (clock s) :: l1) ++ NStop (clock b) :: l3), m3.
  split; [|split; [|exact K3]].
  - rewrite K1. unfold c. ssimpl. rewrite L1. unfold a. ssimpl.
    rewrite rev_app_distr. cbn [rev]. rewrite <- !app_assoc. cbn [app]. reflexivity.
  - rewrite mon_feed_app. cbn [mon_feed]. rewrite Hm, L2.
    cbn [mon_feed] in F2. destruct (mon_step m1 (NStop (clock b))) as [mx|]; [|discriminate].
    inversion F2; subst mx. exact K2.
Qed.

(* ------------------------------------------------------------------ *)
(** * Every command preserves the invariant and is accepted by the monitor *)

Lemma agrees_inv m r p :
  mon_agrees m r p = true ->
  m_live m = rs_initialized r /\
  m_sr m = (match p with PStarted | PEnding | PEnded => true | _ => false end) /\
  m_er m = (match p with PEnded => true | _ => false end).
Proof.
  unfold mon_agrees. intros H.
  apply andb_true_iff in H. destruct H as [H H3].
  apply andb_true_iff in H. destruct H as [H1 H2].
  apply eqb_prop in H1, H2, H3. auto.
Qed.

Lemma quiet_inv m : mon_quiet m = true -> m_run m = false /\ m_starting m = false.
Proof.
  unfold mon_quiet. intros H. apply andb_true_iff in H. destruct H as [H1 H2].
  apply negb_true_iff in H1, H2. auto.
Qed.

Lemma qinv_cases s :
  qinv s = true ->
  (rs s = RNotInit /\ ps s = PNotInit /\ (worker s = WNone \/ worker s = WAlive)) \/
  (rs s = RInit /\ ps s = PInit /\ worker s = WAlive) \/
  (rs s = RStopped /\ ps s = PStarted /\ worker s = WAlive) \/
  (rs s = REnded /\ ps s = PEnded /\ worker s = WFinal).
Proof.
  unfold qinv, qstate_ok. destruct (rs s), (ps s), (worker s); intros H; try discriminate; auto 12.
Qed.

Lemma qinv_not_running s : qinv s = true -> running s = false.
Proof.
  intros H. unfold running.
  destruct (qinv_cases s H) as [[-> _]|[[-> _]|[[-> _]|[-> _]]]]; reflexivity.
Qed.

Definition cap (s : sim) (bz : Z) (i : bool) : Z * bool :=
  if bz >? end_time s then (end_time s, true) else (bz, i).

Definition start_repl (s1 : sim) : sim :=
  match ps s1 with
  | PInit => set_ps PStarted (emit (NStartRepl (clock s1)) s1)
  | _ => s1
  end.

Lemma do_start_eq fuel p s bz i :
  start_checks s = true -> (bz <? clock s) = false ->
  do_start fuel p s (TNum bz) i =
  (worker_run fuel p
     (emit NStarting
        (start_repl (set_rs RStarting (set_incl (snd (cap s bz i)) (set_bound (fst (cap s bz i)) s))))),
   ResOk).
Proof.
  intros H1 H2. unfold do_start, cap, start_repl. rewrite H1, H2.
  destruct (bz >? end_time s); reflexivity.
Qed.

Lemma start_checks_inv s :
  start_checks s = true ->
  running s = false /\ (exists r, rep s = Some r) /\ ps_runnable (ps s) = true /\
  clock s <= end_time s.
Proof.
  rewrite start_checks_raw, running_rs. unfold past_end. intros H.
  apply andb_true_iff in H. destruct H as [H H5]. apply andb_true_iff in H. destruct H as [H H4].
  apply andb_true_iff in H. destruct H as [H H3]. apply andb_true_iff in H. destruct H as [H1 H2].
  apply negb_true_iff in H1. apply negb_true_iff in H5. apply Z.ltb_ge in H5.
  split; [exact H1|]. split; [destruct (rep s) as [r|]; [exists r; reflexivity|discriminate]|].
  split; [exact H4|exact H5].
Qed.

Lemma do_start_QI fuel p s m b i s1 res :
  QI s m -> do_start fuel p s b i = (s1, res) ->
  exists m1, mon_feed m (new_ntfs s s1) = Some m1 /\ QI s1 m1.
Proof.
  intros Q H. destruct res.
  3:{ exfalso. pose proof (do_start_res fuel p s b i) as Hr. rewrite H in Hr. cbn [snd] in Hr.
      destruct (start_checks s); [destruct b as [bz|]; [destruct (bz <? clock s)|]|]; discriminate. }
  2:{ apply do_start_refused in H. subst s1. exists m. split; [|exact Q].
      unfold new_ntfs. rewrite Nat.sub_diag. reflexivity. }
  pose proof (do_start_res fuel p s b i) as Hres. rewrite H in Hres. cbn [snd] in Hres.
  destruct (start_checks s) eqn:Hc; [|discriminate].
  destruct b as [bz|]; [|discriminate].
  destruct (bz <? clock s) eqn:Hb; [discriminate|]. clear Hres.
  rewrite (do_start_eq fuel p s bz i Hc Hb) in H. injection H as H1. subst s1.
  apply Z.ltb_ge in Hb.
  destruct (start_checks_inv s Hc) as [Hrun [[r Hrep] [Hps Hend]]].
  destruct Q as [Q1 Q2 Q3 Q4 Q5 Q6].
  destruct (agrees_inv _ _ _ Q2) as [A1 [A2 A3]].
  destruct (quiet_inv _ Q3) as [U1 U2].
  set (bz' := fst (cap s bz i)). set (i' := snd (cap s bz i)).
  assert (Hbz : clock s <= bz').
  { unfold bz', cap. destruct (bz >? end_time s); cbn [fst]; lia. }
  assert (Hini : rs_initialized (rs s) = true).
  { destruct (qinv_cases s Q1) as [[_ [E _]]|[[-> _]|[[-> _]|[_ [E _]]]]]; try reflexivity;
      rewrite E in Hps; discriminate. }
  assert (Hw : worker s = WAlive).
  { destruct (qinv_cases s Q1) as [[_ [E _]]|[[_ [_ E]]|[[_ [_ E]]|[_ [E _]]]]]; auto;
      rewrite E in Hps; discriminate. }
  destruct (Q4 Hini) as [r' [Hr' Hmw]]. specialize (Q6 Hini).
  rewrite Hini in A1.
  set (s0 := set_rs RStarting (set_incl i' (set_bound bz' s))).
  destruct (ps s) eqn:Eps; try discriminate.
  - (* first start of the replication *)
    set (sa := emit NStarting (start_repl s0)) in *.
    assert (Esa : sa = emit NStarting (set_ps PStarted (emit (NStartRepl (clock s)) s0))).
    { unfold sa, start_repl, s0. ssimpl. rewrite Eps. reflexivity. }
    set (mb := mkMon true (m_w m) true false true (m_warm m) false (Some (clock s))).
    assert (F : mon_feed m [NStartRepl (clock s); NStarting] = Some mb).
    { cbn [mon_feed]. unfold mon_step. rewrite ?A1, ?A2, ?A3, ?U1, ?U2. cbn. reflexivity. }
    destruct (worker_run_started fuel p sa mb) as [l [m3 [L1 [L2 L3]]]].
    + rewrite Esa. ssimpl. exact Hw.
    + rewrite Esa. reflexivity.
    + rewrite Esa. unfold s0, mb. unfold warm_left in *.
      constructor; ssimpl; cbn [m_live m_w m_sr m_run m_starting m_warm m_er m_last]; auto;
        try (exists r'; auto); try (apply Z.leb_le; lia).
    + rewrite Esa. unfold mb, s0. ssimpl. unfold mon_step. cbn.
      rewrite Z.leb_refl. reflexivity.
    + exists m3. split; [|exact L3].
      erewrite new_ntfs_app with (l := [NStartRepl (clock s); NStarting] ++ l).
      * rewrite mon_feed_app, F. exact L2.
      * rewrite L1, Esa. unfold s0. ssimpl. rewrite rev_app_distr. cbn [rev app].
        rewrite <- !app_assoc. reflexivity.
  - (* a later start *)
    set (sa := emit NStarting (start_repl s0)) in *.
    assert (Esa : sa = emit NStarting s0).
    { unfold sa, start_repl, s0. ssimpl. rewrite Eps. reflexivity. }
    set (mb := mkMon true (m_w m) true false true (m_warm m) false (m_last m)).
    assert (F : mon_feed m [NStarting] = Some mb).
    { cbn [mon_feed]. unfold mon_step. rewrite ?A1, ?A2, ?A3, ?U1, ?U2. cbn. reflexivity. }
    destruct (worker_run_started fuel p sa mb) as [l [m3 [L1 [L2 L3]]]].
    + rewrite Esa. ssimpl. exact Hw.
    + rewrite Esa. unfold s0. ssimpl. exact Eps.
    + rewrite Esa. unfold s0, mb. unfold warm_left in *.
      constructor; ssimpl; cbn [m_live m_w m_sr m_run m_starting m_warm m_er m_last]; auto;
        try (exists r'; auto); try (apply Z.leb_le; lia).
    + rewrite Esa. unfold mb, s0. ssimpl. unfold mon_step. cbn.
      rewrite Q5. reflexivity.
    + exists m3. split; [|exact L3].
      erewrite new_ntfs_app with (l := [NStarting] ++ l).
      * rewrite mon_feed_app, F. exact L2.
      * rewrite L1, Esa. unfold s0. ssimpl. rewrite rev_app_distr. cbn [rev app].
        rewrite <- !app_assoc. reflexivity.
Qed.

Lemma new_ntfs_same s : new_ntfs s s = [].
Proof. unfold new_ntfs. rewrite Nat.sub_diag. reflexivity. Qed.

Lemma step_checks_inv s :
  step_checks s = true ->
  running s = false /\ rs_initialized (rs s) = true /\ ps_runnable (ps s) = true /\
  clock s <= end_time s.
Proof.
  rewrite step_checks_table, running_rs. unfold past_end. intros H.
  apply andb_true_iff in H. destruct H as [H H4]. apply andb_true_iff in H. destruct H as [H H3].
  apply andb_true_iff in H. destruct H as [H1 H2].
  apply negb_true_iff in H1. apply negb_true_iff in H4. apply Z.ltb_ge in H4. auto.
Qed.

(* step(): START, at most one event (TIME_CHANGED always), STOP *)
Lemma do_step_QI p s m s1 res :
  QI s m -> do_step p s = (s1, res) ->
  exists m1, mon_feed m (new_ntfs s s1) = Some m1 /\ QI s1 m1.
Proof.
  intros Q H. unfold do_step in H.
  destruct (step_checks s) eqn:Hc.
  2:{ injection H as <- <-. exists m. rewrite new_ntfs_same. split; [reflexivity|exact Q]. }
  destruct (step_checks_inv s Hc) as [Hrun [Hini [Hps Hend]]].
  destruct Q as [Q1 Q2 Q3 Q4 Q5 Q6].
  destruct (agrees_inv _ _ _ Q2) as [A1 [A2 A3]].
  destruct (quiet_inv _ Q3) as [U1 U2].
  rewrite Hini in A1. destruct (Q4 Hini) as [r' [Hr' Hmw]]. specialize (Q6 Hini).
  assert (Hw : worker s = WAlive).
  { destruct (qinv_cases s Q1) as [[_ [E _]]|[[_ [_ E]]|[[_ [_ E]]|[_ [E _]]]]]; auto;
      rewrite E in Hps; discriminate. }
  (* the state and the monitor after the optional START_REPLICATION and START *)
  set (sr := match ps s with
             | PInit => set_ps PStarted (emit (NStartRepl (clock s)) s)
             | _ => s end) in *.
  set (s2 := emit (NStart (clock sr)) (set_rs RStarted sr)) in *.
  set (pre := match ps s with PInit => [NStartRepl (clock s)] | _ => [] end ++ [NStart (clock s)]).
  set (m2 := mkMon true (m_w m) true true false (m_warm m) false (Some (clock s))).
  assert (F : mon_feed m pre = Some m2).
  { unfold pre. destruct (ps s) eqn:Eps; try discriminate; cbn [app mon_feed]; unfold mon_step;
      rewrite ?A1, ?A2, ?A3, ?U1, ?U2; cbn; rewrite ?Z.leb_refl, ?Q5; reflexivity. }
  assert (N2 : ntfs s2 = rev pre ++ ntfs s).
  { unfold s2, sr, pre. destruct (ps s); ssimpl; reflexivity. }
  assert (C2 : clock s2 = clock s) by (unfold s2, sr; destruct (ps s); reflexivity).
  assert (P2 : ps s2 = PStarted).
  { unfold s2, sr. destruct (ps s) eqn:Eps; try discriminate; ssimpl; auto. }
  assert (R2 : RI false s2 m2).
  { unfold m2, warm_left in *. constructor; cbn [m_live m_w m_sr m_run m_starting m_warm m_er m_last]; auto.
    - unfold s2, sr. destruct (ps s); ssimpl; exact Hw.
    - exists r'. split; [|exact Hmw]. unfold s2, sr. destruct (ps s); ssimpl; exact Hr'.
    - rewrite C2. apply Z.leb_le. lia.
    - rewrite C2. replace (pend s2) with (pend s) by (unfold s2, sr; destruct (ps s); reflexivity).
      unfold warm_left. cbn [m_warm]. exact Q6.
    - discriminate. }
  (* the event, if any *)
  assert (E3 : exists s3 l m3,
             (match pend s2 with
              | [] => s2
              | e :: r => if ev_time e >? end_time s2 then s2 else step_event p s2 e r
              end) = s3 /\
             ntfs s3 = rev l ++ ntfs s2 /\ mon_feed m2 l = Some m3 /\ RI false s3 m3 /\ ps s3 = PStarted).
  { destruct (pend s2) as [|e r] eqn:Hp.
    - exists s2, [], m2. auto.
    - destruct (ev_time e >? end_time s2).
      + exists s2, [], m2. auto.
      + pose proof (ri_pi _ _ _ R2) as Hpi. rewrite Hp in Hpi.
        destruct (PI_pop _ _ _ _ _ Hpi) as [Hce [Hwm Hpi']].
        set (a := emit (NTime (ev_time e)) (set_pend r s2)).
        set (b := set_clock (ev_time e) a).
        set (mt := mkMon true (m_w m2) true true false (m_warm m2) false (Some (ev_time e))).
        assert (Ft : mon_step m2 (NTime (ev_time e)) = Some mt).
        { unfold mon_step, m2. cbn. rewrite C2 in Hce.
          destruct (Z.leb_spec (clock s) (ev_time e)); [reflexivity|lia]. }
        assert (Rb : RI false b mt).
        { destruct R2 as [G1 G2 G3 G4 G5 G6 G7 G8 G9 G10 G11].
          unfold b, a, mt, warm_left in *.
          constructor; ssimpl; cbn [m_live m_w m_sr m_run m_starting m_warm m_er m_last] in *; auto.
          - apply Z.leb_le. lia.
          - unfold warm_left in *. cbn [m_warm] in *.
            eapply PI_weaken; [exact Hpi'|]. destruct (is_warm e); lia.
          - discriminate. }
        assert (Hw0 : is_warm e = true -> clock b = m_w mt /\ m_warm mt = false).
        { intros E. destruct (Hwm E) as [E1 E2]. unfold b, mt, m2, warm_left in *. ssimpl.
          cbn [m_w m_warm] in *. split; [exact E1|]. destruct (m_warm m); [lia|reflexivity]. }
        assert (Hw1 : is_warm e = true -> PI (clock b) (m_w mt) 0 (pend b)).
        { intros E. destruct (Hwm E) as [E1 E2]. unfold b, a, mt. ssimpl. cbn [m_w].
          rewrite E in Hpi'. eapply PI_weaken; [exact Hpi'|].
          unfold warm_left. destruct (m_warm m2); lia. }
        assert (Hmd : InStep <> InConstruct) by discriminate.
        destruct (exec_event_RI false InStep p b e mt Hmd Rb Hw0 Hw1) as [l [m1 [L1 [L2 [L3 [_ [L4 _]]]]]]].
        exists (fst (exec_event InStep p b e)), (NTime (ev_time e) :: l), m1.
        split; [reflexivity|]. split; [|split; [|split; [exact L3|]]].
        * rewrite L1. unfold b, a. ssimpl. cbn [rev]. rewrite <- app_assoc. reflexivity.
        * cbn [mon_feed]. rewrite Ft. exact L2.
        * rewrite L4. unfold b, a. ssimpl. exact P2. }
  destruct E3 as [s3 [l [m3 [E3 [N3 [F3 [R3 P3]]]]]]].
  rewrite E3 in H. injection H as <- <-.
  destruct (RI_stop_SI false s3 m3 R3) as [F4 S4].
  set (c := set_rs RStopped (emit (NStop (clock s3)) s3)) in *.
  exists (mkMon true (m_w m3) true false false (m_warm m3) false (Some (clock s3))).
  split.
  - erewrite new_ntfs_app with (l := pre ++ l ++ [NStop (clock s3)]).
    + rewrite mon_feed_app, F, mon_feed_app, F3. exact F4.
    + unfold c. ssimpl. rewrite N3, N2. rewrite !rev_app_distr. cbn [rev app].
      rewrite <- !app_assoc. reflexivity.
  - destruct S4 as [S1 S2 S3 S4 S5 S6 S7 S8 S9 S10 S11].
    assert (Pc : ps c = PStarted) by (unfold c; ssimpl; exact P3).
    constructor; auto.
    + unfold qinv. rewrite S6, Pc, S8. reflexivity.
    + unfold mon_agrees. rewrite S6, Pc. reflexivity.
Qed.

Lemma do_end_repl_QI fuel p s m s1 res :
  QI s m -> do_end_repl fuel p s = (s1, res) ->
  exists m1, mon_feed m (new_ntfs s s1) = Some m1 /\ QI s1 m1.
Proof.
  intros Q H. unfold do_end_repl in H.
  destruct (ps s) eqn:Eps;
    try (injection H as <- <-; exists m; rewrite new_ntfs_same; split; [reflexivity|exact Q]).
  destruct Q as [Q1 Q2 Q3 Q4 Q5 Q6].
  destruct (agrees_inv _ _ _ Q2) as [A1 [A2 A3]].
  destruct (quiet_inv _ Q3) as [U1 U2].
  assert (Hrs : rs s = RStopped /\ worker s = WAlive).
  { destruct (qinv_cases s Q1) as [[_ [E _]]|[[_ [E _]]|[[E1 [_ E2]]|[_ [E _]]]]]; auto; congruence. }
  destruct Hrs as [Hrs Hw]. rewrite Hrs in *. cbn in A1.
  destruct (Q4 eq_refl) as [r' [Hr' Hmw]]. specialize (Q6 eq_refl).
  set (sa := if clock s <? end_time s then set_clock (end_time s) s else s) in *.
  set (sb := set_pend [] (set_ps PEnding sa)) in *.
  assert (Hca : clock s <= clock sa).
  { unfold sa. destruct (Z.ltb_spec (clock s) (end_time s)); ssimpl; lia. }
  assert (S : SI sb m).
  { rewrite Eps in *. constructor; auto.
    - unfold sb, sa. destruct (clock s <? end_time s); ssimpl; exact Hrs.
    - unfold sb. ssimpl. exact Hw || (unfold sa; destruct (clock s <? end_time s); ssimpl; exact Hw).
    - exists r'. split; [|exact Hmw]. unfold sb, sa. destruct (clock s <? end_time s); ssimpl; exact Hr'.
    - unfold sb. ssimpl. eapply le_last_trans; [exact Q5|exact Hca].
    - unfold sb. ssimpl. apply PI_nil. }
  assert (Ew : worker_run fuel p sb = worker_ending sb).
  { unfold worker_run.
    replace (worker sb) with WAlive
      by (unfold sb, sa; destruct (clock s <? end_time s); ssimpl; symmetry; exact Hw).
    replace (ps sb) with PEnding by reflexivity. reflexivity. }
  rewrite Ew in H. injection H as <- <-.
  destruct (worker_ending_QI sb m S) as [l [m' [L1 [L2 L3]]]].
  exists m'. split; [|exact L3].
  erewrite new_ntfs_app with (l := l); [exact L2|].
  rewrite L1. unfold sb, sa. destruct (clock s <? end_time s); ssimpl; reflexivity.
Qed.

Lemma do_cleanup_QI s : QI (do_cleanup s) mon_dead.
Proof.
  unfold do_cleanup. constructor; ssimpl; cbn; auto; discriminate.
Qed.

Lemma do_init_QI p s m r s1 res :
  QI s m -> do_init p s r = (s1, res) ->
  exists m1, mon_feed (mon_reset (CInit r) res m) (new_ntfs s s1) = Some m1 /\ QI s1 m1.
Proof.
  intros Q H. unfold do_init in H.
  destruct (running s) eqn:Hrun.
  { injection H as <- <-. exists m. rewrite new_ntfs_same. split; [reflexivity|exact Q]. }
  cbv zeta in H.
  set (s0 := set_pend [] s) in *.
  set (sc := match worker s0 with WNone => s0 | _ => do_cleanup s0 end) in *.
  set (s2 := set_created [] (set_clock (r_start r) (set_rep (Some r) (set_worker WAlive sc)))) in *.
  pose proof (exec_actions_hstep InConstruct (body p 0) s2) as Hh.
  pose proof (exec_actions_construct (body p 0) s2) as [Hc1 Hc2].
  destruct (exec_actions InConstruct s2 (body p 0)) as [s3 failed]. cbn [fst] in *.
  assert (N2 : ntfs s2 = ntfs s).
  { unfold s2, sc, s0, do_cleanup. destruct (worker (set_pend [] s)); reflexivity. }
  assert (P2 : pend s2 = []).
  { unfold s2, sc, s0, do_cleanup. destruct (worker (set_pend [] s)); reflexivity. }
  destruct Hh as [H1 H2 H3 H4 H5 H6 H7 H8 H9 H10 H11].
  destruct failed.
  { (* construct_model raised: not initialized, the new run thread waits, nothing was notified *)
    injection H as <- <-. exists mon_dead. cbn [mon_reset]. split.
    - erewrite new_ntfs_app with (l := []); [reflexivity|]. ssimpl. rewrite Hc2, N2. reflexivity.
    - constructor; ssimpl; cbn; auto; try discriminate.
      unfold qinv. ssimpl. rewrite H3. reflexivity. }
  injection H as <- <-.
  assert (C2 : clock s2 = r_start r) by reflexivity.
  assert (Hpi : PI (r_start r) (r_warm r) 0 (pend s3)).
  { rewrite <- C2. apply H11. rewrite P2. apply PI_nil. }
  set (s5 := set_ps PInit (set_rs RInit s3)) in *.
  assert (F5 : clock s5 = r_start r /\ pend s5 = pend s3 /\ ntfs s5 = ntfs s /\ worker s5 = WAlive /\
               rep s5 = Some r).
  { unfold s5. ssimpl; rewrite H1, Hc2, N2, H3, H4; auto. }
  destruct F5 as [F1 [F2 [F3 [F4 F5]]]].
  exists (mon_fresh (r_warm r)). cbn [mon_reset].
  change (clock s5) with (clock s3) in *.
  destruct (r_warm r <? clock s3) eqn:Hwm.
  - split.
    + erewrite new_ntfs_app with (l := []); [reflexivity|]. ssimpl. exact F3.
    + constructor; ssimpl; auto.
      * unfold qinv. ssimpl. rewrite F4. reflexivity.
      * intros _. exists r. auto.
      * intros _. cbn [m_w mon_fresh warm_left m_warm].
        change (clock s5) with (clock s3). rewrite F1, F2.
        eapply PI_weaken; [exact Hpi|lia].
  - apply Z.ltb_ge in Hwm. split.
    + erewrite new_ntfs_app with (l := []); [reflexivity|]. ssimpl. exact F3.
    + constructor; ssimpl; auto.
      * unfold qinv. ssimpl. rewrite F4. reflexivity.
      * intros _. exists r. auto.
      * intros _. cbn [m_w mon_fresh warm_left m_warm].
        change (clock s5) with (clock s3). change (pend s3) with (pend s5). rewrite F2.
        apply PI_ins_warm; [rewrite F1; exact Hpi|exact Hwm|reflexivity].
Qed.

Theorem do_cmd_QI fuel p s m c s1 res :
  QI s m -> do_cmd fuel p s c = (s1, res) ->
  exists m1, mon_feed (mon_reset c res m) (new_ntfs s s1) = Some m1 /\ QI s1 m1.
Proof.
  intros Q H. destruct c; cbn [do_cmd] in H.
  - eapply do_init_QI; eassumption.
  - injection H as <- <-. exists m. rewrite new_ntfs_same. split; [reflexivity|exact Q].
  - cbn [mon_reset]. destruct (rep s) as [r|].
    + eapply do_start_QI; eassumption.
    + injection H as <- <-. exists m. rewrite new_ntfs_same. split; [reflexivity|exact Q].
  - cbn [mon_reset]. eapply do_step_QI; eassumption.
  - rewrite (qinv_not_running s (qi_q _ _ Q)) in H. injection H as <- <-.
    exists m. rewrite new_ntfs_same. split; [reflexivity|exact Q].
  - cbn [mon_reset]. eapply do_start_QI; eassumption.
  - cbn [mon_reset]. eapply do_start_QI; eassumption.
  - cbn [mon_reset]. eapply do_end_repl_QI; eassumption.
  - injection H as <- <-. exists mon_dead. cbn [mon_reset].
    erewrite new_ntfs_app with (l := []); [split; [reflexivity|apply do_cleanup_QI]|].
    reflexivity.
Qed.

(* ------------------------------------------------------------------ *)
(** * The theorems about whole command lists *)

Theorem lifecycle_ok_QI fuel p cs : forall s m,
  QI s m -> lifecycle_ok fuel p s m cs = true.
Proof.
  induction cs as [|c r IH]; intros s m Q; cbn [lifecycle_ok]; [reflexivity|].
  destruct (do_cmd fuel p s c) as [s1 res] eqn:E.
  destruct (do_cmd_QI fuel p s m c s1 res Q E) as [m1 [F Q1]].
  rewrite F. rewrite (qi_quiet _ _ Q1), (qi_q _ _ Q1), (qi_agree _ _ Q1). cbn [andb].
  apply IH. exact Q1.
Qed.

(* the notification stream of every command list is accepted by the monitor,
   and after every command the state invariants hold *)
Theorem stream_wf fuel p st cs :
  lifecycle_ok fuel p (init_sim st) mon_dead cs = true.
Proof. apply lifecycle_ok_QI. apply QI_init. Qed.

(* reachable states: what run_cmds produces from the initial state *)
Definition reachable (fuel : nat) (p : program) (st : strategy) (s : sim) : Prop :=
  exists cs, s = fst (run_cmds fuel p (init_sim st) cs).

Lemma run_cmds_QI fuel p cs : forall s m,
  QI s m -> exists m', QI (fst (run_cmds fuel p s cs)) m'.
Proof.
  induction cs as [|c r IH]; intros s m Q; cbn [run_cmds].
  - exists m. exact Q.
  - destruct (do_cmd fuel p s c) as [s1 res] eqn:E.
    destruct (do_cmd_QI fuel p s m c s1 res Q E) as [m1 [_ Q1]].
    destruct (IH s1 m1 Q1) as [m' Q'].
    destruct (run_cmds fuel p s1 r) as [s2 sn]. cbn [fst] in *. exists m'. exact Q'.
Qed.

Lemma reachable_QI fuel p st s : reachable fuel p st s -> exists m, QI s m.
Proof.
  intros [cs ->]. apply (run_cmds_QI fuel p cs _ _ (QI_init st)).
Qed.

Theorem reachable_qinv fuel p st s : reachable fuel p st s -> qinv s = true.
Proof. intros H. destruct (reachable_QI _ _ _ _ H) as [m Q]. exact (qi_q _ _ Q). Qed.

Theorem accept_refuse_table fuel p st s c :
  reachable fuel p st s -> snd (do_cmd fuel p s c) = table_of p s c.
Proof.
  intros H. destruct (reachable_QI _ _ _ _ H) as [m Q].
  apply accept_refuse_table_inv. intros Hi.
  destruct (qi_rep _ _ Q Hi) as [r [Hr _]]. congruence.
Qed.

(* ENDED is absorbing: the run state is ENDED too, the run thread has
   terminated, and start / step / stop / bounded runs / end_replication are
   refused (so, by refused_changes_nothing, leave everything as it is) *)
Definition leaves_ended (c : cmd) : bool :=
  match c with CInit _ | CCleanup => true | _ => false end.

Theorem ended_absorbing fuel p st s :
  reachable fuel p st s -> ps s = PEnded ->
  rs s = REnded /\ worker s = WFinal /\ alive_count s = 0%nat /\
  forall c, leaves_ended c = false -> do_cmd fuel p s c = (s, ResRefused).
Proof.
  intros H Hps. pose proof (reachable_qinv _ _ _ _ H) as Q.
  destruct (qinv_cases s Q) as [[_ [E _]]|[[_ [E _]]|[[_ [E _]]|[E1 [_ E2]]]]]; try congruence.
  split; [exact E1|]. split; [exact E2|]. split; [unfold alive_count; rewrite E2; reflexivity|].
  intros c Hc.
  pose proof (accept_refuse_table fuel p st s c H) as T.
  assert (R : snd (do_cmd fuel p s c) = ResRefused).
  { rewrite T. unfold table_of. rewrite E1, Hps. destruct c; try discriminate; reflexivity. }
  destruct (do_cmd fuel p s c) as [s' res] eqn:E. cbn [snd] in R. subst res.
  apply refused_changes_nothing in E. subst s'. reflexivity.
Qed.

(* cleanup always terminates the run thread and resets both states *)
Theorem cleanup_terminates_worker fuel p s :
  let s' := fst (do_cmd fuel p s CCleanup) in
  snd (do_cmd fuel p s CCleanup) = ResOk /\
  worker s' = WNone /\ alive_count s' = 0%nat /\ rs s' = RNotInit /\ ps s' = PNotInit.
Proof. cbn. auto. Qed.

(* the run thread is alive exactly in the states INITIALIZED and STARTED, and
   after an initialize aborted by construct_model (until the next initialize /
   cleanup) *)
Theorem alive_iff_runnable fuel p st s :
  reachable fuel p st s ->
  alive_count s = (if ps_runnable (ps s) || holds_aborted_thread s then 1%nat else 0%nat).
Proof.
  intros H. pose proof (reachable_qinv _ _ _ _ H) as Q. unfold alive_count, holds_aborted_thread.
  destruct (qinv_cases s Q) as [[-> [-> [->| ->]]]|[[-> [-> ->]]|[[-> [-> ->]]|[-> [-> ->]]]]]; reflexivity.
Qed.

(* companion: when construct_model does not raise, no state holds an aborted
   run thread, so the run thread is alive exactly in INITIALIZED / STARTED *)
Lemma mon_step_live m n m1 : mon_step m n = Some m1 -> m_live m1 = true.
Proof.
  unfold mon_step. destruct (m_live m) eqn:L; cbn [negb orb]; [|discriminate].
  destruct (m_er m); [discriminate|].
  destruct (m_starting m); destruct n; try discriminate;
    repeat match goal with |- context [if ?x then _ else _] => destruct x end;
    intros H; try discriminate; injection H as <-; try reflexivity; exact L.
Qed.

Lemma mon_feed_live l : forall m m1, m_live m = true -> mon_feed m l = Some m1 -> m_live m1 = true.
Proof.
  induction l as [|n r IH]; intros m m1 L H; cbn [mon_feed] in H.
  - injection H as <-. exact L.
  - destruct (mon_step m n) as [m'|] eqn:E; [|discriminate].
    apply (IH m' m1); [eapply mon_step_live; exact E|exact H].
Qed.

Lemma no_abort_step fuel p s m c s1 res :
  construct_raises p = false -> QI s m -> holds_aborted_thread s = false ->
  do_cmd fuel p s c = (s1, res) -> holds_aborted_thread s1 = false.
Proof.
  intros Hp Q N H.
  destruct (do_cmd_QI fuel p s m c s1 res Q H) as [m1 [F Q1]].
  assert (T : res = table_of p s c).
  { pose proof (accept_refuse_table_inv fuel p s c) as T. rewrite H in T. cbn [snd] in T. apply T.
    intros Hi. destruct (qi_rep _ _ Q Hi) as [r' [Hr' _]]. congruence. }
  destruct (agrees_inv _ _ _ (qi_agree _ _ Q)) as [A _].
  destruct (agrees_inv _ _ _ (qi_agree _ _ Q1)) as [A1 _].
  assert (Live : m_live m1 = true -> holds_aborted_thread s1 = false).
  { intros L. rewrite L in A1. unfold holds_aborted_thread. destruct (rs s1); try reflexivity. discriminate. }
  pose proof (qinv_not_running s (qi_q _ _ Q)) as Hrun. rewrite running_rs in Hrun.
  destruct c.
  - (* initialize: accepted (construct_model does not raise), so initialized afterwards *)
    unfold table_of, table in T. rewrite Hrun, Hp in T. subst res. cbn [mon_reset] in F.
    apply Live. eapply mon_feed_live; [|exact F]. reflexivity.
  - cbn [do_cmd] in H. injection H as <- <-. exact N.
  - destruct (rs_initialized (rs s)) eqn:Hi.
    + apply Live. cbn [mon_reset] in F. eapply mon_feed_live; [|exact F]. congruence.
    + unfold table_of, table in T. rewrite Hi, andb_false_r in T. cbn [andb] in T. subst res.
      apply refused_changes_nothing in H. subst s1. exact N.
  - destruct (rs_initialized (rs s)) eqn:Hi.
    + apply Live. cbn [mon_reset] in F. eapply mon_feed_live; [|exact F]. congruence.
    + unfold table_of, table in T. rewrite Hi, andb_false_r in T. cbn [andb] in T. subst res.
      apply refused_changes_nothing in H. subst s1. exact N.
  - unfold table_of, table in T. rewrite Hrun in T. subst res.
    apply refused_changes_nothing in H. subst s1. exact N.
  - destruct (rs_initialized (rs s)) eqn:Hi.
    + apply Live. cbn [mon_reset] in F. eapply mon_feed_live; [|exact F]. congruence.
    + unfold table_of, table in T. rewrite Hi, andb_false_r in T. cbn [andb] in T. subst res.
      apply refused_changes_nothing in H. subst s1. exact N.
  - destruct (rs_initialized (rs s)) eqn:Hi.
    + apply Live. cbn [mon_reset] in F. eapply mon_feed_live; [|exact F]. congruence.
    + unfold table_of, table in T. rewrite Hi, andb_false_r in T. cbn [andb] in T. subst res.
      apply refused_changes_nothing in H. subst s1. exact N.
  - destruct (rs_initialized (rs s)) eqn:Hi.
    + apply Live. cbn [mon_reset] in F. eapply mon_feed_live; [|exact F]. congruence.
    + destruct (qinv_cases s (qi_q _ _ Q)) as [[_ [E _]]|[[E _]|[[E _]|[E _]]]];
        try (rewrite E in Hi; discriminate).
      unfold table_of, table in T. rewrite E in T. subst res.
      apply refused_changes_nothing in H. subst s1. exact N.
  - cbn [do_cmd] in H. injection H as <- <-. reflexivity.
Qed.

Theorem no_aborted_thread_without_failing_construct fuel p st s :
  construct_raises p = false -> reachable fuel p st s -> holds_aborted_thread s = false.
Proof.
  intros Hp [cs ->].
  assert (G : forall cs s m, QI s m -> holds_aborted_thread s = false ->
              holds_aborted_thread (fst (run_cmds fuel p s cs)) = false).
  { clear cs. induction cs as [|c r IH]; intros s m Q N; cbn [run_cmds]; [exact N|].
    destruct (do_cmd fuel p s c) as [s1 res] eqn:E.
    destruct (do_cmd_QI fuel p s m c s1 res Q E) as [m1 [_ Q1]].
    pose proof (no_abort_step fuel p s m c s1 res Hp Q N E) as N1.
    specialize (IH s1 m1 Q1 N1). destruct (run_cmds fuel p s1 r) as [s2 sn]. exact IH. }
  apply (G cs _ _ (QI_init st)). reflexivity.
Qed.

(* ---- histories in which the model program may differ from command to command
   (in particular: construct_model raises in some initialize calls and not in
   others).  Every step preserves the invariant QI whatever the program is. ---- *)
Inductive vreach (fuel : nat) : sim -> Prop :=
| vr_init st : vreach fuel (init_sim st)
| vr_step s p c : vreach fuel s -> vreach fuel (fst (do_cmd fuel p s c)).

Lemma vreach_QI fuel s : vreach fuel s -> exists m, QI s m.
Proof.
  intros H. induction H as [st|s p c H [m Q]].
  - exists mon_dead. apply QI_init.
  - destruct (do_cmd fuel p s c) as [s1 res] eqn:E.
    destruct (do_cmd_QI fuel p s m c s1 res Q E) as [m1 [_ Q1]]. exists m1. exact Q1.
Qed.

Lemma run_cmds_vreach fuel p cs : forall s, vreach fuel s -> vreach fuel (fst (run_cmds fuel p s cs)).
Proof.
  induction cs as [|c r IH]; intros s H; cbn [run_cmds]; [exact H|].
  pose proof (vr_step fuel s p c H) as H1.
  destruct (do_cmd fuel p s c) as [s1 res]. cbn [fst] in H1.
  specialize (IH s1 H1). destruct (run_cmds fuel p s1 r) as [s2 sn]. exact IH.
Qed.

Lemma reachable_vreach fuel p st s : reachable fuel p st s -> vreach fuel s.
Proof. intros [cs ->]. apply run_cmds_vreach. apply vr_init. Qed.

(* Run-thread accounting over all such histories, aborted initializes included:
   there is never more than one live run thread (an initialize terminates the
   previous one before it creates the next, also after an abort); none after
   cleanup; none once the replication has ENDED; a live one exactly when the
   replication is INITIALIZED / STARTED or an aborted initialize left its new
   thread waiting *)
Theorem run_thread_accounting fuel s :
  vreach fuel s ->
  (alive_count s <= 1)%nat /\
  (ps s = PEnded -> alive_count s = 0%nat) /\
  (forall p, alive_count (fst (do_cmd fuel p s CCleanup)) = 0%nat) /\
  (alive_count s = 1%nat <-> ps_runnable (ps s) = true \/ holds_aborted_thread s = true) /\
  (* the initialize that follows replaces the thread, it does not add one *)
  (forall p r, (alive_count (fst (do_cmd fuel p s (CInit r))) <= 1)%nat).
Proof.
  intros H. destruct (vreach_QI fuel s H) as [m Q]. pose proof (qi_q _ _ Q) as Qq.
  unfold alive_count, holds_aborted_thread.
  split; [destruct (worker s); lia|]. split; [|split; [|split]].
  - intros E. destruct (qinv_cases s Qq) as [[_ [E1 _]]|[[_ [E1 _]]|[[_ [E1 _]]|[_ [_ ->]]]]]; try congruence.
  - intros p. reflexivity.
  - destruct (qinv_cases s Qq) as [[-> [-> [->| ->]]]|[[-> [-> ->]]|[[-> [-> ->]]|[-> [-> ->]]]]]; cbn;
      split; auto; try discriminate; intros [E|E]; discriminate.
  - intros p r. destruct (worker (fst (do_cmd fuel p s (CInit r)))); lia.
Qed.

(* TIME_CHANGED carries the time of the event that is executed next.  For
   every state: one pass of the run loop emits TIME_CHANGED(t) for the time t of
   the first pending event (exactly when t differs from the clock), then
   executes that very event with the clock at t; whatever else is notified in
   the pass is the WARMUP of the warm-up event or STOPPING from the handler.
   [run_loop] is the iteration of [take_event] (Model.v), [step] uses
   [step_event], which always notifies. *)
Lemma exec_event_emits md p s e :
  exists l, ntfs (fst (exec_event md p s e)) = rev l ++ ntfs s /\
            trace (fst (exec_event md p s e)) = (e, clock s) :: trace s /\
            (forall n, In n l -> n = NStopping \/ n = NWarmup (clock s)).
Proof.
  unfold exec_event. destruct (ev_h e) as [|h].
  - exists [NWarmup (clock s)]. cbn [fst]. ssimpl. split; [reflexivity|]. split; [reflexivity|].
    intros n [<-|[]]. right. reflexivity.
  - set (s1 := set_trace ((e, clock s) :: trace s) s).
    pose proof (exec_actions_hstep md (body p h) s1) as Hh.
    destruct Hh as [_ _ _ _ _ _ _ H8 _ [k [Hk _]] _].
    exists (repeat NStopping k). rewrite rev_repeat. split; [exact Hk|]. split; [exact H8|].
    intros n Hn. left. apply repeat_spec in Hn. exact Hn.
Qed.

Theorem time_changed_is_next_event p s e r :
  exists l,
    ntfs (take_event p s e r) = rev l ++ rev (tc_part s e) ++ ntfs s /\
    trace (take_event p s e r) = (e, ev_time e) :: trace s /\
    (forall n, In n l -> n = NStopping \/ n = NWarmup (ev_time e)).
Proof.
  unfold take_event.
  set (s1 := if ev_time e =? clock (set_pend r s) then set_pend r s
             else emit (NTime (ev_time e)) (set_pend r s)).
  set (s2 := set_clock (ev_time e) s1).
  destruct (exec_event_emits InRun p s2 e) as [l [L1 [L2 L3]]].
  assert (N2 : ntfs s2 = rev (tc_part s e) ++ ntfs s).
  { unfold s2, s1, tc_part. ssimpl. destruct (ev_time e =? clock s); reflexivity. }
  assert (T2 : trace s2 = trace s).
  { unfold s2, s1. ssimpl. destruct (ev_time e =? clock s); reflexivity. }
  change (clock s2) with (ev_time e) in *.
  destruct (exec_event InRun p s2 e) as [s3 failed]. cbn [fst] in *.
  exists l. rewrite N2 in L1. rewrite T2 in L2.
  destruct failed; [destruct (strat s3)|]; ssimpl; auto.
Qed.

Theorem step_time_changed_is_event p s e r :
  exists l,
    ntfs (step_event p s e r) = rev l ++ NTime (ev_time e) :: ntfs s /\
    trace (step_event p s e r) = (e, ev_time e) :: trace s /\
    (forall n, In n l -> n = NStopping \/ n = NWarmup (ev_time e)).
Proof.
  unfold step_event.
  set (b := set_clock (ev_time e) (emit (NTime (ev_time e)) (set_pend r s))).
  destruct (exec_event_emits InStep p b e) as [l [L1 [L2 L3]]].
  exists l. auto.
Qed.

Lemma run_loop_unfold f p s :
  run_loop (S f) p s =
  if running s then
    match pend s with
    | [] => stop_at_bound s
    | e :: r => if beyond s e then stop_at_bound s else run_loop f p (take_event p s e r)
    end
  else s.
Proof. reflexivity. Qed.
