(* C05 -- fault containment under LOG_AND_CONTINUE, WARN_AND_CONTINUE and
   WARN_AND_PAUSE.  [truncate p] is the program in which every handler stops
   (returns normally) at its first failure point. *)
From Coq Require Import ZArith List Bool Lia.
From PV Require Import EventList.Key Sim.Model Sim.Order Sim.Horizon.
Import ListNotations.
Local Open Scope Z_scope.

Fixpoint trunc (acts : list action) : list action :=
  match acts with
  | [] => []
  | AFail :: _ => []
  | a :: r => a :: trunc r
  end.

Definition truncate (p : program) : program := map trunc p.

Definition is_fail (a : action) : bool := match a with AFail => true | _ => false end.
Definition fails (acts : list action) : bool := existsb is_fail acts.

Lemma body_truncate p h : body (truncate p) h = trunc (body p h).
Proof. unfold body, truncate. change (@nil action) with (trunc []) at 1. apply map_nth. Qed.

Lemma trunc_no_fail acts : fails (trunc acts) = false.
Proof. induction acts as [|a r IH]; cbn [trunc]; auto. destruct a; cbn [fails existsb is_fail orb]; auto. Qed.

(* a handler body fails exactly when it contains a failure point *)
Lemma exec_actions_failed md acts : forall s, snd (exec_actions md s acts) = fails acts.
Proof.
  induction acts as [|a r IH]; intros s; cbn [exec_actions fails existsb snd]; auto.
  destruct a; cbn [exec_action is_fail orb]; try apply IH. reflexivity.
Qed.

(* up to the failure point the truncated body does exactly the same *)
Lemma exec_actions_trunc md acts : forall s,
  fst (exec_actions md s (trunc acts)) = fst (exec_actions md s acts).
Proof.
  induction acts as [|a r IH]; intros s; cbn [trunc]; auto.
  destruct a; cbn [exec_actions exec_action fst]; try apply IH. reflexivity.
Qed.

Lemma exec_event_trunc md p s e :
  fst (exec_event md (truncate p) s e) = fst (exec_event md p s e).
Proof.
  unfold exec_event. destruct (ev_h e); auto. rewrite body_truncate. apply exec_actions_trunc.
Qed.

Lemma exec_event_failed md p s e :
  snd (exec_event md p s e) = match ev_h e with HWarm => false | HUser h => fails (body p h) end.
Proof. unfold exec_event. destruct (ev_h e); auto. apply exec_actions_failed. Qed.

Lemma exec_event_strat md p s e : strat (fst (exec_event md p s e)) = strat s.
Proof. apply (fr_strat _ _ (hs_frame _ _ (exec_event_hstep md p s e))). Qed.

(* ------------------------------------------------------------------ *)
(** * LOG_AND_CONTINUE / WARN_AND_CONTINUE: failures are transparent *)

Lemma take_event_trunc p s e r :
  strat s <> SWarnPause -> take_event (truncate p) s e r = take_event p s e r.
Proof.
  intros Hs. unfold take_event.
  set (s2 := set_clock (ev_time e) _).
  pose proof (exec_event_trunc InRun p s2 e) as E.
  pose proof (exec_event_strat InRun p s2 e) as S1.
  pose proof (exec_event_strat InRun (truncate p) s2 e) as S2.
  destruct (exec_event InRun (truncate p) s2 e) as [t3 f2], (exec_event InRun p s2 e) as [s3 f1].
  cbn [fst] in *. subst t3.
  assert (St : strat s3 <> SWarnPause).
  { rewrite S1. unfold s2. ssimpl. destruct (ev_time e =? clock s); ssimpl; exact Hs. }
  destruct f1, f2; destruct (strat s3); auto; contradiction.
Qed.

Lemma take_event_strat p s e r : pend s = e :: r -> strat (take_event p s e r) = strat s.
Proof. intros Hp. destruct (took_bound _ _ _ _ (take_event_took p s e r Hp)) as (_&_&_&_&S&_). exact S. Qed.

Lemma run_loop_trunc p fuel : forall s,
  strat s <> SWarnPause -> run_loop fuel (truncate p) s = run_loop fuel p s.
Proof.
  induction fuel as [|f IH]; intros s Hs; cbn [run_loop]; auto.
  destruct (running s); auto. destruct (pend s) as [|e r] eqn:Hp; auto. destruct (beyond s e); auto.
  rewrite (take_event_trunc p s e r Hs). apply IH. rewrite (take_event_strat p s e r Hp). exact Hs.
Qed.

Lemma step_event_trunc p s e r : step_event (truncate p) s e r = step_event p s e r.
Proof. unfold step_event. apply exec_event_trunc. Qed.

(* step() contains the failure under every strategy *)
Lemma do_step_trunc p s : do_step (truncate p) s = do_step p s.
Proof.
  unfold do_step. destruct (step_checks s); auto. cbv zeta.
  set (s1 := match ps s with PInit => _ | _ => s end).
  set (s2 := emit (NStart (clock s1)) (set_rs RStarted s1)).
  destruct (pend s2) as [|e r]; auto.
  destruct (ev_time e >? end_time s2); auto. rewrite step_event_trunc. reflexivity.
Qed.

Lemma worker_run_trunc p fuel s :
  strat s <> SWarnPause -> worker_run fuel (truncate p) s = worker_run fuel p s.
Proof.
  intros Hs. unfold worker_run. destruct (worker s); auto. destruct (ps s); auto;
    rewrite (run_loop_trunc p fuel); auto.
Qed.

Lemma do_start_trunc p fuel s b i :
  strat s <> SWarnPause -> do_start fuel (truncate p) s b i = do_start fuel p s b i.
Proof.
  intros Hs. unfold do_start. destruct (start_checks s); auto. destruct b as [bz|]; auto.
  destruct (bz <? clock s); auto.
  destruct (bz >? end_time s); cbv zeta; rewrite worker_run_trunc; auto; ssimpl; destruct (ps s); ssimpl; auto.
Qed.

Lemma do_end_repl_trunc p fuel s :
  do_end_repl fuel (truncate p) s = do_end_repl fuel p s.
Proof.
  unfold do_end_repl. destruct (ps s); auto.
Qed.

(** Under the two continue strategies every command other than initialize
    leaves exactly the state it leaves for the program in which the failing
    handlers return normally at their failure point. *)
Theorem continue_transparent p fuel s c :
  strat s <> SWarnPause -> is_init c = false ->
  do_cmd fuel (truncate p) s c = do_cmd fuel p s c.
Proof.
  intros Hs Hc. destruct c as [r| | | | |t|t| |]; cbn [do_cmd].
  - discriminate.
  - reflexivity.
  - destruct (rep s); [|reflexivity]. apply do_start_trunc; exact Hs.
  - apply do_step_trunc.
  - reflexivity.
  - apply do_start_trunc; exact Hs.
  - apply do_start_trunc; exact Hs.
  - apply do_end_repl_trunc.
  - reflexivity.
Qed.

Lemma do_cmd_strat p fuel s c : strat (fst (do_cmd fuel p s c)) = strat s.
Proof.
  assert (St : forall b i, strat (fst (do_start fuel p s b i)) = strat s).
  { intros b i. unfold do_start. destruct (start_checks s); auto. destruct b as [bz|]; auto.
    destruct (bz <? clock s); auto.
    assert (W : forall x, strat (worker_run fuel p x) = strat x).
    { intros x. unfold worker_run. destruct (worker x); auto.
      assert (E : forall y, strat (worker_ending y) = strat y) by (intros y; unfold worker_ending; destruct (ps y); reflexivity).
      destruct (ps x); rewrite E; ssimpl; auto;
        destruct (run_loop_fixed p fuel (set_rs RStarted (emit (NStart (clock x)) x))) as (_&_&_&_&S); exact S. }
    destruct (bz >? end_time s); cbv zeta; cbn [fst]; rewrite W; ssimpl; destruct (ps s); reflexivity. }
  destruct c; cbn [do_cmd fst]; auto.
  - unfold do_init. destruct (running s); auto.
    set (s2 := set_created [] _).
    assert (S2 : strat s2 = strat s) by (unfold s2; destruct (worker (set_pend [] s)); reflexivity).
    pose proof (fr_strat _ _ (hs_frame _ _ (exec_actions_hstep InConstruct (body p 0) s2))) as S3.
    destruct (exec_actions InConstruct s2 (body p 0)) as [s3 failed]. cbn [fst] in *.
    destruct failed; [ssimpl; congruence|].
    set (s5 := set_ps PInit _).
    assert (S5 : strat s5 = strat s3) by (unfold s5; reflexivity).
    destruct (r_warm r <? clock s5); ssimpl; congruence.
  - destruct (rep s); auto.
  - unfold do_step. destruct (step_checks s); auto. cbv zeta. cbn [fst]. ssimpl.
    set (s1 := match ps s with PInit => _ | _ => s end).
    set (s2 := emit (NStart (clock s1)) (set_rs RStarted s1)).
    assert (S2 : strat s2 = strat s) by (unfold s2, s1; destruct (ps s); reflexivity).
    change (strat match pend s2 with [] => s2 | e :: r => if ev_time e >? end_time s2 then s2 else step_event p s2 e r end = strat s).
    destruct (pend s2) as [|e r] eqn:Hp; auto. destruct (ev_time e >? end_time s2); auto.
    destruct (took_bound _ _ _ _ (step_event_took p s2 e r Hp)) as (_&_&_&_&S&_). congruence.
  - destruct (running s); reflexivity.
  - unfold do_end_repl. destruct (ps s); auto. cbn [fst].
    set (s2 := set_pend [] _).
    assert (S2 : strat s2 = strat s) by (unfold s2; destruct (clock s <? end_time s); reflexivity).
    unfold worker_run. destruct (worker s2); auto.
Qed.

Theorem continue_transparent_cmds p fuel cs : forall s,
  strat s <> SWarnPause -> forallb (fun c => negb (is_init c)) cs = true ->
  run_cmds fuel (truncate p) s cs = run_cmds fuel p s cs.
Proof.
  induction cs as [|c r IH]; intros s Hs Hc; cbn [run_cmds]; auto.
  cbn [forallb] in Hc. apply andb_true_iff in Hc. destruct Hc as [Hc Hr].
  rewrite (continue_transparent p fuel s c Hs); [|destruct c; auto; discriminate].
  pose proof (do_cmd_strat p fuel s c) as St.
  destruct (do_cmd fuel p s c) as [s1 res]. cbn [fst] in St.
  rewrite IH; auto. rewrite St. exact Hs.
Qed.

(* ------------------------------------------------------------------ *)
(** * WARN_AND_PAUSE *)

Definition handler_fails (p : program) (e : ev) : bool :=
  match ev_h e with HWarm => false | HUser h => fails (body p h) end.

Lemma take_event_rs_pause p s e r :
  strat s = SWarnPause -> handler_fails p e = true -> rs (take_event p s e r) = RStopping.
Proof.
  intros Hs Hf. unfold take_event.
  set (s2 := set_clock (ev_time e) _).
  pose proof (exec_event_failed InRun p s2 e) as F. fold (handler_fails p e) in F. rewrite Hf in F.
  pose proof (exec_event_strat InRun p s2 e) as S1.
  destruct (exec_event InRun p s2 e) as [s3 f1]. cbn [fst snd] in *. subst f1.
  assert (St : strat s3 = SWarnPause).
  { rewrite S1. unfold s2. ssimpl. destruct (ev_time e =? clock s); ssimpl; exact Hs. }
  rewrite St. reflexivity.
Qed.

(** Under WARN_AND_PAUSE the loop leaves right after the failing event:
    nothing later is executed by this run, the run state is STOPPING (STOPPED
    once the worker has fired STOP), the replication state is untouched. *)
Theorem pause_stops_immediately p fuel s e r :
  running s = true -> pend s = e :: r -> beyond s e = false ->
  strat s = SWarnPause -> handler_fails p e = true ->
  let s' := run_loop (S fuel) p s in
  s' = take_event p s e r
  /\ rs s' = RStopping /\ ps s' = ps s
  /\ trace s' = (e, ev_time e) :: trace s /\ clock s' = ev_time e.
Proof.
  intros R Hp B Hs Hf. cbv zeta. cbn [run_loop]. rewrite R, Hp, B.
  pose proof (take_event_rs_pause p s e r Hs Hf) as Rs.
  pose proof (take_event_took p s e r Hp) as T.
  assert (E : run_loop fuel p (take_event p s e r) = take_event p s e r).
  { destruct fuel; cbn [run_loop]; unfold running; rewrite Rs; reflexivity. }
  rewrite E. split; auto. split; auto.
  destruct (took_bound _ _ _ _ T) as (_&_&_&P&_). split; auto.
  split; [apply (took_trace _ _ _ _ T)|apply (took_clock _ _ _ _ T)].
Qed.

(* the whole command: STOPPED / STARTED, resumable *)
Theorem pause_leaves_resumable p fuel s b i a :
  Entered s b i a -> b <= end_time s ->
  ps (run_loop fuel p a) <> PEnding ->
  let s' := after_loop (run_loop fuel p a) in
  rs s' = RStopped /\ ps s' = PStarted /\ Live s'.
Proof.
  intros En Le Hne s'.
  destruct (started_quiet p fuel s b i a En Le) as [[P L]|[P _]]; fold s' in P; try fold s' in L.
  - split; [|split; auto]. unfold s', after_loop, worker_ending. ssimpl.
    destruct (ps (run_loop fuel p a)) eqn:Q; try reflexivity. contradiction.
  - exfalso. destruct (after_loop_ps (run_loop fuel p a)) as [_ P2]. destruct (P2 Hne) as [A _].
    fold s' in A. destruct (run_loop_ps p fuel a) as [Q|Q]; [|contradiction].
    rewrite (en_ps _ _ _ _ En) in Q. congruence.
Qed.

Lemma core_body_trunc acts : core_body (trunc acts) = core_body acts.
Proof.
  induction acts as [|a r IH]; cbn [trunc core_body]; auto.
  destruct a; cbn [core_body]; rewrite ?IH; auto.
Qed.

Lemma prog_equiv_truncate p : prog_equiv p (truncate p).
Proof. intros h. rewrite body_truncate, core_body_trunc. reflexivity. Qed.

(** Resuming executes exactly the remaining events: however the replication
    is driven to its end under any strategy (in particular WARN_AND_PAUSE with a
    start after every pause), the executed events with their clocks and the
    final clock are those of one uninterrupted start of the program in which
    the failing handlers return normally at their failure point. *)
Theorem pause_resume p fuel fuel' cs s :
  Quiet s -> forallb is_runcmd cs = true ->
  let s1 := fst (run_cmds fuel p s cs) in
  let t1 := fst (do_cmd fuel' (truncate p) s CStart) in
  ps s1 = PEnded -> incl s1 = true -> ps t1 = PEnded -> incl t1 = true ->
  trace s1 = trace t1 /\ clock s1 = clock t1 /\ pend s1 = pend t1 /\ cancelled s1 = cancelled t1.
Proof.
  intros Q Hc s1 t1 P1 I1 P2 I2.
  pose proof (segmentation p (truncate p) fuel fuel' cs [CStart] s s (prog_equiv_truncate p)
                (core_eq_refl s) Q Q Hc eq_refl) as H.
  cbv zeta in H. cbn [run_cmds] in H.
  destruct (do_cmd fuel' (truncate p) s CStart) as [t2 res] eqn:E. cbn [fst] in *.
  destruct (H P1 I1 P2 I2) as [(A&_&_&T&X&_) K]. auto.
Qed.

(* ------------------------------------------------------------------ *)
(** * A failing step *)

Lemma step_checks_ps s : step_checks s = true -> ps s = PInit \/ ps s = PStarted.
Proof.
  unfold step_checks. intros H. apply andb_true_iff in H. destruct H as [H _].
  apply andb_true_iff in H. destruct H as [_ H]. destruct (ps s); auto; discriminate.
Qed.

(** step() on an event whose handler fails: accepted, the failure does not
    escape (the result is an ordinary outcome), STOP is the last notification,
    the simulator is STOPPED with the replication STARTED, and the state is
    exactly the state after a step of the program whose handler returns
    normally at the failure point -- so every later command behaves as after a
    normal step. *)
Theorem step_fault_contained p s :
  do_step (truncate p) s = do_step p s
  /\ (step_checks s = true ->
      let s' := fst (do_step p s) in
      snd (do_step p s) = ResOk /\ rs s' = RStopped /\ ps s' = PStarted
      /\ exists t, ntfs s' = NStop t :: tl (ntfs s') /\ t = clock s').
Proof.
  split; [apply do_step_trunc|].
  intros Ck. unfold do_step. rewrite Ck. cbv zeta. cbn [fst snd].
  set (s1 := match ps s with PInit => _ | _ => s end).
  set (s2 := emit (NStart (clock s1)) (set_rs RStarted s1)).
  assert (P2 : ps s2 = PStarted).
  { unfold s2, s1. destruct (step_checks_ps s Ck) as [Q|Q]; rewrite Q; ssimpl; auto. }
  set (s3 := match pend s2 with [] => s2 | _ => _ end).
  assert (P3 : ps s3 = PStarted).
  { unfold s3. destruct (pend s2) as [|e r] eqn:Hp; auto. destruct (ev_time e >? end_time s2); auto.
    destruct (took_bound _ _ _ _ (step_event_took p s2 e r Hp)) as (_&_&_&P&_). congruence. }
  split; auto. split; [reflexivity|]. split; [exact P3|].
  exists (clock s3). split; reflexivity.
Qed.
